// X06 harness (Part A): Compiler::invoke end to end on the x86-64 host (System V).
//
//   invoke run  <scenarios.ndjson> <trace.ndjson>      build + execute every scenario (one forked child each), record a trace
//   invoke dump <scenarios.ndjson> <k>                 print the Compiler's log of scenario k (debugging aid, not used by the check)
//
// A scenario (written by checks/x06.py or exported by TLC from spec/comp/InvokeMC.tla, placements added by TLC from
// spec/func/ABI.tla) describes a caller f: its signature, typed virtual registers, a structured list of steps (bind argument,
// load constant, move, add, invoke callee c with designated operands, store to the out buffer, loop, if, aligned stack
// probes) and the value returned.  The harness translates the steps 1:1 into x86::Compiler API calls; it computes neither
// calling-convention placements nor expected values:
//   * f is entered through an assembly trampoline that loads the register file / stack block the scenario's `place`
//     (computed by TLC from ABI.tla) says, with canaries in the callee-saved registers;
//   * every callee is one of 16 assembly thunks that dump the raw argument registers, al, 8 vector registers and the
//     stack words above the return address, return the bit patterns the scenario prescribes in rax/rdx/xmm0/xmm1 and
//     overwrite every other caller-saved register before returning.
// The trace (Scenario, Enter, Call*, Leave | Crash per run) is judged by spec/comp/InvokeTrace.tla.
#include <asmjit/core.h>
#include <asmjit/x86.h>
#include "vjson.h"
#include <signal.h>
#include <sys/wait.h>
#include <unistd.h>
#include <stddef.h>
#include <string>
#include <vector>
#include <map>

using namespace asmjit;

// ---------------------------------------------------------------------------------------------------------------------
// raw frames shared with the assembly below (offsets are asserted)
// ---------------------------------------------------------------------------------------------------------------------
struct RecFrame {
  uint64_t gp[6];          //   0  rdi rsi rdx rcx r8 r9 at entry
  uint64_t rax;            //  48  rax at entry (al = vector register count of a variadic call)
  uint64_t idx;            //  56  thunk index
  uint64_t entry_rsp;      //  64  rsp at entry (address of the return address)
  uint64_t cs[6];          //  72  rbx rbp r12 r13 r14 r15 at entry
  uint64_t pad0;           // 120
  uint8_t vec[8][64];      // 128  xmm/ymm/zmm0-7 at entry (16 / 32 / 64 bytes valid by level)
  uint64_t ret_rax;        // 640
  uint64_t ret_rdx;        // 648
  uint64_t pad1[6];        // 656
  uint8_t ret_vec[2][64];  // 704
};
static_assert(offsetof(RecFrame, rax) == 48 && offsetof(RecFrame, idx) == 56 && offsetof(RecFrame, entry_rsp) == 64, "layout");
static_assert(offsetof(RecFrame, cs) == 72 && offsetof(RecFrame, vec) == 128 && offsetof(RecFrame, ret_rax) == 640, "layout");
static_assert(offsetof(RecFrame, ret_rdx) == 648 && offsetof(RecFrame, ret_vec) == 704 && sizeof(RecFrame) == 832, "layout");

struct CallBlock {
  uint64_t gp[6];          //   0
  uint64_t nstack;         //  48
  uint64_t* stack;         //  56
  uint8_t vec[8][64];      //  64
  uint64_t out_rax;        // 576
  uint64_t out_rdx;        // 584
  uint64_t cs_in[6];       // 592  rbx r12 r13 r14 r15 (+1 unused)
  uint64_t cs_out[6];      // 640  rbx r12 r13 r14 r15 rbp
  uint64_t sp_before;      // 688
  uint64_t sp_after;       // 696
  uint8_t out_vec[2][64];  // 704
  uint64_t rax_in;         // 832
  uint64_t rbp_before;     // 840
};
static_assert(offsetof(CallBlock, nstack) == 48 && offsetof(CallBlock, stack) == 56 && offsetof(CallBlock, vec) == 64, "layout");
static_assert(offsetof(CallBlock, out_rax) == 576 && offsetof(CallBlock, cs_in) == 592 && offsetof(CallBlock, cs_out) == 640, "layout");
static_assert(offsetof(CallBlock, sp_before) == 688 && offsetof(CallBlock, out_vec) == 704 && offsetof(CallBlock, rax_in) == 832, "layout");
static_assert(offsetof(CallBlock, rbp_before) == 840, "layout");

extern "C" {
int x06_vec_level = 0;                 // 0 = SSE (xmm), 1 = AVX (ymm), 2 = AVX-512 (zmm)
alignas(64) uint8_t x06_junk[64];      // what caller-saved vector registers are overwritten with
void x06_record(RecFrame* fr);
void x06_call(void* fn, CallBlock* blk);
void x06_thunk_0(); void x06_thunk_1(); void x06_thunk_2(); void x06_thunk_3(); void x06_thunk_4(); void x06_thunk_5();
void x06_thunk_6(); void x06_thunk_7(); void x06_thunk_8(); void x06_thunk_9(); void x06_thunk_10(); void x06_thunk_11();
void x06_thunk_12(); void x06_thunk_13(); void x06_thunk_14(); void x06_thunk_15();
}
typedef void (*ThunkFn)();
static ThunkFn g_thunks[16] = { x06_thunk_0, x06_thunk_1, x06_thunk_2, x06_thunk_3, x06_thunk_4, x06_thunk_5, x06_thunk_6, x06_thunk_7,
                                x06_thunk_8, x06_thunk_9, x06_thunk_10, x06_thunk_11, x06_thunk_12, x06_thunk_13, x06_thunk_14, x06_thunk_15 };

asm(R"ASM(
  .text
  .intel_syntax noprefix
  .macro X06THUNK n
  .globl x06_thunk_\n
  .type x06_thunk_\n, @function
x06_thunk_\n:
  mov r11d, \n
  jmp x06_thunk_common
  .endm
  X06THUNK 0
  X06THUNK 1
  X06THUNK 2
  X06THUNK 3
  X06THUNK 4
  X06THUNK 5
  X06THUNK 6
  X06THUNK 7
  X06THUNK 8
  X06THUNK 9
  X06THUNK 10
  X06THUNK 11
  X06THUNK 12
  X06THUNK 13
  X06THUNK 14
  X06THUNK 15

  .type x06_thunk_common, @function
x06_thunk_common:
  push rbp
  mov rbp, rsp
  sub rsp, 1024
  and rsp, -64
  mov [rsp + 0], rdi
  mov [rsp + 8], rsi
  mov [rsp + 16], rdx
  mov [rsp + 24], rcx
  mov [rsp + 32], r8
  mov [rsp + 40], r9
  mov [rsp + 48], rax
  mov [rsp + 56], r11
  lea r10, [rbp + 8]
  mov [rsp + 64], r10
  mov [rsp + 72], rbx
  mov r10, [rbp]
  mov [rsp + 80], r10
  mov [rsp + 88], r12
  mov [rsp + 96], r13
  mov [rsp + 104], r14
  mov [rsp + 112], r15
  mov r10d, DWORD PTR [rip + x06_vec_level]
  cmp r10d, 1
  jae 11f
  movups [rsp + 128], xmm0
  movups [rsp + 192], xmm1
  movups [rsp + 256], xmm2
  movups [rsp + 320], xmm3
  movups [rsp + 384], xmm4
  movups [rsp + 448], xmm5
  movups [rsp + 512], xmm6
  movups [rsp + 576], xmm7
  jmp 13f
11:
  cmp r10d, 2
  jae 12f
  vmovups [rsp + 128], ymm0
  vmovups [rsp + 192], ymm1
  vmovups [rsp + 256], ymm2
  vmovups [rsp + 320], ymm3
  vmovups [rsp + 384], ymm4
  vmovups [rsp + 448], ymm5
  vmovups [rsp + 512], ymm6
  vmovups [rsp + 576], ymm7
  jmp 13f
12:
  vmovups [rsp + 128], zmm0
  vmovups [rsp + 192], zmm1
  vmovups [rsp + 256], zmm2
  vmovups [rsp + 320], zmm3
  vmovups [rsp + 384], zmm4
  vmovups [rsp + 448], zmm5
  vmovups [rsp + 512], zmm6
  vmovups [rsp + 576], zmm7
13:
  mov rdi, rsp
  mov rbx, rsp
  call x06_record
  mov rsp, rbx
  mov rbx, [rsp + 72]
  mov r10d, DWORD PTR [rip + x06_vec_level]
  cmp r10d, 1
  jae 21f
  movups xmm2, [rip + x06_junk]
  movups xmm3, [rip + x06_junk]
  movups xmm4, [rip + x06_junk]
  movups xmm5, [rip + x06_junk]
  movups xmm6, [rip + x06_junk]
  movups xmm7, [rip + x06_junk]
  movups xmm8, [rip + x06_junk]
  movups xmm9, [rip + x06_junk]
  movups xmm10, [rip + x06_junk]
  movups xmm11, [rip + x06_junk]
  movups xmm12, [rip + x06_junk]
  movups xmm13, [rip + x06_junk]
  movups xmm14, [rip + x06_junk]
  movups xmm15, [rip + x06_junk]
  movups xmm0, [rsp + 704]
  movups xmm1, [rsp + 768]
  jmp 23f
21:
  cmp r10d, 2
  jae 22f
  vmovups ymm2, [rip + x06_junk]
  vmovups ymm3, [rip + x06_junk]
  vmovups ymm4, [rip + x06_junk]
  vmovups ymm5, [rip + x06_junk]
  vmovups ymm6, [rip + x06_junk]
  vmovups ymm7, [rip + x06_junk]
  vmovups ymm8, [rip + x06_junk]
  vmovups ymm9, [rip + x06_junk]
  vmovups ymm10, [rip + x06_junk]
  vmovups ymm11, [rip + x06_junk]
  vmovups ymm12, [rip + x06_junk]
  vmovups ymm13, [rip + x06_junk]
  vmovups ymm14, [rip + x06_junk]
  vmovups ymm15, [rip + x06_junk]
  vmovups ymm0, [rsp + 704]
  vmovups ymm1, [rsp + 768]
  jmp 23f
22:
  vmovups zmm2, [rip + x06_junk]
  vmovups zmm3, [rip + x06_junk]
  vmovups zmm4, [rip + x06_junk]
  vmovups zmm5, [rip + x06_junk]
  vmovups zmm6, [rip + x06_junk]
  vmovups zmm7, [rip + x06_junk]
  vmovups zmm8, [rip + x06_junk]
  vmovups zmm9, [rip + x06_junk]
  vmovups zmm10, [rip + x06_junk]
  vmovups zmm11, [rip + x06_junk]
  vmovups zmm12, [rip + x06_junk]
  vmovups zmm13, [rip + x06_junk]
  vmovups zmm14, [rip + x06_junk]
  vmovups zmm15, [rip + x06_junk]
  vmovups zmm16, [rip + x06_junk]
  vmovups zmm17, [rip + x06_junk]
  vmovups zmm18, [rip + x06_junk]
  vmovups zmm19, [rip + x06_junk]
  vmovups zmm20, [rip + x06_junk]
  vmovups zmm21, [rip + x06_junk]
  vmovups zmm22, [rip + x06_junk]
  vmovups zmm23, [rip + x06_junk]
  vmovups zmm24, [rip + x06_junk]
  vmovups zmm25, [rip + x06_junk]
  vmovups zmm26, [rip + x06_junk]
  vmovups zmm27, [rip + x06_junk]
  vmovups zmm28, [rip + x06_junk]
  vmovups zmm29, [rip + x06_junk]
  vmovups zmm30, [rip + x06_junk]
  vmovups zmm31, [rip + x06_junk]
  vmovups zmm0, [rsp + 704]
  vmovups zmm1, [rsp + 768]
23:
  mov rax, [rsp + 640]
  mov rdx, [rsp + 648]
  movabs rcx, 0x5C5C5C5C1111C1C1
  movabs rsi, 0x5C5C5C5C22225151
  movabs rdi, 0x5C5C5C5C3333D1D1
  movabs r8,  0x5C5C5C5C44448888
  movabs r9,  0x5C5C5C5C55559999
  movabs r10, 0x5C5C5C5C6666AAAA
  movabs r11, 0x5C5C5C5C7777BBBB
  add r10, r11
  mov rsp, rbp
  pop rbp
  ret

  .globl x06_call
  .type x06_call, @function
x06_call:
  push rbp
  mov rbp, rsp
  push rbx
  push r12
  push r13
  push r14
  push r15
  push rsi
  push rdi
  sub rsp, 8
  mov rcx, [rsi + 48]
  lea rax, [rcx * 8 + 15]
  and rax, -16
  sub rsp, rax
  mov rdx, [rsi + 56]
  xor eax, eax
31:
  cmp rax, rcx
  jae 32f
  mov r8, [rdx + rax * 8]
  mov [rsp + rax * 8], r8
  inc rax
  jmp 31b
32:
  mov eax, DWORD PTR [rip + x06_vec_level]
  cmp eax, 1
  jae 33f
  movups xmm0, [rsi + 64]
  movups xmm1, [rsi + 128]
  movups xmm2, [rsi + 192]
  movups xmm3, [rsi + 256]
  movups xmm4, [rsi + 320]
  movups xmm5, [rsi + 384]
  movups xmm6, [rsi + 448]
  movups xmm7, [rsi + 512]
  movups xmm8, [rip + x06_junk]
  movups xmm9, [rip + x06_junk]
  movups xmm10, [rip + x06_junk]
  movups xmm11, [rip + x06_junk]
  movups xmm12, [rip + x06_junk]
  movups xmm13, [rip + x06_junk]
  movups xmm14, [rip + x06_junk]
  movups xmm15, [rip + x06_junk]
  jmp 35f
33:
  cmp eax, 2
  jae 34f
  vmovups ymm0, [rsi + 64]
  vmovups ymm1, [rsi + 128]
  vmovups ymm2, [rsi + 192]
  vmovups ymm3, [rsi + 256]
  vmovups ymm4, [rsi + 320]
  vmovups ymm5, [rsi + 384]
  vmovups ymm6, [rsi + 448]
  vmovups ymm7, [rsi + 512]
  vmovups ymm8, [rip + x06_junk]
  vmovups ymm9, [rip + x06_junk]
  vmovups ymm10, [rip + x06_junk]
  vmovups ymm11, [rip + x06_junk]
  vmovups ymm12, [rip + x06_junk]
  vmovups ymm13, [rip + x06_junk]
  vmovups ymm14, [rip + x06_junk]
  vmovups ymm15, [rip + x06_junk]
  jmp 35f
34:
  vmovups zmm0, [rsi + 64]
  vmovups zmm1, [rsi + 128]
  vmovups zmm2, [rsi + 192]
  vmovups zmm3, [rsi + 256]
  vmovups zmm4, [rsi + 320]
  vmovups zmm5, [rsi + 384]
  vmovups zmm6, [rsi + 448]
  vmovups zmm7, [rsi + 512]
  vmovups zmm8, [rip + x06_junk]
  vmovups zmm9, [rip + x06_junk]
  vmovups zmm10, [rip + x06_junk]
  vmovups zmm11, [rip + x06_junk]
  vmovups zmm12, [rip + x06_junk]
  vmovups zmm13, [rip + x06_junk]
  vmovups zmm14, [rip + x06_junk]
  vmovups zmm15, [rip + x06_junk]
  vmovups zmm16, [rip + x06_junk]
  vmovups zmm17, [rip + x06_junk]
  vmovups zmm18, [rip + x06_junk]
  vmovups zmm19, [rip + x06_junk]
  vmovups zmm20, [rip + x06_junk]
  vmovups zmm21, [rip + x06_junk]
  vmovups zmm22, [rip + x06_junk]
  vmovups zmm23, [rip + x06_junk]
  vmovups zmm24, [rip + x06_junk]
  vmovups zmm25, [rip + x06_junk]
  vmovups zmm26, [rip + x06_junk]
  vmovups zmm27, [rip + x06_junk]
  vmovups zmm28, [rip + x06_junk]
  vmovups zmm29, [rip + x06_junk]
  vmovups zmm30, [rip + x06_junk]
  vmovups zmm31, [rip + x06_junk]
35:
  mov [rsi + 688], rsp
  mov [rsi + 840], rbp
  mov rbx, [rsi + 592]
  mov r12, [rsi + 600]
  mov r13, [rsi + 608]
  mov r14, [rsi + 616]
  mov r15, [rsi + 624]
  movabs r10, 0x0A0A0A0A0A0A0A0A
  movabs r11, 0x0B0B0B0B0B0B0B0B
  mov rax, [rsi + 832]
  mov rdi, [rsi + 0]
  mov rdx, [rsi + 16]
  mov rcx, [rsi + 24]
  mov r8, [rsi + 32]
  mov r9, [rsi + 40]
  mov rsi, [rsi + 8]
  call QWORD PTR [rbp - 56]
  mov r10, [rbp - 48]
  mov [r10 + 576], rax
  mov [r10 + 584], rdx
  mov [r10 + 640], rbx
  mov [r10 + 648], r12
  mov [r10 + 656], r13
  mov [r10 + 664], r14
  mov [r10 + 672], r15
  mov [r10 + 680], rbp
  mov [r10 + 696], rsp
  mov eax, DWORD PTR [rip + x06_vec_level]
  cmp eax, 1
  jae 36f
  movups [r10 + 704], xmm0
  movups [r10 + 768], xmm1
  jmp 38f
36:
  cmp eax, 2
  jae 37f
  vmovups [r10 + 704], ymm0
  vmovups [r10 + 768], ymm1
  vzeroupper
  jmp 38f
37:
  vmovups [r10 + 704], zmm0
  vmovups [r10 + 768], zmm1
  vzeroupper
38:
  lea rsp, [rbp - 40]
  pop r15
  pop r14
  pop r13
  pop r12
  pop rbx
  pop rbp
  ret
  .att_syntax prefix
)ASM");

// ---------------------------------------------------------------------------------------------------------------------
// the recorder behind the thunks
// ---------------------------------------------------------------------------------------------------------------------
struct CallRec {
  RecFrame fr;
  uint64_t stack[160];
  unsigned nstack;
};
static const unsigned kMaxCalls = 4096;
static CallRec* g_calls = nullptr;
static unsigned g_ncalls = 0;
static unsigned g_stack_words = 8;                       // how many words above the return address are copied
static std::vector<std::vector<uint16_t>> g_rets;        // prescribed return bit patterns, consumed cyclically

static void limbs_to_bytes(const std::vector<uint16_t>& l, uint8_t* dst, size_t n) {
  for (size_t i = 0; i < n; i++) {
    size_t li = i / 2;
    uint16_t v = li < l.size() ? l[li] : 0;
    dst[i] = uint8_t(i & 1 ? v >> 8 : v & 0xFF);
  }
}

extern "C" __attribute__((no_sanitize("address"))) void x06_record(RecFrame* fr) {
  if (g_ncalls >= kMaxCalls) _exit(71);
  CallRec& c = g_calls[g_ncalls];
  const uint64_t* s = reinterpret_cast<const uint64_t*>(fr);
  uint64_t* d = reinterpret_cast<uint64_t*>(&c.fr);
  for (size_t i = 0; i < sizeof(RecFrame) / 8; i++) d[i] = s[i];
  const volatile uint64_t* sp = reinterpret_cast<const volatile uint64_t*>(fr->entry_rsp + 8);
  c.nstack = g_stack_words;
  for (unsigned i = 0; i < c.nstack; i++) c.stack[i] = sp[i];
  // return values: the prescribed pattern r in rax and xmm0 (vector width), recognisably different junk in rdx / xmm1
  uint8_t b[64];
  for (auto& x : b) x = 0;
  if (!g_rets.empty()) limbs_to_bytes(g_rets[g_ncalls % g_rets.size()], b, 64);
  uint64_t r0 = 0;
  for (int i = 7; i >= 0; i--) r0 = (r0 << 8) | b[i];
  fr->ret_rax = r0;
  fr->ret_rdx = ~r0 ^ 0x00F0F0F000F0F0F0ull;
  for (int i = 0; i < 64; i++) { fr->ret_vec[0][i] = b[i]; fr->ret_vec[1][i] = uint8_t(~b[i] ^ 0x3C); }
  c.fr.ret_rax = fr->ret_rax;
  c.fr.ret_rdx = fr->ret_rdx;
  for (int i = 0; i < 64; i++) { c.fr.ret_vec[0][i] = fr->ret_vec[0][i]; c.fr.ret_vec[1][i] = fr->ret_vec[1][i]; }
  g_ncalls++;
}

// ---------------------------------------------------------------------------------------------------------------------
// scenario helpers
// ---------------------------------------------------------------------------------------------------------------------
struct TyInfo { const char* name; TypeId id; unsigned size; char cls; };   // cls: i = integer, f = scalar float, v = vector
static const TyInfo kTys[] = {
  {"void", TypeId::kVoid, 0, 'n'},
  {"i8", TypeId::kInt8, 1, 'i'}, {"u8", TypeId::kUInt8, 1, 'i'}, {"i16", TypeId::kInt16, 2, 'i'}, {"u16", TypeId::kUInt16, 2, 'i'},
  {"i32", TypeId::kInt32, 4, 'i'}, {"u32", TypeId::kUInt32, 4, 'i'}, {"i64", TypeId::kInt64, 8, 'i'}, {"u64", TypeId::kUInt64, 8, 'i'},
  {"f32", TypeId::kFloat32, 4, 'f'}, {"f64", TypeId::kFloat64, 8, 'f'},
  {"i32x4", TypeId::kInt32x4, 16, 'v'}, {"f32x4", TypeId::kFloat32x4, 16, 'v'}, {"f64x2", TypeId::kFloat64x2, 16, 'v'},
  {"i32x8", TypeId::kInt32x8, 32, 'v'}, {"f32x8", TypeId::kFloat32x8, 32, 'v'},
};
static const TyInfo& ty_of(const std::string& s) {
  for (auto& t : kTys) if (s == t.name) return t;
  fprintf(stderr, "unknown type %s\n", s.c_str());
  exit(3);
}

static std::vector<uint16_t> limbs_of(const vj::Value& v) {
  std::vector<uint16_t> r;
  for (auto& x : v.arr) r.push_back(uint16_t(x.i()));
  return r;
}
static uint64_t u64_of(const std::vector<uint16_t>& l) {
  uint64_t r = 0;
  for (int i = 3; i >= 0; i--) r = (r << 16) | (size_t(i) < l.size() ? l[i] : 0);
  return r;
}
static void put_limbs(vj::W& w, const char* k, const uint8_t* p, size_t nbytes) {
  w.key(k).beginArr();
  for (size_t i = 0; i + 1 < nbytes + 1; i += 2) w.val((long long)(p[i] | (unsigned(p[i + 1]) << 8)));
  w.endArr();
}
static void put_limbs_val(vj::W& w, const uint8_t* p, size_t nbytes) {
  w.beginArr();
  for (size_t i = 0; i < nbytes; i += 2) w.val((long long)(p[i] | (unsigned(p[i + 1]) << 8)));
  w.endArr();
}
static void put_u64(vj::W& w, const char* k, uint64_t v) { w.wide(k, v); }

static std::string err_name(Error e) {
  if (e == Error::kOk) return "Ok";
  return std::string("E") + std::to_string(unsigned(e)) + ":" + DebugUtils::error_as_string(e);
}

struct ErrH : public ErrorHandler {
  Error err = Error::kOk;
  std::string msg;
  void handle_error(Error e, const char* m, BaseEmitter*) override { if (err == Error::kOk) { err = e; msg = m ? m : ""; } }
};

static std::string json_of(const vj::Value& v) {
  std::string s;
  switch (v.kind) {
    case vj::Value::Null: return "null";
    case vj::Value::Bool: return v.b ? "true" : "false";
    case vj::Value::Num: return std::to_string(v.inum);
    case vj::Value::Str: { vj::W w; w.str(v.str.c_str()); return w.s; }
    case vj::Value::Arr: s = "["; for (size_t i = 0; i < v.arr.size(); i++) { if (i) s += ","; s += json_of(v.arr[i]); } return s + "]";
    case vj::Value::Obj: s = "{"; for (size_t i = 0; i < v.obj.size(); i++) { if (i) s += ","; vj::W w; w.str(v.obj[i].first.c_str()); s += w.s + ":" + json_of(v.obj[i].second); } return s + "}";
  }
  return s;
}

// ---------------------------------------------------------------------------------------------------------------------
// scenario -> x86::Compiler calls
// ---------------------------------------------------------------------------------------------------------------------
static const unsigned kSlotSize = 32;
static void* g_thunk_table[16];

struct JumpTable { Label table; std::vector<Label> targets; };

struct Gen {
  std::vector<JumpTable> tables;
  x86::Compiler& cc;
  const vj::Value& scn;
  bool avx;
  uint8_t* out;                        // out buffer (slot s at out + 32 * (s - 1))
  std::vector<Reg> vregs;              // index = vreg id - 1
  std::vector<const TyInfo*> vtys;
  std::vector<FuncSignature> csigs;
  std::vector<Label> clabels;          // for callees of kind "jit": label of the forwarding function
  std::vector<FuncNode*> cfuncs;
  x86::Gp outp;                        // pinned out pointer (when cfg.outmode = "pinned")
  bool pinned = false;
  Error first_err = Error::kOk;
  std::string first_what;

  Gen(x86::Compiler& c, const vj::Value& s, uint8_t* o) : cc(c), scn(s), avx(s["cfg"]["avx"].i() >= 1), out(o) {}

  void chk(Error e, const char* what) { if (e != Error::kOk && first_err == Error::kOk) { first_err = e; first_what = what; } }

  FuncSignature sig_of(const vj::Value& d) {
    uint32_t va = d.has("va") ? uint32_t(d["va"].i()) : 255u;
    FuncSignature sig(CallConvId::kCDecl, va == 255 ? FuncSignature::kNoVarArgs : va);
    sig.set_ret(ty_of(d["ret"].s()).id);
    for (auto& a : d["args"].arr) sig.add_arg(ty_of(a.s()).id);
    return sig;
  }

  Reg new_vreg(const TyInfo& t) {
    switch (t.cls) {
      case 'i': return cc.new_gp(t.id);
      case 'f': return t.size == 4 ? cc.new_xmm_ss() : cc.new_xmm_sd();
      default: return t.size == 16 ? Reg(cc.new_vec(t.id)) : Reg(cc.new_vec(t.id));
    }
  }

  x86::Gp G(size_t k) { return vregs[k - 1].as<x86::Gp>(); }
  x86::Vec V(size_t k) { return vregs[k - 1].as<x86::Vec>(); }
  const TyInfo& T(size_t k) { return *vtys[k - 1]; }

  // vector move of the width of type t between a register and memory (unaligned form)
  void vmov_load(const x86::Vec& v, x86::Mem m, const TyInfo& t) {
    m.set_size(t.size);
    if (t.size == 4) chk(avx ? cc.vmovss(v, m) : cc.movss(v, m), "movss");
    else if (t.size == 8) chk(avx ? cc.vmovsd(v, m) : cc.movsd(v, m), "movsd");
    else chk(avx ? cc.vmovups(v, m) : cc.movups(v, m), "movups");
  }
  void vmov_store(x86::Mem m, const x86::Vec& v, const TyInfo& t) {
    m.set_size(t.size);
    if (t.size == 4) chk(avx ? cc.vmovss(m, v) : cc.movss(m, v), "movss");
    else if (t.size == 8) chk(avx ? cc.vmovsd(m, v) : cc.movsd(m, v), "movsd");
    else chk(avx ? cc.vmovups(m, v) : cc.movups(m, v), "movups");
  }

  int64_t imm_for(const std::vector<uint16_t>& l, unsigned size) {
    uint64_t v = u64_of(l);
    switch (size) {
      case 1: return int64_t(int8_t(v));
      case 2: return int64_t(int16_t(v));
      case 4: return int64_t(int32_t(v));
      default: return int64_t(v);
    }
  }

  void load_imm(size_t k, const vj::Value& st) {
    const TyInfo& t = T(k);
    std::vector<uint16_t> l = limbs_of(st["val"]);
    if (t.cls == 'i') { chk(cc.mov(G(k), imm(imm_for(l, t.size))), "mov imm"); return; }
    std::string pool = st.has("pool") ? st["pool"].s() : std::string("local");
    uint8_t b[64];
    limbs_to_bytes(l, b, 64);
    if (pool == "gp" && t.cls == 'f') {
      if (t.size == 4) { x86::Gp tmp = cc.new_gp32(); chk(cc.mov(tmp, imm(int64_t(int32_t(u64_of(l))))), "mov"); chk(avx ? cc.vmovd(V(k), tmp) : cc.movd(V(k), tmp), "movd"); }
      else { x86::Gp tmp = cc.new_gp64(); chk(cc.mov(tmp, imm(int64_t(u64_of(l)))), "mov"); chk(avx ? cc.vmovq(V(k), tmp) : cc.movq(V(k), tmp), "movq"); }
      return;
    }
    x86::Mem m = cc.new_const(pool == "global" ? ConstPoolScope::kGlobal : ConstPoolScope::kLocal, b, t.size);
    vmov_load(V(k), m, t);
  }

  x86::Gp out_base() {
    if (pinned) return outp;
    x86::Gp p = cc.new_gp_ptr();
    chk(cc.mov(p, imm(uint64_t(uintptr_t(out)))), "mov outp");
    return p;
  }

  void store(size_t slot, size_t k) {
    const TyInfo& t = T(k);
    x86::Mem m = x86::ptr(out_base(), int32_t((slot - 1) * kSlotSize));
    if (t.cls == 'i') { m.set_size(t.size); chk(cc.mov(m, G(k)), "mov store"); }
    else vmov_store(m, V(k), t);
  }

  void do_invoke(const vj::Value& st) {
    size_t ci = size_t(st["c"].i());
    const vj::Value& cd = scn["callees"].arr[ci - 1];
    std::string target = cd["target"].s();
    unsigned thunk = unsigned(cd["thunk"].i());
    void* addr = reinterpret_cast<void*>(g_thunks[thunk]);
    InvokeNode* node = nullptr;
    Error e;
    if (target == "label") e = cc.invoke(Out(node), clabels[ci - 1], csigs[ci - 1]);
    else if (target == "reg") { x86::Gp t = cc.new_gp_ptr(); chk(cc.mov(t, imm(uint64_t(uintptr_t(addr)))), "mov target"); e = cc.invoke(Out(node), t, csigs[ci - 1]); }
    else if (target == "mem") {
      x86::Gp t = cc.new_gp_ptr();
      chk(cc.mov(t, imm(uint64_t(uintptr_t(&g_thunk_table[0])))), "mov table");
      e = cc.invoke(Out(node), x86::qword_ptr(t, int32_t(thunk * 8)), csigs[ci - 1]);
    }
    else e = cc.invoke(Out(node), imm(uint64_t(uintptr_t(addr))), csigs[ci - 1]);
    chk(e, "invoke");
    if (e != Error::kOk || !node) return;
    size_t i = 0;
    for (auto& a : st["args"].arr) {
      std::string k = a["k"].s();
      if (k == "v") node->set_arg(i, vregs[size_t(a["v"].i()) - 1]);
      else if (k == "imm") {
        // the full 64-bit immediate is handed over: converting it to the parameter's type is asmjit's business
        node->set_arg(i, imm(int64_t(u64_of(limbs_of(a["val"])))));
      }
      i++;
    }
    if (st["ret"].i() != 0) node->set_ret(0, vregs[size_t(st["ret"].i()) - 1]);
  }

  void steps(const vj::Value& list) {
    for (auto& st : list.arr) {
      std::string op = st["op"].s();
      if (op == "arg") { /* bound in build() */ }
      else if (op == "imm") load_imm(size_t(st["v"].i()), st);
      else if (op == "mov") {
        size_t k = size_t(st["v"].i()), a = size_t(st["a"].i());
        const TyInfo& t = T(k);
        if (t.cls == 'i') chk(cc.mov(G(k), G(a)), "mov");
        else if (t.size == 32) chk(cc.vmovaps(V(k), V(a)), "vmovaps");
        else chk(avx ? cc.vmovaps(V(k), V(a)) : cc.movaps(V(k), V(a)), "movaps");
      }
      else if (op == "add") chk(cc.add(G(size_t(st["v"].i())), G(size_t(st["a"].i()))), "add");
      else if (op == "addi") {
        size_t k = size_t(st["v"].i());
        chk(cc.add(G(k), imm(imm_for(limbs_of(st["val"]), T(k).size > 4 ? 4 : T(k).size))), "addi");
      }
      else if (op == "invoke") do_invoke(st);
      else if (op == "store") store(size_t(st["slot"].i()), size_t(st["v"].i()));
      else if (op == "loop") {
        x86::Gp cnt = cc.new_gp32();
        Label L = cc.new_label();
        chk(cc.mov(cnt, imm(st["n"].i())), "mov cnt");
        chk(cc.bind(L), "bind");
        steps(st["body"]);
        chk(cc.dec(cnt), "dec");
        chk(cc.jnz(L), "jnz");
      }
      else if (op == "ifnz") {
        Label L = cc.new_label();
        size_t k = size_t(st["v"].i());
        chk(cc.test(G(k), G(k)), "test");
        chk(cc.jz(L), "jz");
        steps(st["body"]);
        chk(cc.bind(L), "bind");
      }
      else if (op == "switch") {
        // indirect jump through a table of label deltas, annotated with its targets (x86compiler.h, "Jump Tables")
        size_t k = size_t(st["v"].i());
        const TyInfo& t = T(k);
        size_t n = st["cases"].arr.size();
        x86::Gp idx = cc.new_gp_ptr(), tbl = cc.new_gp_ptr(), target = cc.new_gp_ptr();
        if (t.size == 8) chk(cc.mov(idx, G(k)), "mov idx");
        else if (t.size == 4) chk(cc.mov(idx.r32(), G(k)), "mov idx");
        else chk(cc.movzx(idx.r32(), G(k)), "movzx idx");
        chk(cc.and_(idx.r32(), imm(int64_t(n - 1))), "and idx");
        JumpTable jt;
        jt.table = cc.new_label();
        Label L_end = cc.new_label();
        JumpAnnotation* ann = cc.new_jump_annotation();
        for (size_t i = 0; i < n; i++) { jt.targets.push_back(cc.new_label()); if (ann) chk(ann->add_label(jt.targets.back()), "add_label"); }
        chk(cc.lea(tbl, x86::ptr(jt.table)), "lea table");
        chk(cc.movsxd(target, x86::dword_ptr(tbl, idx, 2)), "movsxd");
        chk(cc.add(target, tbl), "add target");
        chk(cc.jmp(target, ann), "jmp annotated");
        for (size_t i = 0; i < n; i++) {
          chk(cc.bind(jt.targets[i]), "bind case");
          steps(st["cases"].arr[i]);
          if (i + 1 < n) chk(cc.jmp(L_end), "jmp end");
        }
        chk(cc.bind(L_end), "bind end");
        tables.push_back(jt);
      }
      else if (op == "stk") {
        // address of a fresh aligned stack area, masked with (align - 1): must be 0
        uint32_t size = uint32_t(st["size"].i()), align = uint32_t(st["align"].i());
        x86::Mem m = cc.new_stack(size, align);
        x86::Gp t = cc.new_gp_ptr();
        chk(cc.lea(t, m), "lea stk");
        chk(cc.and_(t, imm(int64_t(align - 1))), "and");
        x86::Mem o = x86::ptr(out_base(), int32_t((size_t(st["slot"].i()) - 1) * kSlotSize));
        o.set_size(8);
        chk(cc.mov(o, t), "mov stk");
      }
      else if (op == "stkrt") {
        // round trip of vreg v through a fresh aligned stack area (aligned vector moves where the type is a vector)
        size_t k = size_t(st["v"].i());
        const TyInfo& t = T(k);
        uint32_t align = uint32_t(st["align"].i());
        x86::Mem m = cc.new_stack(t.size < 16 ? 16 : t.size, align);
        m.set_size(t.size);
        if (t.cls == 'i') { chk(cc.mov(m, G(k)), "mov"); chk(cc.mov(G(k), m), "mov"); }
        else if (t.cls == 'f') { vmov_store(m, V(k), t); vmov_load(V(k), m, t); }
        else if (avx) { chk(cc.vmovaps(m, V(k)), "vmovaps"); chk(cc.vmovaps(V(k), m), "vmovaps"); }
        else { chk(cc.movaps(m, V(k)), "movaps"); chk(cc.movaps(V(k), m), "movaps"); }
      }
      else { fprintf(stderr, "unknown op %s\n", op.c_str()); exit(3); }
    }
  }

  // forwarding function for a callee of kind "jit": h(args...) { return thunk(args...); }
  void build_forwarder(size_t ci) {
    const vj::Value& cd = scn["callees"].arr[ci];
    FuncNode* h = cfuncs[ci];
    cc.add_func(h);
    if (scn["cfg"]["avx"].i() >= 1) h->frame().set_avx_enabled();
    if (scn["cfg"]["avx"].i() >= 2) h->frame().set_avx512_enabled();
    std::vector<Reg> a;
    size_t i = 0;
    for (auto& at : cd["args"].arr) { a.push_back(new_vreg(ty_of(at.s()))); h->set_arg(i, a.back()); i++; }
    InvokeNode* node = nullptr;
    void* addr = reinterpret_cast<void*>(g_thunks[unsigned(cd["thunk"].i())]);
    Error e = cc.invoke(Out(node), imm(uint64_t(uintptr_t(addr))), csigs[ci]);
    chk(e, "invoke (forwarder)");
    const TyInfo& rt = ty_of(cd["ret"].s());
    if (e == Error::kOk && node) {
      for (size_t j = 0; j < a.size(); j++) node->set_arg(j, a[j]);
      if (rt.cls != 'n') { Reg r = new_vreg(rt); node->set_ret(0, r); chk(cc.ret(r), "ret"); }
    }
    chk(cc.end_func(), "end_func (forwarder)");
  }

  FuncNode* build() {
    const vj::Value& cfg = scn["cfg"];
    for (auto& cd : scn["callees"].arr) csigs.push_back(sig_of(cd));
    // forwarding functions are created first (their labels are invoke targets); they are placed before or after f
    for (size_t ci = 0; ci < csigs.size(); ci++) {
      FuncNode* h = nullptr;
      if (scn["callees"].arr[ci]["target"].s() == "label") { chk(cc.new_func_node(Out(h), csigs[ci]), "new_func_node"); }
      cfuncs.push_back(h);
      clabels.push_back(h ? h->label() : Label());
    }
    bool before = cfg.has("horder") && cfg["horder"].s() == "before";
    if (before) for (size_t ci = 0; ci < csigs.size(); ci++) if (cfuncs[ci]) build_forwarder(ci);

    FuncNode* f = cc.add_func(sig_of(scn["f"]));
    if (!f) { chk(Error::kOutOfMemory, "add_func"); return nullptr; }
    if (cfg["avx"].i() >= 1) f->frame().set_avx_enabled();
    if (cfg["avx"].i() >= 2) f->frame().set_avx512_enabled();
    if (cfg["fp"].i()) f->frame().set_preserved_fp();
    if (cfg.has("cleanup") && cfg["cleanup"].i() == 1) f->frame().set_avx_cleanup();
    if (cfg.has("cleanup") && cfg["cleanup"].i() == 2) f->frame().set_avx_auto_cleanup();
    for (auto& vt : scn["vregs"].arr) { vtys.push_back(&ty_of(vt.s())); vregs.push_back(new_vreg(*vtys.back())); }
    if (cfg.has("outmode") && cfg["outmode"].s() == "pinned") { outp = cc.new_gp_ptr("outp"); chk(cc.mov(outp, imm(uint64_t(uintptr_t(out)))), "mov outp"); pinned = true; }
    for (auto& st : scn["steps"].arr) if (st["op"].s() == "arg") f->set_arg(size_t(st["i"].i()) - 1, vregs[size_t(st["v"].i()) - 1]);
    steps(scn["steps"]);
    long long rv = scn["retv"].i();
    if (rv > 0) chk(cc.ret(vregs[size_t(rv) - 1]), "ret"); else chk(cc.ret(), "ret");
    chk(cc.end_func(), "end_func");
    // jump tables follow the function: relative int32_t offsets of `L_case - L_table`
    for (auto& jt : tables) {
      chk(cc.bind(jt.table), "bind table");
      for (auto& tg : jt.targets) chk(cc.embed_label_delta(tg, jt.table, 4), "embed_label_delta");
    }
    if (!before) for (size_t ci = 0; ci < csigs.size(); ci++) if (cfuncs[ci]) build_forwarder(ci);
    return f;
  }
};

// ---------------------------------------------------------------------------------------------------------------------
// child: build, run every input, write events
// ---------------------------------------------------------------------------------------------------------------------
static int g_child_fd = -1;
static std::string g_pending;          // events of the current run that are written when the run ends or crashes

static void write_all(int fd, const std::string& s) {
  size_t off = 0;
  while (off < s.size()) { ssize_t n = write(fd, s.data() + off, s.size() - off); if (n <= 0) break; off += size_t(n); }
}

static void emit_calls(std::string& dst, unsigned level) {
  unsigned vb = level == 0 ? 16 : level == 1 ? 32 : 64;
  vj::W w;
  for (unsigned i = 0; i < g_ncalls; i++) {
    const CallRec& c = g_calls[i];
    w.beginObj().kv("e", "Call").kv("idx", (unsigned)c.fr.idx);
    w.key("gp").beginArr();
    for (int r = 0; r < 6; r++) put_limbs_val(w, reinterpret_cast<const uint8_t*>(&c.fr.gp[r]), 8);
    w.endArr();
    w.kv("al", (unsigned)(c.fr.rax & 0xFF));
    w.key("vec").beginArr();
    for (int r = 0; r < 8; r++) put_limbs_val(w, c.fr.vec[r], vb);
    w.endArr();
    w.key("stack").beginArr();
    for (unsigned k = 0; k < c.nstack; k++) put_limbs_val(w, reinterpret_cast<const uint8_t*>(&c.stack[k]), 8);
    w.endArr();
    w.kv("sp64", (unsigned)(c.fr.entry_rsp & 63));
    w.key("ret").beginObj();
    put_limbs(w, "rax", reinterpret_cast<const uint8_t*>(&c.fr.ret_rax), 8);
    put_limbs(w, "rdx", reinterpret_cast<const uint8_t*>(&c.fr.ret_rdx), 8);
    put_limbs(w, "v0", c.fr.ret_vec[0], vb);
    put_limbs(w, "v1", c.fr.ret_vec[1], vb);
    w.endObj();
    w.endObj();
    dst += w.s + "\n";
    w.s.clear(); w.first = true;
  }
}

static unsigned g_level = 0;
static void crash_handler(int sig) {
  // the calls observed so far are still worth reporting
  std::string s = g_pending;
  emit_calls(s, g_level);
  s += "{\"e\":\"Crash\",\"signal\":" + std::to_string(sig) + "}\n";
  write_all(g_child_fd, s);
  _exit(0);
}

static void run_child(const vj::Value& scn, int fd, bool dump) {
  alarm(20);
  g_child_fd = fd;
  JitRuntime rt;
  CodeHolder code;
  code.init(rt.environment(), rt.cpu_features());
  ErrH eh;
  code.set_error_handler(&eh);
  FileLogger lg(stdout);
  if (dump) code.set_logger(&lg);
  x86::Compiler cc(&code);
  if (dump) cc.add_diagnostic_options(DiagnosticOptions::kRAAnnotate);

  unsigned nslots = unsigned(scn["nslots"].i());
  std::vector<uint8_t> outbuf(size_t(nslots) * kSlotSize + 128);
  uint8_t* out = outbuf.data() + 64;
  for (int i = 0; i < 16; i++) g_thunk_table[i] = reinterpret_cast<void*>(g_thunks[i]);

  Gen gen(cc, scn, out);
  FuncNode* f = gen.build();
  unsigned nnodes_before = 0;
  for (BaseNode* n = cc.first_node(); n; n = n->next()) nnodes_before++;
  Error fe = cc.finalize();
  std::string s;
  vj::W w;
  w.beginObj().kv("e", "Build").kv("api", err_name(gen.first_err)).kv("api_at", gen.first_what.c_str())
   .kv("fin", err_name(fe)).kv("msg", eh.msg.c_str()).kv("nodes", nnodes_before);
  // attribution aid (never part of the verdict): after register allocation, does a variadic call go through rax?
  bool va_target_rax = false;
  for (BaseNode* n = cc.first_node(); n; n = n->next()) {
    if (!n->is_invoke()) continue;
    InvokeNode* inv = n->as<InvokeNode>();
    if (!inv->detail().has_var_args()) continue;
    const Operand& t = inv->target();
    if (t.is_reg() && t.as<Reg>().id() == x86::Gp::kIdAx) va_target_rax = true;
    if (t.is_mem() && ((t.as<x86::Mem>().has_base_reg() && t.as<x86::Mem>().base_id() == x86::Gp::kIdAx) ||
                       (t.as<x86::Mem>().has_index_reg() && t.as<x86::Mem>().index_id() == x86::Gp::kIdAx))) va_target_rax = true;
  }
  w.kv("va_target_rax", va_target_rax);
  void* base = nullptr;
  Error ae = Error::kOk;
  uint64_t foff = 0;
  bool ok = gen.first_err == Error::kOk && fe == Error::kOk && f;
  if (ok) {
    ae = rt.add(&base, &code);
    if (ae == Error::kOk) foff = code.label_offset_from_base(f->label());
  }
  w.kv("add", err_name(ae)).kv("ok", ok && ae == Error::kOk).kv("size", (unsigned long long)code.code_size());
  w.endObj();
  s = w.s + "\n";
  w.s.clear(); w.first = true;
  write_all(fd, s);
  if (!(ok && ae == Error::kOk)) _exit(0);
  if (dump) { fflush(stdout); }

  g_level = unsigned(scn["cfg"]["avx"].i());
  x06_vec_level = int(g_level);
  for (int i = 0; i < 64; i++) x06_junk[i] = uint8_t(0xE0 + (i % 16));
  g_calls = static_cast<CallRec*>(calloc(kMaxCalls, sizeof(CallRec)));
  // how many words above the return address the thunks copy: a bound given by the scenario (all arguments on the stack)
  g_stack_words = std::min<unsigned>(160, unsigned(scn["stackwords"].i()));

  struct sigaction sa;
  memset(&sa, 0, sizeof sa);
  sa.sa_handler = crash_handler;
  static uint8_t altstack[65536];
  stack_t ss; ss.ss_sp = altstack; ss.ss_size = sizeof altstack; ss.ss_flags = 0;
  sigaltstack(&ss, nullptr);
  sa.sa_flags = SA_ONSTACK;
  for (int sg : {SIGSEGV, SIGBUS, SIGILL, SIGFPE, SIGALRM, SIGTRAP}) sigaction(sg, &sa, nullptr);

  void* fn = static_cast<uint8_t*>(base) + foff;
  unsigned vb = g_level == 0 ? 16 : g_level == 1 ? 32 : 64;
  unsigned run_no = 0;
  for (auto& run : scn["runs"].arr) {
    run_no++;
    alignas(64) CallBlock blk;
    memset(&blk, 0, sizeof blk);
    // registers the scenario does not mention hold recognisable junk
    for (int r = 0; r < 6; r++) blk.gp[r] = 0xDEAD0000DEAD0000ull + uint64_t(r) * 0x0101;
    for (int r = 0; r < 8; r++) for (int b = 0; b < 64; b++) blk.vec[r][b] = uint8_t(0xD0 + r);
    blk.rax_in = 0xAAAA5555AAAA5555ull;
    static const uint64_t canary[5] = { 0xC0DE0000000000B3ull, 0xC0DE00000000012Cull, 0xC0DE00000000013Dull, 0xC0DE00000000014Eull, 0xC0DE00000000015Full };
    for (int r = 0; r < 5; r++) blk.cs_in[r] = canary[r];
    std::vector<uint64_t> stack(256, 0x5AC05AC05AC05AC0ull);
    size_t nstack = 0;
    // place the arguments where `place` (computed by TLC from ABI.tla) says
    size_t ai = 0;
    for (auto& pl : scn["place"].arr) {
      std::vector<uint16_t> l = limbs_of(run["args"].arr[ai]);
      const vj::Value& loc = pl;
      std::string k = loc["k"].s();
      if (k == "reg" && loc["g"].s() == "gp") {
        static const int order[6] = {7, 6, 2, 1, 8, 9};
        int slot = -1;
        for (int r = 0; r < 6; r++) if (order[r] == int(loc["id"].i())) slot = r;
        if (slot < 0) { fprintf(stderr, "bad gp placement\n"); _exit(3); }
        blk.gp[slot] = u64_of(l);
      }
      else if (k == "reg" && loc["g"].s() == "vec") {
        limbs_to_bytes(l, blk.vec[loc["id"].i()], std::min<size_t>(64, l.size() * 2));
      }
      else if (k == "stack") {
        size_t off = size_t(loc["off"].i());
        size_t nb = l.size() * 2;
        if (off + nb > stack.size() * 8) { fprintf(stderr, "stack placement too far\n"); _exit(3); }
        limbs_to_bytes(l, reinterpret_cast<uint8_t*>(stack.data()) + off, nb);
        nstack = std::max(nstack, (off + nb + 7) / 8);
      }
      else { fprintf(stderr, "bad placement\n"); _exit(3); }
      ai++;
    }
    nstack += 2;     // two more words of caller frame, so that an over-read of f is visible as junk, not as a fault
    blk.nstack = nstack;
    blk.stack = stack.data();
    g_rets.clear();
    for (auto& r : run["rets"].arr) g_rets.push_back(limbs_of(r));
    g_ncalls = 0;
    memset(outbuf.data(), 0xA5, outbuf.size());

    w.beginObj().kv("e", "Enter").kv("run", run_no);
    w.key("args").beginArr();
    for (auto& a : run["args"].arr) { w.beginArr(); for (auto& x : a.arr) w.val(x.i()); w.endArr(); }
    w.endArr();
    w.endObj();
    g_pending = w.s + "\n";
    w.s.clear(); w.first = true;

    x06_call(fn, &blk);

    std::string ev = g_pending;
    g_pending.clear();
    emit_calls(ev, g_level);
    w.beginObj().kv("e", "Leave").kv("run", run_no);
    put_limbs(w, "rax", reinterpret_cast<const uint8_t*>(&blk.out_rax), 8);
    put_limbs(w, "rdx", reinterpret_cast<const uint8_t*>(&blk.out_rdx), 8);
    put_limbs(w, "v0", blk.out_vec[0], vb);
    w.key("out").beginArr();
    for (unsigned sidx = 0; sidx < nslots; sidx++) put_limbs_val(w, out + size_t(sidx) * kSlotSize, kSlotSize);
    w.endArr();
    bool guards = true;
    for (int i = 0; i < 64; i++) guards &= outbuf[size_t(i)] == 0xA5 && outbuf[outbuf.size() - 1 - size_t(i)] == 0xA5;
    w.kv("guards", guards);
    // callee-saved registers as f left them: [register id, value before, value after]
    static const int csid[5] = {3, 12, 13, 14, 15};
    w.key("cs").beginArr();
    for (int r = 0; r < 5; r++) {
      w.beginObj().kv("id", csid[r]);
      put_limbs(w, "a", reinterpret_cast<const uint8_t*>(&blk.cs_in[r]), 8);
      put_limbs(w, "b", reinterpret_cast<const uint8_t*>(&blk.cs_out[r]), 8);
      w.endObj();
    }
    w.beginObj().kv("id", 5);
    put_limbs(w, "a", reinterpret_cast<const uint8_t*>(&blk.rbp_before), 8);
    put_limbs(w, "b", reinterpret_cast<const uint8_t*>(&blk.cs_out[5]), 8);
    w.endObj();
    w.endArr();
    w.kv("sp_ok", blk.sp_before == blk.sp_after);
    w.kv("ncalls", g_ncalls);
    w.endObj();
    ev += w.s + "\n";
    w.s.clear(); w.first = true;
    write_all(fd, ev);
  }
  _exit(0);
}

static int cmd_run(const char* in_path, const char* out_path, long only, bool dump) {
  auto recs = vj::read_ndjson(in_path);
  FILE* out = dump ? stdout : fopen(out_path, "w");
  if (!out) { perror(out_path); return 3; }
  long idx = 0;
  for (auto& rec : recs) {
    idx++;
    if (only > 0 && idx != only) continue;
    int fds[2];
    if (pipe(fds) != 0) { perror("pipe"); return 3; }
    fflush(out);
    fflush(stdout);
    pid_t pid = fork();
    if (pid == 0) { close(fds[0]); run_child(rec, fds[1], dump); }
    close(fds[1]);
    std::string buf;
    char tmp[65536];
    for (;;) { ssize_t n = read(fds[0], tmp, sizeof tmp); if (n <= 0) break; buf.append(tmp, size_t(n)); }
    close(fds[0]);
    int st = 0;
    waitpid(pid, &st, 0);
    // strip the run inputs' echo from the scenario record? no: TLC needs `runs[..].rets` and the argument values
    fprintf(out, "{\"e\":\"Reset\"}\n{\"e\":\"Scenario\",\"s\":%s}\n", json_of(rec).c_str());
    // only whole lines are kept
    size_t last_nl = buf.rfind('\n');
    if (last_nl != std::string::npos) fwrite(buf.data(), 1, last_nl + 1, out);
    bool clean = WIFEXITED(st) && WEXITSTATUS(st) == 0;
    if (!clean) {
      int sig = WIFSIGNALED(st) ? WTERMSIG(st) : 0;
      fprintf(out, "{\"e\":\"Crash\",\"signal\":%d,\"exit\":%d}\n", sig, WIFEXITED(st) ? WEXITSTATUS(st) : -1);
    }
    fprintf(out, "{\"e\":\"End\"}\n");
  }
  if (!dump) fclose(out);
  return 0;
}

int main(int argc, char** argv) {
  if (argc < 3) { fprintf(stderr, "usage: invoke run <scenarios.ndjson> <trace.ndjson> | invoke dump <scenarios.ndjson> <k>\n"); return 3; }
  std::string mode = argv[1];
  if (mode == "run" && argc >= 4) return cmd_run(argv[2], argv[3], 0, false);
  if (mode == "dump" && argc >= 4) return cmd_run(argv[2], nullptr, atol(argv[3]), true);
  return 3;
}
