// X04 harness: drives the REAL operand model of asmjit (core/operand.h, x86/x86operand.h, arm/a64operand.h,
// core/type.h, core/archtraits.h, core/environment.h, core/globals.h, support/support.h) and records what it answers.
//
//   opmodel record <out> <nexec> <steps>      random API histories on real objects (one machine per execution)
//   opmodel script <in> <out>                 in: {"m":machine,"ops":[{"e":..,args}]} per line (TLC-generated behaviours)
//   opmodel replay <in> <out>                 in: a recorded trace / observation file; every call is executed again
//   opmodel tables <out>                      table rows: reg traits, type ids, arch traits, type->reg, error strings, names
//   opmodel observe <out> <n>                 pointwise observations of support.h helpers / OperandSignature / Imm helpers
//
// The harness only records.  All judgement is in spec/opmodel/*.tla (TLC).
#include <asmjit/core.h>
#include <asmjit/x86.h>
#include <asmjit/a64.h>
#include "vjson.h"
#include <string>
#include <vector>
#include <functional>
#include <algorithm>

using namespace asmjit;
using vj::Value;
using vj::W;

// ---------------------------------------------------------------------------------------------------------
// JSON helpers
// ---------------------------------------------------------------------------------------------------------
static void w32(W& w, const char* k, uint32_t v) { w.key(k).beginArr().val((long long)(v & 0xFFFF)).val((long long)(v >> 16)).endArr(); }
static void w64(W& w, const char* k, uint64_t v) { w.wide(k, v); }
static uint32_t r32(const Value& v) { return uint32_t(v[0].i()) | (uint32_t(v[1].i()) << 16); }
static uint64_t r64(const Value& v) { return uint64_t(v[0].i()) | (uint64_t(v[1].i()) << 16) | (uint64_t(v[2].i()) << 32) | (uint64_t(v[3].i()) << 48); }
static void wbytes(W& w, const char* k, uint64_t v, unsigned nbytes) { uint8_t b[8]; for (unsigned i = 0; i < 8; i++) b[i] = uint8_t(v >> (8 * i)); w.bytes(k, b, nbytes); }
static uint64_t rbytes(const Value& v) { uint64_t x = 0; for (size_t i = 0; i < v.size() && i < 8; i++) x |= uint64_t(v[i].i() & 0xFF) << (8 * i); return x; }

static void ser(const Value& v, std::string& s) {
  switch (v.kind) {
    case Value::Null: s += "null"; break;
    case Value::Bool: s += v.b ? "true" : "false"; break;
    case Value::Num: s += std::to_string(v.inum); break;
    case Value::Str: { W w; w.str(v.str.c_str()); s += w.s; break; }
    case Value::Arr: s += '['; for (size_t i = 0; i < v.arr.size(); i++) { if (i) s += ','; ser(v.arr[i], s); } s += ']'; break;
    case Value::Obj: s += '{'; for (size_t i = 0; i < v.obj.size(); i++) { if (i) s += ','; W w; w.str(v.obj[i].first.c_str()); s += w.s; s += ':'; ser(v.obj[i].second, s); } s += '}'; break;
  }
}

static const Operand_& as_op(const Operand_& o) { return o; }

// fields every operand answers (Operand_ level)
template<typename OpT, typename Canon>
static void common_view(W& w, const OpT& o, const Canon& canon, bool derived_ok = true) {
  const Operand_& b = o;
  w.kv("ot", (unsigned)b.op_type()).kv("none", b.is_none()).kv("isreg", b.is_reg()).kv("ismem", b.is_mem()).kv("isimm", b.is_imm())
   .kv("islabel", b.is_label()).kv("isreglist", b.is_reg_list()).kv("rom", b.is_reg_or_mem()).kv("rlm", b.is_reg_or_reg_list_or_mem());
  w32(w, "id", b.id());
  const Operand_& c = canon;
  Operand cp(b);
  Operand as; as = b;
  bool eq = b.equals(c) && (b == c) && !(b != c) && c.equals(b) && cp.equals(b) && as == b && b.has_signature(c) && b.has_signature(c.signature()) && derived_ok;
  w.kv("eq", eq);
}

// ---------------------------------------------------------------------------------------------------------
// Machines
// ---------------------------------------------------------------------------------------------------------
struct Machine {
  virtual ~Machine() {}
  virtual const char* name() const = 0;
  virtual void reset() = 0;
  virtual bool exec(const Value& ev, std::string& extra) = 0;   // extra: fields appended to the logged event (computed inputs)
  virtual void view(W& w) = 0;
  virtual std::string gen(vj::Rng& rng) = 0;                    // random event as JSON text
};

static Reg make_reg(uint32_t rt, uint32_t id) { return Reg(Reg::signature_of(RegType(rt)), id); }
static bool is_vec_rt(uint32_t rt) { return rt >= uint32_t(RegType::kVec8) && rt <= uint32_t(RegType::kVecNLen); }

static const uint32_t kIdAlphabet[] = { 0, 1, 2, 3, 4, 5, 7, 8, 15, 16, 30, 31, 32, 63, 254, 255, 256, 257, 0x7FFFFFFFu, 0x80000000u, 0xFFFFFFFEu, 0xFFFFFFFFu };
static uint32_t rnd_id(vj::Rng& r) { return r.chance(3, 4) ? kIdAlphabet[r.below(sizeof(kIdAlphabet) / sizeof(uint32_t))] : uint32_t(r.next()); }
static uint64_t rnd_v64(vj::Rng& r) {
  static const uint64_t a[] = { 0, 1, 2, 0x7F, 0x80, 0xFF, 0x100, 0x7FFF, 0x8000, 0xFFFF, 0x10000, 0x7FFFFFFF, 0x80000000ull, 0xFFFFFFFFull, 0x100000000ull,
    0x7FFFFFFFFFFFFFFFull, 0x8000000000000000ull, 0xFFFFFFFFFFFFFFFFull, 0xFFFFFFFF80000000ull, 0xFFFFFFFF7FFFFFFFull, 0xFFFFFFFFFFFFFF80ull, 0xFFFFFFFFFFFF8000ull,
    0x123456789ABCDEF0ull, 0xFFFFFFFF00000000ull };
  switch (r.below(4)) {
    case 0: return a[r.below(sizeof a / sizeof a[0])];
    case 1: return a[r.below(sizeof a / sizeof a[0])] + (r.next() % 5) - 2;
    case 2: return uint64_t(int64_t(int32_t(r.next())));
    default: return r.next();
  }
}
static uint32_t rnd_rt(vj::Rng& r) { static const uint32_t a[] = { 2, 3, 4, 5, 6, 7, 8, 9, 10, 11, 12, 13, 15, 16, 17, 25, 26, 27, 28, 29, 30, 31 }; return a[r.below(sizeof a / sizeof a[0])]; }
static uint32_t rnd_any_rt(vj::Rng& r) { return r.chance(1, 6) ? uint32_t(r.below(32)) : rnd_rt(r); }

struct EvB {   // event builder
  W w;
  explicit EvB(const char* e) { w.beginObj(); w.kv("e", e); }
  EvB& n(const char* k, long long v) { w.kv(k, v); return *this; }
  EvB& s(const char* k, const char* v) { w.kv(k, v); return *this; }
  EvB& u32(const char* k, uint32_t v) { w32(w, k, v); return *this; }
  EvB& u64(const char* k, uint64_t v) { w64(w, k, v); return *this; }
  std::string done() { w.endObj(); return w.s; }
};

// ---- memory operands -----------------------------------------------------------------------------------
template<typename MemT>
static void base_mem_view(W& w, const MemT& m) {
  w.kv("bt", (unsigned)m.base_type()).kv("it", (unsigned)m.index_type());
  w32(w, "bid", m.base_id()); w32(w, "iid", m.index_id()); w32(w, "off", uint32_t(m.offset_lo32()));
  w.kv("home", m.is_reg_home()).kv("hasb", m.has_base()).kv("hasi", m.has_index()).kv("hasboi", m.has_base_or_index()).kv("hasbai", m.has_base_and_index())
   .kv("hasbl", m.has_base_label()).kv("hasbr", m.has_base_reg()).kv("hasir", m.has_index_reg()).kv("bait", m.base_and_index_types())
   .kv("o64", m.is_offset_64bit()).kv("hasoff", m.has_offset());
  w64(w, "offset", uint64_t(m.offset()));
}

template<typename MemT>
static bool base_mem_exec(MemT& m, const std::string& e, const Value& ev) {
  if (e == "reset") m.reset();
  else if (e == "set_base_id") m.set_base_id(r32(ev["id"]));
  else if (e == "set_base_type") m.set_base_type(RegType(ev["rt"].i()));
  else if (e == "set_index_id") m.set_index_id(r32(ev["id"]));
  else if (e == "set_index_type") m.set_index_type(RegType(ev["rt"].i()));
  else if (e == "set_base") m.set_base(make_reg(uint32_t(ev["rt"].i()), r32(ev["id"])));
  else if (e == "set_index") m.set_index(make_reg(uint32_t(ev["rt"].i()), r32(ev["id"])));
  else if (e == "reset_base") m.reset_base();
  else if (e == "reset_index") m.reset_index();
  else if (e == "set_offset") m.set_offset(int64_t(r64(ev["v"])));
  else if (e == "set_offset_lo32") m.set_offset_lo32(int32_t(r32(ev["v"])));
  else if (e == "add_offset") m.add_offset(int64_t(r64(ev["v"])));
  else if (e == "clone_adjusted") m = m.clone_adjusted(int64_t(r64(ev["v"])));
  else if (e == "add_offset_lo32") m.add_offset_lo32(int32_t(r32(ev["v"])));
  else if (e == "reset_offset") m.reset_offset();
  else if (e == "reset_offset_lo32") m.reset_offset_lo32();
  else if (e == "set_reg_home") m.set_reg_home();
  else if (e == "clear_reg_home") m.clear_reg_home();
  else if (e == "clone") m = m.clone();
  else return false;
  return true;
}

// X04_SAFE=1 (sanitizer runs): offsets are chosen so that BaseMem::add_offset's signed 64-bit addition cannot overflow (that UB is a finding of its own)
static bool g_safe = getenv("X04_SAFE") && *getenv("X04_SAFE") == '1';
static uint64_t safe_delta(vj::Rng& r, const BaseMem& cur) {
  uint64_t v = rnd_v64(r);
  if (!g_safe || !cur.is_offset_64bit()) return v;
  int64_t res;
  if (__builtin_add_overflow(int64_t(v), cur.offset(), &res)) return uint64_t(r.below(9)) - 4;
  return v;
}
static std::string gen_base_mem(vj::Rng& r, const BaseMem& cur) {
  switch (r.below(19)) {
    case 0: return EvB("reset").done();
    case 1: return EvB("set_base_id").u32("id", rnd_id(r)).done();
    case 2: return EvB("set_base_type").n("rt", r.chance(1, 4) ? r.below(2) : rnd_any_rt(r)).done();
    case 3: return EvB("set_index_id").u32("id", rnd_id(r)).done();
    case 4: return EvB("set_index_type").n("rt", r.chance(1, 4) ? 0 : rnd_any_rt(r)).done();
    case 5: return EvB("set_base").n("rt", rnd_rt(r)).u32("id", rnd_id(r)).done();
    case 6: return EvB("set_index").n("rt", rnd_rt(r)).u32("id", rnd_id(r)).done();
    case 7: return EvB("reset_base").done();
    case 8: return EvB("reset_index").done();
    case 9: return EvB("set_offset").u64("v", rnd_v64(r)).done();
    case 10: return EvB("set_offset_lo32").u32("v", uint32_t(rnd_v64(r))).done();
    case 11: return EvB("add_offset").u64("v", safe_delta(r, cur)).done();
    case 12: return EvB("clone_adjusted").u64("v", safe_delta(r, cur)).done();
    case 13: return EvB("add_offset_lo32").u32("v", uint32_t(rnd_v64(r))).done();
    case 14: return EvB("reset_offset").done();
    case 15: return EvB("reset_offset_lo32").done();
    case 16: return EvB("set_reg_home").done();
    case 17: return EvB("clear_reg_home").done();
    default: return EvB("clone").done();
  }
}

struct BaseMemM : Machine {
  BaseMem m;
  const char* name() const override { return "basemem"; }
  void reset() override { m = BaseMem(); }
  bool exec(const Value& ev, std::string&) override {
    const std::string& e = ev["e"].s();
    if (e == "make_base") { m = BaseMem(make_reg(uint32_t(ev["rt"].i()), r32(ev["id"])), int32_t(r32(ev["off"]))); return true; }
    return base_mem_exec(m, e, ev);
  }
  void view(W& w) override {
    OperandSignature sg = OperandSignature::from_op_type(OperandType::kMem) | OperandSignature::from_mem_base_type(m.base_type()) |
                          OperandSignature::from_mem_index_type(m.index_type()) | OperandSignature::from_bits(m.is_reg_home() ? OperandSignature::kMemRegHomeFlag : 0u);
    BaseMem c(sg, m.base_id(), m.index_id(), m.offset_lo32());
    common_view(w, m, c);
    base_mem_view(w, m);
  }
  std::string gen(vj::Rng& r) override {
    if (r.chance(1, 10)) return EvB("make_base").n("rt", rnd_rt(r)).u32("id", rnd_id(r)).u32("off", uint32_t(rnd_v64(r))).done();
    return gen_base_mem(r, m);
  }
};

// x86 constructor families
struct X86PtrFns {
  const char* name; uint32_t size;
  x86::Mem (*b)(const x86::Gp&, int32_t);
  x86::Mem (*bi_gp)(const x86::Gp&, const x86::Gp&, uint32_t, int32_t);
  x86::Mem (*bi_vec)(const x86::Gp&, const x86::Vec&, uint32_t, int32_t);
  x86::Mem (*l)(const Label&, int32_t);
  x86::Mem (*li_gp)(const Label&, const x86::Gp&, uint32_t, int32_t);
  x86::Mem (*r)(const x86::Rip&, int32_t);
  x86::Mem (*a[3])(uint64_t);
  x86::Mem (*ai_gp[3])(uint64_t, const x86::Gp&, uint32_t);
  x86::Mem (*ai_vec[3])(uint64_t, const x86::Vec&, uint32_t);
};
#define PTRFN(n, sz) { #n, sz, \
  [](const x86::Gp& b, int32_t o) { return x86::n(b, o); }, \
  [](const x86::Gp& b, const x86::Gp& i, uint32_t s, int32_t o) { return x86::n(b, i, s, o); }, \
  [](const x86::Gp& b, const x86::Vec& i, uint32_t s, int32_t o) { return x86::n(b, i, s, o); }, \
  [](const Label& b, int32_t o) { return x86::n(b, o); }, \
  [](const Label& b, const x86::Gp& i, uint32_t s, int32_t o) { return x86::n(b, i, s, o); }, \
  [](const x86::Rip& b, int32_t o) { return x86::n(b, o); }, \
  { [](uint64_t a) { return x86::n(a); }, [](uint64_t a) { return x86::n##_abs(a); }, [](uint64_t a) { return x86::n##_rel(a); } }, \
  { [](uint64_t a, const x86::Gp& i, uint32_t s) { return x86::n(a, i, s); }, [](uint64_t a, const x86::Gp& i, uint32_t s) { return x86::n##_abs(a, i, s); }, [](uint64_t a, const x86::Gp& i, uint32_t s) { return x86::n##_rel(a, i, s); } }, \
  { [](uint64_t a, const x86::Vec& i, uint32_t s) { return x86::n(a, i, s); }, [](uint64_t a, const x86::Vec& i, uint32_t s) { return x86::n##_abs(a, i, s); }, [](uint64_t a, const x86::Vec& i, uint32_t s) { return x86::n##_rel(a, i, s); } } }
static const X86PtrFns kX86PtrFns[] = {
  PTRFN(ptr_8, 1), PTRFN(ptr_16, 2), PTRFN(ptr_32, 4), PTRFN(ptr_48, 6), PTRFN(ptr_64, 8), PTRFN(ptr_80, 10), PTRFN(ptr_128, 16), PTRFN(ptr_256, 32), PTRFN(ptr_512, 64),
  PTRFN(byte_ptr, 1), PTRFN(word_ptr, 2), PTRFN(dword_ptr, 4), PTRFN(fword_ptr, 6), PTRFN(qword_ptr, 8), PTRFN(tbyte_ptr, 10), PTRFN(tword_ptr, 10),
  PTRFN(oword_ptr, 16), PTRFN(dqword_ptr, 16), PTRFN(qqword_ptr, 32), PTRFN(xmmword_ptr, 16), PTRFN(ymmword_ptr, 32), PTRFN(zmmword_ptr, 64)
};
static const size_t kX86PtrFnCount = sizeof(kX86PtrFns) / sizeof(kX86PtrFns[0]);

struct X86MemM : Machine {
  x86::Mem m;
  const char* name() const override { return "x86mem"; }
  void reset() override { m = x86::Mem(); }

  bool make(const Value& ev) {
    std::string base_fn = ev["base_fn"].s(), sfx = ev["sfx"].s(), form = ev["form"].s();
    uint32_t brt = uint32_t(ev["brt"].i()), bid = r32(ev["bid"]), irt = uint32_t(ev["irt"].i()), iid = r32(ev["iid"]), sh = uint32_t(ev["sh"].i()), size = uint32_t(ev["size"].i());
    int32_t off = int32_t(r32(ev["off"]));
    uint64_t abs = r64(ev["abs"]);
    int k = sfx == "abs" ? 1 : sfx == "rel" ? 2 : 0;
    x86::Gp bgp(Reg::signature_of(RegType(brt)), bid);
    x86::Gp igp(Reg::signature_of(RegType(irt)), iid);
    x86::Vec ivec(Reg::signature_of(RegType(irt)), iid);
    bool vec = is_vec_rt(irt);
    Label lab(bid);
    if (base_fn == "ptr") {
      if (form == "b") m = x86::ptr(bgp, off, size);
      else if (form == "bi") m = vec ? x86::ptr(bgp, ivec, sh, off, size) : x86::ptr(bgp, igp, sh, off, size);
      else if (form == "l") m = x86::ptr(lab, off, size);
      else if (form == "li") m = vec ? x86::ptr(lab, ivec, sh, off, size) : x86::ptr(lab, igp, sh, off, size);
      else if (form == "r") m = x86::ptr(x86::rip, off, size);
      else if (form == "a") m = k == 0 ? x86::ptr(abs, size) : k == 1 ? x86::ptr_abs(abs, size) : x86::ptr_rel(abs, size);
      else if (form == "ai") {
        if (vec) m = k == 0 ? x86::ptr(abs, ivec, sh, size) : k == 1 ? x86::ptr_abs(abs, ivec, sh, size) : x86::ptr_rel(abs, ivec, sh, size);
        else m = k == 0 ? x86::ptr(abs, static_cast<const Reg&>(igp), sh, size) : k == 1 ? x86::ptr_abs(abs, static_cast<const Reg&>(igp), sh, size) : x86::ptr_rel(abs, static_cast<const Reg&>(igp), sh, size);
      }
      else return false;
      return true;
    }
    for (size_t i = 0; i < kX86PtrFnCount; i++) {
      const X86PtrFns& f = kX86PtrFns[i];
      if (base_fn != f.name) continue;
      if (form == "b") m = f.b(bgp, off);
      else if (form == "bi") m = vec ? f.bi_vec(bgp, ivec, sh, off) : f.bi_gp(bgp, igp, sh, off);
      else if (form == "l") m = f.l(lab, off);
      else if (form == "li") { if (vec) return false; m = f.li_gp(lab, igp, sh, off); }
      else if (form == "r") m = f.r(x86::rip, off);
      else if (form == "a") m = f.a[k](abs);
      else if (form == "ai") m = vec ? f.ai_vec[k](abs, ivec, sh) : f.ai_gp[k](abs, igp, sh);
      else return false;
      return true;
    }
    return false;
  }

  bool exec(const Value& ev, std::string&) override {
    const std::string& e = ev["e"].s();
    if (e == "make") return make(ev);
    if (e == "make_base") { m = x86::Mem(make_reg(uint32_t(ev["rt"].i()), r32(ev["id"])), int32_t(r32(ev["off"]))); return true; }
    if (e == "set_size") m.set_size(uint32_t(ev["n"].i()));
    else if (e == "clone_resized") m = m.clone_resized(uint32_t(ev["n"].i()));
    else if (e == "set_addr_type") m.set_addr_type(x86::Mem::AddrType(ev["n"].i()));
    else if (e == "reset_addr_type") m.reset_addr_type();
    else if (e == "set_addr_abs") m.set_addr_abs();
    else if (e == "set_addr_rel") m.set_addr_rel();
    else if (e == "set_segment") { if (ev.has("via") && ev["via"].i() == 1) m.set_segment(x86::SReg(uint32_t(ev["n"].i()))); else m.set_segment(uint32_t(ev["n"].i())); }
    else if (e == "reset_segment") m.reset_segment();
    else if (e == "set_shift") m.set_shift(uint32_t(ev["n"].i()));
    else if (e == "reset_shift") m.reset_shift();
    else if (e == "set_index_shift") m.set_index(make_reg(uint32_t(ev["rt"].i()), r32(ev["id"])), uint32_t(ev["n"].i()));
    else if (e == "set_broadcast") m.set_broadcast(x86::Mem::Broadcast(ev["n"].i()));
    else if (e == "clone_broadcasted") {
      uint32_t n = uint32_t(ev["n"].i());
      if (ev.has("via") && ev["via"].i() == 1) {
        switch (n) { case 0: m = m._1to1(); break; case 1: m = m._1to2(); break; case 2: m = m._1to4(); break; case 3: m = m._1to8(); break;
                     case 4: m = m._1to16(); break; case 5: m = m._1to32(); break; default: m = m._1to64(); break; }
      }
      else m = m.clone_broadcasted(x86::Mem::Broadcast(n));
    }
    else if (e == "reset_broadcast") m.reset_broadcast();
    else return base_mem_exec(m, e, ev);
    return true;
  }

  void view(W& w) override {
    using S = OperandSignature;
    S sg = S::from_op_type(OperandType::kMem) | S::from_mem_base_type(m.base_type()) | S::from_mem_index_type(m.index_type()) |
           S::from_bits(m.is_reg_home() ? S::kMemRegHomeFlag : 0u) | S::from_value<x86::Mem::kSignatureMemAddrTypeMask>(m.addr_type()) |
           S::from_value<x86::Mem::kSignatureMemShiftValueMask>(m.shift()) | S::from_value<x86::Mem::kSignatureMemSegmentMask>(m.segment_id()) |
           S::from_value<x86::Mem::kSignatureMemBroadcastMask>(m.get_broadcast()) | S::from_size(m.size());
    x86::Mem c(sg, m.base_id(), m.index_id(), m.offset_lo32());
    // derived accessors must agree with the primary ones (folded into "eq")
    bool derived = m.segment().id() == m.segment_id() && m.has_size(m.size()) && (!m.has_base_reg() || !Reg::signature_of(m.base_type()).is_valid() || (m.base_reg().id() == m.base_id() && m.base_reg().reg_type() == m.base_type())) &&
                   (!m.has_index_reg() || !Reg::signature_of(m.index_type()).is_valid() || (m.index_reg().id() == m.index_id() && m.index_reg().reg_type() == m.index_type())) && uint32_t(m.offset_hi32()) == m.base_id();
    common_view(w, m, c, derived);
    base_mem_view(w, m);
    w.kv("size", m.size()).kv("hassize", m.has_size()).kv("rmsize", as_op(m).x86_rm_size()).kv("addr", (unsigned)m.addr_type()).kv("isabs", m.is_addr_abs())
     .kv("isrel", m.is_addr_rel()).kv("seg", m.segment_id()).kv("hasseg", m.has_segment()).kv("sh", m.shift()).kv("hassh", m.has_shift())
     .kv("bc", (unsigned)m.get_broadcast()).kv("hasbc", m.has_broadcast());
  }

  std::string gen(vj::Rng& r) override {
    switch (r.below(30)) {
      case 0: case 1: case 2: {
        static const char* forms[] = { "b", "bi", "l", "li", "r", "a", "ai" };
        std::string form = forms[r.below(7)];
        std::string base_fn = r.chance(1, 3) ? "ptr" : kX86PtrFns[r.below(kX86PtrFnCount)].name;
        std::string sfx = (form == "a" || form == "ai") ? (const char*[]){ "", "abs", "rel" }[r.below(3)] : "";
        uint32_t irt = r.chance(1, 2) ? (uint32_t[]){ 4, 5, 6 }[r.below(3)] : (uint32_t[]){ 11, 12, 13 }[r.below(3)];
        if (form == "li" && base_fn != "ptr") irt = 6;
        uint32_t brt = form == "r" ? 31u : (uint32_t[]){ 4, 5, 6 }[r.below(3)];
        std::string fn = base_fn + (sfx.empty() ? "" : "_" + sfx);
        return EvB("make").s("fn", fn.c_str()).s("base_fn", base_fn.c_str()).s("sfx", sfx.c_str()).s("form", form.c_str()).n("brt", brt).u32("bid", form == "r" ? 0 : rnd_id(r))
          .n("irt", irt).u32("iid", rnd_id(r)).n("sh", r.below(4)).u32("off", uint32_t(rnd_v64(r))).u64("abs", rnd_v64(r)).n("size", base_fn == "ptr" ? (r.chance(1, 2) ? r.below(256) : 0) : 0).done();
      }
      case 3: return EvB("make_base").n("rt", rnd_rt(r)).u32("id", rnd_id(r)).u32("off", uint32_t(rnd_v64(r))).done();
      case 4: return EvB("set_size").n("n", r.chance(1, 2) ? r.below(256) : (uint32_t[]){ 0, 1, 2, 4, 8, 16, 32, 64, 255 }[r.below(9)]).done();
      case 5: return EvB("clone_resized").n("n", r.below(256)).done();
      case 6: return EvB("set_addr_type").n("n", r.below(3)).done();
      case 7: return EvB("reset_addr_type").done();
      case 8: return EvB("set_addr_abs").done();
      case 9: return EvB("set_addr_rel").done();
      case 10: return EvB("set_segment").n("n", r.below(7)).n("via", r.below(2)).done();
      case 11: return EvB("reset_segment").done();
      case 12: return EvB("set_shift").n("n", r.below(4)).done();
      case 13: return EvB("reset_shift").done();
      case 14: return EvB("set_index_shift").n("rt", rnd_rt(r)).u32("id", rnd_id(r)).n("n", r.below(4)).done();
      case 15: return EvB("set_broadcast").n("n", r.below(7)).done();
      case 16: return EvB("clone_broadcasted").n("n", r.below(7)).n("via", r.below(2)).done();
      case 17: return EvB("reset_broadcast").done();
      default: return gen_base_mem(r, m);
    }
  }
};

struct A64MemM : Machine {
  a64::Mem m;
  const char* name() const override { return "a64mem"; }
  void reset() override { m = a64::Mem(); }

  bool make(const Value& ev) {
    std::string fn = ev["fn"].s(), form = ev["form"].s();
    uint32_t brt = uint32_t(ev["brt"].i()), bid = r32(ev["bid"]), irt = uint32_t(ev["irt"].i()), iid = r32(ev["iid"]), sh = uint32_t(ev["sh"].i()), sop = uint32_t(ev["sop"].i());
    int32_t off = int32_t(r32(ev["off"]));
    a64::Gp b(Reg::signature_of(RegType(brt)), bid), i(Reg::signature_of(RegType(irt)), iid);
    if (form == "b") m = fn == "ptr" ? a64::ptr(b, off) : fn == "ptr_pre" ? a64::ptr_pre(b, off) : a64::ptr_post(b, off);
    else if (form == "bi") m = fn == "ptr" ? a64::ptr(b, i) : fn == "ptr_pre" ? a64::ptr_pre(b, i) : a64::ptr_post(b, i);
    else if (form == "bis") m = a64::ptr(b, i, arm::Shift(arm::ShiftOp(sop), sh));
    else if (form == "l") m = a64::ptr(Label(bid), off);
    else if (form == "a") m = a64::ptr(r64(ev["abs"]));
    else return false;
    return true;
  }

  static arm::Shift shift_of(uint32_t sop, uint32_t n, bool named) {
    if (!named) return arm::Shift(arm::ShiftOp(sop), n);
    switch (sop) {
      case 0: return a64::lsl(n); case 1: return a64::lsr(n); case 2: return a64::asr(n); case 3: return a64::ror(n); case 5: return a64::msl(n);
      case 6: return a64::uxtb(n); case 7: return a64::uxth(n); case 8: return a64::uxtw(n); case 9: return a64::uxtx(n);
      case 10: return a64::sxtb(n); case 11: return a64::sxth(n); case 12: return a64::sxtw(n); case 13: return a64::sxtx(n);
      default: return arm::Shift(arm::ShiftOp(sop), n);
    }
  }

  bool exec(const Value& ev, std::string&) override {
    const std::string& e = ev["e"].s();
    bool named = ev.has("via") && ev["via"].i() == 1;
    if (e == "make") return make(ev);
    if (e == "make_base") { m = a64::Mem(make_reg(uint32_t(ev["rt"].i()), r32(ev["id"])), int32_t(r32(ev["off"]))); return true; }
    if (e == "set_offset_mode") m.set_offset_mode(arm::OffsetMode(ev["n"].i()));
    else if (e == "reset_offset_mode") m.reset_offset_mode();
    else if (e == "make_pre_index") m.make_pre_index();
    else if (e == "make_post_index") m.make_post_index();
    else if (e == "pre") m = m.pre();
    else if (e == "post") m = m.post();
    else if (e == "pre_off") m = m.pre(int64_t(r64(ev["v"])));
    else if (e == "post_off") m = m.post(int64_t(r64(ev["v"])));
    else if (e == "set_shift_op") m.set_shift_op(arm::ShiftOp(ev["n"].i()));
    else if (e == "reset_shift_op") m.reset_shift_op();
    else if (e == "set_shift") m.set_shift(uint32_t(ev["n"].i()));
    else if (e == "reset_shift") m.reset_shift();
    else if (e == "set_shift_s") m.set_shift(shift_of(uint32_t(ev["sop"].i()), uint32_t(ev["n"].i()), named));
    else if (e == "set_index_shift") m.set_index(make_reg(uint32_t(ev["rt"].i()), r32(ev["id"])), uint32_t(ev["n"].i()));
    else if (e == "set_index_shift_s") m.set_index(make_reg(uint32_t(ev["rt"].i()), r32(ev["id"])), shift_of(uint32_t(ev["sop"].i()), uint32_t(ev["n"].i()), named));
    else return base_mem_exec(m, e, ev);
    return true;
  }

  void view(W& w) override {
    using S = OperandSignature;
    S sg = S::from_op_type(OperandType::kMem) | S::from_mem_base_type(m.base_type()) | S::from_mem_index_type(m.index_type()) |
           S::from_bits(m.is_reg_home() ? S::kMemRegHomeFlag : 0u) | S::from_value<a64::Mem::kSignatureMemShiftValueMask>(m.shift()) |
           S::from_value<a64::Mem::kSignatureMemShiftOpMask>(m.shift_op()) | S::from_value<a64::Mem::kSignatureMemOffsetModeMask>(m.offset_mode());
    a64::Mem c(sg, m.base_id(), m.index_id(), m.offset_lo32());
    common_view(w, m, c);
    base_mem_view(w, m);
    w.kv("mode", (unsigned)m.offset_mode()).kv("fixed", m.is_fixed_offset()).kv("prepost", m.is_pre_or_post()).kv("ispre", m.is_pre_index()).kv("ispost", m.is_post_index())
     .kv("sop", (unsigned)m.shift_op()).kv("sh", m.shift()).kv("hassh", m.has_shift());
  }

  std::string gen(vj::Rng& r) override {
    switch (r.below(30)) {
      case 0: case 1: case 2: {
        static const char* ff[][2] = { {"ptr", "b"}, {"ptr", "bi"}, {"ptr", "bis"}, {"ptr", "l"}, {"ptr", "a"}, {"ptr_pre", "b"}, {"ptr_pre", "bi"}, {"ptr_post", "b"}, {"ptr_post", "bi"} };
        size_t k = r.below(9);
        return EvB("make").s("fn", ff[k][0]).s("form", ff[k][1]).n("brt", 5 + r.below(2)).u32("bid", rnd_id(r)).n("irt", 5 + r.below(2)).u32("iid", rnd_id(r))
          .n("sop", r.below(14)).n("sh", r.below(32)).u32("off", uint32_t(rnd_v64(r))).u64("abs", rnd_v64(r)).done();
      }
      case 3: return EvB("make_base").n("rt", rnd_rt(r)).u32("id", rnd_id(r)).u32("off", uint32_t(rnd_v64(r))).done();
      case 4: return EvB("set_offset_mode").n("n", r.below(3)).done();
      case 5: return EvB("reset_offset_mode").done();
      case 6: return EvB("make_pre_index").done();
      case 7: return EvB("make_post_index").done();
      case 8: return EvB("pre").done();
      case 9: return EvB("post").done();
      case 10: return EvB("pre_off").u64("v", safe_delta(r, m)).done();
      case 11: return EvB("post_off").u64("v", safe_delta(r, m)).done();
      case 12: return EvB("set_shift_op").n("n", r.below(14)).done();
      case 13: return EvB("reset_shift_op").done();
      case 14: return EvB("set_shift").n("n", r.below(32)).done();
      case 15: return EvB("reset_shift").done();
      case 16: return EvB("set_shift_s").n("sop", r.below(14)).n("n", r.below(32)).n("via", r.below(2)).done();
      case 17: return EvB("set_index_shift").n("rt", rnd_rt(r)).u32("id", rnd_id(r)).n("n", r.below(32)).done();
      case 18: return EvB("set_index_shift_s").n("rt", rnd_rt(r)).u32("id", rnd_id(r)).n("sop", r.below(14)).n("n", r.below(32)).n("via", r.below(2)).done();
      default: return gen_base_mem(r, m);
    }
  }
};

#include "opmodel_part2.h"
