// X08 harness: drives one real CodeHolder with x86::Assembler / x86::Builder / x86::Compiler (or a64::Assembler ...),
// two StringLoggers and three ErrorHandlers through histories of settings / emission calls and records, after every
// call, what the call reported (result, handler notifications, exception, lines appended to each logger, validator
// invocations, effect of the pending one-shot state) plus the projection of all objects through the public getters.
// The trace is judged by spec/emit/EmitterStateTrace.tla (contract: spec/emit/EmitterState.tla).
//   emitstate script <scripts.ndjson> <trace.ndjson>    {"arch":"x64","kinds":["asm","bld","cmp"],"ops":[[...],...]}
//   emitstate random <trace.ndjson> <executions> <steps>
#include <asmjit/core.h>
#include <asmjit/x86.h>
#include <asmjit/a64.h>
#include "vjson.h"
#include <memory>
#include <string>
#include <vector>

using namespace asmjit;

// ---------------------------------------------------------------------------------------------------------------
// names
// ---------------------------------------------------------------------------------------------------------------
struct NameBit { const char* name; uint32_t bit; };
static const NameBit kDiag[] = {{"va", uint32_t(DiagnosticOptions::kValidateAssembler)}, {"vi", uint32_t(DiagnosticOptions::kValidateIntermediate)},
                                {"ra", uint32_t(DiagnosticOptions::kRAAnnotate)}, {"dc", uint32_t(DiagnosticOptions::kRADebugCFG)},
                                {"dl", uint32_t(DiagnosticOptions::kRADebugLiveness)}};
static const NameBit kEnc[] = {{"size", uint32_t(EncodingOptions::kOptimizeForSize)}, {"align", uint32_t(EncodingOptions::kOptimizedAlign)},
                               {"jumps", uint32_t(EncodingOptions::kPredictedJumps)}};
static const NameBit kOpt[] = {{"lock", uint32_t(InstOptions::kX86_Lock)}, {"rep", uint32_t(InstOptions::kX86_Rep)},
                               {"short", uint32_t(InstOptions::kShortForm)}, {"long", uint32_t(InstOptions::kLongForm)},
                               {"taken", uint32_t(InstOptions::kTaken)}, {"nottaken", uint32_t(InstOptions::kNotTaken)},
                               {"rex", uint32_t(InstOptions::kX86_Rex)}, {"reserved", uint32_t(InstOptions::kReserved)}};
static const NameBit kFmt[] = {{"mc", uint32_t(FormatFlags::kMachineCode)}, {"hi", uint32_t(FormatFlags::kHexImms)},
                               {"ho", uint32_t(FormatFlags::kHexOffsets)}, {"rc", uint32_t(FormatFlags::kRegCasts)},
                               {"po", uint32_t(FormatFlags::kPositions)}};

template<size_t N> static void names_of(vj::W& w, const char* key, const NameBit (&tab)[N], uint32_t bits) {
  w.key(key).beginArr();
  for (auto& nb : tab) if (bits & nb.bit) { w.val(nb.name); bits &= ~nb.bit; }
  if (bits) { char b[24]; snprintf(b, sizeof b, "b%x", bits); w.val(b); }
  w.endArr();
}
template<size_t N> static uint32_t bits_of(const NameBit (&tab)[N], const vj::Value& v) {
  uint32_t bits = 0;
  auto one = [&](const std::string& s) { for (auto& nb : tab) if (s == nb.name) bits |= nb.bit; };
  if (v.kind == vj::Value::Str) one(v.str); else for (auto& x : v.arr) one(x.str);
  return bits;
}

static void put_value(vj::W& w, const vj::Value& v) {
  switch (v.kind) {
    case vj::Value::Arr: w.beginArr(); for (auto& x : v.arr) put_value(w, x); w.endArr(); break;
    case vj::Value::Str: w.val(v.str); break;
    case vj::Value::Bool: w.val(v.b); break;
    case vj::Value::Num: w.val((long long)v.inum); break;
    default: w.null(); break;
  }
}

static const char* err_class(Error e) {
  return e == Error::kOk ? "Ok" : e == Error::kNotInitialized ? "NotInitialized" : "Err";
}

// ---------------------------------------------------------------------------------------------------------------
// validator wrapper: counts the invocations of BaseEmitter::_funcs.validate of emitter I; on AArch64 (whose validator
// accepts everything) it refuses the armed marker request so that the refusal path of the emitter can be driven.
// ---------------------------------------------------------------------------------------------------------------
static const int kMaxEm = 4;
static BaseEmitter::Funcs::ValidateFunc g_orig[kMaxEm];
static int g_vc[kMaxEm];
static bool g_refuse[kMaxEm];
template<int I> static Error ASMJIT_CDECL vwrap(const BaseInst& inst, const Operand_* ops, size_t n, ValidationFlags f) noexcept {
  g_vc[I]++;
  Error e = g_orig[I](inst, ops, n, f);
  if (e == Error::kOk && g_refuse[I]) return make_error(Error::kInvalidInstruction);
  return e;
}
static BaseEmitter::Funcs::ValidateFunc g_wrap[kMaxEm] = {vwrap<0>, vwrap<1>, vwrap<2>, vwrap<3>};

struct HThrow { Error err; };

struct Exec;
struct Handler : ErrorHandler {
  int id = 0;
  bool throws = false;
  Exec* ex = nullptr;
  void handle_error(Error err, const char* message, BaseEmitter* origin) override;
};

struct Note { int h; Error err; int origin; bool clean; bool msg; };

static const char* kReportMsg = "X08 report_error message";

struct Exec {
  FILE* out;
  std::string arch;
  std::vector<std::string> kinds;
  CodeHolder code;
  StringLogger lg[2];
  Handler hd[3];
  std::vector<std::unique_ptr<BaseEmitter>> em;
  std::vector<Note> notes;
  unsigned serial = 0;
  vj::Rng rng;
  vj::W w;

  Exec(FILE* f, const std::string& a, const std::vector<std::string>& k, uint64_t seed) : out(f), arch(a), kinds(k), rng(seed) {
    for (int i = 0; i < 3; i++) { hd[i].id = i + 1; hd[i].throws = (i == 2); hd[i].ex = this; }
    for (size_t i = 0; i < kinds.size(); i++) em.push_back(make(kinds[i]));
    w.beginObj().kv("e", "Reset").kv("arch", arch);
    w.key("kinds").beginArr(); for (auto& s : kinds) w.val(s); w.endArr();
    w.endObj().emit(out);
  }

  bool x64() const { return arch == "x64" || arch == "x86"; }     // the x86 family (x86-32 or x86-64)
  bool is32() const { return arch == "x86"; }
  std::unique_ptr<BaseEmitter> make(const std::string& kind) {
    if (x64()) {
      if (kind == "asm") return std::unique_ptr<BaseEmitter>(new x86::Assembler());
      if (kind == "bld") return std::unique_ptr<BaseEmitter>(new x86::Builder());
      return std::unique_ptr<BaseEmitter>(new x86::Compiler());
    }
    if (kind == "asm") return std::unique_ptr<BaseEmitter>(new a64::Assembler());
    if (kind == "bld") return std::unique_ptr<BaseEmitter>(new a64::Builder());
    return std::unique_ptr<BaseEmitter>(new a64::Compiler());
  }
  int index_of(BaseEmitter* e) const { for (size_t i = 0; i < em.size(); i++) if (em[i].get() == e) return int(i) + 1; return 0; }
  int logger_id(Logger* l) const { return l == &lg[0] ? 1 : l == &lg[1] ? 2 : l ? 9 : 0; }
  int handler_id(ErrorHandler* h) const { for (int i = 0; i < 3; i++) if (h == &hd[i]) return i + 1; return h ? 9 : 0; }
  Logger* logger_of(int id) { return id == 1 ? &lg[0] : id == 2 ? &lg[1] : nullptr; }
  ErrorHandler* handler_of(int id) { return id >= 1 && id <= 3 ? &hd[id - 1] : nullptr; }

  // ---- per call measurement -------------------------------------------------------------------------------
  std::string r;
  int th = 0;
  Error ret = Error::kOk;
  std::string delta[2];

  void begin() {
    notes.clear(); th = 0; ret = Error::kOk; r = "Ok";
    lg[0].clear(); lg[1].clear();
    for (int i = 0; i < kMaxEm; i++) { g_vc[i] = 0; }
  }
  template<typename F> void call(F&& f) {
    try { ret = f(); r = err_class(ret); }
    catch (const HThrow& t) { th = 1; r = "Thrown"; ret = t.err; }
    delta[0].assign(lg[0].data(), lg[0].data_size());
    delta[1].assign(lg[1].data(), lg[1].data_size());
  }
  static int count_lines(const std::string& s) { int n = 0; for (char c : s) n += (c == '\n'); return n; }

  const vj::Value* cur_op = nullptr;
  void outputs() {
    if (cur_op) { w.key("op"); put_value(w, *cur_op); }
    w.kv("r", r).kv("th", th);
    w.key("hc").beginArr();
    for (auto& n : notes) {
      w.beginObj().kv("h", n.h).kv("c", err_class(n.err)).kv("eq", th ? true : n.err == ret).kv("o", n.origin).kv("cl", n.clean).kv("msg", n.msg).endObj();
    }
    w.endArr();
    w.key("ln").beginArr().val(count_lines(delta[0])).val(count_lines(delta[1])).endArr();
  }

  void projection() {
    w.key("P").beginObj();
    w.key("h").beginObj().kv("in", code.is_initialized()).kv("lg", logger_id(code.logger())).kv("eh", handler_id(code.error_handler())).endObj();
    w.key("em").beginArr();
    for (auto& e : em) {
      w.beginObj().kv("att", e->is_initialized()).kv("lg", logger_id(e->logger())).kv("ol", e->has_own_logger())
       .kv("eh", handler_id(e->error_handler())).kv("oh", e->has_own_error_handler());
      names_of(w, "dg", kDiag, uint32_t(e->diagnostic_options()));
      names_of(w, "en", kEnc, uint32_t(e->encoding_options()));
      names_of(w, "op", kOpt, uint32_t(e->inst_options()));
      w.kv("xr", e->has_extra_reg() ? 1 : 0).kv("cm", e->inline_comment() ? 1 : 0);
      // informational (not judged): the fast-path switch and the finalized flag
      w.kv("fr", Support::test(e->forced_inst_options(), InstOptions::kReserved) ? 1 : 0).kv("fi", e->is_finalized() ? 1 : 0)
       .kv("lc", e->has_emitter_flag(EmitterFlags::kLogComments) ? 1 : 0).kv("hl", e->has_logger()).kv("hh", e->has_error_handler());
      w.endObj();
    }
    w.endArr();
    w.key("lo").beginArr();
    for (auto& l : lg) {
      w.beginObj();
      names_of(w, "fl", kFmt, uint32_t(l.flags()));
      w.kv("ic", l.indentation(FormatIndentationGroup::kCode)).kv("il", l.indentation(FormatIndentationGroup::kLabel))
       .kv("im", l.indentation(FormatIndentationGroup::kComment)).kv("pd", (unsigned long long)l.padding(FormatPaddingGroup::kRegularLine));
      w.endObj();
    }
    w.endArr();
    w.endObj();
  }
  void finish() { outputs(); projection(); w.endObj().emit(out); }

  // ---- validator wrapper ------------------------------------------------------------------------------------
  void wrap(int i) {
    BaseEmitter* e = em[i].get();
    if (i < kMaxEm && e->_funcs.validate && e->_funcs.validate != g_wrap[i]) { g_orig[i] = e->_funcs.validate; e->_funcs.validate = g_wrap[i]; }
  }

  // ---- helpers for emission -----------------------------------------------------------------------------------
  BaseAssembler* as_asm(int i) { return kinds[i] == "asm" ? static_cast<BaseAssembler*>(em[i].get()) : nullptr; }
  BaseBuilder* as_bld(int i) { return kinds[i] != "asm" ? static_cast<BaseBuilder*>(em[i].get()) : nullptr; }

  // make fewer than 16 (x86) / 4 (AArch64) bytes remain in the buffer the attached assembler i writes to
  void pad_to_growth(BaseAssembler* a) {
    if (!a->is_initialized()) return;
    size_t need = x64() ? 16 : 4;
    size_t rem = size_t(a->_buffer_end - a->_buffer_ptr);
    if (rem < need) return;
    size_t keep = x64() ? size_t(rng.below(need)) : 0;
    uint8_t zero = 0;
    Logger* l = a->logger();                 // keep the preparation out of the loggers (a 16 KiB data line is useless)
    InstOptions io = a->inst_options(); RegOnly xr = a->extra_reg(); const char* ic = a->inline_comment();
    bool own = a->has_own_logger();
    (void)l; (void)own;
    try { (void)a->embed_data_array(TypeId::kUInt8, &zero, 1, rem - keep); } catch (const HThrow&) {}
    a->set_inst_options(io); a->set_extra_reg(xr); a->set_inline_comment(ic);
  }
  void resync_assemblers() {
    if (!code.is_initialized()) return;
    for (size_t i = 0; i < em.size(); i++) {
      BaseAssembler* a = as_asm(int(i));
      if (a && a->is_initialized() && a->code() == &code) {
        try { (void)a->set_offset(a->_section->buffer_size()); } catch (const HThrow&) {}
      }
    }
  }

  static const char* cm_text(unsigned n) {
    static const char* t[4] = {"X08-ic-0", "X08-ic-1", "X08-ic-2", "X08-ic-3"};
    return t[n & 3];
  }

  // ---------------------------------------------------------------------------------------------------------
  // one operation
  // ---------------------------------------------------------------------------------------------------------
  void op(const vj::Value& o) {
    const std::string& name = o[0].str;
    serial++;
    cur_op = &o;
    auto EM = [&](size_t k) -> int { return int(o[k].i()) - 1; };
    begin();
    if (name == "Init") {
      call([&] { return code.init(Environment(is32() ? Arch::kX86 : x64() ? Arch::kX64 : Arch::kAArch64)); });
      w.beginObj().kv("e", "Init"); finish(); return;
    }
    if (name == "ResetH") {
      call([&] { code.reset(rng.chance(1, 2) ? ResetPolicy::kSoft : ResetPolicy::kHard); return Error::kOk; });
      w.beginObj().kv("e", "ResetH"); finish(); return;
    }
    if (name == "Reinit") {
      call([&] { return code.reinit(); });
      w.beginObj().kv("e", "Reinit"); finish(); return;
    }
    if (name == "Attach") {
      int i = EM(1);
      call([&] { return code.attach(em[i].get()); });
      if (em[i]->is_initialized()) wrap(i);
      w.beginObj().kv("e", "Attach").kv("em", i + 1); finish(); return;
    }
    if (name == "Detach") {
      int i = EM(1);
      call([&] { return code.detach(em[i].get()); });
      w.beginObj().kv("e", "Detach").kv("em", i + 1); finish(); return;
    }
    if (name == "HSetLogger") {
      int l = int(o[1].i());
      call([&] { if (l == 0 && (serial & 1)) code.reset_logger(); else code.set_logger(logger_of(l)); return Error::kOk; });
      w.beginObj().kv("e", "HSetLogger").kv("l", l); finish(); return;
    }
    if (name == "HSetHandler") {
      int h = int(o[1].i());
      call([&] { if (h == 0 && (serial & 1)) code.reset_error_handler(); else code.set_error_handler(handler_of(h)); return Error::kOk; });
      w.beginObj().kv("e", "HSetHandler").kv("h", h); finish(); return;
    }
    if (name == "ESetLogger") {
      int i = EM(1), l = int(o[2].i());
      call([&] { if (l == 0 && (serial & 1)) em[i]->reset_logger(); else em[i]->set_logger(logger_of(l)); return Error::kOk; });
      w.beginObj().kv("e", "ESetLogger").kv("em", i + 1).kv("l", l); finish(); return;
    }
    if (name == "ESetHandler") {
      int i = EM(1), h = int(o[2].i());
      call([&] { if (h == 0 && (serial & 1)) em[i]->reset_error_handler(); else em[i]->set_error_handler(handler_of(h)); return Error::kOk; });
      w.beginObj().kv("e", "ESetHandler").kv("em", i + 1).kv("h", h); finish(); return;
    }
    if (name == "AddDiag" || name == "ClearDiag") {
      int i = EM(1); uint32_t bits = bits_of(kDiag, o[2]);
      call([&] { if (name == "AddDiag") em[i]->add_diagnostic_options(DiagnosticOptions(bits)); else em[i]->clear_diagnostic_options(DiagnosticOptions(bits)); return Error::kOk; });
      w.beginObj().kv("e", name).kv("em", i + 1); names_of(w, "o", kDiag, bits); finish(); return;
    }
    if (name == "AddEnc" || name == "ClearEnc") {
      int i = EM(1); uint32_t bits = bits_of(kEnc, o[2]);
      call([&] { if (name == "AddEnc") em[i]->add_encoding_options(EncodingOptions(bits)); else em[i]->clear_encoding_options(EncodingOptions(bits)); return Error::kOk; });
      w.beginObj().kv("e", name).kv("em", i + 1); names_of(w, "o", kEnc, bits); finish(); return;
    }
    if (name == "SetOpt" || name == "AddOpt") {
      int i = EM(1); uint32_t bits = bits_of(kOpt, o[2]);
      call([&] { if (name == "SetOpt") em[i]->set_inst_options(InstOptions(bits)); else em[i]->add_inst_options(InstOptions(bits)); return Error::kOk; });
      w.beginObj().kv("e", name).kv("em", i + 1); names_of(w, "o", kOpt, bits); finish(); return;
    }
    if (name == "ResetOpt") {
      int i = EM(1);
      call([&] { em[i]->reset_inst_options(); return Error::kOk; });
      w.beginObj().kv("e", "ResetOpt").kv("em", i + 1); finish(); return;
    }
    if (name == "SetXr") {
      int i = EM(1), v = int(o[2].i());
      call([&] {
        if (!v) em[i]->reset_extra_reg();
        else if (x64()) { if (serial & 1) em[i]->set_extra_reg(x86::k1); else { RegOnly ro; ro.init(x86::k1); em[i]->set_extra_reg(ro); } }
        else em[i]->set_extra_reg(a64::x9);
        return Error::kOk; });
      w.beginObj().kv("e", "SetXr").kv("em", i + 1).kv("v", v); finish(); return;
    }
    if (name == "SetCm") {
      int i = EM(1), v = int(o[2].i());
      call([&] { if (v) em[i]->set_inline_comment(cm_text(serial)); else em[i]->reset_inline_comment(); return Error::kOk; });
      w.beginObj().kv("e", "SetCm").kv("em", i + 1).kv("v", v); finish(); return;
    }
    if (name == "ResetState") {
      int i = EM(1);
      call([&] { em[i]->reset_state(); return Error::kOk; });
      w.beginObj().kv("e", "ResetState").kv("em", i + 1); finish(); return;
    }
    if (name == "Helper") {
      int i = EM(1); const std::string& hn = o[2].str;
      call([&] { helper(i, hn); return Error::kOk; });
      w.beginObj().kv("e", "Helper").kv("em", i + 1).kv("name", hn); finish(); return;
    }
    if (name == "Recreate") {
      int i = EM(1);
      call([&] { em[i].reset(); em[i] = make(kinds[i]); return Error::kOk; });
      w.beginObj().kv("e", "Recreate").kv("em", i + 1); finish(); return;
    }
    if (name == "LFlags") {
      int l = int(o[1].i()); const std::string& mode = o[2].str; uint32_t bits = bits_of(kFmt, o[3]);
      call([&] { Logger& L = lg[l - 1];
        if (mode == "set") L.set_flags(FormatFlags(bits)); else if (mode == "add") L.add_flags(FormatFlags(bits)); else L.clear_flags(FormatFlags(bits));
        return Error::kOk; });
      w.beginObj().kv("e", "LFlags").kv("l", l).kv("mode", mode); names_of(w, "o", kFmt, bits); finish(); return;
    }
    if (name == "LInd") {
      int l = int(o[1].i()); const std::string& g = o[2].str; unsigned n = unsigned(o[3].i());
      FormatIndentationGroup grp = g == "code" ? FormatIndentationGroup::kCode : g == "label" ? FormatIndentationGroup::kLabel : FormatIndentationGroup::kComment;
      call([&] { if (n == 0 && (serial & 1)) lg[l - 1].reset_indentation(grp); else lg[l - 1].set_indentation(grp, n); return Error::kOk; });
      w.beginObj().kv("e", "LInd").kv("l", l).kv("g", g).kv("n", n); finish(); return;
    }
    if (name == "LPad") {
      int l = int(o[1].i()); unsigned n = unsigned(o[2].i());
      call([&] { if (n == 0 && (serial & 1)) lg[l - 1].reset_padding(FormatPaddingGroup::kRegularLine); else lg[l - 1].set_padding(FormatPaddingGroup::kRegularLine, n); return Error::kOk; });
      w.beginObj().kv("e", "LPad").kv("l", l).kv("n", n); finish(); return;
    }
    if (name == "LReset") {
      int l = int(o[1].i());
      call([&] { lg[l - 1].reset_options(); return Error::kOk; });
      w.beginObj().kv("e", "LReset").kv("l", l); finish(); return;
    }
    if (name == "LCopy") {
      int l = int(o[1].i()), from = int(o[2].i());
      call([&] { lg[l - 1].set_options(lg[from - 1].options()); return Error::kOk; });
      w.beginObj().kv("e", "LCopy").kv("l", l).kv("from", from); finish(); return;
    }
    if (name == "Report") {
      int i = EM(1);
      call([&] { return em[i]->report_error(make_error(Error::kInvalidArgument), kReportMsg); });
      w.beginObj().kv("e", "Report").kv("em", i + 1); finish(); return;
    }
    if (name == "Emit") { emit(EM(1), o[2].str, o.size() > 3 && o[3].b); return; }
    if (name == "EmitN") {
      int i = EM(1);
      Operand_ ops7[7];
      for (auto& x : ops7) x = x64() ? Operand_(x86::eax) : Operand_(a64::x0);
      call([&] { return em[i]->emit_op_array(x64() ? InstId(x86::Inst::kIdAdd) : InstId(a64::Inst::kIdAdd), ops7, 7); });
      w.beginObj().kv("e", "EmitN").kv("em", i + 1); finish(); return;
    }
    if (name == "Misc") { misc(EM(1), o[2].str); return; }
    if (name == "Finalize") { finalize(EM(1), o.size() > 2 && o[2].b); return; }
    fprintf(stderr, "unknown op %s\n", name.c_str());
    exit(3);
  }

  // x86emitter.h option helpers (AArch64 has none: the generic setters are used instead)
  void helper(int i, const std::string& hn) {
    BaseEmitter* e = em[i].get();
    if (!x64()) {
      if (hn == "k") e->set_extra_reg(a64::x9);
      else { vj::Value v; v.kind = vj::Value::Str; v.str = hn; e->add_inst_options(InstOptions(bits_of(kOpt, v))); }
      return;
    }
    auto apply = [&](auto* x) {
      if (hn == "lock") x->lock(); else if (hn == "rep") x->rep(); else if (hn == "short") x->short_(); else if (hn == "long") x->long_();
      else if (hn == "taken") x->taken(); else if (hn == "nottaken") x->not_taken(); else if (hn == "rex") x->rex(); else if (hn == "k") x->k(x86::k1);
    };
    if (kinds[i] == "asm") apply(static_cast<x86::Assembler*>(e));
    else if (kinds[i] == "bld") apply(static_cast<x86::Builder*>(e));
    else {
      x86::Compiler* c = static_cast<x86::Compiler*>(e);
      if (hn == "lock") c->lock(); else if (hn == "rep") c->add_inst_options(InstOptions::kX86_Rep); else if (hn == "short") c->short_(); else if (hn == "long") c->long_();
      else if (hn == "taken") c->taken(); else if (hn == "nottaken") c->not_taken(); else if (hn == "rex") c->rex(); else if (hn == "k") c->k(x86::k1);
    }
  }

  // ---- Emit ---------------------------------------------------------------------------------------------------
  // The request is chosen for (class, pending one-shot state) so that the class holds; when no request fits, the
  // class recorded is "X" (no claim).
  void emit(int i, std::string cls, bool grow) {
    BaseEmitter* e = em[i].get();
    BaseAssembler* a = as_asm(i);
    BaseBuilder* b = as_bld(i);
    uint32_t opts = uint32_t(e->inst_options());
    bool lock = opts & uint32_t(InstOptions::kX86_Lock), rep = opts & uint32_t(InstOptions::kX86_Rep);
    bool other = (opts & ~(uint32_t(InstOptions::kX86_Lock) | uint32_t(InstOptions::kX86_Rep))) != 0;
    bool xr = e->has_extra_reg();
    bool cm = e->inline_comment() != nullptr;
    enum Req { AddMR, AddRR, MovRI, Paddd, MovXX, Movs, Vaddps, RexIn32, A64Add, A64Marker, A64Bad, Id0 } req = AddRR;
    if (x64()) {
      int flav = (other || (lock && rep) || ((lock || rep) && xr)) ? -1 : lock ? 1 : rep ? 2 : xr ? 3 : 0;
      // (instruction id 0 only on an Assembler: InstAPI::validate() accepts kIdNone without operands - C13's subject)
      if (cls == "B") req = (a && serial % 3 == 0) ? Id0 : (a && is32() && serial % 3 == 1) ? RexIn32 : MovXX;
      else if (flav < 0) { cls = "X"; req = AddRR; }
      else if (cls == "G") req = flav == 1 ? AddMR : flav == 2 ? Movs : flav == 3 ? Vaddps : ((serial & 1) ? AddRR : AddMR);
      else if (cls == "Z") { if (flav == 0) { req = MovRI; if (is32()) cls = "G"; } else { cls = "X"; req = AddRR; } }
      else if (cls == "V") { if (flav == 0 || flav == 3) req = Paddd; else if (flav == 1) req = AddRR; else { cls = "X"; req = AddRR; } }
      else { cls = "X"; req = AddRR; }
    } else {
      if (cls == "B") req = (serial & 1) ? Id0 : A64Bad;
      else if (cls == "V") { if (a && i < kMaxEm) req = A64Marker; else { cls = "X"; req = A64Add; } }
      else { if (cls == "Z") cls = "G"; if (cls != "G") cls = "X"; req = A64Add; }
    }
    // the request as (id, operands)
    InstId id = 0; Operand_ ops[6]; size_t n = 0;
    for (auto& o : ops) o.reset();
    auto set = [&](InstId iid, std::initializer_list<Operand> l) { id = iid; n = 0; for (auto& o : l) ops[n++] = o; };
    x86::Gp base = is32() ? x86::eax : x86::rax, di = is32() ? x86::edi : x86::rdi, si = is32() ? x86::esi : x86::rsi;
    switch (req) {
      case AddMR: set(x86::Inst::kIdAdd, {x86::ptr(base, 0, 4), x86::ebx}); break;
      case AddRR: set(x86::Inst::kIdAdd, {x86::eax, x86::ebx}); break;
      case MovRI: if (is32()) set(x86::Inst::kIdMov, {x86::eax, Imm(1)}); else set(x86::Inst::kIdMov, {x86::rax, Imm(1)}); break;
      case Paddd: set(x86::Inst::kIdPaddd, {x86::xmm0, x86::ymm1}); break;
      case MovXX: set(x86::Inst::kIdMov, {x86::xmm0, x86::xmm1}); break;
      case Movs: set(x86::Inst::kIdMovs, {x86::ptr(di, 0, 1), x86::ptr(si, 0, 1)}); break;
      case Vaddps: set(x86::Inst::kIdVaddps, {x86::zmm0, x86::zmm1, x86::zmm2}); break;
      case RexIn32: set(x86::Inst::kIdAdd, {x86::r8d, x86::eax}); break;
      case A64Add: set(a64::Inst::kIdAdd, {a64::x0, a64::x1, a64::x2}); break;
      case A64Marker: set(a64::Inst::kIdSub, {a64::x3, a64::x4, a64::x5}); break;
      case A64Bad: set(a64::Inst::kIdAdd, {a64::x0}); break;
      case Id0: set(0, {}); break;
    }
    if (grow && a) pad_to_growth(a);
    begin();
    if (req == A64Marker) g_refuse[i] = true;
    size_t off0 = a && a->is_initialized() ? a->offset() : 0;
    BaseNode* cur0 = b && b->is_initialized() ? b->cursor() : nullptr;
    unsigned api = serial % 3;                    // the three public ways to emit the same request
    call([&]() -> Error {
      if (api == 1) return e->emit_op_array(id, ops, n);
      if (api == 2) return e->emit_inst(BaseInst(id, e->inst_options(), e->extra_reg()), ops, n);
      switch (n) {
        case 0: return e->emit(id);
        case 1: return e->emit(id, ops[0]);
        case 2: return e->emit(id, ops[0], ops[1]);
        default: return e->emit(id, ops[0], ops[1], ops[2]);
      }
    });
    g_refuse[i] = false;
    // what was appended, and the effect of the pending one-shot state on it
    size_t nb = 0;
    std::vector<std::string> ap, apx;
    int ind = 0, col = 0, tl = 0;
    if (a && a->is_initialized()) {
      nb = a->offset() - off0;
      const std::string& line = delta[logger_id(a->logger()) == 2 ? 1 : 0];
      bool logged = logger_id(a->logger()) != 0 && !line.empty() && r == "Ok";
      if (nb && cls != "X") {
        const uint8_t* p = a->_buffer_data + off0;
        if (x64()) {
          apx.push_back("lock"); apx.push_back("rep");
          if (p[0] == 0xF0) ap.push_back("lock");
          if (p[0] == 0xF3) ap.push_back("rep");
          if (p[0] == 0x62 && nb >= 4) { apx.push_back("xr"); if ((p[3] & 7) == 1) ap.push_back("xr"); }
        }
      }
      if (logged) {
        if (cls != "X" || true) { apx.push_back("cm"); if (cm && line.find("X08-ic-") != std::string::npos) ap.push_back("cm"); }
        while (size_t(ind) < line.size() && line[size_t(ind)] == ' ') ind++;
        size_t sc = line.find(';');
        if (sc != std::string::npos) {
          col = int(sc);
          size_t t = sc; while (t > 0 && line[t - 1] == ' ') t--;
          tl = int(t);
        }
      }
    } else if (b && b->is_initialized()) {
      BaseNode* cur = b->cursor();
      if (cur != cur0 && cur && cur->is_inst()) {
        nb = 1;
        InstNode* n = cur->as<InstNode>();
        apx = {"lock", "rep", "xr", "cm"};
        if (Support::test(n->options(), InstOptions::kX86_Lock)) ap.push_back("lock");
        if (Support::test(n->options(), InstOptions::kX86_Rep)) ap.push_back("rep");
        if (n->extra_reg().is_reg()) ap.push_back("xr");
        if (n->inline_comment() && strncmp(n->inline_comment(), "X08-ic-", 7) == 0) ap.push_back("cm");
      } else if (cur != cur0) nb = 1;
    }
    (void)xr;
    w.beginObj().kv("e", "Emit").kv("em", i + 1).kv("cls", cls).kv("g", grow).kv("vc", i < kMaxEm ? g_vc[i] : 0).kv("nb", nb).kv("sz", nb);
    w.key("ap").beginArr(); for (auto& s : ap) w.val(s); w.endArr();
    w.key("apx").beginArr(); for (auto& s : apx) w.val(s); w.endArr();
    w.kv("ind", ind).kv("col", col).kv("tl", tl);
    finish();
  }

  // ---- comment / commentf / bind / align / embed ----------------------------------------------------------------
  void misc(int i, const std::string& k) {
    BaseEmitter* e = em[i].get();
    char text[64];
    snprintf(text, sizeof text, "X08-comment-%u", serial);
    begin();
    call([&]() -> Error {
      if (k == "C") return (serial & 1) ? e->comment(text) : e->comment(text, strlen(text));
      if (k == "F") return e->commentf("X08-%s-%u", "comment", serial);
      if (k == "L") { Label L = e->new_label(); return e->bind(L); }
      if (k == "A") return e->align(AlignMode::kCode, 8);
      return e->embed("\x1f\x20\x03\xd5", 4);
    });
    bool tx = false; int ind = 0;
    int lid = logger_id(e->logger());
    if (lid == 1 || lid == 2) {
      const std::string& d = delta[lid - 1];
      tx = d == std::string(text) + "\n";
      while (size_t(ind) < d.size() && d[size_t(ind)] == ' ') ind++;
    }
    w.beginObj().kv("e", "Misc").kv("em", i + 1).kv("k", k).kv("tx", tx).kv("ind", ind);
    finish();
  }

  // ---- finalize ----------------------------------------------------------------------------------------------------
  void finalize(int i, bool grow) {
    BaseEmitter* e = em[i].get();
    if (grow && code.is_initialized() && kinds[i] != "asm" && e->is_initialized()) {
      for (size_t j = 0; j < em.size(); j++) { BaseAssembler* a = as_asm(int(j)); if (a && a->is_initialized()) { resync_assemblers(); pad_to_growth(a); break; } }
    }
    begin();
    call([&] { return e->finalize(); });
    w.beginObj().kv("e", "Finalize").kv("em", i + 1).kv("g", grow);
    finish();
    resync_assemblers();
  }
};

void Handler::handle_error(Error err, const char* message, BaseEmitter* origin) {
  Note n;
  n.h = id; n.err = err; n.origin = ex->index_of(origin);
  n.clean = origin->inst_options() == InstOptions::kNone && !origin->has_extra_reg() && origin->inline_comment() == nullptr;
  n.msg = message != nullptr && message[0] != 0;
  if (message && strstr(message, "X08 report")) n.msg = strcmp(message, kReportMsg) == 0;
  ex->notes.push_back(n);
  if (throws) throw HThrow{err};
}

// ---------------------------------------------------------------------------------------------------------------
// random histories
// ---------------------------------------------------------------------------------------------------------------
static vj::Value V(long long i) { vj::Value v; v.kind = vj::Value::Num; v.inum = i; v.num = double(i); return v; }
static vj::Value V(const char* s) { vj::Value v; v.kind = vj::Value::Str; v.str = s; return v; }
static vj::Value VB(bool b) { vj::Value v; v.kind = vj::Value::Bool; v.b = b; return v; }
static vj::Value A(std::initializer_list<vj::Value> xs) { vj::Value v; v.kind = vj::Value::Arr; v.arr.assign(xs.begin(), xs.end()); return v; }

static vj::Value random_op(vj::Rng& r, Exec& ex, unsigned step) {
  size_t n = ex.em.size();
  long long i = 1 + (long long)r.below(n);
  bool inited = ex.code.is_initialized();
  bool att = ex.em[size_t(i - 1)]->is_initialized();
  unsigned c = unsigned(r.below(1000));
  // keep the interesting situation (initialised holder, attached emitter) frequent
  if (!inited && c < 600) return A({V("Init")});
  if (inited && !att && c < 450) return A({V("Attach"), V(i)});
  if (c < 8) return A({V("Init")});
  if (c < 16) return A({V("ResetH")});
  if (c < 36) return A({V("Reinit")});
  if (c < 60) return A({V("Attach"), V(i)});
  if (c < 80) return A({V("Detach"), V(i)});
  if (c < 90) return A({V("Recreate"), V(i)});
  if (c < 150) return A({V("HSetLogger"), V((long long)r.below(3))});
  if (c < 200) return A({V("HSetHandler"), V((long long)r.below(4))});
  if (c < 260) return A({V("ESetLogger"), V(i), V((long long)r.below(3))});
  if (c < 310) return A({V("ESetHandler"), V(i), V((long long)r.below(4))});
  static const char* dn[] = {"va", "vi", "va", "vi", "ra", "dc", "dl"};
  if (c < 370) return A({V("AddDiag"), V(i), r.chance(1, 5) ? A({V("va"), V("vi")}) : A({V(dn[r.below(7)])})});
  if (c < 420) return A({V("ClearDiag"), V(i), r.chance(1, 5) ? A({V("va"), V("vi"), V("ra")}) : A({V(dn[r.below(7)])})});
  static const char* en[] = {"size", "align", "jumps"};
  if (c < 440) return A({V("AddEnc"), V(i), A({V(en[r.below(3)])})});
  if (c < 455) return A({V("ClearEnc"), V(i), A({V(en[r.below(3)])})});
  static const char* hn[] = {"lock", "rep", "k", "lock", "k", "short", "long", "taken", "rex"};
  if (c < 500) return A({V("Helper"), V(i), V(hn[r.below(9)])});
  static const char* on[] = {"lock", "rep", "short", "lock"};
  if (c < 510) return A({V("SetOpt"), V(i), A({V(on[r.below(4)])})});
  if (c < 520) return A({V("AddOpt"), V(i), A({V(on[r.below(4)])})});
  if (c < 526) return A({V("ResetOpt"), V(i)});
  if (c < 540) return A({V("SetXr"), V(i), V((long long)r.below(2))});
  if (c < 575) return A({V("SetCm"), V(i), V((long long)(r.below(4) ? 1 : 0))});
  if (c < 585) return A({V("ResetState"), V(i)});
  static const char* cl[] = {"G", "G", "V", "V", "B", "Z", "G", "V"};
  if (c < 800) return A({V("Emit"), V(i), V(cl[r.below(8)]), VB(r.chance(1, 6))});
  static const char* mk[] = {"C", "F", "L", "A", "E", "C", "F"};
  if (c < 870) return A({V("Misc"), V(i), V(mk[r.below(7)])});
  if (c < 910) return A({V("Finalize"), V(i), VB(r.chance(1, 4))});
  if (c < 925) return A({V("Report"), V(i)});
  if (c < 930) return A({V("EmitN"), V(i)});
  long long l = 1 + (long long)r.below(2);
  static const char* fl[] = {"mc", "hi", "ho", "rc", "po"};
  static const char* md[] = {"set", "add", "clear"};
  static const char* gr[] = {"code", "label", "comment"};
  if (c < 950) return A({V("LFlags"), V(l), V(md[r.below(3)]), A({V(fl[r.below(5)])})});
  if (c < 975) return A({V("LInd"), V(l), V(gr[r.below(3)]), V((long long)r.below(6))});
  if (c < 990) return A({V("LPad"), V(l), V((long long)(r.chance(1, 3) ? 0 : 20 + r.below(50)))});
  if (c < 995) return A({V("LReset"), V(l)});
  (void)step;
  return A({V("LCopy"), V(l), V(3 - l)});
}

int main(int argc, char** argv) {
  if (argc < 3) { fprintf(stderr, "usage: emitstate script|random ...\n"); return 3; }
  std::string mode = argv[1];
  if (mode == "script") {
    auto scripts = vj::read_ndjson(argv[2]);
    FILE* out = fopen(argv[3], "w");
    vj::install_abort_handlers(out);
    uint64_t k = 0;
    for (auto& s : scripts) {
      std::vector<std::string> kinds;
      for (auto& x : s["kinds"].arr) kinds.push_back(x.str);
      Exec ex(out, s["arch"].str, kinds, vj::env_seed() * 7919 + (++k));
      for (auto& o : s["ops"].arr) ex.op(o);
    }
    fclose(out);
    return 0;
  }
  if (mode == "random") {
    FILE* out = fopen(argv[2], "w");
    vj::install_abort_handlers(out);
    unsigned nexec = unsigned(atoi(argv[3])), steps = unsigned(atoi(argv[4]));
    vj::Rng r(vj::env_seed());
    static const std::vector<std::vector<std::string>> x64kinds = {{"asm", "bld", "cmp"}, {"asm"}, {"bld"}, {"cmp"}, {"asm", "asm", "bld"}, {"cmp", "asm"}};
    static const std::vector<std::vector<std::string>> a64kinds = {{"asm"}, {"asm", "asm"}};
    for (unsigned x = 0; x < nexec; x++) {
      bool a64 = r.chance(1, 4);
      bool x32 = !a64 && r.chance(1, 5);
      const auto& kinds = a64 ? a64kinds[r.below(a64kinds.size())] : x64kinds[r.below(x64kinds.size())];
      Exec ex(out, a64 ? "a64" : x32 ? "x86" : "x64", kinds, r.next());
      unsigned n = steps / 2 + unsigned(r.below(steps));
      for (unsigned i = 0; i < n; i++) ex.op(random_op(r, ex, i));
    }
    fclose(out);
    return 0;
  }
  return 3;
}
