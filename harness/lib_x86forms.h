// lib_x86forms.h - header-only: instantiation of the exported x86 ISA database forms on the real asmjit API.
//
// Shared by the x86 pointwise harnesses (C01 x86sweep; intended for C13 / C12 / C20 with their own observation fields).
//
//   x86forms::load_forms(path)                      forms.ndjson (tools/db_export_x86.js) -> std::vector<Form>
//   x86forms::instantiate(form, mode, gen, rot, cb) enumerates requests (Inst) for one form in one mode within the tier's budget:
//                                                   register ids per class, the memory grid (ModRM/SIB special rows, 16/32/64-bit
//                                                   addressing, rip, absolute, segments, VSIB), boundary immediates, labels,
//                                                   {k}{z}{er}{sae}{1toN} decorations, option bits; cb(Inst&) is called for each
//   x86forms::build_operand(opd, out)               descriptor -> asmjit Operand_ (registers, memory, immediates; labels are the caller's)
//   x86forms::inst_options(inst)                    InstOptions for the request (options + {z} + {er}/{sae}); extra reg = x86::k(inst.k) when inst.k != 0
//   x86forms::write_request(w, inst)                the request part of an observation: f n m ops[] k z er sae opt eo (compact JSON, see below)
//   x86forms::read_request(value)                   inverse of write_request (replay)
//
// Operand descriptor JSON (kept compact; 64-bit values as 8 little-endian bytes because TLC integers are 32-bit):
//   {"t":"r","c":<class>,"id":<n>}      class: gpb gph gpw gpd gpq xmm ymm zmm mm k sreg creg dreg st bnd tmm; ids are architectural
//                                       (gph 0..3 = ah ch dh bh, sreg 0..5 = es cs ss ds fs gs)
//   {"t":"m","sz":bytes,"sg":0|1..6,"bt":""|gpw|gpd|gpq|rip,"b":id,"it":""|gpw|gpd|gpq|xmm|ymm|zmm,"i":id,"sh":0..3,"bc":0|N,"at":0|1|2,
//    "d":[8 bytes],"dv":"decimal"}      displacement / absolute address; at: 0 default, 1 abs, 2 rel; bc: {1toN}
//   {"t":"i","v":[8 bytes],"iv":"decimal"}
//   {"t":"l","id":delta,"fwd":0|1,"pad":n}   label operand: target = instruction start + delta (filled in by the executor)
#pragma once
#include <asmjit/core.h>
#include <asmjit/x86.h>
#include "vjson.h"
#include <string>
#include <vector>
#include <algorithm>

namespace x86forms {
using namespace asmjit;

// option bits of an observation (spec/isa/X86EncObs.tla uses the same numbering)
enum : uint32_t {
  O_LOCK = 1u << 0, O_REP = 1u << 1, O_REPNE = 1u << 2, O_XACQ = 1u << 3, O_XREL = 1u << 4, O_SHORT = 1u << 5, O_LONG = 1u << 6,
  O_MODMR = 1u << 7, O_MODRM = 1u << 8, O_VEX3 = 1u << 9, O_VEX = 1u << 10, O_EVEX = 1u << 11, O_REX = 1u << 12, O_TAKEN = 1u << 13, O_NOTTAKEN = 1u << 14
};

struct Opd {
  char t = 'r';            // r reg, m mem, i imm, l label
  std::string c;           // reg class: gpb gph gpw gpd gpq xmm ymm zmm mm k sreg creg dreg st bnd tmm
  int id = 0;              // reg id (architectural; gph: 0..3 = ah ch dh bh; sreg: 0..5 = es cs ss ds fs gs) / label delta
  int sz = 0, sg = 0;      // mem size (bytes, 0 unspecified), segment override (0 none, 1..6 = es cs ss ds fs gs)
  std::string bt, it;      // base / index type: "" gpw gpd gpq rip  /  "" gpw gpd gpq xmm ymm zmm
  int b = 0, i = 0, sh = 0, bc = 0, at = 0;   // base id, index id, shift, broadcast (0 or N of 1toN), address type (0 default 1 abs 2 rel)
  int64_t d = 0;           // displacement / absolute address
  int64_t v = 0;           // immediate
  int fwd = 0, pad = 0;    // label: forward reference with `pad` bytes between the instruction and the label
  int ld = 0;              // memory with a Label base (bt = "lbl", fwd / pad as for label operands): position of the label relative to the
                           // START of the instruction, filled in by the executor; d = offset added to the label
  int abs = 0;             // label: 1 = the target is passed as an absolute Imm address (CodeHolder with a known base address), id = target - instruction start
};


// a request: one instantiation of a DB form
struct Inst {
  int f = 0; std::string n; int m = 64;
  std::vector<Opd> ops;
  int k = 0, z = 0, er = -1, sae = 0;
  uint32_t opt = 0;
  int eo = 0;              // emitter-level encoding options (the executor applies them): bit 0 kOptimizeForSize, bit 1 kPredictedJumps
};

static inline Opd R(const char* c, int id) { Opd o; o.t = 'r'; o.c = c; o.id = id; return o; }
static inline Opd I(int64_t v) { Opd o; o.t = 'i'; o.v = v; return o; }

static inline Reg make_reg(const std::string& c, int id) {
  if (c == "gpb") return x86::gpb_lo(id);
  if (c == "gph") return x86::gpb_hi(id);
  if (c == "gpw") return x86::gpw(id);
  if (c == "gpd") return x86::gpd(id);
  if (c == "gpq") return x86::gpq(id);
  if (c == "xmm") return x86::xmm(id);
  if (c == "ymm") return x86::ymm(id);
  if (c == "zmm") return x86::zmm(id);
  if (c == "mm") return x86::mm(id);
  if (c == "k") return x86::k(id);
  if (c == "sreg") return x86::SReg(id + 1);
  if (c == "creg") return x86::cr(id);
  if (c == "dreg") return x86::dr(id);
  if (c == "st") return x86::st(id);
  if (c == "bnd") return x86::bnd(id);
  if (c == "tmm") return x86::tmm(id);
  fprintf(stderr, "unknown reg class %s\n", c.c_str()); exit(3);
}

// L: the label of a memory operand with a Label base (bt = "lbl"); the caller creates / binds it
static inline x86::Mem make_mem(const Opd& o, const Label* L = nullptr) {
  x86::Mem m;
  bool vidx = o.it == "xmm" || o.it == "ymm" || o.it == "zmm";
  if (o.bt == "lbl" && L) {
    if (o.it.empty()) m = x86::ptr(*L, int32_t(o.d));
    else if (vidx) m = x86::ptr(*L, make_reg(o.it, o.i).as<x86::Vec>(), o.sh, int32_t(o.d));
    else m = x86::ptr(*L, make_reg(o.it, o.i).as<x86::Gp>(), o.sh, int32_t(o.d));
  }
  else if (o.bt == "rip") m = x86::ptr(x86::rip, int32_t(o.d));
  else if (!o.bt.empty()) {
    x86::Gp base = make_reg(o.bt, o.b).as<x86::Gp>();
    if (o.it.empty()) m = x86::ptr(base, int32_t(o.d));
    else if (vidx) m = x86::ptr(base, make_reg(o.it, o.i).as<x86::Vec>(), o.sh, int32_t(o.d));
    else m = x86::ptr(base, make_reg(o.it, o.i).as<x86::Gp>(), o.sh, int32_t(o.d));
  } else {
    if (o.it.empty()) m = x86::ptr(uint64_t(o.d));
    else if (vidx) m = x86::ptr(uint64_t(o.d), make_reg(o.it, o.i).as<x86::Vec>(), o.sh);
    else m = x86::ptr(uint64_t(o.d), make_reg(o.it, o.i), o.sh);
  }
  m.set_size(o.sz);
  if (o.sg) m.set_segment(uint32_t(o.sg));
  if (o.at == 1) m.set_addr_abs();
  if (o.at == 2) m.set_addr_rel();
  if (o.bc) {
    int lg = 0; while ((1 << lg) < o.bc) lg++;
    m.set_broadcast(x86::Mem::Broadcast(lg));
  }
  return m;
}


// descriptor -> asmjit operand (labels are created / bound by the caller)
static inline bool build_operand(const Opd& o, Operand_& out) {
  if (o.t == 'r') { out = make_reg(o.c, o.id); return true; }
  if (o.t == 'm' && o.bt == "lbl") return false;       // needs a Label: the caller builds it with make_mem(o, &label)
  if (o.t == 'm') { out = make_mem(o); return true; }
  if (o.t == 'i') { out = Imm(o.v); return true; }
  return false;
}

static inline InstOptions inst_options(const Inst& ob) {
  InstOptions io = InstOptions::kNone;
  if (ob.opt & O_LOCK) io |= InstOptions::kX86_Lock;
  if (ob.opt & O_REP) io |= InstOptions::kX86_Rep;
  if (ob.opt & O_REPNE) io |= InstOptions::kX86_Repne;
  if (ob.opt & O_XACQ) io |= InstOptions::kX86_XAcquire;
  if (ob.opt & O_XREL) io |= InstOptions::kX86_XRelease;
  if (ob.opt & O_SHORT) io |= InstOptions::kShortForm;
  if (ob.opt & O_LONG) io |= InstOptions::kLongForm;
  if (ob.opt & O_MODMR) io |= InstOptions::kX86_ModMR;
  if (ob.opt & O_MODRM) io |= InstOptions::kX86_ModRM;
  if (ob.opt & O_VEX3) io |= InstOptions::kX86_Vex3;
  if (ob.opt & O_VEX) io |= InstOptions::kX86_Vex;
  if (ob.opt & O_EVEX) io |= InstOptions::kX86_Evex;
  if (ob.opt & O_REX) io |= InstOptions::kX86_Rex;
  if (ob.opt & O_TAKEN) io |= InstOptions::kTaken;
  if (ob.opt & O_NOTTAKEN) io |= InstOptions::kNotTaken;
  if (ob.z) io |= InstOptions::kX86_ZMask;
  if (ob.er >= 0) io |= InstOptions::kX86_ER | InstOptions(uint32_t(ob.er) << 21);
  else if (ob.sae) io |= InstOptions::kX86_SAE;
  return io;
}

static inline void bytes8(vj::W& w, const char* k, int64_t v) {
  uint8_t b[8]; uint64_t u = uint64_t(v);
  for (int j = 0; j < 8; j++) b[j] = uint8_t(u >> (8 * j));
  w.key(k).beginArr(); for (int j = 0; j < 8; j++) w.val(int(b[j])); w.endArr();
}


static inline void write_request(vj::W& w, const Inst& ob) {
  w.kv("f", ob.f).kv("n", ob.n).kv("m", ob.m);
  w.key("ops").beginArr();
  for (const Opd& o : ob.ops) {
    w.beginObj();
    char ts[2] = {o.t, 0};
    w.kv("t", (const char*)ts);
    if (o.t == 'r') { w.kv("c", o.c).kv("id", o.id); }
    else if (o.t == 'm') {
      w.kv("sz", o.sz).kv("sg", o.sg).kv("bt", o.bt).kv("b", o.b).kv("it", o.it).kv("i", o.i).kv("sh", o.sh).kv("bc", o.bc).kv("at", o.at);
      bytes8(w, "d", o.d);
      w.kv("dv", std::to_string((long long)o.d));       // decimal text, for humans / replay only
      if (o.bt == "lbl") w.kv("ld", o.ld).kv("fwd", o.fwd).kv("pad", o.pad);
    } else if (o.t == 'i') { bytes8(w, "v", o.v); w.kv("iv", std::to_string((long long)o.v)); }
    else { w.kv("id", o.id).kv("fwd", o.fwd).kv("pad", o.pad).kv("abs", o.abs); }
    w.endObj();
  }
  w.endArr();
  w.kv("k", ob.k).kv("z", ob.z).kv("er", ob.er).kv("sae", ob.sae).kv("opt", (long long)ob.opt).kv("eo", ob.eo);
}

// ---------------------------------------------------------------------------------------------------------------
// form table (only what instantiation needs)
// ---------------------------------------------------------------------------------------------------------------
struct FOp {
  int imp = 0; std::string fld; std::vector<std::string> regs; int fixed = -1; int msz = -1; std::string vsib; std::string memreg, mseg;
  int ibits = 0; std::string isgn; int iconst = -1; int rbits = 0; int bcst = 0; int pair = 0;
};
struct Form {
  int jcc = 0;
  int id; std::string name, arch, pk, tt; bool ok; int k, z, er, sae, lock, rep, repne, xacq, xrel, modrm, esz, w, l;
  std::vector<FOp> ops;
};

static std::vector<Form> load_forms(const char* path) {
  std::vector<Form> res;
  for (const vj::Value& v : vj::read_ndjson(path)) {
    Form f;
    f.id = int(v.find("id")->i()); f.name = v.find("name")->s(); f.arch = v.find("arch")->s(); f.pk = v.find("pk")->s(); f.tt = v.find("tt")->s();
    f.ok = v.find("ok")->b;
    auto gi = [&](const char* k) { return int(v.find(k)->i()); };
    f.k = gi("k"); f.z = gi("z"); f.er = gi("er"); f.sae = gi("sae"); f.lock = gi("lock"); f.rep = gi("rep"); f.repne = gi("repne");
    if (v.find("jcc")) f.jcc = gi("jcc");
    f.xacq = gi("xacq"); f.xrel = gi("xrel"); f.modrm = gi("modrm"); f.esz = gi("esz"); f.w = gi("w"); f.l = gi("l");
    for (const vj::Value& o : v.find("ops")->arr) {
      FOp fo;
      fo.imp = int(o.find("imp")->i()); fo.fld = o.find("fld")->s(); fo.fixed = int(o.find("fixed")->i()); fo.msz = int(o.find("msz")->i());
      fo.vsib = o.find("vsib")->s(); fo.memreg = o.find("memreg")->s(); fo.mseg = o.find("mseg")->s(); fo.ibits = int(o.find("ibits")->i());
      fo.isgn = o.find("isgn")->s(); fo.iconst = int(o.find("iconst")->i()); fo.rbits = int(o.find("rbits")->i()); fo.bcst = int(o.find("bcst")->i());
      fo.pair = int(o.find("pair")->i());
      for (const vj::Value& r : o.find("regs")->arr) fo.regs.push_back(r.s());
      f.ops.push_back(fo);
    }
    res.push_back(f);
  }
  return res;
}

// ---------------------------------------------------------------------------------------------------------------
// value pools
// ---------------------------------------------------------------------------------------------------------------
// cross = true (C01): the special rows of the ModRM/SIB/absolute table are FULL for every form (only the mixed random rows are thinned),
// the prefix-sensitive rows (absolute / rip / no-base) are crossed with a low and a high register bank and with the rex / lock options,
// and immediates are drawn from the whole range the API accepts (boundary values of every width up to 64 bits), not only the row's field.
struct Gen { bool thorough = false; vj::Rng* rng = nullptr; bool cross = false; };
static Gen g_gen;      // set by the harness before instantiate()

static std::vector<int> reg_ids(const std::string& c, int mode) {
  std::vector<int> v;
  auto all = [&](int n) { for (int j = 0; j < n; j++) v.push_back(j); };
  if (c == "gph") return {0, 1, 2, 3};
  if (c == "gpb" || c == "gpw" || c == "gpd" || c == "gpq") {
    if (mode == 32) { v = {0, 3, 4, 5, 7, 1, 6, 2, 0, 3, 5, 7, 8}; return v; }      // one id the mode does not have
    if (g_gen.thorough) all(16); else v = {0, 3, 4, 5, 7, 8, 12, 13, 15, 1, 6, 9};
    return v;
  }
  if (c == "xmm" || c == "ymm" || c == "zmm") {
    if (mode == 32) { v = {0, 3, 4, 5, 7, 1, 6, 2, 0, 3, 5, 7, 8, 16}; return v; }
    if (g_gen.thorough) all(32); else v = {0, 3, 4, 5, 7, 8, 12, 13, 15, 16, 24, 31};
    return v;
  }
  if (c == "mm" || c == "k" || c == "st" || c == "dreg" || c == "tmm") { all(8); return v; }
  if (c == "sreg") { all(6); return v; }
  if (c == "creg") return {0, 2, 3, 4, 8};
  if (c == "bnd") { all(4); return v; }
  return {0};
}

static std::vector<int64_t> imm_pool(int bits, const std::string& sgn) {
  std::vector<int64_t> v;
  auto rnd = [&](int b) { uint64_t x = g_gen.rng->next(); return b >= 64 ? int64_t(x) : int64_t(x & ((uint64_t(1) << b) - 1)); };
  switch (bits) {
    case 4: v = {0, 1, 15, 7, 8, 16}; break;
    case 8: v = {0, 1, -1, 127, 128, -128, 255, -129, 256, 0x5A, rnd(8), 3}; break;
    case 16: v = {0, 1, -1, 127, 128, -128, -129, 255, 256, 0x7FFF, 0x8000, 0xFFFF, -32768, -32769, 0x10000, rnd(16)}; break;
    case 32: v = {0, 1, -1, 127, 128, -128, -129, 255, 0x7FFF, 0x8000, 0x7FFFFFFF, 0x80000000ll, 0xFFFFFFFFll, -2147483648ll, -2147483649ll, 0x100000000ll, rnd(32), rnd(31)}; break;
    default: v = {0, 1, -1, 127, 128, -128, -129, 0x7FFFFFFF, 0x80000000ll, 0xFFFFFFFFll, -2147483648ll, -2147483649ll, 0x100000000ll,
                  0x7FFFFFFFFFFFFFFFll, int64_t(0x8000000000000000ull), 0x0123456789ABCDEFll, rnd(64), rnd(48)}; break;
  }
  (void)sgn;
  if (g_gen.cross && bits >= 8) {
    // the API takes any int64: boundary values of every width, signed and unsigned; whatever is accepted is judged by value
    for (int64_t x : {int64_t(127), int64_t(128), int64_t(-128), int64_t(-129), int64_t(255), int64_t(256), int64_t(0x7FFF), int64_t(0x8000), int64_t(-0x8000), int64_t(-0x8001),
                      int64_t(0xFFFF), int64_t(0x10000), int64_t(0x7FFFFFFF), int64_t(0x80000000ll), int64_t(-0x80000000ll), int64_t(-0x80000001ll), int64_t(0xFFFFF000ll),
                      int64_t(0xFFFFFFFFll), int64_t(0x100000000ll), int64_t(0x7FFFFFFFFFFFFFFFll), int64_t(0x8000000000000000ull), int64_t(0xFFFFFFFF00000000ull), rnd(64)})
      if (std::find(v.begin(), v.end(), x) == v.end()) v.push_back(x);
  }
  return v;
}

struct MemShape { std::string bt; int b; std::string it; int i; int sh; int64_t d; int sg; int at; int px = 0; int lfwd = 0, lpad = 0; };   // px: prefix-sensitive row

static std::vector<int64_t> disp_pool(int N) {
  std::vector<int64_t> v = {0, 1, -1, 127, 128, -128, -129, 2147483647ll, -2147483648ll, 0x1234, -0x4321};
  for (int n : {N, 4, 8, 2, 64}) {
    if (n <= 1) continue;
    for (int64_t x : {int64_t(n), int64_t(127) * n, int64_t(127) * n + 1, int64_t(127) * n - 1, int64_t(128) * n, int64_t(-128) * n, int64_t(-128) * n - 1,
                      int64_t(-128) * n + 1, int64_t(-129) * n, int64_t(3) * n, int64_t(2) * n - 1})
      v.push_back(x);
  }
  v.push_back(int64_t(int32_t(g_gen.rng->next())));
  v.push_back(int64_t(int32_t(g_gen.rng->next())) >> 12);
  return v;
}

// memory shapes for a ModRM memory operand (mandatory special rows first, then mixed rows)
static std::vector<MemShape> mem_grid(int mode, const std::string& vsib, int N, size_t want, size_t rot) {
  std::vector<MemShape> g;
  std::string nat = mode == 64 ? "gpq" : "gpd";
  std::string alt = mode == 64 ? "gpd" : "gpw";
  std::vector<int64_t> dp = disp_pool(N);
  std::vector<int> bases = mode == 64 ? std::vector<int>{0, 4, 5, 12, 13, 8, 3, 15, 7} : std::vector<int>{0, 4, 5, 3, 6, 7, 1};
  std::vector<int> idxs = mode == 64 ? std::vector<int>{1, 9, 15, 5, 13, 12, 0} : std::vector<int>{1, 5, 6, 7, 0};
  std::vector<int> vidx = mode == 64 ? std::vector<int>{4, 12, 20, 28, 0, 31, 16, 15, 8} : std::vector<int>{4, 0, 7, 5, 1};
  size_t di = 0;
  auto nd = [&]() { return dp[(di++) % dp.size()]; };
  if (!vsib.empty()) {
    for (size_t r = 0; g.size() < want; r++) {
      MemShape s{r % 7 == 6 ? "" : nat, bases[r % bases.size()], vsib, vidx[r % vidx.size()], int(r % 4), 0, 0, 0};
      s.d = r < 3 ? 0 : nd();
      if (s.bt.empty()) s.d = int64_t(int32_t(s.d)) & 0x7FFFFFFF;
      if (r % 9 == 5) s.sg = 5 + int(r % 2);
      if (g_gen.cross && r % 9 == 2) s.sg = 1 + int((r / 9) % 4);          // es cs ss ds overrides on VSIB forms as well
      if (r % 11 == 7 && mode == 64) { s.bt = alt; s.b = bases[r % bases.size()]; }
      g.push_back(s);
    }
    return g;
  }
  auto add = [&](std::string bt, int b, std::string it, int i, int sh, int64_t d, int sg = 0, int at = 0) { g.push_back(MemShape{bt, b, it, i, sh, d, sg, at}); };
  // the special cases of the ModRM/SIB tables
  for (int b : bases) add(nat, b, "", 0, 0, 0);                       // [base] incl. rSP (SIB), rBP/r13 (disp8 = 0)
  add(nat, bases[1], nat, idxs[1 % idxs.size()], 1, 127);            // [sp + idx*2 + 127]
  add(nat, 5, nat, idxs[2 % idxs.size()], 3, -129);                  // [bp + idx*8 - 129]
  add(nat, mode == 64 ? 13 : 5, nat, 1, 0, 0);                       // [r13 + cx] (mod=0 not available with SIB.base=101)
  add("", 0, nat, 1, 3, 0x1000);                                    // [cx*8 + disp32] no base
  add("", 0, nat, idxs[1 % idxs.size()], 2, -64 & 0x7FFFFFFF);
  int A = mode == 64 ? 1 : 0;                                         // 64-bit mode: forced absolute (default/rel = relocated rip-relative)
  add("", 0, "", 0, 0, 0x12345678, 0, A);                            // absolute
  add("", 0, "", 0, 0, 0x7FFFFFFF, 0, A);
  add("", 0, "", 0, 0, mode == 64 ? int64_t(-0x1000) : int64_t(0xFFFFF000ll), 0, A);  // sign-extended / high absolute
  add("", 0, "", 0, 0, 0x12345678, 5, A);                            // fs:[abs]
  add("", 0, "", 0, 0, 0x44, 0, 0);                                  // default address type
  add("", 0, "", 0, 0, 0x1000, 0, 2);                                // forced relative
  if (mode == 64) {
    add("rip", 0, "", 0, 0, 0); add("rip", 0, "", 0, 0, 127); add("rip", 0, "", 0, 0, -129); add("rip", 0, "", 0, 0, 2147483647ll);
    add("", 0, "", 0, 0, 0xFFFFF000ll, 0, 1);                        // unsigned 32-bit absolute (needs 0x67 or is refused)
    add(alt, 0, "", 0, 0, 0); add(alt, 4, alt, 1, 2, 128); add(alt, 13, "", 0, 0, -1); add(alt, 8, alt, 9, 0, 127);   // 32-bit addressing in 64-bit mode
  } else {
    add("gpw", 3, "gpw", 6, 0, 0); add("gpw", 3, "gpw", 7, 0, 1); add("gpw", 5, "gpw", 6, 0, -1); add("gpw", 5, "gpw", 7, 0, 127);
    add("gpw", 6, "", 0, 0, 128); add("gpw", 7, "", 0, 0, -128); add("gpw", 5, "", 0, 0, 0); add("gpw", 3, "", 0, 0, -129);
    add("gpw", 5, "", 0, 0, 0x7FFF); add("gpw", 6, "gpw", 3, 0, 4);   // [si+bx]: swapped order
  }
  if (g_gen.cross) {
    // prefix-sensitive rows (the encoder patches / inserts prefixes for them): absolute addresses around the signed / unsigned 32-bit
    // limits with every address type, with and without segment; rip; no-base index.  Flagged px: crossed with register banks and options.
    for (MemShape& s : g) if ((s.bt.empty() && !(s.it == "gpw")) || s.bt == "rip") s.px = 1;
    auto addpx = [&](int64_t d, int sg, int at) {
      for (const MemShape& s : g) if (s.bt.empty() && s.it.empty() && s.d == d && s.sg == sg && s.at == at) return;
      g.push_back(MemShape{"", 0, "", 0, 0, d, sg, at, 1});
    };
    for (int64_t d : {int64_t(0x7FFFFFFF), int64_t(0x80000000ll), int64_t(0xFFFFF000ll), int64_t(0xFFFFFFFFll)})
      for (int at : {0, 1, 2}) {
        if (mode == 32 && at == 2) continue;
        addpx(d, 0, at);
        if (at != 2 && (d == int64_t(0x80000000ll) || d == int64_t(0x7FFFFFFF))) addpx(d, 6, at);     // gs:
      }
    if (mode == 64) { addpx(-1, 0, 1); addpx(int64_t(-0x80000000ll), 0, 1); }
  }
  if (g_gen.cross) {
    // [label + off]: label bound BEFORE the instruction at several distances, and unbound (bound after it); 64-bit mode = rip-relative
    // (the displacement depends on the length of everything that follows it, i.e. on the form's immediate), 32-bit mode = relocated absolute
    auto addl = [&](int fwd, int pad, int64_t off, std::string it = "", int i = 0, int sh = 0) {
      MemShape s{"lbl", 0, it, i, sh, off, 0, 0}; s.lfwd = fwd; s.lpad = pad; g.push_back(s);
    };
    addl(0, 0, 0); addl(0, 1, 8); addl(0, 127, -4); addl(0, 128, 0x7FFFFF00); addl(0, 4096, 0); addl(0, 0, -4); addl(0, 127, 8); addl(0, 4096, 0x7FFFFF00);
    addl(1, 0, 0); addl(1, 1, 8); addl(1, 127, -4); addl(1, 4096, 0);
    if (mode == 32) { addl(0, 1, 8, nat, 1, 2); addl(1, 127, 0, nat, 6, 3); }
  }
  add(nat, 0, nat, 1, 2, 128, 6);                                    // gs:[ax+cx*4+128]
  add(nat, 3, "", 0, 0, 8, 1); add(nat, 3, "", 0, 0, 8, 4); add(nat, 5, "", 0, 0, 8, 3); add(nat, 3, "", 0, 0, 8, 2);   // es ds ss cs overrides
  // mixed rows
  size_t nspecial = g.size();
  if (g_gen.cross && !g_gen.thorough) want = nspecial + 8;            // special rows stay complete, only the mixed rows are few
  for (size_t r = 0; g.size() < want || r < 8; r++) {
    uint64_t x = g_gen.rng->next();
    MemShape s{nat, bases[x % bases.size()], (x >> 8) % 4 == 0 ? "" : nat, idxs[(x >> 12) % idxs.size()], int((x >> 20) % 4), nd(), 0, 0};
    if ((x >> 24) % 6 == 0) s.bt = "";
    if (s.bt.empty()) s.d = int64_t(int32_t(s.d)) & 0x7FFFFFFF;
    if (s.bt.empty() && s.it.empty() && mode == 64) s.at = 1;
    if ((x >> 28) % 8 == 0) s.sg = 1 + int((x >> 32) % 6);
    if (s.it.empty()) s.sh = 0;
    g.push_back(s);
    if (r > 4096) break;
  }
  if (g.size() > want && want >= 8 && !g_gen.cross) {
    // keep the special rows with priority but thin them deterministically
    std::vector<MemShape> h;
    double step = double(g.size()) / double(want);
    for (size_t j = 0; j < want; j++) h.push_back(g[(size_t(j * step) + rot) % g.size()]);      // rotate per form: every row is used by some form
    return h;
  }
  return g;
}

// enumerates the requests for one form in one mode; cb(Inst&) executes / records each of them
template<typename CB>
static void instantiate(const Form& f, int mode, size_t rot, CB&& cb) {
  if ((f.arch == "X64" && mode != 64) || (f.arch == "X86" && mode != 32)) return;
  size_t nops = f.ops.size();
  // alternatives per operand: 'r' register, 'm' memory
  std::vector<std::vector<char>> alts(nops);
  size_t combos = 1;
  for (size_t j = 0; j < nops; j++) {
    const FOp& fo = f.ops[j];
    if (fo.ibits || fo.iconst >= 0) alts[j] = {'i'};
    else if (fo.rbits) alts[j] = {'l'};
    else {
      if (!fo.regs.empty()) alts[j].push_back('r');
      if (fo.msz >= 0) alts[j].push_back('m');
    }
    if (alts[j].empty()) return;        // operand kind the harness cannot build (reported by the exporter)
    combos *= alts[j].size();
  }
  bool anyImp = false;
  for (const FOp& fo : f.ops) if (fo.imp) anyImp = true;
  size_t memWant = f.ok ? (g_gen.thorough ? 160 : 26) : 2;
  size_t regWant = f.ok ? (g_gen.thorough ? 32 : 12) : 2;
  for (size_t cix = 0; cix < combos; cix++) {
    std::vector<char> kind(nops);
    size_t x = cix; bool hasMem = false, hasLabel = false; int memJ = -1;
    for (size_t j = 0; j < nops; j++) { kind[j] = alts[j][x % alts[j].size()]; x /= alts[j].size(); if (kind[j] == 'm') { hasMem = true; memJ = int(j); } if (kind[j] == 'l') hasLabel = true; }
    std::vector<MemShape> grid;
    struct Rnd { int row; int bank; uint32_t opt; };          // bank: -1 rotate, 0 ids 0..7, 1 ids 8..15
    std::vector<Rnd> plan;
    size_t rounds = regWant;
    bool modrmMem = false, moffMem = false, implMem = false;
    if (hasMem) {
      const FOp& fo = f.ops[memJ];
      modrmMem = fo.fld == "rm"; moffMem = fo.fld == "moff"; implMem = !fo.memreg.empty();
      if (modrmMem) {
        grid = mem_grid(mode, fo.vsib, fo.msz > 0 ? fo.msz : (f.esz > 0 ? f.esz : 4), memWant, rot); rounds = grid.size();
        if (g_gen.cross && f.ok) {
          for (size_t gi = 0; gi < grid.size(); gi++) {
            if (!grid[gi].px) { plan.push_back(Rnd{int(gi), -1, 0}); continue; }
            plan.push_back(Rnd{int(gi), 0, 0});
            if (mode == 64) plan.push_back(Rnd{int(gi), 1, 0});
            if (mode == 64 && f.pk == "L") plan.push_back(Rnd{int(gi), 0, O_REX});
            if (f.lock) plan.push_back(Rnd{int(gi), int(gi % 2) & (mode == 64 ? 1 : 0), O_LOCK});
          }
          rounds = plan.size();
        }
      }
      else rounds = f.ok ? 8 : 2;
    }
    if (hasLabel) rounds = f.ok ? (g_gen.thorough ? 40 : 16) : 2;
    // cross mode: every relative-branch form sees labels bound BEFORE the instruction at the distances around the rel8 limit, unbound (forward)
    // labels and absolute Imm targets (known base address), each with every prefix-producing variant: none, rex, taken / not-taken hints
    // (predicted jumps on), short / long; the address-size prefix comes from the explicit cx/ecx operand of the jecxz / loop rows
    struct LRnd { int pad, fwd, abs; uint32_t opt; int eo; int omit; };
    std::vector<LRnd> lplan;
    if (hasLabel && g_gen.cross && f.ok) {
      static const int back[] = {0, 1, 2, 60, 123, 124, 125, 126, 127, 128, 129, 130, 200, 32763, 70000};
      static const int fwdp[] = {0, 1, 60, 120, 125, 126, 127, 128, 131};
      std::vector<std::pair<uint32_t, int>> vars = {{0u, 0}};
      if (mode == 64) vars.push_back({O_REX, 0});
      if (f.jcc) { vars.push_back({O_TAKEN, 2}); vars.push_back({O_NOTTAKEN, 2}); vars.push_back({O_TAKEN, 0}); }
      vars.push_back({O_SHORT, 0}); vars.push_back({O_LONG, 0});
      for (int om = 0; om < (anyImp ? 2 : 1); om++)
        for (auto& v : vars) {
          for (int p : back) { lplan.push_back(LRnd{p, 0, 0, v.first, v.second, om}); lplan.push_back(LRnd{p, 0, 1, v.first, v.second, om}); }
          for (int p : fwdp) lplan.push_back(LRnd{p, 1, 0, v.first, v.second, om});
          for (int p : {1, 127, 128, 4096}) lplan.push_back(LRnd{p, 1, 1, v.first, v.second, om});      // absolute target after the instruction
        }
      rounds = lplan.size();
    }
    size_t immRounds = 0;
    for (size_t j = 0; j < nops; j++) if (kind[j] == 'i' && f.ops[j].ibits) immRounds = std::max(immRounds, imm_pool(f.ops[j].ibits, f.ops[j].isgn).size());
    if (f.ok && !hasMem) rounds = std::max(rounds, immRounds);
    if (f.ok && hasMem && immRounds > rounds) rounds = immRounds;
    auto planOf = [&](size_t r0) { return plan.empty() ? Rnd{int(grid.empty() ? 0 : r0 % grid.size()), -1, 0} : plan[r0 % plan.size()]; };
    for (size_t r0 = 0; r0 < rounds; r0++) {
      size_t r = r0 + rot;
      Inst ob; ob.f = f.id; ob.n = f.name; ob.m = mode;
      Rnd pr = planOf(r0);
      bool omitImp = anyImp && (r0 % 2 == 1);
      if (!lplan.empty()) omitImp = lplan[r0].omit != 0;
      bool bad = false;
      for (size_t j = 0; j < nops && !bad; j++) {
        const FOp& fo = f.ops[j];
        if (fo.imp && omitImp) continue;
        if (fo.pair) {                                       // k+1 of a pair: only when passing every operand
          Opd o = R("k", 0);
          for (const Opd& p : ob.ops) if (p.t == 'r' && p.c == "k") { o.id = (p.id ^ 1); break; }
          ob.ops.push_back(o); continue;
        }
        if (kind[j] == 'r') {
          std::string c = fo.regs[(((r0 + rot) * 2654435761u + j * 40503u) >> 9) % fo.regs.size()];     // gpb / gph alternate irregularly
          if (fo.fixed >= 0) { ob.ops.push_back(R(c.c_str(), fo.fixed)); continue; }
          std::vector<int> ids = reg_ids(c, mode);
          if (pr.bank >= 0 && c != "gph" && (ids.size() > 8 || c == "creg")) {       // low / high bank for the prefix-sensitive rows
            std::vector<int> sel;
            for (int id : ids) if ((id >= 8 && id < 16) == (pr.bank == 1) && id < 16) sel.push_back(id);
            if (!sel.empty()) ids = sel;
          }
          if (pr.bank == 1 && c == "gph") { c = "gpb"; ids = {8, 12, 15}; if (std::find(fo.regs.begin(), fo.regs.end(), "gpb") == fo.regs.end()) ids = {0}; }
          ob.ops.push_back(R(c.c_str(), ids[(r + 5 * j) % ids.size()]));
        } else if (kind[j] == 'i') {
          if (fo.iconst >= 0) { ob.ops.push_back(I(fo.iconst)); continue; }
          std::vector<int64_t> p = imm_pool(fo.ibits, fo.isgn);
          ob.ops.push_back(I(p[(r0 + 3 * j) % p.size()]));
        } else if (kind[j] == 'l') {
          static const int pads[] = {0, 1, 122, 123, 124, 125, 126, 127, 128, 129, 130, 200, 32763, 70000, 2, 60};
          Opd o; o.t = 'l'; o.pad = pads[r0 % 16]; o.fwd = (r0 / 16 + r0 / 5) % 2;
          if (o.fwd && o.pad > 1000) o.pad = 131;
          if (!lplan.empty()) { o.pad = lplan[r0].pad; o.fwd = lplan[r0].fwd; o.abs = lplan[r0].abs; }
          ob.ops.push_back(o);
        } else {
          Opd o; o.t = 'm'; o.sz = fo.msz > 0 ? fo.msz : 0;
          if (fo.msz > 0 && r0 % 5 == 4 && !fo.bcst) o.sz = 0;             // size left unspecified
          if (modrmMem && int(j) == memJ) {
            const MemShape& s = grid[size_t(pr.row) % grid.size()];
            o.bt = s.bt; o.b = s.b; o.it = s.it; o.i = s.i; o.sh = s.sh; o.d = s.d; o.sg = s.sg; o.at = s.at; o.fwd = s.lfwd; o.pad = s.lpad;
            if (fo.bcst && r0 % 3 == 1) {
              static const int vl[] = {128, 256, 512};
              int bits = f.l >= 0 && f.l <= 2 ? vl[f.l] : 128;
              // destination/source width of the broadcasting operand = the row's full memory width
              o.bc = (fo.msz * 8) / fo.bcst; o.sz = fo.bcst / 8; (void)bits;
              if (o.bc < 2) { o.bc = 0; o.sz = fo.msz; }
            }
          } else if (fo.fld == "moff") {
            static const int64_t addrs64[] = {0, 0x7FFFFFFF, 0x80000000ll, 0xFFFFFFFFll, 0x123456789All, int64_t(0x8000000000000000ull), -1, 0x1234};
            static const int64_t addrs32[] = {0, 0x7FFFFFFF, 0x80000000ll, 0xFFFFFFFFll, 0x12345678, 0xFFFF, 0x10000, 0x1234};
            o.d = mode == 64 ? addrs64[r0 % 8] : addrs32[r0 % 8];
            if (r0 % 4 == 3) o.sg = 5;
          } else if (!fo.memreg.empty()) {
            int base = fo.memreg == "zdi" ? 7 : fo.memreg == "zsi" ? 6 : 0;
            o.bt = (r0 % 4 < 2) ? (mode == 64 ? "gpq" : "gpd") : (mode == 64 ? "gpd" : "gpw");
            o.b = base;
            if (fo.memreg == "r32" || fo.memreg == "r64") {      // memory addressed by one register that is encoded as a register number
              o.bt = fo.memreg == "r64" ? "gpq" : (r0 % 5 == 3 && mode == 32 ? "gpw" : "gpd");
              std::vector<int> ids = reg_ids(o.bt, mode);
              o.b = ids[(r + 5 * j) % ids.size()];
            }
            if (fo.mseg == "ds" && r0 % 4 == 1) o.sg = 5;
            if (fo.mseg == "es" && r0 % 8 == 5) o.sg = 1;
          } else {
            // a second memory operand that is not the ModRM one
            o.bt = mode == 64 ? "gpq" : "gpd"; o.b = 3;
          }
          ob.ops.push_back(o);
        }
      }
      if (bad) continue;
      // decorations
      if (f.pk == "E" || f.pk == "V") {
        static const int ks[] = {0, 1, 7, 0, 3, 5, 0, 2, 6, 4};
        if (f.k || r0 % 17 == 11) ob.k = ks[r0 % 10];
        if ((f.z || r0 % 19 == 13) && ob.k && r0 % 3 == 1) ob.z = 1;
        if (!hasMem && f.er && r0 % 5 != 0) ob.er = int(r0 % 5) - 1;
        else if (!hasMem && f.sae && r0 % 2 == 1) ob.sae = 1;
        if (f.pk == "V" && r0 % 7 == 3) ob.opt |= O_VEX3;
        if (r0 % 7 == 5) ob.opt |= O_EVEX;
        if (r0 % 13 == 8) ob.opt |= O_VEX;
      } else {
        if (r0 % 6 == 2) ob.opt |= O_REX;
        if (f.lock && hasMem && r0 % 4 == 1) ob.opt |= O_LOCK;
        if (f.lock && r0 % 16 == 6) ob.opt |= O_LOCK;                        // also with a register destination
        if (f.xacq && hasMem && r0 % 8 == 5) ob.opt |= O_LOCK | O_XACQ;
        if (f.xrel && hasMem && r0 % 8 == 7) ob.opt |= (f.lock ? O_LOCK : 0) | O_XREL;
        if (f.rep && r0 % 3 == 1) ob.opt |= O_REP;
        if (f.repne && r0 % 3 == 2) ob.opt |= O_REPNE;
        if (!f.rep && r0 % 29 == 17) ob.opt |= O_REP;
        if (r0 % 5 == 4) ob.opt |= O_LONG;
        if (hasLabel && r0 % 4 == 2) ob.opt |= O_SHORT;
      }
      if (g_gen.cross && mode == 64 && r0 % 4 == 3) {      // optimize-for-size narrowings (mov r64, u32 -> mov r32, imm32 ...)
        bool hasImm = false, hasQ = false;
        for (const Opd& x : ob.ops) { if (x.t == 'i') hasImm = true; if (x.t == 'r' && x.c == "gpq") hasQ = true; }
        if (hasImm && hasQ) ob.eo = 1;
      }
      if (pr.bank >= 0) ob.opt = (ob.opt & ~(O_REX | O_LOCK | O_XACQ | O_XREL)) | pr.opt;       // planned prefix options only
      if (!lplan.empty()) { ob.opt = lplan[r0].opt; ob.eo = lplan[r0].eo; }
      if (!hasMem && r0 % 4 == 2 && lplan.empty()) ob.opt |= O_MODMR;
      if (!hasMem && r0 % 8 == 5 && lplan.empty()) ob.opt |= O_MODRM;
      cb(ob);
    }
  }
}

static inline Inst read_request(const vj::Value& v) {
  Inst ob;
  ob.f = int(v.find("f")->i()); ob.n = v.find("n")->s(); ob.m = int(v.find("m")->i());
  ob.k = int(v.find("k")->i()); ob.z = int(v.find("z")->i()); ob.er = int(v.find("er")->i()); ob.sae = int(v.find("sae")->i());
  ob.opt = uint32_t(v.find("opt")->i());
  if (v.find("eo")) ob.eo = int(v.find("eo")->i());
  for (const vj::Value& o : v.find("ops")->arr) {
    Opd d; d.t = o.find("t")->s()[0];
    if (d.t == 'r') { d.c = o.find("c")->s(); d.id = int(o.find("id")->i()); }
    else if (d.t == 'm') {
      d.sz = int(o.find("sz")->i()); d.sg = int(o.find("sg")->i()); d.bt = o.find("bt")->s(); d.b = int(o.find("b")->i()); d.it = o.find("it")->s();
      d.i = int(o.find("i")->i()); d.sh = int(o.find("sh")->i()); d.bc = int(o.find("bc")->i()); d.at = int(o.find("at")->i());
      d.d = strtoll(o.find("dv")->s().c_str(), nullptr, 10);
      if (d.bt == "lbl") { d.fwd = int(o.find("fwd")->i()); d.pad = int(o.find("pad")->i()); }
    } else if (d.t == 'i') d.v = strtoll(o.find("iv")->s().c_str(), nullptr, 10);
    else { d.fwd = int(o.find("fwd")->i()); d.pad = int(o.find("pad")->i()); if (o.find("abs")) d.abs = int(o.find("abs")->i()); if (d.abs) d.id = int(o.find("id")->i()); }
    ob.ops.push_back(d);
  }
  return ob;
}


} // namespace x86forms
