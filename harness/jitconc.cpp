// C11 harness: N threads hammer one JitRuntime / its JitAllocator; hook H3 records lock acquire/release events
// (emitted while the lock is held, with a sequence number taken under that lock), the threads record call/return
// events with per-thread sequence numbers.  The merged trace is validated by JitAllocConcTrace.tla.
//   jitconc alloc <trace> <executions> <threads> <ops-per-thread>
//   jitconc gen   <trace> <rounds> <threads>            independent code generation, compared with solo generation
// LDFLAGS: -pthread
#include <asmjit/core.h>
#include <asmjit/x86.h>
#include <asmjit/a64.h>
#include <asmjit/core/osutils_p.h>
#include <atomic>
#include <chrono>
#include <thread>
#include <set>
#include <algorithm>
#include <unistd.h>
#include <sys/wait.h>
#include "vjson.h"

using namespace asmjit;

static const char* err_name(Error e) {
  switch (e) {
    case Error::kOk: return "Ok";
    case Error::kOutOfMemory: return "OutOfMemory";
    case Error::kInvalidArgument: return "InvalidArgument";
    case Error::kInvalidState: return "InvalidState";
    case Error::kTooLarge: return "TooLarge";
    default: return "Other";
  }
}

// ---------------------------------------------------------------------------------------------------------
// lock events
// ---------------------------------------------------------------------------------------------------------
struct LockEv { int kind; uint64_t g; };
static thread_local std::vector<LockEv>* tl_lock_events = nullptr;
static uint64_t g_seq = 0;                      // only touched while the allocator lock is held
static const void* g_lock_of_interest = nullptr;

static void lock_hook(int kind, const void* lock) {
  if (!tl_lock_events) return;
  if (!g_lock_of_interest) g_lock_of_interest = lock;      // first lock taken = the allocator's (single allocator)
  if (lock != g_lock_of_interest) return;
  tl_lock_events->push_back(LockEv{kind, ++g_seq});
}

struct Op {
  int t; uint64_t tseq;
  std::string op;
  long long id = -1, req = -1, n = -1, trunc = -2, len = -1;
  uint64_t rx = 0, rw = 0;
  std::string r;
  bool nonnull = true, alias = true, intact = true;
  long long cnt = -1, used = -1, res = -1, blk = -1;
  std::vector<LockEv> locks;      // Acq/Rel events that happened during the call
  int apply_at = 0;               // index of the critical section that carries the effect
};

struct Live { long long id; JitAllocator::Span span; uint32_t seed; };

static uint32_t word_at(uint32_t seed, size_t i) { return (seed * 2654435761u) ^ uint32_t(i * 40503u + 0x9E37u); }
static bool check_span(const Live& s) {
  const uint32_t* p = static_cast<const uint32_t*>(s.span.rx());
  size_t n = std::min<size_t>(s.span.size() / 4, 2048);
  for (size_t i = 0; i < n; i++) if (p[i] != word_at(s.seed, i)) return false;
  return true;
}

struct Worker {
  int t;
  JitRuntime* rt;
  vj::Rng rng;
  std::vector<Op> ops;
  std::vector<Live> live;
  std::vector<std::pair<void*, size_t>> funcs;   // code added through the runtime (ptr, code size)
  std::vector<LockEv> lock_events;
  std::atomic<long long>* next_id;
  uint64_t tseq = 0;
  uint32_t gran;

  Worker(int t_, JitRuntime* rt_, uint64_t seed, std::atomic<long long>* nid)
    : t(t_), rt(rt_), rng(seed), next_id(nid) { gran = rt->allocator().granularity(); }

  bool all_intact() { for (auto& s : live) if (!check_span(s)) return false; return true; }

  Op begin(const char* name) { Op o; o.t = t; o.tseq = ++tseq; o.op = name; lock_events.clear(); return o; }
  void end(Op& o) { o.locks = lock_events; o.intact = all_intact(); ops.push_back(o); }

  void run(unsigned nops) {
    tl_lock_events = &lock_events;
    JitAllocator& A = rt->allocator();
    for (unsigned i = 0; i < nops; i++) {
      unsigned c = (unsigned)rng.below(100);
      if (c < 34 || live.empty()) {
        if (live.size() >= 10) { c = 40; }
        else {
          size_t req = rng.chance(1, 6) ? gran * (1 + rng.below(300)) : 1 + rng.below(gran * 6);
          Op o = begin("Alloc"); o.req = (long long)req;
          JitAllocator::Span span;
          Error err = A.alloc(Out(span), req);
          o.r = err_name(err);
          if (err == Error::kOk) {
            Live s{(*next_id)++, span, uint32_t(rng.next())};
            o.id = s.id; o.rx = uint64_t(uintptr_t(span.rx())); o.rw = uint64_t(uintptr_t(span.rw())); o.len = (long long)span.size();
            o.nonnull = span.rx() && span.rw();
            uint32_t* p = static_cast<uint32_t*>(span.rw());
            for (size_t k = 0; k < span.size() / 4; k++) p[k] = word_at(s.seed, k);
            o.alias = check_span(s);
            live.push_back(s);
          }
          end(o);
          continue;
        }
      }
      if (c < 58) {
        size_t idx = rng.below(live.size());
        Op o = begin("Release"); o.id = live[idx].id;
        Error err = A.release(live[idx].span.rx());
        o.r = err_name(err);
        if (err == Error::kOk) live.erase(live.begin() + idx);
        end(o);
      }
      else if (c < 68) {
        size_t idx = rng.below(live.size());
        size_t len = live[idx].span.size();
        size_t n = 1 + rng.below(len);
        Op o = begin("Shrink"); o.id = live[idx].id; o.n = (long long)n;
        Error err = A.shrink(live[idx].span, n);
        o.r = err_name(err);
        o.len = (long long)live[idx].span.size(); o.rx = uint64_t(uintptr_t(live[idx].span.rx())); o.rw = uint64_t(uintptr_t(live[idx].span.rw()));
        end(o);
      }
      else if (c < 76) {
        size_t idx = rng.below(live.size());
        Op o = begin("Query"); o.id = live[idx].id;
        JitAllocator::Span q;
        Error err = A.query(Out(q), live[idx].span.rx());
        o.r = err_name(err);
        o.rx = uint64_t(uintptr_t(q.rx())); o.rw = uint64_t(uintptr_t(q.rw())); o.len = (long long)q.size();
        end(o);
      }
      else if (c < 82) {
        Op o = begin("Stats");
        JitAllocator::Statistics s = A.statistics();
        o.cnt = (long long)s.allocation_count(); o.used = (long long)s.used_size(); o.res = (long long)s.reserved_size(); o.blk = (long long)s.block_count();
        o.r = "Ok";
        end(o);
      }
      else if (c < 90) {
        size_t idx = rng.below(live.size());
        size_t len = live[idx].span.size();
        long long tr = rng.chance(1, 2) ? -1 : (long long)(1 + rng.below(len));
        Op o = begin("Write"); o.id = live[idx].id; o.trunc = tr;
        uint32_t seed = uint32_t(rng.next());
        Error err = A.write(live[idx].span, [&](JitAllocator::Span& sp) noexcept -> Error {
          uint32_t* p = static_cast<uint32_t*>(sp.rw());
          for (size_t k = 0; k < sp.size() / 4; k++) p[k] = word_at(seed, k);
          if (tr >= 0) sp.shrink(size_t(tr));
          return Error::kOk;
        });
        live[idx].seed = seed;
        o.r = err_name(err);
        o.len = (long long)live[idx].span.size(); o.rx = uint64_t(uintptr_t(live[idx].span.rx())); o.rw = uint64_t(uintptr_t(live[idx].span.rw()));
        end(o);
      }
      else if (c < 96 || funcs.empty()) {
        // JitRuntime::add of a small function whose code size is known
        CodeHolder code;
        code.init(rt->environment());
        x86::Assembler a(&code);
        unsigned k = 1 + (unsigned)rng.below(200);
        a.mov(x86::eax, int(k));
        for (unsigned j = 0; j < k; j++) a.add(x86::eax, int(j));
        a.ret();
        size_t cs = code.code_size();
        Op o = begin("RtAdd"); o.req = (long long)cs;
        void* fn = nullptr;
        Error err = rt->_add(&fn, &code);
        o.r = err_name(err);
        if (err == Error::kOk) {
          o.id = (*next_id)++;
          o.rx = uint64_t(uintptr_t(fn)); o.rw = 0; o.len = (long long)((cs + gran - 1) / gran * gran);
          o.nonnull = fn != nullptr;
          // the installed bytes are exactly the code (checked by calling it)
          unsigned exp = k; for (unsigned j = 0; j < k; j++) exp += j;
          o.alias = ((unsigned (*)())fn)() == exp;
          funcs.emplace_back(fn, (size_t)o.id);
        }
        end(o);
      }
      else {
        size_t idx = rng.below(funcs.size());
        Op o = begin("RtRelease"); o.id = (long long)funcs[idx].second;
        Error err = rt->_release(funcs[idx].first);
        o.r = err_name(err);
        if (err == Error::kOk) funcs.erase(funcs.begin() + idx);
        end(o);
      }
    }
    tl_lock_events = nullptr;
  }
};

static void run_alloc_exec(FILE* out, unsigned nthreads, unsigned nops, uint64_t seed, unsigned x) {
  g_seq = 0; g_lock_of_interest = nullptr;
  JitAllocator::CreateParams params;
  static const uint32_t grans[] = {64, 128, 256};
  params.granularity = grans[x % 3];
  params.block_size = 65536;
  params.options = JitAllocatorOptions::kNone;
  if (x & 1) params.options |= JitAllocatorOptions::kFillUnusedMemory;
  if (x & 2) params.options |= JitAllocatorOptions::kImmediateRelease;
  if (x & 4) params.options |= JitAllocatorOptions::kUseDualMapping;
  if (x & 8) params.options |= JitAllocatorOptions::kDisableInitialPadding;
  JitRuntime rt(&params);
  std::atomic<long long> next_id{1};
  std::vector<std::unique_ptr<Worker>> ws;
  for (unsigned t = 0; t < nthreads; t++) ws.emplace_back(new Worker(int(t + 1), &rt, seed * 1000003ull + x * 131ull + t, &next_id));
  std::vector<std::thread> th;
  std::atomic<int> go{0};
  for (auto& w : ws) th.emplace_back([&, wp = w.get()] { while (!go.load()) {} wp->run(nops); });
  go.store(1);
  for (auto& t : th) t.join();
  // final clean-up by the main thread, single-threaded, so that the end state is checked as well
  std::vector<Op> tail;

  // ---- merge: lock events are totally ordered by g; thread-local events keep their thread order ----
  struct Item { int kind; const Op* op; size_t li; };      // kind 0 Call, 1 Acq, 2 Rel, 3 Ret
  std::vector<std::vector<Item>> per(nthreads);
  for (unsigned t = 0; t < nthreads; t++)
    for (auto& o : ws[t]->ops) {
      per[t].push_back({0, &o, 0});
      for (size_t i = 0; i < o.locks.size(); i++) per[t].push_back({o.locks[i].kind == 0 ? 1 : 2, &o, i});
      per[t].push_back({3, &o, 0});
    }
  // address compression
  std::set<uint64_t> chunks;
  auto cover = [&](uint64_t a, long long len) { if (!a) return; uint64_t last = a + uint64_t(len > 0 ? len - 1 : 0); for (uint64_t c = a >> 16; c <= (last >> 16); c++) chunks.insert(c); };
  for (auto& w : ws) for (auto& o : w->ops) { cover(o.rx, o.len); cover(o.rw, o.len); }
  std::map<uint64_t, uint64_t> idx; uint64_t nx = 1, prev = 0; bool first = true;
  for (uint64_t c : chunks) { if (!first && c != prev + 1) nx++; idx[c] = nx++; prev = c; first = false; }
  auto norm = [&](uint64_t a) -> long long { return a ? (long long)(idx[a >> 16] * 65536 + (a & 0xFFFF)) : 0; };

  vj::W w;
  w.beginObj().kv("e", "Reset").kv("threads", nthreads);
  w.key("opts").beginObj().kv("dual", bool(x & 4)).kv("multi", false).kv("fill", bool(x & 1)).kv("imm", bool(x & 2)).kv("nopad", bool(x & 8))
    .kv("gran", params.granularity).kv("block", params.block_size).kv("pools", 1).endObj();
  w.endObj().emit(out);
  std::vector<size_t> pos(nthreads, 0);
  uint64_t next_g = 1;
  for (;;) {
    bool progressed = false, remaining = false;
    for (unsigned t = 0; t < nthreads; t++) {
      while (pos[t] < per[t].size()) {
        const Item& it = per[t][pos[t]];
        if (it.kind == 1 || it.kind == 2) {
          if (it.op->locks[it.li].g != next_g) break;
          next_g++;
        }
        const Op& o = *it.op;
        static const char* kn[] = {"Call", "Acq", "Rel", "Ret"};
        w.beginObj().kv("e", kn[it.kind]).kv("t", o.t).kv("op", o.op);
        if (it.kind == 1 || it.kind == 2) w.kv("g", (long long)o.locks[it.li].g);
        if (it.kind == 2) {
          // the critical section that carries the operation's effect is the first one of the call; further
          // sections of the same call (write+truncate -> shrink, runtime add -> shrink) are marked "extra"
          size_t cs_index = it.li / 2;
          w.kv("cs", (long long)cs_index);
        }
        if (it.kind == 0) {   // the call event carries everything the thread knew after the call returned
          if (o.id >= 0) w.kv("id", o.id);
          if (o.req >= 0) w.kv("req", o.req);
          if (o.n >= 0) w.kv("n", o.n);
          if (o.trunc != -2) w.kv("trunc", o.trunc);
          w.kv("r", o.r).kv("rx", norm(o.rx)).kv("rw", norm(o.rw)).kv("len", o.len);
          w.kv("nonnull", o.nonnull).kv("alias", o.alias).kv("intact", o.intact).kv("ncs", (long long)(o.locks.size() / 2));
          if (o.cnt >= 0) w.key("st").beginObj().kv("cnt", o.cnt).kv("used", o.used).kv("res", o.res).kv("blk", o.blk).endObj();
        }
        w.endObj().emit(out);
        pos[t]++;
        progressed = true;
      }
      if (pos[t] < per[t].size()) remaining = true;
    }
    if (!remaining) break;
    if (!progressed) { w.beginObj().kv("e", "ABORT").kv("why", "lock events cannot be ordered").endObj().emit(out); break; }
  }
}

// ---------------------------------------------------------------------------------------------------------
// independent generation: every thread owns holder + emitters; output must equal solo generation
// ---------------------------------------------------------------------------------------------------------
static uint64_t fnv(uint64_t h, const void* p, size_t n) { const uint8_t* b = (const uint8_t*)p; for (size_t i = 0; i < n; i++) { h ^= b[i]; h *= 1099511628211ull; } return h; }

static uint64_t digest_of(CodeHolder& code) {
  uint64_t h = 1469598103934665603ull;
  code.flatten();
  for (Section* s : code.sections()) { uint64_t off = s->offset(); h = fnv(h, &off, 8); h = fnv(h, s->data(), s->buffer_size()); }
  uint32_t nl = (uint32_t)code.label_count();
  for (uint32_t i = 0; i < nl; i++) { uint64_t o = code.is_label_bound(i) ? code.label_offset(i) : ~0ull; h = fnv(h, &o, 8); }
  for (const RelocEntry* re : code.reloc_entries()) { uint64_t v[3] = {uint64_t(re->reloc_type()), re->source_offset(), re->payload()}; h = fnv(h, v, sizeof v); }
  return h;
}

static uint64_t gen_program(unsigned prog, uint64_t seed) {
  vj::Rng r(seed);
  CodeHolder code;
  if (prog == 0) {            // x86-64 assembler with labels and sections
    code.init(Environment(Arch::kX64));
    x86::Assembler a(&code);
    Label L1 = a.new_label(), L2 = a.new_label();
    Section* data = nullptr; code.new_section(Out(data), ".data", SIZE_MAX, SectionFlags::kNone, 8);
    unsigned n = 20 + (unsigned)r.below(200);
    for (unsigned i = 0; i < n; i++) {
      switch (r.below(6)) {
        case 0: a.mov(x86::rax, int64_t(r.next())); break;
        case 1: a.add(x86::rcx, x86::ptr(x86::rdx, int32_t(r.below(4096)))); break;
        case 2: a.jmp(L1); break;
        case 3: a.lea(x86::rsi, x86::ptr(L2)); break;
        case 4: a.vaddps(x86::ymm1, x86::ymm2, x86::ymm3); break;
        default: a.jz(L2); break;
      }
    }
    a.bind(L1); a.ret();
    a.section(data); a.bind(L2); a.embed_uint64(r.next());
    return digest_of(code);
  }
  if (prog == 1) {            // AArch64 assembler
    code.init(Environment(Arch::kAArch64));
    a64::Assembler a(&code);
    Label L1 = a.new_label();
    unsigned n = 20 + (unsigned)r.below(200);
    for (unsigned i = 0; i < n; i++) {
      switch (r.below(5)) {
        case 0: a.mov(a64::x0, uint64_t(r.next())); break;
        case 1: a.add(a64::x1, a64::x2, a64::x3); break;
        case 2: a.b(L1); break;
        case 3: a.ldr(a64::x4, a64::ptr(a64::x5, int32_t(r.below(256) * 8))); break;
        default: a.cbz(a64::x6, L1); break;
      }
    }
    a.bind(L1); a.ret(a64::x30);
    return digest_of(code);
  }
  if (prog == 5) {            // an own JitRuntime per call with dual mapping: install, run and release a few functions.
    // Threads share no allocator here - only the process-wide descriptor table and the VirtMem statics.
    JitAllocator::CreateParams params;
    params.options = JitAllocatorOptions::kUseDualMapping | JitAllocatorOptions::kImmediateRelease | JitAllocatorOptions::kUseMultiplePools;
    JitRuntime rt(&params);
    uint64_t h = 1469598103934665603ull;
    unsigned n = 2 + (unsigned)r.below(3);
    for (unsigned i = 0; i < n; i++) {
      CodeHolder c2;
      c2.init(rt.environment(), rt.cpu_features());
      x86::Assembler a(&c2);
      uint32_t k = uint32_t(r.below(1000000));
      a.mov(x86::eax, k);
      for (unsigned j = 0; j < (unsigned)r.below(40); j++) a.add(x86::eax, 1);
      a.ret();
      typedef int (*Fn)(void);
      Fn fn = nullptr;
      Error e1 = rt.add(&fn, &c2);
      uint64_t res = (e1 == Error::kOk && fn) ? uint64_t(uint32_t(fn())) : 0xDEADull;
      Error e2 = (e1 == Error::kOk) ? rt.release(fn) : Error::kOk;
      h = (h ^ res) * 1099511628211ull; h = (h ^ uint64_t(e1)) * 1099511628211ull; h = (h ^ uint64_t(e2)) * 1099511628211ull;
    }
    return h;
  }
  if (prog == 3) {            // AArch64 compiler: virtual registers of several types (shared tables / caches behind new_reg)
    code.init(Environment(Arch::kAArch64));
    a64::Compiler cc(&code);
    FuncNode* f = cc.add_func(FuncSignature::build<int, int, int>());
    a64::Gp a0 = cc.new_gp32(), a1 = cc.new_gp32();
    f->set_arg(0, a0); f->set_arg(1, a1);
    unsigned n = 6 + (unsigned)r.below(20);
    a64::Gp acc = cc.new_gp64();
    cc.mov(acc, 0);
    for (unsigned i = 0; i < n; i++) {
      if (i % 3 == 0) { a64::Gp g = cc.new_gp64(); cc.mov(g, uint64_t(r.below(1000))); cc.add(acc, acc, g); }
      else if (i % 3 == 1) { a64::Gp g = cc.new_gp32(); cc.add(g, a0, a1); cc.add(acc.w(), acc.w(), g); }
      else { a64::Vec v = cc.new_vec128(); cc.movi(v.b16(), uint32_t(r.below(200))); a64::Vec d = cc.new_vec_d(); cc.mov(d.d(), v.d(0)); a64::Gp t = cc.new_gp64(); cc.fmov(t, d.d()); cc.add(acc, acc, t); }
    }
    cc.ret(acc.w());
    cc.end_func();
    cc.finalize();
    return digest_of(code);
  }
  if (prog == 4) {            // x86-64 compiler with mixed register types (gp8..gp64, xmm, ymm, k)
    code.init(Environment(Arch::kX64));
    x86::Compiler cc(&code);
    FuncNode* f = cc.add_func(FuncSignature::build<int, int, int>());
    x86::Gp a0 = cc.new_gp32(), a1 = cc.new_gp32();
    f->set_arg(0, a0); f->set_arg(1, a1);
    x86::Gp acc = cc.new_gp64();
    cc.xor_(acc, acc);
    unsigned n = 6 + (unsigned)r.below(20);
    for (unsigned i = 0; i < n; i++) {
      switch (i % 4) {
        case 0: { x86::Gp g = cc.new_gp64(); cc.mov(g, int64_t(r.below(100000))); cc.add(acc, g); break; }
        case 1: { x86::Vec v = cc.new_xmm(); cc.movd(v, a0); x86::Gp t = cc.new_gp32(); cc.movd(t, v); cc.add(acc.r32(), t); break; }
        case 2: { x86::Gp g = cc.new_gp16(); cc.mov(g, a1.r16()); cc.add(acc.r16(), g); break; }
        default: { x86::Vec v = cc.new_xmm(); cc.pxor(v, v); x86::Gp t = cc.new_gp64(); cc.movq(t, v); cc.add(acc, t); break; }
      }
    }
    cc.ret(acc.r32());
    cc.end_func();
    cc.finalize();
    return digest_of(code);
  }
  // x86-64 compiler: a function with enough live values to spill
  code.init(Environment(Arch::kX64));
  x86::Compiler cc(&code);
  FuncNode* f = cc.add_func(FuncSignature::build<int, int, int>());
  std::vector<x86::Gp> v;
  unsigned n = 8 + (unsigned)r.below(30);
  x86::Gp a0 = cc.new_gp32(), a1 = cc.new_gp32();
  f->set_arg(0, a0); f->set_arg(1, a1);
  for (unsigned i = 0; i < n; i++) { x86::Gp g = cc.new_gp32(); cc.mov(g, int(r.below(1000))); cc.add(g, (i & 1) ? a0 : a1); v.push_back(g); }
  x86::Gp sum = cc.new_gp32(); cc.xor_(sum, sum);
  for (auto& g : v) cc.add(sum, g);
  cc.ret(sum);
  cc.end_func();
  cc.finalize();
  return digest_of(code);
}

static void run_gen(FILE* out, unsigned rounds, unsigned nthreads, uint64_t seed) {
  // warm-up (the property's premise: host information initialised)
  (void)CpuInfo::host(); (void)VirtMem::info(); gen_program(0, 1); gen_program(1, 1); gen_program(2, 1); gen_program(3, 1); gen_program(4, 1); gen_program(5, 1);
  vj::W w;
  w.beginObj().kv("e", "Reset").kv("threads", nthreads).kv("mode", "gen").endObj().emit(out);
  for (unsigned rd = 0; rd < rounds; rd++) {
    struct Job { unsigned prog; uint64_t seed; uint64_t conc = 0, solo = 0; };
    std::vector<std::vector<Job>> jobs(nthreads);
    vj::Rng r(seed + rd);
    for (unsigned t = 0; t < nthreads; t++) for (unsigned k = 0; k < 6; k++) jobs[t].push_back(Job{(unsigned)r.below(6), r.next() % 100000});
    // a storm of per-thread dual-mapped runtimes in the last round: descriptor / mapping handling of independent
    // runtimes must not interfere (windows of a few instructions need many overlapping attempts)
    // (the time-boxed storm of dual-mapped runtimes follows the rounds: run_dualstorm)
    std::vector<std::thread> th;
    std::atomic<int> go{0};
    for (unsigned t = 0; t < nthreads; t++) th.emplace_back([&, t] { while (!go.load()) {} for (auto& j : jobs[t]) j.conc = gen_program(j.prog, j.seed); });
    go.store(1);
    for (auto& t : th) t.join();
    for (unsigned t = 0; t < nthreads; t++) for (auto& j : jobs[t]) {
      j.solo = gen_program(j.prog, j.seed);
      w.beginObj().kv("e", "Gen").kv("t", t + 1).kv("prog", j.prog).kv("seed", (long long)j.seed)
        .kv("conc", (long long)(j.conc & 0x3FFFFFFF)).kv("solo", (long long)(j.solo & 0x3FFFFFFF)).kv("equal", j.conc == j.solo).endObj().emit(out);
    }
  }
}

// ---- cold start: threads racing on the very FIRST use of the host information -------------------------------
// Each trial runs in a forked child (the host information is cached in function-local statics). The threads of a
// child create their own JitRuntime at the same moment, before anything called CpuInfo::host(); what each of them
// obtained (CPU features, hints, vendor/family, hardware threads) is compared with what the process sees once
// everything has settled ("every thread obtains the code it would obtain alone": code generation is a function of
// this information). Plain build only: the pinned tree initialises the static with a benign same-value race.
static uint64_t host_view_digest(const JitRuntime& rt) {
  uint64_t h = 1469598103934665603ull;
  auto mix = [&](uint64_t v) { h = (h ^ v) * 1099511628211ull; };
  const CpuFeatures& f = rt.cpu_features();
  for (size_t i = 0; i < CpuFeatures::kNumBitWords; i++) mix(uint64_t(f.data<CpuFeatures::Data>().bits()[i]));
  mix(uint64_t(rt.cpu_hints()));
  mix(uint64_t(rt.environment().arch()));
  return h;
}
static void run_cold(FILE* out, unsigned trials, unsigned nthreads) {
  vj::W w;
  w.beginObj().kv("e", "Reset").kv("threads", nthreads).kv("mode", "cold").endObj().emit(out);
  fflush(out);
  for (unsigned tr = 0; tr < trials; tr++) {
    int fd[2];
    if (pipe(fd) != 0) return;
    pid_t pid = fork();
    if (pid == 0) {
      close(fd[0]);
      std::vector<uint64_t> seen(nthreads, 0);
      std::vector<std::thread> th;
      std::atomic<unsigned> ready{0};
      std::atomic<int> go{0};
      for (unsigned t = 0; t < nthreads; t++) th.emplace_back([&, t] {
        ready.fetch_add(1);
        while (!go.load(std::memory_order_acquire)) {}
        for (unsigned spin = 0; spin < t * 40u; spin++) { asm volatile("" ::: "memory"); }     // stagger the arrivals a little
        JitRuntime rt;
        seen[t] = host_view_digest(rt);
      });
      while (ready.load() < nthreads) {}
      go.store(1, std::memory_order_release);
      for (auto& t : th) t.join();
      JitRuntime solo;
      uint64_t ref = host_view_digest(solo);
      std::vector<uint64_t> msg(seen); msg.push_back(ref);
      ssize_t n = write(fd[1], msg.data(), msg.size() * sizeof(uint64_t)); (void)n;
      _exit(0);
    }
    close(fd[1]);
    std::vector<uint64_t> msg(nthreads + 1, 0);
    size_t got = 0; char* p = reinterpret_cast<char*>(msg.data());
    while (got < msg.size() * sizeof(uint64_t)) { ssize_t n = read(fd[0], p + got, msg.size() * sizeof(uint64_t) - got); if (n <= 0) break; got += size_t(n); }
    close(fd[0]);
    int st = 0; waitpid(pid, &st, 0);
    bool complete = got == msg.size() * sizeof(uint64_t) && WIFEXITED(st) && WEXITSTATUS(st) == 0;
    for (unsigned t = 0; t < nthreads; t++) {
      uint64_t c = complete ? msg[t] : 0, s = complete ? msg[nthreads] : 1;
      w.beginObj().kv("e", "Gen").kv("t", t + 1).kv("prog", 9).kv("seed", (long long)tr)
        .kv("conc", (long long)(c & 0x3FFFFFFF)).kv("solo", (long long)(s & 0x3FFFFFFF)).kv("equal", c == s).endObj().emit(out);
    }
    fflush(out);
  }
}

// Independent dual-mapped runtimes hammered by all threads for a fixed time: every add / call / release must succeed and
// return the value the code was generated for (self-checking, so no solo re-run is needed). Windows of a few instructions
// in descriptor handling need many overlapping attempts.
static void run_dualstorm(FILE* out, unsigned nthreads, uint64_t seed, unsigned millis) {
  std::vector<uint64_t> ok(nthreads, 0), bad(nthreads, 0);
  std::vector<std::thread> th;
  std::atomic<int> go{0};
  for (unsigned t = 0; t < nthreads; t++) th.emplace_back([&, t] {
    vj::Rng r(seed * 977u + t);
    while (!go.load()) {}
    auto t0 = std::chrono::steady_clock::now();
    while (std::chrono::duration_cast<std::chrono::milliseconds>(std::chrono::steady_clock::now() - t0).count() < (long long)millis) {
      JitAllocator::CreateParams params;
      params.options = JitAllocatorOptions::kUseDualMapping | JitAllocatorOptions::kImmediateRelease | ((t & 1) ? JitAllocatorOptions::kUseMultiplePools : JitAllocatorOptions::kNone);
      JitRuntime rt(&params);
      for (unsigned i = 0; i < 3; i++) {
        CodeHolder c2;
        c2.init(rt.environment(), rt.cpu_features());
        x86::Assembler a(&c2);
        uint32_t k = uint32_t(r.below(1000000));
        a.mov(x86::eax, k); a.add(x86::eax, 7); a.ret();
        typedef int (*Fn)(void);
        Fn fn = nullptr;
        Error e1 = rt.add(&fn, &c2);
        bool good = e1 == Error::kOk && fn && uint32_t(fn()) == k + 7 && rt.release(fn) == Error::kOk;
        if (good) ok[t]++; else bad[t]++;
      }
    }
  });
  go.store(1);
  for (auto& t : th) t.join();
  vj::W w;
  for (unsigned t = 0; t < nthreads; t++)
    w.beginObj().kv("e", "Gen").kv("t", t + 1).kv("prog", 6).kv("seed", (long long)(ok[t] & 0x3FFFFFFF))
      .kv("conc", (long long)(bad[t] & 0x3FFFFFFF)).kv("solo", 0).kv("equal", bad[t] == 0).endObj().emit(out);
}

int main(int argc, char** argv) {
  if (argc < 5) return 3;
  std::string mode = argv[1];
  FILE* out = fopen(argv[2], "w");
  vj::install_abort_handlers(out);
  asmjit_verif_lock_hook = lock_hook;
  uint64_t seed = vj::env_seed();
  if (mode == "alloc") {
    unsigned nexec = (unsigned)atoi(argv[3]), nthreads = (unsigned)atoi(argv[4]), nops = (unsigned)atoi(argv[5]);
    for (unsigned x = 0; x < nexec; x++) run_alloc_exec(out, nthreads, nops, seed, x);
  } else if (mode == "gen") {
    run_gen(out, (unsigned)atoi(argv[3]), (unsigned)atoi(argv[4]), seed);
    run_dualstorm(out, 12, seed, (unsigned)atoi(argv[3]) <= 3 ? 2500 : 12000);
  } else if (mode == "cold") {
    run_cold(out, (unsigned)atoi(argv[3]), (unsigned)atoi(argv[4]));
  }
  fclose(out);
  return 0;
}
