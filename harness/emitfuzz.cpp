// C14 harness: arbitrary / perturbed calls on real emitters, recorded as an ndjson trace for EmitContractTrace.tla.
//
//   emitfuzz record <trace> <arch:x86|x64|a64> <em:asm|builder|compiler> <base-seed> <first-exec> <n-exec> <calls> <mode>
//   emitfuzz one    <trace> <arch> <em> <exec-seed> <calls> <mode>          (re-run exactly one execution)
//
// mode: general | failonly | detinst | detother | lblmem32 | lbloff64 | mem16off | a64elem | regsize | deadjump (dedicated executions for isolated triggers)
// Every public API call is one `Call` event carrying what the code reported (return value, handler invocations,
// exception) and the projection of emitter + holder observed AFTER the call; the contract compares it with the
// projection after the previous call.  The harness judges nothing.  A sanitizer report / crash ends the process;
// the death callback writes the pending call's inputs and an ABORT line, which the trace spec never consumes.
#include <asmjit/core.h>
#include <asmjit/x86.h>
#include <asmjit/a64.h>
#include <memory>
#include <string>
#include <vector>
#include "vjson.h"

#if defined(__has_feature)
#if __has_feature(address_sanitizer)
#include <sanitizer/common_interface_defs.h>
#define EMITFUZZ_ASAN 1
#endif
#endif

using namespace asmjit;

// ---------------------------------------------------------------------------------------------------------
// Valid instruction forms, harvested from the repository's own assembler tests: every TEST_INSTRUCTION(...) line is
// executed once against a Builder and the resulting InstNode (id, options, extra reg, operands) is kept.  They serve
// as (1) valid calls interleaved with invalid ones and (2) the "database forms" whose operand KINDS are kept while
// ids / element types / shifts / offsets / immediates / label ids are perturbed.
// ---------------------------------------------------------------------------------------------------------
struct Form { uint32_t inst_id; uint32_t options; RegOnly extra; uint32_t n; Operand_ op[6]; };
static std::vector<Form>* g_sink;

#define ASMJIT_TEST_ASSEMBLER_H_INCLUDED
struct TestSettings { bool verbose; bool validate; };
template<typename A> struct BuilderOf;
template<> struct BuilderOf<a64::Assembler> { using T = a64::Builder; };
template<> struct BuilderOf<x86::Assembler> { using T = x86::Builder; };
template<typename A> class AssemblerTester {
public:
  CodeHolder code; typename BuilderOf<A>::T assembler; Label L0; Environment env; size_t n = 0;
  AssemblerTester(Arch arch, const TestSettings&) noexcept : env(arch) { prepare(); }
  void prepare() noexcept { code.reset(); code.init(env, 0); code.attach(&assembler); L0 = assembler.new_label(); }
  void print_header(const char*) noexcept {}
  void print_summary() noexcept {}
  bool did_pass() const noexcept { return true; }
  bool test_valid_instruction(const char*, const char*, Error err = Error::kOk) noexcept {
    BaseNode* node = assembler.cursor();
    if (err == Error::kOk && node && node->is_inst()) {
      InstNode* in = node->as<InstNode>();
      Form f{}; f.inst_id = in->inst_id(); f.options = uint32_t(in->options()); f.extra = in->extra_reg(); f.n = in->op_count();
      if (f.n <= 6) { for (uint32_t i = 0; i < f.n; i++) f.op[i] = in->op(i); g_sink->push_back(f); }
    }
    if (++n % 512 == 0) prepare();
    return true;
  }
  bool test_invalid_instruction(const char*, Error, Error) noexcept { assembler.reset_state(); if (++n % 512 == 0) prepare(); return true; }
};
#pragma clang optimize off
#pragma clang attribute push (__attribute__((no_sanitize("address","undefined"))), apply_to = function)
#include <asmjit-testing/tests/asmjit_test_assembler_a64.cpp>
#include <asmjit-testing/tests/asmjit_test_assembler_x86.cpp>
#pragma clang attribute pop
#pragma clang optimize on

static std::vector<Form> g_forms_a64, g_forms_x86;

// ---------------------------------------------------------------------------------------------------------
static FILE* g_out;
static std::string g_pending;      // description of the call in flight (for ABORT attribution)
static void death_cb() {
  if (g_out) {
    vj::W w; w.beginObj().kv("e", "ABORT").kv("in", g_pending).endObj();
    fputs(w.s.c_str(), g_out); fputc('\n', g_out); fflush(g_out);
  }
}

static inline uint32_t fnv(const uint8_t* p, size_t n, uint32_t h = 2166136261u) {
  for (size_t i = 0; i < n; i++) { h ^= p[i]; h *= 16777619u; }
  return h;
}
static inline uint32_t d31(uint32_t h) { return h & 0x7FFFFFFFu; }

struct EmitError { Error code; };

struct Handler : public ErrorHandler {
  std::vector<uint32_t> codes;
  bool do_throw = false;
  size_t msg_len = 0;
  void handle_error(Error err, const char* message, BaseEmitter* origin) override {
    codes.push_back(uint32_t(err));
    msg_len += message ? strlen(message) : 0;       // touch the message: it must be a valid string
    (void)origin;
    if (do_throw) throw EmitError{err};
  }
};

static const char* arch_name(Arch a) { return a == Arch::kX86 ? "x86" : a == Arch::kX64 ? "x64" : "a64"; }

struct Proj {
  std::vector<size_t> ss; std::vector<uint32_t> sd;
  size_t nl = 0, nf = 0, nr = 0, na = 0, nn = 0, cu = 0, cs = 0, off = 0, nv = 0;
  size_t nb = 0;   // bound labels
  size_t gf = 0;   // fixups on the holder's global (detached from their label) list
  size_t gb = 0;   // ... of which carry no valid label id / section id (must be 0: fixup.h says a detached fixup holds its label id)
  uint32_t gd = 0; // digest over (section, offset, label id) of the global fixup list
  int eh = 1;      // emitter configuration intact: error_handler() is the attached handler (identity), has_own_error_handler,
                   // logger identity and diagnostic options are what the harness configured
};

// A user pass that refuses: reports through the emitter (= the postponed handler installed by run_passes) and returns the error.
class C14FailPass : public Pass {
public:
  explicit C14FailPass(BaseBuilder& cb) noexcept : Pass(cb, "C14FailPass") {}
  Error run(Arena&, Logger*) override { return _cb.report_error(make_error(Error::kInvalidState), "c14: user pass refuses"); }
};

struct ProbeObs { uint32_t err = 0, n = 0, dg = 0, dl = 0, dr = 0, df = 0; };

struct Exec {
  vj::Rng r;
  Arch arch; bool is_x86; int emk;   // 0 asm, 1 builder, 2 compiler
  int hk;                            // 0 none, 1 recording, 2 throwing
  bool attached = true, logger_on = false, own_handler = false, strict = true;
  std::string mode;
  CodeHolder code, other;
  std::unique_ptr<BaseEmitter> emp;
  BaseEmitter* em = nullptr;
  BaseAssembler* as = nullptr; BaseBuilder* bb = nullptr; BaseCompiler* cc = nullptr;
  x86::Assembler other_asm;
  Handler h;
  StringLogger lg;
  std::vector<uint32_t> labels;      // label ids handed out by this holder
  std::vector<uint32_t> foreign;     // label ids of the other holder
  std::vector<uint32_t> vregs;       // virtual register ids (compiler)
  Section* sec2 = nullptr; Section* foreign_sec = nullptr; Section* foreign_sec_hi = nullptr;
  unsigned named = 0;
  bool all_failed = true;
  bool in_func = false;
  size_t ncalls = 0;
  uint8_t databuf[1024];   // embed_data_array reads up to 64 bytes x 5 items
  // reference pass: the same execution (same seed) with every refused call simply omitted; nothing is logged
  bool ref_pass = false;
  std::vector<uint8_t> failed;            // main pass: per call index, 1 = the call was refused
  const std::vector<uint8_t>* skip = nullptr;
  size_t call_idx = 0;
  bool pure = true;                       // main pass: every refused call left the whole projection unchanged
  bool main_all_failed = true;            // ref pass: takes the same branch as the main pass did
  std::string last_p;
  DiagnosticOptions diag = DiagnosticOptions::kValidateAssembler | DiagnosticOptions::kValidateIntermediate;
  bool vi_on = true, va_on = true, kinds_only = false;
  int fin_style = 0;
  // shadow: the same request handed to a strictly validating Assembler (Builder executions with kValidateIntermediate)
  CodeHolder sh_code; std::unique_ptr<BaseAssembler> sh_asm;
  std::string extra_json;                 // extra fields of the next Call event
  int next_di = 0;                        // the next emit_tuple() request is documented-invalid (must be refused)
  bool will_skip() const { return ref_pass && skip && call_idx < skip->size() && (*skip)[call_idx]; }

  // Fast-path configuration (Assembler, general mode): no logger, no diagnostic option - the emitter's inlined fast path.
  // Its twin pass is the SAME execution (same seed, same calls) with a logger attached (slow path, still no validation):
  // loggers are documented not to change what is valid, so every request must be accepted / refused alike.
  bool fast = false, twin_pass = false;
  std::vector<uint32_t> rcs;              // twin pass: result of every call, by call index
  const std::vector<uint32_t>* twin_rcs = nullptr;
  Exec(uint64_t seed, Arch a, int emkind, const std::string& md, bool twin = false) : r(seed), arch(a), emk(emkind), mode(md), twin_pass(twin) {
    is_x86 = a != Arch::kAArch64;
    for (size_t i = 0; i < sizeof databuf; i++) databuf[i] = uint8_t(r.next());
    hk = int(r.below(3));
    logger_on = r.chance(1, 4);
    own_handler = r.chance(1, 5);
    { bool fd = r.chance(3, 10); fast = fd && emkind == 0 && md == "general"; if (fast) logger_on = twin_pass; }
    if (mode == "detinst" || mode == "detother") { attached = false; own_handler = true; }
    code.init(Environment(a));
    other.init(Environment(a));
    other.attach(&other_asm);
    for (int i = 0; i < 40; i++) foreign.push_back(other_asm.new_label().id());
    other_asm.bind(Label(foreign[1]));
    for (int i = 0; i < 5; i++) { Section* s = nullptr; char nm[16]; snprintf(nm, sizeof nm, ".o%d", i); other.new_section(Out(s), nm, SIZE_MAX, SectionFlags::kNone, 8); if (i == 0) foreign_sec = s; foreign_sec_hi = s; }
    code.new_section(Out(sec2), ".data2", SIZE_MAX, SectionFlags::kNone, 8);
    h.do_throw = hk == 2;
    if (hk != 0 && !own_handler) code.set_error_handler(&h);
    if (logger_on) code.set_logger(&lg);
    if (emk == 0) { if (is_x86) emp.reset(new x86::Assembler()); else emp.reset(new a64::Assembler()); }
    else if (emk == 1) { if (is_x86) emp.reset(new x86::Builder()); else emp.reset(new a64::Builder()); }
    else { if (is_x86) emp.reset(new x86::Compiler()); else emp.reset(new a64::Compiler()); }
    em = emp.get();
    if (emk == 0) as = static_cast<BaseAssembler*>(em); else bb = static_cast<BaseBuilder*>(em);
    if (emk == 2) cc = static_cast<BaseCompiler*>(em);
    if (hk != 0 && own_handler) em->set_error_handler(&h);
    if (attached) code.attach(em);
    // strict validation (x86: the property's quantifier; a64 has no operand validator of its own kind checks but the
    // option is harmless there)
    // Diagnostic options.  Assembler: strict validation always (x86: the property's quantifier).  Builder: every subset of
    // {kValidateAssembler, kValidateIntermediate}; Compiler: kValidateIntermediate always on, kValidateAssembler swept.
    { unsigned c = unsigned(r.below(100));
      if (emk == 1) { vi_on = c < 65; va_on = c < 40 || (c >= 65 && c < 85); }
      else if (emk == 2) { vi_on = true; va_on = c < 50; }
      if (mode != "general" && mode != "failonly") { vi_on = va_on = true; }
      if (fast) { vi_on = va_on = false; }
      diag = (va_on ? DiagnosticOptions::kValidateAssembler : DiagnosticOptions::kNone) | (vi_on ? DiagnosticOptions::kValidateIntermediate : DiagnosticOptions::kNone);
      // x86 without any validation: the property only quantifies over arbitrary ids / memory forms / immediates / modifiers
      // with the operand KINDS of a real form (arbitrary kinds need strict validation)
      kinds_only = is_x86 && emk != 2 && !vi_on && !va_on; }
    fin_style = int(r.below(3));
    em->add_diagnostic_options(diag);
    if (emk == 1 && attached && vi_on) {
      sh_code.init(Environment(a));
      if (is_x86) sh_asm.reset(new x86::Assembler()); else sh_asm.reset(new a64::Assembler());
      sh_code.attach(sh_asm.get());
      sh_asm->add_diagnostic_options(DiagnosticOptions::kValidateAssembler);
    }
  }

  // ---- projection -------------------------------------------------------------------------------------
  Proj proj() {
    Proj p;
    for (Section* s : code.sections()) { p.ss.push_back(s->buffer_size()); p.sd.push_back(d31(fnv(s->data(), s->buffer_size()))); }
    p.nl = code.label_count();
    p.nf = code.unresolved_fixup_count();
    p.nr = code.reloc_entries().size();
    for (uint32_t i = 0; i < p.nl; i++) if (code.is_label_bound(i)) p.nb++;
    { uint32_t hsh = 2166136261u;
      for (Fixup* fx = code._fixups; fx && p.gf < 100000; fx = fx->next) {
        p.gf++;
        if (fx->label_or_reloc_id >= p.nl || fx->section_id >= code.section_count()) p.gb++;
        uint32_t w[3] = {fx->section_id, uint32_t(fx->offset), fx->label_or_reloc_id};
        hsh = fnv(reinterpret_cast<const uint8_t*>(w), sizeof w, hsh);
      }
      p.gd = d31(hsh); }
    { ErrorHandler* want = hk == 0 ? nullptr : &h;
      Logger* want_lg = logger_on ? &lg : nullptr;
      p.eh = (em->error_handler() == want && em->has_own_error_handler() == (hk != 0 && own_handler) &&
              (!attached || em->logger() == want_lg) && em->diagnostic_options() == diag) ? 1 : 0; }
    Section* at = code.address_table_section();
    p.na = at ? size_t(at->virtual_size() / code.environment().register_size()) : 0;
    if (as && as->code()) { p.cs = as->current_section()->section_id(); p.off = as->offset(); }
    if (bb && bb->code()) {
      size_t i = 0;
      for (BaseNode* n = bb->first_node(); n; n = n->next()) { i++; if (n == bb->cursor()) p.cu = i; if (i > 100000) break; }
      p.nn = i;
    }
    if (cc && cc->code()) p.nv = cc->virt_regs().size();
    return p;
  }
  void put_proj(std::string& s, const Proj& p) {
    char b[64];
    s += "\"p\":{\"ss\":[";
    for (size_t i = 0; i < p.ss.size(); i++) { snprintf(b, sizeof b, "%s%zu", i ? "," : "", p.ss[i]); s += b; }
    s += "],\"sd\":[";
    for (size_t i = 0; i < p.sd.size(); i++) { snprintf(b, sizeof b, "%s%u", i ? "," : "", p.sd[i]); s += b; }
    char c[256];
    snprintf(c, sizeof c, "],\"nl\":%zu,\"nf\":%zu,\"nr\":%zu,\"na\":%zu,\"nn\":%zu,\"cu\":%zu,\"cs\":%zu,\"off\":%zu,\"nv\":%zu,\"nb\":%zu,\"gf\":%zu,\"gb\":%zu,\"gd\":%u,\"eh\":%d}",
             p.nl, p.nf, p.nr, p.na, p.nn, p.cu, p.cs, p.off, p.nv, p.nb, p.gf, p.gb, p.gd, p.eh);
    s += c;
  }
  void put_os(std::string& s, const char* key) {
    uint32_t o = uint32_t(em->inst_options());
    const RegOnly& x = em->extra_reg();
    char c[96];
    snprintf(c, sizeof c, "\"%s\":[%u,%u,%d,%d]", key, o & 0xFFFFu, o >> 16, (x.signature().bits() != 0 || x.id() != 0) ? 1 : 0, em->inline_comment() ? 1 : 0);
    s += c;
  }

  void reset_event(uint32_t xs, size_t calls) {
    { std::string t; put_proj(t, proj()); last_p = t; }
    if (ref_pass || twin_pass) return;
    std::string s = "{\"e\":\"Reset\",\"arch\":\""; s += arch_name(arch);
    s += "\",\"em\":\""; s += emk == 0 ? "asm" : emk == 1 ? "builder" : "compiler";
    s += "\",\"hk\":\""; s += hk == 0 ? "none" : hk == 1 ? "rec" : "throw";
    s += "\",\"att\":"; s += attached ? "true" : "false";
    char c[128]; snprintf(c, sizeof c, ",\"xs\":%u,\"xi\":%zu,\"n\":%zu,\"mode\":\"%s\",\"lg\":%d,\"own\":%d,\"vi\":%s,\"va\":%s,\"fast\":%s,", xs, xi, calls, mode.c_str(), logger_on, own_handler, vi_on ? "true" : "false", va_on ? "true" : "false", fast ? "true" : "false");
    s += c;
    put_proj(s, proj()); s += ","; put_os(s, "os"); s += "}\n";
    fputs(s.c_str(), g_out);
  }

  // ---- the call wrapper ---------------------------------------------------------------------------------
  // f() performs the call and returns the numeric error code (0 = Ok).  For calls that return a Label the wrapper
  // lambda maps "invalid label returned" to a non-zero code.
  template<typename F> uint32_t call(const char* kind, const std::string& in, F&& f) {
    if (ref_pass || twin_pass) {          // reference pass: refused calls are omitted; twin pass: all calls; nothing is logged
      bool sk = will_skip(); call_idx++;
      extra_json.clear();
      if (sk) return 1;
      g_pending = std::string(arch_name(arch)) + (twin_pass ? " (twin pass, logger attached) " : " (reference pass) ") + kind + " " + in;
      h.codes.clear();
      uint32_t rc = 0;
      try { rc = f(); } catch (const EmitError& e) { rc = uint32_t(e.code); }
      if (logger_on && lg.data_size() > 4096) lg.clear();
      if (twin_pass) { while (rcs.size() + 1 < call_idx) rcs.push_back(0xFFFFFFFFu); rcs.push_back(rc); }
      return rc;
    }
    g_pending = std::string(arch_name(arch)) + "/" + (emk == 0 ? "asm" : emk == 1 ? "builder" : "compiler") + " " + kind + " " + in;
    std::string s = "{\"e\":\"Call\",\"k\":\""; s += kind; s += "\",";
    put_os(s, "oi");
    h.codes.clear();
    uint32_t rc = 0; int th = 0;
    try { rc = f(); }
    catch (const EmitError& e) { th = 1; rc = uint32_t(e.code); }
    if (logger_on && lg.data_size() > 4096) lg.clear();
    if (rc != 0) { } else all_failed = false;
    bool is_fin = strcmp(kind, "finalize") == 0;
    failed.push_back(rc != 0 && !is_fin ? 1 : 0); call_idx++;
    char c[64];
    snprintf(c, sizeof c, ",\"r\":%u,\"th\":%d,\"hc\":[", rc, th); s += c;
    for (size_t i = 0; i < h.codes.size() && i < 8; i++) { snprintf(c, sizeof c, "%s%u", i ? "," : "", h.codes[i]); s += c; }
    s += "],";
    { std::string t; put_proj(t, proj());
      if (rc != 0 && !is_fin && t != last_p) pure = false;
      last_p = t; s += t; }
    s += ","; put_os(s, "os");
    s += extra_json; extra_json.clear();
    s += ",\"in\":";
    { vj::W w; w.str(in.c_str()); s += w.s; }
    s += "}\n";
    fputs(s.c_str(), g_out);
    ncalls++;
    return rc;
  }

  // ---- describing operands ---------------------------------------------------------------------------------
  static void op_hex(std::string& s, const Operand_& o) {
    char c[64]; snprintf(c, sizeof c, "%08x:%08x:%08x:%08x", o._signature.bits(), o._base_id, o._data[0], o._data[1]); s += c;
  }
  std::string describe(uint32_t id, uint32_t opts, const RegOnly& x, bool cmt, const Operand_* ops, size_t n, const char* src) {
    std::string s;
    String nm; InstAPI::inst_id_to_string(arch, id & 0xFFFF, InstStringifyOptions::kNone, nm);
    char c[160]; snprintf(c, sizeof c, "%s id=%u(%s) opt=%08x xr=%08x:%u cmt=%d ops=[", src, id, nm.data() ? nm.data() : "?", opts, x.signature().bits(), x.id(), cmt);
    s += c;
    for (size_t i = 0; i < n; i++) { if (i) s += ' '; op_hex(s, ops[i]); }
    s += "]";
    return s;
  }

  // ---- ids --------------------------------------------------------------------------------------------------
  uint32_t pick_label_id(bool& valid_hint) {
    unsigned c = unsigned(r.below(100));
    valid_hint = false;
    if (c < 55 && !labels.empty()) { valid_hint = true; return r.pick(labels); }
    if (c < 65) return uint32_t(code.label_count());
    if (c < 72) return uint32_t(code.label_count() + 1 + r.below(8));
    if (c < 80) return Globals::kInvalidId;
    if (c < 90) return r.pick(foreign);                              // label of another holder (id may or may not exist here)
    if (c < 95) return uint32_t(r.next());
    return uint32_t(code.label_count() + 1000 + r.below(100000));
  }
  uint32_t valid_label_id() {
    if (labels.empty()) return 0;
    return r.pick(labels);
  }
  uint32_t weird_reg_id() {
    static const uint32_t ids[] = {16, 17, 24, 31, 32, 33, 39, 40, 63, 64, 127, 255, 256, 257, 0xFFFF, 0x7FFFFFFF, 0xFFFFFFFE, 0xFFFFFFFF};
    unsigned c = unsigned(r.below(100));
    if (c < 45) return uint32_t(r.below(16));
    if (c < 60) return uint32_t(r.below(41));
    if (c < 90) return ids[r.below(sizeof ids / sizeof ids[0])];
    if (c < 95 && !vregs.empty()) return r.pick(vregs) + uint32_t(r.below(3) ? 0 : 1000);
    return uint32_t(r.next());
  }
  int64_t weird_imm() {
    static const int64_t v[] = {0, 1, -1, 7, 8, 15, 16, 31, 32, 63, 64, 127, 128, -128, -129, 255, 256, 4095, 4096, 32767, 32768, 65535, 65536,
      0x7FFFFFFF, 0x80000000ll, 0xFFFFFFFFll, 0x100000000ll, -0x80000000ll, -0x80000001ll, INT64_MAX, INT64_MIN, 0x00FF00FF00FF00FFll, 0xFE00, 0x3F800000};
    if (r.chance(3, 4)) return v[r.below(sizeof v / sizeof v[0])];
    return int64_t(r.next());
  }
  int64_t weird_off() {
    static const int64_t v[] = {0, 1, -1, 4, 8, -8, 16, 127, 128, -128, -129, 255, 256, -256, -257, 504, 512, 1020, 1024, 4095, 4096, 16380, 32760, 32768, 65536,
      1 << 20, -(1 << 20), 0x7FFFFFFF, -0x80000000ll, 0x80000000ll, 0xFFFFFFFFll, 0x123456789All, INT64_MAX, INT64_MIN};
    if (r.chance(4, 5)) return v[r.below(sizeof v / sizeof v[0])];
    return int64_t(r.next());
  }

  // ---- x86: arbitrary operands from public constructors / setters ---------------------------------------------
  Operand x86_rand_reg() {
    static const RegType types[] = {RegType::kGp8Lo, RegType::kGp8Hi, RegType::kGp16, RegType::kGp32, RegType::kGp32, RegType::kGp64, RegType::kGp64,
      RegType::kVec128, RegType::kVec128, RegType::kVec256, RegType::kVec512, RegType::kMask, RegType::kX86_Mm, RegType::kSegment, RegType::kControl,
      RegType::kDebug, RegType::kX86_St, RegType::kX86_Bnd, RegType::kTile, RegType::kPC};
    RegType t = r.chance(1, 12) ? RegType(r.below(32)) : types[r.below(sizeof types / sizeof types[0])];
    Reg reg = Reg::from_type_and_id(t, weird_reg_id());
    if (r.chance(1, 25)) { Operand o(reg); o._signature.set_size(uint32_t(r.below(256))); return o; }
    if (r.chance(1, 40)) { Operand o(reg); o._signature.set_reg_group(RegGroup(r.below(16))); return o; }   // group field over its full 4 bits
    return reg;
  }
  Operand x86_rand_mem() {
    x86::Mem m;
    unsigned c = unsigned(r.below(100));
    if (c < 35) {                                                  // [base (+ index << shift) + disp]
      static const RegType bt[] = {RegType::kGp32, RegType::kGp64, RegType::kGp64, RegType::kGp16, RegType::kGp8Lo, RegType::kVec128, RegType::kPC, RegType::kMask};
      m.set_base(Reg::from_type_and_id(r.chance(1, 15) ? any_base_type() : bt[r.below(8)], weird_reg_id()));
      m.set_offset_lo32(int32_t(weird_off()));
    } else if (c < 60) {                                           // [label + disp]
      m = x86::ptr(Label(mem_label_id()), int32_t(weird_off()));
    } else if (c < 70) {                                           // [rip + disp]
      m = x86::ptr(x86::rip, int32_t(weird_off()));
    } else if (c < 90) {                                           // [abs]
      m = x86::ptr_abs(uint64_t(weird_off()));
      if (r.chance(1, 3)) m.set_addr_rel(); else if (r.chance(1, 3)) m.set_addr_abs();
    } else {                                                       // 16-bit bases
      m = x86::ptr(r.chance(1, 2) ? x86::bx : x86::si, int32_t(weird_off()));
    }
    if (r.chance(2, 5)) {                                          // index (incl. VSIB and garbage types)
      static const RegType it[] = {RegType::kGp32, RegType::kGp64, RegType::kGp64, RegType::kVec128, RegType::kVec256, RegType::kVec512, RegType::kGp16, RegType::kMask};
      m.set_index(Reg::from_type_and_id(r.chance(1, 15) ? RegType(r.below(32)) : it[r.below(8)], weird_reg_id()));
      m.set_shift(uint32_t(r.below(4)));
    }
    static const uint32_t sizes[] = {0, 0, 0, 1, 2, 4, 4, 8, 8, 16, 32, 64, 6, 10, 3, 5, 128, 255};
    m.set_size(sizes[r.below(sizeof sizes / sizeof sizes[0])]);
    if (r.chance(1, 6)) m.set_segment(uint32_t(r.below(8)));                 // full 3-bit range (7 is no segment register)
    if (r.chance(1, 12)) m.set_broadcast(x86::Mem::Broadcast(r.below(8)));   // full 3-bit range (7 is no broadcast)
    if (r.chance(1, 12)) m.set_addr_type(x86::Mem::AddrType(r.below(4)));    // full 2-bit range (3 is no address type)
    return m;
  }
  Operand rand_label_op() { bool v; return Label(pick_label_id(v)); }
  Operand raw_operand() {             // any 32-bit signature through the public Operand_::set_signature()
    unsigned c = unsigned(r.below(3));
    if (c == 0) { Reg g; g.set_id(r.chance(1, 2) ? uint32_t(r.below(64)) : uint32_t(r.next())); g.set_signature(uint32_t(r.next())); return g; }
    if (c == 1) { BaseMem m; m.set_base_id(uint32_t(r.next())); m.set_index_id(uint32_t(r.next())); m.set_offset_lo32(int32_t(r.next())); m.set_signature(uint32_t(r.next())); if (m.has_base_label() && !bad_mem_label_ok()) m.set_base_id(valid_label_id()); return m; }
    Imm i(int64_t(r.next())); i.set_signature(uint32_t(r.next())); return i;
  }
  Operand x86_rand_operand() {
    unsigned c = unsigned(r.below(100));
    if (c < 40) return x86_rand_reg();
    if (c < 68) return x86_rand_mem();
    if (c < 83) { Imm i(weird_imm()); return i; }
    if (c < 93) return rand_label_op();
    if (c < 96) return raw_operand();
    return Operand();
  }
  uint32_t x86_rand_inst_id() {
    static const uint32_t popular[] = {x86::Inst::kIdMov, x86::Inst::kIdAdd, x86::Inst::kIdLea, x86::Inst::kIdJmp, x86::Inst::kIdCall, x86::Inst::kIdJz, x86::Inst::kIdPush,
      x86::Inst::kIdPop, x86::Inst::kIdVaddps, x86::Inst::kIdVgatherdps, x86::Inst::kIdVpgatherdd, x86::Inst::kIdMovs, x86::Inst::kIdCmpxchg, x86::Inst::kIdXchg, x86::Inst::kIdJecxz,
      x86::Inst::kIdLoop, x86::Inst::kIdVmovups, x86::Inst::kIdVfmadd132ps, x86::Inst::kIdImul, x86::Inst::kIdTest, x86::Inst::kIdMovzx, x86::Inst::kIdMovsxd, x86::Inst::kIdEnter,
      x86::Inst::kIdRet, x86::Inst::kIdIn, x86::Inst::kIdOut, x86::Inst::kIdXlatb, x86::Inst::kIdBndmov, x86::Inst::kIdTileloadd, x86::Inst::kIdFld, x86::Inst::kIdVpdpbusd};
    unsigned c = unsigned(r.below(100));
    if (c < 45) return uint32_t(1 + r.below(x86::Inst::_kIdCount - 1));
    if (c < 70) return popular[r.below(sizeof popular / sizeof popular[0])];
    if (c < 76) return 0;
    if (c < 80) return x86::Inst::_kIdCount - 1;
    if (c < 85) return x86::Inst::_kIdCount;
    if (c < 90) return x86::Inst::_kIdCount + 1 + uint32_t(r.below(64));
    if (c < 97) return uint32_t(r.below(65536));
    return uint32_t(r.next());
  }
  uint32_t rand_options() {
    static const uint32_t bits[] = {0x2, 0x4, 0x10, 0x20, 0x40, 0x80, 0x100, 0x200, 0x400, 0x800, 0x1000, 0x2000, 0x4000, 0x8000, 0x10000, 0x20000, 0x40000, 0x80000,
      0x100000, 0x200000, 0x400000, 0x800000, 0x1000000, 0x2000000, 0x4000000, 0x8000000, 0x10000000, 0x20000000, 0x40000000, 0x80000000u, 0x1};
    unsigned c = unsigned(r.below(100));
    if (c < 55) return 0;
    if (c < 80) return bits[r.below(31)];
    if (c < 92) return bits[r.below(31)] | bits[r.below(31)];
    return uint32_t(r.next());
  }
  RegOnly rand_extra() {
    RegOnly x; x.reset();
    unsigned c = unsigned(r.below(100));
    if (c < 70) return x;
    if (c < 85) { x.init(x86::KReg(uint32_t(1 + r.below(7)))); return x; }
    if (c < 90) { x.init(x86::ecx); return x; }
    if (c < 95) { x.init(Reg::from_type_and_id(RegType(r.below(32)), weird_reg_id())); return x; }
    x.init(OperandSignature::from_bits(uint32_t(r.next())), uint32_t(r.next()));
    return x;
  }

  // ---- perturbation of a valid form ----------------------------------------------------------------------------
  void remap_labels(Operand_& o) {       // forms reference label 0 of the harvest holder: give them one of ours
    if (o.is_label()) o._base_id = valid_label_id();
    else if (o.is_mem() && o.as<BaseMem>().has_base_label()) o._base_id = valid_label_id();
  }
  void to_virt(Operand_& o) {            // Compiler: turn physical registers into virtual ones now and then
    if (!cc || vregs.empty()) return;
    if (o.is_reg() && o.as<Reg>().is_gp() && o.as<Reg>().reg_type() >= RegType::kGp32 && r.chance(1, 2)) o._base_id = r.pick(vregs);
    if (o.is_mem() && o.as<BaseMem>().has_base_reg() && r.chance(1, 2)) o._base_id = r.pick(vregs);
  }
  void perturb_x86(Operand_& o) {
    if (kinds_only) {                    // ids / offsets / shifts / segments / immediates / label ids only: operand kinds stay
      if (o.is_reg()) o.as<Reg>().set_id(weird_reg_id());
      else if (o.is_mem()) {
        x86::Mem& m = o.as<x86::Mem>();
        switch (r.below(5)) {
          case 0: m.set_base_id(m.has_base_label() ? mem_label_id() : (m.has_base_reg() ? weird_reg_id() : m.base_id())); break;
          case 1: if (m.has_index()) m.set_index_id(weird_reg_id()); else m.set_offset_lo32(int32_t(weird_off())); break;
          case 2: m.set_shift(uint32_t(r.below(4))); break;
          case 3: if (m.has_base()) m.set_offset_lo32(int32_t(weird_off())); else m.set_offset(weird_off()); break;
          default: m.set_segment(uint32_t(r.below(8))); break;
        }
      }
      else if (o.is_imm()) o.as<Imm>().set_value(weird_imm());
      else if (o.is_label()) { bool v; o._base_id = pick_label_id(v); }
      return;
    }
    if (o.is_reg()) {
      unsigned c = unsigned(r.below(10));
      if (c < 7) o.as<Reg>().set_id(weird_reg_id());
      else { Operand t = x86_rand_reg(); o = t; }
    } else if (o.is_mem()) {
      x86::Mem& m = o.as<x86::Mem>();
      switch (r.below(8)) {
        case 0: m.set_base_id(m.has_base_label() ? mem_label_id() : weird_reg_id()); break;
        case 1: if (m.has_index()) m.set_index_id(weird_reg_id()); else { m.set_index(Reg::from_type_and_id(RegType(r.below(32)), weird_reg_id())); } break;
        case 2: m.set_shift(uint32_t(r.below(4))); break;
        case 3: if (m.has_base()) m.set_offset_lo32(int32_t(weird_off())); else m.set_offset(weird_off()); break;
        case 4: m.set_size(uint32_t(r.below(2) ? r.below(256) : (1u << r.below(7)))); break;
        case 5: switch (r.below(4)) {
                  case 0: m.set_broadcast(x86::Mem::Broadcast(r.below(8))); break;
                  case 1: m.set_addr_type(x86::Mem::AddrType(r.below(4))); break;
                  default: m.set_segment(uint32_t(r.below(8))); break;
                } break;
        case 6: m = x86::ptr(Label(mem_label_id()), int32_t(weird_off())); break;
        default: m.set_base_type(any_base_type()); break;
      }
    } else if (o.is_imm()) {
      o.as<Imm>().set_value(weird_imm());
    } else if (o.is_label()) {
      bool v; o._base_id = pick_label_id(v);
    }
  }
  // AArch64: operand KINDS (operand type, register type, memory base/index type) are kept
  void perturb_a64(Operand_& o) {
    static const uint32_t ids[] = {0, 1, 15, 16, 29, 30, 31, 31, 63, 63, 255, 32, 64, 0xFFFFFFFF};
    auto rid = [&]() -> uint32_t { return r.chance(1, 2) ? uint32_t(r.below(32)) : ids[r.below(sizeof ids / sizeof ids[0])]; };
    if (o.is_reg()) {
      if (o.as<Reg>().is_vec() && r.chance(1, 2)) {
        a64::Vec& v = o.as<a64::Vec>();
        switch (a64_elem_ok() ? r.below(4) : (cc ? 2 : 1 + r.below(2))) {
          case 0: v.set_element_type(a64::VecElementType(r.below(8))); break;
          case 1: v.set_element_index(uint32_t(r.below(16))); break;
          case 2: v.reset_element_index(); break;
          default: v.set_element_type(a64::VecElementType(r.below(8))); v.set_element_index(uint32_t(r.below(16))); break;
        }
      } else o.as<Reg>().set_id(rid());
    } else if (o.is_mem()) {
      a64::Mem& m = o.as<a64::Mem>();
      switch (r.below(7)) {
        case 0: if (m.has_base_label()) { bool v; m.set_base_id(pick_label_id(v)); } else m.set_base_id(rid()); break;
        case 1: if (m.has_index()) m.set_index_id(rid()); else m.set_offset(weird_off()); break;
        case 2: m.set_offset(weird_off()); break;
        case 3: m.set_shift(uint32_t(r.below(32))); break;
        case 4: m.set_shift_op(a64::ShiftOp(r.below(16))); break;
        case 5: m.set_offset_mode(a64::OffsetMode(r.below(4))); break;
        default: m.set_offset(int64_t(int32_t(r.next())) >> r.below(24)); break;
      }
    } else if (o.is_imm()) {
      if (r.chance(1, 5)) o.as<Imm>().set_predicate(uint32_t(r.below(16)));
      else o.as<Imm>().set_value(r.chance(1, 2) ? weird_imm() : int64_t(r.below(70)) - 2);
    } else if (o.is_label()) {
      bool v; o._base_id = pick_label_id(v);
    } else if (o.is_reg_list()) {
      o._base_id = uint32_t(r.next());
    }
  }

  // ---- one instruction call -----------------------------------------------------------------------------------
  //  lbloff64: 64-bit [label + disp] with disp within 16 of INT32_MIN            (x86assembler.cpp: rel_offset -= 4 + imm_size)
  //  mem16off: 16-bit base/index with a negative or > 32767 displacement      (x86assembler.cpp: int32 << 16)
  //  a64 Compiler: element index perturbation only in a64elem                     (a64instapi.cpp query_rw_info shift)
  void isolate(Operand_* ops, size_t n) {
    for (size_t i = 0; i < n; i++) {
      Operand_& o = ops[i];
      //  regsize: x86 Compiler: register operand whose signature size field is > 64     (x86instapi.cpp query_rw_info: lsb_mask(size))
      if (cc && is_x86 && mode != "regsize" && o.is_reg() && o.x86_rm_size() > 64) o._signature.set_size(64);
      if (!o.is_mem()) continue;
      BaseMem& m = o.as<BaseMem>();
      if (arch == Arch::kX64 && mode != "lbloff64" && m.has_base_label() && m.offset_lo32() < INT32_MIN + (1 << 24))
        m.set_offset_lo32(INT32_MIN + (1 << 24));
      if (is_x86 && mode != "mem16off" && (m.base_type() == RegType::kGp16 || m.index_type() == RegType::kGp16) && (m.offset_lo32() < 0 || m.offset_lo32() > 32767))
        m.set_offset_lo32(m.offset_lo32() & 0x7FFF);
    }
  }
  void emit_tuple(uint32_t id, uint32_t opts, const RegOnly& x, const char* cmt, Operand_* ops, size_t n, const char* src) {
    isolate(ops, n);
    std::string in = describe(id, opts, x, cmt != nullptr, ops, n, src);
    if (will_skip()) { call("inst", in, [&]() -> uint32_t { return 1; }); return; }
    // does the request carry a virtual register id (register operand, memory base register, memory index register)?
    // The Builder looks at the operands the way EmitterUtils::op_count_from_emit_args() counts them: when operand 3 is none,
    // operands 4 and 5 are not part of the request (a trailing list after a gap is dropped by convention); vr and the shadow
    // request are taken over exactly that effective list.
    size_t n_eff = 0;
    if (n > 3 && !ops[3].is_none()) n_eff = (n > 4 && !ops[4].is_none()) ? ((n > 5 && !ops[5].is_none()) ? 6 : 5) : 4;
    else { for (size_t i = 0; i < n && i < 3; i++) if (!ops[i].is_none()) n_eff = i + 1; }
    // fr: a small operand field holds a value outside its documented range (x86 memory operand: segment id 7 - SReg ids are
    // 0..6; broadcast 7 - Broadcast is kNone..k1To64 = 0..6)
    int fr = 0;
    if (is_x86) for (size_t i = 0; i < n_eff; i++) {
      if (!ops[i].is_mem()) continue;
      const x86::Mem& m = ops[i].as<x86::Mem>();
      if (m.segment_id() > 6 || uint32_t(m.get_broadcast()) > 6) fr = 1;
    }
    int vr = 0;
    for (size_t i = 0; i < n_eff; i++) {
      const Operand_& o = ops[i];
      if (o.is_reg() && o.id() >= Operand::kVirtIdMin) vr = 1;
      if (o.is_mem()) {
        const BaseMem& m = o.as<BaseMem>();
        if (uint32_t(m.base_type()) > uint32_t(RegType::kLabelTag) && m.base_id() >= Operand::kVirtIdMin) vr = 1;
        if (m.index_type() != RegType::kNone && m.index_id() >= Operand::kVirtIdMin) vr = 1;
      }
    }
    uint32_t sh = 0;
    em->set_inst_options(InstOptions(opts));
    em->set_extra_reg(x);
    em->set_inline_comment(cmt);
    char xj[96]; snprintf(xj, sizeof xj, ",\"vr\":%d,\"fr\":%d", vr, fr); extra_json = xj;
    if (next_di) { extra_json += ",\"di\":1"; next_di = 0; }
    if (twin_rcs && call_idx < twin_rcs->size() && (*twin_rcs)[call_idx] != 0xFFFFFFFFu) { snprintf(xj, sizeof xj, ",\"tw\":%u", (*twin_rcs)[call_idx]); extra_json += xj; }
    // the shadow result is needed inside the event: run the call through a small wrapper that fills it in afterwards
    uint32_t rc_main = 0;
    auto shadow = [&]() {
      if (!sh_asm || ref_pass || rc_main != 0) return;
      while (sh_code.label_count() < code.label_count()) sh_asm->new_label();
      sh_asm->set_inst_options(InstOptions(opts)); sh_asm->set_extra_reg(x);
      Error e2 = sh_asm->_emit_op_array(id, ops, n_eff);
      sh_asm->reset_state();
      // refusals that depend on the holder state of the shadow (label distances, label table, memory) carry no information
      if (e2 != Error::kOk && e2 != Error::kInvalidDisplacement && e2 != Error::kInvalidLabel && e2 != Error::kLabelAlreadyBound &&
          e2 != Error::kOutOfMemory && e2 != Error::kTooLarge && e2 != Error::kInvalidState) sh = uint32_t(e2);
      if (sh_code.text_section()->buffer_size() > (1u << 16)) { sh_code.reset(); sh_code.init(Environment(arch)); sh_code.attach(sh_asm.get()); sh_asm->add_diagnostic_options(DiagnosticOptions::kValidateAssembler); }
    };
    call("inst", in, [&]() -> uint32_t {
      rc_main = 1;                       // stays 1 when the call throws
      rc_main = uint32_t(em->_emit_op_array(id, ops, n));
      shadow();
      char sj[32]; snprintf(sj, sizeof sj, ",\"sh\":%u", sh); extra_json += sj;
      return rc_main; });
  }
  const char* rand_comment() { return r.chance(1, 8) ? "c14 inline comment" : nullptr; }

  void inst_random_x86() {
    Operand_ ops[6];
    size_t n = size_t(r.below(7));
    if (r.chance(1, 2)) n = size_t(r.below(4));
    for (size_t i = 0; i < n; i++) { Operand o = x86_rand_operand(); ops[i] = o; }
    emit_tuple(x86_rand_inst_id(), rand_options(), rand_extra(), rand_comment(), ops, n, "tuple");
  }
  void inst_from_form(bool want_valid) {
    const std::vector<Form>& forms = is_x86 ? g_forms_x86 : g_forms_a64;
    const Form& f = forms[r.below(forms.size())];
    Operand_ ops[6];
    for (uint32_t i = 0; i < f.n; i++) { ops[i] = f.op[i]; remap_labels(ops[i]); to_virt(ops[i]); }
    uint32_t id = f.inst_id, opts = f.options; RegOnly x = f.extra; size_t n = f.n;
    const char* src = "form";
    if (!want_valid) {
      src = "pert";
      unsigned k = 1 + unsigned(r.below(2));
      for (unsigned j = 0; j < k; j++) {
        unsigned c = unsigned(r.below(100));
        if (c < 70 && n > 0) { Operand_& o = ops[r.below(n)]; if (is_x86) perturb_x86(o); else perturb_a64(o); }
        else if (c < 78) {                                              // instruction id out of range (both archs)
          static const uint32_t bad_x86[] = {0, x86::Inst::_kIdCount, x86::Inst::_kIdCount + 1, 0xFFFF, 0x12345678, 0xFFFFFFFF};
          static const uint32_t bad_a64[] = {0, a64::Inst::_kIdCount, a64::Inst::_kIdCount + 1, 0xFFFF, 0x7FFFFFF, 0xFFFFFFFF};
          id = is_x86 ? bad_x86[r.below(6)] : bad_a64[r.below(6)];
        }
        else if (c < 88 && is_x86) opts = rand_options();
        else if (c < 90 && !is_x86) {                                   // a64: every condition code on any instruction (valid only on b)
          id = BaseInst::compose_arm_inst_id(id & uint32_t(InstIdParts::kRealId), arm::CondCode(r.below(16)));
        }
        else if (kinds_only) { if (n > 0) perturb_x86(ops[r.below(n)]); }
        else if (c < 94 && is_x86) x = rand_extra();
        else if (is_x86 && n < 6) { Operand o = x86_rand_operand(); ops[n++] = o; }  // one operand too many
        else if (n > 0 && is_x86) n--;                                          // one operand too few
        else if (n > 0) perturb_a64(ops[r.below(n)]);
      }
    }
    emit_tuple(id, opts, x, rand_comment(), ops, n, src);
  }

  // ---- the other calls ------------------------------------------------------------------------------------------
  void c_new_label() {
    call("newlabel", "", [&]() -> uint32_t { Label L = em->new_label(); if (L.is_valid()) { labels.push_back(L.id()); return 0; } return h.codes.empty() ? 0xFFFFu : h.codes[0]; });
  }
  void c_named_label() {
    char nm[300]; size_t sz = SIZE_MAX; LabelType t = LabelType::kGlobal; uint32_t parent = Globals::kInvalidId;
    unsigned c = unsigned(r.below(100));
    snprintf(nm, sizeof nm, "L%u", named);
    if (c < 35) named++;                                                 // fresh global name
    else if (c < 55) { if (named) snprintf(nm, sizeof nm, "L%u", unsigned(r.below(named))); }   // duplicate
    else if (c < 62) { nm[0] = 0; sz = 0; }                               // empty name
    else if (c < 72) { t = LabelType::kLocal; bool v; parent = pick_label_id(v); snprintf(nm, sizeof nm, "loc%u", unsigned(r.below(4))); }
    else if (c < 80) { t = LabelType::kLocal; parent = Globals::kInvalidId; }
    else if (c < 86) { t = LabelType(r.below(2) ? 7 : r.below(256)); named++; }
    else if (c < 92) { memset(nm, 'x', 299); nm[299] = 0; sz = size_t(r.below(300)); nm[0] = char('a' + r.below(26)); }
    else if (c < 96) { t = LabelType::kGlobal; parent = valid_label_id(); named++; }             // global with a parent
    else { t = LabelType::kExternal; named++; }
    char in[96]; snprintf(in, sizeof in, "name=%.24s size=%zd type=%u parent=%u", nm, ssize_t(sz), unsigned(t), parent);
    // documented-invalid parent: a local label needs an existing label as its parent, global/external labels take none
    if ((t == LabelType::kLocal && parent >= code.label_count()) ||
        ((t == LabelType::kGlobal || t == LabelType::kExternal) && parent != Globals::kInvalidId)) extra_json = ",\"di\":1";
    call("named", in, [&]() -> uint32_t { Label L = em->new_named_label(nm, sz, t, parent); if (L.is_valid()) { labels.push_back(L.id()); return 0; } return h.codes.empty() ? 0xFFFFu : h.codes[0]; });
  }
  void c_bind() {
    bool v; uint32_t id = pick_label_id(v);
    char in[48]; snprintf(in, sizeof in, "label=%u", id);
    call("bind", in, [&]() -> uint32_t { return uint32_t(em->bind(Label(id))); });
  }
  void c_align() {
    static const uint32_t al[] = {0, 1, 2, 4, 8, 16, 32, 64, 3, 5, 6, 12, 24, 48, 100, 128, 1u << 20, 1u << 26, 1u << 27, 0x80000000u, 0xFFFFFFFFu};
    uint32_t a = al[r.below(sizeof al / sizeof al[0])];
    if (a > 64 && a <= (1u << 27) && (a & (a - 1)) == 0 && !r.chance(1, 6)) a = 16;   // valid huge alignments only rarely (they really grow the buffer)
    uint32_t m = r.chance(1, 5) ? uint32_t(3 + r.below(253)) : uint32_t(r.below(3));
    char in[48]; snprintf(in, sizeof in, "mode=%u alignment=%u", m, a);
    call("align", in, [&]() -> uint32_t { return uint32_t(em->align(AlignMode(m), a)); });
  }
  void c_embed() {
    size_t n = r.chance(1, 4) ? 0 : size_t(r.below(40));
    const void* p = (n == 0 && r.chance(1, 2)) ? nullptr : databuf;
    char in[48]; snprintf(in, sizeof in, "data=%s size=%zu", p ? "buf" : "null", n);
    call("embed", in, [&]() -> uint32_t { return uint32_t(em->embed(p, n)); });
  }
  void c_embed_array() {
    uint32_t t = r.chance(1, 2) ? uint32_t(TypeId::kInt8) + uint32_t(r.below(12)) : uint32_t(r.below(256));
    size_t cnt = size_t(r.below(6)), rep = size_t(r.below(4));
    if (!bb && r.chance(1, 12)) { cnt = SIZE_MAX / 2; rep = 4; }   // (Builder: would only exercise allocation failure = C15)
    // size of one item as the API defines it (0 = not a valid data type: the call must fail anyway)
    auto size_of_type = [&](uint32_t tt) -> size_t {
      TypeId f = TypeUtils::deabstract(TypeId(tt), TypeUtils::deabstract_delta_of_size(em->register_size() ? em->register_size() : (arch == Arch::kX86 ? 4u : 8u)));
      return TypeUtils::is_valid(f) ? size_t(TypeUtils::size_of(f)) : 0; };
    if (!bb && r.chance(1, 4)) {                                     // boundary item counts: item_count * size at / beyond SIZE_MAX, 2^63
      static const uint32_t tys[] = {uint32_t(TypeId::kInt8), uint32_t(TypeId::kUInt16), uint32_t(TypeId::kInt32), uint32_t(TypeId::kUInt64), uint32_t(TypeId::kFloat32),
                                     uint32_t(TypeId::kFloat64), uint32_t(TypeId::kInt32x4), uint32_t(TypeId::kFloat64x4), uint32_t(TypeId::kInt8x64), uint32_t(TypeId::kIntPtr)};
      t = tys[r.below(10)];
      size_t sz = size_of_type(t); if (!sz) sz = 1;
      // only requests whose exact size is >= 2^64 (the product wraps): sizes in [2^31, 2^64) would exercise buffer growth
      // with astronomic sizes, which is allocation-failure territory (C15), not argument validation
      // (repeat 2^63 only together with a non-wrapping item size: a defect that wraps item_count * size to 0 would otherwise
      // spin 2^63 times over nothing - a timeout tells less than a wrong result)
      rep = 1 + r.below(2);
      switch (r.below(4)) {
        case 0: cnt = SIZE_MAX / sz + 1; break;
        case 1: cnt = SIZE_MAX / sz + 2; break;                      // wraps to about one item
        case 2: cnt = SIZE_MAX / sz + 1 + r.below(4); break;
        default: cnt = SIZE_MAX / sz; rep = r.chance(1, 2) ? 2 : SIZE_MAX / 2 + 1; break;
      }
      // (harness arithmetic wraps too, e.g. SIZE_MAX / 1 + 2 == 1): whatever is left below 2^64 becomes 3 x size x 2^63.
      // A non-wrapping astronomic size (>= ~2^40) makes CodeHolder::grow_buffer() step through the range in 16 MiB
      // increments - practically a hang; reported as a lead, not generated.
      if ((((unsigned __int128)cnt * sz * rep) >> 64) == 0) { cnt = 3; rep = SIZE_MAX / 2 + 1; }
    }
    // exact size of the request as integers (no wrap): ew = 1 when it does not fit 2^31 (then an accepted call is wrong)
    size_t sz = size_of_type(t);
    unsigned __int128 exact = (unsigned __int128)cnt * sz * rep;
    int ew = exact >= ((unsigned __int128)1 << 31) ? 1 : 0;
    char xj[64]; snprintf(xj, sizeof xj, ",\"ew\":%d,\"eb\":%u", ew, ew ? 0u : unsigned(exact));
    char in[96]; snprintf(in, sizeof in, "type=%u count=%zu repeat=%zu", t, cnt, rep);
    extra_json = xj;
    call("earr", in, [&]() -> uint32_t { return uint32_t(em->embed_data_array(TypeId(t), databuf, cnt, rep)); });
  }
  void c_embed_label() {
    bool v; uint32_t id = pick_label_id(v);
    static const size_t sz[] = {0, 1, 2, 4, 8, 3, 5, 16, 255, 1u << 20};
    size_t n = sz[r.below(r.chance(2, 3) ? 5 : 10)];
    char in[48]; snprintf(in, sizeof in, "label=%u size=%zu", id, n);
    call("elabel", in, [&]() -> uint32_t { return uint32_t(em->embed_label(Label(id), n)); });
  }
  void c_embed_delta() {
    bool v; uint32_t a = pick_label_id(v), b = r.chance(1, 2) ? valid_label_id() : pick_label_id(v);
    static const size_t sz[] = {0, 1, 2, 4, 8, 3, 5, 16, 255, 1u << 20};
    size_t n = sz[r.below(r.chance(2, 3) ? 5 : 10)];
    char in[64]; snprintf(in, sizeof in, "label=%u base=%u size=%zu", a, b, n);
    call("edelta", in, [&]() -> uint32_t { return uint32_t(em->embed_label_delta(Label(a), Label(b), n)); });
  }
  void c_section() {
    unsigned c = unsigned(r.below(100));
    Section* s = c < 35 ? code.text_section() : c < 65 ? sec2 : c < 80 ? foreign_sec : c < 92 ? foreign_sec_hi : other.text_section();
    const char* what = c < 35 ? "text" : c < 65 ? "own2" : c < 80 ? "foreign-id2" : c < 92 ? "foreign-id6" : "foreign-text";
    call("section", what, [&]() -> uint32_t { return uint32_t(em->section(s)); });
  }
  void c_comment() {
    call("comment", "", [&]() -> uint32_t { return uint32_t(em->comment("c14 comment", r.chance(1, 2) ? SIZE_MAX : 3)); });
  }
  void c_new_vreg() {
    uint32_t t = r.chance(2, 3) ? uint32_t(r.chance(1, 2) ? TypeId::kInt32 : TypeId::kIntPtr) : uint32_t(r.below(256));
    char in[32]; snprintf(in, sizeof in, "type=%u", t);
    call("newreg", in, [&]() -> uint32_t { Reg out; Error e = cc->_new_reg_with_name(Out<Reg>(out), TypeId(t), nullptr); if (e == Error::kOk) vregs.push_back(out.id()); return uint32_t(e); });
  }
  void c_func_begin() {
    call("addfunc", "", [&]() -> uint32_t { FuncNode* f = nullptr; Error e = cc->add_func_node(Out(f), FuncSignature::build<int, int, int>()); if (e == Error::kOk) in_func = true; return uint32_t(e); });
  }
  void c_func_end() {
    call("endfunc", "", [&]() -> uint32_t { return uint32_t(cc->end_func()); });
    in_func = false;
  }

  // An out-of-range short reference: reference to a fresh label with a narrow displacement field, then padding beyond its
  // range, then bind().  Assembler: the bind is refused (InvalidDisplacement) and leaves a detached fixup behind that the
  // consumers of the holder (resolve_cross_section_fixups, JitRuntime::add) walk later.  Builder: surfaces at finalize.
  void c_shortref() {
    c_new_label();
    if (labels.empty()) return;
    uint32_t L = labels.back();
    Operand_ ops[3]; Operand lab = Label(L);
    if (is_x86) {
      unsigned c = unsigned(r.below(3));
      if (c == 0) { ops[0] = lab; emit_tuple(x86::Inst::kIdJmp, uint32_t(InstOptions::kShortForm), RegOnly{}, nullptr, ops, 1, "shortref"); }
      else if (c == 1) { Operand cx = x86::ecx; ops[0] = cx; ops[1] = lab; emit_tuple(x86::Inst::kIdJecxz, 0, RegOnly{}, nullptr, ops, 2, "shortref"); }
      else { ops[0] = lab; emit_tuple(x86::Inst::kIdLoop, 0, RegOnly{}, nullptr, ops, 1, "shortref"); }
    } else {
      Operand w0 = a64::w(uint32_t(r.below(8))); Operand bit = Imm(1); ops[0] = w0; ops[1] = bit; ops[2] = lab;
      emit_tuple(a64::Inst::kIdTbz, 0, RegOnly{}, nullptr, ops, 3, "shortref");
    }
    static std::vector<uint8_t> pad(40000, 0x90);
    size_t n = is_x86 ? size_t(130 + r.below(100)) : size_t(32768 + 4 * r.below(8));
    char in[48]; snprintf(in, sizeof in, "data=pad size=%zu", n);
    call("embed", in, [&]() -> uint32_t { return uint32_t(em->embed(pad.data(), n)); });
    char in2[48]; snprintf(in2, sizeof in2, "label=%u", L);
    call("bind", in2, [&]() -> uint32_t { return uint32_t(em->bind(Label(L))); });
  }

  // AArch64 Assembler: word-scaled pc-relative reference to a label bound in this section at a misaligned distance
  void c_misref() {
    if (is_x86 || emk != 0) return;
    c_new_label();
    if (labels.empty()) return;
    uint32_t L = labels.back();
    char in2[48]; snprintf(in2, sizeof in2, "label=%u", L);
    call("bind", in2, [&]() -> uint32_t { return uint32_t(em->bind(Label(L))); });
    if (!code.is_label_bound(L)) return;
    static const uint8_t z[8] = {0};
    unsigned c = unsigned(r.below(6));
    size_t n = c < 3 ? size_t(1 + r.below(3)) + 4 * size_t(r.below(3)) : 4 * size_t(r.below(3));   // misaligned distance, or aligned + misaligned offset
    if (n) { char in[48]; snprintf(in, sizeof in, "data=z size=%zu", n); call("embed", in, [&]() -> uint32_t { return uint32_t(em->embed(z, n)); }); }
    Operand_ ops[3]; Operand lab = Label(L);
    Operand w0 = a64::w(uint32_t(r.below(8))); Operand x0 = a64::x(uint32_t(r.below(8))); Operand bit = Imm(1);
    next_di = 1;
    switch (c) {
      case 0: ops[0] = lab; emit_tuple(r.chance(1, 2) ? a64::Inst::kIdB : a64::Inst::kIdBl, 0, RegOnly{}, nullptr, ops, 1, "misref"); break;
      case 1: ops[0] = w0; ops[1] = lab; emit_tuple(r.chance(1, 2) ? a64::Inst::kIdCbz : a64::Inst::kIdCbnz, 0, RegOnly{}, nullptr, ops, 2, "misref"); break;
      case 2: ops[0] = w0; ops[1] = bit; ops[2] = lab; emit_tuple(a64::Inst::kIdTbz, 0, RegOnly{}, nullptr, ops, 3, "misref"); break;
      default: {
        Operand m = a64::ptr(Label(L), int32_t(1 + r.below(3)) + 4 * int32_t(r.below(4)));
        ops[0] = c == 3 ? w0 : x0; ops[1] = m;
        emit_tuple(c == 5 ? a64::Inst::kIdLdrsw : a64::Inst::kIdLdr, 0, RegOnly{}, nullptr, ops, 2, "misref"); break;
      }
    }
    next_di = 0;
  }

  // ---- finishing phase: the consumers of the holder state ------------------------------------------------------------
  struct FinObs { uint32_t style = 0, r1 = 0, r2 = 0, r3 = 0, unres = 0, nl = 0, nb = 0, gf = 0, gb = 0, nsec = 0, total = 0, dg = 0; };
  FinObs finish_phase() {
    FinObs o; o.style = uint32_t(fin_style);
    g_pending = std::string(arch_name(arch)) + "/" + (emk == 0 ? "asm" : emk == 1 ? "builder" : "compiler") + (ref_pass ? " finish (reference pass)" : " finish") + " style=" + std::to_string(fin_style);
    if (fin_style < 2) {
      o.r1 = uint32_t(code.flatten());
      o.r2 = uint32_t(code.resolve_cross_section_fixups());
      if (fin_style == 1) o.r3 = uint32_t(code.relocate_to_base(0x70000000u));
    } else {                                                   // JitRuntime::add = flatten + resolve + allocate + relocate + copy
      static JitRuntime rt; void* fn = nullptr;
      o.r3 = uint32_t(rt._add(&fn, &code));
      if (fn) rt._release(fn);
    }
    Proj p = proj();
    o.unres = uint32_t(p.nf); o.nl = uint32_t(p.nl); o.nb = uint32_t(p.nb); o.gf = uint32_t(p.gf); o.gb = uint32_t(p.gb); o.nsec = uint32_t(p.ss.size());
    uint32_t hsh = 2166136261u;
    for (size_t i = 0; i < p.ss.size(); i++) { o.total += uint32_t(p.ss[i]); hsh = fnv(reinterpret_cast<const uint8_t*>(&p.sd[i]), 4, hsh); }
    o.dg = fin_style == 2 ? 0 : d31(hsh);                      // after JitRuntime::add the bytes depend on the allocated address
    return o;
  }
  static void put_fin(std::string& s, const char* k, const FinObs& o) {
    char c[200]; snprintf(c, sizeof c, "\"%s\":[%u,%u,%u,%u,%u,%u,%u,%u,%u,%u,%u,%u]", k, o.style, o.r1, o.r2, o.r3, o.unres, o.nl, o.nb, o.gf, o.gb, o.nsec, o.total, o.dg); s += c;
  }
  void finish_event(const FinObs& u, const FinObs& f, bool cmp) {
    std::string s = "{\"e\":\"Finish\",\"cmp\":"; s += cmp ? "true" : "false"; s += ",";
    put_fin(s, "u", u); s += ","; put_fin(s, "f", f); s += ",";
    put_proj(s, proj()); s += ","; put_os(s, "os"); s += "}\n";
    fputs(s.c_str(), g_out);
  }

  void other_call() {
    unsigned c = unsigned(r.below(100));
    if (cc && c < 12) return c_new_vreg();
    if (c < 18) return c_new_label();
    if (c < 32) return c_named_label();
    if (c < 50) return c_bind();
    if (c < 62) return c_align();
    if (c < 70) return c_embed();
    if (c < 78) return c_embed_array();
    if (c < 86) return c_embed_label();
    if (c < 92) return c_embed_delta();
    if (c < 97) return c_section();
    return c_comment();
  }
  // calls that are (almost) certain to fail: used by fail-only executions (FreshEquivalent on bytes for Builder/Compiler)
  void failing_call() {
    unsigned c = unsigned(r.below(100));
    if (c < 50) {
      Operand_ ops[6]; size_t n = 1 + size_t(r.below(4));
      for (size_t i = 0; i < n; i++) { Operand o = is_x86 ? x86_rand_operand() : raw_operand(); ops[i] = o; }
      uint32_t id = r.chance(1, 2) ? 0 : (is_x86 ? x86::Inst::_kIdCount : a64::Inst::_kIdCount) + uint32_t(r.below(100));
      emit_tuple(id, is_x86 ? rand_options() : 0, is_x86 ? rand_extra() : RegOnly{}, rand_comment(), ops, n, "tuple");
    }
    else if (c < 60) { char in[48]; uint32_t id = uint32_t(code.label_count() + r.below(9)); snprintf(in, sizeof in, "label=%u", id); call("bind", in, [&]() -> uint32_t { return uint32_t(em->bind(Label(id))); }); }
    else if (c < 70) { call("align", "mode=0 alignment=3", [&]() -> uint32_t { return uint32_t(em->align(AlignMode::kCode, 3)); }); }
    else if (c < 80) { call("earr", "type=0 count=2 repeat=1", [&]() -> uint32_t { return uint32_t(em->embed_data_array(TypeId::kVoid, databuf, 2, 1)); }); }
    else if (c < 90) { call("elabel", "label=valid size=3", [&]() -> uint32_t { return uint32_t(em->embed_label(Label(uint32_t(code.label_count() + 2)), 3)); }); }
    else { call("section", "foreign-id6", [&]() -> uint32_t { return uint32_t(em->section(foreign_sec_hi)); }); }
  }

  // ---- FreshEquivalent probe --------------------------------------------------------------------------------------
  // A fixed valid program.  Observation: first error, number and digest of the appended bytes (Assembler) or of the
  // appended nodes (Builder/Compiler; label ids relative to the first probe label), labels/relocs/fixups created.
  static uint32_t probe_program(BaseEmitter* e, bool x86arch) {
    uint32_t err = 0;
    auto chk = [&](Error x) { if (x != Error::kOk && !err) err = uint32_t(x); };
    Label L1 = e->new_label(), L2 = e->new_label();
    static const uint8_t data[4] = {0xDE, 0xAD, 0xBE, 0xEF};
    if (x86arch) {
      x86::Emitter* x = e->as<x86::Emitter>();
      chk(x->mov(x86::eax, 1));
      chk(x->bind(L1));
      chk(x->add(x86::eax, x86::ecx));
      chk(x->jz(L2));
      chk(x->lea(x86::eax, x86::ptr(x86::eax, x86::ecx, 1, 16)));
      chk(x->movups(x86::xmm1, x86::ptr(x86::esp, 32)));
      chk(x->dec(x86::ecx));
      chk(x->jnz(L1));
      chk(x->bind(L2));
      chk(x->embed(data, 4));
      chk(x->ret());
    } else {
      a64::Emitter* a = e->as<a64::Emitter>();
      chk(a->mov(a64::w0, 1));
      chk(a->bind(L1));
      chk(a->add(a64::w0, a64::w0, a64::w1));
      chk(a->cbz(a64::w0, L2));
      chk(a->ldr(a64::x2, a64::ptr(a64::x3, 16)));
      chk(a->add(a64::v0.s4(), a64::v1.s4(), a64::v2.s4()));
      chk(a->b(L1));
      chk(a->bind(L2));
      chk(a->embed(data, 4));
      chk(a->ret(a64::x30));
    }
    return err;
  }
  static uint32_t node_digest(BaseNode* first, BaseNode* stop, uint32_t label_base, uint32_t& count) {
    uint32_t hsh = 2166136261u; count = 0;
    for (BaseNode* n = first; n && n != stop; n = n->next()) {
      count++;
      uint32_t w[4] = {uint32_t(n->type()), 0, 0, 0};
      if (n->is_inst()) {
        InstNode* in = n->as<InstNode>();
        w[1] = in->inst_id(); w[2] = uint32_t(in->options()); w[3] = in->op_count();
        hsh = fnv(reinterpret_cast<const uint8_t*>(w), sizeof w, hsh);
        uint32_t xr[2] = {in->extra_reg().signature().bits(), in->extra_reg().id()};
        hsh = fnv(reinterpret_cast<const uint8_t*>(xr), sizeof xr, hsh);
        uint32_t cm = in->inline_comment() ? 1 : 0;
        hsh = fnv(reinterpret_cast<const uint8_t*>(&cm), 4, hsh);
        for (uint32_t i = 0; i < in->op_count(); i++) {
          Operand_ o = in->op(i);
          if (o.is_label() || (o.is_mem() && o.as<BaseMem>().has_base_label())) o._base_id -= label_base;
          uint32_t ow[4] = {o._signature.bits(), o._base_id, o._data[0], o._data[1]};
          hsh = fnv(reinterpret_cast<const uint8_t*>(ow), sizeof ow, hsh);
        }
      } else if (n->is_label()) {
        w[1] = n->as<LabelNode>()->label_id() - label_base;
        hsh = fnv(reinterpret_cast<const uint8_t*>(w), sizeof w, hsh);
      } else if (n->is_embed_data()) {
        EmbedDataNode* d = n->as<EmbedDataNode>();
        hsh = fnv(d->data(), d->data_size(), hsh);
      } else hsh = fnv(reinterpret_cast<const uint8_t*>(w), sizeof w, hsh);
      if (count > 64) break;
    }
    return d31(hsh);
  }
  static ProbeObs observe_probe(BaseEmitter* e, CodeHolder& c, bool x86arch, int emk_) {
    ProbeObs o;
    size_t l0 = c.label_count(), r0 = c.reloc_entries().size(), f0 = c.unresolved_fixup_count();
    if (emk_ == 0) {
      BaseAssembler* a = static_cast<BaseAssembler*>(e);
      Section* s = a->current_section(); size_t s0 = s->buffer_size();
      try { o.err = probe_program(e, x86arch); } catch (const EmitError& x) { o.err = 0x10000u + uint32_t(x.code); }
      size_t s1 = s->buffer_size();
      o.n = uint32_t(s1 - s0); o.dg = d31(fnv(s->data() + s0, s1 - s0));
    } else {
      BaseBuilder* b = static_cast<BaseBuilder*>(e);
      BaseNode* cur = b->cursor();
      BaseNode* after = cur ? cur->next() : nullptr;
      try { o.err = probe_program(e, x86arch); } catch (const EmitError& x) { o.err = 0x10000u + uint32_t(x.code); }
      // nodes appended between the old cursor and the node that followed it
      BaseNode* first = cur ? cur->next() : b->first_node();
      uint32_t cnt = 0;
      o.dg = node_digest(first, after, uint32_t(l0), cnt);
      o.n = cnt;
    }
    o.dl = uint32_t(c.label_count() - l0); o.dr = uint32_t(c.reloc_entries().size() - r0); o.df = uint32_t(c.unresolved_fixup_count() - f0);
    return o;
  }
  static void put_obs(std::string& s, const char* k, const ProbeObs& o) {
    char c[128]; snprintf(c, sizeof c, "\"%s\":[%u,%u,%u,%u,%u,%u]", k, o.err, o.n, o.dg, o.dl, o.dr, o.df); s += c;
  }
  ProbeObs fresh_probe() {
    CodeHolder fc; fc.init(Environment(arch));
    Section* s2 = nullptr; fc.new_section(Out(s2), ".data2", SIZE_MAX, SectionFlags::kNone, 8);
    StringLogger flg; if (logger_on) fc.set_logger(&flg);
    std::unique_ptr<BaseEmitter> fe;
    if (emk == 0) { if (is_x86) fe.reset(new x86::Assembler()); else fe.reset(new a64::Assembler()); }
    else if (emk == 1) { if (is_x86) fe.reset(new x86::Builder()); else fe.reset(new a64::Builder()); }
    else { if (is_x86) fe.reset(new x86::Compiler()); else fe.reset(new a64::Compiler()); }
    fc.attach(fe.get());
    fe->add_diagnostic_options(diag);
    ProbeObs o = observe_probe(fe.get(), fc, is_x86, emk);
    fc.detach(fe.get());
    return o;
  }
  void probe() {
    if (!attached) return;
    if (ref_pass || twin_pass) { h.codes.clear(); observe_probe(em, code, is_x86, emk); return; }
    g_pending = "probe";
    h.codes.clear();
    ProbeObs u = observe_probe(em, code, is_x86, emk);
    ProbeObs f = fresh_probe();
    // the probe's own labels join the pool (they are bound)
    std::string s = "{\"e\":\"Probe\",";
    put_obs(s, "u", u); s += ","; put_obs(s, "f", f); s += ",";
    put_proj(s, proj()); s += ","; put_os(s, "os"); s += "}\n";
    fputs(s.c_str(), g_out);
  }
  // whole-output equivalence after a history in which EVERY call failed (Builder / Compiler: finalize included)
  void final_equivalence() {
    g_pending = "final-equivalence";
    auto run = [&](BaseEmitter* e, CodeHolder& c, bool used) -> ProbeObs {
      ProbeObs o;
      try {
        if (emk == 2) {
          BaseCompiler* k = static_cast<BaseCompiler*>(e);
          FuncNode* fn = nullptr;
          Error er = k->add_func_node(Out(fn), FuncSignature::build<int, int, int>());
          if (er != Error::kOk) o.err = uint32_t(er);
          uint32_t pe = probe_program_compiler(k, is_x86); if (!o.err) o.err = pe;
          er = k->end_func(); if (er != Error::kOk && !o.err) o.err = uint32_t(er);
        } else {
          o.err = probe_program(e, is_x86);
        }
        Error er = e->finalize(); if (er != Error::kOk && !o.err) o.err = uint32_t(er);
      } catch (const EmitError& x) { o.err = 0x10000u + uint32_t(x.code); }
      Section* t = c.text_section();
      o.n = uint32_t(t->buffer_size()); o.dg = d31(fnv(t->data(), t->buffer_size()));
      o.dl = uint32_t(c.label_count()) - (used ? uint32_t(base_labels) : 0); o.dr = uint32_t(c.reloc_entries().size()); o.df = uint32_t(c.unresolved_fixup_count());
      return o;
    };
    ProbeObs u = run(em, code, true);
    if (ref_pass || twin_pass) return;
    CodeHolder fc; fc.init(Environment(arch));
    Section* s2 = nullptr; fc.new_section(Out(s2), ".data2", SIZE_MAX, SectionFlags::kNone, 8);
    StringLogger flg; if (logger_on) fc.set_logger(&flg);
    std::unique_ptr<BaseEmitter> fe;
    if (emk == 1) { if (is_x86) fe.reset(new x86::Builder()); else fe.reset(new a64::Builder()); }
    else { if (is_x86) fe.reset(new x86::Compiler()); else fe.reset(new a64::Compiler()); }
    fc.attach(fe.get());
    fe->add_diagnostic_options(diag);
    ProbeObs f = run(fe.get(), fc, false);
    fc.detach(fe.get());
    std::string s = "{\"e\":\"Probe\",\"final\":true,";
    put_obs(s, "u", u); s += ","; put_obs(s, "f", f); s += ",";
    put_proj(s, proj()); s += ","; put_os(s, "os"); s += "}\n";
    fputs(s.c_str(), g_out);
  }
  static uint32_t probe_program_compiler(BaseCompiler* k, bool x86arch) {
    uint32_t err = 0;
    auto chk = [&](Error x) { if (x != Error::kOk && !err) err = uint32_t(x); };
    if (x86arch) {
      x86::Compiler* c = static_cast<x86::Compiler*>(k);
      x86::Gp a = c->new_gp32(), b = c->new_gp32();
      Label L = c->new_label();
      chk(c->mov(a, 1)); chk(c->mov(b, 2)); chk(c->bind(L)); chk(c->add(a, b)); chk(c->dec(b)); chk(c->jnz(L)); chk(c->ret(a));
    } else {
      a64::Compiler* c = static_cast<a64::Compiler*>(k);
      a64::Gp a = c->new_gp32(), b = c->new_gp32();
      chk(c->mov(a, 1)); chk(c->mov(b, 2)); chk(c->add(a, a, b)); chk(c->ret(a));
    }
    return err;
  }
  size_t base_labels = 0;
  size_t xi = 0;
  // Isolated triggers (each would otherwise end most executions of its kind; generated only in dedicated executions):
  //  lblmem32: x86-32 memory operand whose label base id is invalid     (x86assembler.cpp EmitModSib_LabelRip_X86)
  //  a64elem : AArch64 vector operand with a perturbed element type       (a64assembler.cpp element_type_to_size_op)
  bool bad_mem_label_ok() const { return arch != Arch::kX86 || mode == "lblmem32"; }
  bool a64_elem_ok() const { return mode == "a64elem"; }
  bool general_like() const { return mode == "general" || mode == "a64elem"; }
  uint32_t mem_label_id() { bool v; return bad_mem_label_ok() ? pick_label_id(v) : valid_label_id(); }
  RegType any_base_type() { RegType t = RegType(r.below(32)); if (t == RegType::kLabelTag && !bad_mem_label_ok()) t = RegType::kGp32; return t; }

  // ---- one execution ---------------------------------------------------------------------------------------------
  void run_calls(uint32_t xs, size_t calls, bool with_reset = true) {
    if (with_reset) reset_event(xs, calls);
    if (mode == "failonly") {
      base_labels = code.label_count();
      size_t n = 1 + r.below(calls);
      for (size_t i = 0; i < n; i++) failing_call();
      if (attached && (ref_pass ? main_all_failed : all_failed)) {
        if (emk == 0) probe(); else final_equivalence();
      }
      return;
    }
    if (mode == "detinst") { for (size_t i = 0; i < calls; i++) inst_from_form(r.chance(1, 2)); return; }
    if (mode == "detother") { for (size_t i = 0; i < calls; i++) other_call(); return; }
    if (mode == "mem16off") {          // only the isolated trigger: 16-bit addressing with displacements outside 0..32767
      for (size_t i = 0; i < calls; i++) {
        Operand_ ops[2]; Operand a = x86::Gp::make_r16(uint32_t(r.below(8)));
        static const int32_t offs[] = {-1, -8, -32768, 32768, 65535, 0x12345678};
        Operand m = x86::ptr(r.chance(1, 2) ? x86::bx : x86::si, offs[r.below(6)]);
        ops[0] = a; ops[1] = m;
        emit_tuple(r.chance(1, 2) ? x86::Inst::kIdMov : x86::Inst::kIdLea, 0, RegOnly{}, nullptr, ops, 2, "mem16off");
      }
      probe();
      return;
    }
    if (mode == "regsize") {           // Compiler: a validated instruction whose register operand carries a size field > 64, then finalize
      c_func_begin(); c_new_vreg();
      Operand_ ops[2]; Reg a = Reg::from_type_and_id(r.chance(1, 2) ? RegType::kGp16 : RegType::kVec128, uint32_t(r.below(8)));
      a._signature.set_size(uint32_t(65 + r.below(190)));
      ops[0] = a; Operand b = x86::ptr(x86::Gp::make_r32(3)); b._signature.set_size(a.reg_type() == RegType::kGp16 ? 2 : 16); ops[1] = b;
      emit_tuple(a.reg_type() == RegType::kGp16 ? uint32_t(x86::Inst::kIdAdc) : uint32_t(x86::Inst::kIdPaddb), 0, RegOnly{}, nullptr, ops, 2, "regsize");
      c_func_end();
      call("finalize", "", [&]() -> uint32_t { return uint32_t(em->finalize()); });
      return;
    }
    if (mode == "deadjump") {          // Compiler: a VALID program whose dead (labelled, unreferenced) block jumps back into live code
      c_func_begin(); c_new_vreg();
      for (int i = 0; i < 3; i++) c_new_label();
      if (vregs.empty() || labels.size() < 3) return;
      x86::Gp v = x86::Gp::make_r32(vregs[0]);
      auto I = [&](uint32_t id, const Operand_& o0, const Operand_& o1 = Operand(), const char* src = "deadjump") {
        Operand_ ops[2] = {o0, o1}; emit_tuple(id, 0, RegOnly{}, nullptr, ops, o1.is_none() ? (o0.is_none() ? 0 : 1) : 2, src); };
      auto B = [&](uint32_t l) { char in[32]; snprintf(in, sizeof in, "label=%u", l); call("bind", in, [&]() -> uint32_t { return uint32_t(em->bind(Label(l))); }); };
      uint32_t L1 = labels[0], L2 = labels[1], Lu = labels[2];
      I(x86::Inst::kIdMov, v, Imm(1)); B(L1); I(x86::Inst::kIdAdd, v, v); I(x86::Inst::kIdJz, Label(L2)); I(x86::Inst::kIdDec, v); I(x86::Inst::kIdJnz, Label(L1));
      B(L2);
      call("ret", "", [&]() -> uint32_t { return uint32_t(cc->add_ret(v, Operand())); });
      B(Lu);                                    // dead code: bound, never referenced
      I(x86::Inst::kIdJmp, Label(L1));          // ... jumping back into live code
      c_func_end();
      call("finalize", "", [&]() -> uint32_t { return uint32_t(em->finalize()); });
      return;
    }
    if (mode == "lbloff64") {          // only the isolated trigger: [label + disp] with disp at the int32 minimum (64-bit)
      for (int i = 0; i < 3; i++) c_new_label();
      for (size_t i = 0; i < calls; i++) {
        Operand_ ops[2]; Operand a = x86::Gp::make_r32(uint32_t(r.below(8)));
        Operand m = x86::ptr(Label(valid_label_id()), int32_t(INT32_MIN + int32_t(r.below(6))));
        ops[0] = a; ops[1] = m;
        emit_tuple(r.chance(1, 2) ? x86::Inst::kIdMov : x86::Inst::kIdLea, 0, RegOnly{}, nullptr, ops, 2, "lbloff64");
      }
      probe();
      return;
    }
    if (mode == "lblmem32") {          // only the isolated trigger: 32-bit [label] forms with arbitrary label ids
      for (int i = 0; i < 3; i++) c_new_label();
      for (size_t i = 0; i < calls; i++) {
        Operand_ ops[2]; Operand a = x86::Gp::make_r32(uint32_t(r.below(8))); bool v;
        Operand m = x86::ptr(Label(pick_label_id(v)), int32_t(weird_off()));
        ops[0] = a; ops[1] = m; if (r.chance(1, 3)) { ops[0] = m; ops[1] = a; }
        static const uint32_t ids[] = {x86::Inst::kIdMov, x86::Inst::kIdLea, x86::Inst::kIdAdd, x86::Inst::kIdCmp};
        uint32_t id = ids[r.below(4)]; if (id == x86::Inst::kIdLea) { ops[0] = a; ops[1] = m; }
        emit_tuple(id, 0, RegOnly{}, nullptr, ops, 2, "lblmem32");
      }
      probe();
      return;
    }
    // general: a few labels first, then a mix
    for (int i = 0; i < 3; i++) c_new_label();
    if (cc) {
      c_func_begin(); for (int i = 0; i < 3; i++) c_new_vreg();
      if (!vregs.empty()) {            // the function uses at least one virtual register
        Operand_ ops[2]; Operand a = Reg::from_type_and_id(RegType::kGp32, vregs[0]); Operand i1 = Imm(1); ops[0] = a; ops[1] = i1;
        emit_tuple(is_x86 ? uint32_t(x86::Inst::kIdMov) : uint32_t(a64::Inst::kIdMov), 0, RegOnly{}, nullptr, ops, 2, "form");
      }
    }
    size_t misref_at = r.chance(1, 2) ? r.below(calls + 1) : SIZE_MAX;
    size_t shortref_at = r.chance(1, 2) ? calls / 2 + r.below(calls / 2 + 1) : SIZE_MAX;
    for (size_t i = 0; i < calls; i++) {
      if (i == shortref_at && attached) c_shortref();
      if (i == misref_at && attached) c_misref();
      unsigned c = unsigned(r.below(100));
      if (c < 22) inst_from_form(true);
      else if (c < 50) inst_from_form(false);
      else if (c < 72 && is_x86 && !kinds_only) inst_random_x86();
      else if (c < 72) inst_from_form(false);
      else other_call();
      if (r.chance(1, 40)) probe();
    }
    probe();
    if (emk != 0) {
      // make finalize fail INSIDE a pass now and then: the register allocator meets a never-created virtual register
      // (Compiler), or a user pass refuses (Builder and Compiler)
      unsigned fs = unsigned(r.below(4));
      if (cc && in_func && fs == 0) {
        Operand_ ops[2]; Operand a = Reg::from_type_and_id(RegType::kGp32, Operand::kVirtIdMin + 5000 + uint32_t(r.below(100))); Operand i1 = Imm(1); ops[0] = a; ops[1] = i1;
        emit_tuple(is_x86 ? uint32_t(x86::Inst::kIdMov) : uint32_t(a64::Inst::kIdMov), 0, RegOnly{}, nullptr, ops, 2, "badvreg");
      }
      if (cc && in_func) c_func_end();
      if (fs == 1) call("addpass", "C14FailPass", [&]() -> uint32_t { return uint32_t(bb->add_pass<C14FailPass>()); });
      call("finalize", "", [&]() -> uint32_t { return uint32_t(em->finalize()); });
      // one more refused call: its error must reach exactly the attached handler (a stale handler pointer would not)
      if (attached) {
        uint32_t lid = valid_label_id();
        char in[48]; snprintf(in, sizeof in, "label=%u size=3", lid);
        call("elabel", in, [&]() -> uint32_t { return uint32_t(em->embed_label(Label(lid), 3)); });
      }
    }
  }
};

// One execution = the recorded main pass, the reference pass (same seed, refused calls omitted; only when every refused
// call left the whole projection unchanged) and the finishing phase on both.
static void run_execution(uint32_t xs, size_t xi, Arch arch, int emk, const std::string& mode, size_t calls) {
  Exec ex(xs, arch, emk, mode); ex.xi = xi;
  ex.reset_event(xs, calls);           // first: a crash in the twin pass must be attributable to this execution
  fflush(g_out);
  std::vector<uint32_t> twin_results;
  if (ex.fast) {
    g_pending = "twin pass";
    Exec tw(xs, arch, emk, mode, true);
    tw.run_calls(xs, calls);
    twin_results.swap(tw.rcs);
    ex.twin_rcs = &twin_results;
  }
  ex.run_calls(xs, calls, false);
  Exec::FinObs f; bool cmp = false;
  if (ex.pure) {
    g_pending = "reference pass";
    Exec rf(xs, arch, emk, mode); rf.ref_pass = true; rf.skip = &ex.failed; rf.main_all_failed = ex.all_failed;
    rf.run_calls(xs, calls);
    f = rf.finish_phase();
    cmp = true;
  }
  Exec::FinObs u = ex.finish_phase();
  ex.finish_event(u, f, cmp);
}

static uint32_t mix31(uint64_t a, uint64_t b) {
  vj::Rng r(a * 1000003ull + b);
  r.next();
  return uint32_t(r.next() & 0x7FFFFFFFu);
}

int main(int argc, char** argv) {
  if (argc < 7) { fprintf(stderr, "usage: emitfuzz record|one ...\n"); return 3; }
  std::string cmd = argv[1];
  g_out = fopen(argv[2], "w");
  if (!g_out) return 3;
  static char iobuf[1 << 16]; setvbuf(g_out, iobuf, _IOFBF, sizeof iobuf);
  vj::install_abort_handlers(g_out);
  std::set_terminate([] { death_cb(); _exit(70); });
#ifdef EMITFUZZ_ASAN
  __sanitizer_set_death_callback(death_cb);
#endif
  std::string archs = argv[3], ems = argv[4];
  Arch arch = archs == "x86" ? Arch::kX86 : archs == "x64" ? Arch::kX64 : Arch::kAArch64;
  int emk = ems == "asm" ? 0 : ems == "builder" ? 1 : 2;
  TestSettings ts{false, false};
  g_sink = &g_forms_a64; test_aarch64_assembler(ts);
  g_sink = &g_forms_x86; test_x86_assembler(ts);
  if (g_forms_a64.size() < 3000 || g_forms_x86.size() < 6000) { fprintf(stderr, "form harvest too small: %zu %zu\n", g_forms_a64.size(), g_forms_x86.size()); return 3; }
  if (cmd == "record") {
    uint64_t base = strtoull(argv[5], nullptr, 10);
    size_t first = size_t(atol(argv[6])), n = size_t(atol(argv[7])), calls = size_t(atol(argv[8]));
    std::string mode = argc > 9 ? argv[9] : "general";
    for (size_t i = first; i < first + n; i++) {
      uint32_t xs = mix31(base, i);
      run_execution(xs, i, arch, emk, mode, calls);
      fflush(g_out);
    }
  } else if (cmd == "one") {
    uint32_t xs = uint32_t(strtoul(argv[5], nullptr, 10));
    size_t calls = size_t(atol(argv[6]));
    std::string mode = argc > 7 ? argv[7] : "general";
    run_execution(xs, 0, arch, emk, mode, calls);
  } else return 3;
  fclose(g_out);
  g_out = nullptr;
  return 0;
}
