// C02 harness: executes sweep cases on the real a64::Assembler and records what it answered.
//
//   a64sweep run <cases.ndjson> <obs.ndjson>   every input line is a case {"n":mnemonic,"cc":cond-suffix,"o":[operand descriptors],...};
//                                              the same line is written back with ,"ok":bool,"err":code,"w":[[lo16,hi16],...],"nb":bytes
//   a64sweep names <out.txt>                   mnemonics the pinned asmjit knows (InstAPI::string_to_inst_id is the only name source)
//
// The operands are built from the descriptors only (register ids, arrangement, element index, shift/extend kind and
// amount, addressing mode, offset, immediate limbs); nothing is formatted or parsed by asmjit.  Emission goes through
// the generic emit_op_array(inst_id, operands, n).  The buffer is rewound after every case, so a case sees offset 0.
#include <asmjit/core.h>
#include <asmjit/a64.h>
#include "vjson.h"
#include <string>

using namespace asmjit;

static const uint64_t kBase = 0x40000000ull;

struct ErrH : public ErrorHandler { void handle_error(Error, const char*, BaseEmitter*) override {} };

static bool cond_by_name(const std::string& s, arm::CondCode& cc) {
  static const struct { const char* n; arm::CondCode c; } T[] = {
    {"eq", arm::CondCode::kEQ}, {"ne", arm::CondCode::kNE}, {"cs", arm::CondCode::kCS}, {"hs", arm::CondCode::kHS}, {"cc", arm::CondCode::kCC},
    {"lo", arm::CondCode::kLO}, {"mi", arm::CondCode::kMI}, {"pl", arm::CondCode::kPL}, {"vs", arm::CondCode::kVS}, {"vc", arm::CondCode::kVC},
    {"hi", arm::CondCode::kHI}, {"ls", arm::CondCode::kLS}, {"ge", arm::CondCode::kGE}, {"lt", arm::CondCode::kLT}, {"gt", arm::CondCode::kGT},
    {"le", arm::CondCode::kLE}, {"al", arm::CondCode::kAL}, {"nv", arm::CondCode::kNA}};
  for (auto& e : T) if (s == e.n) { cc = e.c; return true; }
  return false;
}
static const char* kCondNames[16] = {"eq", "ne", "cs", "cc", "mi", "pl", "vs", "vc", "hi", "ls", "ge", "lt", "gt", "le", "al", "nv"};

static bool shift_by_name(const std::string& s, arm::ShiftOp& op) {
  static const struct { const char* n; arm::ShiftOp o; } T[] = {
    {"lsl", arm::ShiftOp::kLSL}, {"lsr", arm::ShiftOp::kLSR}, {"asr", arm::ShiftOp::kASR}, {"ror", arm::ShiftOp::kROR}, {"msl", arm::ShiftOp::kMSL},
    {"uxtb", arm::ShiftOp::kUXTB}, {"uxth", arm::ShiftOp::kUXTH}, {"uxtw", arm::ShiftOp::kUXTW}, {"uxtx", arm::ShiftOp::kUXTX},
    {"sxtb", arm::ShiftOp::kSXTB}, {"sxth", arm::ShiftOp::kSXTH}, {"sxtw", arm::ShiftOp::kSXTW}, {"sxtx", arm::ShiftOp::kSXTX}};
  for (auto& e : T) if (s == e.n) { op = e.o; return true; }
  return false;
}

static uint32_t gp_id(long long id, long long sp) { return id == 31 ? (sp ? a64::Gp::kIdSp : a64::Gp::kIdZr) : uint32_t(id); }
static a64::Gp make_gp(const std::string& t, long long id, long long sp) {
  return t == "x" ? a64::Gp::make_r64(gp_id(id, sp)) : a64::Gp::make_r32(gp_id(id, sp));
}

static bool make_vec(const vj::Value& d, uint32_t id, a64::Vec& out) {
  const std::string& t = d["t"].s();
  const std::string& arr = d["arr"].s();
  long long ei = d["ei"].i();
  using ET = a64::VecElementType;
  if (t != "v") {
    if (t == "b") out = a64::Vec::make_v8(id); else if (t == "h") out = a64::Vec::make_v16(id); else if (t == "s") out = a64::Vec::make_v32(id);
    else if (t == "d") out = a64::Vec::make_v64(id); else if (t == "q") out = a64::Vec::make_v128(id); else return false;
    return true;
  }
  if (ei >= 0) {
    ET et;
    if (arr == "B") et = ET::kB; else if (arr == "H") et = ET::kH; else if (arr == "S") et = ET::kS; else if (arr == "D") et = ET::kD;
    else if (arr == "4B") et = ET::kB4; else if (arr == "2H") et = ET::kH2; else return false;
    out = a64::Vec::make_v128_with_element_index(et, uint32_t(ei), id);
    return true;
  }
  if (arr == "8B") out = a64::Vec::make_v64_with_element_type(ET::kB, id);
  else if (arr == "16B") out = a64::Vec::make_v128_with_element_type(ET::kB, id);
  else if (arr == "4H") out = a64::Vec::make_v64_with_element_type(ET::kH, id);
  else if (arr == "8H") out = a64::Vec::make_v128_with_element_type(ET::kH, id);
  else if (arr == "2S") out = a64::Vec::make_v64_with_element_type(ET::kS, id);
  else if (arr == "4S") out = a64::Vec::make_v128_with_element_type(ET::kS, id);
  else if (arr == "1D") out = a64::Vec::make_v64_with_element_type(ET::kD, id);
  else if (arr == "2D") out = a64::Vec::make_v128_with_element_type(ET::kD, id);
  else if (arr == "2H") out = a64::Vec::make_v32_with_element_type(ET::kH, id);
  else if (arr == "4B") out = a64::Vec::make_v32_with_element_type(ET::kB, id);
  else if (arr == "1Q") out = a64::Vec::make_v128(id);
  else return false;
  return true;
}

static uint64_t limbs(const vj::Value& l) {
  uint64_t v = 0;
  for (size_t k = 0; k < 4 && k < l.size(); k++) v |= uint64_t(l[k].i() & 0xFFFF) << (16 * k);
  return v;
}

int main(int argc, char** argv) {
  if (argc >= 3 && std::string(argv[1]) == "names") {
    FILE* f = fopen(argv[2], "w");
    // every inst id has a name; enumerate by trying all lowercase names is impossible -> walk ids through InstAPI
    String s;
    for (uint32_t id = 1; id < 4096; id++) {
      s.clear();
      if (InstAPI::inst_id_to_string(Arch::kAArch64, id, InstStringifyOptions::kNone, s) != Error::kOk || s.is_empty()) continue;
      InstId back = InstAPI::string_to_inst_id(Arch::kAArch64, s.data(), s.size());
      if (back == id) fprintf(f, "%s\n", s.data());
    }
    fclose(f);
    return 0;
  }
  if (argc < 4 || std::string(argv[1]) != "run") { fprintf(stderr, "usage: a64sweep run <cases> <obs> | names <out>\n"); return 2; }

  Environment env(Arch::kAArch64);
  CodeHolder code;
  ErrH eh;
  if (code.init(env, kBase) != Error::kOk) return 3;
  code.set_error_handler(&eh);
  a64::Assembler a(&code);

  std::ifstream in(argv[2]);
  FILE* out = fopen(argv[3], "w");
  if (!in || !out) { fprintf(stderr, "cannot open files\n"); return 3; }
  std::string line;
  std::string rec;
  size_t nline = 0;
  while (std::getline(in, line)) {
    if (line.empty()) continue;
    nline++;
    vj::Value c = vj::parse(line);
    const std::string& name = c["n"].s();
    // "iid" = ordinal of a64::Inst::kId<Name> in the public header enum (what a.<name>(...) passes to _emitI); the textual
    // lookup InstAPI::string_to_inst_id is only a fallback (it does not know every mnemonic in this tree).
    InstId id = c.has("iid") ? InstId(c["iid"].i()) : InstAPI::string_to_inst_id(Arch::kAArch64, name.data(), name.size());
    Operand ops[8];
    size_t n = 0;
    bool built = id != 0;
    const std::string& ccs = c["cc"].s();
    if (built && !ccs.empty()) {
      arm::CondCode cc;
      if (!cond_by_name(ccs, cc)) built = false; else id = BaseInst::compose_arm_inst_id(id, cc);
    }
    const vj::Value& od = c["o"];
    for (size_t k = 0; built && k < od.size(); k++) {
      const vj::Value& d = od[k];
      const std::string& kind = d["k"].s();
      if (kind == "-") continue;
      if (kind == "cc") {          // condition suffix of b.<cond>: part of the instruction id, not an operand
        arm::CondCode cc; long long cv = d["c"].i();
        if (cv < 0 || cv > 15 || !cond_by_name(kCondNames[cv], cc)) { built = false; break; }
        id = BaseInst::compose_arm_inst_id(id, cc);
        continue;
      }
      if (n >= 6) { built = false; break; }
      if (kind == "r") {
        if (d.has("ids")) { for (size_t j = 0; j < d["ids"].size() && n < 6; j++) ops[n++] = make_gp(d["t"].s(), d["ids"][j].i(), 0); }
        else ops[n++] = make_gp(d["t"].s(), d["id"].i(), d["sp"].i());
      } else if (kind == "v") {
        if (d.has("ids")) {
          for (size_t j = 0; j < d["ids"].size() && n < 6; j++) { a64::Vec v; if (!make_vec(d, uint32_t(d["ids"][j].i()), v)) { built = false; break; } ops[n++] = v; }
        } else { a64::Vec v; if (!make_vec(d, uint32_t(d["id"].i()), v)) { built = false; break; } ops[n++] = v; }
      } else if (kind == "i") {
        ops[n++] = Imm(int64_t(limbs(d["l"])));
      } else if (kind == "f") {
        uint64_t bits = limbs(d["l"]); double x; memcpy(&x, &bits, 8);
        ops[n++] = Imm(x);
      } else if (kind == "s") {
        arm::ShiftOp so;
        if (!shift_by_name(d["op"].s(), so)) { built = false; break; }
        long long amt = d["amt"].i();
        ops[n++] = Imm(arm::Shift(so, uint32_t(amt < 0 ? 0 : amt)));
      } else if (kind == "c") {
        long long cv = d["c"].i();
        arm::CondCode cc;
        if (cv < 0 || cv > 15 || !cond_by_name(kCondNames[cv], cc)) { built = false; break; }
        ops[n++] = Imm(uint32_t(cc));
      } else if (kind == "l") {
        uint64_t pc = kBase;       // the case is emitted at offset 0
        int64_t v = d["v"].i();
        if (d["page"].i()) pc &= ~uint64_t(4095);
        ops[n++] = Imm(int64_t(pc + uint64_t(v)));
      } else if (kind == "m") {
        a64::Gp base = a64::Gp::make_r64(gp_id(d["b"].i(), d["bsp"].i()));
        a64::Mem m;
        long long xi = d["xi"].i();
        if (xi >= 0) {
          a64::Gp index = make_gp(d["xt"].s(), xi, d["xsp"].i());
          const std::string& sh = d["sh"].s();
          long long amt = d["amt"].i();
          if (sh.empty() && amt < 0) m = a64::Mem(base, index);
          else {
            arm::ShiftOp so = arm::ShiftOp::kLSL;
            if (!sh.empty() && !shift_by_name(sh, so)) { built = false; break; }
            m = a64::Mem(base, index, arm::Shift(so, uint32_t(amt < 0 ? 0 : amt)));
          }
        } else {
          m = a64::Mem(base, int32_t(d["off"].i()));
        }
        const std::string& mode = d["mode"].s();
        if (mode == "pre") m.make_pre_index(); else if (mode == "post") m.make_post_index();
        ops[n++] = m;
      } else { built = false; }
    }
    Error err = Error::kInvalidArgument;
    size_t nbytes = 0;
    uint32_t words[8]; size_t nw = 0;
    if (built) {
      a.set_offset(0);
      size_t before = a.offset();
      err = a.emit_op_array(id, ops, n);
      size_t after = a.offset();
      nbytes = after - before;
      if (err == Error::kOk) {
        const uint8_t* p = a.buffer_data() + before;
        for (size_t b = 0; b + 4 <= nbytes && nw < 8; b += 4) { uint32_t w; memcpy(&w, p + b, 4); words[nw++] = w; }
      }
      // relocations / fixups must not pile up
      if (code.reloc_entries().size() > 4096 || a.offset() > (1u << 20)) { code.reset(); code.init(env, kBase); code.set_error_handler(&eh); code.attach(&a); }
    }
    rec.assign(line, 0, line.size() - 1);
    rec += ",\"known\":"; rec += (id != 0 ? "true" : "false");
    rec += ",\"built\":"; rec += (built ? "true" : "false");
    rec += ",\"ok\":"; rec += (err == Error::kOk ? "true" : "false");
    rec += ",\"err\":" + std::to_string(uint32_t(err));
    rec += ",\"nb\":" + std::to_string(nbytes);
    rec += ",\"w\":[";
    for (size_t k = 0; k < nw; k++) { if (k) rec += ','; rec += "[" + std::to_string(words[k] & 0xFFFF) + "," + std::to_string(words[k] >> 16) + "]"; }
    rec += "]}\n";
    fputs(rec.c_str(), out);
  }
  fclose(out);
  fprintf(stderr, "a64sweep: %zu cases\n", nline);
  return 0;
}
