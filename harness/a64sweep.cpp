// C02 harness: executes sweep cases on the real a64::Assembler and records what it answered.
//
//   a64sweep run <cases.ndjson> <obs.ndjson>   every input line is a case {"n":mnemonic,"cc":cond-suffix,"o":[operand descriptors],...};
//                                              the same line is written back with ,"ok":bool,"err":code,"w":[[lo16,hi16],...],"nb":bytes
//   a64sweep names <out.txt>                   mnemonics the pinned asmjit knows (InstAPI::string_to_inst_id is the only name source)
//
// The operands are built from the descriptors only (register ids, arrangement, element index, shift/extend kind and
// amount, addressing mode, offset, immediate limbs); nothing is formatted or parsed by asmjit.  Emission goes through
// the generic emit_op_array(inst_id, operands, n).  The buffer is rewound after every case, so a case sees offset 0.
#include "lib_a64forms.h"

using namespace asmjit;
using a64forms::kBase;

struct ErrH : public ErrorHandler { void handle_error(Error, const char*, BaseEmitter*) override {} };


int main(int argc, char** argv) {
  if (argc >= 3 && std::string(argv[1]) == "names") {
    FILE* f = fopen(argv[2], "w");
    // every inst id has a name; enumerate by trying all lowercase names is impossible -> walk ids through InstAPI
    String s;
    for (uint32_t id = 1; id < 4096; id++) {
      s.clear();
      if (InstAPI::inst_id_to_string(Arch::kAArch64, id, InstStringifyOptions::kNone, s) != Error::kOk || s.is_empty()) continue;
      InstId back = InstAPI::string_to_inst_id(Arch::kAArch64, s.data(), s.size());
      if (back == id) fprintf(f, "%s\n", s.data());
    }
    fclose(f);
    return 0;
  }
  if (argc < 4 || std::string(argv[1]) != "run") { fprintf(stderr, "usage: a64sweep run <cases> <obs> | names <out>\n"); return 2; }

  Environment env(Arch::kAArch64);
  CodeHolder code;
  ErrH eh;
  if (code.init(env, kBase) != Error::kOk) return 3;
  code.set_error_handler(&eh);
  a64::Assembler a(&code);

  std::ifstream in(argv[2]);
  FILE* out = fopen(argv[3], "w");
  if (!in || !out) { fprintf(stderr, "cannot open files\n"); return 3; }
  std::string line;
  std::string rec;
  size_t nline = 0;
  while (std::getline(in, line)) {
    if (line.empty()) continue;
    nline++;
    vj::Value c = vj::parse(line);
    a64forms::Built bo;
    long long lpc = 0, lpos = 0;
    bool lcase = a64forms::label_case(c, lpc, lpos);
    Label label;
    auto fresh = [&]() { code.reset(); code.init(env, kBase); code.set_error_handler(&eh); code.attach(&a); };
    auto pad_to = [&](size_t pos) -> bool {       // zero bytes up to section offset pos
      static const uint8_t z = 0;
      return a.offset() > pos ? false : (a.offset() == pos ? true : a.embed_data_array(TypeId::kUInt8, &z, 1, pos - a.offset()) == Error::kOk);
    };
    if (lcase) { fresh(); label = a.new_label(); }
    bool built = a64forms::build(c, bo, lcase ? &label : nullptr);
    if (lcase && (lpc < 0 || lpos < 0 || lpc > (64 << 20) || lpos > (64 << 20))) built = false;
    InstId id = bo.inst_id;
    Operand* ops = bo.ops;
    size_t n = bo.n;
    Error err = Error::kInvalidArgument;
    Error berr = Error::kOk;
    size_t nbytes = 0;
    uint32_t words[8]; size_t nw = 0;
    if (built && lcase) {
      // label bound BEFORE the instruction (lpos <= pc): bind, pad, emit.  AFTER (lpos > pc): emit (fixup), pad, bind.
      bool okp = true;
      if (lpos <= lpc) { okp = pad_to(size_t(lpos)) && a.bind(label) == Error::kOk && pad_to(size_t(lpc)); }
      else okp = pad_to(size_t(lpc));
      if (okp) {
        size_t before = a.offset();
        err = a.emit_op_array(id, ops, n);
        nbytes = a.offset() - before;
        if (err == Error::kOk && lpos > lpc) {
          if (!pad_to(size_t(lpos))) berr = Error::kInvalidState; else berr = a.bind(label);
        }
        if (err == Error::kOk && berr == Error::kOk && nbytes == 4) {
          uint32_t w; memcpy(&w, a.buffer_data() + before, 4); words[nw++] = w;      // read AFTER bind: the resolved word
        }
        if (berr != Error::kOk) err = berr;
      }
      fresh();
    }
    else if (built) {
      a.set_offset(0);
      size_t before = a.offset();
      err = a.emit_op_array(id, ops, n);
      size_t after = a.offset();
      nbytes = after - before;
      if (err == Error::kOk) {
        const uint8_t* p = a.buffer_data() + before;
        for (size_t b = 0; b + 4 <= nbytes && nw < 8; b += 4) { uint32_t w; memcpy(&w, p + b, 4); words[nw++] = w; }
      }
      // relocations / fixups must not pile up
      if (code.reloc_entries().size() > 4096 || a.offset() > (1u << 20)) fresh();
    }
    rec.assign(line, 0, line.size() - 1);
    rec += ",\"known\":"; rec += (id != 0 ? "true" : "false");
    rec += ",\"built\":"; rec += (built ? "true" : "false");
    rec += ",\"ok\":"; rec += (err == Error::kOk ? "true" : "false");
    rec += ",\"err\":" + std::to_string(uint32_t(err));
    rec += ",\"nb\":" + std::to_string(nbytes);
    rec += ",\"w\":[";
    for (size_t k = 0; k < nw; k++) { if (k) rec += ','; rec += "[" + std::to_string(words[k] & 0xFFFF) + "," + std::to_string(words[k] >> 16) + "]"; }
    rec += "]}\n";
    fputs(rec.c_str(), out);
  }
  fclose(out);
  fprintf(stderr, "a64sweep: %zu cases\n", nline);
  return 0;
}
