// X07 harness, AArch64 back-end of the UniCompiler - STATIC part only (the host cannot execute AArch64 code).
//
//   uniops_a64 observe <out.ndjson>
//
// The a64 implementation (asmjit/ujit/unicompiler_a64.cpp) is compiled into this binary on the x86 host by pointing the
// `host` namespace at a64 and including the sources in a private namespace (ujit_a64), so that it cannot collide with the
// x86 UniCompiler of libasmjit.a.  For every operation x operand form a function is built with a64::Compiler and
// finalized; recorded is whether it assembled (t = "fail" otherwise) and how many instructions it took (t = "var").
// NOTHING is executed: the AArch64 back-end is NOT covered semantically.
#include <asmjit/core.h>
#include <asmjit/a64.h>

// --- retarget the universal JIT to AArch64 -------------------------------------------------------------------------------
#define ASMJIT_HOST_H_INCLUDED
ASMJIT_BEGIN_NAMESPACE
namespace host { using namespace a64; }
ASMJIT_END_NAMESPACE
#undef ASMJIT_UJIT_X86
#undef ASMJIT_NO_UJIT
#define ASMJIT_UJIT_AARCH64
#define ujit ujit_a64
#include <asmjit/ujit/ujitbase.h>
#include <asmjit/ujit/uniop.h>
#include <asmjit/ujit/vecconsttable.h>
#include <asmjit/ujit/unicompiler.h>
#include <asmjit/ujit/unicondition.h>
#include <asmjit/ujit/vecconsttable.cpp>
#include <asmjit/ujit/unicompiler_a64.cpp>
#undef ujit

#include "vjson.h"
#include "lib_uniops_names.h"
#include <string>
#include <vector>
#include <functional>

using namespace asmjit;
using namespace asmjit::ujit_a64;

// enumerator names: parsed from the same header by the generator, but the a64 section differs -> local X-macro via the
// preprocessor is not available; the names are produced by iterating the numeric range and are only used as labels.
#define X(n) #n,
static const char* const kNamesVV[] = { X07_A64_UNIOPVV(X) };
static const char* const kNamesVVI[] = { X07_A64_UNIOPVVI(X) };
static const char* const kNamesVVV[] = { X07_A64_UNIOPVVV(X) };
static const char* const kNamesVVVI[] = { X07_A64_UNIOPVVVI(X) };
static const char* const kNamesVVVV[] = { X07_A64_UNIOPVVVV(X) };
static const char* const kNamesRR[] = { X07_A64_UNIOPRR(X) };
static const char* const kNamesRRR[] = { X07_A64_UNIOPRRR(X) };
#undef X
static_assert(sizeof(kNamesVVV) / sizeof(kNamesVVV[0]) == size_t(UniOpVVV::kMaxValue) + 1, "names out of sync with uniop.h (python3 checks/x07gen.py names)");
static_assert(sizeof(kNamesVVI) / sizeof(kNamesVVI[0]) == size_t(UniOpVVI::kMaxValue) + 1, "names out of sync with uniop.h");
static_assert(sizeof(kNamesVV) / sizeof(kNamesVV[0]) == size_t(UniOpVV::kMaxValue) + 1, "names out of sync with uniop.h");
static std::string opname(const char* kind, uint32_t e) {
  std::string k = kind;
  if (k == "vv") return kNamesVV[e]; if (k == "vvi") return kNamesVVI[e]; if (k == "vvv") return kNamesVVV[e];
  if (k == "vvvi") return kNamesVVVI[e]; if (k == "vvvv") return kNamesVVVV[e];
  if (k == "rr32" || k == "rr64") return kNamesRR[e];
  return kNamesRRR[e];
}

class ErrH : public ErrorHandler {
public:
  Error first = Error::kOk; std::string msg;
  void handle_error(Error err, const char* message, BaseEmitter*) override { if (first == Error::kOk) { first = err; msg = message ? message : ""; } }
};

static FILE* g_out;
static unsigned long long g_n, g_fail;

static void run(const char* kind, uint32_t op, const char* form, const std::function<void(UniCompiler&, a64::Compiler&, const a64::Gp&)>& body) {
  Environment env(Arch::kAArch64);
  CodeHolder code; ErrH eh;
  code.init(env);
  code.set_error_handler(&eh);
  a64::Compiler cc(&code);
  cc.add_diagnostic_options(DiagnosticOptions::kValidateAssembler);
  cc.add_diagnostic_options(DiagnosticOptions::kValidateIntermediate);
  CpuFeatures f; f.add(CpuFeatures::ARM::kASIMD);
  uint32_t ninst = 0;
  std::string err;
  {
    UniCompiler uc(&cc, f, CpuHints::kNone);
    uc.init_vec_width(VecWidth::k128);
    FuncNode* node = uc.add_func(FuncSignature::build<void, void*>());
    a64::Gp io = uc.new_gpz("io");
    node->set_arg(0, io);
    body(uc, cc, io);
    uc.end_func();
  }
  for (BaseNode* n = cc.first_node(); n; n = n->next()) if (n->is_inst()) ninst++;
  Error e = eh.first != Error::kOk ? eh.first : cc.finalize();
  if (e != Error::kOk) err = std::string(DebugUtils::error_as_string(e)) + ":" + eh.msg;
  vj::W w; w.beginObj();
  w.kv("t", err.empty() ? "var" : "fail").kv("k", std::string("a64:") + kind).kv("op", opname(kind, op)).kv("form", form).kv("w", 16).kv("lvl", "a64").kv("imm", -1).kv("idx", -1).kv("sz", 0);
  if (err.empty()) { w.kv("hash", 0).kv("ninst", (long long)ninst).kv("fresh", true).key("need").beginArr().endArr().kv("size", (long long)code.code_size()); }
  else w.kv("err", err);
  w.endObj(); w.emit(g_out);
  g_n++; if (!err.empty()) g_fail++;
}

int main(int argc, char** argv) {
  if (argc < 3) { fprintf(stderr, "usage: uniops_a64 observe <out>\n"); return 2; }
  g_out = fopen(argv[2], "w");
  if (!g_out) return 3;
  auto ld = [](a64::Compiler& cc, const a64::Vec& v, const a64::Gp& io, int off) { cc.ldr(v, a64::ptr(io, off)); };
  auto st = [](a64::Compiler& cc, const a64::Vec& v, const a64::Gp& io, int off) { cc.str(v, a64::ptr(io, off)); };
  // VV
  for (uint32_t op = 0; op <= uint32_t(UniOpVV::kMaxValue); op++) for (const char* form : {"d,a", "d=a", "am"}) {
    std::string f = form;
    if (op >= uint32_t(UniOpVV::kBroadcastV256_U32) && op <= uint32_t(UniOpVV::kBroadcastV256_F64)) continue;   // 256-bit lanes do not exist on AArch64
    run("vv", op, form, [&](UniCompiler& uc, a64::Compiler& cc, const a64::Gp& io) {
      a64::Vec d = uc.new_vec128("d"), a = f == "d=a" ? d : uc.new_vec128("a");
      if (f != "am") ld(cc, a, io, 64); if (f != "d=a") ld(cc, d, io, 256);
      if (f == "am") uc.emit_2v(UniOpVV(op), d, a64::ptr(io, 64)); else uc.emit_2v(UniOpVV(op), d, a);
      st(cc, d, io, 0);
    });
  }
  for (uint32_t op = 0; op <= uint32_t(UniOpVVI::kMaxValue); op++) for (const char* form : {"d,a", "d=a"}) {
    std::string f = form;
    // 256/512-bit only operations do not exist on AArch64
    if (op >= uint32_t(UniOpVVI::kSwizzleU64x4) && op <= uint32_t(UniOpVVI::kExtractV256_F64)) continue;
    uint32_t imm = 1;
    if (op >= uint32_t(UniOpVVI::kSwizzleU16x4) && op <= uint32_t(UniOpVVI::kSwizzleF32x4) && op != uint32_t(UniOpVVI::kSwizzleU64x2)) imm = swizzle(0, 1, 2, 3).value;
    if (op == uint32_t(UniOpVVI::kSwizzleU64x2) || op == uint32_t(UniOpVVI::kSwizzleF64x2)) imm = swizzle(0, 1).value;
    run("vvi", op, form, [&](UniCompiler& uc, a64::Compiler& cc, const a64::Gp& io) {
      a64::Vec d = uc.new_vec128("d"), a = f == "d=a" ? d : uc.new_vec128("a");
      ld(cc, a, io, 64); if (f != "d=a") ld(cc, d, io, 256);
      uc.emit_2vi(UniOpVVI(op), d, a, imm);
      st(cc, d, io, 0);
    });
  }
  for (uint32_t op = 0; op <= uint32_t(UniOpVVV::kMaxValue); op++) for (const char* form : {"d,a,b", "d=a", "d=b", "a=b", "bm"}) {
    std::string f = form;
    run("vvv", op, form, [&](UniCompiler& uc, a64::Compiler& cc, const a64::Gp& io) {
      a64::Vec a = uc.new_vec128("a"), b = f == "a=b" ? a : uc.new_vec128("b");
      a64::Vec d = f == "d=a" ? a : f == "d=b" ? b : uc.new_vec128("d");
      ld(cc, a, io, 64); if (f != "a=b" && f != "bm") ld(cc, b, io, 128); if (f == "d,a,b" || f == "a=b" || f == "bm") ld(cc, d, io, 256);
      if (f == "bm") uc.emit_3v(UniOpVVV(op), d, a, a64::ptr(io, 128)); else uc.emit_3v(UniOpVVV(op), d, a, b);
      st(cc, d, io, 0);
    });
  }
  for (uint32_t op = 0; op <= uint32_t(UniOpVVVI::kInterleaveShuffleF64x2); op++) for (const char* form : {"d,a,b", "d=a", "d=b", "a=b"}) {
    std::string f = form;
    uint32_t imm = op == uint32_t(UniOpVVVI::kAlignr_U128) ? 4u : (op == uint32_t(UniOpVVVI::kInterleaveShuffleU64x2) || op == uint32_t(UniOpVVVI::kInterleaveShuffleF64x2)) ? swizzle(0, 1).value : swizzle(0, 1, 2, 3).value;
    run("vvvi", op, form, [&](UniCompiler& uc, a64::Compiler& cc, const a64::Gp& io) {
      a64::Vec a = uc.new_vec128("a"), b = f == "a=b" ? a : uc.new_vec128("b");
      a64::Vec d = f == "d=a" ? a : f == "d=b" ? b : uc.new_vec128("d");
      ld(cc, a, io, 64); if (f != "a=b") ld(cc, b, io, 128); if (f == "d,a,b" || f == "a=b") ld(cc, d, io, 256);
      uc.emit_3vi(UniOpVVVI(op), d, a, b, imm);
      st(cc, d, io, 0);
    });
  }
  for (uint32_t op = 0; op <= uint32_t(UniOpVVVV::kMaxValue); op++) for (const char* form : {"d,a,b,c", "d=a", "d=b", "d=c"}) {
    std::string f = form;
    run("vvvv", op, form, [&](UniCompiler& uc, a64::Compiler& cc, const a64::Gp& io) {
      a64::Vec a = uc.new_vec128("a"), b = uc.new_vec128("b"), c = uc.new_vec128("c");
      a64::Vec d = f == "d=a" ? a : f == "d=b" ? b : f == "d=c" ? c : uc.new_vec128("d");
      ld(cc, a, io, 64); ld(cc, b, io, 128); ld(cc, c, io, 192); if (f == "d,a,b,c") ld(cc, d, io, 256);
      uc.emit_4v(UniOpVVVV(op), d, a, b, c);
      st(cc, d, io, 0);
    });
  }
  // scalar
  for (uint32_t op = 0; op <= uint32_t(UniOpRR::kMaxValue); op++) for (int sz : {4, 8}) for (const char* form : {"d,a", "d=a", "am"}) {
    std::string f = form;
    run(sz == 4 ? "rr32" : "rr64", op, form, [&](UniCompiler& uc, a64::Compiler& cc, const a64::Gp& io) {
      a64::Gp a = sz == 8 ? uc.new_gp64("a") : uc.new_gp32("a"), d = f == "d=a" ? a : (sz == 8 ? uc.new_gp64("d") : uc.new_gp32("d"));
      if (f != "am") cc.ldr(a, a64::ptr(io, 320));
      if (f == "am") uc.emit_2i(UniOpRR(op), d, a64::ptr(io, 320)); else uc.emit_2i(UniOpRR(op), d, a);
      cc.str(d, a64::ptr(io, 328));
    });
  }
  for (uint32_t op = 0; op <= uint32_t(UniOpRRR::kMaxValue); op++) for (int sz : {4, 8}) for (const char* form : {"d,a,b", "d=a", "d=b", "a=b", "bi", "bm"}) {
    std::string f = form;
    if (op == uint32_t(UniOpRRR::kSBound) && f == "bi") continue;
    run(sz == 4 ? "rrr32" : "rrr64", op, form, [&](UniCompiler& uc, a64::Compiler& cc, const a64::Gp& io) {
      auto ng = [&](const char* n) { return sz == 8 ? uc.new_gp64(n) : uc.new_gp32(n); };
      a64::Gp a = ng("a"), b = f == "a=b" ? a : ng("b");
      a64::Gp d = f == "d=a" ? a : f == "d=b" ? b : ng("d");
      cc.ldr(a, a64::ptr(io, 320)); if (f != "a=b" && f != "bi" && f != "bm") cc.ldr(b, a64::ptr(io, 328));
      if (f == "bi") uc.emit_3i(UniOpRRR(op), d, a, Imm(5)); else if (f == "bm") uc.emit_3i(UniOpRRR(op), d, a, a64::ptr(io, 328)); else uc.emit_3i(UniOpRRR(op), d, a, b);
      cc.str(d, a64::ptr(io, 336));
    });
  }
  fclose(g_out);
  fprintf(stderr, "uniops_a64: cases=%llu failed=%llu\n", g_n, g_fail);
  return 0;
}
