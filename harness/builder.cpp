// C08 harness: Builder/Compiler node list and serialisation versus direct assembling.
//   builder script <scripts.ndjson> <trace.ndjson>      scripts: {"ops":[["Emit",n],["Bind",l,n],...]} (from BuilderImpl.tla)
//   builder random <trace.ndjson> <executions> <steps>  seeded by VERIF_SEED
//   builder cpool <trace.ndjson> <executions> <steps>   Compiler programs with functions and local/global constant pools
//   builder probe                                        prints which instruction templates the assemblers refuse
//
// Every execution drives one real emitter (x86::Builder x64 / x86 32-bit, a64::Builder, x86::Compiler used with
// physical registers only) and logs, per call, the call, the payload stored in the node(s) it created and the
// projection of the real node list.  At the end it (1) serialises the list into a recording emitter that forwards
// to an Assembler on a third CodeHolder (calls handed over + position of the first refusal), (2) calls the real
// finalize(), (3) issues the recorded calls in the order of the *abstract* list kept by the harness (and checked
// by BuilderTrace.tla against the contract) to a fresh Assembler on a fresh CodeHolder, and logs both digests.
#include <asmjit/core.h>
#include <asmjit/x86.h>
#include <asmjit/a64.h>
#include <asmjit/core/builder.h>
#include <asmjit/core/compiler.h>
#include <algorithm>
#include <functional>
#include "vjson.h"

using namespace asmjit;

static const char* err_name(Error e) { return e == Error::kOk ? "Ok" : DebugUtils::error_as_string(e); }

// ---------------------------------------------------------------------------------------------------------
// Calls
// ---------------------------------------------------------------------------------------------------------
enum Kind { KInst, KBind, KAlign, KData, KEmbedLabel, KEmbedDelta, KComment, KSection, KConstPool, KUnknown, KFunc, KSentinel, KPool };
static const char* kind_name[] = {"Inst", "Bind", "Align", "Data", "EmbedLabel", "EmbedDelta", "Comment", "Section", "ConstPool", "Unknown", "Func", "Sentinel", "Pool"};

struct Call {
  Kind kind = KUnknown;
  // Inst
  uint32_t inst_id = 0, options = 0, nops = 0;
  uint32_t xr_sig = 0, xr_id = 0;
  Operand_ ops[6];
  bool has_comment = false;
  std::string comment;          // inline comment (Inst) or text (Comment)
  // Bind / EmbedLabel / EmbedDelta / ConstPool
  uint32_t label = 0, base = 0, size = 0;
  // Align
  uint32_t mode = 0, alignment = 0;
  // Data
  uint32_t type_id = 0;
  std::vector<uint8_t> data;
  size_t item_count = 0, repeat = 1;
  // Section
  uint32_t section = 0;
  // ConstPool
  std::vector<std::vector<uint8_t>> items;
  // how the call is issued (not part of the call): 0 default; Inst: 1 = _emit_op_array; Data: 1 = embed(data,size)
  int via = 0;
  int group = 0, gidx = 0;      // nodes recorded by one embed_const_pool call
  // Compiler: Func (label = function label), Sentinel (mode = sentinel type), Pool (label, size, alignment = pool alignment, data = image;
  // items = the constants in the order they were added - harness bookkeeping for the direct run, not node content)
  FuncNode* fn = nullptr;       // Func: the function;  Bind: the function whose exit label this is (harness bookkeeping)

  Call() { for (auto& o : ops) o.reset(); }
};

static void w_u32(vj::W& w, uint32_t v) { w.val((long long)(v & 0xFFFF)); w.val((long long)(v >> 16)); }

static void write_call(vj::W& w, const Call& c) {
  w.beginObj().kv("k", kind_name[c.kind]);
  switch (c.kind) {
    case KInst:
      w.kv("id", c.inst_id).kv("n", c.nops);
      w.key("opt").beginArr(); w_u32(w, c.options); w.endArr();
      w.key("xr").beginArr(); w_u32(w, c.xr_sig); w_u32(w, c.xr_id); w.endArr();
      w.key("ops").beginArr();
      for (int i = 0; i < 6; i++) {
        w.beginArr();
        w_u32(w, c.ops[i]._signature._bits); w_u32(w, c.ops[i]._base_id); w_u32(w, c.ops[i]._data[0]); w_u32(w, c.ops[i]._data[1]);
        w.endArr();
      }
      w.endArr();
      w.kv("hc", c.has_comment).kv("cm", c.comment);
      break;
    case KBind: w.kv("label", c.label); break;
    case KAlign: w.kv("mode", c.mode).kv("al", c.alignment); break;
    case KData:
      w.kv("type", c.type_id).kv("count", (unsigned long long)c.item_count).kv("rep", (unsigned long long)c.repeat);
      w.bytes("data", c.data.data(), c.data.size());
      break;
    case KEmbedLabel: w.kv("label", c.label).kv("size", c.size); break;
    case KEmbedDelta: w.kv("label", c.label).kv("base", c.base).kv("size", c.size); break;
    case KComment: w.kv("hc", c.has_comment).kv("text", c.comment); break;
    case KSection: w.kv("sec", c.section); break;
    case KFunc: w.kv("label", c.label); break;
    case KSentinel: w.kv("mode", c.mode); break;
    case KPool:
      w.kv("label", c.label).kv("size", c.size).kv("al", c.alignment);
      w.bytes("image", c.data.data(), c.data.size());
      break;
    case KConstPool:
      w.kv("label", c.label);
      w.key("items").beginArr();
      for (auto& it : c.items) { w.beginArr(); for (uint8_t b : it) w.val((long long)b); w.endArr(); }
      w.endArr();
      break;
    default: break;
  }
  w.endObj();
}

static uint32_t type_size_for(uint32_t type_id, uint32_t reg_size) {
  TypeId t = TypeUtils::deabstract(TypeId(type_id), TypeUtils::deabstract_delta_of_size(reg_size));
  return TypeUtils::is_valid(t) ? TypeUtils::size_of(t) : 0;
}

// ---------------------------------------------------------------------------------------------------------
// Environment shared by the three CodeHolders of an execution
// ---------------------------------------------------------------------------------------------------------
struct Setup {
  Arch arch = Arch::kX64;
  unsigned nsections = 3;       // .text + user sections
  unsigned nlabels = 6;         // anonymous labels created through the emitter
  unsigned nforeign = 1;        // labels created through the CodeHolder (no LabelNode exists until bind)
  bool foreign_mix = false;     // foreign labels are created before / between the emitter's own labels
  uint32_t diag = 0;            // DiagnosticOptions
  uint32_t enc = 0;             // EncodingOptions
  bool is_a64() const { return arch == Arch::kAArch64; }
  uint32_t reg_size() const { return arch == Arch::kX86 ? 4 : 8; }
};

static void init_code(CodeHolder& code, const Setup& s) {
  code.init(Environment(s.arch));
  static const char* names[] = {".data", ".rodata", ".extra", ".more"};
  for (unsigned i = 1; i < s.nsections; i++) {
    Section* sec = nullptr;
    code.new_section(Out(sec), names[(i - 1) % 4], SIZE_MAX, i == 1 ? SectionFlags::kNone : SectionFlags::kReadOnly, 1u << (i % 4), 0);
  }
}

// Issue one call to any emitter attached to `code`.
static Error issue(BaseEmitter* e, CodeHolder& code, const Call& c) {
  switch (c.kind) {
    case KInst: {
      e->set_inst_options(InstOptions(c.options));
      if (c.xr_sig) { RegOnly r; r.init(OperandSignature::from_bits(c.xr_sig), c.xr_id); e->set_extra_reg(r); }
      if (c.has_comment) e->set_inline_comment(c.comment.c_str());
      Error err;
      if (c.via == 1) err = e->_emit_op_array(c.inst_id, c.ops, c.nops);
      else if (c.via == 2 && e->is_compiler()) {
        // an annotated (indirect) jump: BaseCompiler::emit_annotated_jump() builds the JumpNode itself and has to carry
        // the one-shot state (options, extra register, comment) like every other instruction call
        BaseCompiler* cc = static_cast<BaseCompiler*>(e);
        JumpAnnotation* ann = cc->new_jump_annotation();
        err = ann ? cc->emit_annotated_jump(c.inst_id, c.ops[0], ann) : Error::kOutOfMemory;
      }
      else {
        switch (c.nops) {
          case 0: err = e->_emitI(c.inst_id); break;
          case 1: err = e->_emitI(c.inst_id, c.ops[0]); break;
          case 2: err = e->_emitI(c.inst_id, c.ops[0], c.ops[1]); break;
          case 3: err = e->_emitI(c.inst_id, c.ops[0], c.ops[1], c.ops[2]); break;
          case 4: err = e->_emitI(c.inst_id, c.ops[0], c.ops[1], c.ops[2], c.ops[3]); break;
          case 5: err = e->_emitI(c.inst_id, c.ops[0], c.ops[1], c.ops[2], c.ops[3], c.ops[4]); break;
          default: err = e->_emitI(c.inst_id, c.ops[0], c.ops[1], c.ops[2], c.ops[3], c.ops[4], c.ops[5]); break;
        }
      }
      // the emitter state must not leak into the next call whatever the outcome
      e->reset_inst_options(); e->reset_extra_reg(); e->reset_inline_comment();
      return err;
    }
    case KBind: {
      Error err = e->bind(Label(c.label));
      if (err == Error::kOk && c.fn) err = e->emit_epilog(c.fn->frame());      // exit label of a function: <Epilog> <Return>
      return err;
    }
    case KFunc: {
      Error err = e->bind(Label(c.label));
      if (err == Error::kOk && c.fn) err = e->emit_prolog(c.fn->frame());      // <Prolog>
      return err;
    }
    case KSentinel: return Error::kOk;
    case KAlign: return e->align(AlignMode(c.mode), c.alignment);
    case KData:
      if (c.via == 1) return e->embed(c.data.data(), c.data.size());
      return e->embed_data_array(TypeId(c.type_id), c.data.data(), c.item_count, c.repeat);
    case KEmbedLabel: return e->embed_label(Label(c.label), c.size);
    case KEmbedDelta: return e->embed_label_delta(Label(c.label), Label(c.base), c.size);
    case KComment: return e->comment(c.has_comment ? c.comment.c_str() : nullptr, SIZE_MAX);
    case KSection: return e->section(code.section_by_id(c.section));
    case KPool:
    case KConstPool: {
      Arena arena(1024);
      ConstPool pool(arena);
      for (auto& it : c.items) { size_t off; (void)pool.add(it.data(), it.size(), Out(off)); }
      return e->embed_const_pool(Label(c.label), pool);
    }
    default: return Error::kInvalidState;
  }
}

// What a node stores, as a call.
static Call payload_of(BaseNode* node, uint32_t reg_size) {
  Call c;
  if (node->is_inst()) {
    InstNode* n = node->as<InstNode>();
    c.kind = KInst;
    c.inst_id = n->inst_id();
    // InstOptions::kReserved is the emitters' internal "take the slow path" bit (forced while a logger / diagnostic option
    // is set); Builder::_emit strips it from ordinary nodes, emit_annotated_jump() keeps it - it is not part of the call
    c.options = uint32_t(n->options()) & ~uint32_t(InstOptions::kReserved);
    c.nops = uint32_t(n->op_count());
    c.xr_sig = n->extra_reg().signature().bits();
    c.xr_id = n->extra_reg().id();
    for (size_t i = 0; i < 6 && i < n->op_capacity(); i++) c.ops[i].copy_from(n->op(i));
    c.has_comment = n->has_inline_comment();
    if (c.has_comment) c.comment = n->inline_comment();
  }
  else if (node->is_func()) { c.kind = KFunc; c.label = node->as<FuncNode>()->label_id(); c.fn = node->as<FuncNode>(); }
  else if (node->is_sentinel()) { c.kind = KSentinel; c.mode = uint32_t(node->as<SentinelNode>()->sentinel_type()); }
  else if (node->is_const_pool()) {
    ConstPoolNode* n = node->as<ConstPoolNode>();
    c.kind = KPool; c.label = n->label_id(); c.size = uint32_t(n->size()); c.alignment = uint32_t(n->alignment());
    c.data.resize(n->size());
    if (n->size()) n->const_pool().fill(c.data.data());
  }
  else if (node->is_section()) { c.kind = KSection; c.section = node->as<SectionNode>()->section_id(); }
  else if (node->is_label() && !node->is_const_pool()) { c.kind = KBind; c.label = node->as<LabelNode>()->label_id(); }
  else if (node->is_align()) { c.kind = KAlign; c.mode = uint32_t(node->as<AlignNode>()->align_mode()); c.alignment = node->as<AlignNode>()->alignment(); }
  else if (node->is_embed_data()) {
    EmbedDataNode* n = node->as<EmbedDataNode>();
    c.kind = KData;
    c.type_id = uint32_t(n->type_id());
    c.item_count = n->item_count();
    c.repeat = n->repeat_count();
    size_t sz = n->data_size();
    if (sz > (1u << 20)) sz = 0;
    c.data.assign(n->data(), n->data() + sz);
  }
  else if (node->is_embed_label()) { c.kind = KEmbedLabel; c.label = node->as<EmbedLabelNode>()->label_id(); c.size = node->as<EmbedLabelNode>()->data_size(); }
  else if (node->is_embed_label_delta()) {
    EmbedLabelDeltaNode* n = node->as<EmbedLabelDeltaNode>();
    c.kind = KEmbedDelta; c.label = n->label_id(); c.base = n->base_label_id(); c.size = n->data_size();
  }
  else if (node->is_comment()) { c.kind = KComment; c.has_comment = node->has_inline_comment(); if (c.has_comment) c.comment = node->inline_comment(); }
  return c;
}

// ---------------------------------------------------------------------------------------------------------
// Recording emitter: what serialize_to() hands to its destination; forwards to a real Assembler
// ---------------------------------------------------------------------------------------------------------
struct RecEmitter : public BaseEmitter {
  BaseEmitter* inner = nullptr;
  CodeHolder* icode = nullptr;
  uint32_t reg_size = 8;
  std::vector<Call> calls;
  int perr = 0;

  RecEmitter() : BaseEmitter(EmitterType::kNone) {}
  Error rec(const Call& c, Error err) {
    calls.push_back(c);
    if (err != Error::kOk && !perr) perr = int(calls.size());
    return err;
  }
  Error _emit(InstId inst_id, const Operand_& o0, const Operand_& o1, const Operand_& o2, const Operand_* op_ext) override {
    Call c; c.kind = KInst; c.inst_id = inst_id; c.options = uint32_t(inst_options()) & ~uint32_t(InstOptions::kReserved);
    c.xr_sig = extra_reg().signature().bits(); c.xr_id = extra_reg().id();
    c.ops[0].copy_from(o0); c.ops[1].copy_from(o1); c.ops[2].copy_from(o2);
    for (int i = 0; i < 3; i++) c.ops[3 + i].copy_from(op_ext[i]);
    c.nops = 0;
    if (op_ext[0].is_none()) { if (!o0.is_none()) c.nops = 1; if (!o1.is_none()) c.nops = 2; if (!o2.is_none()) c.nops = 3; }
    else { c.nops = 4; if (!op_ext[1].is_none()) c.nops = 5 + (op_ext[2].is_none() ? 0 : 1); }
    c.has_comment = inline_comment() != nullptr;
    if (c.has_comment) c.comment = inline_comment();
    inner->set_inst_options(inst_options()); inner->set_extra_reg(extra_reg()); inner->set_inline_comment(inline_comment());
    reset_inst_options(); reset_extra_reg(); reset_inline_comment();
    Error err = inner->_emit(inst_id, o0, o1, o2, op_ext);
    inner->reset_inst_options(); inner->reset_extra_reg(); inner->reset_inline_comment();
    return rec(c, err);
  }
  Error section(Section* s) override { Call c; c.kind = KSection; c.section = s->section_id(); return rec(c, inner->section(icode->section_by_id(s->section_id()))); }
  Error bind(const Label& l) override { Call c; c.kind = KBind; c.label = l.id(); return rec(c, inner->bind(l)); }
  Error align(AlignMode m, uint32_t a) override { Call c; c.kind = KAlign; c.mode = uint32_t(m); c.alignment = a; return rec(c, inner->align(m, a)); }
  Error embed(const void* d, size_t n) override {
    Call c; c.kind = KData; c.type_id = uint32_t(TypeId::kUInt8); c.item_count = n; c.repeat = 1;
    c.data.assign((const uint8_t*)d, (const uint8_t*)d + n);
    return rec(c, inner->embed(d, n));
  }
  Error embed_data_array(TypeId t, const void* d, size_t n, size_t r) override {
    Call c; c.kind = KData; c.type_id = uint32_t(t); c.item_count = n; c.repeat = r;
    size_t sz = size_t(type_size_for(uint32_t(t), reg_size)) * n;
    if (sz > (1u << 20)) sz = 0;
    c.data.assign((const uint8_t*)d, (const uint8_t*)d + sz);
    return rec(c, inner->embed_data_array(t, d, n, r));
  }
  Error embed_const_pool(const Label& l, const ConstPool& p) override { Call c; c.kind = KConstPool; c.label = l.id(); return rec(c, inner->embed_const_pool(l, p)); }
  Error embed_label(const Label& l, size_t n) override { Call c; c.kind = KEmbedLabel; c.label = l.id(); c.size = uint32_t(n); return rec(c, inner->embed_label(l, n)); }
  Error embed_label_delta(const Label& l, const Label& b, size_t n) override {
    Call c; c.kind = KEmbedDelta; c.label = l.id(); c.base = b.id(); c.size = uint32_t(n); return rec(c, inner->embed_label_delta(l, b, n));
  }
  Error comment(const char* d, size_t n) override {
    Call c; c.kind = KComment; c.has_comment = d != nullptr;
    if (d) c.comment = n == SIZE_MAX ? std::string(d) : std::string(d, n);
    return rec(c, inner->comment(d, n));
  }
};

// ---------------------------------------------------------------------------------------------------------
// Digest of a CodeHolder: section bytes, label positions, relocations
// ---------------------------------------------------------------------------------------------------------
static std::string dump_code(CodeHolder& code) {
  std::string s;
  char b[160];
  for (Section* sec : code.sections()) {
    snprintf(b, sizeof b, "S%u[%s n=%zu ", sec->section_id(), sec->name(), sec->buffer_size()); s += b;
    for (size_t i = 0; i < sec->buffer_size(); i++) { snprintf(b, sizeof b, "%02x", sec->data()[i]); s += b; }
    s += "] ";
  }
  for (uint32_t i = 0; i < code.label_count(); i++) {
    const LabelEntry& le = code.label_entry_of(i);
    if (le.is_bound()) snprintf(b, sizeof b, "L%u@%u:%llu ", i, le.section_id(), (unsigned long long)le.offset());
    else snprintf(b, sizeof b, "L%u@- ", i);
    s += b;
  }
  for (RelocEntry* re : code.reloc_entries()) {
    uint64_t f = 0; memcpy(&f, &re->_format, sizeof(OffsetFormat) < 8 ? sizeof(OffsetFormat) : 8);
    snprintf(b, sizeof b, "R%u t%u f%llx %u>%u @%llu ", re->_id, unsigned(re->_reloc_type), (unsigned long long)f, re->_source_section_id,
             re->_target_section_id, (unsigned long long)re->_source_offset);
    s += b;
    if (re->_reloc_type == RelocType::kExpression && re->_payload) {
      Expression* ex = (Expression*)(uintptr_t)re->_payload;
      snprintf(b, sizeof b, "x(%u %u:%u %u:%u) ", unsigned(ex->op_type), unsigned(ex->value_type[0]), ex->value[0].label_id, unsigned(ex->value_type[1]), ex->value[1].label_id);
    }
    else snprintf(b, sizeof b, "p%llx ", (unsigned long long)re->_payload);
    s += b;
  }
  snprintf(b, sizeof b, "U%zu", code.unresolved_fixup_count()); s += b;
  return s;
}

static std::string fnv(const std::string& s) {
  uint64_t h = 1469598103934665603ull;
  for (unsigned char c : s) { h ^= c; h *= 1099511628211ull; }
  char b[32]; snprintf(b, sizeof b, "%016llx", (unsigned long long)h);
  return b;
}

// ---------------------------------------------------------------------------------------------------------
// One execution
// ---------------------------------------------------------------------------------------------------------
struct Exec {
  FILE* out;
  Setup su;
  std::string emitter_kind;              // builder | compiler
  CodeHolder code;
  x86::Builder xb; a64::Builder ab; x86::Compiler xc; a64::Compiler ac;
  BaseBuilder* b = nullptr;
  BaseCompiler* cc = nullptr;            // set when the emitter is a Compiler
  // Compiler programs with functions / constant pools ("cmode")
  struct PoolM { bool open = false; uint32_t label = 0; std::vector<std::vector<uint8_t>> items; std::vector<size_t> offs; };
  struct Fn { int f, x, e; FuncNode* node; };
  PoolM lpool, gpool;
  std::vector<Fn> fns;
  int cf = -1;                           // index of the function being generated
  bool cmode = false;
  vj::W w;
  // identities
  std::map<BaseNode*, int> id_of_node;
  std::map<int, BaseNode*> node_of_id;
  std::map<int, Call> call_of;           // payload registered for a node id (what the direct run issues)
  int next_id = 1;
  int next_group = 1;
  // abstract list kept by the harness (checked against the contract by the trace spec)
  std::vector<int> seq;
  int cur = 0;
  bool diverged = false, rejected = false, finished = false;
  Call rejected_call;
  unsigned ncalls = 0;

  Exec(FILE* f, const Setup& s, const std::string& kind) : out(f), su(s), emitter_kind(kind) {
    init_code(code, su);
    if (kind == "compiler") { if (su.is_a64()) { b = &ac; cc = &ac; } else { b = &xc; cc = &xc; } }
    else if (su.is_a64()) b = &ab; else b = &xb;
    code.attach(b);
    b->add_diagnostic_options(DiagnosticOptions(su.diag));
    b->add_encoding_options(EncodingOptions(su.enc));
    create_labels(b, code);
    int n0 = id(b->first_node());
    seq = {n0}; cur = n0;
    call_of[n0] = payload_of(b->first_node(), su.reg_size());
    w.beginObj().kv("e", "Reset").kv("arch", su.arch == Arch::kX64 ? "x64" : su.arch == Arch::kX86 ? "x86" : "a64").kv("emitter", kind)
     .kv("diag", su.diag).kv("enc", su.enc).kv("n0", n0);
    w.key("payload"); write_call(w, call_of[n0]);
    proj();
    w.endObj().emit(out);
  }

  // Labels created through the CodeHolder (or another emitter) have no LabelNode; with foreign_mix they are created
  // BEFORE / BETWEEN the emitter's own labels, so the emitter's label-node table has to skip ids it never saw.
  void create_labels(BaseEmitter* e, CodeHolder& c) {
    unsigned nf = 0;
    for (unsigned i = 0; i < su.nlabels; i++) {
      if (su.foreign_mix && nf < su.nforeign && (i == 0 || i == 3)) { uint32_t lid; (void)c.new_label_id(Out(lid)); nf++; }
      if (i == 2) { Label l = e->new_named_label("named", SIZE_MAX); (void)l; }
      else { Label l = e->new_label(); (void)l; }
    }
    for (; nf < su.nforeign; nf++) { uint32_t lid; (void)c.new_label_id(Out(lid)); }
  }
  unsigned label_count() const { return su.nlabels + su.nforeign; }

  int id(BaseNode* n) {
    if (!n) return 0;
    auto it = id_of_node.find(n);
    if (it != id_of_node.end()) return it->second;
    while (node_of_id.count(next_id)) next_id++;
    id_of_node[n] = next_id; node_of_id[next_id] = n;
    return next_id++;
  }
  void force_id(BaseNode* n, int want) {          // script mode: ids come from the model
    if (!n || id_of_node.count(n)) return;
    if (node_of_id.count(want)) { id(n); return; }
    id_of_node[n] = want; node_of_id[want] = n;
  }

  // projection of the real list (bounded walks: a corrupted list may be cyclic)
  void proj() {
    size_t bound = 2 * id_of_node.size() + 16;
    w.key("p").beginObj();
    w.key("fwd").beginArr();
    { size_t k = 0; for (BaseNode* n = b->first_node(); n && k < bound; n = n->next(), k++) w.val(id(n)); }
    w.endArr();
    w.key("bwd").beginArr();
    { size_t k = 0; for (BaseNode* n = b->last_node(); n && k < bound; n = n->prev(), k++) w.val(id(n)); }
    w.endArr();
    w.kv("cur", id(b->cursor()));
    w.key("act").beginArr();
    for (auto& kv : node_of_id) if (kv.second->is_active()) w.val(kv.first);
    w.endArr();
    w.endObj();
  }
  bool real_matches_model() {
    std::vector<int> f, r;
    size_t bound = 2 * id_of_node.size() + 16, k = 0;
    for (BaseNode* n = b->first_node(); n && k < bound; n = n->next(), k++) f.push_back(id(n));
    k = 0;
    for (BaseNode* n = b->last_node(); n && k < bound; n = n->prev(), k++) r.push_back(id(n));
    std::reverse(r.begin(), r.end());
    return f == seq && r == seq && id(b->cursor()) == cur;
  }
  void after_step() { if (!real_matches_model()) diverged = true; }

  int idx(int n) const { for (size_t i = 0; i < seq.size(); i++) if (seq[i] == n) return int(i); return -1; }
  void model_insert_after(int ref, const std::vector<int>& ns) {
    if (ref == 0) seq.insert(seq.begin(), ns.begin(), ns.end());
    else seq.insert(seq.begin() + idx(ref) + 1, ns.begin(), ns.end());
  }
  bool label_bound_in_model(uint32_t l) const {
    for (int n : seq) { auto it = call_of.find(n); if (it != call_of.end() && it->second.kind == KBind && it->second.label == l) return true; }
    return false;
  }
  bool usable() const { return !diverged && !rejected && !finished; }

  // ---- emitter calls ----
  void emit(Call c, int want_id = 0) {
    if (!usable()) return;
    ncalls++;
    if (c.kind == KSection) return section(c.section, want_id);
    bool wasActive = c.kind == KBind && label_bound_in_model(c.label);
    // nodes that exist before the call (to find the new ones without relying on the cursor alone)
    BaseNode* cur_before = b->cursor();
    BaseNode* after_before = cur_before ? cur_before->next() : b->first_node();
    Error err = issue(b, code, c);
    w.beginObj().kv("e", "Emit").kv("r", err_name(err)).kv("via", c.via);
    w.key("call"); write_call(w, c);
    std::vector<int> ns;
    std::vector<Call> ps;
    if (err == Error::kOk) {
      // new nodes = the chain from the old cursor's successor up to the new cursor
      std::vector<BaseNode*> chain;
      BaseNode* stop = b->cursor();
      size_t guard = 0;
      for (BaseNode* n = cur_before ? cur_before->next() : b->first_node(); n && n != after_before && guard < 8; n = n->next(), guard++) {
        chain.push_back(n);
        if (n == stop) break;
      }
      if (chain.empty() && stop) chain.push_back(stop);        // e.g. a node that was re-linked in place
      int g = chain.size() > 1 ? next_group++ : 0;
      for (size_t i = 0; i < chain.size(); i++) {
        if (want_id && i == 0) force_id(chain[i], want_id);
        ns.push_back(id(chain[i]));
        Call p = payload_of(chain[i], su.reg_size());
        if (c.kind != KConstPool) p.via = c.via;
        p.group = g; p.gidx = int(i);
        ps.push_back(p);
      }
      bool fresh = true;
      for (int n : ns) if (idx(n) >= 0) fresh = false;
      if (fresh) {
        model_insert_after(cur, ns);
        cur = ns.back();
        for (size_t i = 0; i < ns.size(); i++) { call_of[ns[i]] = ps[i]; if (c.kind == KConstPool) call_of[ns[i]].via = 0; }
        if (c.kind == KConstPool && !ns.empty()) { grouped[g] = c; }
      }
      else diverged = true;
    }
    else { rejected = true; rejected_call = c; }
    w.key("ns").beginArr(); for (int n : ns) w.val(n); w.endArr();
    w.key("ps").beginArr(); for (auto& p : ps) write_call(w, p); w.endArr();
    if (c.kind == KBind) w.kv("wasActive", wasActive);
    proj();
    w.endObj().emit(out);
    after_step();
  }
  std::map<int, Call> grouped;

  void bind(uint32_t label, int want_id = 0) {
    if (!usable()) return;
    Call c; c.kind = KBind; c.label = label;
    emit(c, want_id);
  }

  void section(uint32_t s, int want_id = 0) {
    if (!usable() || seq.empty()) return;
    Section* sec = code.section_by_id(s);
    Error err = b->section(sec);
    SectionNode* sn = s < b->section_nodes().size() ? b->section_nodes()[s] : nullptr;
    if (want_id && sn) force_id(sn, want_id);
    int n = id(sn);
    Call payload; if (sn) payload = payload_of(sn, su.reg_size());
    if (err == Error::kOk) {
      int at = -1;
      for (size_t i = 0; i < seq.size(); i++) if (call_of[seq[i]].kind == KSection && call_of[seq[i]].section == s) { at = int(i); break; }
      if (at >= 0) {
        size_t j = at;
        while (j + 1 < seq.size() && call_of[seq[j + 1]].kind != KSection) j++;
        cur = seq[j];
      }
      else { seq.push_back(n); cur = n; call_of[n] = payload; }
    }
    else { rejected = true; rejected_call = Call(); rejected_call.kind = KSection; rejected_call.section = s; }
    w.beginObj().kv("e", "Section").kv("r", err_name(err)).kv("s", s).kv("n", n);
    w.key("payload"); write_call(w, payload);
    proj();
    w.endObj().emit(out);
    after_step();
  }

  // ---- editing ----
  void set_cursor(int n) {
    if (!usable() || (n != 0 && idx(n) < 0)) return;
    b->set_cursor(n ? node_of_id[n] : nullptr);
    cur = n;
    w.beginObj().kv("e", "SetCursor").kv("n", n); proj(); w.endObj().emit(out);
    after_step();
  }
  void add_node(int n) {
    if (!usable() || !node_of_id.count(n) || idx(n) >= 0) return;
    BaseNode* node = node_of_id[n];
    Call p = payload_of(node, su.reg_size()); keep_hidden(p, n);
    b->add_node(node);
    model_insert_after(cur, {n}); cur = n; call_of[n] = p;
    w.beginObj().kv("e", "AddNode").kv("n", n); w.key("payload"); write_call(w, p); proj(); w.endObj().emit(out);
    after_step();
  }
  void add_after(int n, int ref) {
    if (!usable() || !node_of_id.count(n) || idx(n) >= 0 || idx(ref) < 0) return;
    BaseNode* node = node_of_id[n];
    Call p = payload_of(node, su.reg_size()); keep_hidden(p, n);
    b->add_after(node, node_of_id[ref]);
    model_insert_after(ref, {n}); call_of[n] = p;
    w.beginObj().kv("e", "AddAfter").kv("n", n).kv("ref", ref); w.key("payload"); write_call(w, p); proj(); w.endObj().emit(out);
    after_step();
  }
  void add_before(int n, int ref) {
    if (!usable() || !node_of_id.count(n) || idx(n) >= 0 || idx(ref) < 0) return;
    BaseNode* node = node_of_id[n];
    Call p = payload_of(node, su.reg_size()); keep_hidden(p, n);
    b->add_before(node, node_of_id[ref]);
    seq.insert(seq.begin() + idx(ref), n); call_of[n] = p;
    w.beginObj().kv("e", "AddBefore").kv("n", n).kv("ref", ref); w.key("payload"); write_call(w, p); proj(); w.endObj().emit(out);
    after_step();
  }
  void keep_hidden(Call& p, int n) {       // via/group are harness bookkeeping, not node content
    auto it = call_of.find(n);
    if (it != call_of.end()) { p.via = it->second.via; p.group = it->second.group; p.gidx = it->second.gidx; }
  }
  void remove_node(int n) {
    if (!usable() || !node_of_id.count(n)) return;
    int i = idx(n);
    if (i >= 0 && seq.size() == 1) return;              // never empty the list (finalize of an empty list is outside the domain)
    b->remove_node(node_of_id[n]);
    if (i >= 0) {
      if (cur == n) cur = i > 0 ? seq[i - 1] : 0;
      seq.erase(seq.begin() + i);
    }
    w.beginObj().kv("e", "RemoveNode").kv("n", n); proj(); w.endObj().emit(out);
    after_step();
  }
  void remove_nodes(int f, int l) {
    if (!usable() || !node_of_id.count(f) || !node_of_id.count(l)) return;
    int i = idx(f), j = idx(l);
    if (f != l && i >= 0 && (j < 0 || j < i)) return;   // precondition of the API
    if (f == l && i >= 0 && seq.size() == 1) return;
    if (i >= 0 && size_t(j - i + 1) >= seq.size()) return;
    b->remove_nodes(node_of_id[f], node_of_id[l]);
    if (i >= 0) {
      int ci = cur ? idx(cur) : -1;
      if (ci >= i && ci <= j) cur = i > 0 ? seq[i - 1] : 0;
      seq.erase(seq.begin() + i, seq.begin() + j + 1);
    }
    w.beginObj().kv("e", "RemoveNodes").kv("f", f).kv("l", l); proj(); w.endObj().emit(out);
    after_step();
  }
  // a node created through the public new_*_node API, inserted by add_node/add_after/add_before later
  int new_detached_inst(const Call& c) {
    if (!usable()) return 0;
    InstNode* node = nullptr;
    if (b->new_inst_node(Out(node), c.inst_id, InstOptions(c.options), c.nops) != Error::kOk || !node) return 0;
    for (uint32_t i = 0; i < c.nops; i++) node->set_op(i, c.ops[i]);
    node->reset_op_range(c.nops, node->op_capacity());
    if (c.xr_sig) { RegOnly r; r.init(OperandSignature::from_bits(c.xr_sig), c.xr_id); node->set_extra_reg(r); }
    return id(node);
  }

  // ---- Compiler: functions and constant pools ----
  // new_const(scope, data, size): no node is added; the constant goes to the open local/global pool
  bool new_const(unsigned scope, const std::vector<uint8_t>& data, BaseMem& mem_out) {
    if (!usable() || !cc) return false;
    cmode = true;
    BaseMem m;
    Error err;
    if (su.is_a64()) {
      a64::Mem mm = data.size() == 4 && (data[0] & 1) ? ac.new_uint32_const(ConstPoolScope(scope), uint32_t(data[0]) | uint32_t(data[1]) << 8 | uint32_t(data[2]) << 16 | uint32_t(data[3]) << 24)
                                                      : ac.new_const(ConstPoolScope(scope), data.data(), data.size());
      m = mm; err = mm.is_none() ? Error::kInvalidArgument : Error::kOk;
    }
    else {
      x86::Mem mm = data.size() == 4 && (data[0] & 1) ? xc.new_dword_const(ConstPoolScope(scope), uint32_t(data[0]) | uint32_t(data[1]) << 8 | uint32_t(data[2]) << 16 | uint32_t(data[3]) << 24)
                  : data.size() == 1 && (data[0] & 1) ? xc.new_byte_const(ConstPoolScope(scope), data[0])
                                                      : xc.new_const(ConstPoolScope(scope), data.data(), data.size());
      m = mm; err = mm.is_none() ? Error::kInvalidArgument : Error::kOk;
    }
    uint32_t label = m.base_id();
    size_t off = size_t(uint32_t(m.offset_lo32()));
    PoolM& pm = scope == 0 ? lpool : gpool;
    if (err == Error::kOk) {
      if (!pm.open) { pm.open = true; pm.label = label; pm.items.clear(); pm.offs.clear(); }
      pm.items.push_back(data); pm.offs.push_back(off);
    }
    else rejected = true;
    w.beginObj().kv("e", "NewConst").kv("r", err_name(err)).kv("scope", scope).kv("label", label).kv("off", (unsigned long long)off)
     .kv("size", (unsigned long long)data.size()).kv("hasLabelBase", m.has_base_label());
    w.bytes("data", data.data(), data.size());
    proj();
    w.endObj().emit(out);
    after_step();
    mem_out = m;
    return err == Error::kOk;
  }
  bool in_function() const { return cf >= 0; }
  void add_func() {
    if (!usable() || !cc || cf >= 0) return;
    cmode = true;
    FuncNode* fn = cc->add_func(FuncSignature::build<void>());
    w.beginObj().kv("e", "AddFunc").kv("r", fn ? "Ok" : "Error");
    std::vector<int> ns; std::vector<Call> ps;
    if (fn) {
      BaseNode* nodes[3] = {fn, fn->exit_node(), fn->end_node()};
      for (BaseNode* n : nodes) { ns.push_back(id(n)); ps.push_back(payload_of(n, su.reg_size())); }
      model_insert_after(cur, ns);
      cur = ns[0];
      for (int i = 0; i < 3; i++) call_of[ns[i]] = ps[i];
      call_of[ns[1]].fn = fn;                       // the exit label: the direct run emits the epilog after binding it
      fns.push_back({ns[0], ns[1], ns[2], fn});
      cf = int(fns.size()) - 1;
    }
    else rejected = true;
    w.key("ns").beginArr(); for (int n : ns) w.val(n); w.endArr();
    w.key("ps").beginArr(); for (auto& p : ps) write_call(w, p); w.endArr();
    proj();
    w.endObj().emit(out);
    after_step();
  }
  void end_func() {
    if (!usable() || !cc || cf < 0) return;
    Fn fn = fns[cf];
    if (idx(fn.e) < 0) return;
    ConstPoolNode* pool = cc->_const_pools[uint32_t(ConstPoolScope::kLocal)];
    Error err = cc->end_func();
    int n = 0; Call payload;
    if (err == Error::kOk) {
      if (lpool.open) {
        if (pool) { n = id(pool); payload = payload_of(pool, su.reg_size()); }
        // the harness' abstract list: the local pool right before the function's end sentinel
        if (n && idx(n) < 0) { seq.insert(seq.begin() + idx(fn.e), n); call_of[n] = payload; call_of[n].items = lpool.items; }
        else diverged = true;
        lpool.open = false;
      }
      cur = fn.e;
      cf = -1;
    }
    else rejected = true;
    w.beginObj().kv("e", "EndFunc").kv("r", err_name(err)).kv("n", n);
    w.key("payload"); write_call(w, payload);
    proj();
    w.endObj().emit(out);
    after_step();
  }

  // ---- the end of the program ----
  void finalize() {
    if (finished) return;
    finished = true;
    if (diverged || seq.empty()) return;     // the trace is rejected at the diverging step already; a corrupted list is not walked further
    // (1) what serialize_to hands over (third CodeHolder); not for Compiler programs with functions / pools: their
    //     list is completed by finalize() itself (pool flush, prolog/epilog)
    if (!cmode) {
      CodeHolder c3; init_code(c3, su);
      x86::Assembler xa; a64::Assembler aa;
      BaseEmitter* a3 = su.is_a64() ? (BaseEmitter*)&aa : (BaseEmitter*)&xa;
      c3.attach(a3);
      a3->add_diagnostic_options(DiagnosticOptions(su.diag)); a3->add_encoding_options(EncodingOptions(su.enc));
      create_labels(a3, c3);
      RecEmitter rec; rec.inner = a3; rec.icode = &c3; rec.reg_size = su.reg_size();
      (void)b->serialize_to(&rec);
      w.beginObj().kv("e", "Serialize").kv("perr", rec.perr);
      w.key("calls").beginArr();
      for (auto& c : rec.calls) write_call(w, c);
      w.endArr();
      w.endObj().emit(out);
      perr = rec.perr;
    }
    // (2) the real finalize
    Error ferr = b->finalize();
    std::string dumpB = dump_code(code);
    // the list after finalize(): where are the constant pools?
    std::vector<uint32_t> final_pools; bool last_is_pool = false; uint32_t last_label = 0;
    {
      size_t bound = 4 * id_of_node.size() + 64, k = 0;
      for (BaseNode* n = b->first_node(); n && k < bound; n = n->next(), k++) {
        if (n->is_const_pool()) final_pools.push_back(n->as<ConstPoolNode>()->label_id());
        if (!n->next()) { last_is_pool = n->is_const_pool(); if (last_is_pool) last_label = n->as<ConstPoolNode>()->label_id(); }
      }
    }
    // (3) direct run in the order of the abstract list
    CodeHolder c2; init_code(c2, su);
    x86::Assembler xa; a64::Assembler aa;
    BaseEmitter* a2 = su.is_a64() ? (BaseEmitter*)&aa : (BaseEmitter*)&xa;
    c2.attach(a2);
    a2->add_diagnostic_options(DiagnosticOptions(su.diag)); a2->add_encoding_options(EncodingOptions(su.enc));
    create_labels(a2, c2);
    while (c2.label_count() < code.label_count()) { Label l = a2->new_label(); (void)l; }   // function / exit / pool labels
    int errD = 0; Error derr = Error::kOk;
    for (size_t i = 0; i < seq.size() && !errD; ) {
      const Call& c = call_of[seq[i]];
      size_t len = 1;
      Error e;
      if (c.group && c.gidx == 0 && grouped.count(c.group)) {
        // the nodes recorded by one embed_const_pool call, still adjacent and in order -> the original call
        size_t k = 1;
        while (i + k < seq.size() && call_of[seq[i + k]].group == c.group && call_of[seq[i + k]].gidx == int(k)) k++;
        if (k == group_size(c.group)) { len = k; e = issue(a2, c2, grouped[c.group]); }
        else e = issue(a2, c2, c);
      }
      else e = issue(a2, c2, c);
      if (e != Error::kOk) { derr = e; errD = int(i) + 1; if (len > 1 && perr > int(i) && perr <= int(i + len)) errD = perr; }
      i += len;
    }
    if (!errD && gpool.open) {
      // the global pool: embed_const_pool(label, pool) after the last node
      Call gc; gc.kind = KPool; gc.label = gpool.label; gc.items = gpool.items;
      Error e = issue(a2, c2, gc);
      if (e != Error::kOk) { derr = e; errD = int(seq.size()) + 1; }
    }
    if (!errD && rejected) {
      Error e = issue(a2, c2, rejected_call);
      if (e != Error::kOk) { derr = e; errD = int(seq.size()) + 1 + (gpool.open ? 1 : 0); }
    }
    std::string dumpD = dump_code(c2);
    w.beginObj().kv("e", "Finalize");
    w.key("order").beginArr(); for (int n : seq) w.val(n); w.endArr();
    w.kv("dB", fnv(dumpB)).kv("dD", fnv(dumpD)).kv("finOk", ferr == Error::kOk).kv("perr", perr).kv("errD", errD)
     .kv("errB", err_name(ferr)).kv("errDname", err_name(derr)).kv("rej", rejected);
    w.kv("cmode", cmode).kv("lastIsPool", last_is_pool).kv("lastLabel", last_label);
    w.key("finalPools").beginArr(); for (uint32_t l : final_pools) w.val(l); w.endArr();
    if (dumpB != dumpD) { w.kv("dumpB", dumpB.substr(0, 1500)).kv("dumpD", dumpD.substr(0, 1500)); }
    w.endObj().emit(out);
  }
  int perr = 0;
  size_t group_size(int g) const { size_t n = 0; for (auto& kv : call_of) if (kv.second.group == g) n++; return n; }
};

// ---------------------------------------------------------------------------------------------------------
// Call generators
// ---------------------------------------------------------------------------------------------------------
struct Gen {
  vj::Rng& r;
  const Setup& su;
  unsigned nlabels;
  bool no_cf = false;           // no control-flow instructions (Compiler programs with functions: keeps the CFG trivial)
  Gen(vj::Rng& rr, const Setup& s, unsigned nl) : r(rr), su(s), nlabels(nl) {}
  bool x64() const { return su.arch == Arch::kX64; }

  // operand slots: R gp native, D gp32, B gp8, X xmm, Y ymm, Z zmm, M mem, I imm8, J imm32, L label, K mask reg, C cl
  // 'a','c','d','b' = explicit al/ax/eax/rax-like fixed registers (native size), 'e' eax 'f' ecx 'g' edx (32-bit)
  x86::Gp gpn(unsigned id) const { return x64() ? x86::Gp(x86::gpq(id)) : x86::Gp(x86::gpd(id)); }
  unsigned gp_id() { unsigned id = (unsigned)r.below(x64() ? 16 : 8); if (id == 4) id = 3; return id; }     // not sp
  unsigned vec_id(bool evex) { return (unsigned)r.below(x64() ? (evex && r.chance(1, 3) ? 32 : 16) : 8); }
  x86::Mem mem(uint32_t size) {
    switch (r.below(6)) {
      case 0: return x86::ptr(gpn(gp_id()), int32_t(r.below(256)) - 128, size);
      case 1: return x86::ptr(gpn(gp_id()), gpn(gp_id()), (uint32_t)r.below(4), int32_t(r.below(100000)) - 50000, size);
      case 2: return x86::ptr(Label((uint32_t)r.below(nlabels)), int32_t(r.below(64)), size);
      case 3: return x86::ptr(gpn(gp_id()), 0, size);
      case 4: return x64() ? x86::ptr(x86::rip, int32_t(r.below(4096)), size) : x86::ptr_abs(0x1000 + r.below(4096), size);
      default: return x86::ptr(gpn(5), int32_t(r.below(1 << 20)), size);
    }
  }

  struct T { uint32_t id; const char* sig; uint32_t optmask; bool evexk; bool x64only; };

  Call inst_x86() {
    namespace I = x86::Inst;
    const uint32_t LK = uint32_t(InstOptions::kX86_Lock) | uint32_t(InstOptions::kX86_XAcquire) | uint32_t(InstOptions::kX86_XRelease);
    const uint32_t MR = uint32_t(InstOptions::kX86_ModMR) | uint32_t(InstOptions::kX86_ModRM);
    const uint32_t RX = uint32_t(InstOptions::kX86_Rex);
    const uint32_t SL = uint32_t(InstOptions::kShortForm) | uint32_t(InstOptions::kLongForm);
    const uint32_t TK = uint32_t(InstOptions::kTaken) | uint32_t(InstOptions::kNotTaken);
    const uint32_t VX = uint32_t(InstOptions::kX86_Vex3) | uint32_t(InstOptions::kX86_Evex) | uint32_t(InstOptions::kX86_Vex);
    const uint32_t ZM = uint32_t(InstOptions::kX86_ZMask);
    const uint32_t ER = uint32_t(InstOptions::kX86_ER) | uint32_t(InstOptions::kX86_SAE) | uint32_t(InstOptions::kX86_RZ_SAE);
    const uint32_t RP = uint32_t(InstOptions::kX86_Rep) | uint32_t(InstOptions::kX86_Repne);
    static const T tab[] = {
      {I::kIdMov, "RR", MR | RX, false, false}, {I::kIdMov, "RJ", SL | RX, false, false}, {I::kIdMov, "RM", RX, false, false}, {I::kIdMov, "MR", RX, false, false},
      {I::kIdAdd, "RR", MR | RX, false, false}, {I::kIdAdd, "RI", SL, false, false}, {I::kIdAdd, "MR", LK, false, false}, {I::kIdAdd, "RM", 0, false, false},
      {I::kIdSub, "RJ", SL, false, false}, {I::kIdSub, "MI", LK, false, false}, {I::kIdXor, "RR", MR, false, false}, {I::kIdAnd, "MR", LK, false, false},
      {I::kIdOr, "RM", 0, false, false}, {I::kIdCmp, "RR", MR, false, false}, {I::kIdCmp, "MI", 0, false, false}, {I::kIdAdc, "RI", 0, false, false},
      {I::kIdLea, "RM", 0, false, false}, {I::kIdInc, "R", 0, false, false}, {I::kIdDec, "M", LK, false, false}, {I::kIdNeg, "R", 0, false, false}, {I::kIdNot, "M", LK, false, false},
      {I::kIdXchg, "MR", LK, false, false}, {I::kIdXchg, "RR", MR, false, false}, {I::kIdImul, "RRJ", 0, false, false}, {I::kIdImul, "RMI", 0, false, false},
      {I::kIdShl, "RI", 0, false, false}, {I::kIdSar, "RC", 0, false, false}, {I::kIdPush, "R", 0, false, false}, {I::kIdPop, "R", 0, false, false},
      {I::kIdRet, "", 0, false, false}, {I::kIdNop, "", 0, false, false}, {I::kIdInt3, "", 0, false, false},
      {I::kIdJmp, "L", SL, false, false}, {I::kIdJz, "L", SL | TK, false, false}, {I::kIdJnz, "L", SL | TK, false, false}, {I::kIdJb, "L", SL, false, false},
      {I::kIdCall, "L", 0, false, false}, {I::kIdJmp, "R", 0, false, false}, {I::kIdCall, "M", 0, false, false},
      {I::kIdCmpxchg, "MRa", LK, false, false}, {I::kIdDiv, "daR", 0, false, false}, {I::kIdMul, "daR", 0, false, false},
      {I::kIdCmpxchg8b, "Mgefh", LK, false, false}, {I::kIdCmpxchg16b, "Mdacb", LK, false, true},
      {I::kIdMulx, "RRRd", 0, false, false}, {I::kIdMulx, "RRMd", 0, false, false},
      {I::kIdStos, "sa", RP, false, false}, {I::kIdMovs, "st", RP, false, false},
      {I::kIdMovaps, "XX", MR, false, false}, {I::kIdMovups, "XM", 0, false, false}, {I::kIdMovups, "MX", 0, false, false}, {I::kIdAddps, "XX", 0, false, false},
      {I::kIdAddps, "XM", 0, false, false}, {I::kIdPshufd, "XXI", 0, false, false}, {I::kIdPshufd, "XMI", 0, false, false},
      {I::kIdPcmpestri, "XXIfeg", 0, false, false}, {I::kIdPcmpestri, "XXI", 0, false, false}, {I::kIdVpcmpestri, "XXIfeg", VX, false, false},
      {I::kIdVaddps, "XXX", VX | MR, true, false}, {I::kIdVaddps, "YYY", VX, true, false}, {I::kIdVaddps, "ZZZ", ER | ZM, true, false}, {I::kIdVaddps, "XXM", VX, true, false},
      {I::kIdVmulps, "YYM", VX, true, false}, {I::kIdVxorps, "XXX", VX, true, false}, {I::kIdVmovups, "XX", VX | MR, true, false}, {I::kIdVmovups, "MZ", 0, true, false},
      {I::kIdVfmadd231ps, "XXX", VX, true, false}, {I::kIdVfmadd231ps, "ZZM", ZM, true, false},
      {I::kIdVpternlogd, "XXXI", ZM, true, false}, {I::kIdVpternlogd, "ZZZI", ZM, true, false}, {I::kIdVpternlogd, "YYMI", ZM, true, false},
      {I::kIdVshufps, "XXXI", VX, true, false}, {I::kIdVshufps, "YYMI", VX, false, false}, {I::kIdVinsertf128, "YYXI", VX, false, false}, {I::kIdVinsertf128, "YYMI", 0, false, false},
      {I::kIdVblendvps, "XXXX", VX, false, false}, {I::kIdVblendvps, "YYMY", 0, false, false}, {I::kIdVpblendvb, "XXXX", 0, false, false},
      {I::kIdVfmaddps, "XXXX", VX, false, false}, {I::kIdVfmaddps, "XXMX", 0, false, false}, {I::kIdVfmaddps, "XXXM", 0, false, false}, {I::kIdVfmaddps, "YYYY", 0, false, false},
      {I::kIdVpermil2ps, "XXXXI", VX, false, false}, {I::kIdVpermil2ps, "XXMXI", 0, false, false}, {I::kIdVpermil2ps, "XXXMI", 0, false, false}, {I::kIdVpermil2ps, "YYYYI", 0, false, false},
      {I::kIdVextractf128, "XYI", 0, false, false}, {I::kIdKmovw, "KK", 0, false, false}, {I::kIdKmovw, "KD", 0, false, false},
    };
    const size_t N = sizeof tab / sizeof tab[0];
    const T* t;
    auto is_cf = [](const T* t) { return strchr(t->sig, 'L') || t->id == I::kIdRet || t->id == I::kIdInt3 || t->id == I::kIdJmp || t->id == I::kIdCall; };
    do { t = &tab[r.below(N)]; } while ((t->x64only && !x64()) || (no_cf && is_cf(t)));
    return fill_x86(*t);
  }
  static size_t x86_template_count() { return 93; }

  Call fill_x86(const T& t) {
    Call c; c.kind = KInst; c.inst_id = t.id;
    unsigned n = 0;
    for (const char* p = t.sig; *p; p++, n++) {
      Operand_& o = c.ops[n];
      switch (*p) {
        case 'R': o.copy_from(gpn(gp_id())); break;
        case 'D': o.copy_from(x86::gpd(gp_id())); break;
        case 'C': o.copy_from(x86::cl); break;
        case 'X': o.copy_from(x86::xmm(vec_id(t.evexk))); break;
        case 'Y': o.copy_from(x86::ymm(vec_id(t.evexk))); break;
        case 'Z': o.copy_from(x86::zmm(vec_id(true))); break;
        case 'K': o.copy_from(x86::k(1 + (unsigned)r.below(7))); break;
        case 'M': o.copy_from(mem(strchr("XYZ", t.sig[0]) || strchr(t.sig, 'X') || strchr(t.sig, 'Y') || strchr(t.sig, 'Z') ? 0 : su.reg_size())); break;
        case 'I': o.copy_from(Imm(int64_t(r.below(t.id == x86::Inst::kIdVpermil2ps ? 4 : 128)))); break;
        case 'J': o.copy_from(Imm(r.chance(1, 2) ? int64_t(r.below(100)) : int64_t(int32_t(r.next())))); break;
        case 'L': o.copy_from(Label((uint32_t)r.below(nlabels))); break;
        case 'a': o.copy_from(gpn(0)); break;
        case 'c': o.copy_from(gpn(1)); break;
        case 'd': o.copy_from(gpn(2)); break;
        case 'b': o.copy_from(gpn(3)); break;
        case 'e': o.copy_from(x86::eax); break;
        case 'f': o.copy_from(x86::ecx); break;
        case 'g': o.copy_from(x86::edx); break;
        case 'h': o.copy_from(x86::ebx); break;
        case 's': { x86::Mem m = x86::ptr(gpn(7), 0, 1); m.set_segment(x86::es); o.copy_from(m); break; }
        case 't': { x86::Mem m = x86::ptr(gpn(6), 0, 1); o.copy_from(m); break; }
      }
    }
    if (t.id == x86::Inst::kIdStos && n == 2) c.ops[1].copy_from(x86::al);
    c.nops = n;
    // options
    if (t.optmask && r.chance(1, 2)) {
      uint32_t m = t.optmask, pick = 0;
      for (int b = 0; b < 32; b++) if ((m >> b) & 1u) { if (r.chance(1, 3)) pick |= 1u << b; }
      // exclusive pairs: keep at most one of each family to stay mostly valid
      auto one_of = [&](uint32_t a, uint32_t bb) { if ((pick & a) && (pick & bb)) pick &= ~bb; };
      one_of(uint32_t(InstOptions::kShortForm), uint32_t(InstOptions::kLongForm));
      one_of(uint32_t(InstOptions::kX86_ModMR), uint32_t(InstOptions::kX86_ModRM));
      one_of(uint32_t(InstOptions::kX86_Rep), uint32_t(InstOptions::kX86_Repne));
      one_of(uint32_t(InstOptions::kX86_XAcquire), uint32_t(InstOptions::kX86_XRelease));
      one_of(uint32_t(InstOptions::kTaken), uint32_t(InstOptions::kNotTaken));
      one_of(uint32_t(InstOptions::kX86_Vex3), uint32_t(InstOptions::kX86_Evex)); one_of(uint32_t(InstOptions::kX86_Vex3), uint32_t(InstOptions::kX86_Vex));
      one_of(uint32_t(InstOptions::kX86_Evex), uint32_t(InstOptions::kX86_Vex));
      if (pick & (uint32_t(InstOptions::kX86_XAcquire) | uint32_t(InstOptions::kX86_XRelease))) pick |= uint32_t(InstOptions::kX86_Lock);
      if ((pick & uint32_t(InstOptions::kX86_SAE)) || (pick & uint32_t(InstOptions::kX86_RZ_SAE))) pick |= uint32_t(InstOptions::kX86_ER);
      if (!x64()) pick &= ~uint32_t(InstOptions::kX86_Rex);
      c.options = pick;
    }
    if (r.chance(1, 10)) c.options |= uint32_t(r.chance(1, 2) ? InstOptions::kOverwrite : InstOptions::kUnfollow);
    if (!no_cf && r.chance(1, 40)) c.options |= (1u << (1 + r.below(31)));          // any option bit (may make the call invalid)
    // extra register
    if (t.evexk && r.chance(1, 2)) {
      x86::KReg k = x86::k(1 + (unsigned)r.below(7));
      c.xr_sig = k.signature().bits(); c.xr_id = k.id();
      if (r.chance(1, 3) && c.ops[0].is_reg()) c.options |= uint32_t(InstOptions::kX86_ZMask);
    }
    else if ((c.options & (uint32_t(InstOptions::kX86_Rep) | uint32_t(InstOptions::kX86_Repne))) && r.chance(2, 3)) {
      x86::Gp zcx = gpn(1); c.xr_sig = zcx.signature().bits(); c.xr_id = zcx.id();
    }
    else if (r.chance(1, 50)) { x86::Gp g = gpn(gp_id()); c.xr_sig = g.signature().bits(); c.xr_id = g.id(); }
    comment_maybe(c);
    c.via = r.chance(1, 4) ? 1 : 0;
    return c;
  }

  void comment_maybe(Call& c) {
    if (r.chance(1, 3)) {
      static const char* cm[] = {"loop head", "x", "y2", "spill [rsp+8]", "a \"quoted\" remark", "0123456789012345678901234567890123456789"};
      c.has_comment = true; c.comment = cm[r.below(6)];
    }
  }

  Call inst_a64() {
    namespace I = a64::Inst;
    Call c; c.kind = KInst;
    auto X = [&]() { return a64::x((unsigned)r.below(29)); };
    auto W = [&]() { return a64::w((unsigned)r.below(29)); };
    auto D = [&]() { return a64::d((unsigned)r.below(32)); };
    auto L = [&]() { return Label((uint32_t)r.below(nlabels)); };
    auto set = [&](std::initializer_list<Operand_> ops) { unsigned n = 0; for (auto& o : ops) c.ops[n++].copy_from(o); c.nops = n; };
    unsigned pick;
    do { pick = (unsigned)r.below(24); } while (no_cf && ((pick >= 10 && pick <= 13) || pick == 15 || pick == 21));
    switch (pick) {
      case 0: c.inst_id = I::kIdAdd; set({X(), X(), X()}); break;
      case 1: c.inst_id = I::kIdAdd; set({X(), X(), Imm(int64_t(r.below(4096)))}); break;
      case 2: c.inst_id = I::kIdSub; set({W(), W(), W()}); break;
      case 3: c.inst_id = I::kIdMov; set({X(), X()}); break;
      case 4: c.inst_id = I::kIdMov; set({X(), Imm(int64_t(r.below(65536)))}); break;
      case 5: c.inst_id = I::kIdLdr; set({X(), a64::ptr(X(), int32_t(r.below(512)) * 8)}); break;
      case 6: c.inst_id = I::kIdStr; set({W(), a64::ptr(X(), int32_t(r.below(255)))}); break;
      case 7: c.inst_id = I::kIdLdp; set({X(), X(), a64::ptr(a64::sp, int32_t(r.below(32)) * 8)}); break;
      case 8: c.inst_id = I::kIdStp; set({X(), X(), a64::ptr(X(), int32_t(r.below(32)) * 8)}); break;
      case 9: c.inst_id = I::kIdMadd; set({X(), X(), X(), X()}); break;
      case 10: c.inst_id = I::kIdB; set({L()}); break;
      case 11: c.inst_id = BaseInst::compose_arm_inst_id(I::kIdB, arm::CondCode((unsigned)(2 + r.below(14)))); set({L()}); break;
      case 12: c.inst_id = I::kIdCbz; set({X(), L()}); break;
      case 13: c.inst_id = I::kIdTbz; set({X(), Imm(int64_t(r.below(64))), L()}); break;
      case 14: c.inst_id = I::kIdAdr; set({X(), L()}); break;
      case 15: c.inst_id = I::kIdRet; set({a64::x(30)}); break;
      case 16: c.inst_id = I::kIdFmadd_v; set({D(), D(), D(), D()}); break;
      case 17: c.inst_id = I::kIdCsel; set({X(), X(), X(), Imm(int64_t(2 + r.below(14)))}); break;
      case 18: c.inst_id = I::kIdCcmp; set({X(), X(), Imm(int64_t(r.below(16))), Imm(int64_t(2 + r.below(14)))}); break;
      case 19: c.inst_id = I::kIdExtr; set({X(), X(), X(), Imm(int64_t(r.below(64)))}); break;
      case 20: c.inst_id = I::kIdUbfx; set({X(), X(), Imm(int64_t(r.below(32))), Imm(int64_t(1 + r.below(32)))}); break;
      case 21: c.inst_id = I::kIdBl; set({L()}); break;
      case 22: c.inst_id = I::kIdLdr; set({X(), a64::ptr(L())}); break;
      default: c.inst_id = I::kIdBfi; set({W(), W(), Imm(int64_t(r.below(16))), Imm(int64_t(1 + r.below(16)))}); break;
    }
    if (r.chance(1, 60)) c.options |= (1u << (1 + r.below(31)));
    comment_maybe(c);
    c.via = r.chance(1, 4) ? 1 : 0;
    return c;
  }

  Call inst() { return su.is_a64() ? inst_a64() : inst_x86(); }

  Call align() {
    Call c; c.kind = KAlign; c.mode = (uint32_t)r.below(3);
    static const uint32_t al[] = {0, 1, 2, 4, 8, 16, 32, 64};
    c.alignment = al[r.below(8)];
    if (su.is_a64() && c.mode == 0 && c.alignment && c.alignment < 4) c.alignment = 4;
    return c;
  }
  Call data() {
    Call c; c.kind = KData;
    if (r.chance(1, 3)) {          // raw embed
      c.via = 1; c.type_id = uint32_t(TypeId::kUInt8); c.item_count = r.below(20); c.repeat = 1;
      c.data.resize(c.item_count);
    }
    else {
      static const TypeId types[] = {TypeId::kInt8, TypeId::kUInt8, TypeId::kInt16, TypeId::kUInt16, TypeId::kInt32, TypeId::kUInt32, TypeId::kInt64, TypeId::kUInt64,
                                     TypeId::kFloat32, TypeId::kFloat64, TypeId::kIntPtr, TypeId::kUIntPtr};
      c.type_id = uint32_t(types[r.below(12)]);
      c.item_count = r.below(6);
      static const size_t reps[] = {1, 1, 2, 3, 4, 0, 7};
      c.repeat = reps[r.below(7)];
      c.data.resize(c.item_count * type_size_for(c.type_id, su.reg_size()));
    }
    for (auto& x : c.data) x = (uint8_t)r.below(256);
    if (c.data.empty()) c.data.reserve(1);
    return c;
  }
  Call embed_label() { Call c; c.kind = KEmbedLabel; c.label = (uint32_t)r.below(nlabels); static const uint32_t sz[] = {0, 4, 8, 0, 8}; c.size = sz[r.below(5)]; if (su.arch == Arch::kX86 && c.size == 8) c.size = 4; return c; }
  Call embed_delta() {
    Call c; c.kind = KEmbedDelta; c.label = (uint32_t)r.below(nlabels); c.base = (uint32_t)r.below(nlabels);
    static const uint32_t sz[] = {0, 1, 2, 4, 8}; c.size = sz[r.below(5)]; return c;
  }
  Call comment() {
    Call c; c.kind = KComment; c.has_comment = true;
    static const char* cm[] = {"; section start", "c", "block 7", "a rather long comment that goes on and on and on and on and on and on", "\ttabbed"};
    c.comment = cm[r.below(5)];
    return c;
  }
  Call const_pool(uint32_t label) {
    Call c; c.kind = KConstPool; c.label = label;
    unsigned n = (unsigned)r.below(4);
    static const size_t sizes[] = {1, 2, 4, 8, 16, 32};
    for (unsigned i = 0; i < n; i++) {
      std::vector<uint8_t> it(sizes[r.below(6)]);
      for (auto& x : it) x = (uint8_t)(1 + r.below(3));
      c.items.push_back(it);
    }
    return c;
  }
  // calls every emitter must refuse (context free)
  Call invalid() {
    Call c;
    switch (r.below(6)) {
      case 0: c.kind = KEmbedLabel; c.label = (uint32_t)r.below(nlabels); c.size = 3; break;
      case 1: c.kind = KEmbedDelta; c.label = 0; c.base = 1; c.size = 5; break;
      case 2: c.kind = KData; c.type_id = uint32_t(TypeId::kVoid); c.item_count = 2; c.repeat = 1; c.data.resize(8); break;
      case 3: c.kind = KConstPool; c.label = nlabels + 40; break;
      case 4: c.kind = KBind; c.label = nlabels + 7; break;
      default: c.kind = KEmbedLabel; c.label = nlabels + 3; c.size = 0; break;
    }
    return c;
  }
};

// ---------------------------------------------------------------------------------------------------------
// random mode
// ---------------------------------------------------------------------------------------------------------
static void random_exec(FILE* out, vj::Rng& r, unsigned x, unsigned steps) {
  Setup su;
  std::string kind = "builder";
  switch (x % 4) {
    case 0: su.arch = Arch::kX64; break;
    case 1: su.arch = Arch::kX86; break;
    case 2: su.arch = Arch::kAArch64; break;
    default: su.arch = Arch::kX64; kind = "compiler"; break;
  }
  su.nsections = 1 + (unsigned)r.below(4);
  su.nlabels = 4 + (unsigned)r.below(5);
  su.nforeign = (unsigned)r.below(3);
  su.foreign_mix = r.chance(1, 2);
  if (r.chance(1, 4)) su.diag |= uint32_t(DiagnosticOptions::kValidateAssembler);
  if (r.chance(1, 6)) su.diag |= uint32_t(DiagnosticOptions::kValidateIntermediate) | uint32_t(DiagnosticOptions::kValidateAssembler);
  if (!su.is_a64() && r.chance(1, 4)) su.enc |= uint32_t(EncodingOptions::kOptimizeForSize);
  if (!su.is_a64() && r.chance(1, 5)) su.enc |= uint32_t(EncodingOptions::kOptimizedAlign);
  Exec ex(out, su, kind);
  unsigned nl = ex.label_count();
  Gen g(r, su, nl);
  std::vector<bool> bound(nl, false);
  uint32_t pool_label = nl;           // dedicated labels for constant pools are created on demand? no: labels are fixed up front
  (void)pool_label;
  bool want_double_bind = r.chance(1, 14);
  bool want_invalid = r.chance(1, 8);
  unsigned n = 4 + (unsigned)r.below(steps);
  std::vector<int> detached;           // nodes that were removed or never inserted
  for (unsigned i = 0; i < n && ex.usable(); i++) {
    unsigned c = (unsigned)r.below(100);
    if (c < 3 && kind == "compiler" && su.arch == Arch::kX64) {
      Call jc; jc.kind = KInst; jc.inst_id = x86::Inst::kIdJmp; jc.nops = 1; jc.via = 2;
      jc.ops[0].copy_from(x86::gpq(unsigned(r.below(16))));
      jc.options = r.chance(2, 3) ? uint32_t(InstOptions::kX86_Rex) : 0u;
      if (r.chance(1, 3)) { jc.has_comment = true; jc.comment = "annotated"; }
      ex.emit(jc);
    }
    else if (c < 40) ex.emit(g.inst());
    else if (c < 48) {                                   // bind: a label not bound yet (in the model)
      std::vector<uint32_t> free_;
      for (uint32_t l = 0; l < nl; l++) if (!ex.label_bound_in_model(l) && !bound[l]) free_.push_back(l);
      if (!free_.empty()) { uint32_t l = r.pick(free_); bound[l] = true; ex.bind(l); }
    }
    else if (c < 53) ex.emit(g.align());
    else if (c < 61) ex.emit(g.data());
    else if (c < 65) ex.emit(g.embed_label());
    else if (c < 69) ex.emit(g.embed_delta());
    else if (c < 73) ex.emit(g.comment());
    else if (c < 76) {                                   // constant pool on a label that is never bound otherwise
      std::vector<uint32_t> free_;
      for (uint32_t l = 0; l < nl; l++) if (!bound[l]) free_.push_back(l);
      if (!free_.empty()) { uint32_t l = r.pick(free_); bound[l] = true; ex.emit(g.const_pool(l)); }
    }
    else if (c < 81) ex.section((uint32_t)r.below(su.nsections));
    else if (c < 86) {                                   // cursor moves
      if (r.chance(1, 8)) ex.set_cursor(0);
      else if (!ex.seq.empty()) ex.set_cursor(r.pick(ex.seq));
    }
    else if (c < 90) {                                   // remove one node (sometimes the cursor, sometimes an inactive one)
      if (ex.seq.size() > 1) {
        int nd = r.chance(1, 3) && ex.cur ? ex.cur : r.pick(ex.seq);
        if (r.chance(1, 10) && !detached.empty()) nd = r.pick(detached);
        bool was = ex.idx(nd) >= 0;
        ex.remove_node(nd);
        if (was && ex.idx(nd) < 0) detached.push_back(nd);
      }
    }
    else if (c < 94) {                                   // remove a range (often containing the cursor)
      if (ex.seq.size() > 2) {
        size_t i0 = r.below(ex.seq.size()), i1 = r.below(ex.seq.size());
        if (r.chance(1, 2) && ex.cur) { size_t ci = ex.idx(ex.cur); i0 = ci > 0 ? ci - r.below(2) : ci; i1 = std::min(ex.seq.size() - 1, ci + r.below(3)); }
        if (i0 > i1) std::swap(i0, i1);
        if (i1 - i0 + 1 < ex.seq.size()) {
          std::vector<int> gone(ex.seq.begin() + i0, ex.seq.begin() + i1 + 1);
          ex.remove_nodes(ex.seq[i0], ex.seq[i1]);
          for (int nd : gone) if (ex.idx(nd) < 0) detached.push_back(nd);
        }
      }
    }
    else if (c < 99) {                                   // re-insert a removed node / insert a node made by new_inst_node
      int nd = 0;
      if (!detached.empty() && r.chance(4, 5)) { size_t k = r.below(detached.size()); nd = detached[k]; detached.erase(detached.begin() + k); }
      else { Call ic = g.inst(); ic.has_comment = false; ic.comment.clear(); ic.via = 0; nd = ex.new_detached_inst(ic); }
      if (nd && ex.idx(nd) < 0 && !ex.seq.empty()) {
        // a label node may only come back if its label was not bound again meanwhile (it is the same node, so it cannot)
        switch (r.below(3)) {
          case 0: ex.add_node(nd); break;
          case 1: ex.add_after(nd, r.pick(ex.seq)); break;
          default: ex.add_before(nd, r.pick(ex.seq)); break;
        }
      }
    }
    else if (want_double_bind) {                         // bind a label whose node is part of the code
      std::vector<uint32_t> act;
      for (uint32_t l = 0; l < nl; l++) if (ex.label_bound_in_model(l)) act.push_back(l);
      if (!act.empty()) { if (!ex.seq.empty() && r.chance(1, 2)) ex.set_cursor(ex.seq.back()); ex.bind(r.pick(act)); }
    }
  }
  if (ex.usable() && want_invalid && !ex.seq.empty()) {
    ex.set_cursor(ex.seq.back());
    ex.emit(g.invalid());
  }
  ex.finalize();
}

// ---------------------------------------------------------------------------------------------------------
// cpool mode: Compiler programs with functions and local / global constant pools (physical registers only)
// ---------------------------------------------------------------------------------------------------------
static void cpool_exec(FILE* out, vj::Rng& r, unsigned x, unsigned steps) {
  Setup su;
  switch (x % 4) {
    case 0: su.arch = Arch::kX64; break;
    case 1: su.arch = Arch::kAArch64; break;
    case 2: su.arch = Arch::kX86; break;
    default: su.arch = Arch::kX64; break;
  }
  su.nsections = 1 + (unsigned)r.below(3);
  su.nlabels = 4 + (unsigned)r.below(3);
  su.nforeign = (unsigned)r.below(2);
  su.foreign_mix = r.chance(1, 2);
  if (r.chance(1, 6)) su.diag |= uint32_t(DiagnosticOptions::kValidateAssembler);
  if (!su.is_a64() && r.chance(1, 4)) su.enc |= uint32_t(EncodingOptions::kOptimizeForSize);
  Exec ex(out, su, "compiler");
  unsigned nl = ex.label_count();
  Gen g(r, su, nl);
  g.no_cf = true;
  std::vector<bool> bound(nl, false);
  std::vector<std::vector<uint8_t>> consts;           // everything added so far (to draw duplicates from)

  // nodes between a function's exit label (inclusive) and its end sentinel (exclusive): code placed there would follow the epilog
  auto in_tail = [&](int n) {
    int i = ex.idx(n);
    for (auto& f : ex.fns) { int a = ex.idx(f.x), b = ex.idx(f.e); if (a >= 0 && b >= 0 && i >= a && i < b) return true; }
    return false;
  };
  auto in_region = [&](int n) {
    if (!n) return false;
    int i = ex.idx(n);
    for (auto& f : ex.fns) { int a = ex.idx(f.f), b = ex.idx(f.e); if (a >= 0 && b >= 0 && i >= a && i < b) return true; }
    return false;
  };
  auto move_cursor = [&]() {
    if (ex.seq.empty()) return;
    int t;
    switch (r.below(6)) {
      case 0: t = ex.seq.front(); break;                                   // the first node
      case 1: t = 0; break;                                                // before the first node
      case 2: t = ex.seq.back(); break;
      default: t = r.pick(ex.seq); break;                                  // somewhere in the middle
    }
    if (t && in_tail(t)) return;
    ex.set_cursor(t);
  };
  auto rand_const = [&]() {
    static const size_t sizes[] = {1, 2, 4, 4, 8, 8, 16, 32, 64};
    if (!consts.empty() && r.chance(1, 3)) return r.pick(consts);          // a duplicate: must be shared
    std::vector<uint8_t> d(sizes[r.below(9)]);
    for (auto& b : d) b = (uint8_t)(1 + r.below(3));
    if (d.size() >= 8 && r.chance(1, 2)) for (size_t i = 0; i < d.size(); i++) d[i] = d[i % 4];   // halves/quarters collide
    return d;
  };
  auto use_const = [&](const BaseMem& m, size_t size) {
    Call c; c.kind = KInst;
    if (su.is_a64()) {
      namespace I = a64::Inst;
      if (size == 8) { c.inst_id = I::kIdLdr; c.ops[0].copy_from(a64::x((unsigned)r.below(29))); }
      else if (size == 4) { c.inst_id = I::kIdLdr; c.ops[0].copy_from(a64::w((unsigned)r.below(29))); }
      else if (size == 16) { c.inst_id = I::kIdLdr_v; c.ops[0].copy_from(a64::q((unsigned)r.below(32))); }
      else return;
      c.ops[1].copy_from(m); c.nops = 2;
    }
    else {
      namespace I = x86::Inst;
      bool x64 = su.arch == Arch::kX64;
      unsigned gid = (unsigned)r.below(x64 ? 16 : 8); if (gid == 4) gid = 3;
      unsigned vid = (unsigned)r.below(x64 ? 16 : 8);
      switch (size) {
        case 1: c.inst_id = I::kIdMovzx; c.ops[0].copy_from(x86::gpd(gid)); break;
        case 2: c.inst_id = r.chance(1, 2) ? I::kIdMovzx : I::kIdMovsx; c.ops[0].copy_from(x86::gpd(gid)); break;
        case 4: c.inst_id = r.chance(1, 2) ? I::kIdMov : I::kIdAdd; c.ops[0].copy_from(x86::gpd(gid)); break;
        case 8: if (x64) { c.inst_id = r.chance(1, 2) ? I::kIdMov : I::kIdXor; c.ops[0].copy_from(x86::gpq(gid)); } else { c.inst_id = I::kIdMovq; c.ops[0].copy_from(x86::xmm(vid)); } break;
        case 16: c.inst_id = r.chance(1, 2) ? I::kIdMovaps : I::kIdPaddd; c.ops[0].copy_from(x86::xmm(vid)); break;
        case 32: c.inst_id = I::kIdVmovups; c.ops[0].copy_from(x86::ymm(vid)); break;
        default: c.inst_id = I::kIdVmovups; c.ops[0].copy_from(x86::zmm(vid)); break;
      }
      c.ops[1].copy_from(m); c.nops = 2;
    }
    g.comment_maybe(c);
    ex.emit(c);
  };

  unsigned n = 6 + (unsigned)r.below(steps);
  unsigned nfuncs = 0;
  for (unsigned i = 0; i < n && ex.usable(); i++) {
    unsigned c = (unsigned)r.below(100);
    if (c < 28) ex.emit(g.inst());
    else if (c < 52) {                                   // a constant and (mostly) an instruction that references it
      unsigned scope = ex.in_function() && r.chance(3, 5) ? 0u : 1u;
      std::vector<uint8_t> d = rand_const();
      BaseMem m;
      if (ex.new_const(scope, d, m)) { consts.push_back(d); if (r.chance(4, 5)) use_const(m, d.size()); }
    }
    else if (c < 64) {                                   // functions
      if (!ex.in_function()) { if (ex.cur && !in_region(ex.cur) && nfuncs < 4) { ex.add_func(); nfuncs++; } }
      else {
        if (r.chance(1, 2)) { if (r.chance(1, 2)) move_cursor(); else ex.section((uint32_t)r.below(su.nsections)); }   // the cursor is elsewhere at end_func
        ex.end_func();
      }
    }
    else if (c < 72) ex.section((uint32_t)r.below(su.nsections));
    else if (c < 82) move_cursor();
    else if (c < 88) { switch (r.below(3)) { case 0: ex.emit(g.data()); break; case 1: ex.emit(g.comment()); break; default: ex.emit(g.align()); break; } }
    else if (c < 92) {
      std::vector<uint32_t> free_;
      for (uint32_t l = 0; l < nl; l++) if (!bound[l]) free_.push_back(l);
      if (!free_.empty() && !in_tail(ex.cur ? ex.cur : ex.seq.front())) { uint32_t l = r.pick(free_); bound[l] = true; ex.bind(l); }
    }
    else ex.emit(g.inst());
    // never leave the cursor behind an epilog while the program goes on
    if (ex.usable() && ex.cur && in_tail(ex.cur) && !ex.in_function()) ex.set_cursor(ex.fns.back().e);
  }
  if (ex.usable() && ex.in_function()) {
    if (r.chance(1, 2)) { if (r.chance(1, 2)) move_cursor(); else ex.section((uint32_t)r.below(su.nsections)); }
    ex.end_func();
  }
  // the cursor is anywhere when finalize() is called: the global pool must not care
  if (ex.usable() && r.chance(3, 4)) { if (r.chance(2, 3)) move_cursor(); else ex.section((uint32_t)r.below(su.nsections)); }
  ex.finalize();
}

// ---------------------------------------------------------------------------------------------------------
// script mode: edit scripts exported by TLC from BuilderImpl.tla
// ---------------------------------------------------------------------------------------------------------
static void script_exec(FILE* out, const vj::Value& s, unsigned x, vj::Rng& r) {
  Setup su;
  std::string kind = "builder";
  switch (x % 4) {
    case 0: su.arch = Arch::kX64; break;
    case 1: su.arch = Arch::kX86; break;
    case 2: su.arch = Arch::kAArch64; break;
    default: su.arch = Arch::kX64; kind = "compiler"; break;
  }
  su.nsections = 2; su.nlabels = 4; su.nforeign = 1;
  Exec ex(out, su, kind);
  ex.force_id(ex.b->first_node(), 1);
  Gen g(r, su, ex.label_count());
  unsigned k = 0;
  for (auto& op : s["ops"].arr) {
    const std::string& name = op[0].s();
    if (name == "Emit") {
      int n = (int)op[1].i();
      Call c;
      switch ((x + k++) % 7) {
        case 0: case 1: case 2: c = g.inst(); break;
        case 3: c = g.data(); break;
        case 4: c = g.align(); break;
        case 5: c = g.comment(); break;
        default: c = g.embed_delta(); c.label = 0; c.base = 1; break;
      }
      // jumps to labels the script may never bind are fine (unresolved fixups are part of the digest)
      ex.emit(c, n);
    }
    else if (name == "Bind") ex.bind((uint32_t)op[1].i() - 1, (int)op[2].i());
    else if (name == "Section") ex.section((uint32_t)op[1].i(), (int)op[2].i());
    else if (name == "SetCursor") ex.set_cursor((int)op[1].i());
    else if (name == "AddNode") ex.add_node((int)op[1].i());
    else if (name == "AddAfter") ex.add_after((int)op[1].i(), (int)op[2].i());
    else if (name == "AddBefore") ex.add_before((int)op[1].i(), (int)op[2].i());
    else if (name == "Remove") ex.remove_node((int)op[1].i());
    else if (name == "RemoveRange") ex.remove_nodes((int)op[1].i(), (int)op[2].i());
  }
  ex.finalize();
}

int main(int argc, char** argv) {
  if (argc < 2) { fprintf(stderr, "usage\n"); return 3; }
  std::string mode = argv[1];
  if (mode == "script" && argc >= 4) {
    auto scripts = vj::read_ndjson(argv[2]);
    FILE* out = fopen(argv[3], "w");
    vj::install_abort_handlers(out);
    vj::Rng r(vj::env_seed());
    unsigned x = 0;
    for (auto& s : scripts) script_exec(out, s, x++, r);
    fclose(out);
    return 0;
  }
  if (mode == "random" && argc >= 5) {
    FILE* out = fopen(argv[2], "w");
    vj::install_abort_handlers(out);
    unsigned nexec = (unsigned)atoi(argv[3]), steps = (unsigned)atoi(argv[4]);
    vj::Rng r(vj::env_seed());
    for (unsigned x = 0; x < nexec; x++) random_exec(out, r, x, steps);
    fclose(out);
    return 0;
  }
  if (mode == "cpool" && argc >= 5) {
    FILE* out = fopen(argv[2], "w");
    vj::install_abort_handlers(out);
    unsigned nexec = (unsigned)atoi(argv[3]), steps = (unsigned)atoi(argv[4]);
    vj::Rng r(vj::env_seed());
    for (unsigned x = 0; x < nexec; x++) cpool_exec(out, r, x, steps);
    fclose(out);
    return 0;
  }
  if (mode == "probe") {
    // which generated instructions do the assemblers refuse?  (development aid)
    vj::Rng r(vj::env_seed());
    for (int arch = 0; arch < 3; arch++) {
      Setup su; su.arch = arch == 0 ? Arch::kX64 : arch == 1 ? Arch::kX86 : Arch::kAArch64;
      Gen g(r, su, su.nlabels + su.nforeign);
      std::map<std::string, std::pair<int, int>> stat;
      for (int i = 0; i < 20000; i++) {
        CodeHolder code; init_code(code, su);
        x86::Assembler xa; a64::Assembler aa;
        BaseEmitter* a = su.is_a64() ? (BaseEmitter*)&aa : (BaseEmitter*)&xa;
        code.attach(a);
        for (unsigned l = 0; l < su.nlabels + su.nforeign; l++) (void)a->new_label();
        Call c = g.inst();
        Error e = issue(a, code, c);
        char key[96]; snprintf(key, sizeof key, "arch%d id=%u n=%u %s", arch, c.inst_id, c.nops, e == Error::kOk ? "" : err_name(e));
        auto& st = stat[std::string(key)];
        st.first++;
      }
      for (auto& kv : stat) if (kv.first.find("  ") == std::string::npos && kv.first.back() != ' ') printf("%s : %d\n", kv.first.c_str(), kv.second.first);
    }
    return 0;
  }
  fprintf(stderr, "usage\n");
  return 3;
}
