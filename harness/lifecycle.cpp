// C16 harness: reset / reinit / reuse of CodeHolder and emitters leaves no residue.
//
//   lifecycle script <scripts.ndjson> <trace.ndjson>
//       one execution per line:  {"cfg":{"arch":"x64"|"a64","static":<bytes of user-supplied arena memory, 0 = none>,"logk":0|1|2,"validate":0|1,"perturb":0|1,
//                                        "kinds":["asm","builder","compiler"]},
//                                 "ops":[["Init",h],["ResetH",h,hard],["Reinit",h],["Attach",e,h],["Detach",e,h],
//                                        ["HLog",h,on],["ELog",e,on],["HEh",h,on],["EEh",e,on],["Gen",e,p],["Seal",h],["Fail",e],
//                                        ["Destroy",e],["Create",e]]}
//   lifecycle random <trace.ndjson> <executions> <actions>
//       seeded random histories (legal w.r.t. spec/code/Lifecycle.tla), random configuration per execution
//
// After every action the harness logs the *projection* of all holders and emitters (only what the API exposes: counts,
// attachment list in both directions, code pointer, logger/handler identity, Builder/Compiler private containers'
// sizes).  For Gen it logs the digest of the holder (sections, labels, relocations, address table, flattened and
// relocated image) and the digest of the same generate-sequence executed on FRESH objects (fresh CodeHolder with
// dynamic arena, fresh emitter per program, no logger, no validation).  Nothing is compared here - the trace spec
// LifecycleTrace.tla does; the "diff" field is only a human-readable hint for the report.
#include <asmjit/core.h>
#include <asmjit/x86.h>
#include <asmjit/a64.h>
#include "vjson.h"
#include <string>
#include <vector>
#include <functional>

using namespace asmjit;

enum Kind { kAsm = 0, kBuilder = 1, kCompiler = 2 };
static const char* kind_name(int k) { return k < 0 ? "seal" : k == kAsm ? "asm" : k == kBuilder ? "builder" : "compiler"; }
static int kind_of(const std::string& s) { return s == "asm" ? kAsm : s == "builder" ? kBuilder : kCompiler; }

static const int NPROG = 9;
// minimal emitter kind each program needs (P1,P2,P7 any emitter; P3 builder-level node edits; P4..P6 compiler;
// P8 = unfinished emission (cursor in the middle / open function, NO finalize): Builder or Compiler)
// P9 = Compiler program with local AND global constants abandoned after end_func(), before finalize()
static int prog_rank(int p) { return (p <= 2 || p == 7) ? kAsm : (p == 3 || p == 8) ? kBuilder : kCompiler; }
static bool prog_finalizes(int p) { return p != 8 && p != 9; }

struct ErrAcc {
  Error first = Error::kOk;
  int n = 0, idx = -1;      // idx = ordinal of the first failing call (diagnostics only)
  void operator()(Error e) { n++; if (first == Error::kOk && e != Error::kOk) { first = e; idx = n; } }
  bool ok() const { return first == Error::kOk; }
};

// =========================================================================================================
// Programs (deterministic, parametrised only by the program id and by the holder's state = earlier calls)
// =========================================================================================================
// The lookup compares only the bytes of the name itself, so that what a program does never depends on the bytes a
// Section happens to have after its name (CodeHolder::section_by_name() does; the digest reports such bytes).
static Section* get_or_new_section(CodeHolder& code, const char* name, uint32_t align, int32_t order, ErrAcc& E) {
  size_t n = strlen(name);
  for (Section* s : code.sections()) if (memcmp(s->name(), name, n) == 0 && s->alignment() == align && s->order() == order) return s;
  Section* s = nullptr;
  E(code.new_section(Out(s), name, SIZE_MAX, SectionFlags::kNone, align, order));
  return s;
}

static void fill_pool(ConstPool& pool, unsigned k, Label&, size_t offs[3], ErrAcc& E) {
  uint64_t q = 0x1122334455667788ull + k;
  uint32_t d = 0xCAFE0000u + k;
  uint8_t v16[16];
  for (int i = 0; i < 16; i++) v16[i] = uint8_t(0x10 * k + i);
  E(pool.add(&q, 8, Out(offs[0])));
  E(pool.add(&d, 4, Out(offs[1])));
  E(pool.add(v16, 16, Out(offs[2])));
}

// ---- x86-64 -------------------------------------------------------------------------------------------------
// P1: labels (named, forward, backward), align, const pool, absolute label embeds (relocations), a .data section with
//     a cross-section reference, embed_label_delta
static void x86_p1(BaseEmitter* em, CodeHolder& code, unsigned k, ErrAcc& E) {
  x86::Emitter* x = em->as<x86::Emitter>();
  E(em->section(code.text_section()));
  char nm[48];
  snprintf(nm, sizeof nm, "fn_%u_%u", k, unsigned(code.label_count()));
  Label entry = em->new_named_label(nm);
  Label loop = em->new_label(), done = em->new_label(), ldata = em->new_label(), lpool = em->new_label();
  snprintf(nm, sizeof nm, "loc_%u", unsigned(code.label_count()));
  Label local = em->new_named_label(nm, SIZE_MAX, LabelType::kLocal, entry.id());
  E(em->bind(entry));
  E(x->mov(x86::eax, 7 + k));
  E(x->xor_(x86::ecx, x86::ecx));
  E(em->bind(loop));
  E(x->add(x86::eax, x86::ecx));
  E(x->inc(x86::ecx));
  E(x->cmp(x86::ecx, 10 + k));
  E(x->jb(loop));
  E(x->lea(x86::rdx, x86::ptr(ldata)));
  E(x->mov(x86::rsi, x86::qword_ptr(lpool)));
  E(x->jmp(done));
  E(em->bind(local));
  E(x->movaps(x86::xmm1, x86::ptr(lpool, 16)));
  E(em->align(AlignMode::kCode, 16));
  E(em->bind(done));
  E(x->ret());
  {
    Arena arena(1024);
    ConstPool pool(arena);
    size_t offs[3];
    fill_pool(pool, k, lpool, offs, E);
    E(em->embed_const_pool(lpool, pool));
  }
  E(em->embed_label(entry));
  E(em->embed_label_delta(done, entry, 4));
  Section* data = get_or_new_section(code, ".data", 8, 1, E);
  if (data) {
    E(em->section(data));
    E(em->bind(ldata));
    uint8_t bytes[13];
    for (int i = 0; i < 13; i++) bytes[i] = uint8_t(0xA0 + i + k);
    E(em->embed(bytes, sizeof bytes));
    uint32_t vals[3] = {0x11111111u * (k + 1), 2, 3};
    E(em->embed_data_array(TypeId::kUInt32, vals, 3, 2 + k % 2));
    E(em->align(AlignMode::kData, 8));
    E(em->embed_label(done));
    E(em->section(code.text_section()));
  }
}

// P2: absolute call/jmp targets (address table + AbsToRel relocations), mov imm64, a 32-byte aligned .rodata section,
//     long/short forms
static void x86_p2(BaseEmitter* em, CodeHolder& code, unsigned k, ErrAcc& E) {
  x86::Emitter* x = em->as<x86::Emitter>();
  E(em->section(code.text_section()));
  Label top = em->new_label(), tail = em->new_label(), ro = em->new_label();
  E(em->bind(top));
  E(x->push(x86::rbx));
  E(x->mov(x86::rbx, uint64_t(0x0123456789ABCDEFull) + k));
  E(x->call(imm(uint64_t(0x00007F1200000000ull) + 0x1000 * k)));
  E(x->call(imm(uint64_t(0x00007F1300000040ull))));
  E(x->call(imm(uint64_t(0x00007F1000100000ull))));      // within rel32 reach of the base address, if the holder knows one
  E(x->test(x86::eax, x86::eax));
  E(x->jz(tail));
  E(x->vmovdqu(x86::ymm2, x86::ptr(ro)));
  E(x->vpaddd(x86::ymm2, x86::ymm2, x86::ptr(ro, 32)));
  E(x->long_().jmp(top));
  E(em->bind(tail));
  E(x->pop(x86::rbx));
  E(x->jmp(imm(uint64_t(0x00007F1200000000ull) + 0x1000 * k)));
  Section* rod = get_or_new_section(code, ".rodata", 32, 2, E);
  if (rod) {
    E(em->section(rod));
    E(em->align(AlignMode::kData, 32));
    E(em->bind(ro));
    uint64_t q[8];
    for (int i = 0; i < 8; i++) q[i] = 0x0101010101010101ull * uint64_t(i + k);
    E(em->embed_data_array(TypeId::kUInt64, q, 8, 1));
    E(em->embed_label(top));
    E(em->section(code.text_section()));
  }
}

// P3: Builder-level program with node edits (remove, insert at a saved cursor, align/comment/label nodes)
static void x86_p3(BaseEmitter* em, CodeHolder& code, unsigned k, ErrAcc& E) {
  x86::Emitter* x = em->as<x86::Emitter>();
  BaseBuilder* b = static_cast<BaseBuilder*>(em);
  E(em->section(code.text_section()));
  Label l1 = em->new_label(), l2 = em->new_label();
  E(x->mov(x86::eax, 1)); BaseNode* n1 = b->cursor();
  E(x->add(x86::eax, 2)); BaseNode* n2 = b->cursor();
  E(x->sub(x86::eax, 3)); BaseNode* n3 = b->cursor();
  E(em->bind(l1));
  E(x->imul(x86::eax, x86::eax, 5 + k));
  E(x->dec(x86::edx));
  E(x->jnz(l1));
  E(b->comment("edited region"));
  E(x->jmp(l2));
  uint8_t pad[5] = {1, 2, 3, 4, uint8_t(k)};
  E(em->embed(pad, 5));
  E(em->bind(l2));
  E(x->ret());
  // edits
  b->remove_node(n2);
  BaseNode* saved = b->set_cursor(n1);
  E(x->nop());
  E(x->lea(x86::rax, x86::ptr(x86::rax, 4 + k)));
  b->set_cursor(saved);
  AlignNode* an = nullptr;
  E(b->new_align_node(Out(an), AlignMode::kCode, 8));
  if (an) b->add_after(an, n3);
  LabelNode* ln = nullptr;
  E(b->new_label_node(Out(ln)));
  if (ln) b->add_before(ln, n3);
  CommentNode* cn = nullptr;
  E(b->new_comment_node(Out(cn), "inserted", 8));
  if (cn) b->add_after(cn, n1);
  // a removed range
  BaseNode* c0 = b->cursor();
  E(x->int3()); BaseNode* r0 = b->cursor();
  E(x->int3());
  E(x->int3()); BaseNode* r1 = b->cursor();
  b->remove_nodes(r0, r1);
  (void)c0;
}

// P4: compiler function with more live values than registers (spills), a stack slot, a call, local+global constants
static void x86_func_spill(x86::Compiler& cc, unsigned k, ErrAcc& E, Label* self_out = nullptr, const Label* callee = nullptr, ConstPoolScope gscope = ConstPoolScope::kGlobal, std::vector<x86::Gp>* shared = nullptr) {
  FuncNode* fn = cc.add_func(FuncSignature::build<uint32_t, uint32_t, uint32_t, void*>());
  if (!fn) { E(Error::kOutOfMemory); return; }
  if (self_out) *self_out = fn->label();
  const unsigned NV = 20;
  // `shared`: virtual registers that live in the Compiler across functions (created by the first user)
  x86::Gp v[NV];
  for (unsigned i = 0; i < NV; i++) {
    if (shared && shared->size() > i) v[i] = (*shared)[i];
    else { v[i] = cc.new_gp32("v%u", i); if (shared) shared->push_back(v[i]); }
  }
  x86::Gp p = cc.new_gp_ptr("p");
  x86::Vec f = cc.new_xmm_sd("f");
  fn->set_arg(0, v[0]);
  fn->set_arg(1, v[1]);
  fn->set_arg(2, p);
  // P4's slot is over-aligned (dynamic stack alignment in its frame); the same function body in P6/P9 keeps the natural
  // alignment, so anything the allocator's per-function state keeps from an earlier function shows in a later frame
  x86::Mem stk = cc.new_stack(64, (k == 4 || k == 6) ? 64 : 16, "stk");   // k == 6: the FIRST of P6's three functions
  x86::Mem c0 = cc.new_int32_const(ConstPoolScope::kLocal, int32_t(1000 + k));
  x86::Mem c1 = cc.new_double_const(gscope, 1.5 + k);
  uint8_t c16v[16]; for (int i = 0; i < 16; i++) c16v[i] = uint8_t(0x30 + i + k);
  x86::Mem c2 = cc.new_const(gscope, c16v, 16);
  x86::Vec f2 = cc.new_xmm("f2");
  for (unsigned i = 2; i < NV; i++) { E(cc.mov(v[i], v[i & 1])); E(cc.add(v[i], int(i * 3 + k))); }
  Label lp = cc.new_label();
  E(cc.bind(lp));
  for (unsigned i = 2; i < NV; i++) E(cc.add(v[0], v[i]));
  x86::Mem s0 = stk.clone_adjusted(8); s0.set_size(4);
  E(cc.mov(s0, v[3]));
  E(cc.add(v[0], c0));
  E(cc.movsd(f, c1));
  E(cc.movaps(f2, c2));
  E(cc.paddd(f2, f2));
  E(cc.cvttsd2si(v[4], f));
  InvokeNode* inv = nullptr;
  if (callee) E(cc.invoke(Out(inv), *callee, FuncSignature::build<uint32_t, uint32_t, uint32_t, void*>()));
  else E(cc.invoke(Out(inv), imm(uint64_t(0x00007F2200001000ull)), FuncSignature::build<uint32_t, uint32_t, uint32_t, void*>()));
  if (inv) { inv->set_arg(0, v[4]); inv->set_arg(1, v[5]); inv->set_arg(2, p); inv->set_ret(0, v[6]); }
  E(cc.add(v[0], v[6]));
  E(cc.add(v[0], s0));
  E(cc.dec(v[1]));
  E(cc.jnz(lp));
  for (unsigned i = 7; i < NV; i++) E(cc.xor_(v[0], v[i]));
  E(cc.mov(x86::dword_ptr(p, 4), v[0]));
  E(cc.ret(v[0]));
  E(cc.end_func());
}
static void x86_p4(BaseEmitter* em, CodeHolder&, unsigned k, ErrAcc& E) {
  x86_func_spill(*static_cast<x86::Compiler*>(em), k, E);
}

// P5: compiler function with a jump table (jump annotation) + table data after the function
static void x86_func_jtab(x86::Compiler& cc, unsigned k, ErrAcc& E) {
  FuncNode* fn = cc.add_func(FuncSignature::build<uint32_t, uint32_t, uint32_t>());
  if (!fn) { E(Error::kOutOfMemory); return; }
  x86::Gp a = cc.new_gp32("a"), b = cc.new_gp32("b");
  x86::Gp idx = cc.new_gp_ptr("idx"), off = cc.new_gp_ptr("off"), tgt = cc.new_gp_ptr("tgt");
  fn->set_arg(0, a);
  fn->set_arg(1, b);
  Label table = cc.new_label(), out = cc.new_label();
  Label cs[4];
  for (auto& l : cs) l = cc.new_label();
  E(cc.mov(idx.r32(), a));
  E(cc.and_(idx.r32(), 3));
  E(cc.lea(off, x86::ptr(table)));
  E(cc.movsxd(tgt, x86::dword_ptr(off, idx, 2)));
  E(cc.add(tgt, off));
  JumpAnnotation* ann = cc.new_jump_annotation();
  if (!ann) { E(Error::kOutOfMemory); return; }
  for (auto& l : cs) E(ann->add_label(l));
  E(cc.jmp(tgt, ann));
  for (unsigned i = 0; i < 4; i++) {
    E(cc.bind(cs[i]));
    switch (i) {
      case 0: E(cc.add(a, b)); break;
      case 1: E(cc.sub(a, b)); break;
      case 2: E(cc.imul(a, b)); break;
      default: E(cc.xor_(a, int(k + 77))); break;
    }
    E(cc.jmp(out));
  }
  E(cc.bind(out));
  E(cc.ret(a));
  E(cc.end_func());
  E(cc.align(AlignMode::kData, 4));
  E(cc.bind(table));
  for (auto& l : cs) E(cc.embed_label_delta(l, table, 4));
}
static void x86_p5(BaseEmitter* em, CodeHolder&, unsigned k, ErrAcc& E) {
  x86_func_jtab(*static_cast<x86::Compiler*>(em), k, E);
}

// P6: one compiler reused for several functions before a single finalize (the third calls the first through its
// label).  part = 0: all three; part = 1..3: only that function (the fresh run compiles each with its own Compiler)
static void x86_p6(BaseEmitter* em, CodeHolder&, unsigned k, ErrAcc& E, int part, Label& first) {
  x86::Compiler& cc = *static_cast<x86::Compiler*>(em);
  std::vector<x86::Gp> shared;      // the first and the third function use the SAME virtual registers when one Compiler builds both
  if (part == 0 || part == 1) x86_func_spill(cc, k, E, &first, nullptr, ConstPoolScope::kLocal, &shared);
  if (part == 0 || part == 2) x86_func_jtab(cc, k + 1, E);
  if (part == 0 || part == 3) x86_func_spill(cc, k + 2, E, nullptr, &first, ConstPoolScope::kLocal, &shared);
}

// ---- AArch64 ------------------------------------------------------------------------------------------------
static void a64_p1(BaseEmitter* em, CodeHolder& code, unsigned k, ErrAcc& E) {
  a64::Emitter* a = em->as<a64::Emitter>();
  E(em->section(code.text_section()));
  char nm[48];
  snprintf(nm, sizeof nm, "fn_%u_%u", k, unsigned(code.label_count()));
  Label entry = em->new_named_label(nm);
  Label loop = em->new_label(), done = em->new_label(), ldata = em->new_label(), lpool = em->new_label();
  snprintf(nm, sizeof nm, "loc_%u", unsigned(code.label_count()));
  Label local = em->new_named_label(nm, SIZE_MAX, LabelType::kLocal, entry.id());
  E(em->bind(entry));
  E(a->mov(a64::w0, 7 + k));
  E(a->mov(a64::w1, 0));
  E(em->bind(loop));
  E(a->add(a64::w0, a64::w0, a64::w1));
  E(a->add(a64::w1, a64::w1, 1));
  E(a->cmp(a64::w1, 10 + k));
  E(a->b_lo(loop));
  E(a->adr(a64::x2, ldata));
  E(a->ldr(a64::x3, a64::ptr(lpool)));
  E(a->cbz(a64::x3, done));
  E(a->b(done));
  E(em->bind(local));
  E(a->ldr(a64::q1, a64::ptr(lpool)));
  E(em->align(AlignMode::kCode, 16));
  E(em->bind(done));
  E(a->ret(a64::x30));
  {
    Arena arena(1024);
    ConstPool pool(arena);
    size_t offs[3];
    fill_pool(pool, k, lpool, offs, E);
    E(em->embed_const_pool(lpool, pool));
  }
  E(em->embed_label(entry));
  E(em->embed_label_delta(done, entry, 4));
  Section* data = get_or_new_section(code, ".data", 8, 1, E);
  if (data) {
    E(em->section(data));
    E(em->bind(ldata));
    uint8_t bytes[12];
    for (int i = 0; i < 12; i++) bytes[i] = uint8_t(0xA0 + i + k);
    E(em->embed(bytes, sizeof bytes));
    uint32_t vals[3] = {0x11111111u * (k + 1), 2, 3};
    E(em->embed_data_array(TypeId::kUInt32, vals, 3, 2 + k % 2));
    E(em->align(AlignMode::kData, 8));
    E(em->embed_label(done));
    E(em->section(code.text_section()));
  }
}

static void a64_p2(BaseEmitter* em, CodeHolder& code, unsigned k, ErrAcc& E) {
  a64::Emitter* a = em->as<a64::Emitter>();
  E(em->section(code.text_section()));
  Label top = em->new_label(), tail = em->new_label(), ro = em->new_label(), far = em->new_label();
  E(em->bind(top));
  E(a->stp(a64::x29, a64::x30, a64::ptr_pre(a64::sp, -16)));
  E(a->mov(a64::x9, uint64_t(0x0123456789ABCDEFull) + k));
  E(a->bl(far));
  E(a->tbz(a64::x0, 3, tail));
  E(a->adrp(a64::x4, ro));
  E(a->ldr(a64::q2, a64::ptr(a64::x4)));
  E(a->add(a64::v2.s4(), a64::v2.s4(), a64::v2.s4()));
  E(a->b(top));
  E(em->bind(tail));
  E(a->ldp(a64::x29, a64::x30, a64::ptr_post(a64::sp, 16)));
  E(a->ret(a64::x30));
  E(em->bind(far));
  E(a->add(a64::x0, a64::x0, 1 + k));
  E(a->ret(a64::x30));
  Section* rod = get_or_new_section(code, ".rodata", 32, 2, E);
  if (rod) {
    E(em->section(rod));
    E(em->align(AlignMode::kData, 32));
    E(em->bind(ro));
    uint64_t q[8];
    for (int i = 0; i < 8; i++) q[i] = 0x0101010101010101ull * uint64_t(i + k);
    E(em->embed_data_array(TypeId::kUInt64, q, 8, 1));
    E(em->embed_label(top));
    E(em->section(code.text_section()));
  }
}

static void a64_p3(BaseEmitter* em, CodeHolder& code, unsigned k, ErrAcc& E) {
  a64::Emitter* a = em->as<a64::Emitter>();
  BaseBuilder* b = static_cast<BaseBuilder*>(em);
  E(em->section(code.text_section()));
  Label l1 = em->new_label(), l2 = em->new_label();
  E(a->mov(a64::w0, 1)); BaseNode* n1 = b->cursor();
  E(a->add(a64::w0, a64::w0, 2)); BaseNode* n2 = b->cursor();
  E(a->sub(a64::w0, a64::w0, 3)); BaseNode* n3 = b->cursor();
  E(em->bind(l1));
  E(a->mov(a64::w5, 5 + k));
  E(a->mul(a64::w0, a64::w0, a64::w5));
  E(a->subs(a64::w2, a64::w2, 1));
  E(a->b_ne(l1));
  E(b->comment("edited region"));
  E(a->b(l2));
  uint8_t pad[8] = {1, 2, 3, 4, uint8_t(k), 0, 0, 0};
  E(em->embed(pad, 8));
  E(em->bind(l2));
  E(a->ret(a64::x30));
  b->remove_node(n2);
  BaseNode* saved = b->set_cursor(n1);
  E(a->nop());
  E(a->add(a64::x0, a64::x0, 4 + k));
  b->set_cursor(saved);
  AlignNode* an = nullptr;
  E(b->new_align_node(Out(an), AlignMode::kCode, 8));
  if (an) b->add_after(an, n3);
  LabelNode* ln = nullptr;
  E(b->new_label_node(Out(ln)));
  if (ln) b->add_before(ln, n3);
  CommentNode* cn = nullptr;
  E(b->new_comment_node(Out(cn), "inserted", 8));
  if (cn) b->add_after(cn, n1);
  E(a->brk(1)); BaseNode* r0 = b->cursor();
  E(a->brk(2));
  E(a->brk(3)); BaseNode* r1 = b->cursor();
  b->remove_nodes(r0, r1);
}

static void a64_func_spill(a64::Compiler& cc, unsigned k, ErrAcc& E, Label* self_out = nullptr, const Label* callee = nullptr, ConstPoolScope gscope = ConstPoolScope::kGlobal, std::vector<a64::Gp>* shared = nullptr) {
  FuncNode* fn = cc.add_func(FuncSignature::build<uint32_t, uint32_t, uint32_t, void*>());
  if (!fn) { E(Error::kOutOfMemory); return; }
  if (self_out) *self_out = fn->label();
  const unsigned NV = 34;
  a64::Gp v[NV];
  for (unsigned i = 0; i < NV; i++) {
    if (shared && shared->size() > i) v[i] = (*shared)[i];
    else { v[i] = cc.new_gp32("v%u", i); if (shared) shared->push_back(v[i]); }
  }
  a64::Gp p = cc.new_gp_ptr("p");
  a64::Vec f = cc.new_vec_d("f");
  fn->set_arg(0, v[0]);
  fn->set_arg(1, v[1]);
  fn->set_arg(2, p);
  a64::Mem stk = cc.new_stack(64, 16, "stk");
  a64::Mem c0 = cc.new_int32_const(ConstPoolScope::kLocal, int32_t(1000 + k));
  double dv = 1.5 + k;
  a64::Mem c1 = cc.new_const(gscope, &dv, 8);
  uint8_t c16v[16]; for (int i = 0; i < 16; i++) c16v[i] = uint8_t(0x30 + i + k);
  a64::Mem c2 = cc.new_const(gscope, c16v, 16);
  a64::Vec f2 = cc.new_vec_q("f2");
  for (unsigned i = 2; i < NV; i++) { E(cc.add(v[i], v[i & 1], int(i * 3 + k))); }
  Label lp = cc.new_label();
  E(cc.bind(lp));
  for (unsigned i = 2; i < NV; i++) E(cc.add(v[0], v[0], v[i]));
  E(cc.str(v[3], stk.clone_adjusted(8)));
  a64::Gp t = cc.new_gp32("t");
  E(cc.ldr(t, c0));
  E(cc.add(v[0], v[0], t));
  E(cc.ldr(f, c1));
  E(cc.ldr(f2, c2));
  E(cc.add(f2.s4(), f2.s4(), f2.s4()));
  E(cc.fcvtzs(v[4], f));
  InvokeNode* inv = nullptr;
  if (callee) {
    a64::Gp ct = cc.new_gp_ptr("ct");
    E(cc.adr(ct, *callee));
    E(cc.invoke(Out(inv), ct, FuncSignature::build<uint32_t, uint32_t, uint32_t, void*>()));
  }
  else {
    a64::Gp ct = cc.new_gp_ptr("ct");
    E(cc.mov(ct, uint64_t(0x00007F2200001000ull)));
    E(cc.invoke(Out(inv), ct, FuncSignature::build<uint32_t, uint32_t, uint32_t, void*>()));
  }
  if (inv) { inv->set_arg(0, v[4]); inv->set_arg(1, v[5]); inv->set_arg(2, p); inv->set_ret(0, v[6]); }
  E(cc.add(v[0], v[0], v[6]));
  E(cc.ldr(t, stk.clone_adjusted(8)));
  E(cc.add(v[0], v[0], t));
  E(cc.subs(v[1], v[1], 1));
  E(cc.b_ne(lp));
  for (unsigned i = 7; i < NV; i++) E(cc.eor(v[0], v[0], v[i]));
  E(cc.str(v[0], a64::ptr(p, 4)));
  E(cc.ret(v[0]));
  E(cc.end_func());
}
static void a64_p4(BaseEmitter* em, CodeHolder&, unsigned k, ErrAcc& E) {
  a64_func_spill(*static_cast<a64::Compiler*>(em), k, E);
}

static void a64_func_jtab(a64::Compiler& cc, unsigned k, ErrAcc& E) {
  FuncNode* fn = cc.add_func(FuncSignature::build<uint32_t, uint32_t, uint32_t>());
  if (!fn) { E(Error::kOutOfMemory); return; }
  a64::Gp a = cc.new_gp32("a"), b = cc.new_gp32("b");
  a64::Gp idx = cc.new_gp_ptr("idx"), off = cc.new_gp_ptr("off"), tgt = cc.new_gp_ptr("tgt");
  fn->set_arg(0, a);
  fn->set_arg(1, b);
  Label table = cc.new_label(), out = cc.new_label();
  Label cs[4];
  for (auto& l : cs) l = cc.new_label();
  E(cc.and_(idx.w(), a, 3));
  E(cc.adr(tgt, table));
  E(cc.ldrsw(off, a64::ptr(tgt, idx, a64::lsl(2))));
  E(cc.add(tgt, tgt, off));
  JumpAnnotation* ann = cc.new_jump_annotation();
  if (!ann) { E(Error::kOutOfMemory); return; }
  for (auto& l : cs) E(ann->add_label(l));
  E(cc.br(tgt, ann));
  for (unsigned i = 0; i < 4; i++) {
    E(cc.bind(cs[i]));
    switch (i) {
      case 0: E(cc.add(a, a, b)); break;
      case 1: E(cc.sub(a, a, b)); break;
      case 2: E(cc.mul(a, a, b)); break;
      default: E(cc.eor(a, a, b)); E(cc.add(a, a, int(k + 77))); break;
    }
    E(cc.b(out));
  }
  E(cc.bind(out));
  E(cc.ret(a));
  E(cc.end_func());
  E(cc.align(AlignMode::kData, 4));
  E(cc.bind(table));
  for (auto& l : cs) E(cc.embed_label_delta(l, table, 4));
}
static void a64_p5(BaseEmitter* em, CodeHolder&, unsigned k, ErrAcc& E) {
  a64_func_jtab(*static_cast<a64::Compiler*>(em), k, E);
}
static void a64_p6(BaseEmitter* em, CodeHolder&, unsigned k, ErrAcc& E, int part, Label& first) {
  a64::Compiler& cc = *static_cast<a64::Compiler*>(em);
  std::vector<a64::Gp> shared;
  if (part == 0 || part == 1) a64_func_spill(cc, k, E, &first, nullptr, ConstPoolScope::kLocal, &shared);
  if (part == 0 || part == 2) a64_func_jtab(cc, k + 1, E);
  if (part == 0 || part == 3) a64_func_spill(cc, k + 2, E, nullptr, &first, ConstPoolScope::kLocal, &shared);
}

// P7: emits code, then moves to a user section and STAYS there - the emitter's current section at the time of the next
// reset / reinit / detach is not .text.  Unlike the other programs it does not blindly start with section(.text): an
// Assembler is moved to the end of .text only when its current section really is a section of this holder (pointer
// identity, nothing is dereferenced; other emitters may have appended meanwhile).  An Assembler that was just attached
// or reinitialised is in .text by contract; a section pointer that is NOT one of the holder's sections (left over from
// before a reinit) is used as it is, exactly as user code emitting right after reinit() would.
static void p7_stay(Arch arch, BaseEmitter* em, int kind, CodeHolder& code, unsigned k, ErrAcc& E) {
  if (kind == kAsm) {
    BaseAssembler* a = static_cast<BaseAssembler*>(em);
    for (Section* s : code.sections()) if (s == a->_section) { E(a->section(code.text_section())); break; }
  }
  if (arch == Arch::kX64) {
    x86::Emitter* x = em->as<x86::Emitter>();
    E(x->mov(x86::eax, 0x700 + k));
    E(x->add(x86::eax, x86::edx));
  }
  else {
    a64::Emitter* a = em->as<a64::Emitter>();
    E(a->mov(a64::w0, 0x700 + k));
    E(a->add(a64::w0, a64::w0, a64::w1));
  }
  Section* user = get_or_new_section(code, ".stay", 4, 3, E);
  if (user) {
    E(em->section(user));
    uint32_t vals[2] = {0x57A757A7u, k};
    E(em->embed_data_array(TypeId::kUInt32, vals, 2, 1));
  }
  em->set_inline_comment("pending comment");     // per-instruction state left behind (only affects logging)
}

// A pass a user added to a Builder/Compiler (never run by P8/P9 - the programs are abandoned before finalize)
class NopPass : public Pass {
public:
  explicit NopPass(BaseBuilder& cb) noexcept : Pass(cb, "VerifNopPass") {}
  Error run(Arena&, Logger*) override { return Error::kOk; }
};

// constants of several sizes in BOTH const-pool scopes + instructions that reference them (x86-64)
static void x86_consts(x86::Compiler& cc, unsigned k, const x86::Gp& v0, ErrAcc& E) {
  x86::Gp t = cc.new_gp32("ct"), t64 = cc.new_gp64("ct64");
  x86::Vec x0 = cc.new_xmm("cx0"), y0 = cc.new_ymm("cy0");
  uint8_t blob[32];
  for (int i = 0; i < 32; i++) blob[i] = uint8_t(0x40 + i + k);
  x86::Mem lb = cc.new_byte_const(ConstPoolScope::kLocal, uint8_t(0x11 + k));
  x86::Mem lw = cc.new_word_const(ConstPoolScope::kLocal, uint16_t(0x2222 + k));
  x86::Mem ld = cc.new_dword_const(ConstPoolScope::kLocal, 0x33333333u + k);
  x86::Mem l16 = cc.new_const(ConstPoolScope::kLocal, blob, 16);
  x86::Mem gq = cc.new_qword_const(ConstPoolScope::kGlobal, 0x4444444444444444ull + k);
  x86::Mem gd = cc.new_dword_const(ConstPoolScope::kGlobal, 0x55555555u + k);
  x86::Mem g16 = cc.new_const(ConstPoolScope::kGlobal, blob + 8, 16);
  x86::Mem g32 = cc.new_const(ConstPoolScope::kGlobal, blob, 32);
  E(cc.movzx(t, lb));
  E(cc.add(v0, t));
  E(cc.movzx(t, lw));
  E(cc.add(v0, t));
  E(cc.add(v0, ld));
  E(cc.movaps(x0, l16));
  E(cc.mov(t64, gq));
  E(cc.add(v0, t64.r32()));
  E(cc.xor_(v0, gd));
  E(cc.paddd(x0, g16));
  E(cc.vmovups(y0, g32));
  E(cc.vpaddd(y0, y0, y0));
}
static void a64_consts(a64::Compiler& cc, unsigned k, const a64::Gp& v0, ErrAcc& E) {
  a64::Gp t = cc.new_gp32("ct"), t64 = cc.new_gp64("ct64");
  a64::Vec q0 = cc.new_vec_q("cq0"), q1 = cc.new_vec_q("cq1");
  uint8_t blob[32];
  for (int i = 0; i < 32; i++) blob[i] = uint8_t(0x40 + i + k);
  (void)cc.new_byte_const(ConstPoolScope::kLocal, uint8_t(0x11 + k));
  (void)cc.new_half_const(ConstPoolScope::kLocal, uint16_t(0x2222 + k));
  a64::Mem ld = cc.new_word_const(ConstPoolScope::kLocal, 0x33333333u + k);
  a64::Mem l16 = cc.new_const(ConstPoolScope::kLocal, blob, 16);
  a64::Mem gq = cc.new_dword_const(ConstPoolScope::kGlobal, 0x4444444444444444ull + k);
  a64::Mem gd = cc.new_word_const(ConstPoolScope::kGlobal, 0x55555555u + k);
  a64::Mem g16 = cc.new_const(ConstPoolScope::kGlobal, blob + 8, 16);
  (void)cc.new_const(ConstPoolScope::kGlobal, blob, 32);
  E(cc.ldr(t, ld));
  E(cc.add(v0, v0, t));
  E(cc.ldr(q0, l16));
  E(cc.ldr(t64, gq));
  E(cc.add(v0, v0, t64.w()));
  E(cc.ldr(t, gd));
  E(cc.eor(v0, v0, t));
  E(cc.ldr(q1, g16));
  E(cc.add(q0.s4(), q0.s4(), q1.s4()));
}

// per-instruction state an emitter holds between calls (options / extra register / inline comment of the NEXT instruction)
static void leave_pending(Arch arch, BaseEmitter* em) {
  em->set_inline_comment("pending comment");
  em->add_inst_options(InstOptions::kLongForm);
  if (arch == Arch::kX64) em->set_extra_reg(x86::k1);
}

// P8: unfinished emission.  Builder: nodes + a label, a user section, an added pass, cursor moved into the middle,
// pending instruction options.  Compiler: additionally an OPEN function (no end_func) with virtual registers, a stack
// slot, a jump annotation and constants in the local AND the global pool.  Never finalized.
static void p8_open(Arch arch, BaseEmitter* em, int kind, CodeHolder& code, unsigned k, ErrAcc& E) {
  BaseBuilder* b = static_cast<BaseBuilder*>(em);
  E(b->add_pass<NopPass>());
  if (arch == Arch::kX64) {
    if (kind == kCompiler) {
      x86::Compiler& cc = *static_cast<x86::Compiler*>(em);
      FuncNode* fn = cc.add_func(FuncSignature::build<uint32_t, uint32_t>());
      if (!fn) { E(Error::kOutOfMemory); return; }
      x86::Gp v0 = cc.new_gp32("o0"), v1 = cc.new_gp32("o1");
      fn->set_arg(0, v0);
      x86::Mem st = cc.new_stack(16, 4, "ost");
      x86_consts(cc, k, v0, E);
      E(cc.mov(v1, v0));
      JumpAnnotation* ann = cc.new_jump_annotation();
      Label t0 = cc.new_label();
      if (ann) E(ann->add_label(t0));
      (void)st;
    }
    x86::Emitter* x = em->as<x86::Emitter>();
    E(x->mov(x86::ecx, 8 + k)); BaseNode* mid = b->cursor();
    Label l = em->new_label();
    E(em->bind(l));
    E(x->dec(x86::ecx));
    E(x->jnz(l));
    Section* user = get_or_new_section(code, ".open", 8, 4, E);
    if (user) { E(em->section(user)); uint8_t d[4] = {1, 2, 3, uint8_t(k)}; E(em->embed(d, 4)); }
    b->set_cursor(mid);
  }
  else {
    if (kind == kCompiler) {
      a64::Compiler& cc = *static_cast<a64::Compiler*>(em);
      FuncNode* fn = cc.add_func(FuncSignature::build<uint32_t, uint32_t>());
      if (!fn) { E(Error::kOutOfMemory); return; }
      a64::Gp v0 = cc.new_gp32("o0"), v1 = cc.new_gp32("o1");
      fn->set_arg(0, v0);
      a64::Mem st = cc.new_stack(16, 4, "ost");
      a64_consts(cc, k, v0, E);
      E(cc.mov(v1, v0));
      JumpAnnotation* ann = cc.new_jump_annotation();
      Label t0 = cc.new_label();
      if (ann) E(ann->add_label(t0));
      (void)st;
    }
    a64::Emitter* a = em->as<a64::Emitter>();
    E(a->mov(a64::w9, 8 + k)); BaseNode* mid = b->cursor();
    Label l = em->new_label();
    E(em->bind(l));
    E(a->subs(a64::w9, a64::w9, 1));
    E(a->b_ne(l));
    Section* user = get_or_new_section(code, ".open", 8, 4, E);
    if (user) { E(em->section(user)); uint8_t d[4] = {1, 2, 3, uint8_t(k)}; E(em->embed(d, 4)); }
    b->set_cursor(mid);
  }
  leave_pending(arch, em);
}

// P9: a COMPLETE Compiler function (add_func .. end_func) using local and global constants of several sizes, followed
// by more global constants created outside of any function - abandoned before finalize() (cancelled compilation): the
// global ConstPoolNode is still pending in the Compiler when the holder is recycled.
static void p9_abandon(Arch arch, BaseEmitter* em, CodeHolder&, unsigned k, ErrAcc& E) {
  if (arch == Arch::kX64) {
    x86::Compiler& cc = *static_cast<x86::Compiler*>(em);
    FuncNode* fn = cc.add_func(FuncSignature::build<uint32_t, uint32_t, uint32_t>());
    if (!fn) { E(Error::kOutOfMemory); return; }
    x86::Gp a = cc.new_gp32("a9"), bb = cc.new_gp32("b9");
    fn->set_arg(0, a);
    fn->set_arg(1, bb);
    x86_consts(cc, k, a, E);
    E(cc.add(a, bb));
    E(cc.ret(a));
    E(cc.end_func());
    x86::Mem late = cc.new_qword_const(ConstPoolScope::kGlobal, 0x9999000000000000ull + k);
    (void)late;
    Label tail = cc.new_label();
    E(cc.bind(tail));
    E(cc.embed_label(tail));
  }
  else {
    a64::Compiler& cc = *static_cast<a64::Compiler*>(em);
    FuncNode* fn = cc.add_func(FuncSignature::build<uint32_t, uint32_t, uint32_t>());
    if (!fn) { E(Error::kOutOfMemory); return; }
    a64::Gp a = cc.new_gp32("a9"), bb = cc.new_gp32("b9");
    fn->set_arg(0, a);
    fn->set_arg(1, bb);
    a64_consts(cc, k, a, E);
    E(cc.add(a, a, bb));
    E(cc.ret(a));
    E(cc.end_func());
    a64::Mem late = cc.new_dword_const(ConstPoolScope::kGlobal, 0x9999000000000000ull + k);
    (void)late;
    Label tail = cc.new_label();
    E(cc.bind(tail));
    E(cc.embed_label(tail));
  }
}

static void emit_program(Arch arch, BaseEmitter* em, int kind, CodeHolder& code, int prog, ErrAcc& E, int part = 0, Label* first = nullptr) {
  unsigned k = unsigned(prog);
  Label first_local;
  if (!first) first = &first_local;
  if (prog == 7) { p7_stay(arch, em, kind, code, k, E); return; }
  if (prog == 8) { p8_open(arch, em, kind, code, k, E); return; }
  if (prog == 9) { p9_abandon(arch, em, code, k, E); return; }
  if (arch == Arch::kX64) {
    switch (prog) {
      case 1: x86_p1(em, code, k, E); break;
      case 2: x86_p2(em, code, k, E); break;
      case 3: x86_p3(em, code, k, E); break;
      case 4: x86_p4(em, code, k, E); break;
      case 5: x86_p5(em, code, k, E); break;
      default: x86_p6(em, code, k, E, part, *first); break;
    }
  }
  else {
    switch (prog) {
      case 1: a64_p1(em, code, k, E); break;
      case 2: a64_p2(em, code, k, E); break;
      case 3: a64_p3(em, code, k, E); break;
      case 4: a64_p4(em, code, k, E); break;
      case 5: a64_p5(em, code, k, E); break;
      default: a64_p6(em, code, k, E, part, *first); break;
    }
  }
}

static const uint64_t kBase = 0x00007F1000000000ull;

// emit (+ finalize for Builder/Compiler)
static int g_last_err_idx = -1;
static Error generate(Arch arch, BaseEmitter* em, int kind, CodeHolder& code, int prog) {
  ErrAcc E;
  emit_program(arch, em, kind, code, prog, E);
  if (kind != kAsm && prog_finalizes(prog)) E(em->finalize());
  g_last_err_idx = E.idx;
  return E.first;
}

// what JitRuntime::add() does with a finished holder; flatten() and relocate_to_base() may be called once per content
static Error seal(CodeHolder& code) {
  ErrAcc E;
  E(code.flatten());
  E(code.resolve_cross_section_fixups());
  E(code.relocate_to_base(kBase));
  return E.first;
}

// =========================================================================================================
// Digest of the observable output of a holder
// =========================================================================================================
static std::string hex(const uint8_t* d, size_t n) {
  static const char* H = "0123456789abcdef";
  std::string s;
  s.reserve(n * 2);
  for (size_t i = 0; i < n; i++) { s += H[d[i] >> 4]; s += H[d[i] & 15]; }
  return s;
}
static std::string hash64(const std::string& s) {
  uint64_t h = 1469598103934665603ull;
  for (unsigned char c : s) { h ^= c; h *= 1099511628211ull; }
  char b[20];
  snprintf(b, sizeof b, "%016llx", (unsigned long long)h);
  return b;
}
static std::string bounded_name(const char* p, size_t max) {
  std::string s;
  for (size_t i = 0; i < max && p[i]; i++) {
    unsigned char c = (unsigned char)p[i];
    if (c >= 0x20 && c < 0x7f && c != '\\') s += char(c);
    else { char b[8]; snprintf(b, sizeof b, "\\x%02x", c); s += b; }
  }
  return s;
}

struct Digest {
  std::string secs, labels, relocs, addrtab, image, secsn;   // line-oriented canonical text (secsn = secs without names)
  std::string err;
};

static void walk_addr(const AddressTableEntry* n, std::vector<std::pair<uint64_t, uint32_t>>& out, int depth = 0) {
  if (!n || depth > 64) return;
  walk_addr(static_cast<const AddressTableEntry*>(n->left()), out, depth + 1);
  out.emplace_back(n->address(), n->slot());
  walk_addr(static_cast<const AddressTableEntry*>(n->right()), out, depth + 1);
}

static Digest digest_of(CodeHolder& code, bool sealed) {
  Digest d;
  char b[256];
  for (Section* s : code.sections()) {
    snprintf(b, sizeof b, "sec %u name=%s flags=%u align=%u order=%d off=%llu vsize=%llu size=%zu bytes=", s->section_id(),
             bounded_name(s->name(), Globals::kMaxSectionNameSize + 1).c_str(), unsigned(s->flags()), s->alignment(), int(s->order()),
             (unsigned long long)s->offset(), (unsigned long long)s->virtual_size(), s->buffer_size());
    d.secs += b;
    d.secs += hex(s->data(), s->buffer_size());
    d.secs += "\n";
    snprintf(b, sizeof b, "sec %u flags=%u align=%u order=%d off=%llu vsize=%llu size=%zu bytes=", s->section_id(),
             unsigned(s->flags()), s->alignment(), int(s->order()), (unsigned long long)s->offset(), (unsigned long long)s->virtual_size(), s->buffer_size());
    d.secsn += b;
    d.secsn += hex(s->data(), s->buffer_size());
    d.secsn += "\n";
  }
  uint32_t id = 0;
  for (const LabelEntry& le : code.label_entries()) {
    bool bound = le.is_bound();
    snprintf(b, sizeof b, "label %u type=%u name=%s parent=%d bound=%d sec=%d off=%lld\n", id, unsigned(le.label_type()),
             le.has_name() ? bounded_name(le.name(), 80).c_str() : "-", le.has_parent() ? int(le.parent_id()) : -1, int(bound),
             bound ? int(le.section_id()) : -1, bound ? (long long)le.offset() : -1ll);
    d.labels += b;
    id++;
  }
  for (RelocEntry* re : code.reloc_entries()) {
    const OffsetFormat& f = re->format();
    snprintf(b, sizeof b, "reloc %u type=%u fmt=%u/%u/%u/%u/%u/%u/%u/%u src=%d@%llu tgt=%d payload=%llx\n", re->id(), unsigned(re->reloc_type()),
             unsigned(f.type()), f.flags(), f.region_size(), f.value_offset(), f.value_size(), f.imm_bit_count(), f.imm_bit_shift(), f.imm_discard_lsb(),
             int(re->source_section_id()), (unsigned long long)re->source_offset(), int(re->target_section_id()), (unsigned long long)re->payload());
    d.relocs += b;
  }
  {
    std::vector<std::pair<uint64_t, uint32_t>> ents;
    walk_addr(code._address_table_entries.root(), ents);
    snprintf(b, sizeof b, "addrtab section=%d unresolved=%zu\n", code.has_address_table_section() ? int(code.address_table_section()->section_id()) : -1,
             code.unresolved_fixup_count());
    d.addrtab += b;
    for (auto& e : ents) { snprintf(b, sizeof b, "addr %llx slot=%u\n", (unsigned long long)e.first, e.second); d.addrtab += b; }
  }
  if (!sealed) d.image = "unsealed\n";
  else {
    size_t n = code.code_size();
    snprintf(b, sizeof b, "image size=%zu\n", n);
    d.image += b;
    if (n && n < (1u << 22)) {
      std::vector<uint8_t> img(n + 16, 0xEE);
      Error e = code.copy_flattened_data(img.data(), n, CopySectionFlags::kPadSectionBuffer | CopySectionFlags::kPadTargetBuffer);
      snprintf(b, sizeof b, "copy=%u\n", unsigned(e));
      d.image += b;
      for (size_t i = 0; i < n; i += 32) d.image += hex(img.data() + i, std::min<size_t>(32, n - i)) + "\n";
    }
  }
  return d;
}

static std::string first_diff(const char* what, const std::string& a, const std::string& b) {
  if (a == b) return "";
  size_t la = 0, lb = 0;
  int line = 0;
  while (la < a.size() || lb < b.size()) {
    size_t ea = a.find('\n', la), eb = b.find('\n', lb);
    if (ea == std::string::npos) ea = a.size();
    if (eb == std::string::npos) eb = b.size();
    std::string x = a.substr(la, ea - la), y = b.substr(lb, eb - lb);
    if (x != y) {
      // shorten long byte strings around the first differing char
      size_t i = 0;
      while (i < x.size() && i < y.size() && x[i] == y[i]) i++;
      size_t from = i > 60 ? i - 60 : 0;
      std::string r = std::string(what) + " line " + std::to_string(line) + " col " + std::to_string(i) + ": recycled=[" + (from ? "..." : "") +
                      x.substr(from, 140) + "] fresh=[" + (from ? "..." : "") + y.substr(from, 140) + "]";
      return r;
    }
    la = ea + 1; lb = eb + 1; line++;
  }
  return std::string(what) + " differs";
}

// =========================================================================================================
// Objects of one execution
// =========================================================================================================
struct Cfg {
  Arch arch = Arch::kX64;
  size_t static_arena = 0;      // bytes of user-supplied arena memory per holder (0 = none)
  int logk = 1;            // kind of logger objects: 1 StringLogger, 2 FileLogger(/dev/null)
  bool validate = false;
  bool perturb = false;
  bool base = true;        // init(env, base) with the fixed base address; false = JIT style init(env), base only known to relocate_to_base()
  std::vector<int> kinds{kAsm, kBuilder, kCompiler};
};

struct RecEH : public ErrorHandler {
  int calls = 0;
  void handle_error(Error, const char*, BaseEmitter*) override { calls++; }
};

static BaseEmitter* new_emitter(Arch arch, int kind, bool validate) {
  BaseEmitter* e = nullptr;
  if (arch == Arch::kX64) {
    if (kind == kAsm) e = new x86::Assembler(); else if (kind == kBuilder) e = new x86::Builder(); else e = new x86::Compiler();
  }
  else {
    if (kind == kAsm) e = new a64::Assembler(); else if (kind == kBuilder) e = new a64::Builder(); else e = new a64::Compiler();
  }
  if (validate) e->add_diagnostic_options(DiagnosticOptions::kValidateAssembler | DiagnosticOptions::kValidateIntermediate);
  return e;
}

// private state of an emitter the API exposes (sizes, flags, positions - never addresses or capacities)
static void common_tail(BaseEmitter* e, std::vector<long long>& out) {
  // pending per-instruction state, and what on_attach derives from the environment (must be gone after detach)
  out.push_back((e->inst_options() != InstOptions::kNone ? 1 : 0) + (e->extra_reg().is_reg() ? 2 : 0) + (e->inline_comment() ? 4 : 0));
  out.push_back((long long)e->_instruction_alignment);
  out.push_back((long long)e->_private_data);
  out.push_back(e->_gp_signature.bits() != 0 ? 1 : 0);
}
static void priv_of(BaseEmitter* e, int kind, std::vector<long long>& out) {
  if (kind == kAsm) {
    BaseAssembler* a = static_cast<BaseAssembler*>(e);
    out.push_back(a->_section ? (long long)a->_section->section_id() : -1);
    out.push_back(!a->code() && (a->_buffer_data || a->_buffer_ptr || a->_buffer_end) ? 1 : 0);   // stale pointers after detach
    out.push_back(a->code() ? (long long)a->offset() : 0);                                          // cursor (compared only while the holder is empty)
    common_tail(e, out);
    return;
  }
  BaseBuilder* b = static_cast<BaseBuilder*>(e);
  long long n = 0, cur = b->cursor() ? -2 : 0;            // cursor: 0 = none, i = i-th node of the list, -2 = not a node of the list
  for (BaseNode* node = b->first_node(); node && n < 1000000; node = node->next()) { n++; if (node == b->cursor()) cur = n; }
  out.push_back(n);
  out.push_back((long long)b->label_nodes().size());
  out.push_back((long long)b->section_nodes().size());
  out.push_back((long long)b->passes().size());
  out.push_back(cur);
  if (kind == kCompiler) {
    BaseCompiler* c = static_cast<BaseCompiler*>(e);
    out.push_back((long long)c->virt_regs().size());
    out.push_back(c->func() ? 1 : 0);
    out.push_back((long long)c->jump_annotations().size());
    out.push_back((c->_const_pools[0] ? 1 : 0) + (c->_const_pools[1] ? 2 : 0));
  }
  out.push_back(b->has_dirty_section_links() ? 1 : 0);
  common_tail(e, out);
}

// counts of a holder the API exposes
static void counts_of(CodeHolder& c, std::vector<long long>& out) {
  std::vector<std::pair<uint64_t, uint32_t>> ents;
  walk_addr(c._address_table_entries.root(), ents);
  out.push_back((long long)c.section_count());
  out.push_back((long long)c.sections_by_order().size());
  out.push_back((long long)c.label_count());
  out.push_back((long long)c.reloc_entries().size());
  out.push_back((long long)c.unresolved_fixup_count());
  out.push_back((long long)ents.size());
  out.push_back(c.has_address_table_section() ? 1 : 0);
  out.push_back((long long)c._text_section.buffer_size());
  out.push_back(c.has_base_address() ? 1 : 0);
  out.push_back(c._fixups ? 1 : 0);
}

struct Fresh {            // measured on fresh objects at the start of the execution
  std::vector<long long> h_uninit, h_init;
  std::vector<long long> e_detached[3], e_attached[3];
};


struct Exec {
  FILE* out;
  Cfg cfg;
  vj::Rng rng;
  static const int NH = 2;
  CodeHolder* holder[NH] = {nullptr, nullptr};
  uint8_t* static_mem[NH] = {nullptr, nullptr};
  std::vector<BaseEmitter*> em;
  std::vector<Logger*> hlog, elog;
  std::vector<RecEH*> heh, eeh;
  FILE* devnull = nullptr;
  std::vector<std::vector<std::pair<int, int>>> gens;       // per holder: (kind, prog) since last (re)init
  std::vector<void*> junk;
  Fresh fresh;
  vj::W w;

  Environment env() const { return Environment(cfg.arch); }

  Logger* make_logger() {
    if (cfg.logk == 2) { return new FileLogger(devnull); }
    return new StringLogger();
  }

  Exec(FILE* f, const Cfg& c, uint64_t seed) : out(f), cfg(c), rng(seed) {
    devnull = fopen("/dev/null", "w");
    for (int h = 0; h < NH; h++) {
      if (cfg.static_arena) {
        // user memory (heap allocated, so the sanitizer build sees any access beyond it) that is not zero
        static_mem[h] = static_cast<uint8_t*>(malloc(cfg.static_arena));
        memset(static_mem[h], 0xA5 ^ (h * 0x33), cfg.static_arena);
        holder[h] = new CodeHolder(Span<uint8_t>(static_mem[h], cfg.static_arena));
      }
      else holder[h] = new CodeHolder();
      hlog.push_back(make_logger());
      heh.push_back(new RecEH());
    }
    gens.resize(NH);
    for (size_t i = 0; i < cfg.kinds.size(); i++) {
      em.push_back(new_emitter(cfg.arch, cfg.kinds[i], cfg.validate));
      elog.push_back(make_logger());
      eeh.push_back(new RecEH());
    }
    measure_fresh();
    w.beginObj().kv("e", "Reset");
    w.key("cfg").beginObj().kv("arch", cfg.arch == Arch::kX64 ? "x64" : "a64").kv("archid", int(cfg.arch)).kv("static", (long long)cfg.static_arena).kv("logk", cfg.logk)
      .kv("validate", cfg.validate).kv("perturb", cfg.perturb).kv("base", cfg.base).endObj();
    w.key("kinds").beginArr();
    for (int k : cfg.kinds) w.val(kind_name(k));
    w.endArr();
    w.key("fh").beginArr();
    arr(fresh.h_uninit); arr(fresh.h_init);
    w.endArr();
    w.key("fe").beginArr();
    for (int k = 0; k < 3; k++) { w.beginArr(); arr(fresh.e_detached[k]); arr(fresh.e_attached[k]); w.endArr(); }
    w.endArr();
    proj();
    w.endObj().emit(out);
  }

  ~Exec() {
    // holders first: their destructor must detach whatever is still attached
    for (int h = 0; h < NH; h++) { delete holder[h]; holder[h] = nullptr; }
    w.beginObj().kv("e", "End");
    proj();
    w.endObj().emit(out);
    for (auto*& e : em) { delete e; e = nullptr; }
    for (auto* l : hlog) delete l;
    for (auto* l : elog) delete l;
    for (auto* x : heh) delete x;
    for (auto* x : eeh) delete x;
    for (void* p : junk) free(p);
    for (int h = 0; h < NH; h++) free(static_mem[h]);
    fclose(devnull);
  }

  void arr(const std::vector<long long>& v) { w.beginArr(); for (auto x : v) w.val(x); w.endArr(); }

  void measure_fresh() {
    CodeHolder c;
    counts_of(c, fresh.h_uninit);
    if (cfg.base) c.init(env(), kBase); else c.init(env());
    counts_of(c, fresh.h_init);
    for (int k = 0; k < 3; k++) {
      BaseEmitter* e = new_emitter(cfg.arch, k, false);
      priv_of(e, k, fresh.e_detached[k]);
      c.attach(e);
      priv_of(e, k, fresh.e_attached[k]);
      delete e;
    }
  }

  // configuration axis "perturbed heap": interleave garbage-filled allocations of arena-block-like sizes
  void perturb() {
    if (!cfg.perturb) return;
    static const size_t sizes[] = {24, 72, 200, 1000, 4096, 8192 - 64, 16384, 16384 + 64, 32768, 65536, 65536 + 128, 131072};
    unsigned n = 1 + unsigned(rng.below(4));
    for (unsigned i = 0; i < n; i++) {
      static const size_t block_sizes[] = {16384 - 32, 32768 - 32, 65536 - 32, 8192 - 32};      // what Arena / CodeBuffer malloc
      size_t sz = rng.chance(1, 3) ? block_sizes[rng.below(4)] : sizes[rng.below(sizeof sizes / sizeof sizes[0])] + rng.below(64);
      void* p = malloc(sz);
      if (!p) continue;
      memset(p, int(0x5A + rng.below(100)), sz);
      junk.push_back(p);
    }
    while (junk.size() > 12 || (junk.size() && rng.chance(1, 2))) {
      size_t i = rng.below(junk.size());
      free(junk[i]);
      junk[i] = junk.back();
      junk.pop_back();
    }
  }

  int emitter_id(const BaseEmitter* p) const {
    if (!p) return 0;
    for (size_t i = 0; i < em.size(); i++) if (em[i] == p) return int(i + 1);
    return 99;
  }
  int holder_id(const CodeHolder* p) const {
    if (!p) return 0;
    for (int h = 0; h < NH; h++) if (holder[h] == p) return h + 1;
    return 9;
  }
  int logger_id(const Logger* p) const {
    if (!p) return 0;
    for (size_t i = 0; i < hlog.size(); i++) if (hlog[i] == p) return 10 + int(i + 1);
    for (size_t i = 0; i < elog.size(); i++) if (elog[i] == p) return 20 + int(i + 1);
    return 99;
  }
  int handler_id(const ErrorHandler* p) const {
    if (!p) return 0;
    for (size_t i = 0; i < heh.size(); i++) if (heh[i] == p) return 10 + int(i + 1);
    for (size_t i = 0; i < eeh.size(); i++) if (eeh[i] == p) return 20 + int(i + 1);
    return 99;
  }

  // projection of everything
  void proj() {
    w.key("H").beginArr();
    for (int h = 0; h < NH; h++) {
      w.beginObj();
      if (!holder[h]) { w.kv("gone", true).endObj(); continue; }
      CodeHolder& c = *holder[h];
      w.kv("init", c.is_initialized()).kv("arch", int(c.arch())).kv("log", logger_id(c.logger())).kv("eh", handler_id(c.error_handler()));
      std::vector<long long> cnt;
      counts_of(c, cnt);
      w.key("cnt"); arr(cnt);
      w.key("att").beginArr();
      int n = 0;
      for (BaseEmitter* e = c.attached_first(); e && n < 16; e = e->_attached_next, n++) w.val(emitter_id(e));
      w.endArr();
      w.key("rev").beginArr();
      n = 0;
      for (BaseEmitter* e = c.attached_last(); e && n < 16; e = e->_attached_prev, n++) w.val(emitter_id(e));
      w.endArr();
      w.endObj();
    }
    w.endArr();
    w.key("E").beginArr();
    for (size_t i = 0; i < em.size(); i++) {
      w.beginObj();
      BaseEmitter* e = em[i];
      if (!e) { w.kv("alive", false).endObj(); continue; }
      w.kv("alive", true).kv("code", holder_id(e->code())).kv("init", e->is_initialized()).kv("log", logger_id(e->logger()))
       .kv("eh", handler_id(e->error_handler())).kv("ownlog", e->has_own_logger()).kv("owneh", e->has_own_error_handler())
       .kv("prev", emitter_id(e->_attached_prev)).kv("next", emitter_id(e->_attached_next)).kv("arch", int(e->arch()));
      std::vector<long long> pv;
      priv_of(e, cfg.kinds[i], pv);
      w.key("priv"); arr(pv);
      w.endObj();
    }
    w.endArr();
  }

  void head(const char* name) { perturb(); w.beginObj().kv("e", name); }
  void tail(Error err) { w.kv("r", err == Error::kOk ? "Ok" : "Err").kv("code", unsigned(err)); proj(); w.endObj().emit(out); fflush(out); }

  // ---- actions ----
  void a_init(int h) { head("Init"); w.kv("h", h); Error e = cfg.base ? holder[h - 1]->init(env(), kBase) : holder[h - 1]->init(env()); if (e == Error::kOk) gens[h - 1].clear(); tail(e); }
  void a_reset(int h, bool hard) {
    head("ResetH"); w.kv("h", h).kv("hard", hard);
    holder[h - 1]->reset(hard ? ResetPolicy::kHard : ResetPolicy::kSoft);
    gens[h - 1].clear();
    tail(Error::kOk);
  }
  void a_reinit(int h) { head("Reinit"); w.kv("h", h); Error e = holder[h - 1]->reinit(); if (e == Error::kOk) gens[h - 1].clear(); tail(e); }
  void a_attach(int e, int h) { head("Attach"); w.kv("em", e).kv("h", h); Error r = holder[h - 1]->attach(em[e - 1]); tail(r); }
  void a_detach(int e, int h) { head("Detach"); w.kv("em", e).kv("h", h); Error r = holder[h - 1]->detach(em[e - 1]); tail(r); }
  void a_hlog(int h, bool on) { head("HLog"); w.kv("h", h).kv("on", on); holder[h - 1]->set_logger(on ? hlog[h - 1] : nullptr); tail(Error::kOk); }
  void a_elog(int e, bool on) { head("ELog"); w.kv("em", e).kv("on", on); em[e - 1]->set_logger(on ? elog[e - 1] : nullptr); tail(Error::kOk); }
  void a_heh(int h, bool on) { head("HEh"); w.kv("h", h).kv("on", on); holder[h - 1]->set_error_handler(on ? heh[h - 1] : nullptr); tail(Error::kOk); }
  void a_eeh(int e, bool on) { head("EEh"); w.kv("em", e).kv("on", on); em[e - 1]->set_error_handler(on ? eeh[e - 1] : nullptr); tail(Error::kOk); }
  void a_destroy(int e) { head("Destroy"); w.kv("em", e); delete em[e - 1]; em[e - 1] = nullptr; tail(Error::kOk); }
  void a_create(int e) { head("Create"); w.kv("em", e); em[e - 1] = new_emitter(cfg.arch, cfg.kinds[e - 1], cfg.validate); tail(Error::kOk); }

  // an invalid call: binding a label that does not exist (attached) / emitting without a holder (detached)
  void a_fail(int e) {
    head("Fail"); w.kv("em", e);
    BaseEmitter* p = em[e - 1];
    std::vector<int> before;
    for (auto* x : heh) before.push_back(x->calls);
    for (auto* x : eeh) before.push_back(x->calls);
    Error r;
    if (p->code()) r = p->bind(Label(0x3FFFFFF0u));
    else r = p->embed("\x90", 1);
    // which handlers were invoked (ids as in the projection); whether one must be invoked is C14's business
    w.key("called").beginArr();
    size_t k = 0;
    for (size_t i = 0; i < heh.size(); i++, k++) if (heh[i]->calls != before[k]) w.val(10 + int(i + 1));
    for (size_t i = 0; i < eeh.size(); i++, k++) if (eeh[i]->calls != before[k]) w.val(20 + int(i + 1));
    w.endArr();
    tail(r);
  }

  Digest fresh_run(const std::vector<std::pair<int, int>>& seq) {
    CodeHolder c;
    Digest d;
    ErrAcc E;
    bool sealed = false;
    E(cfg.base ? c.init(env(), kBase) : c.init(env()));
    for (auto& kp : seq) {
      if (kp.first < 0) { E(seal(c)); sealed = true; continue; }
      if (kp.second == 6) {
        // "reusing one compiler for many functions": fresh objects = one new Compiler per function
        Label first;
        for (int part = 1; part <= 3; part++) {
          BaseEmitter* e = new_emitter(cfg.arch, kCompiler, false);
          E(c.attach(e));
          emit_program(cfg.arch, e, kCompiler, c, 6, E, part, &first);
          E(e->finalize());
          delete e;
        }
        continue;
      }
      BaseEmitter* e = new_emitter(cfg.arch, kp.first, false);
      E(c.attach(e));
      E(generate(cfg.arch, e, kp.first, c, kp.second));
      delete e;
    }
    d = digest_of(c, sealed);
    d.err = E.ok() ? "Ok" : "Err";
    return d;
  }

  void log_digests(int h, bool sealed) {
    Digest d = digest_of(*holder[h - 1], sealed);
    Digest f = fresh_run(gens[h - 1]);
    w.key("seq").beginArr();
    for (auto& kp : gens[h - 1]) { w.beginArr().val(kind_name(kp.first)).val(kp.second).endArr(); }
    w.endArr();
    w.key("dig").beginArr().val(hash64(d.secs)).val(hash64(d.labels)).val(hash64(d.relocs)).val(hash64(d.addrtab)).val(hash64(d.image)).val(hash64(d.secsn)).endArr();
    w.key("fresh").beginArr().val(hash64(f.secs)).val(hash64(f.labels)).val(hash64(f.relocs)).val(hash64(f.addrtab)).val(hash64(f.image)).val(hash64(f.secsn)).endArr();
    w.kv("fr", f.err.c_str());
    std::string diff = first_diff("sections", d.secs, f.secs);
    if (diff.empty()) diff = first_diff("labels", d.labels, f.labels);
    if (diff.empty()) diff = first_diff("relocs", d.relocs, f.relocs);
    if (diff.empty()) diff = first_diff("addrtab", d.addrtab, f.addrtab);
    if (diff.empty()) diff = first_diff("image", d.image, f.image);
    if (!diff.empty()) w.kv("diff", diff.c_str());
  }

  void a_seal(int h) {
    head("Seal"); w.kv("h", h);
    Error r = seal(*holder[h - 1]);
    gens[h - 1].emplace_back(-1, 0);
    log_digests(h, true);
    w.kv("size", (long long)holder[h - 1]->code_size());
    tail(r);
  }

  void a_gen(int e, int p) {
    head("Gen");
    BaseEmitter* emp = em[e - 1];
    int kind = cfg.kinds[e - 1];
    if (!emp || !emp->code() || prog_rank(p) > kind) { fprintf(stderr, "script error: Gen %d %d is not legal here\n", e, p); exit(3); }
    int h = holder_id(emp->code());
    w.kv("em", e).kv("p", p).kv("h", h).kv("kind", kind_name(kind));
    Error r = generate(cfg.arch, emp, kind, *holder[h - 1], p);
    w.kv("erridx", g_last_err_idx);
    gens[h - 1].emplace_back(kind, p);
    log_digests(h, false);
    tail(r);
  }

  void run_op(const vj::Value& op) {
    const std::string& n = op[0].s();
    int a = op.size() > 1 ? int(op[1].i()) : 0, b = op.size() > 2 ? int(op[2].i()) : 0;
    if (n == "Init") a_init(a);
    else if (n == "ResetH") a_reset(a, b != 0);
    else if (n == "Reinit") a_reinit(a);
    else if (n == "Attach") a_attach(a, b);
    else if (n == "Detach") a_detach(a, b);
    else if (n == "HLog") a_hlog(a, b != 0);
    else if (n == "ELog") a_elog(a, b != 0);
    else if (n == "HEh") a_heh(a, b != 0);
    else if (n == "EEh") a_eeh(a, b != 0);
    else if (n == "Gen") a_gen(a, b);
    else if (n == "Seal") a_seal(a);
    else if (n == "Fail") a_fail(a);
    else if (n == "Destroy") a_destroy(a);
    else if (n == "Create") a_create(a);
    else { fprintf(stderr, "unknown op %s\n", n.c_str()); exit(3); }
  }
};

static Cfg cfg_of(const vj::Value& v) {
  Cfg c;
  c.arch = v["arch"].s() == "a64" ? Arch::kAArch64 : Arch::kX64;
  c.static_arena = size_t(v["static"].i()) == 1 ? 24576 : size_t(v["static"].i());
  c.logk = v.has("logk") ? int(v["logk"].i()) : 1;
  c.validate = v["validate"].i() != 0;
  c.perturb = v["perturb"].i() != 0;
  c.base = v.has("base") ? v["base"].i() != 0 : true;
  if (v.has("kinds")) { c.kinds.clear(); for (auto& k : v["kinds"].arr) c.kinds.push_back(kind_of(k.s())); }
  return c;
}

// ---- random driver: keeps the same bookkeeping as the spec so that Gen is only issued where the API allows it ----
struct RandDriver {
  Exec& x;
  vj::Rng& r;
  struct M { bool alive = true; int code = 0; bool used = false; bool ja = false; };
  bool avoid_ja = getenv("LC_AVOID_JA") != nullptr;   // known finding: a Compiler holding stale jump annotations must not create new ones
  std::vector<M> m;
  bool hinit[2] = {false, false};
  bool sealed(int h) const { auto& g = x.gens[h - 1]; return !g.empty() && g.back().first < 0; }
  RandDriver(Exec& e, vj::Rng& rng) : x(e), r(rng), m(e.em.size()) {}

  void clear_used(int h) { for (auto& e : m) if (e.code == h) e.used = false; }
  void detach_all(int h) { for (auto& e : m) if (e.code == h) { e.code = 0; e.used = false; } }

  void step() {
    unsigned c = unsigned(r.below(100));
    int h = 1 + int(r.below(2));
    int e = 1 + int(r.below(m.size()));
    M& me = m[e - 1];
    if (c < 8) { x.a_init(h); hinit[h - 1] = true; }
    else if (c < 14) { x.a_reset(h, r.chance(1, 2)); if (hinit[h - 1]) detach_all(h); hinit[h - 1] = false; }
    else if (c < 26) { x.a_reinit(h); if (hinit[h - 1]) clear_used(h); }
    else if (c < 40) {
      if (!me.alive) { x.a_create(e); me = M(); return; }
      // prefer attaching to an initialised holder
      if (!hinit[h - 1] && hinit[2 - h]) h = 3 - h;
      x.a_attach(e, h);
      if (hinit[h - 1] && me.code == 0) { me.code = h; me.used = false; }
    }
    else if (c < 46) {
      if (!me.alive) return;
      int hh = me.code && r.chance(4, 5) ? me.code : h;
      x.a_detach(e, hh);
      if (me.code == hh) { me.code = 0; me.used = false; }
    }
    else if (c < 50) x.a_hlog(h, r.chance(2, 3));
    else if (c < 54) { if (me.alive) x.a_elog(e, r.chance(2, 3)); }
    else if (c < 57) x.a_heh(h, r.chance(2, 3));
    else if (c < 60) { if (me.alive) x.a_eeh(e, r.chance(2, 3)); }
    else if (c < 66) { if (me.alive) x.a_fail(e); }
    else if (c < 68) { if (me.alive) { x.a_destroy(e); me.alive = false; me.code = 0; me.used = false; } }
    else if (c < 76) { if (hinit[h - 1] && !x.gens[h - 1].empty() && !sealed(h)) x.a_seal(h); }
    else {
      // generate through some emitter that may legally generate
      std::vector<int> cand;
      for (size_t i = 0; i < m.size(); i++) {
        int k = x.cfg.kinds[i];
        if (m[i].alive && m[i].code && (k == kAsm || !m[i].used) && x.gens[m[i].code - 1].size() < 4 && !sealed(m[i].code)) cand.push_back(int(i + 1));
      }
      if (cand.empty()) return;
      e = cand[r.below(cand.size())];
      int k = x.cfg.kinds[e - 1];
      int p;
      do { p = 1 + int(r.below(NPROG)); } while (prog_rank(p) > k || (avoid_ja && p >= 5 && m[e - 1].ja));
      x.a_gen(e, p);
      m[e - 1].used = true;
      if (p >= 5) m[e - 1].ja = true;
    }
  }
};

// Executions run in child processes (batches): a crash or sanitizer abort caused by one history must not hide the others.
// The child appends to the shared trace file and counts started executions in shared memory; when it does not exit
// cleanly the parent writes the ABORT line for the execution that was running and resumes with the next one.
#include <sys/wait.h>
#include <signal.h>
#include <sys/mman.h>
template<typename F>
static void isolated(FILE* out, size_t n, size_t batch, unsigned limit_s, F&& body) {
  volatile size_t* started = (volatile size_t*)mmap(nullptr, 4096, PROT_READ | PROT_WRITE, MAP_SHARED | MAP_ANONYMOUS, -1, 0);
  size_t i = 0;
  while (i < n) {
    size_t end = std::min(n, i + batch);
    *started = i;
    fflush(out);
    pid_t pid = fork();
    if (pid == 0) {
      for (size_t k = i; k < end; k++) { *started = k + 1; alarm(limit_s); body(k); }   // a history that never returns is killed (SIGALRM)
      alarm(0);
      fflush(out);
      exit(0);          // runs the leak check of the sanitizer build
    }
    int st = 0;
    waitpid(pid, &st, 0);
    if (WIFEXITED(st) && WEXITSTATUS(st) == 0) { i = end; continue; }
    fseek(out, 0, SEEK_END);
    if (WIFSIGNALED(st)) fprintf(out, "\n{\"e\":\"ABORT\",\"why\":\"signal %d%s\"}\n", WTERMSIG(st), WTERMSIG(st) == SIGALRM ? " (history did not return within the time limit)" : "");
    else fprintf(out, "\n{\"e\":\"ABORT\",\"why\":\"exit code %d%s\"}\n", WEXITSTATUS(st), WEXITSTATUS(st) == 66 ? " (sanitizer report)" : "");
    fflush(out);
    size_t st_ = *started;
    i = st_ > i + 1 ? st_ : i + 1;
  }
}

int main(int argc, char** argv) {
  if (argc < 3) { fprintf(stderr, "usage: lifecycle script <in> <out> | random <out> <nexec> <nactions>\n"); return 3; }
  std::string mode = argv[1];
  if (mode == "script") {
    auto scripts = vj::read_ndjson(argv[2]);
    FILE* out = fopen(argv[3], "a");
    if (!out) { perror(argv[3]); return 3; }
    if (ftruncate(fileno(out), 0) != 0) return 3;
    vj::install_abort_handlers(out);
    isolated(out, scripts.size(), 40, 20, [&](size_t k) {
      auto& s = scripts[k];
      Exec ex(out, cfg_of(s["cfg"]), vj::env_seed() * 1000003ull + k);
      for (auto& op : s["ops"].arr) ex.run_op(op);
    });
    fclose(out);
    return 0;
  }
  if (mode == "random") {
    FILE* out = fopen(argv[2], "a");
    if (!out) { perror(argv[2]); return 3; }
    if (ftruncate(fileno(out), 0) != 0) return 3;
    vj::install_abort_handlers(out);
    unsigned nexec = unsigned(atoi(argv[3])), nact = unsigned(atoi(argv[4]));
    isolated(out, nexec, 1, 900, [&](size_t i) {
      vj::Rng r(vj::env_seed() * 7919ull + i);
      Cfg c;
      c.arch = r.chance(1, 3) ? Arch::kAArch64 : Arch::kX64;
      { static const size_t ss[] = {0, 0, 256, 1024, 4096, 24576}; c.static_arena = ss[r.below(6)]; }
      c.logk = 1 + int(r.below(2));
      c.validate = r.chance(1, 2);
      c.perturb = r.chance(1, 2);
      c.base = getenv("LC_FIXED_BASE") ? true : !r.chance(1, 3);
      static const int ks[4][3] = {{kAsm, kBuilder, kCompiler}, {kCompiler, kCompiler, kAsm}, {kBuilder, kCompiler, kBuilder}, {kCompiler, kAsm, kCompiler}};
      int pick = int(r.below(4));
      c.kinds = {ks[pick][0], ks[pick][1], ks[pick][2]};
      Exec ex(out, c, r.next());
      RandDriver d(ex, r);
      for (unsigned k = 0; k < nact; k++) d.step();
    });
    fclose(out);
    return 0;
  }
  return 3;
}
