// X06 harness (Part B): drives the front end of a real x86::Compiler (x86-64, x86-32) / a64::Compiler with API call
// sequences and records, after every call, what the call reported and a projection of the emitter (node list walked in
// both directions, cursor, func(), number of virtual registers).  Judged by spec/comp/CompilerFrontTrace.tla.
//   compfront random <trace.ndjson> <executions> <steps>
//   compfront script <scripts.ndjson> <trace.ndjson>       {"arch":"x64|x86|a64","ops":[["AddFunc",true],["EndFunc"],...]}
// The harness computes nothing: node ids are handed out in order of first sight, node kinds are the NodeType the node
// reports, register table entries are read back through VirtReg accessors.
#include <asmjit/core.h>
#include <asmjit/x86.h>
#include <asmjit/a64.h>
#include "vjson.h"
#include <map>
#include <string>
#include <vector>

using namespace asmjit;

static std::string err_name(Error e) {
  if (e == Error::kOk) return "Ok";
  return std::string("E") + std::to_string(unsigned(e)) + ":" + DebugUtils::error_as_string(e);
}

struct ErrH : public ErrorHandler {
  Error err = Error::kOk;
  void handle_error(Error e, const char*, BaseEmitter*) override { err = e; }
};

static Error take_first(ErrH& eh) { Error e = eh.err; eh.err = Error::kOk; return e; }

static const char* kind_name(BaseNode* n) {
  switch (n->type()) {
    case NodeType::kInst: return "inst";
    case NodeType::kSection: return "section";
    case NodeType::kLabel: return "label";
    case NodeType::kAlign: return "align";
    case NodeType::kEmbedData: return "embed";
    case NodeType::kEmbedLabel: return "embedlabel";
    case NodeType::kEmbedLabelDelta: return "embeddelta";
    case NodeType::kConstPool: return "pool";
    case NodeType::kComment: return "comment";
    case NodeType::kSentinel: return "sentinel";
    case NodeType::kJump: return "jump";
    case NodeType::kFunc: return "func";
    case NodeType::kFuncRet: return "funcret";
    case NodeType::kInvoke: return "invoke";
    default: return "other";
  }
}

static Environment env_of(const std::string& a) {
  if (a == "x86") return Environment(Arch::kX86, SubArch::kUnknown, Vendor::kUnknown, Platform::kLinux, PlatformABI::kGNU, ObjectFormat::kELF);
  if (a == "a64") return Environment(Arch::kAArch64, SubArch::kUnknown, Vendor::kUnknown, Platform::kLinux, PlatformABI::kGNU, ObjectFormat::kELF);
  return Environment(Arch::kX64, SubArch::kUnknown, Vendor::kUnknown, Platform::kLinux, PlatformABI::kGNU, ObjectFormat::kELF);
}

struct TypeRow { TypeId id; unsigned size; };

template<typename CC>
struct Exec {
  FILE* out;
  std::string arch;
  CodeHolder code;
  ErrH eh;
  CC cc;
  vj::W w;
  std::map<BaseNode*, int> ids;
  int next_id = 1;
  std::vector<FuncNode*> created;        // functions made by new_func_node() that are not part of the code yet
  std::vector<Reg> regs;                 // register operands by table index (stack areas: none)
  std::vector<uint32_t> virt_ids;        // virtual ids by table index
  std::vector<bool> is_stack;            // table entry is a stack area (no register operand)
  std::vector<Label> func_labels;
  unsigned nnamed = 0;
  // is the list a plain sequence of closed functions (only then finalize() is called)?
  bool clean = true;
  int open = 0;
  bool finalized = false;
  bool tidy = false;
  unsigned label_invokes = 0;

  Exec(FILE* f, const std::string& a) : out(f), arch(a) {
    code.init(env_of(a));
    code.set_error_handler(&eh);
    code.attach(&cc);
    BaseNode* n0 = cc.first_node();
    w.beginObj().kv("e", "Reset").kv("arch", arch.c_str()).kv("n0", id(n0)).kv("k0", n0 ? kind_name(n0) : "none");
    proj();
    w.endObj().emit(out);
  }

  int id(BaseNode* n) {
    if (!n) return 0;
    auto it = ids.find(n);
    if (it != ids.end()) return it->second;
    ids[n] = next_id;
    return next_id++;
  }

  void proj() {
    size_t bound = 2 * ids.size() + 64;
    w.key("p").beginObj();
    w.key("fwd").beginArr();
    { size_t k = 0; for (BaseNode* n = cc.first_node(); n && k < bound; n = n->next(), k++) w.val(id(n)); }
    w.endArr();
    w.key("bwd").beginArr();
    { size_t k = 0; for (BaseNode* n = cc.last_node(); n && k < bound; n = n->prev(), k++) w.val(id(n)); }
    w.endArr();
    w.kv("cur", id(cc.cursor())).kv("func", id(cc.func())).kv("nv", (unsigned)cc.virt_regs().size());
    w.endObj();
  }

  Error take_err(Error e) { Error h = eh.err; eh.err = Error::kOk; return e != Error::kOk ? e : h; }

  FuncSignature make_sig(bool good, unsigned nargs) {
    FuncSignature sig(good ? CallConvId::kCDecl : CallConvId(200));
    sig.set_ret(nargs % 2 ? TypeId::kInt32 : TypeId::kVoid);
    for (unsigned i = 0; i < nargs; i++) sig.add_arg(i % 3 == 2 ? TypeId::kFloat64 : TypeId::kInt32);
    return sig;
  }

  void func_nodes(FuncNode* f) {
    w.key("ns").beginArr();
    if (f) w.val(id(f)).val(id(f->exit_node())).val(id(f->end_node())); else w.val(0).val(0).val(0);
    w.endArr();
    w.key("nk").beginArr();
    if (f) w.val(kind_name(f)).val(kind_name(f->exit_node())).val(kind_name(f->end_node()));
    w.endArr();
  }

  void new_func(bool good, unsigned nargs) {
    if (finalized) return;
    FuncNode* f = reinterpret_cast<FuncNode*>(uintptr_t(1));
    Error e = take_err(cc.new_func_node(Out(f), make_sig(good, nargs)));
    if (f == reinterpret_cast<FuncNode*>(uintptr_t(1))) f = nullptr;
    w.beginObj().kv("e", "NewFunc").kv("r", err_name(e)).kv("good", good);
    func_nodes(e == Error::kOk ? f : nullptr);
    proj();
    w.endObj().emit(out);
    if (e == Error::kOk && f) created.push_back(f);
  }

  void add_func_node() {
    if (finalized || created.empty()) return;
    FuncNode* f = created.front();
    created.erase(created.begin());
    if (open) clean = false;
    open++;
    cc.add_func(f);
    func_labels.push_back(f->label());
    w.beginObj().kv("e", "AddFuncNode").kv("f", id(f));
    proj();
    w.endObj().emit(out);
  }

  void add_func(bool good, unsigned nargs) {
    if (finalized) return;
    FuncNode* f = cc.add_func(make_sig(good, nargs));
    Error e = take_err(f ? Error::kOk : Error::kInvalidState);
    if (f) { if (open) clean = false; open++; func_labels.push_back(f->label()); }
    w.beginObj().kv("e", "AddFunc").kv("r", f ? "Ok" : err_name(e).c_str()).kv("good", good);
    func_nodes(f);
    proj();
    w.endObj().emit(out);
  }

  void end_func() {
    if (finalized) return;
    Error e = take_err(cc.end_func());
    if (e == Error::kOk) open--;
    w.beginObj().kv("e", "EndFunc").kv("r", err_name(e));
    proj();
    w.endObj().emit(out);
  }

  void invoke(bool good, unsigned nargs, unsigned tk) {
    if (finalized) return;
    InvokeNode* stale = reinterpret_cast<InvokeNode*>(uintptr_t(1));
    InvokeNode* node = stale;
    FuncSignature sig = make_sig(good, nargs);
    Error e;
    if (tk % 2 == 0 && !func_labels.empty()) e = cc.invoke(Out(node), func_labels[tk / 2 % func_labels.size()], sig);
    else e = cc.invoke(Out(node), cc.new_label(), sig);
    e = take_err(e);
    if (e == Error::kOk) label_invokes++;
    const char* o = node == stale ? "stale" : node == nullptr ? "null" : "node";
    if (!open) clean = false;
    w.beginObj().kv("e", "Invoke").kv("r", err_name(e)).kv("good", good).kv("out", o);
    bool have = e == Error::kOk && node && node != stale;
    w.kv("n", have ? id(node) : 0).kv("nk", have ? kind_name(node) : "none");
    if (have) {
      // assign what can be assigned from the registers that exist (operands are part of the node, not of the list)
      w.kv("nargs", node->arg_count());
      for (unsigned i = 0; i < node->arg_count() && i < regs.size(); i++) if (!is_stack[i]) node->set_arg(i, regs[i]);
    }
    proj();
    w.endObj().emit(out);
  }

  void emit(const std::string& k) {
    if (finalized) return;
    Error e = Error::kOk;
    if (k == "inst") e = cc.nop();
    else if (k == "funcret") e = cc.ret();
    else if (k == "label") e = cc.bind(cc.new_label());
    else return;
    e = take_err(e);
    if (!open) clean = false;
    BaseNode* n = cc.cursor();
    w.beginObj().kv("e", "Emit").kv("k", k.c_str()).kv("r", err_name(e)).kv("n", e == Error::kOk ? id(n) : 0).kv("nk", n ? kind_name(n) : "none");
    proj();
    w.endObj().emit(out);
  }

  void set_cursor(unsigned pos) {
    if (finalized) return;
    BaseNode* n = nullptr;
    if (pos > 0) { n = cc.first_node(); for (unsigned i = 1; i < pos && n; i++) n = n->next(); if (!n) return; }
    if (n == cc.cursor()) return;
    cc.set_cursor(n);
    clean = false;
    w.beginObj().kv("e", "SetCursor").kv("n", id(n));
    proj();
    w.endObj().emit(out);
  }

  void new_const(const std::string& scope, bool ok_size, unsigned val) {
    if (finalized) return;
    ConstPoolScope sc = scope == "local" ? ConstPoolScope::kLocal : scope == "global" ? ConstPoolScope::kGlobal : ConstPoolScope(7);
    uint8_t data[8];
    for (int i = 0; i < 8; i++) data[i] = uint8_t(val + unsigned(i));
    BaseMem m;
    Error e = take_err(cc._new_const(Out<BaseMem>(m), sc, data, ok_size ? 4 : 3));
    ConstPoolNode* pool = scope == "bad" ? nullptr : cc._const_pools[uint32_t(sc)];
    w.beginObj().kv("e", "NewConst").kv("scope", scope.c_str()).kv("okSize", ok_size).kv("r", err_name(e))
     .kv("pool", id(pool)).kv("pk", pool ? kind_name(pool) : "none")
     .kv("lbl", e == Error::kOk && m.has_base_label() ? (long long)m.base_id() : -1LL)
     .kv("poolLbl", pool ? (long long)pool->label_id() : -2LL);
    proj();
    w.endObj().emit(out);
  }

  void reg_entry(uint32_t virt_id) {
    VirtReg* v = cc.virt_reg_by_id(virt_id);
    w.kv("idx", Operand::virt_id_to_index(virt_id)).kv("size", v->virt_size()).kv("align", v->alignment())
     .kv("name", v->name()).kv("stack", v->is_stack_area());
  }

  void new_reg(bool good, unsigned pick) {
    if (finalized) return;
    static const TypeRow rows32[] = { {TypeId::kInt8, 1}, {TypeId::kUInt16, 2}, {TypeId::kInt32, 4}, {TypeId::kFloat32, 4}, {TypeId::kFloat64, 8}, {TypeId::kInt32x4, 16} };
    static const TypeRow rows64[] = { {TypeId::kInt8, 1}, {TypeId::kUInt16, 2}, {TypeId::kInt32, 4}, {TypeId::kInt64, 8}, {TypeId::kFloat32, 4}, {TypeId::kFloat64, 8}, {TypeId::kInt32x4, 16}, {TypeId::kUIntPtr, 8} };
    const TypeRow* rows = arch == "x86" ? rows32 : rows64;
    unsigned nrows = arch == "x86" ? 6 : 8;
    TypeRow row = rows[pick % nrows];
    if (arch == "a64" && row.size < 4 && row.id != TypeId::kFloat32) row = rows[2];
    char name[32];
    snprintf(name, sizeof name, "v%u", nnamed++);
    Reg r;
    Error e = take_err(cc._new_reg_with_name(Out<Reg>(r), good ? row.id : TypeId::kVoid, name));
    w.beginObj().kv("e", "NewReg").kv("r", err_name(e)).kv("good", good).kv("wsize", good ? row.size : 0u).kv("wsize2", good ? row.size : 0u).kv("wname", name);
    if (e == Error::kOk && r.is_reg()) { reg_entry(r.id()); regs.push_back(r); virt_ids.push_back(r.id()); is_stack.push_back(false); }
    else w.kv("idx", 0).kv("size", 0).kv("align", 0).kv("name", "").kv("stack", false);
    proj();
    w.endObj().emit(out);
  }

  void new_similar(unsigned pick) {
    if (finalized || regs.empty()) return;
    unsigned k = pick % regs.size();
    if (is_stack[k]) return;
    VirtReg* ref = cc.virt_reg_by_id(virt_ids[k]);
    char name[32];
    snprintf(name, sizeof name, "s%u", nnamed++);
    Reg r;
    Error e = take_err(cc._new_reg_with_name(Out<Reg>(r), regs[k], name));
    w.beginObj().kv("e", "NewReg").kv("r", err_name(e)).kv("good", true).kv("similar", k).kv("wsize", ref->virt_size()).kv("wsize2", regs[k].size()).kv("wname", name);
    if (e == Error::kOk && r.is_reg()) { reg_entry(r.id()); regs.push_back(r); virt_ids.push_back(r.id()); is_stack.push_back(false); }
    else w.kv("idx", 0).kv("size", 0).kv("align", 0).kv("name", "").kv("stack", false);
    proj();
    w.endObj().emit(out);
  }

  void new_stack(unsigned wsize, unsigned walign) {
    if (finalized) return;
    BaseMem m;
    Error e = take_err(cc._new_stack(Out<BaseMem>(m), wsize, walign, nullptr));
    w.beginObj().kv("e", "NewStack").kv("r", err_name(e)).kv("wsize", wsize).kv("walign", walign);
    if (e == Error::kOk) { reg_entry(m.base_id()); regs.push_back(Reg()); virt_ids.push_back(m.base_id()); is_stack.push_back(true); }
    else w.kv("idx", 0).kv("size", 0).kv("align", 0).kv("name", "").kv("stack", false).kv("none", m.is_none());
    proj();
    w.endObj().emit(out);
  }

  void set_stack_size(unsigned pick, unsigned wsize, unsigned walign, bool bad_id) {
    if (finalized) return;
    uint32_t idx = bad_id ? uint32_t(virt_ids.size()) + 3 : (virt_ids.empty() ? 0 : pick % uint32_t(virt_ids.size()));
    if (!bad_id && virt_ids.empty()) return;
    uint32_t vid = bad_id ? Operand::virt_index_to_virt_id(idx) : virt_ids[idx];
    Error e = take_err(cc.set_stack_size(vid, wsize, walign));
    w.beginObj().kv("e", "SetStackSize").kv("r", err_name(e)).kv("idx", idx).kv("wsize", wsize).kv("walign", walign);
    if (!bad_id) { VirtReg* v = cc.virt_reg_by_id(vid); w.kv("size", v->virt_size()).kv("align", v->alignment()); }
    else w.kv("size", 0).kv("align", 0);
    proj();
    w.endObj().emit(out);
  }

  void rename(unsigned pick, bool empty) {
    if (finalized || regs.empty()) return;
    unsigned k = pick % regs.size();
    if (is_stack[k]) return;
    char name[32];
    snprintf(name, sizeof name, "n%u", nnamed++);
    if (empty) cc.rename(regs[k], ""); else cc.rename(regs[k], "%s", name);
    w.beginObj().kv("e", "Rename").kv("idx", k).kv("wname", empty ? "" : name).kv("name", cc.virt_reg_by_id(virt_ids[k])->name());
    proj();
    w.endObj().emit(out);
  }

  void new_annot() {
    if (finalized) return;
    JumpAnnotation* a = cc.new_jump_annotation();
    w.beginObj().kv("e", "NewAnnot").kv("id", a ? (long long)a->annotation_id() : -1LL).kv("count", (unsigned)cc.jump_annotations().size());
    proj();
    w.endObj().emit(out);
  }

  // CodeHolder::reinit(): "on_reinit" of the attached Compiler - everything the front end holds is gone, the code is a fresh .text section
  void reinit() {
    Error e = take_err(code.reinit());
    ids.clear();
    created.clear(); regs.clear(); virt_ids.clear(); is_stack.clear(); func_labels.clear();
    clean = true; open = 0; finalized = false; label_invokes = 0;
    BaseNode* n0 = cc.first_node();
    w.beginObj().kv("e", "Reinit").kv("r", err_name(e)).kv("n0", id(n0)).kv("k0", n0 ? kind_name(n0) : "none")
     .kv("annots", (unsigned)cc.jump_annotations().size()).kv("pools", (cc._const_pools[0] ? 1 : 0) + (cc._const_pools[1] ? 1 : 0));
    proj();
    w.endObj().emit(out);
  }

  void finalize() {
    if (finalized || !clean || open != 0) return;
    Error e = take_err(cc.finalize());
    finalized = true;
    // tidy: the code is a sequence of closed functions made of documented calls only (this flag is the harness's claim)
    w.beginObj().kv("e", "Finalize").kv("r", err_name(e)).kv("tidy", tidy).kv("arch", arch.c_str()).kv("lblinv", label_invokes);
    w.key("fwd").beginArr();
    { size_t k = 0; for (BaseNode* n = cc.first_node(); n && k < 100000; n = n->next(), k++) w.val(id(n)); }
    w.endArr();
    w.endObj().emit(out);
  }

  void op(const vj::Value& o) {
    const std::string& name = o[0].s();
    auto B = [&](size_t i) { return o.arr.size() > i && o[i].b; };
    auto I = [&](size_t i) { return o.arr.size() > i ? unsigned(o[i].i()) : 0u; };
    if (name == "NewFunc") new_func(B(1), I(2));
    else if (name == "AddFuncNode") add_func_node();
    else if (name == "AddFunc") add_func(B(1), I(2));
    else if (name == "EndFunc") end_func();
    else if (name == "Invoke") invoke(B(1), I(2), I(3));
    else if (name == "Emit") emit(o[1].s());
    else if (name == "SetCursor") set_cursor(I(1));
    else if (name == "NewConst") new_const(o[1].s(), B(2), I(3));
    else if (name == "NewReg") new_reg(B(1), I(2));
    else if (name == "NewSimilar") new_similar(I(1));
    else if (name == "NewStack") new_stack(I(1), I(2));
    else if (name == "SetStackSize") set_stack_size(I(1), I(2), I(3), B(4));
    else if (name == "Rename") rename(I(1), B(2));
    else if (name == "NewAnnot") new_annot();
    else if (name == "Finalize") finalize();
    else if (name == "Reinit") reinit();
    else { fprintf(stderr, "unknown op %s\n", name.c_str()); exit(3); }
  }

  // tidy executions only make calls that keep the code a sequence of closed functions, so that finalize() is reached and succeeds
  void tidy_ops(vj::Rng& r, unsigned steps) {
    tidy = true;
    for (unsigned i = 0; i < steps; i++) {
      unsigned c = unsigned(r.below(100));
      if (c < 16) { if (!open) add_func(true, unsigned(r.below(4))); }
      else if (c < 30) { if (open) end_func(); }
      else if (c < 40) { if (open && !func_labels.empty()) invoke(true, 0, 2 * unsigned(r.below(4))); }
      else if (c < 58) { if (open) emit(c % 3 == 0 ? "inst" : c % 3 == 1 ? "funcret" : "label"); }
      else if (c < 78) new_const(r.chance(1, 12) ? "bad" : r.chance(1, 2) ? "local" : "global", !r.chance(1, 10), unsigned(r.below(3)));
      else if (c < 86) new_reg(!r.chance(1, 8), unsigned(r.below(8)));
      else if (c < 90) new_stack(8u << r.below(3), 1u << r.below(8));
      else if (c < 93) new_annot();
      else if (c < 96) { if (!open) new_func(true, unsigned(r.below(3))); }
      else { if (!open) add_func_node(); }
    }
    if (open) end_func();
    finalize();
  }

  void random_ops(vj::Rng& r, unsigned steps) {
    if (r.chance(2, 5)) { tidy_ops(r, steps); if (r.chance(1, 3)) { reinit(); tidy = false; if (r.chance(1, 2)) tidy_ops(r, steps / 2 + 1); } return; }
    for (unsigned i = 0; i < steps && !finalized; i++) {
      if (r.chance(1, 40)) { reinit(); continue; }
      unsigned c = unsigned(r.below(100));
      unsigned nodes = 0;
      for (BaseNode* n = cc.first_node(); n; n = n->next()) nodes++;
      if (c < 14) add_func(!r.chance(1, 8), unsigned(r.below(5)));
      else if (c < 28) end_func();
      else if (c < 40) invoke(!r.chance(1, 6), unsigned(r.below(5)), unsigned(r.below(8)));
      else if (c < 54) emit(c % 3 == 0 ? "inst" : c % 3 == 1 ? "funcret" : "label");
      else if (c < 60) set_cursor(unsigned(r.below(nodes + 1)));
      else if (c < 72) new_const(r.chance(1, 10) ? "bad" : r.chance(1, 2) ? "local" : "global", !r.chance(1, 8), unsigned(r.below(3)));
      else if (c < 80) new_reg(!r.chance(1, 8), unsigned(r.below(8)));
      else if (c < 83) new_similar(unsigned(r.below(8)));
      else if (c < 88) { static const unsigned sz[] = {0, 1, 8, 24, 100}; static const unsigned al[] = {0, 1, 3, 4, 16, 64, 128, 96}; new_stack(sz[r.below(5)], al[r.below(8)]); }
      else if (c < 91) { static const unsigned al[] = {0, 2, 5, 32, 256}; set_stack_size(unsigned(r.below(8)), unsigned(r.below(3)) * 16, al[r.below(5)], r.chance(1, 6)); }
      else if (c < 93) rename(unsigned(r.below(8)), r.chance(1, 4));
      else if (c < 95) new_annot();
      else if (c < 97) new_func(!r.chance(1, 8), unsigned(r.below(4)));
      else if (c < 99) add_func_node();
      else finalize();
    }
    // a tidy tail so that finalize() is reached often: close what is open
    if (!finalized && r.chance(2, 3)) { for (int g = 0; g < 4 && open > 0; g++) end_func(); finalize(); }
  }
};

template<typename CC>
static void run_script(FILE* out, const std::string& arch, const vj::Value& ops) {
  Exec<CC> ex(out, arch);
  for (auto& o : ops.arr) ex.op(o);
}

template<typename CC>
static void run_random(FILE* out, const std::string& arch, vj::Rng& r, unsigned steps) {
  Exec<CC> ex(out, arch);
  ex.random_ops(r, 1 + unsigned(r.below(steps)));
}


// ---------------------------------------------------------------------------------------------------------------------
// static invoke cases (x86-32, Win64, AArch64 - nothing is executed):  compfront static <cases.ndjson> <out.ndjson>
//   in : {"id","env":"x86-sysv|x86-win|x64-win|a64-aapcs","fconv","cconv","fargs":[types],"cargs":[types],
//         "map":[for each callee argument: index (1-based) of the argument of f that is passed, 0 = immediate],"imms":[..],"fp":0|1}
//   f(fargs...) { callee(designated operands); }   built with the real Compiler and finalized; logged: the locations FuncDetail
//   reports for both signatures (per value of each argument pack) and every instruction from the function entry to the call.
// ---------------------------------------------------------------------------------------------------------------------
struct TN { const char* name; TypeId id; };
static const TN kTN[] = {
  {"void", TypeId::kVoid}, {"i8", TypeId::kInt8}, {"u8", TypeId::kUInt8}, {"i16", TypeId::kInt16}, {"u16", TypeId::kUInt16},
  {"i32", TypeId::kInt32}, {"u32", TypeId::kUInt32}, {"i64", TypeId::kInt64}, {"u64", TypeId::kUInt64},
  {"f32", TypeId::kFloat32}, {"f64", TypeId::kFloat64}, {"i32x4", TypeId::kInt32x4}, {"f32x4", TypeId::kFloat32x4}, {"f64x2", TypeId::kFloat64x2},
};
static TypeId type_of(const std::string& s) { for (auto& t : kTN) if (s == t.name) return t.id; fprintf(stderr, "type %s?\n", s.c_str()); exit(3); }

static Environment env_named(const std::string& s) {
  if (s == "x86-sysv") return Environment(Arch::kX86, SubArch::kUnknown, Vendor::kUnknown, Platform::kLinux, PlatformABI::kGNU, ObjectFormat::kELF);
  if (s == "x86-win") return Environment(Arch::kX86, SubArch::kUnknown, Vendor::kUnknown, Platform::kWindows, PlatformABI::kMSVC, ObjectFormat::kCOFF);
  if (s == "x64-win") return Environment(Arch::kX64, SubArch::kUnknown, Vendor::kUnknown, Platform::kWindows, PlatformABI::kMSVC, ObjectFormat::kCOFF);
  if (s == "x64-sysv") return Environment(Arch::kX64, SubArch::kUnknown, Vendor::kUnknown, Platform::kLinux, PlatformABI::kGNU, ObjectFormat::kELF);
  if (s == "a64-aapcs") return Environment(Arch::kAArch64, SubArch::kUnknown, Vendor::kUnknown, Platform::kLinux, PlatformABI::kGNU, ObjectFormat::kELF);
  fprintf(stderr, "env %s?\n", s.c_str()); exit(3);
}
static CallConvId conv_named(const std::string& s) {
  if (s == "cdecl") return CallConvId::kCDecl;
  if (s == "stdcall") return CallConvId::kStdCall;
  if (s == "fastcall") return CallConvId::kFastCall;
  if (s == "thiscall") return CallConvId::kThisCall;
  if (s == "regparm1") return CallConvId::kRegParm1;
  if (s == "regparm2") return CallConvId::kRegParm2;
  if (s == "regparm3") return CallConvId::kRegParm3;
  if (s == "vectorcall") return CallConvId::kVectorCall;
  if (s == "x64win") return CallConvId::kX64Windows;
  if (s == "x64sysv") return CallConvId::kX64SystemV;
  fprintf(stderr, "conv %s?\n", s.c_str()); exit(3);
}
static const char* grp_name(RegGroup g) {
  switch (g) { case RegGroup::kGp: return "gp"; case RegGroup::kVec: return "vec"; case RegGroup::kMask: return "k"; case RegGroup::kX86_MM: return "mm"; case RegGroup::kX86_St: return "st"; default: return "other"; }
}
static uint32_t reg_size_of(RegType t) {
  switch (t) {
    case RegType::kGp8Lo: case RegType::kGp8Hi: case RegType::kVec8: return 1;
    case RegType::kGp16: case RegType::kVec16: return 2;
    case RegType::kGp32: case RegType::kVec32: return 4;
    case RegType::kGp64: case RegType::kVec64: case RegType::kMask: case RegType::kX86_Mm: return 8;
    case RegType::kVec128: return 16;
    case RegType::kVec256: return 32;
    case RegType::kVec512: return 64;
    default: return 0;
  }
}
static void put_fv(vj::W& w, const FuncValue& v) {
  w.beginObj();
  if (v.is_reg()) w.kv("k", "reg").kv("g", grp_name(RegUtils::group_of(v.reg_type()))).kv("id", v.reg_id()).kv("off", 0);
  else if (v.is_stack()) w.kv("k", "stack").kv("g", "").kv("id", 0).kv("off", v.stack_offset());
  else w.kv("k", "none").kv("g", "").kv("id", 0).kv("off", 0);
  w.kv("ind", v.is_indirect()).kv("sz", (unsigned)TypeUtils::size_of(v.type_id()));
  w.endObj();
}
static bool g_is_a64 = false;
static void put_op(vj::W& w, const Operand_& op) {
  w.beginObj();
  if (op.is_reg()) {
    const Reg& r = op.as<Reg>();
    w.kv("k", "reg").kv("g", grp_name(r.reg_group())).kv("id", r.id()).kv("sz", reg_size_of(r.reg_type())).kv("bg", "").kv("b", 0).kv("d", 0).kv("x", false).kv("m", "");
  }
  else if (op.is_mem()) {
    const BaseMem& m = op.as<BaseMem>();
    bool simple = m.has_base_reg() && !m.has_index() && !m.has_base_label();
    long long d = m.offset();
    if (d > 1000000 || d < -1000000) { simple = false; d = 0; }
    const char* mode = "";
    if (g_is_a64 && op.as<a64::Mem>().is_pre_index()) mode = "pre";
    if (g_is_a64 && op.as<a64::Mem>().is_post_index()) mode = "post";
    w.kv("k", "mem").kv("g", "").kv("id", 0).kv("sz", (unsigned)op.signature().size()).kv("bg", m.has_base_reg() ? "gp" : "none")
     .kv("b", m.has_base_reg() ? m.base_id() : 0u).kv("d", d).kv("x", !simple).kv("m", mode);
  }
  else if (op.is_imm()) {
    long long v = op.as<Imm>().value();
    if (v > 1000000 || v < -1000000) v = 1000001;
    w.kv("k", "imm").kv("g", "").kv("id", 0).kv("sz", 0).kv("bg", "").kv("b", 0).kv("d", v).kv("x", false).kv("m", "");
  }
  else w.kv("k", "other").kv("g", "").kv("id", 0).kv("sz", 0).kv("bg", "").kv("b", 0).kv("d", 0).kv("x", false).kv("m", "");
  w.endObj();
}

template<typename CC>
static void static_case(const vj::Value& in, FILE* out) {
  Environment env = env_named(in["env"].s());
  g_is_a64 = env.is_family_aarch64();
  CodeHolder code;
  code.init(env);
  ErrH eh;
  code.set_error_handler(&eh);
  FileLogger lg(stderr);
  if (getenv("X06_LOG")) code.set_logger(&lg);          // debugging aid only
  CC cc(&code);
  if (getenv("X06_LOG")) cc.add_diagnostic_options(DiagnosticOptions::kRAAnnotate);
  vj::W w;
  FuncSignature fsig(conv_named(in["fconv"].s())), csig(conv_named(in["cconv"].s()));
  fsig.set_ret(TypeId::kVoid);
  csig.set_ret(TypeId::kVoid);
  for (auto& a : in["fargs"].arr) fsig.add_arg(type_of(a.s()));
  for (auto& a : in["cargs"].arr) csig.add_arg(type_of(a.s()));
  w.beginObj().kv("e", "Static").kv("id", in["id"].i()).kv("env", in["env"].s()).kv("fconv", in["fconv"].s()).kv("cconv", in["cconv"].s());
  w.key("fargs").beginArr(); for (auto& a : in["fargs"].arr) w.val(a.s()); w.endArr();
  w.key("cargs").beginArr(); for (auto& a : in["cargs"].arr) w.val(a.s()); w.endArr();
  w.key("map").beginArr(); for (auto& a : in["map"].arr) w.val(a.i()); w.endArr();
  w.key("imms").beginArr(); for (auto& a : in["imms"].arr) w.val(a.i()); w.endArr();
  long long live = in.has("live") ? in["live"].i() : 0;   // >0: f keeps a stack slot with known contents live across the call
  w.kv("fp", in["fp"].i()).kv("live", live).kv("bits", env.is_32bit() ? 32 : 64).kv("family", env.is_family_x86() ? "x86" : "a64");
  const ArchTraits& at = ArchTraits::by_arch(env.arch());
  w.kv("sp", at.sp_reg_id());

  FuncNode* f = cc.add_func(fsig);
  Error e_api = take_first(eh);
  InvokeNode* inv = nullptr;
  std::vector<std::vector<Reg>> fregs;          // per argument of f: one register per value of its pack
  if (f) {
    if (in["fp"].i()) f->frame().set_preserved_fp();
    for (uint32_t i = 0; i < f->arg_count(); i++) {
      std::vector<Reg> pack;
      const FuncValuePack& vp = f->detail().arg_pack(i);
      for (uint32_t vi = 0; vi < Globals::kMaxValuePack && vp[vi]; vi++) {
        Reg r;
        // the register a user of this back end would create for a value of that type: x86 new_xmm_ss() / new_xmm_sd() for
        // float / double, a64 new_vec_s() / new_vec_d(), new_gp(type) for integers
        TypeId vt = vp[vi].type_id();
        if (env.is_family_x86() && vt == TypeId::kFloat32) vt = TypeId::kFloat32x1;
        if (env.is_family_x86() && vt == TypeId::kFloat64) vt = TypeId::kFloat64x1;
        // x86compiler.h, new_gp8(): "Using 8-bit registers is not recommended, use at least 32-bit registers in portable code":
        // in 32-bit mode a char argument lives in a 32-bit virtual register
        if (env.is_32bit() && vt == TypeId::kInt8) vt = TypeId::kInt32;
        if (env.is_32bit() && vt == TypeId::kUInt8) vt = TypeId::kUInt32;
        Error e = cc._new_reg_with_name(Out<Reg>(r), vt, nullptr);
        if (e != Error::kOk && e_api == Error::kOk) e_api = e;
        f->set_arg(i, vi, r);
        pack.push_back(r);
      }
      fregs.push_back(pack);
    }
    Error e = Error::kOk;
    if (live > 0 && env.is_family_x86() && env.is_64bit()) {
      // a local of f with known contents (the immediates 9001 / 9002 in its first and last word), written before the call
      x86::Compiler& xc = static_cast<x86::Compiler&>(static_cast<BaseCompiler&>(cc));
      x86::Mem slot = xc.new_stack(uint32_t(live), 16);
      x86::Mem lo = slot; lo.set_size(8);
      x86::Mem hi = slot.clone_adjusted(int64_t(live) - 8); hi.set_size(8);
      e = xc.mov(lo, imm(9001));
      if (e != Error::kOk && e_api == Error::kOk) e_api = e;
      e = xc.mov(hi, imm(9002));
      if (e != Error::kOk && e_api == Error::kOk) e_api = e;
    }
    Reg target;
    e = cc._new_reg_with_name(Out<Reg>(target), TypeId::kUIntPtr, nullptr);
    if (e != Error::kOk && e_api == Error::kOk) e_api = e;
    // the call target is loaded from the first word of f's red-zone-free scratch: an opaque register value is all that is needed
    if (env.is_family_x86()) e = static_cast<x86::Compiler&>(static_cast<BaseCompiler&>(cc)).xor_(target.as<x86::Gp>(), target.as<x86::Gp>());
    else e = static_cast<a64::Compiler&>(static_cast<BaseCompiler&>(cc)).mov(target.as<a64::Gp>(), 0);
    if (e != Error::kOk && e_api == Error::kOk) e_api = e;
    if (env.is_family_x86()) e = static_cast<x86::Compiler&>(static_cast<BaseCompiler&>(cc)).invoke(Out(inv), target.as<x86::Gp>(), csig);
    else e = static_cast<a64::Compiler&>(static_cast<BaseCompiler&>(cc)).invoke(Out(inv), target.as<a64::Gp>(), csig);
    if (e != Error::kOk && e_api == Error::kOk) e_api = e;
    if (inv && e == Error::kOk) {
      size_t j = 0, ni = 0;
      for (auto& mp : in["map"].arr) {
        long long src = mp.i();
        const FuncValuePack& vp = inv->detail().arg_pack(j);
        if (src > 0) { for (uint32_t vi = 0; vi < Globals::kMaxValuePack && vp[vi] && vi < fregs[size_t(src) - 1].size(); vi++) inv->set_arg(j, vi, fregs[size_t(src) - 1][vi]); }
        else { inv->set_arg(j, imm(in["imms"].arr[ni].i())); }
        if (src == 0) ni++;
        j++;
      }
    }
    e = cc.end_func();
    if (e != Error::kOk && e_api == Error::kOk) e_api = e;
  }
  Error h = take_first(eh);
  if (e_api == Error::kOk) e_api = h;
  Error e_fin = e_api == Error::kOk ? cc.finalize() : Error::kOk;
  w.kv("api", err_name(e_api)).kv("fin", err_name(e_fin));
  // locations as asmjit's FuncDetail reports them, one entry per value of each argument pack
  w.key("floc").beginArr();
  if (f) for (uint32_t i = 0; i < f->arg_count(); i++) { w.beginArr(); const FuncValuePack& vp = f->detail().arg_pack(i); for (uint32_t vi = 0; vi < Globals::kMaxValuePack && vp[vi]; vi++) put_fv(w, vp[vi]); w.endArr(); }
  w.endArr();
  w.key("cloc").beginArr();
  if (inv) for (uint32_t i = 0; i < inv->arg_count(); i++) { w.beginArr(); const FuncValuePack& vp = inv->detail().arg_pack(i); for (uint32_t vi = 0; vi < Globals::kMaxValuePack && vp[vi]; vi++) put_fv(w, vp[vi]); w.endArr(); }
  w.endArr();
  w.kv("cstack", inv ? inv->detail().arg_stack_size() : 0u);
  // what the finalized frame reserves for outgoing calls, and where f's own locals begin (offsets from SP after the prolog)
  w.kv("call_area", f ? f->frame().call_stack_size() : 0u).kv("local_off", f ? f->frame().local_stack_offset() : 0u)
   .kv("local_size", f ? f->frame().local_stack_size() : 0u);
  // every instruction from the entry of f to the call (the call itself is the last one)
  w.key("insts").beginArr();
  bool reached = false;
  unsigned ninst = 0;
  if (f && inv && e_api == Error::kOk && e_fin == Error::kOk) {
    for (BaseNode* n = f->next(); n && n != f->end_node(); n = n->next()) {
      if (!n->is_inst()) continue;
      InstNode* in_ = n->as<InstNode>();
      String name;
      InstAPI::inst_id_to_string(env.arch(), in_->inst_id(), InstStringifyOptions::kNone, name);
      w.beginObj().kv("op", name.data()).kv("call", n == inv);
      w.key("o").beginArr();
      for (const Operand& op : in_->operands()) put_op(w, op);
      w.endArr().endObj();
      ninst++;
      if (n == inv) { reached = true; break; }
    }
  }
  w.endArr();
  w.kv("ninst", ninst).kv("reached", reached);
  w.endObj().emit(out);
}

static int cmd_static(const char* inp, const char* outp) {
  auto recs = vj::read_ndjson(inp);
  FILE* out = fopen(outp, "w");
  if (!out) return 3;
  vj::install_abort_handlers(out);
  for (auto& in : recs) {
    if (in["env"].s().rfind("a64", 0) == 0) static_case<a64::Compiler>(in, out);
    else static_case<x86::Compiler>(in, out);
    fflush(out);
  }
  fclose(out);
  return 0;
}

int main(int argc, char** argv) {
  if (argc < 4) { fprintf(stderr, "usage: compfront random <trace> <executions> <steps> | compfront script <scripts> <trace>\n"); return 3; }
  std::string mode = argv[1];
  static const char* archs[] = {"x64", "x86", "a64"};
  if (mode == "static") return cmd_static(argv[2], argv[3]);
  if (mode == "script") {
    auto scripts = vj::read_ndjson(argv[2]);
    FILE* out = fopen(argv[3], "w");
    if (!out) return 3;
    vj::install_abort_handlers(out);
    for (auto& s : scripts) {
      std::string a = s["arch"].s();
      if (a == "a64") run_script<a64::Compiler>(out, a, s["ops"]);
      else run_script<x86::Compiler>(out, a, s["ops"]);
    }
    fclose(out);
    return 0;
  }
  if (mode == "random" && argc >= 5) {
    FILE* out = fopen(argv[2], "w");
    if (!out) return 3;
    vj::install_abort_handlers(out);
    vj::Rng r(vj::env_seed());
    unsigned nexec = unsigned(atoi(argv[3])), steps = unsigned(atoi(argv[4]));
    for (unsigned i = 0; i < nexec; i++) {
      std::string a = archs[i % 3];
      if (a == "a64") run_random<a64::Compiler>(out, a, r, steps);
      else run_random<x86::Compiler>(out, a, r, steps);
    }
    fclose(out);
    return 0;
  }
  return 3;
}
