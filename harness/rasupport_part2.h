// X05 harness, part 2: pointwise observations of the small value types and the in-vivo snapshot of a real RA pass.
#pragma once

// =========================================================================================================
// tables: RARegCount / RARegIndex / RARegMask / RARegsStats / RALiveSpan / RAWorkReg flags and masks / RAConstraints
// =========================================================================================================
static void bits4(vj::W& w, const char* k, const RARegMask& m) {
  w.key(k).beginArr();
  for (unsigned g = 0; g < 4; g++) bits_val(w, m[RegGroup(g)]);
  w.endArr();
}

static void tables(FILE* out, vj::Rng& r, unsigned n) {
  vj::W w;
  // ---- RARegCount: set / add / get, equality -----------------------------------------------------------
  for (unsigned i = 0; i < n; i++) {
    RARegCount c; c.reset();
    unsigned model[4] = {0, 0, 0, 0};
    w.beginObj().kv("k", "count").key("ops").beginArr();
    unsigned m = 1 + unsigned(r.below(8));
    for (unsigned j = 0; j < m; j++) {
      unsigned g = unsigned(r.below(4));
      if (r.chance(1, 2)) { unsigned v = unsigned(r.chance(1, 5) ? 255 : r.below(256)); c.set(RegGroup(g), v); model[g] = v; w.beginArr().val("set").val(g).val(v).endArr(); }
      else { unsigned room = 255 - c.get(RegGroup(g)); unsigned v = unsigned(r.below(room + 1)); if (r.chance(1, 4)) v = room; c.add(RegGroup(g), v); model[g] += v; w.beginArr().val("add").val(g).val(v).endArr(); }
    }
    w.endArr();
    w.key("get").beginArr(); for (unsigned g = 0; g < 4; g++) w.val(c.get(RegGroup(g))); w.endArr();
    RARegCount d = c, z; z.reset();
    w.kv("eqcopy", c == d).kv("necopy", c != d).kv("eqzero", c == z);
    w.endObj().emit(out);
  }
  // ---- RARegIndex::build_indexes -----------------------------------------------------------------------
  for (unsigned i = 0; i < n; i++) {
    RARegCount c; c.reset();
    unsigned room = 255;
    unsigned v[4];
    for (unsigned g = 0; g < 3; g++) { v[g] = unsigned(r.below(std::min(room, 64u) + 1)); if (r.chance(1, 8)) v[g] = room; room -= v[g]; }
    v[3] = unsigned(r.below(256));
    for (unsigned g = 0; g < 4; g++) c.set(RegGroup(g), v[g]);
    RARegIndex ix; ix.reset(); ix.build_indexes(c);
    w.beginObj().kv("k", "index");
    w.key("cnt").beginArr(); for (unsigned g = 0; g < 4; g++) w.val(v[g]); w.endArr();
    w.key("idx").beginArr(); for (unsigned g = 0; g < 4; g++) w.val(ix.get(RegGroup(g))); w.endArr();
    w.endObj().emit(out);
  }
  // ---- RARegMask -----------------------------------------------------------------------------------------
  for (unsigned i = 0; i < n; i++) {
    auto rnd = [&](RARegMask& m) { for (unsigned g = 0; g < 4; g++) m[RegGroup(g)] = r.chance(1, 5) ? 0u : uint32_t(r.next()) & (r.chance(1, 3) ? 0xFFFFFFFFu : 0xFFFFu); };
    RARegMask a, b; a.reset(); b.reset(); rnd(a); rnd(b);
    unsigned op = unsigned(r.below(9));
    static const char* names[] = {"or", "and", "andnot", "xor", "gor", "gand", "gandnot", "clear", "clearall"};
    RARegMask res; res.init(a);
    unsigned g = unsigned(r.below(4));
    uint32_t gm = uint32_t(r.next());
    switch (op) {
      case 0: res.op<Support::Or>(b); break;
      case 1: res.op<Support::And>(b); break;
      case 2: res.op<Support::AndNot>(b); break;
      case 3: res.op<Support::Xor>(b); break;
      case 4: res.op<Support::Or>(RegGroup(g), gm); break;
      case 5: res.op<Support::And>(RegGroup(g), gm); break;
      case 6: res.op<Support::AndNot>(RegGroup(g), gm); break;
      case 7: res.clear(RegGroup(g), gm); break;
      case 8: res.clear(b._masks); break;
    }
    RARegMask z; z.reset();
    RARegMask cp; cp.init(a._masks);
    w.beginObj().kv("k", "mask").kv("op", names[op]).kv("g", g);
    bits4(w, "a", a); bits4(w, "b", b); bits(w, "gm", gm); bits4(w, "r", res);
    w.kv("empty", res.is_empty()).kv("zempty", z.is_empty()).kv("has", res.has(RegGroup(g))).kv("hasm", res.has(RegGroup(g), gm))
     .kv("eq", res == a).kv("ne", res != a).kv("cpeq", cp == a);
    w.endObj().emit(out);
  }
  // ---- RARegsStats ----------------------------------------------------------------------------------------
  for (unsigned i = 0; i < n / 2 + 1; i++) {
    RARegsStats s, t;
    w.beginObj().kv("k", "stats").key("ops").beginArr();
    unsigned m = unsigned(r.below(5));
    for (unsigned j = 0; j < m; j++) {
      unsigned g = unsigned(r.below(4)), kind = unsigned(r.below(3));
      RARegsStats& dst = r.chance(1, 4) ? t : s;
      if (kind == 0) dst.make_used(RegGroup(g)); else if (kind == 1) dst.make_fixed(RegGroup(g)); else dst.make_clobbered(RegGroup(g));
      w.beginArr().val(kind == 0 ? "used" : kind == 1 ? "fixed" : "clob").val(g).endArr();
    }
    s.combine_with(t);
    w.endArr();
    w.key("q").beginArr();
    w.val(s.has_used()).val(s.has_fixed()).val(s.has_clobbered());
    for (unsigned g = 0; g < 4; g++) w.val(s.has_used(RegGroup(g)));
    for (unsigned g = 0; g < 4; g++) w.val(s.has_fixed(RegGroup(g)));
    for (unsigned g = 0; g < 4; g++) w.val(s.has_clobbered(RegGroup(g)));
    w.endArr();
    w.endObj().emit(out);
  }
  // ---- RALiveSpan -----------------------------------------------------------------------------------------
  for (unsigned i = 0; i < n / 2 + 1; i++) {
    uint32_t a = uint32_t(r.below(200)), b = uint32_t(r.below(200));
    RALiveSpan s{NodePosition(a), NodePosition(b)};
    RALiveSpan t; t.init(s);
    RALiveSpan u; u.reset();
    w.beginObj().kv("k", "span").kv("a", a).kv("b", b).kv("valid", s.is_valid()).kv("width", a <= b ? (long long)s.width() : -1)
     .kv("ta", (long long)uint32_t(t.a)).kv("tb", (long long)uint32_t(t.b)).kv("ua", (long long)uint32_t(u.a)).kv("ub", (long long)uint32_t(u.b));
    w.endObj().emit(out);
  }
  // ---- RALiveCount ----------------------------------------------------------------------------------------
  for (unsigned i = 0; i < n / 4 + 1; i++) {
    RALiveCount a, b;
    w.beginObj().kv("k", "livecount");
    w.key("a").beginArr(); for (unsigned g = 0; g < 4; g++) { a[RegGroup(g)] = uint32_t(r.below(100)); w.val(a[RegGroup(g)]); } w.endArr();
    w.key("b").beginArr(); for (unsigned g = 0; g < 4; g++) { b[RegGroup(g)] = uint32_t(r.below(100)); w.val(b[RegGroup(g)]); } w.endArr();
    RALiveCount m(a); m.op<Support::Max>(b);
    RALiveCount s; s.init(a); s.op<Support::Add>(b);
    w.key("max").beginArr(); for (unsigned g = 0; g < 4; g++) w.val(m[RegGroup(g)]); w.endArr();
    w.key("sum").beginArr(); for (unsigned g = 0; g < 4; g++) w.val(s[RegGroup(g)]); w.endArr();
    s.reset();
    w.key("rst").beginArr(); for (unsigned g = 0; g < 4; g++) w.val(s[RegGroup(g)]); w.endArr();
    w.endObj().emit(out);
  }
  // ---- RAWorkReg: flags, masks, ids, immediate consecutives ------------------------------------------------
  {
    Arena arena{8192};
    for (unsigned i = 0; i < n; i++) {
      VirtReg* vr = arena.new_oneshot<VirtReg>(RegType::kGp64, VirtRegFlags::kNone, uint32_t(Operand::kVirtIdMin + i), 8u, TypeId::kInt64);
      unsigned grp = unsigned(r.below(4));
      RAWorkReg* wr = arena.new_oneshot<RAWorkReg>(vr, OperandSignature::from_reg_group(RegGroup(grp)), RAWorkId(i));
      w.beginObj().kv("k", "workreg").kv("grp", grp).kv("wid", i);
      w.key("ops").beginArr();
      unsigned m = unsigned(r.below(7));
      static const uint32_t fl[] = {0x1, 0x8, 0x10, 0x20, 0x40, 0x1000, 0x2000, 0x40000000u, 0x80000000u};
      for (unsigned j = 0; j < m; j++) {
        unsigned kind = unsigned(r.below(12));
        uint32_t f = fl[r.below(9)];
        uint32_t mk = r.chance(1, 3) ? (1u << r.below(32)) : uint32_t(r.next());
        w.beginArr();
        switch (kind) {
          case 0: wr->add_flags(RAWorkRegFlags(f)); w.val("addf"); bits_val(w, f); break;
          case 1: wr->xor_flags(RAWorkRegFlags(f)); w.val("xorf"); bits_val(w, f); break;
          case 2: wr->clear_flags(RAWorkRegFlags(f)); w.val("clrf"); bits_val(w, f); break;
          case 3: wr->mark_allocated(); w.val("addf"); bits_val(w, 0x1); break;
          case 4: wr->mark_stack_used(); w.val("addf"); bits_val(w, 0x10); break;
          case 5: wr->mark_stack_preferred(); w.val("addf"); bits_val(w, 0x20); break;
          case 6: wr->mark_lead_consecutive(); w.val("addf"); bits_val(w, 0x1000); break;
          case 7: wr->add_use_id_mask(mk); w.val("useid"); bits_val(w, mk); break;
          case 8: wr->restrict_preferred_mask(mk); w.val("pref"); bits_val(w, mk); break;
          case 9: wr->restrict_consecutive_mask(mk); w.val("cons"); bits_val(w, mk); break;
          case 10: wr->add_clobber_survival_mask(mk); w.val("clob"); bits_val(w, mk); break;
          default: wr->add_allocated_mask(mk); w.val("alloc"); bits_val(w, mk); break;
        }
        w.endArr();
      }
      w.endArr();
      bits(w, "flags", uint32_t(wr->flags()));
      w.key("q").beginArr();
      w.val(wr->is_allocated()).val(wr->is_within_single_basic_block()).val(wr->is_lead_consecutive()).val(wr->is_processed_consecutive())
       .val(wr->is_stack_used()).val(wr->is_stack_preferred());
      w.endArr();
      bits(w, "useid", wr->use_id_mask()); bits(w, "pref", wr->preferred_mask()); bits(w, "cons", wr->consecutive_mask());
      bits(w, "clob", wr->clobber_survival_mask()); bits(w, "alloc", wr->allocated_mask());
      w.kv("hasuse", wr->has_use_id_mask()).kv("multi", wr->has_multiple_use_ids()).kv("haspref", wr->has_preferred_mask()).kv("hascons", wr->has_consecutive_mask());
      // ids
      bool sethome = r.chance(1, 2), sethint = r.chance(1, 2), setarg = r.chance(1, 2);
      unsigned home = unsigned(r.below(32)), hint = unsigned(r.below(32)), ai = unsigned(r.below(16)), vi = unsigned(r.below(4));
      if (sethome) wr->set_home_reg_id(home);
      if (sethint) wr->set_hint_reg_id(hint);
      if (setarg) wr->set_arg_index(ai, vi);
      w.kv("sethome", sethome ? int(home) : -1).kv("sethint", sethint ? int(hint) : -1).kv("setarg", setarg ? int(ai) : -1).kv("setval", setarg ? int(vi) : -1);
      w.kv("hashome", wr->has_home_reg_id()).kv("home", wr->home_reg_id()).kv("hashint", wr->has_hint_reg_id()).kv("hint", wr->hint_reg_id())
       .kv("hasarg", wr->has_arg_index()).kv("arg", wr->arg_index()).kv("val", wr->arg_value_index());
      w.kv("ggrp", (long long)uint32_t(wr->group())).kv("gwid", (long long)uint32_t(wr->work_id())).kv("hasslot", wr->has_stack_slot()).kv("hastied", wr->has_tied_reg());
      // immediate consecutives
      w.key("ic").beginArr();
      unsigned nic = unsigned(r.below(4));
      bool icok = true;
      for (unsigned j = 0; j < nic; j++) { unsigned id = unsigned(r.below(200)); if (wr->add_immediate_consecutive(arena, RAWorkId(id)) != Error::kOk) icok = false; w.val(id); }
      w.endArr();
      w.kv("icok", icok).kv("hasic", wr->has_immediate_consecutives());
      w.key("icbits").beginArr();
      { const ArenaBitSet& bs = wr->immediate_consecutives(); for (uint32_t b = 0; b < bs.size(); b++) if (bs.bit_at(b)) w.val(b); }
      w.endArr();
      w.endObj().emit(out);
    }
  }
  // ---- RAConstraints::init(arch) ----------------------------------------------------------------------------
  {
    static const struct { Arch a; const char* n; } archs[] = {
      {Arch::kX86, "x86"}, {Arch::kX64, "x64"}, {Arch::kAArch64, "aarch64"}, {Arch::kUnknown, "unknown"}, {Arch::kARM, "arm"}, {Arch::kThumb, "thumb"},
      {Arch::kAArch64_BE, "aarch64_be"}, {Arch::kRISCV64, "riscv64"} };
    for (auto& a : archs) {
      RAConstraints c;
      Error e = c.init(a.a);
      const ArchTraits& t = ArchTraits::by_arch(a.a);
      w.beginObj().kv("k", "constraints").kv("arch", a.n).kv("r", err_name(e));
      w.key("avail").beginArr(); for (unsigned g = 0; g < 4; g++) bits_val(w, c.available_regs(RegGroup(g))); w.endArr();
      w.kv("sp", t.sp_reg_id()).kv("fp", t.fp_reg_id()).kv("lr", t.link_reg_id());
      w.endObj().emit(out);
    }
  }
}

// =========================================================================================================
// vivo: compile random functions with the real Compiler and snapshot the allocator's structures in on_done()
// =========================================================================================================
static std::string g_snap;

static void snap_spans(vj::W& w, const char* k, const RALiveSpans& s) {
  w.key(k).beginArr();
  for (size_t i = 0; i < s.size(); i++) {
    long long a = (long long)uint32_t(s.data()[i].a), b = s.data()[i].b == RALiveSpan::kInf ? -1 : (long long)uint32_t(s.data()[i].b);
    w.beginArr().val(a).val(b).endArr();
  }
  w.endArr();
}

static void snapshot(BaseRAPass& p, uint32_t sp_id) {
  vj::W w;
  w.beginObj();
  w.key("pcount").beginArr(); for (unsigned g = 0; g < 4; g++) w.val(p._phys_reg_count.get(RegGroup(g))); w.endArr();
  w.key("pindex").beginArr(); for (unsigned g = 0; g < 4; g++) w.val(p._phys_reg_index.get(RegGroup(g))); w.endArr();
  w.kv("ptotal", p._phys_reg_total);
  bits4(w, "avail", p._available_regs);
  bits4(w, "clob", p._clobbered_regs);
  w.kv("sp", sp_id).kv("tsp", p._arch_traits ? int(p._arch_traits->sp_reg_id()) : -1).kv("tfp", p._arch_traits ? int(p._arch_traits->fp_reg_id()) : -1);
  const FuncFrame& fr = p._func->frame();
  w.kv("hasfp", fr.has_preserved_fp()).kv("loff", fr.local_stack_offset()).kv("lsize", fr.local_stack_size()).kv("lalign", fr.local_stack_alignment())
   .kv("dyn", fr.has_dynamic_alignment());
  // stack allocator
  RAStackAllocator& sa = p._stack_allocator;
  std::vector<RAStackSlot*> slots;
  for (RAStackSlot* s : sa.slots()) slots.push_back(s);
  w.key("stack").beginObj().kv("ssize", sa.stack_size()).kv("aalign", sa.alignment()).kv("n", (long long)sa.slot_count());
  w.key("slots").beginArr();
  for (RAStackSlot* s : slots) w.beginArr().val(s->size()).val(s->alignment()).val(s->flags()).val(s->offset()).val(s->base_reg_id()).val(s->use_count()).val(s->weight()).endArr();
  w.endArr().endObj();
  // work registers
  w.key("regs").beginArr();
  size_t nw = p._work_regs.size();
  for (size_t i = 0; i < nw; i++) {
    RAWorkReg* r = p._work_regs[i];
    int si = -1;
    for (size_t k = 0; k < slots.size(); k++) if (slots[k] == r->stack_slot()) si = int(k);
    w.beginObj().kv("g", (long long)uint32_t(r->group())).kv("home", r->has_home_reg_id() ? int(r->home_reg_id()) : -1).kv("alloc", r->is_allocated())
     .kv("slot", si).kv("hasslot", r->has_stack_slot()).kv("stackused", r->is_stack_used()).kv("width", r->live_stats().width())
     .kv("vsize", r->virt_reg()->virt_size()).kv("valign", r->virt_reg()->alignment()).kv("stackarea", r->virt_reg()->is_stack_area());
    snap_spans(w, "spans", r->live_spans());
    w.endObj();
  }
  w.endArr();
  // intersections computed by the real code for pairs of one group (bounded)
  w.key("pairs").beginArr();
  unsigned np = 0;
  for (size_t i = 0; i < nw && np < 400; i++)
    for (size_t j = i + 1; j < nw && np < 400; j++) {
      RAWorkReg* a = p._work_regs[i]; RAWorkReg* b = p._work_regs[j];
      if (a->group() != b->group()) continue;
      w.beginArr().val((long long)i).val((long long)j).val(a->live_spans().intersects(b->live_spans())).endArr();
      np++;
    }
  w.endArr();
  // global live spans per physical register
  w.key("gspans").beginArr();
  for (unsigned g = 0; g < 4; g++) {
    RALiveSpans* gs = p._global_live_spans[RegGroup(g)];
    if (!gs) continue;
    for (unsigned id = 0; id < p._phys_reg_count.get(RegGroup(g)); id++) {
      if (gs[id].is_empty()) continue;
      w.beginObj().kv("g", g).kv("p", id);
      snap_spans(w, "spans", gs[id]);
      w.endObj();
    }
  }
  w.endArr();
  // blocks
  auto bidx = [&](RABlock* b) { return b ? int(uint32_t(b->block_id())) : -1; };
  w.key("blocks").beginArr();
  for (RABlock* b : p._blocks) {
    w.beginObj();
    w.kv("id", (long long)uint32_t(b->block_id()));
    w.key("succ").beginArr(); for (RABlock* s : b->successors()) w.val(bidx(s)); w.endArr();
    w.key("pred").beginArr(); for (RABlock* s : b->predecessors()) w.val(bidx(s)); w.endArr();
    bits(w, "f", uint32_t(b->flags()));
    w.kv("first", (long long)uint32_t(b->first_position())).kv("end", (long long)uint32_t(b->end_position())).kv("cons", b->consecutive() ? bidx(b->consecutive()) : -1);
    w.endObj();
  }
  w.endArr();
  w.endObj();
  g_snap = w.s;
}

struct VivoX86Pass : public x86::X86RAPass {
  explicit VivoX86Pass(BaseCompiler& cc) noexcept : x86::X86RAPass(cc) {}
  void on_done() noexcept override { snapshot(*this, _sp.id()); x86::X86RAPass::on_done(); }
};
struct VivoA64Pass : public a64::ARMRAPass {
  explicit VivoA64Pass(BaseCompiler& cc) noexcept : a64::ARMRAPass(cc) {}
  void on_done() noexcept override { snapshot(*this, _sp.id()); a64::ARMRAPass::on_done(); }
};

template<typename PassT>
static void install_pass(BaseCompiler& cc) {
  for (size_t i = 0; i < cc._passes.size(); i++) {
    Pass* old = cc._passes[i];
    if (strcmp(old->name(), "RAPass") == 0) {
      old->~Pass();
      cc._passes[i] = cc._builder_arena.new_oneshot<PassT>(cc);
    }
  }
}

static void vivo_x86(FILE* out, vj::Rng& r, unsigned fn, bool is32) {
  CodeHolder code;
  code.init(Environment(is32 ? Arch::kX86 : Arch::kX64));
  x86::Compiler cc(&code);
  install_pass<VivoX86Pass>(cc);
  unsigned nargs = unsigned(r.below(is32 ? 6 : 11));
  FuncSignature sig(CallConvId::kCDecl);
  sig.set_ret_t<uint32_t>();
  for (unsigned i = 0; i < nargs; i++) sig.add_arg_t<uint32_t>();
  FuncNode* f = cc.add_func(sig);
  if (r.chance(1, 4)) f->frame().set_preserved_fp();
  if (!is32 && r.chance(1, 6)) f->frame().set_avx512_enabled();
  unsigned nv = 3 + unsigned(r.below(is32 ? 14 : 26));
  std::vector<x86::Gp> v;
  for (unsigned i = 0; i < nv; i++) v.push_back(r.chance(1, 4) && !is32 ? cc.new_gp64("q%u", i) : cc.new_gp32("v%u", i));
  for (unsigned i = 0; i < nargs && i < nv; i++) f->set_arg(i, v[i].r32());
  for (unsigned i = nargs; i < nv; i++) cc.mov(v[i].r32(), int(i + 1));
  unsigned nx = unsigned(r.below(is32 ? 10 : 20));
  std::vector<x86::Vec> xs;
  for (unsigned i = 0; i < nx; i++) { xs.push_back(cc.new_xmm("x%u", i)); cc.movd(xs.back(), v[r.below(nv)].r32()); }
  std::vector<x86::Mem> st;
  unsigned ns = unsigned(r.below(4));
  static const uint32_t ssz[] = {4, 8, 12, 16, 20, 32, 64, 100, 256};
  static const uint32_t sal[] = {0, 1, 4, 8, 16, 32, 64};
  for (unsigned i = 0; i < ns; i++) { st.push_back(cc.new_stack(ssz[r.below(9)], sal[r.below(7)], "stk")); cc.mov(st.back().clone_adjusted(0), v[r.below(nv)].r32()); }
  unsigned nl = 1 + unsigned(r.below(4));
  std::vector<Label> labs;
  for (unsigned i = 0; i < nl; i++) labs.push_back(cc.new_label());
  unsigned bound = 0;
  unsigned steps = 6 + unsigned(r.below(40));
  x86::Gp cnt = cc.new_gp32("cnt");
  cc.mov(cnt, 3);
  unsigned ncalls = 0;
  for (unsigned i = 0; i < steps; i++) {
    unsigned c = unsigned(r.below(100));
    x86::Gp a = v[r.below(nv)], b = v[r.below(nv)];
    if (c < 30) cc.add(a.r32(), b.r32());
    else if (c < 40) cc.xor_(a.r32(), b.r32());
    else if (c < 48) cc.imul(a.r32(), b.r32());
    else if (c < 54 && !st.empty()) cc.add(a.r32(), st[r.below(st.size())]);
    else if (c < 60 && !xs.empty()) { x86::Vec x = xs[r.below(xs.size())]; cc.paddd(x, xs[r.below(xs.size())]); }
    else if (c < 64 && !xs.empty()) cc.movd(a.r32(), xs[r.below(xs.size())]);
    else if (c < 70) { x86::Gp t = cc.new_gp32("t"); cc.mov(t, a.r32()); cc.shl(t, 1); cc.add(b.r32(), t); }
    else if (c < 78 && bound < nl) { cc.bind(labs[bound++]); }
    else if (c < 86) {
      // forward conditional jump to a not yet bound label, or a counted backward jump to a bound one
      if (bound < nl && r.chance(2, 3)) { cc.test(a.r32(), a.r32()); cc.jz(labs[bound + r.below(nl - bound)]); }
      else if (bound > 0) { cc.sub(cnt, 1); cc.jnz(labs[r.below(bound)]); }
    }
    else if (c < 90) { x86::Gp sh = cc.new_gp32("sh"); cc.mov(sh, 3); cc.shl(a.r32(), sh.r8()); }      // fixed register (cl)
    else if (c < 93 && ncalls < 2) {
      // a call with more arguments than argument registers: the frame gets a call area (local_stack_offset != 0)
      ncalls++;
      FuncSignature cs(CallConvId::kCDecl);
      cs.set_ret_t<uint32_t>();
      unsigned na = 2 + unsigned(r.below(8));
      for (unsigned k = 0; k < na; k++) cs.add_arg_t<uint32_t>();
      InvokeNode* inv;
      if (cc.invoke(Out(inv), imm(uint64_t(0x1000)), cs) == Error::kOk) {
        for (unsigned k = 0; k < na; k++) inv->set_arg(k, v[r.below(nv)].r32());
        inv->set_ret(0, b.r32());
      }
    }
    else cc.mov(a.r32(), int(i));
  }
  while (bound < nl) cc.bind(labs[bound++]);
  x86::Gp acc = cc.new_gp32("acc");
  cc.xor_(acc, acc);
  for (unsigned i = 0; i < nv; i++) cc.add(acc, v[i].r32());
  for (auto& x : xs) { x86::Gp t = cc.new_gp32("xt"); cc.movd(t, x); cc.add(acc, t); }
  cc.ret(acc);
  cc.end_func();
  g_snap.clear();
  Error e = cc.finalize();
  vj::W w;
  w.beginObj().kv("k", "vivo").kv("arch", is32 ? "x86" : "x64").kv("fn", fn).kv("r", err_name(e)).kv("nargs", nargs);
  if (!g_snap.empty()) { w.sep(); w.s += "\"snap\":" + g_snap; w.first = false; }
  w.endObj().emit(out);
}

static void vivo_a64(FILE* out, vj::Rng& r, unsigned fn) {
  CodeHolder code;
  code.init(Environment(Arch::kAArch64));
  a64::Compiler cc(&code);
  install_pass<VivoA64Pass>(cc);
  unsigned nargs = unsigned(r.below(11));
  FuncSignature sig(CallConvId::kCDecl);
  sig.set_ret_t<uint32_t>();
  for (unsigned i = 0; i < nargs; i++) sig.add_arg_t<uint32_t>();
  FuncNode* f = cc.add_func(sig);
  if (r.chance(1, 4)) f->frame().set_preserved_fp();
  unsigned nv = 3 + unsigned(r.below(40));
  std::vector<a64::Gp> v;
  for (unsigned i = 0; i < nv; i++) v.push_back(cc.new_gp32("v%u", i));
  for (unsigned i = 0; i < nargs && i < nv; i++) f->set_arg(i, v[i]);
  for (unsigned i = nargs; i < nv; i++) cc.mov(v[i], int(i + 1));
  std::vector<a64::Mem> st;
  unsigned ns = unsigned(r.below(3));
  static const uint32_t ssz[] = {4, 8, 16, 32, 64, 100};
  static const uint32_t sal[] = {0, 4, 8, 16, 32, 64};
  for (unsigned i = 0; i < ns; i++) { st.push_back(cc.new_stack(ssz[r.below(6)], sal[r.below(6)], "stk")); cc.str(v[r.below(nv)], st.back()); }
  unsigned nl = 1 + unsigned(r.below(3));
  std::vector<Label> labs;
  for (unsigned i = 0; i < nl; i++) labs.push_back(cc.new_label());
  unsigned bound = 0;
  unsigned steps = 6 + unsigned(r.below(30));
  a64::Gp cnt = cc.new_gp32("cnt");
  cc.mov(cnt, 3);
  for (unsigned i = 0; i < steps; i++) {
    unsigned c = unsigned(r.below(100));
    a64::Gp a = v[r.below(nv)], b = v[r.below(nv)], d = v[r.below(nv)];
    if (c < 35) cc.add(a, b, d);
    else if (c < 50) cc.eor(a, b, d);
    else if (c < 60) cc.mul(a, b, d);
    else if (c < 66 && !st.empty()) cc.ldr(a, st[r.below(st.size())]);
    else if (c < 76 && bound < nl) cc.bind(labs[bound++]);
    else if (c < 88) {
      if (bound < nl && r.chance(2, 3)) cc.cbz(a, labs[bound + r.below(nl - bound)]);
      else if (bound > 0) { cc.sub(cnt, cnt, 1); cc.cbnz(cnt, labs[r.below(bound)]); }
    }
    else cc.mov(a, int(i));
  }
  while (bound < nl) cc.bind(labs[bound++]);
  a64::Gp acc = cc.new_gp32("acc");
  cc.mov(acc, 0);
  for (unsigned i = 0; i < nv; i++) cc.add(acc, acc, v[i]);
  cc.ret(acc);
  cc.end_func();
  g_snap.clear();
  Error e = cc.finalize();
  vj::W w;
  w.beginObj().kv("k", "vivo").kv("arch", "aarch64").kv("fn", fn).kv("r", err_name(e)).kv("nargs", nargs);
  if (!g_snap.empty()) { w.sep(); w.s += "\"snap\":" + g_snap; w.first = false; }
  w.endObj().emit(out);
}

static void vivo(FILE* out, vj::Rng& r, unsigned n) {
  for (unsigned i = 0; i < n; i++) {
    unsigned k = i % 5;
    if (k < 2) vivo_x86(out, r, i, false);
    else if (k < 4) vivo_x86(out, r, i, true);
    else vivo_a64(out, r, i);
  }
}
