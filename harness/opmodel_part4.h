// X04 harness, part 4: pointwise observations of support.h helpers, and the command-line driver.

template<typename F> static bool with_uint(unsigned bits, F&& f) {
  switch (bits) { case 8: f(uint8_t{}); return true; case 16: f(uint16_t{}); return true; case 32: f(uint32_t{}); return true; case 64: f(uint64_t{}); return true; default: return false; }
}
template<typename F> static bool with_int(unsigned bits, bool sg, F&& f) {
  if (!sg) return with_uint(bits, f);
  switch (bits) { case 8: f(int8_t{}); return true; case 16: f(int16_t{}); return true; case 32: f(int32_t{}); return true; case 64: f(int64_t{}); return true; default: return false; }
}
template<typename T> static void res_v(W& w, T v) { wbytes(w, "rv", uint64_t(std::make_unsigned_t<T>(v)), sizeof(T)); }

template<size_t N, typename T> static void fit_row(W& w, T x) { w.kv("ri", Support::is_int_n<N>(x)).kv("ru", Support::is_uint_n<N>(x)); }
template<typename T> static bool fits(W& w, unsigned N, T x) {
  switch (N) {
#define C(n) case n: fit_row<n>(w, x); return true;
    C(1) C(4) C(7) C(8) C(9) C(10) C(12) C(15) C(16) C(17) C(21) C(24) C(26) C(31) C(32) C(33) C(48) C(63) C(64)
#undef C
    default: return false;
  }
}
static const unsigned kFitN[] = { 1, 4, 7, 8, 9, 10, 12, 15, 16, 17, 21, 24, 26, 31, 32, 33, 48, 63, 64 };

static bool row_sup(const Value& in, W& w) {
  const std::string& f = in["f"].s();
  unsigned bits = in.has("w") ? unsigned(in["w"].i()) : 32;
  bool sg = in.has("sg") && in["sg"].b;
  uint64_t a = in.has("a") ? rbytes(in["a"]) : 0, b = in.has("b") ? rbytes(in["b"]) : 0, c = in.has("c") ? rbytes(in["c"]) : 0;
  uint32_t n = in.has("n") ? uint32_t(in["n"].i()) : 0;
  bool ok = true;
  // ---- unary bit utilities on unsigned words
  if (f == "clz") ok = with_uint(bits, [&](auto t) { using T = decltype(t); w.kv("rn", Support::clz(T(a))).kv("rn2", Support::clz_t(T(a))); });
  else if (f == "ctz") ok = with_uint(bits, [&](auto t) { using T = decltype(t); w.kv("rn", Support::ctz(T(a))).kv("rn2", Support::ctz_t(T(a))); });
  else if (f == "popcnt") ok = with_uint(bits, [&](auto t) { using T = decltype(t); w.kv("rn", Support::popcnt(T(a))).kv("rn2", Support::popcnt_t(T(a))); });
  else if (f == "blsi") ok = with_uint(bits, [&](auto t) { using T = decltype(t); res_v(w, Support::blsi(T(a))); });
  else if (f == "fill_trailing_bits") ok = with_uint(bits, [&](auto t) { using T = decltype(t); res_v(w, Support::fill_trailing_bits(T(a))); });
  else if (f == "is_power_of_2") ok = with_uint(bits, [&](auto t) { using T = decltype(t); w.kv("rb", Support::is_power_of_2(T(a))); });
  else if (f == "is_zero_or_power_of_2") ok = with_uint(bits, [&](auto t) { using T = decltype(t); w.kv("rb", Support::is_zero_or_power_of_2(T(a))); });
  else if (f == "is_power_of_2_up_to") ok = with_uint(bits, [&](auto t) { using T = decltype(t); w.kv("rb", Support::is_power_of_2_up_to(T(a), n)); });
  else if (f == "is_zero_or_power_of_2_up_to") ok = with_uint(bits, [&](auto t) { using T = decltype(t); w.kv("rb", Support::is_zero_or_power_of_2_up_to(T(a), n)); });
  else if (f == "has_at_least_2_bits_set") ok = with_uint(bits, [&](auto t) { using T = decltype(t); w.kv("rb", Support::has_at_least_2_bits_set(T(a))); });
  else if (f == "byteswap") ok = with_uint(bits, [&](auto t) { using T = decltype(t); res_v(w, Support::byteswap(T(a)));
            if (sizeof(T) == 2) w.kv("same", Support::byteswap16(uint16_t(a)) == uint16_t(Support::byteswap(uint16_t(a))));
            if (sizeof(T) == 4) w.kv("same", Support::byteswap32(uint32_t(a)) == uint32_t(Support::byteswap(uint32_t(a))));
            if (sizeof(T) == 8) w.kv("same", Support::byteswap64(uint64_t(a)) == uint64_t(Support::byteswap(uint64_t(a)))); });
  else if (f == "neg") ok = with_int(bits, sg, [&](auto t) { using T = decltype(t); res_v(w, Support::neg(T(a))); });
  else if (f == "align_up_power_of_2") ok = with_uint(bits, [&](auto t) { using T = decltype(t); res_v(w, Support::align_up_power_of_2(T(a))); });
  // ---- shifts (0 <= n < width; ror 1 <= n < width)
  else if (f == "shl") ok = with_int(bits, sg, [&](auto t) { using T = decltype(t); res_v(w, Support::shl(T(a), n)); });
  else if (f == "shr") ok = with_int(bits, sg, [&](auto t) { using T = decltype(t); res_v(w, Support::shr(T(a), n)); });
  else if (f == "sar") ok = with_int(bits, sg, [&](auto t) { using T = decltype(t); res_v(w, Support::sar(T(a), n)); });
  else if (f == "ror") ok = with_uint(bits, [&](auto t) { using T = decltype(t); res_v(w, Support::ror(T(a), n)); });
  else if (f == "bit_test") ok = with_uint(bits, [&](auto t) { using T = decltype(t); w.kv("rb", Support::bit_test(T(a), n)); });
  // ---- masks
  else if (f == "lsb_mask") ok = with_uint(bits, [&](auto t) { using T = decltype(t); res_v(w, Support::lsb_mask<T>(n)); w.kv("same", Support::lsb_mask_const<T>(n) == Support::lsb_mask<T>(n)); });
  else if (f == "msb_mask") ok = with_uint(bits, [&](auto t) { using T = decltype(t); res_v(w, Support::msb_mask<T>(n)); });
  else if (f == "bit_mask") ok = with_uint(bits, [&](auto t) { using T = decltype(t); volatile uint32_t idx = n; res_v(w, Support::bit_mask<T>(uint32_t(idx))); });
  else if (f == "bit_mask3") { volatile uint32_t i0 = n, i1 = uint32_t(in["n1"].i()), i2 = uint32_t(in["n2"].i()); res_v(w, Support::bit_mask<uint32_t>(uint32_t(i0), uint32_t(i1), uint32_t(i2))); }
  else if (f == "bool_as_mask") ok = with_uint(bits, [&](auto t) { using T = decltype(t); res_v(w, Support::bool_as_mask<T>(n != 0)); });
  // ---- range predicates
  else if (f == "fits") ok = with_int(bits, sg, [&](auto t) { using T = decltype(t); ok = fits(w, n, T(a)); });
  else if (f == "is_between") ok = with_int(bits, sg, [&](auto t) { using T = decltype(t); w.kv("rb", Support::is_between(T(a), T(b), T(c))); });
  else if (f == "minmax") ok = with_int(bits, sg, [&](auto t) { using T = decltype(t); res_v(w, Support::min(T(a), T(b), T(c))); wbytes(w, "rv2", uint64_t(std::make_unsigned_t<T>(Support::max(T(a), T(b), T(c)))), sizeof(T));
                                   wbytes(w, "rv3", uint64_t(std::make_unsigned_t<T>(Support::min(T(a), T(b)))), sizeof(T)); wbytes(w, "rv4", uint64_t(std::make_unsigned_t<T>(Support::max(T(a), T(b)))), sizeof(T)); });
  // ---- alignment (alignment a power of two)
  else if (f == "align") ok = with_uint(bits, [&](auto t) { using T = decltype(t); T al = T(T(1) << n);
            w.kv("rb", Support::is_aligned(T(a), al)); res_v(w, Support::align_up(T(a), al)); wbytes(w, "rv2", uint64_t(Support::align_down(T(a), al)), sizeof(T));
            wbytes(w, "rv3", uint64_t(Support::align_up_diff(T(a), al)), sizeof(T)); });
  // ---- overflow arithmetic
  else if (f == "add_overflow" || f == "sub_overflow" || f == "mul_overflow" || f == "madd_overflow") ok = with_int(bits, sg, [&](auto t) {
    using T = decltype(t); Support::FastUInt8 of = Support::FastUInt8(in["of0"].i()); T r;
    if (f == "add_overflow") r = Support::add_overflow(T(a), T(b), &of); else if (f == "sub_overflow") r = Support::sub_overflow(T(a), T(b), &of);
    else if (f == "mul_overflow") r = Support::mul_overflow(T(a), T(b), &of); else r = Support::madd_overflow(T(a), T(b), T(c), &of);
    res_v(w, r); w.kv("of", of != 0); });
  // ---- memory access: 24-byte buffer, access at byte offset n
  else if (f == "load" || f == "store") {
    alignas(8) uint8_t buf[24];
    for (size_t i = 0; i < 24; i++) buf[i] = uint8_t(in["mem"][i].i());
    const std::string& bo = in["bo"].s(); bool al = in["al"].b; bool isg = sg;
    void* p = buf + n; uint64_t r = 0;
    if (f == "load") {
      switch (bits) {
        case 8: r = isg ? uint64_t(uint8_t(Support::load_i8(p))) : Support::load_u8(p); break;
        case 16: if (bo == "le") r = isg ? uint16_t(al ? Support::loada_i16_le(p) : Support::loadu_i16_le(p)) : (al ? Support::loada_u16_le(p) : Support::loadu_u16_le(p));
                 else if (bo == "be") r = isg ? uint16_t(al ? Support::loada_i16_be(p) : Support::loadu_i16_be(p)) : (al ? Support::loada_u16_be(p) : Support::loadu_u16_be(p));
                 else r = isg ? uint16_t(al ? Support::loada_i16(p) : Support::loadu_i16(p)) : (al ? Support::loada_u16(p) : Support::loadu_u16(p)); break;
        case 32: if (bo == "le") r = isg ? uint32_t(al ? Support::loada_i32_le(p) : Support::loadu_i32_le(p)) : (al ? Support::loada_u32_le(p) : Support::loadu_u32_le(p));
                 else if (bo == "be") r = isg ? uint32_t(al ? Support::loada_i32_be(p) : Support::loadu_i32_be(p)) : (al ? Support::loada_u32_be(p) : Support::loadu_u32_be(p));
                 else r = isg ? uint32_t(al ? Support::loada_i32(p) : Support::loadu_i32(p)) : (al ? Support::loada_u32(p) : Support::loadu_u32(p)); break;
        case 64: if (bo == "le") r = isg ? uint64_t(al ? Support::loada_i64_le(p) : Support::loadu_i64_le(p)) : (al ? Support::loada_u64_le(p) : Support::loadu_u64_le(p));
                 else if (bo == "be") r = isg ? uint64_t(al ? Support::loada_i64_be(p) : Support::loadu_i64_be(p)) : (al ? Support::loada_u64_be(p) : Support::loadu_u64_be(p));
                 else r = isg ? uint64_t(al ? Support::loada_i64(p) : Support::loadu_i64(p)) : (al ? Support::loada_u64(p) : Support::loadu_u64(p)); break;
        default: ok = false;
      }
      wbytes(w, "rv", r, bits / 8);
    }
    else {
      switch (bits) {
        case 8: if (isg) Support::store_i8(p, int8_t(a)); else Support::store_u8(p, uint8_t(a)); break;
        case 16: if (bo == "le") { if (isg) { al ? Support::storea_i16_le(p, int16_t(a)) : Support::storeu_i16_le(p, int16_t(a)); } else { al ? Support::storea_u16_le(p, uint16_t(a)) : Support::storeu_u16_le(p, uint16_t(a)); } }
                 else if (bo == "be") { if (isg) { al ? Support::storea_i16_be(p, int16_t(a)) : Support::storeu_i16_be(p, int16_t(a)); } else { al ? Support::storea_u16_be(p, uint16_t(a)) : Support::storeu_u16_be(p, uint16_t(a)); } }
                 else { if (isg) { al ? Support::storea_i16(p, int16_t(a)) : Support::storeu_i16(p, int16_t(a)); } else { al ? Support::storea_u16(p, uint16_t(a)) : Support::storeu_u16(p, uint16_t(a)); } } break;
        case 32: if (bo == "le") { if (isg) { al ? Support::storea_i32_le(p, int32_t(a)) : Support::storeu_i32_le(p, int32_t(a)); } else { al ? Support::storea_u32_le(p, uint32_t(a)) : Support::storeu_u32_le(p, uint32_t(a)); } }
                 else if (bo == "be") { if (isg) { al ? Support::storea_i32_be(p, int32_t(a)) : Support::storeu_i32_be(p, int32_t(a)); } else { al ? Support::storea_u32_be(p, uint32_t(a)) : Support::storeu_u32_be(p, uint32_t(a)); } }
                 else { if (isg) { al ? Support::storea_i32(p, int32_t(a)) : Support::storeu_i32(p, int32_t(a)); } else { al ? Support::storea_u32(p, uint32_t(a)) : Support::storeu_u32(p, uint32_t(a)); } } break;
        case 64: if (bo == "le") { if (isg) { al ? Support::storea_i64_le(p, int64_t(a)) : Support::storeu_i64_le(p, int64_t(a)); } else { al ? Support::storea_u64_le(p, uint64_t(a)) : Support::storeu_u64_le(p, uint64_t(a)); } }
                 else if (bo == "be") { if (isg) { al ? Support::storea_i64_be(p, int64_t(a)) : Support::storeu_i64_be(p, int64_t(a)); } else { al ? Support::storea_u64_be(p, uint64_t(a)) : Support::storeu_u64_be(p, uint64_t(a)); } }
                 else { if (isg) { al ? Support::storea_i64(p, int64_t(a)) : Support::storeu_i64(p, int64_t(a)); } else { al ? Support::storea_u64(p, uint64_t(a)) : Support::storeu_u64(p, uint64_t(a)); } } break;
        default: ok = false;
      }
      w.bytes("after", buf, 24);
    }
  }
  else if (f == "bit_cast") {   // double <-> uint64, float <-> uint32 round trips
    if (bits == 64) { double d = Support::bit_cast<double>(uint64_t(a)); uint64_t back = Support::bit_cast<uint64_t>(d); uint64_t ref; memcpy(&ref, &d, 8); wbytes(w, "rv", back, 8); wbytes(w, "rv2", ref, 8); wbytes(w, "rv3", uint64_t(Support::bit_cast<int64_t>(uint64_t(a))), 8); }
    else { float d = Support::bit_cast<float>(uint32_t(a)); uint32_t back = Support::bit_cast<uint32_t>(d); uint32_t ref; memcpy(&ref, &d, 4); wbytes(w, "rv", back, 4); wbytes(w, "rv2", ref, 4); wbytes(w, "rv3", uint64_t(uint32_t(Support::bit_cast<int32_t>(uint32_t(a)))), 4); }
  }
  // ---- packing helpers
  else if (f == "unpack") { wbytes(w, "rv", Support::unpack_u32_at_0(uint64_t(a)), 4); wbytes(w, "rv2", Support::unpack_u32_at_1(uint64_t(a)), 4); wbytes(w, "rv3", Support::unpack_u32_at_0(int64_t(a)), 4); }
  else if (f == "bytepack") { uint32_t v = Support::bytepack32_4x8(uint32_t(in["p"][0].i()), uint32_t(in["p"][1].i()), uint32_t(in["p"][2].i()), uint32_t(in["p"][3].i())); uint8_t m[4]; memcpy(m, &v, 4); w.bytes("mem", m, 4); }
  // ---- characters and strings
  else if (f == "ascii") { w.kv("lo", (unsigned)Support::ascii_to_lower<uint8_t>(uint8_t(n))).kv("up", (unsigned)Support::ascii_to_upper<uint8_t>(uint8_t(n)))
                            .kv("lo32", Support::ascii_to_lower<uint32_t>(n)).kv("up32", Support::ascii_to_upper<uint32_t>(n)).kv("loc", (unsigned)(uint8_t)Support::ascii_to_lower<char>(char(n))); }
  else if (f == "strings") {
    std::string sa, sb; for (size_t i = 0; i < in["sa"].size(); i++) sa += char(in["sa"][i].i()); for (size_t i = 0; i < in["sb"].size(); i++) sb += char(in["sb"][i].i());
    wbytes(w, "hash", Support::hash_string(sa.data(), sa.size()), 4);
    int cmp = Support::compare_string_views(sa.data(), sa.size(), sb.data(), sb.size());
    w.kv("cmp", cmp < 0 ? -1 : cmp > 0 ? 1 : 0).kv("nlen", (unsigned)Support::str_nlen(sa.c_str(), n));
  }
  else if (f == "packed") {      // find_packed_string over "s0\0s1\0s2\0..."
    std::string p; for (size_t i = 0; i < in["p"].size(); i++) p += char(in["p"][i].i());
    p += '\0';
    w.kv("rn", (unsigned)(Support::find_packed_string(p.data(), n) - p.data()));
  }
  // ---- Support::Array<uint32_t, 4>
  else if (f == "array") {
    Support::Array<uint32_t, 4> x, y;
    for (size_t i = 0; i < 4; i++) { x[i] = r32(in["x"][i]); y[i] = r32(in["y"][i]); }
    const std::string& op = in["op"].s();
    bool eq = x == y, ne = x != y;
    Support::Array<uint32_t, 4> r = x; uint32_t agg = 0;
    if (op == "or") { r.combine<Support::Or>(y); agg = x.aggregate<Support::Or>(n); } else if (op == "and") { r.combine<Support::And>(y); agg = x.aggregate<Support::And>(n); }
    else if (op == "xor") { r.combine<Support::Xor>(y); agg = x.aggregate<Support::Xor>(n); } else if (op == "add") { r.combine<Support::Add>(y); agg = x.aggregate<Support::Add>(n); }
    else if (op == "sub") { r.combine<Support::Sub>(y); agg = x.aggregate<Support::Sub>(n); } else if (op == "andnot") { r.combine<Support::AndNot>(y); agg = x.aggregate<Support::AndNot>(n); }
    else if (op == "min") { r.combine<Support::Min>(y); agg = x.aggregate<Support::Min>(n); } else if (op == "max") { r.combine<Support::Max>(y); agg = x.aggregate<Support::Max>(n); }
    else if (op == "fill") { r.fill(n); agg = n; } else if (op == "copy") { r.copy_from(y); agg = r.back(); } else if (op == "swap") { Support::Array<uint32_t, 4> z = y; r.swap(z); agg = z.front(); }
    else ok = false;
    w.key("r").beginArr(); for (size_t i = 0; i < 4; i++) { w.beginArr().val((long long)(r[i] & 0xFFFF)).val((long long)(r[i] >> 16)).endArr(); } w.endArr();
    w32(w, "agg", agg); w.kv("eq", eq).kv("ne", ne).kv("size", (unsigned)r.size()).kv("empty", r.is_empty()).kv("span", r.as_span().size() == 4 && r.as_span().data() == r.data() && r.end() - r.begin() == 4);
  }
  // ---- sorting
  else if (f == "sort") {
    std::vector<int> v; for (size_t i = 0; i < in["x"].size(); i++) v.push_back(int(in["x"][i].i()));
    const std::string& alg = in["alg"].s(); bool desc = in["desc"].b;
    if (alg == "qsort") { if (desc) Support::sort(v.data(), v.size(), Support::Compare<Support::SortOrder::kDescending>()); else Support::sort(v.data(), v.size()); }
    else { if (desc) Support::insertion_sort(v.data(), v.size(), Support::Compare<Support::SortOrder::kDescending>()); else Support::insertion_sort(v.data(), v.size()); }
    w.key("r").beginArr(); for (int x : v) w.val((long long)x); w.endArr();
  }
  // ---- BitWordIterator over other word sizes than C18 drives
  else if (f == "bwiter") ok = with_uint(bits, [&](auto t) { using T = decltype(t); Support::BitWordIterator<T> it{T(a)}; w.key("r").beginArr(); int guard = 0; while (it.has_next() && guard++ < 70) w.val((long long)it.next()); w.endArr(); });
  else ok = false;
  return ok;
}

// random inputs for row_sup
static uint64_t rnd_word(vj::Rng& r, unsigned bits) {
  uint64_t m = bits == 64 ? ~uint64_t(0) : ((uint64_t(1) << bits) - 1), v;
  switch (r.below(6)) {
    case 0: v = r.next(); break;
    case 1: v = uint64_t(1) << r.below(bits); break;                                     // single bit
    case 2: v = (uint64_t(1) << r.below(bits)) | (uint64_t(1) << r.below(bits)); break;   // one or two bits
    case 3: v = (uint64_t[]){ 0, 1, m, m - 1, m >> 1, (m >> 1) + 1, 2, 3 }[r.below(8)]; break;
    case 4: v = r.next() & r.next() & r.next(); break;                                   // sparse
    default: v = (m >> r.below(bits)) << r.below(bits); break;                           // run of ones
  }
  return v & m;
}
static std::string gen_sup(vj::Rng& r) {
  static const unsigned W4[] = { 8, 16, 32, 64 };
  unsigned bits = W4[r.below(4)];
  auto ev = [&](const char* f) { W w; w.beginObj(); w.kv("k", "sup").kv("f", f).kv("w", bits); return w; };
  auto fin = [](W& w) { w.endObj(); return w.s; };
  unsigned k = unsigned(r.below(44));
  switch (k) {
    case 0: case 1: { uint64_t v = rnd_word(r, bits); if (!v) v = 1; W w = ev(k ? "ctz" : "clz"); wbytes(w, "a", v, bits / 8); return fin(w); }
    case 2: case 3: case 4: case 5: case 6: case 7: case 8: case 9: {
      static const char* fs[] = { "popcnt", "blsi", "fill_trailing_bits", "is_power_of_2", "is_zero_or_power_of_2", "has_at_least_2_bits_set", "byteswap", "align_up_power_of_2" };
      W w = ev(fs[k - 2]); wbytes(w, "a", rnd_word(r, bits), bits / 8); return fin(w); }
    case 10: case 11: { W w = ev(k == 10 ? "is_power_of_2_up_to" : "is_zero_or_power_of_2_up_to"); wbytes(w, "a", r.chance(1, 2) ? (r.below(70) & ((bits == 8) ? 0xFF : 0xFFFF)) : rnd_word(r, bits), bits / 8); w.kv("n", (uint32_t[]){ 1, 2, 8, 16, 64, 100 }[r.below(6)]); return fin(w); }
    case 12: { W w = ev("neg"); w.kv("sg", r.chance(1, 2)); wbytes(w, "a", rnd_word(r, bits), bits / 8); return fin(w); }
    case 13: case 14: case 15: { static const char* fs[] = { "shl", "shr", "sar" }; W w = ev(fs[k - 13]); w.kv("sg", r.chance(1, 2)); wbytes(w, "a", rnd_word(r, bits), bits / 8); w.kv("n", r.below(bits)); return fin(w); }
    case 16: { W w = ev("ror"); wbytes(w, "a", rnd_word(r, bits), bits / 8); w.kv("n", 1 + r.below(bits - 1)); return fin(w); }
    case 17: { W w = ev("bit_test"); wbytes(w, "a", rnd_word(r, bits), bits / 8); w.kv("n", r.below(bits)); return fin(w); }
    case 18: { W w = ev("lsb_mask"); w.kv("n", r.below(bits + 1)); return fin(w); }
    case 19: { W w = ev("msb_mask"); w.kv("n", bits == 64 ? r.below(65) : 1 + r.below(bits)); return fin(w); }
    case 20: { bits = r.chance(1, 2) ? 32 : 64; W w = ev("bit_mask"); w.kv("n", r.below(bits)); return fin(w); }
    case 21: { bits = 32; W w = ev("bit_mask3"); w.kv("n", r.below(32)).kv("n1", r.below(32)).kv("n2", r.below(32)); return fin(w); }
    case 22: { W w = ev("bool_as_mask"); w.kv("n", r.below(2)); return fin(w); }
    case 23: case 24: case 25: case 26: { W w = ev("fits"); w.kv("sg", r.chance(1, 2)); uint64_t v = rnd_v64(r); if (r.chance(1, 2)) { unsigned nb = kFitN[r.below(19)]; v = (nb >= 64 ? 0 : (uint64_t(1) << (nb - (r.below(2) && nb > 1 ? 1 : 0)))) + r.below(3) - 1; if (r.chance(1, 2)) v = uint64_t(-int64_t(v)); }
      wbytes(w, "a", v, bits / 8); w.kv("n", kFitN[r.below(19)]); return fin(w); }
    case 27: { W w = ev("is_between"); w.kv("sg", r.chance(1, 2)); wbytes(w, "a", rnd_word(r, bits), bits / 8); wbytes(w, "b", rnd_word(r, bits), bits / 8); wbytes(w, "c", rnd_word(r, bits), bits / 8); return fin(w); }
    case 28: { W w = ev("minmax"); w.kv("sg", r.chance(1, 2)); wbytes(w, "a", rnd_word(r, bits), bits / 8); wbytes(w, "b", rnd_word(r, bits), bits / 8); wbytes(w, "c", rnd_word(r, bits), bits / 8); return fin(w); }
    case 29: case 30: { W w = ev("align"); uint64_t v = rnd_word(r, bits); wbytes(w, "a", v, bits / 8); w.kv("n", r.below(bits < 16 ? bits : 16)); return fin(w); }
    case 31: case 32: case 33: case 34: case 35: { static const char* fs[] = { "add_overflow", "sub_overflow", "mul_overflow", "madd_overflow", "mul_overflow" }; W w = ev(fs[k - 31]); w.kv("sg", r.chance(1, 2));
      auto ar = [&]() { uint64_t v = rnd_word(r, bits); uint64_t mx = bits == 64 ? ~uint64_t(0) : ((uint64_t(1) << bits) - 1); if (r.chance(1, 4)) return (uint64_t[]){ 0, 0, 1, 2, mx, mx - 1, mx >> 1, (mx >> 1) + 1, (mx >> 1) + 2 }[r.below(9)]; if (r.chance(1, 3)) v = r.below(300); if (r.chance(1, 6)) v = uint64_t(-int64_t(r.below(300))); if (r.chance(1, 6)) { unsigned h = bits / 2; v = (uint64_t(1) << h) + r.below(5) - 2; } return v; };
      wbytes(w, "a", ar(), bits / 8); wbytes(w, "b", ar(), bits / 8); wbytes(w, "c", ar(), bits / 8); w.kv("of0", r.chance(1, 5) ? 1 : 0); return fin(w); }
    case 36: case 37: { W w = ev(k == 36 ? "load" : "store"); w.kv("sg", r.chance(1, 2)); bool al = r.chance(1, 2); w.kv("bo", (const char*[]){ "le", "be", "native" }[r.below(3)]).kv("al", al);
      w.kv("n", al ? uint32_t(r.below(2) * 8) : uint32_t(r.below(16))); uint8_t mem[24]; for (auto& x : mem) x = uint8_t(r.next()); w.bytes("mem", mem, 24); wbytes(w, "a", rnd_word(r, bits), bits / 8); return fin(w); }
    case 38: { bits = r.chance(1, 2) ? 32 : 64; W w = ev("bit_cast"); wbytes(w, "a", rnd_word(r, bits), bits / 8); return fin(w); }
    case 39: { bits = 64; if (r.chance(1, 2)) { W w = ev("unpack"); wbytes(w, "a", rnd_word(r, 64), 8); return fin(w); }
      W w = ev("bytepack"); uint8_t p[4]; for (auto& x : p) x = uint8_t(r.next()); w.bytes("p", p, 4); return fin(w); }
    case 40: { bits = 8; if (r.chance(1, 2)) { W w = ev("ascii"); w.kv("n", r.below(256)); return fin(w); }
      W w = ev("strings"); uint8_t sa[12], sb[12]; size_t la = r.below(12), lb = r.below(12);
      for (size_t i = 0; i < 12; i++) { sa[i] = uint8_t(r.chance(1, 8) ? 0 : (r.chance(1, 2) ? 'a' + r.below(3) : r.next())); sb[i] = r.chance(2, 3) ? sa[i] : uint8_t(r.next()); }
      w.bytes("sa", sa, la); w.bytes("sb", sb, lb); w.kv("n", r.below(14)); return fin(w); }
    case 41: { bits = 8; if (r.chance(1, 3)) { W w = ev("packed"); uint8_t p[24]; size_t cnt = 0; for (auto& x : p) { x = uint8_t(r.chance(1, 4) ? 0 : 'a' + r.below(26)); cnt += x == 0; } p[23] = 0; w.bytes("p", p, 24); w.kv("n", r.below(cnt + 1)); return fin(w); }
      bits = 32; W w = ev("array"); static const char* ops[] = { "or", "and", "xor", "add", "sub", "andnot", "min", "max", "fill", "copy", "swap" }; w.kv("op", ops[r.below(11)]);
      bool same = r.chance(1, 4); uint32_t xs[4], ys[4]; for (int i = 0; i < 4; i++) { xs[i] = uint32_t(rnd_word(r, 32)); ys[i] = same ? xs[i] : uint32_t(rnd_word(r, 32)); }
      w.key("x").beginArr(); for (int i = 0; i < 4; i++) w.beginArr().val((long long)(xs[i] & 0xFFFF)).val((long long)(xs[i] >> 16)).endArr(); w.endArr();
      w.key("y").beginArr(); for (int i = 0; i < 4; i++) w.beginArr().val((long long)(ys[i] & 0xFFFF)).val((long long)(ys[i] >> 16)).endArr(); w.endArr();
      w.kv("n", uint32_t(r.below(1000))); return fin(w); }
    case 42: { bits = 32; W w = ev("sort"); size_t len = 1 + (r.chance(1, 2) ? r.below(9) : r.below(40)); w.key("x").beginArr(); for (size_t i = 0; i < len; i++) w.val((long long)(int64_t(r.below(r.chance(1, 2) ? 10 : 2000000)) - 1000000)); w.endArr();
      w.kv("alg", r.chance(1, 2) ? "qsort" : "isort").kv("desc", r.chance(1, 3)); return fin(w); }
    default: { W w = ev("bwiter"); wbytes(w, "a", rnd_word(r, bits), bits / 8); return fin(w); }
  }
}
static std::string gen_sigf(vj::Rng& r) {
  const SigField& f = kSigFields[r.below(sizeof(kSigFields) / sizeof(kSigFields[0]))];
  uint32_t width = Support::popcnt(f.mask);
  W w; w.beginObj(); w.kv("k", "sigf").kv("f", f.name);
  w32(w, "bits", r.chance(1, 5) ? 0u : r.chance(1, 5) ? 0xFFFFFFFFu : uint32_t(r.next()));
  w.kv("v", uint32_t(r.below(uint64_t(1) << width)));
  w32(w, "m", r.chance(1, 3) ? f.mask : uint32_t(r.next()));
  w.endObj(); return w.s;
}

static bool exec_row(const Value& in, std::string& out) {
  W w; w.first = false;
  const std::string& k = in["k"].s();
  bool ok = k == "sup" ? row_sup(in, w) : k == "sigf" ? row_sigf(in, w) : row_table(in, w);
  out = w.s;
  return ok;
}
// input part of a row = everything except the result fields (which all rows put behind "_":0)
static std::string input_of(const Value& v) {
  Value in; in.kind = Value::Obj;
  for (auto& kv : v.obj) { if (kv.first == "_") break; in.obj.push_back(kv); }
  std::string s; ser(in, s); return s;
}
static bool emit_row(FILE* out, const std::string& in_json) {
  Value in = vj::parse(in_json);
  std::string res;
  bool ok = exec_row(in, res);
  if (!ok) { fprintf(stderr, "cannot execute row %s\n", in_json.c_str()); return false; }
  fprintf(out, "%s,\"_\":0%s}\n", in_json.substr(0, in_json.size() - 1).c_str(), res.c_str());
  return true;
}

// ---------------------------------------------------------------------------------------------------------
// executions
// ---------------------------------------------------------------------------------------------------------
static void emit_reset(FILE* out, Machine* m) {
  m->reset();
  W w; w.beginObj(); w.kv("e", "Reset").kv("m", m->name()); w.key("o").beginObj(); m->view(w); w.endObj(); w.endObj(); w.emit(out);
}
static bool emit_call(FILE* out, Machine* m, const std::string& ev_json) {
  Value ev = vj::parse(ev_json);
  std::string extra;
  if (!m->exec(ev, extra)) { fprintf(stderr, "machine %s cannot execute %s\n", m->name(), ev_json.c_str()); return false; }
  W w; w.first = false; w.key("o").beginObj(); m->view(w); w.endObj();
  fprintf(out, "%s%s%s}\n", ev_json.substr(0, ev_json.size() - 1).c_str(), extra.c_str(), w.s.c_str());
  return true;
}
static std::string strip_obs(const Value& v) {
  Value in; in.kind = Value::Obj;
  for (auto& kv : v.obj) if (kv.first != "o") in.obj.push_back(kv);
  std::string s; ser(in, s); return s;
}

int main(int argc, char** argv) {
  if (argc < 3) { fprintf(stderr, "usage: opmodel record|script|replay|tables|observe ...\n"); return 2; }
  std::string cmd = argv[1];
  vj::Rng rng(vj::env_seed());
  if (cmd == "record" && argc >= 5) {
    FILE* out = fopen(argv[2], "w"); if (!out) return 3;
    vj::install_abort_handlers(out);
    long nexec = atol(argv[3]), steps = atol(argv[4]);
    const char* only = argc >= 6 ? argv[5] : nullptr;
    for (long x = 0; x < nexec; x++) {
      std::unique_ptr<Machine> m(new_machine(only ? only : kMachines[x % 10]));
      if (!m) return 3;
      emit_reset(out, m.get());
      for (long i = 0; i < steps; i++) if (!emit_call(out, m.get(), m->gen(rng))) return 4;
    }
    // deterministic sweep: Environment over every architecture x platform
    if (!only) {
      EnvM em; emit_reset(out, &em);
      for (int a = 0; a <= 16; a++) for (int p = 0; p <= 14; p++)
        if (!emit_call(out, &em, EvB("init").n("arch", a).n("plat", p).n("abi", (a + p) % 7).n("fmt", p % 7).n("fabi", a & 1).n("via", p & 1).done())) return 4;
    }
    fclose(out);
    return 0;
  }
  if (cmd == "script" && argc >= 4) {
    std::vector<Value> ins = vj::read_ndjson(argv[2]);
    FILE* out = fopen(argv[3], "w"); if (!out) return 3;
    vj::install_abort_handlers(out);
    for (const Value& s : ins) {
      std::unique_ptr<Machine> m(new_machine(s["m"].s()));
      if (!m) return 3;
      emit_reset(out, m.get());
      for (const Value& ev : s["ops"].arr) { std::string j; ser(ev, j); if (!emit_call(out, m.get(), j)) return 4; }
    }
    fclose(out);
    return 0;
  }
  if (cmd == "replay" && argc >= 4) {
    std::vector<Value> ins = vj::read_ndjson(argv[2]);
    FILE* out = fopen(argv[3], "w"); if (!out) return 3;
    vj::install_abort_handlers(out);
    std::unique_ptr<Machine> m;
    for (const Value& v : ins) {
      if (v.has("k")) { if (!emit_row(out, input_of(v))) return 4; continue; }
      if (v["e"].s() == "Reset") { m.reset(new_machine(v["m"].s())); if (!m) return 3; emit_reset(out, m.get()); continue; }
      if (v["e"].s() == "ABORT") continue;
      if (!m) return 3;
      if (!emit_call(out, m.get(), strip_obs(v))) return 4;
    }
    fclose(out);
    return 0;
  }
  if (cmd == "tables") {
    FILE* out = fopen(argv[2], "w"); if (!out) return 3;
    vj::install_abort_handlers(out);
    auto row = [&](W& w) { w.endObj(); return emit_row(out, w.s); };
    bool ok = true;
    for (int rt = 0; rt < 32; rt++) { W w; w.beginObj(); w.kv("k", "regtrait").kv("rt", rt); ok &= row(w); }
    for (int sz : { 16, 32, 64 }) { W w; w.beginObj(); w.kv("k", "vecsize").kv("size", sz); ok &= row(w); }
    for (int t = 0; t < 256; t++) { W w; w.beginObj(); w.kv("k", "typeid").kv("t", t); ok &= row(w); }
    for (const CxxType& c : cxx_types()) { W w; w.beginObj(); w.kv("k", "cxxtype").kv("name", c.name); ok &= row(w); }
    for (int a = 0; a <= 16; a++) { W w; w.beginObj(); w.kv("k", "arch").kv("a", a); ok &= row(w); }
    for (int a = 0; a <= 16; a++) for (int t = 0; t < 256; t++) { W w; w.beginObj(); w.kv("k", "t2r").kv("a", a).kv("t", t); ok &= row(w); }
    for (uint32_t c = 0; c < 90; c++) { W w; w.beginObj(); w.kv("k", "err"); w32(w, "code", c); ok &= row(w); }
    for (uint32_t c : { 255u, 256u, 65535u, 65536u, 0x7FFFFFFFu, 0x80000000u, 0xFFFFFFFEu, 0xFFFFFFFFu }) { W w; w.beginObj(); w.kv("k", "err"); w32(w, "code", c); ok &= row(w); }
    for (const RegName& r : reg_names()) { W w; w.beginObj(); w.kv("k", "regname").kv("arch", r.arch).kv("fam", r.fam).kv("n", r.n).kv("name", r.name); ok &= row(w); }
    { W w; w.beginObj(); w.kv("k", "host"); ok &= row(w); }
    for (uint32_t x : { 0u, 1u, 254u, 255u, 256u, 257u, 1000u, 0x7FFFFFFFu, 0x80000000u, 0xFFFFFEFFu, 0xFFFFFFFEu, 0xFFFFFFFFu }) { W w; w.beginObj(); w.kv("k", "virtid"); w32(w, "x", x); ok &= row(w); }
    fclose(out);
    return ok ? 0 : 4;
  }
  if (cmd == "observe" && argc >= 4) {
    FILE* out = fopen(argv[2], "w"); if (!out) return 3;
    vj::install_abort_handlers(out);
    long n = atol(argv[3]);
    for (long i = 0; i < n; i++) if (!emit_row(out, (i % 5 == 4) ? gen_sigf(rng) : gen_sup(rng))) return 4;
    fclose(out);
    return 0;
  }
  fprintf(stderr, "bad command\n");
  return 2;
}
