// X07 harness, life-cycle part (included by uniops.cpp): drives sequences of UniCompiler API calls given as scripts,
// records a trace (projection of the UniCompiler state after every call + projection of the node list of every function)
// for spec/ujit/UniLifeTrace.tla, and executes every generated function; the values the functions compute are ordinary
// "vv" observations judged by UniOps.tla.
//
// script line: {"id":n, "lvl":"<level>", "steps":[ ... ]}   steps:
//   ["vw", w]                          init_vec_width(w)
//   ["func"]                           add_func(void(void*))
//   ["use", op, form, ctx, slot]       one constant-using operation  op in {kAbsF32,kNegF32,kNotU32,kAbsF64,kCmpGtU8,...}
//                                      form: "r" (register source) | "m" (memory source)
//                                      ctx:  "s" straight | "t" inside `if (flag)` | "l" inside `for (i = n; i; i--)`
//                                      slot: output slot 0..3 (64 bytes each)
//   ["end"]                            end_func()
// After "end" the function is finalized and executed with flag = 0 / n = 0 (the guarded region is skipped) and with
// flag = 1 / n = 2.

struct LifeUse { std::string op, form, ctx; int slot; };

static const char* track_class(const char* name) {
  if (!name) return nullptr;
  if (strncmp(name, "common_table_ptr", 16) == 0) return "tbl";
  if (strncmp(name, "c_0x", 4) == 0) return "vc";
  return nullptr;
}

static void life_nodes(vj::W& w, x86::Compiler& cc, FuncNode* fn) {
  // projection of the node list of one function: control-flow skeleton + definitions / uses of the tracked registers
  w.key("seq").beginArr();
  for (BaseNode* n = fn; n; n = n->next()) {
    if (n != fn && n->is_func()) break;
    if (n->is_func()) { w.beginObj().kv("t", "func").endObj(); continue; }
    if (n->is_sentinel()) { w.beginObj().kv("t", "end").endObj(); break; }
    if (n->is_label()) { w.beginObj().kv("t", "label").endObj(); continue; }
    if (!n->is_inst()) continue;
    InstNode* in = n->as<InstNode>();
    bool jump = false;
    for (uint32_t i = 0; i < in->op_count(); i++) if (in->operands()[i].is_label()) jump = true;
    InstRWInfo rw;
    bool have_rw = InstAPI::query_rw_info(cc.arch(), in->baseInst(), in->operands().data(), in->op_count(), &rw) == Error::kOk;
    std::vector<std::string> defs, uses;
    for (uint32_t i = 0; i < in->op_count(); i++) {
      const Operand& o = in->operands()[i];
      auto nm = [&](uint32_t id) -> std::string {
        if (!cc.is_virt_id_valid(id)) return "";
        const char* c = track_class(cc.virt_reg_by_id(id)->name());
        return c ? std::string(c) + ":" + cc.virt_reg_by_id(id)->name() : std::string();
      };
      if (o.is_reg()) {
        std::string s = nm(o.as<Reg>().id());
        if (s.empty()) continue;
        bool wr = have_rw ? rw.operand(i).is_write() : i == 0;
        bool rd = have_rw ? rw.operand(i).is_read() : i != 0;
        if (rd) uses.push_back(s);
        if (wr) defs.push_back(s);
      }
      else if (o.is_mem()) {
        const BaseMem& m = o.as<BaseMem>();
        if (m.has_base_reg()) { std::string s = nm(m.base_id()); if (!s.empty()) uses.push_back(s); }
        if (m.has_index_reg()) { std::string s = nm(m.index_id()); if (!s.empty()) uses.push_back(s); }
      }
    }
    // an instruction that reads and writes the same register to produce a constant (pxor x, x / pcmpeq x, x) defines it
    if (defs.size() == 1 && uses.size() >= 1) {
      bool all_same = true; for (auto& u : uses) if (u != defs[0]) all_same = false;
      uint32_t id = uint32_t(in->inst_id());
      if (all_same && (id == x86::Inst::kIdPxor || id == x86::Inst::kIdVpxor || id == x86::Inst::kIdXorps || id == x86::Inst::kIdVxorps ||
                       id == x86::Inst::kIdPcmpeqb || id == x86::Inst::kIdVpcmpeqb || id == x86::Inst::kIdVpternlogd || id == x86::Inst::kIdVpxord)) uses.clear();
    }
    if (jump || !defs.empty() || !uses.empty()) {
      w.beginObj().kv("t", jump ? "jump" : "inst");
      w.key("d").beginArr(); for (auto& s : defs) w.val(s); w.endArr();
      w.key("u").beginArr(); for (auto& s : uses) w.val(s); w.endArr();
      w.endObj();
    }
  }
  w.endArr();
}

static int run_life(const char* script_path, const char* trace_path, const char* obs_path) {
  auto scripts = vj::read_ndjson(script_path);
  FILE* tf = fopen(trace_path, "w");
  g_out = fopen(obs_path, "w");
  if (!tf || !g_out) { perror("open"); return 3; }
  vj::install_abort_handlers(tf);
  Jit jit;
  for (auto& sc : scripts) {
    const Level* lp = find_level(sc["lvl"].s());
    if (!lp) continue;
    const Level& lvl = *lp;
    long long sid = sc["id"].i();
    { vj::W w; w.beginObj().kv("e", "Reset").kv("id", sid).endObj(); w.emit(tf); }
    jit.eh.first = Error::kOk; jit.eh.msg.clear();
    jit.code.reset();
    jit.code.init(jit.rt.environment(), lvl.f);
    jit.code.set_error_handler(&jit.eh);
    x86::Compiler cc(&jit.code);
    cc.add_diagnostic_options(DiagnosticOptions::kValidateAssembler);
    cc.add_diagnostic_options(DiagnosticOptions::kValidateIntermediate);
    UniCompiler uc(&cc, lvl.f, CpuHints::kNone);
    {
      vj::W w; w.beginObj().kv("e", "New");
      w.kv("sse3", lvl.f.x86().has_sse3()).kv("ssse3", lvl.f.x86().has_ssse3()).kv("sse41", lvl.f.x86().has_sse4_1()).kv("sse42", lvl.f.x86().has_sse4_2());
      w.kv("avx", lvl.f.x86().has_avx()).kv("avx2", lvl.f.x86().has_avx2()).kv("fma", lvl.f.x86().has_fma());
      w.kv("avx512", lvl.f.x86().has_avx512_f() && lvl.f.x86().has_avx512_bw() && lvl.f.x86().has_avx512_dq() && lvl.f.x86().has_avx512_cd() && lvl.f.x86().has_avx512_vl());
      // observed
      w.kv("o_maxw", int(uc.max_vec_width_from_cpu_features())).kv("o_regs", (long long)uc.vec_reg_count());
      w.kv("o_fma", int(uc.fmadd_op_behavior())).kv("o_scalar", int(uc.scalar_op_behavior())).kv("o_minmax", int(uc.fmin_fmax_op_behavior())).kv("o_f2i", int(uc.float_to_int_outside_range_behavior()));
      w.kv("o_has_avx", uc.has_avx()).kv("o_has_avx2", uc.has_avx2()).kv("o_has_avx512", uc.has_avx512()).kv("o_has_fma", uc.has_fma());
      w.kv("o_has_sse3", uc.has_sse3()).kv("o_has_ssse3", uc.has_ssse3()).kv("o_has_sse41", uc.has_sse4_1()).kv("o_has_sse42", uc.has_sse4_2());
      w.kv("o_hook", uc._func_init_hook != nullptr).kv("o_tbl", uc._common_table_ptr.is_valid());
      w.endObj(); w.emit(tf);
    }
    int vw = 0, nfunc = 0;
    std::vector<LifeUse> uses;
    std::vector<FuncNode*> funcs;
    std::vector<std::vector<LifeUse>> fuses;
    x86::Gp io, flag, cnt;
    FuncNode* cur = nullptr;
    for (size_t si = 0; si < sc["steps"].size(); si++) {
      const vj::Value& st = sc["steps"][si];
      std::string op = st[0].s();
      if (op == "vw") {
        vw = int(st[1].i());
        uc.init_vec_width(VecWidth(vw));
        x86::Vec v = uc.new_vec("probe");
        vj::W w; w.beginObj().kv("e", "InitVecWidth").kv("w", vw).kv("o_w", int(uc.vec_width())).kv("o_mul", (long long)uc.vec_multiplier()).kv("o_size", (long long)v.size())
                  .kv("o_256", uc.use_256bit_simd()).kv("o_512", uc.use_512bit_simd()).endObj(); w.emit(tf);
      }
      else if (op == "func") {
        cur = uc.add_func(FuncSignature::build<void, void*>());
        io = uc.new_gpz("io"); cur->set_arg(0, io);
        flag = uc.new_gp32("flag"); cnt = uc.new_gp32("cnt");
        cc.mov(flag, x86::dword_ptr(io, kOffGp)); cc.mov(cnt, x86::dword_ptr(io, kOffGp + 8));
        uses.clear();
        vj::W w; w.beginObj().kv("e", "AddFunc").kv("o_hook", uc._func_init_hook == cur).kv("o_avx", cur->frame().is_avx_enabled()).kv("o_avx512", cur->frame().is_avx512_enabled())
                  .kv("o_tbl", uc._common_table_ptr.is_valid()).kv("o_nconst", (long long)uc._vec_consts.size()).endObj(); w.emit(tf);
        nfunc++;
      }
      else if (op == "use") {
        LifeUse u{st[1].s(), st[2].s(), st[3].s(), int(st[4].i())};
        Scaf s{cc, lvl, io};
        Label skip = cc.new_label(), loop = cc.new_label();
        x86::Gp i = uc.new_gp32("i");
        if (u.ctx == "t") { cc.test(flag, flag); cc.jz(skip); }
        if (u.ctx == "l") { cc.mov(i, cnt); cc.test(i, i); cc.jz(skip); cc.bind(loop); }
        x86::Vec a = uc.new_vec_with_width(VecWidth(vw), "a"), d = uc.new_vec_with_width(VecWidth(vw), "d");
        uint32_t opid = ~0u; bool is3 = false; uint32_t op3 = ~0u;
        for (auto& on : kVV) if (u.op == on.name) opid = uint32_t(on.op);
        for (auto& on : kVVV) if (u.op == on.name) { op3 = uint32_t(on.op); is3 = true; }
        s.vload(d, kOffD0);
        if (!is3) {
          if (u.form == "m") uc.emit_2v(UniOpVV(opid), d, x86::ptr(io, kOffA));
          else { s.vload(a, kOffA); uc.emit_2v(UniOpVV(opid), d, a); }
        }
        else {
          x86::Vec b = uc.new_vec_with_width(VecWidth(vw), "b");
          s.vload(a, kOffA);
          if (u.form == "m") uc.emit_3v(UniOpVVV(op3), d, a, x86::ptr(io, kOffB));
          else { s.vload(b, kOffB); uc.emit_3v(UniOpVVV(op3), d, a, b); }
        }
        s.vstore(kOffMem + 64 * u.slot, d);   // output slots live at kOffMem + 64*slot (the io block of life runs is enlarged)
        if (u.ctx == "l") { cc.sub(i, 1); cc.jnz(loop); }
        if (u.ctx != "s") cc.bind(skip);
        uses.push_back(u);
        vj::W w; w.beginObj().kv("e", "Use").kv("op", u.op).kv("form", u.form).kv("ctx", u.ctx)
                  .kv("o_tbl", uc._common_table_ptr.is_valid()).kv("o_nconst", (long long)uc._vec_consts.size()).kv("o_hook", uc._func_init_hook != nullptr).endObj(); w.emit(tf);
      }
      else if (op == "end") {
        FuncNode* f = cur;
        uc.end_func();
        funcs.push_back(f); fuses.push_back(uses);
        vj::W w; w.beginObj().kv("e", "EndFunc").kv("o_hook", uc._func_init_hook != nullptr).kv("o_tbl", uc._common_table_ptr.is_valid()).kv("o_nconst", (long long)uc._vec_consts.size());
        life_nodes(w, cc, f);
        w.endObj(); w.emit(tf);
        cur = nullptr;
      }
    }
    // finalize all functions of this compiler, then execute each of them
    Error e = jit.eh.first != Error::kOk ? jit.eh.first : cc.finalize();
    std::vector<uint64_t> offs;
    for (FuncNode* f : funcs) offs.push_back(e == Error::kOk ? jit.code.label_offset(f->label()) : 0);
    uint8_t* base = nullptr;
    if (e == Error::kOk) e = jit.rt.add(&base, &jit.code);
    {
      vj::W w; w.beginObj().kv("e", "Finalize").kv("ok", e == Error::kOk).kv("err", e == Error::kOk ? "" : DebugUtils::error_as_string(e)).kv("msg", jit.eh.msg).kv("nfunc", (long long)funcs.size()).endObj(); w.emit(tf);
    }
    if (e == Error::kOk) {
      for (size_t fi = 0; fi < funcs.size(); fi++) {
        Fn fn = reinterpret_cast<Fn>(base + offs[fi]);
        for (int pass = 0; pass < 2; pass++) {
          alignas(64) static uint8_t big[kIoSize + 64 * 4 + 64];
          uint8_t* io8 = big;
          vj::Rng r(vj::env_seed() + uint64_t(sid) * 131 + fi * 7 + pass);
          memset(io8, 0xCD, sizeof(big));
          fill_vec(io8 + kOffA, 4, 'x', r); fill_vec(io8 + kOffB, 4, 'x', r); fill_vec(io8 + kOffD0, 4, 'x', r);
          uint8_t a[64], b[64], d0[64]; memcpy(a, io8 + kOffA, 64); memcpy(b, io8 + kOffB, 64); memcpy(d0, io8 + kOffD0, 64);
          uint64_t fl = pass, n = pass ? 2 : 0;
          memcpy(io8 + kOffGp, &fl, 8); memcpy(io8 + kOffGp + 8, &n, 8);
          int sig = run_guarded(fn, io8);
          int W = 16 << vw;
          for (auto& u : fuses[fi]) {
            bool executed = u.ctx == "s" || pass == 1;
            bool is3 = false; for (auto& on : kVVV) if (u.op == on.name) is3 = true;
            vj::W w; w.beginObj().kv("t", "obs").kv("k", !executed && !sig ? "skip" : is3 ? "vvv" : "vv").kv("op", u.op).kv("form", std::string("life:") + u.form + u.ctx).kv("w", W).kv("lvl", lvl.name)
              .kv("imm", -1).kv("idx", -1).kv("sz", 0).kv("var", "s" + std::to_string(sid) + "p" + std::to_string(pass)).kv("tag", "f" + std::to_string(fi)).kv("hash", 0).kv("sig", sig);
            w.bytes("a", a, W); w.bytes("b", b, W); w.bytes("d0", d0, W);
            // a use that is skipped leaves its slot untouched (0xCD): recorded as an observation of kMov of the fill pattern
            w.bytes("out", io8 + kOffMem + 64 * u.slot, W);
            w.endObj(); w.emit(g_out);
          }
          { vj::W w; w.beginObj().kv("e", "Run").kv("fn", (long long)fi).kv("pass", pass).kv("sig", sig).endObj(); w.emit(tf); }
        }
      }
      jit.rt.release(base);
    }
  }
  fclose(tf); fclose(g_out);
  return 0;
}
