// X02 harness: drives the registry API of a real asmjit::CodeHolder (labels, name map, sections, relocations, address
// table, emitters, logger / error handler, reset / reinit) and records an ndjson trace for spec/code/RegistryTrace.tla.
//
//   registry script <scripts.ndjson> <trace.ndjson>        one execution per line: {"cfg":{...},"ops":[{op...},...]}
//   registry random <trace.ndjson> <executions> <profile>  profile: small | big | boundary | mix
//
// Every event carries the arguments of the call, what the call reported (error name, returned id ...), the number of
// allocation failures that were injected during the call (fh) and the projection `p` of the WHOLE registry read back
// through the public accessors after the call.  The label table is delta-encoded: `lch` lists every label whose projected
// record differs from the one logged before (computed by comparing full snapshots), `nl` is label_count().
//
// Allocation failures are injected through hook H1 (asmjit_verif_arena_fail, hooks/H1_arena_fault.patch) and only for
// requests made to the CodeHolder's own arena.
#include <asmjit/core.h>
#include <asmjit/x86.h>
#include <asmjit/a64.h>
#include "vjson.h"
#include <algorithm>
#include <set>

using namespace asmjit;

extern "C" bool (*asmjit_verif_arena_fail)(size_t size, const void* arena, int site) __attribute__((weak));

static const char* err_name(Error e) {
  switch (e) {
    case Error::kOk: return "Ok";
    case Error::kOutOfMemory: return "OutOfMemory";
    case Error::kInvalidArgument: return "InvalidArgument";
    case Error::kInvalidState: return "InvalidState";
    case Error::kInvalidArch: return "InvalidArch";
    case Error::kNotInitialized: return "NotInitialized";
    case Error::kAlreadyInitialized: return "AlreadyInitialized";
    case Error::kInvalidLabel: return "InvalidLabel";
    case Error::kTooManyLabels: return "TooManyLabels";
    case Error::kLabelAlreadyBound: return "LabelAlreadyBound";
    case Error::kLabelAlreadyDefined: return "LabelAlreadyDefined";
    case Error::kLabelNameTooLong: return "LabelNameTooLong";
    case Error::kInvalidLabelName: return "InvalidLabelName";
    case Error::kInvalidParentLabel: return "InvalidParentLabel";
    case Error::kInvalidSection: return "InvalidSection";
    case Error::kTooManySections: return "TooManySections";
    case Error::kInvalidSectionName: return "InvalidSectionName";
    case Error::kTooManyRelocations: return "TooManyRelocations";
    case Error::kInvalidRelocEntry: return "InvalidRelocEntry";
    case Error::kInvalidDisplacement: return "InvalidDisplacement";
    case Error::kTooLarge: return "TooLarge";
    default: return "Other";
  }
}

// ---------------------------------------------------------------------------------------------------------
// fault engine (H1)
// ---------------------------------------------------------------------------------------------------------
struct Fault {
  bool armed = false;
  const void* arena = nullptr;
  std::string mode;
  unsigned seen = 0, hits = 0;
};
static Fault F;

static bool fault_hook(size_t size, const void* arena, int site) {
  if (!F.armed || arena != F.arena) return false;
  unsigned n = ++F.seen;
  bool fail = false;
  if (F.mode == "all") fail = true;
  else if (F.mode == "first") fail = n == 1;
  else if (F.mode == "second") fail = n == 2;
  else if (F.mode == "third") fail = n == 3;
  else if (F.mode == "grow") fail = site == 4;                              // alloc_reusable_zeroed: hash bucket arrays
  else if (F.mode == "big") fail = size >= 128 && (site == 3 || site == 4);   // container growth
  if (fail) F.hits++;
  return fail;
}

static int64_t small(uint64_t v) { return v < (1ull << 30) ? int64_t(v) : -2; }
static int64_t idv(uint32_t id) { return id == Globals::kInvalidId ? -1 : (id < (1u << 30) ? int64_t(id) : -3); }

struct Handler : public ErrorHandler {
  int idx;
  std::vector<std::pair<int, Error>>* sink;
  void handle_error(Error err, const char*, BaseEmitter*) override { sink->push_back({idx, err}); }
};

struct LabelProj {
  int type; std::vector<uint8_t> name; int64_t parent, sec, off, nsz, ofb; bool hn, hp, nz, bound, valid;
  bool operator==(const LabelProj& o) const {
    return type == o.type && name == o.name && parent == o.parent && sec == o.sec && off == o.off && nsz == o.nsz && ofb == o.ofb &&
           hn == o.hn && hp == o.hp && nz == o.nz && bound == o.bound && valid == o.valid;
  }
};

static const uint64_t kAddrs[] = {0x1000ull, 0x7FFFFFFFull, 0x80000000ull, 0x123456789ABCull, 0xFFFFFFFFFFFFFFF0ull, 0ull, 0x1001ull, 0x8000000000000000ull};
static const size_t kBufSize = 64;
static uint8_t g_static_mem[8192];

struct World {
  FILE* out;
  vj::W w;
  bool use_static;
  CodeHolder* code = nullptr;
  x86::Assembler* e1 = nullptr;
  x86::Builder* e2 = nullptr;
  a64::Assembler* e3 = nullptr;
  Handler h[2];
  StringLogger lg1;
  FileLogger lg2;
  std::vector<std::pair<int, Error>> calls;
  std::vector<LabelProj> prev;
  std::set<uint64_t> tried;
  bool flattened = false;
  // every (parent, name) key ever used by named / lookup calls of this execution (for sweeps)
  std::set<std::pair<int64_t, std::vector<uint8_t>>> keys;
  unsigned nevents = 0;

  World(FILE* f, bool st) : out(f), use_static(st), lg2(nullptr) {
    if (st) code = new CodeHolder(Span<uint8_t>(g_static_mem, sizeof g_static_mem));
    else code = new CodeHolder();
    e1 = new x86::Assembler(); e2 = new x86::Builder(); e3 = new a64::Assembler();
    for (int i = 0; i < 2; i++) { h[i].idx = i + 1; h[i].sink = &calls; }
    F.arena = &code->_arena;
    w.beginObj().kv("e", "Reset").key("cfg").beginObj().kv("static", st).endObj();
    proj();
    w.endObj().emit(out);
  }
  ~World() {
    F.armed = false;
    // emitters first (they detach themselves), then the holder
    delete e1; delete e2; delete e3; delete code;
  }

  BaseEmitter* em(int i) { return i == 1 ? (BaseEmitter*)e1 : i == 2 ? (BaseEmitter*)e2 : (BaseEmitter*)e3; }
  int em_idx(const BaseEmitter* e) { return e == e1 ? 1 : e == e2 ? 2 : e == e3 ? 3 : 9; }
  int lg_idx(const Logger* l) { return l == nullptr ? 0 : l == &lg1 ? 1 : l == &lg2 ? 2 : 9; }
  int eh_idx(const ErrorHandler* x) { return x == nullptr ? 0 : x == &h[0] ? 1 : x == &h[1] ? 2 : 9; }

  // ---- projection --------------------------------------------------------------------------------------
  LabelProj label_proj(uint32_t id) {
    const CodeHolder& c = *code;
    const LabelEntry& le = c.label_entry_of(id);
    LabelProj p;
    p.type = int(le.label_type());
    p.nsz = le.name_size();
    const char* nm = le.name();
    if (nm) p.name.assign((const uint8_t*)nm, (const uint8_t*)nm + le.name_size());
    p.nz = nm ? strlen(nm) == le.name_size() : le.name_size() == 0;
    p.parent = idv(le.parent_id());
    p.hn = le.has_name();
    p.hp = le.has_parent();
    p.sec = idv(le.section_id());
    p.bound = c.is_label_bound(id) && c.is_label_bound(Label(id)) && le.is_bound();
    p.valid = c.is_label_valid(id) && c.is_label_valid(Label(id));
    p.off = small(c.label_offset(id));
    p.ofb = -1;
    if (le.is_bound() && c.is_section_valid(le.section_id()) && c.section_by_id(le.section_id())->has_offset())
      p.ofb = small(c.label_offset_from_base(id));
    return p;
  }

  void names(const std::vector<uint8_t>& n) { w.beginArr(); for (uint8_t b : n) w.val((long long)b); w.endArr(); }

  void proj() {
    CodeHolder& c = *code;
    w.key("p").beginObj();
    w.kv("init", c.is_initialized());
    w.kv("base", c.has_base_address() ? small(c.base_address()) : (long long)-1);
    w.kv("eh", eh_idx(c.error_handler())).kv("heh", c.has_error_handler()).kv("lg", lg_idx(c.logger()));
    w.key("att").beginArr();
    unsigned guard = 0;
    for (BaseEmitter* e = c.attached_first(); e && guard < 8; e = e->_attached_next, guard++) w.val(em_idx(e));
    w.endArr();
    w.key("elg").beginArr();
    guard = 0;
    for (BaseEmitter* e = c.attached_first(); e && guard < 8; e = e->_attached_next, guard++) w.val(lg_idx(e->logger()));
    w.endArr();
    w.key("eeh").beginArr();
    guard = 0;
    for (BaseEmitter* e = c.attached_first(); e && guard < 8; e = e->_attached_next, guard++) w.val(eh_idx(e->error_handler()));
    w.endArr();
    w.kv("last", c.attached_last() ? em_idx(c.attached_last()) : 0);
    // which of the three emitters believe to be attached to this holder
    w.key("ecode").beginArr();
    for (int i = 1; i <= 3; i++) w.val(em(i)->code() == code);
    w.endArr();
    // labels (delta)
    size_t nl = c.label_count();
    w.kv("nl", nl);
    w.kv("vend", !c.is_label_valid(uint32_t(nl)) && !c.is_label_valid(Globals::kInvalidId) && !c.is_label_bound(uint32_t(nl)) && c.label_entries().size() == nl);
    std::vector<LabelProj> cur(nl);
    for (size_t i = 0; i < nl; i++) cur[i] = label_proj(uint32_t(i));
    w.key("lch").beginArr();
    for (size_t i = 0; i < nl; i++) {
      if (i < prev.size() && prev[i] == cur[i]) continue;
      const LabelProj& p = cur[i];
      w.beginObj().kv("id", i).kv("type", p.type);
      w.key("name"); names(p.name);
      w.kv("parent", p.parent).kv("sec", p.sec).kv("off", p.off).kv("nsz", p.nsz).kv("hn", p.hn).kv("hp", p.hp).kv("nz", p.nz)
       .kv("bound", p.bound).kv("valid", p.valid).kv("ofb", p.ofb).endObj();
    }
    w.endArr();
    prev.swap(cur);
    // sections
    w.key("secs").beginArr();
    Span<Section*> ss = c.sections();
    for (size_t i = 0; i < ss.size(); i++) {
      Section* s = ss[i];
      std::vector<uint8_t> nm((const uint8_t*)s->name(), (const uint8_t*)s->name() + strlen(s->name()));
      bool same = c.section_by_id(uint32_t(i)) == s && c.is_section_valid(uint32_t(i));
      w.beginObj().kv("id", same ? idv(s->section_id()) : (long long)-99);
      w.key("name"); names(nm);
      w.kv("flags", uint32_t(s->flags())).kv("align", s->alignment()).kv("order", (long long)s->order())
       .kv("off", s->has_offset() ? small(s->offset()) : (long long)-1).kv("vsize", small(s->virtual_size())).kv("bsize", s->buffer_size()).endObj();
    }
    w.endArr();
    w.kv("nsec", c.section_count()).kv("svend", !c.is_section_valid(uint32_t(c.section_count())));
    w.key("ord").beginArr();
    for (Section* s : c.sections_by_order()) w.val(idv(s->section_id()));
    w.endArr();
    w.kv("text", c.section_count() ? idv(c.text_section()->section_id()) : (long long)-1);
    // relocations
    w.key("rel").beginArr();
    Span<RelocEntry*> rs = c.reloc_entries();
    for (size_t i = 0; i < rs.size(); i++) {
      RelocEntry* re = rs[i];
      bool same = c.reloc_entry_of(uint32_t(i)) == re;
      w.beginObj().kv("id", same ? idv(re->id()) : (long long)-99).kv("type", uint32_t(re->reloc_type())).kv("src", idv(re->source_section_id()))
       .kv("tgt", idv(re->target_section_id())).kv("soff", small(re->source_offset())).kv("pay", small(re->payload()))
       .kv("fmt", int(re->format().value_size()) + int(re->format().region_size())).endObj();
    }
    w.endArr();
    w.kv("hasrel", c.has_reloc_entries());
    // address table
    w.kv("at", c.address_table_section() ? idv(c.address_table_section()->section_id()) : (long long)-1).kv("hasat", c.has_address_table_section());
    w.key("ats").beginArr();
    for (uint64_t a : tried) {
      AddressTableEntry* ent = c._address_table_entries.get(a);
      if (ent && ent->address() == a) { w.beginArr(); for (int k = 0; k < 4; k++) w.val((long long)((a >> (16 * k)) & 0xFFFF)); w.endArr(); }
    }
    w.endArr();
    w.kv("unres", c.unresolved_fixup_count()).kv("hasunres", c.has_unresolved_fixups());
    size_t cs = c.code_size();
    w.kv("csize", small(cs));
    w.endObj();
  }

  // ---- helpers ----------------------------------------------------------------------------------------
  void arm(const vj::Value& op) {
    F.mode.clear(); F.seen = F.hits = 0; F.armed = false;
    if (!op.has("fault")) return;
    const vj::Value& f = op["fault"];
    if (f.kind == vj::Value::Str) F.mode = f.str;
    else if (f.kind == vj::Value::Bool && f.b) F.mode = "all";
    if (!F.mode.empty() && &::asmjit_verif_arena_fail != nullptr) { ::asmjit_verif_arena_fail = fault_hook; F.armed = true; }
  }
  void disarm() { F.armed = false; }
  void begin(const char* e) { w.beginObj().kv("e", e); nevents++; }
  void finish() {
    w.kv("fh", F.hits).kv("fm", F.mode.empty() ? "none" : F.mode.c_str());
    w.key("errs").beginArr();
    for (auto& c : calls) w.beginObj().kv("h", c.first).kv("err", err_name(c.second)).endObj();
    w.endArr();
    proj();
    w.endObj().emit(out);
    F.mode.clear(); F.hits = 0; calls.clear();
  }
  static std::vector<uint8_t> bytes_of(const vj::Value& v) {
    std::vector<uint8_t> r;
    for (auto& b : v.arr) r.push_back(uint8_t(b.i()));
    return r;
  }
  static bool has_nul(const std::vector<uint8_t>& n) { return std::find(n.begin(), n.end(), 0) != n.end(); }
  // a NUL terminated private copy followed by poison (the API must not read past name_size / the terminator)
  struct NameBuf {
    std::vector<char> b; size_t size;
    NameBuf(const std::vector<uint8_t>& n, bool z) : b(n.size() + 9, char(0x5A)) {
      memcpy(b.data(), n.data(), n.size());
      b[n.size()] = z ? 0 : char(0x5A);
      if (z) b[n.size()] = 0;
      size = z ? SIZE_MAX : n.size();
    }
    const char* p() const { return b.data(); }
    void scribble() { memset(b.data(), 0x77, b.size()); }
  };
  void resize_event(uint32_t sec) {
    // environment action: give the section buffer kBufSize zero bytes, so that fixups have something to patch
    Section* s = code->section_by_id(sec);
    if (code->reserve_buffer(&s->buffer(), kBufSize) != Error::kOk) return;
    memset(s->buffer().data(), 0, kBufSize);
    s->buffer()._size = kBufSize;
    begin("Resize"); w.kv("sec", sec).kv("n", kBufSize); finish();
  }
  bool cross_ready() {
    CodeHolder& c = *code;
    for (Section* s : c.sections()) if (!s->has_offset()) return false;
    return true;
  }

  // ---- operations --------------------------------------------------------------------------------------
  void exec(const vj::Value& op) {
    CodeHolder& c = *code;
    const std::string& o = op["op"].s();
    bool inited = c.is_initialized();
    calls.clear();
    if (o == "init") {
      bool envok = !op.has("envok") || op["envok"].b;
      long long base = op.has("base") ? op["base"].i() : -1;
      Environment env = envok ? Environment(Arch::kX64) : Environment();
      arm(op);
      Error err = base >= 0 ? c.init(env, uint64_t(base)) : c.init(env);
      disarm();
      begin("Init"); w.kv("envok", envok).kv("base", base).kv("r", err_name(err)); finish();
      if (err == Error::kOk) { flattened = false; resize_event(0); }
      return;
    }
    if (o == "reinit") {
      arm(op);
      Error err = c.reinit();
      disarm();
      begin("Reinit"); w.kv("r", err_name(err)); finish();
      if (err == Error::kOk) { flattened = false; tried.clear(); keys.clear(); resize_event(0); }
      if (!c.is_initialized()) { tried.clear(); keys.clear(); }
      return;
    }
    if (o == "reset") {
      bool hard = op.has("hard") && op["hard"].b;
      c.reset(hard ? ResetPolicy::kHard : ResetPolicy::kSoft);
      tried.clear(); keys.clear(); flattened = false;
      begin("ResetH"); w.kv("hard", hard); finish();
      return;
    }
    if (o == "attach") {
      int e = int(op["em"].i());
      arm(op);
      Error err = c.attach(em(e));
      disarm();
      begin("Attach"); w.kv("em", e).kv("compat", e != 3).kv("r", err_name(err)); finish();
      return;
    }
    if (o == "detach") {
      int e = int(op["em"].i());
      Error err = c.detach(em(e));
      begin("Detach"); w.kv("em", e).kv("r", err_name(err)); finish();
      return;
    }
    // emitter-side calls are legal whatever the state of the holder
    if (o == "elabel") {
      int e = int(op["em"].i());
      arm(op);
      Label L = em(e)->new_label();
      disarm();
      begin("ELabel"); w.kv("em", e).kv("id", idv(L.id())).kv("lvalid", L.is_valid()); finish();
      return;
    }
    if (o == "enamed") {
      int e = int(op["em"].i());
      std::vector<uint8_t> n = bytes_of(op["name"]);
      bool z = op.has("z") && op["z"].b && !has_nul(n);
      int type = int(op["type"].i());
      long long parent = op["parent"].i();
      keys.insert({parent, n});
      NameBuf nb(n, z);
      arm(op);
      Label L = em(e)->new_named_label(nb.p(), nb.size, LabelType(uint8_t(type)), parent < 0 ? Globals::kInvalidId : uint32_t(parent));
      disarm();
      nb.scribble();
      begin("ENamed"); w.kv("em", e); w.key("name"); names(n); w.kv("z", z).kv("type", type).kv("parent", parent).kv("id", idv(L.id())); finish();
      return;
    }
    if (o == "elookup") {
      int e = int(op["em"].i());
      std::vector<uint8_t> n = bytes_of(op["name"]);
      bool z = op.has("z") && op["z"].b && !has_nul(n);
      long long parent = op["parent"].i();
      NameBuf nb(n, z);
      Label L = em(e)->label_by_name(nb.p(), nb.size, parent < 0 ? Globals::kInvalidId : uint32_t(parent));
      begin("ELookup"); w.kv("em", e); w.key("name"); names(n); w.kv("z", z).kv("parent", parent).kv("r", idv(L.id())); finish();
      return;
    }
    if (o == "ebind") {
      int e = int(op["em"].i());
      long long id = op["id"].i();
      if (e == 3) return;
      Label L(id < 0 ? Globals::kInvalidId : uint32_t(id));
      long long sec = -1, off = -1;
      if (e == 1 && e1->code() == code) { sec = idv(e1->_section->section_id()); off = small(e1->offset()); }
      Error err = em(e)->bind(L);
      begin("EBind"); w.kv("em", e).kv("kind", e == 1 ? "asm" : "builder").kv("id", id).kv("sec", sec).kv("off", off).kv("r", err_name(err)); finish();
      return;
    }
    if (o == "evalid") {
      int e = int(op["em"].i());
      long long id = op["id"].i();
      bool r = em(e)->is_label_valid(id < 0 ? Globals::kInvalidId : uint32_t(id));
      begin("EValid"); w.kv("em", e).kv("id", id).kv("r", r); finish();
      return;
    }
    // everything below is documented for an initialised holder only ("In order to use CodeHolder, it must be first initialized")
    if (!inited) return;
    if (o == "seteh") {
      int hh = int(op["h"].i());
      if (hh == 0 && (nevents & 1)) c.reset_error_handler(); else c.set_error_handler(hh == 0 ? nullptr : &h[hh - 1]);
      begin("SetEH"); w.kv("h", hh); finish();
      return;
    }
    if (o == "setlg") {
      int g = int(op["g"].i());
      if (g == 0 && (nevents & 1)) c.reset_logger(); else c.set_logger(g == 0 ? nullptr : g == 1 ? (Logger*)&lg1 : (Logger*)&lg2);
      begin("SetLG"); w.kv("g", g); finish();
      return;
    }
    if (o == "label") {
      uint32_t id = 0xDEAD;
      arm(op);
      Error err = c.new_label_id(Out(id));
      disarm();
      begin("Label"); w.kv("r", err_name(err)).kv("id", err == Error::kOk ? idv(id) : (long long)-1); finish();
      return;
    }
    if (o == "named") {
      std::vector<uint8_t> n = bytes_of(op["name"]);
      bool z = op.has("z") && op["z"].b && !has_nul(n);
      int type = int(op["type"].i());
      long long parent = op["parent"].i();
      keys.insert({parent, n});
      NameBuf nb(n, z);
      uint32_t id = 0xDEAD;
      arm(op);
      Error err = c.new_named_label_id(Out(id), nb.p(), nb.size, LabelType(uint8_t(type)), parent < 0 ? Globals::kInvalidId : uint32_t(parent));
      disarm();
      nb.scribble();     // the holder must own its copy of the name
      begin("Named"); w.key("name"); names(n); w.kv("z", z).kv("type", type).kv("parent", parent).kv("r", err_name(err)).kv("id", err == Error::kOk ? idv(id) : (long long)-1); finish();
      return;
    }
    if (o == "lookup") {
      std::vector<uint8_t> n = bytes_of(op["name"]);
      bool z = op.has("z") && op["z"].b && !has_nul(n);
      long long parent = op["parent"].i();
      keys.insert({parent, n});
      NameBuf nb(n, z);
      uint32_t pid = parent < 0 ? Globals::kInvalidId : uint32_t(parent);
      uint32_t r = c.label_id_by_name(nb.p(), nb.size, pid);
      // the overloads must agree
      uint32_t r2 = c.label_by_name(nb.p(), nb.size, pid).id();
      uint32_t r3 = z ? r : c.label_id_by_name(Span<const char>(nb.p(), n.size()), pid);
      begin("Lookup"); w.key("name"); names(n); w.kv("z", z).kv("parent", parent).kv("r", idv(r)).kv("agree", r == r2 && r == r3); finish();
      return;
    }
    if (o == "sweep") {
      begin("Sweep");
      w.key("q").beginArr();
      for (auto& k : keys) {
        if (k.second.size() > 64) continue;
        NameBuf nb(k.second, false);
        uint32_t r = c.label_id_by_name(nb.p(), nb.size, k.first < 0 ? Globals::kInvalidId : uint32_t(k.first));
        w.beginObj().kv("p", k.first); w.key("n"); names(k.second); w.kv("r", idv(r)).endObj();
      }
      w.endArr();
      finish();
      return;
    }
    if (o == "bind") {
      long long id = op["id"].i(), sec = op["sec"].i(), off = op["off"].i();
      Label L(id < 0 ? Globals::kInvalidId : uint32_t(id));
      Error err = c.bind_label(L, sec < 0 ? Globals::kInvalidId : uint32_t(sec), uint64_t(off));
      begin("Bind"); w.kv("id", id).kv("sec", sec).kv("off", off).kv("r", err_name(err)); finish();
      return;
    }
    if (o == "fixup") {
      long long id = op["id"].i(), sec = op["sec"].i();
      if (id < 0 || !c.is_label_valid(uint32_t(id)) || sec < 0 || !c.is_section_valid(uint32_t(sec))) return;
      LabelEntry& le = c.label_entry_of(uint32_t(id));
      if (le.is_bound() && le.section_id() == uint32_t(sec)) return;
      if (c.section_by_id(uint32_t(sec))->buffer_size() < kBufSize) return;
      OffsetFormat fmt;
      fmt.reset_to_simple_value(OffsetType::kSignedOffset, 4);
      size_t at = 4 * (nevents % 12);
      arm(op);
      Fixup* fx = c.new_fixup(le, uint32_t(sec), at, -4, fmt);
      disarm();
      begin("Fixup"); w.kv("id", id).kv("sec", sec).kv("at", at).kv("ok", fx != nullptr); finish();
      return;
    }
    if (o == "resolve") {
      if (!cross_ready()) return;
      Error err = c.resolve_cross_section_fixups();
      begin("Resolve"); w.kv("r", err_name(err)); finish();
      return;
    }
    if (o == "flatten") {
      if (flattened) return;       // "This should never be called more than once."
      Error err = c.flatten();
      flattened = true;
      begin("Flatten"); w.kv("r", err_name(err));
      w.key("offs").beginArr(); for (Section* s : c.sections()) w.val(s->has_offset() ? small(s->offset()) : (long long)-1); w.endArr();
      w.key("vs").beginArr(); for (Section* s : c.sections()) w.val(small(s->virtual_size())); w.endArr();
      finish();
      return;
    }
    if (o == "section") {
      std::vector<uint8_t> n = bytes_of(op["name"]);
      if (has_nul(n)) return;
      bool z = op.has("z") && op["z"].b;
      long long flags = op["flags"].i(), align = op["align"].i(), order = op["order"].i();
      NameBuf nb(n, z);
      Section* s = reinterpret_cast<Section*>(uintptr_t(0xDEAD));
      arm(op);
      Error err = c.new_section(Out(s), nb.p(), nb.size, SectionFlags(uint32_t(flags)), uint32_t(align), int32_t(order));
      disarm();
      nb.scribble();
      long long id = err == Error::kOk && s ? idv(s->section_id()) : -1;
      begin("Section"); w.key("name"); names(n); w.kv("z", z).kv("flags", flags).kv("align", align).kv("order", order).kv("r", err_name(err)).kv("id", id)
        .kv("outnull", s == nullptr); finish();
      if (err == Error::kOk && s) resize_event(s->section_id());
      return;
    }
    if (o == "secbyname") {
      std::vector<uint8_t> n = bytes_of(op["name"]);
      if (has_nul(n)) return;
      bool z = op.has("z") && op["z"].b;
      NameBuf nb(n, z);
      Section* s = c.section_by_name(nb.p(), nb.size);
      begin("SecByName"); w.key("name"); names(n); w.kv("z", z).kv("r", s ? idv(s->section_id()) : (long long)-1); finish();
      return;
    }
    if (o == "ensure") {
      arm(op);
      Section* s = c.ensure_address_table_section();
      disarm();
      begin("Ensure"); w.kv("r", s ? idv(s->section_id()) : (long long)-1); finish();
      return;
    }
    if (o == "addaddr") {
      uint64_t a = kAddrs[size_t(op["a"].i()) % 8];
      tried.insert(a);
      arm(op);
      Error err = c.add_address_to_address_table(a);
      disarm();
      begin("AddAddr"); w.wide("a", a); w.kv("r", err_name(err)); finish();
      return;
    }
    if (o == "reloc") {
      long long type = op["type"].i();
      RelocEntry* re = nullptr;
      arm(op);
      Error err = c.new_reloc_entry(Out(re), RelocType(uint32_t(type)));
      disarm();
      begin("Reloc"); w.kv("type", type).kv("r", err_name(err)).kv("id", err == Error::kOk && re ? idv(re->id()) : (long long)-1); finish();
      return;
    }
    fprintf(stderr, "registry: unknown op %s\n", o.c_str());
    exit(3);
  }
};

// ---------------------------------------------------------------------------------------------------------
// random histories: ops are generated as JSON text and executed through the same exec() as scripts
// ---------------------------------------------------------------------------------------------------------
struct Gen {
  vj::Rng& r;
  explicit Gen(vj::Rng& rr) : r(rr) {}
  std::vector<std::vector<uint8_t>> pool;

  static std::string arr(const std::vector<uint8_t>& n) {
    std::string s = "[";
    for (size_t i = 0; i < n.size(); i++) { if (i) s += ','; s += std::to_string(int(n[i])); }
    return s + "]";
  }
  static std::vector<uint8_t> str(const char* s) { return std::vector<uint8_t>((const uint8_t*)s, (const uint8_t*)s + strlen(s)); }

  void make_pool(unsigned n) {
    static const char* base[] = {"a", "b", "L1", "L2", "loop", "end", ".L1", "main", "x", "ab", "ba", "aa", "data", "fn", "L10", "L01", "foo", "bar", "_", "$t"};
    pool.clear();
    std::vector<unsigned> idx;
    for (unsigned i = 0; i < 20; i++) idx.push_back(i);
    for (unsigned i = 0; i < n && !idx.empty(); i++) { size_t k = r.below(idx.size()); pool.push_back(str(base[idx[k]])); idx.erase(idx.begin() + k); }
    // names with bytes >= 0x80 and a long one
    if (r.chance(1, 2)) pool.push_back({0xC3, 0xA9, 0xFF});
    if (r.chance(1, 3)) pool.push_back(std::vector<uint8_t>(200, uint8_t('q')));
  }
  std::string fault() {
    static const char* modes[] = {"all", "first", "second", "third", "grow", "big"};
    return std::string(",\"fault\":\"") + modes[r.below(6)] + "\"";
  }
  std::string maybe_fault(unsigned pct) { return r.below(100) < pct ? fault() : std::string(); }
  long long parent(size_t nlabels) {
    unsigned c = unsigned(r.below(100));
    if (c < 35) return -1;
    if (c < 85 && nlabels) return (long long)r.below(std::min<size_t>(nlabels, 6));
    if (c < 92 && nlabels) return (long long)r.below(nlabels);
    if (c < 96) return (long long)nlabels + (long long)r.below(3);
    return 1000000;
  }
  int type() {
    unsigned c = unsigned(r.below(100));
    if (c < 40) return 2;
    if (c < 70) return 1;
    if (c < 82) return 3;
    if (c < 94) return 0;
    return c < 97 ? 4 : 200;
  }
};

static void run_op(World& w, const std::string& json) {
  vj::Value v = vj::parse(json);
  w.exec(v);
}

static void exec_small(World& w, vj::Rng& r, unsigned steps) {
  Gen g(r);
  g.make_pool(10 + unsigned(r.below(8)));
  run_op(w, std::string("{\"op\":\"init\",\"envok\":true,\"base\":") + (r.chance(1, 3) ? "4096" : "-1") + "}");
  if (r.chance(2, 3)) run_op(w, "{\"op\":\"attach\",\"em\":1}");
  if (r.chance(1, 2)) run_op(w, "{\"op\":\"attach\",\"em\":2}");
  if (r.chance(2, 3)) run_op(w, std::string("{\"op\":\"seteh\",\"h\":") + std::to_string(1 + r.below(2)) + "}");
  for (unsigned i = 0; i < steps; i++) {
    CodeHolder& c = *w.code;
    size_t nl = c.label_count(), ns = c.section_count();
    unsigned k = unsigned(r.below(1000));
    std::string name = Gen::arr(r.pick(g.pool));
    std::string z = r.chance(1, 4) ? "true" : "false";
    if (!c.is_initialized()) { run_op(w, "{\"op\":\"init\",\"envok\":true,\"base\":-1}"); continue; }
    if (k < 280) run_op(w, "{\"op\":\"named\",\"name\":" + name + ",\"z\":" + z + ",\"type\":" + std::to_string(g.type()) + ",\"parent\":" + std::to_string(g.parent(nl)) + g.maybe_fault(8) + "}");
    else if (k < 500) run_op(w, "{\"op\":\"lookup\",\"name\":" + name + ",\"z\":" + z + ",\"parent\":" + std::to_string(g.parent(nl)) + "}");
    else if (k < 560) run_op(w, "{\"op\":\"label\"" + g.maybe_fault(8) + "}");
    else if (k < 630) run_op(w, "{\"op\":\"bind\",\"id\":" + std::to_string((long long)r.below(nl + 2) - (r.chance(1, 20) ? 1 : 0)) + ",\"sec\":" + std::to_string(r.below(ns + 1)) + ",\"off\":" + std::to_string(r.below(40)) + "}");
    else if (k < 680) {
      static const int aligns[] = {0, 1, 2, 4, 8, 16, 64, 4096, 3, 6, 12, 1 << 20};
      static const char* snames[] = {".data", ".rodata", ".bss", ".text", "", ".addrtab", "s", "a-section-name-of-35-characters-xxxx", "a-section-name-of-36-characters-xxxxx"};
      static const long long orders[] = {0, 0, 1, -1, 5, 5, -2147483647 - 1, 2147483647, 100};
      run_op(w, "{\"op\":\"section\",\"name\":" + Gen::arr(Gen::str(snames[r.below(9)])) + ",\"z\":" + z + ",\"flags\":" + std::to_string(r.below(16)) +
                ",\"align\":" + std::to_string(aligns[r.below(12)]) + ",\"order\":" + std::to_string(orders[r.below(9)]) + g.maybe_fault(10) + "}");
    }
    else if (k < 710) {
      static const char* snames[] = {".data", ".rodata", ".bss", ".text", "", ".addrtab", "s", "nope", "a-section-name-of-35-characters-xxxx", "a-section-name-of-36-characters-xxxxx"};
      run_op(w, "{\"op\":\"secbyname\",\"name\":" + Gen::arr(Gen::str(snames[r.below(10)])) + ",\"z\":" + z + "}");
    }
    else if (k < 740) run_op(w, "{\"op\":\"addaddr\",\"a\":" + std::to_string(r.below(8)) + g.maybe_fault(15) + "}");
    else if (k < 750) run_op(w, "{\"op\":\"ensure\"" + g.maybe_fault(20) + "}");
    else if (k < 780) run_op(w, "{\"op\":\"reloc\",\"type\":" + std::to_string(r.below(7)) + g.maybe_fault(10) + "}");
    else if (k < 820) run_op(w, "{\"op\":\"fixup\",\"id\":" + std::to_string(r.below(nl + 1)) + ",\"sec\":" + std::to_string(r.below(ns + 1)) + g.maybe_fault(8) + "}");
    else if (k < 830) run_op(w, "{\"op\":\"flatten\"}");
    else if (k < 845) run_op(w, "{\"op\":\"resolve\"}");
    else if (k < 865) run_op(w, "{\"op\":\"elabel\",\"em\":" + std::to_string(1 + r.below(3)) + g.maybe_fault(8) + "}");
    else if (k < 905) run_op(w, "{\"op\":\"enamed\",\"em\":" + std::to_string(1 + r.below(2)) + ",\"name\":" + name + ",\"z\":" + z + ",\"type\":" + std::to_string(g.type()) + ",\"parent\":" + std::to_string(g.parent(nl)) + g.maybe_fault(8) + "}");
    else if (k < 925) run_op(w, "{\"op\":\"elookup\",\"em\":" + std::to_string(1 + r.below(3)) + ",\"name\":" + name + ",\"z\":" + z + ",\"parent\":" + std::to_string(g.parent(nl)) + "}");
    else if (k < 945) run_op(w, "{\"op\":\"ebind\",\"em\":" + std::to_string(1 + r.below(2)) + ",\"id\":" + std::to_string(r.below(nl + 2)) + "}");
    else if (k < 955) run_op(w, "{\"op\":\"evalid\",\"em\":" + std::to_string(1 + r.below(3)) + ",\"id\":" + std::to_string((long long)r.below(nl + 3) - 1) + "}");
    else if (k < 965) run_op(w, "{\"op\":\"seteh\",\"h\":" + std::to_string(r.below(3)) + "}");
    else if (k < 972) run_op(w, "{\"op\":\"setlg\",\"g\":" + std::to_string(r.below(3)) + "}");
    else if (k < 980) run_op(w, std::string("{\"op\":\"") + (r.chance(1, 2) ? "attach" : "detach") + "\",\"em\":" + std::to_string(1 + r.below(3)) + "}");
    else if (k < 988) run_op(w, "{\"op\":\"sweep\"}");
    else if (k < 994) run_op(w, "{\"op\":\"reinit\"" + g.maybe_fault(10) + "}");
    else if (k < 997) run_op(w, std::string("{\"op\":\"reset\",\"hard\":") + (r.chance(1, 2) ? "true" : "false") + "}");
    else run_op(w, "{\"op\":\"init\",\"envok\":" + std::string(r.chance(1, 2) ? "true" : "false") + ",\"base\":-1}");
  }
  run_op(w, "{\"op\":\"sweep\"}");
}

// many named labels: the name table crosses its growth points (2, 27, 54, 118, 243, 487 entries); allocation failures are
// injected exactly at the insertion that makes the table grow, followed by lookups of everything created so far
static void exec_big(World& w, vj::Rng& r, unsigned target) {
  Gen g(r);
  run_op(w, "{\"op\":\"init\",\"envok\":true,\"base\":-1}");
  if (r.chance(1, 3)) run_op(w, "{\"op\":\"attach\",\"em\":1}");
  unsigned named = 0, serial = 0;
  bool fail_growth = r.chance(3, 4);
  static const unsigned grow_at[] = {2, 27, 54, 118, 243, 487};
  std::vector<std::pair<long long, std::vector<uint8_t>>> created;
  unsigned guard = 0;
  while (named < target && guard++ < target * 4) {
    CodeHolder& c = *w.code;
    size_t nl = c.label_count();
    unsigned k = unsigned(r.below(100));
    bool at_growth = false;
    for (unsigned ga : grow_at) if (c._named_labels.size() + 1 == ga) at_growth = true;
    if (k < 70 || at_growth) {
      // a fresh key: new name, or an existing name under a different parent (local labels)
      std::vector<uint8_t> n;
      long long parent = -1;
      int type = r.chance(1, 6) ? 3 : 2;
      if (r.chance(1, 3) && nl > 0 && !created.empty()) { n = r.pick(created).second; parent = (long long)r.below(nl); type = 1; }
      else { char b[16]; snprintf(b, sizeof b, r.chance(1, 2) ? "n%u" : "%u_", serial++); n = Gen::str(b); if (r.chance(1, 4) && nl > 0) { parent = (long long)r.below(nl); type = 1; } }
      std::string f;
      if (at_growth && fail_growth && r.chance(3, 4)) f = std::string(",\"fault\":\"") + (r.chance(2, 3) ? "grow" : "big") + "\"";
      else if (r.chance(1, 40)) f = g.fault();
      size_t before = c._named_labels.size();
      run_op(w, "{\"op\":\"named\",\"name\":" + Gen::arr(n) + ",\"z\":false,\"type\":" + std::to_string(type) + ",\"parent\":" + std::to_string(parent) + f + "}");
      if (c._named_labels.size() > before) { created.push_back({parent, n}); named++; }
      if (at_growth) run_op(w, "{\"op\":\"sweep\"}");
    }
    else if (k < 80 && !created.empty()) {      // duplicate attempt
      auto& key = r.pick(created);
      run_op(w, "{\"op\":\"named\",\"name\":" + Gen::arr(key.second) + ",\"z\":false,\"type\":" + std::to_string(key.first < 0 ? 2 : 1) + ",\"parent\":" + std::to_string(key.first) + "}");
    }
    else if (k < 92 && !created.empty()) {
      auto& key = r.pick(created);
      long long p = r.chance(1, 5) ? g.parent(nl) : key.first;
      run_op(w, "{\"op\":\"lookup\",\"name\":" + Gen::arr(key.second) + ",\"z\":false,\"parent\":" + std::to_string(p) + "}");
    }
    else if (k < 97) run_op(w, "{\"op\":\"label\"}");
    else if (k < 99) run_op(w, "{\"op\":\"named\",\"name\":" + Gen::arr(Gen::str("dbg")) + ",\"z\":false,\"type\":0,\"parent\":-1}");
    else run_op(w, "{\"op\":\"bind\",\"id\":" + std::to_string(r.below(nl + 1)) + ",\"sec\":0,\"off\":" + std::to_string(r.below(60)) + "}");
  }
  run_op(w, "{\"op\":\"sweep\"}");
  if (r.chance(1, 2)) {
    // reuse: ids restart, the old names are gone
    run_op(w, r.chance(1, 2) ? "{\"op\":\"reinit\"}" : "{\"op\":\"reset\",\"hard\":false}");
    if (!w.code->is_initialized()) run_op(w, "{\"op\":\"init\",\"envok\":true,\"base\":-1}");
    for (unsigned i = 0; i < 6 && i < created.size(); i++) {
      auto& key = created[r.below(created.size())];
      run_op(w, "{\"op\":\"lookup\",\"name\":" + Gen::arr(key.second) + ",\"z\":false,\"parent\":-1}");
      run_op(w, "{\"op\":\"named\",\"name\":" + Gen::arr(key.second) + ",\"z\":false,\"type\":2,\"parent\":-1}");
    }
    run_op(w, "{\"op\":\"sweep\"}");
  }
}

// lengths at the limits, embedded NULs, odd bytes
static void exec_boundary(World& w, vj::Rng& r) {
  run_op(w, "{\"op\":\"init\",\"envok\":true,\"base\":-1}");
  if (r.chance(1, 2)) run_op(w, "{\"op\":\"attach\",\"em\":2}");
  if (r.chance(1, 2)) run_op(w, "{\"op\":\"seteh\",\"h\":1}");
  run_op(w, "{\"op\":\"named\",\"name\":[112],\"z\":false,\"type\":2,\"parent\":-1}");
  static const size_t lens[] = {0, 1, 2, 2047, 2048, 2049, 4096};
  unsigned n = 6 + unsigned(r.below(6));
  for (unsigned i = 0; i < n; i++) {
    size_t len = lens[r.below(7)];
    std::vector<uint8_t> nm(len, uint8_t('a' + r.below(3)));
    if (len > 0 && r.chance(1, 3)) nm[len - 1] = uint8_t(1 + r.below(255));
    unsigned c = unsigned(r.below(100));
    if (c < 25 && len > 0) nm[r.below(len)] = 0;                     // embedded NUL
    if (c >= 25 && c < 32 && len > 0) nm[0] = 0;
    std::string z = r.chance(1, 4) ? "true" : "false";
    int type = r.chance(1, 5) ? 0 : r.chance(1, 3) ? 1 : 2;
    long long parent = type == 1 ? 0 : -1;
    if (r.chance(1, 10)) parent = 0;
    const char* ops[] = {"named", "named", "lookup", "enamed"};
    std::string op = ops[r.below(4)];
    std::string s = "{\"op\":\"" + op + "\",\"em\":2,\"name\":" + Gen::arr(nm) + ",\"z\":" + z + ",\"type\":" + std::to_string(type) + ",\"parent\":" + std::to_string(parent) + "}";
    run_op(w, s);
    if (r.chance(1, 2)) run_op(w, "{\"op\":\"lookup\",\"name\":" + Gen::arr(nm) + ",\"z\":false,\"parent\":" + std::to_string(parent) + "}");
  }
  // section names around kMaxSectionNameSize
  static const size_t slens[] = {0, 1, 34, 35, 36, 37, 70};
  for (unsigned i = 0; i < 5; i++) {
    size_t len = slens[r.below(7)];
    std::vector<uint8_t> nm(len, uint8_t('s' + r.below(2)));
    if (len && r.chance(1, 3)) nm[len - 1] = uint8_t(0x80 + r.below(0x80));
    std::string z = r.chance(1, 3) ? "true" : "false";
    run_op(w, "{\"op\":\"section\",\"name\":" + Gen::arr(nm) + ",\"z\":" + z + ",\"flags\":" + std::to_string(r.below(4)) + ",\"align\":" + std::to_string(1 << r.below(8)) + ",\"order\":" + std::to_string((long long)r.below(3) - 1) + "}");
    run_op(w, "{\"op\":\"secbyname\",\"name\":" + Gen::arr(nm) + ",\"z\":false}");
  }
  run_op(w, "{\"op\":\"sweep\"}");
}

int main(int argc, char** argv) {
  if (argc < 3) { fprintf(stderr, "usage: registry script <scripts> <trace> | random <trace> <n> <profile>\n"); return 3; }
  std::string mode = argv[1];
  if (&::asmjit_verif_arena_fail == nullptr) fprintf(stderr, "registry: hook H1 is not present in this tree - no failures are injected\n");
  if (mode == "script") {
    auto scripts = vj::read_ndjson(argv[2]);
    FILE* out = fopen(argv[3], "w");
    setvbuf(out, nullptr, _IOLBF, 0);     // a crash must not lose the events logged before it
    vj::install_abort_handlers(out);
    unsigned n = 0;
    for (auto& s : scripts) {
      bool st = s.has("cfg") && s["cfg"].has("static") ? s["cfg"]["static"].b : (n & 1);
      World w(out, st);
      for (auto& op : s["ops"].arr) w.exec(op);
      fflush(out);
      n++;
    }
    fclose(out);
    return 0;
  }
  if (mode == "random") {
    FILE* out = fopen(argv[2], "w");
    setvbuf(out, nullptr, _IOLBF, 0);
    vj::install_abort_handlers(out);
    unsigned nexec = unsigned(atoi(argv[3]));
    std::string profile = argc > 4 ? argv[4] : "mix";
    vj::Rng r(vj::env_seed());
    static const unsigned targets[] = {4, 30, 58, 125, 250, 500};
    for (unsigned x = 0; x < nexec; x++) {
      World w(out, r.chance(1, 3));
      std::string p = profile;
      if (p == "mix") { unsigned c = unsigned(r.below(100)); p = c < 70 ? "small" : c < 85 ? "boundary" : "big"; }
      if (p == "small") exec_small(w, r, 30 + unsigned(r.below(90)));
      else if (p == "boundary") exec_boundary(w, r);
      else {
        unsigned t = profile == "big" ? targets[x % 6] : targets[r.below(4)];
        exec_big(w, r, t + unsigned(r.below(8)));
      }
      fflush(out);
    }
    fclose(out);
    return 0;
  }
  return 3;
}
