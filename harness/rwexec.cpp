// C12 harness (leg 2): HOST EXECUTION of the instruction forms whose read/write information rwinfo recorded.
//
//   rwexec run <obs.ndjson> <out.ndjson> <states> [<from> <to>]
//   rwexec host                                      prints the host CPU features (asmjit CpuInfo::host()) as a JSON list
//
// For every request of <obs.ndjson> (64-bit mode, accepted by validate, only GP / XMM / YMM / ZMM / K register operands, at most
// one plain [base(+index*scale)+disp] memory operand, not on the exclusion list below, every feature query_features reports
// present on the host) the instruction is assembled by the real x86::Assembler into a stub that
//   loads a machine state (15 GP registers - all but rsp -, the six status flags, k0..k7, zmm0..zmm31, a 4 KiB scratch memory the
//   memory operand points into), executes the instruction, stores the state.
// Per request `states` random states (alternating full-width random / small values) are run in a forked child with SIGILL / SIGSEGV /
// SIGFPE / SIGBUS / SIGTRAP guarded by sigsetjmp.  Recorded, independently of what asmjit reported:
//   chg = union over the states of what CHANGED: GP registers with byte masks, vector registers, mask registers, flags, memory range
//   dep = inputs whose perturbation (one register byte group / one vector register / one mask register / the memory operand's
//         bytes / the bytes around it) changed an output that is not a mere pass-through of the perturbed bytes; each entry says
//         whether a non-flag output changed (nf) and which flags changed (of) so that the spec can discount undefined flags.
// Judgement (chg within reported writes, dep within reported reads) is done by TLC (spec/isa/RWInfo.tla), not here.
#include "lib_x86forms.h"
#include <asmjit/core/formatter.h>
#include <sys/mman.h>
#include <sys/wait.h>
#include <signal.h>
#include <setjmp.h>
#include <set>

using namespace asmjit;
using namespace x86forms;

struct alignas(64) St {
  uint64_t gp[16];
  uint64_t flags;
  uint64_t k[8];
  uint64_t pad[7];
  uint8_t vec[32][64];
};
static_assert(sizeof(St) == 256 + 2048, "layout");
static const uint64_t kStatus = 0x8D5;          // CF PF AF ZF SF OF
static const int kMemSize = 4096, kMemAt = 2048, kWinLo = 128, kWinHi = 256;

static uint8_t* g_code = nullptr;               // RWX buffer
alignas(64) static uint8_t g_mem[kMemSize];
alignas(64) static uint8_t g_mem_in[kMemSize];
static St g_in, g_out;
static sigjmp_buf g_jmp;
static volatile int g_sig = 0;

static void on_signal(int sig) { g_sig = sig; siglongjmp(g_jmp, 1); }

static const char* kExcluded[] = {
  // stack / control transfer / system / privileged-or-faulting / non-deterministic / state outside the modelled machine state
  "push", "pop", "pusha", "pushad", "popa", "popad", "pushf", "pushfd", "pushfq", "popf", "popfd", "popfq", "enter", "leave", "call", "ret", "jmp",
  "int", "int3", "into", "int1", "ud0", "ud1", "ud2", "hlt", "in", "out", "ins", "outs", "cli", "sti", "syscall", "sysenter", "sysexit", "sysret", "iret",
  "rdtsc", "rdtscp", "rdrand", "rdseed", "rdpid", "rdpmc", "rdpru", "cpuid", "xgetbv", "xsetbv", "rdmsr", "wrmsr", "rdpkru", "wrpkru",
  "xsave", "xsave64", "xsavec", "xsavec64", "xsaveopt", "xsaveopt64", "xsaves", "xsaves64", "xrstor", "xrstor64", "xrstors", "xrstors64",
  "fxsave", "fxsave64", "fxrstor", "fxrstor64", "ldmxcsr", "stmxcsr", "vldmxcsr", "vstmxcsr", "vzeroall", "vzeroupper", "emms", "femms",
  "rdfsbase", "rdgsbase", "wrfsbase", "wrgsbase", "swapgs", "lsl", "lar", "verr", "verw", "sldt", "str", "smsw", "sgdt", "sidt", "lgdt", "lidt", "lldt", "ltr", "lmsw",
  "xbegin", "xend", "xabort", "xtest", "xresldtrk", "xsusldtrk", "tpause", "umwait", "umonitor", "monitor", "mwait", "monitorx", "mwaitx", "ptwrite",
  "movdir64b", "enqcmd", "enqcmds", "serialize", "pause", "wbinvd", "wbnoinvd", "invd", "invlpg", "clts", "clac", "stac", "clui", "stui", "testui", "senduipi", "uiret",
  "rdsspd", "rdsspq", "incsspd", "incsspq", "saveprevssp", "rstorssp", "wrssd", "wrssq", "wrussd", "wrussq", "setssbsy", "clrssbsy", "endbr32", "endbr64",
  "std", "movs", "cmps", "scas", "lods", "stos", "xlatb", "maskmovq", "maskmovdqu", "vmaskmovdqu", "ldtilecfg", "sttilecfg", "tilerelease", "hreset",
  "loadiwkey", "encodekey128", "encodekey256", "aesenc128kl", "aesenc256kl", "aesdec128kl", "aesdec256kl", "aesencwide128kl", "aesencwide256kl", "aesdecwide128kl", "aesdecwide256kl",
  "clflush", "clflushopt", "clwb", "cldemote", "clzero", "prefetchit0", "prefetchit1", "lfence", "mfence", "sfence", "getsec", "vmcall", "vmfunc", "bndmk", "bndcl", "bndcu", "bndcn", "bndmov", "bndldx", "bndstx",
};

static bool excluded(const std::string& n) {
  static std::set<std::string> s;
  if (s.empty()) for (const char* x : kExcluded) s.insert(x);
  if (n.compare(0, 4, "push") == 0 || n.compare(0, 3, "pop") == 0) return n != "popcnt";     // every stack push / pop spelling
  return s.count(n) != 0;
}

static std::string feature_name(uint32_t id) { String s; Formatter::format_feature(s, Arch::kX64, id); return std::string(s.data(), s.size()); }

// ---------------------------------------------------------------------------------------------------------------
struct Plan {
  bool ok = false; std::string skip;
  std::vector<int> gpOps;           // GP register ids named by register operands (physical)
  std::vector<int> vecOps, kOps;    // vector / mask register ids named by operands (incl. {k})
  int memIdx = -1; int base = -1, index = -1; int msz = 0;
};

static Plan plan_of(const Inst& in) {
  Plan p;
  if (in.m != 64) { p.skip = "mode32"; return p; }
  if (excluded(in.n)) { p.skip = "excluded-name"; return p; }
  if (in.opt & (O_REP | O_REPNE)) { p.skip = "rep"; return p; }
  std::set<int> g, v, k;
  for (size_t j = 0; j < in.ops.size(); j++) {
    const Opd& o = in.ops[j];
    if (o.t == 'r') {
      if (o.c == "gpb" || o.c == "gpw" || o.c == "gpd" || o.c == "gpq") { if (o.id == 4) { p.skip = "rsp-operand"; return p; } g.insert(o.id); }
      else if (o.c == "gph") g.insert(o.id);
      else if (o.c == "xmm" || o.c == "ymm" || o.c == "zmm") v.insert(o.id);
      else if (o.c == "k") k.insert(o.id);
      else { p.skip = "register-class-" + o.c; return p; }
    } else if (o.t == 'm') {
      if (p.memIdx >= 0) { p.skip = "two-memory-operands"; return p; }
      if (o.bt != "gpq" || o.b != 14 || o.sg != 0 || o.bc < 0) { p.skip = "implicit-or-absolute-memory"; return p; }
      if (!o.it.empty() && (o.it != "gpq" || o.i != 13)) { p.skip = "vsib-memory"; return p; }
      p.memIdx = int(j); p.base = 14; p.index = o.it.empty() ? -1 : 13; p.msz = o.bc ? o.sz * o.bc : o.sz;
    } else if (o.t != 'i') { p.skip = "label"; return p; }
  }
  if (in.k) k.insert(in.k);
  // bt/btc/btr/bts m, r address a bit STRING: the register selects a byte far outside the operand (not containable in the scratch window)
  if ((in.n == "bt" || in.n == "btc" || in.n == "btr" || in.n == "bts") && p.memIdx >= 0 && in.ops.size() == 2 && in.ops[1].t == 'r') { p.skip = "bit-string-addressing"; return p; }
  if (g.count(14) || g.count(13)) { p.skip = "address-register-is-operand"; return p; }
  p.gpOps.assign(g.begin(), g.end()); p.vecOps.assign(v.begin(), v.end()); p.kOps.assign(k.begin(), k.end());
  p.ok = true;
  return p;
}

typedef void (*StubFn)();

// assembles prologue + instruction + epilogue into g_code; returns false on assembler error
static bool make_stub(const Inst& in, std::string& err) {
  CodeHolder code;
  code.init(Environment(Arch::kX64));
  x86::Assembler a(&code);
  using namespace x86;
  Label data = a.new_label();
  static const Gp callee[6] = {rbx, rbp, r12, r13, r14, r15};
  for (const Gp& r : callee) a.push(r);
  a.mov(qword_ptr(data, 16), rsp);
  a.mov(rax, uint64_t(uintptr_t(&g_in)));
  a.mov(qword_ptr(rax, 32), rsp);                 // the state's rsp is the real stack pointer (never randomised)
  for (int i = 0; i < 8; i++) a.kmovq(x86::k(i), qword_ptr(rax, 136 + 8 * i));
  for (int i = 0; i < 32; i++) a.vmovdqu64(zmm(i), zmmword_ptr(rax, 256 + 64 * i));
  a.push(qword_ptr(rax, 128));
  a.popfq();
  for (int i = 1; i < 16; i++) if (i != 4) a.mov(gpq(i), qword_ptr(rax, 8 * i));
  a.mov(rax, qword_ptr(rax));
  size_t before = a.offset();
  {
    InstId id = InstAPI::string_to_inst_id(Arch::kX64, in.n.c_str(), in.n.size());
    Operand_ ops[6];
    size_t n = in.ops.size();
    for (size_t j = 0; j < n; j++) if (!build_operand(in.ops[j], ops[j])) { err = "operand"; return false; }
    a.set_inst_options(inst_options(in));
    if (in.k) a.set_extra_reg(x86::k(in.k));
    Error e = a.emit_op_array(id, ops, n);
    a.reset_inst_options(); a.reset_extra_reg();
    if (e != Error::kOk) { err = DebugUtils::error_as_string(e); return false; }
  }
  if (a.offset() == before) { err = "no-bytes"; return false; }
  a.mov(qword_ptr(data, 0), rax);
  a.pushfq();
  a.pop(rax);
  a.mov(qword_ptr(data, 8), rax);
  a.mov(rax, uint64_t(uintptr_t(&g_out)));
  for (int i = 1; i < 16; i++) a.mov(qword_ptr(rax, 8 * i), gpq(i));
  a.mov(rcx, qword_ptr(data, 0)); a.mov(qword_ptr(rax, 0), rcx);
  a.mov(rcx, qword_ptr(data, 8)); a.mov(qword_ptr(rax, 128), rcx);
  for (int i = 0; i < 8; i++) a.kmovq(qword_ptr(rax, 136 + 8 * i), x86::k(i));
  for (int i = 0; i < 32; i++) a.vmovdqu64(zmmword_ptr(rax, 256 + 64 * i), zmm(i));
  a.mov(rsp, qword_ptr(data, 16));
  a.cld();
  a.vzeroupper();
  for (int i = 5; i >= 0; i--) a.pop(callee[i]);
  a.ret();
  a.align(AlignMode::kData, 16);
  a.bind(data);
  for (int i = 0; i < 4; i++) a.dq(0);
  if (code.flatten() != Error::kOk || code.resolve_cross_section_fixups() != Error::kOk) { err = "flatten"; return false; }
  if (code.code_size() > 60000) { err = "too-large"; return false; }
  if (code.relocate_to_base(uint64_t(uintptr_t(g_code))) != Error::kOk) { err = "relocate"; return false; }
  if (code.copy_flattened_data(g_code, 65536) != Error::kOk) { err = "copy"; return false; }
  return true;
}

// one execution: g_in / g_mem_in -> g_out / g_mem.  returns 0 or the signal number
static int run_once() {
  memcpy(g_mem, g_mem_in, kMemSize);
  memset(&g_out, 0, sizeof g_out);
  g_sig = 0;
  if (sigsetjmp(g_jmp, 1) == 0) {
    ((StubFn)g_code)();
    return 0;
  }
  return g_sig ? g_sig : -1;
}

struct Snap { St out; uint8_t mem[kWinLo + kWinHi]; };
static void snap(Snap& s) { s.out = g_out; memcpy(s.mem, g_mem + kMemAt - kWinLo, kWinLo + kWinHi); }

static void random_state(vj::Rng& rng, int sidx, const Plan& p) {
  for (int i = 0; i < 16; i++) {
    uint64_t x = rng.next();
    int mode = sidx % 4;
    if (mode == 1) x &= 0xFF; else if (mode == 2) x = (rng.next() % 3 == 0) ? (x & 0xFFFFFFFFu) : (x & 0x3F); else if (mode == 3 && (x >> 60) < 4) x &= 0xFFFF;
    g_in.gp[i] = x;
  }
  g_in.gp[4] = 0;
  if (p.base >= 0) g_in.gp[p.base] = uint64_t(uintptr_t(g_mem + kMemAt));
  if (p.index >= 0) g_in.gp[p.index] = 0;
  g_in.flags = 0x202 | (rng.next() & kStatus);
  for (int i = 0; i < 8; i++) g_in.k[i] = rng.next();
  for (int i = 0; i < 32; i++) for (int j = 0; j < 64; j += 8) {
    uint64_t x = rng.next();
    if (sidx % 4 == 1) {          // "reasonable" floats / small integers in every lane kind
      uint64_t r = rng.next();
      x = (r & 1) ? (0x3FF0000000000000ull | (x & 0x000FFFFF00000000ull) | 0x3F800000u | (x & 0x7FFFFF)) : (x & 0x0000003F0000003Full);
    }
    memcpy(&g_in.vec[i][j], &x, 8);
  }
  for (int j = 0; j < kMemSize; j += 8) { uint64_t x = rng.next(); memcpy(g_mem_in + j, &x, 8); }
  if (p.index >= 0) g_in.gp[p.index] = 0;     // index contributes 0: the effective address is the base + disp (disp 0 or 64)
}

struct Dep { char t; int id; uint64_t m; uint32_t of; int nf; int lo, hi; uint64_t pt; };

static uint32_t rwflags_of(uint64_t rf) {       // rflags bits -> CpuRWFlags encoding
  uint32_t r = 0;
  if (rf & 0x800) r |= 0x1; if (rf & 0x1) r |= 0x2; if (rf & 0x40) r |= 0x4; if (rf & 0x80) r |= 0x8; if (rf & 0x10) r |= 0x100; if (rf & 0x4) r |= 0x200; if (rf & 0x400) r |= 0x400;
  return r;
}

// compares two executions (base b with input bi, perturbed q with input qi).  `kind`/`id`/`pm` name the perturbed location so that
// pass-through bytes of it are not counted.  Returns (nf, of)
// ptm: bytes of the perturbed register (pt_t 'g' / 'v' / 'k', pt_id) that differ between the two runs and are a mere pass-through of
// the perturbed input in both (the old value shows through: merge-masking, partial writes, conditional writes).  Whether such a byte
// is a RESULT of the instruction depends on the write mask reported for that register - that is judged by the spec.
static void diff_outputs(const Snap& b, const St& bi, const uint8_t* bmi, const Snap& q, const St& qi, const uint8_t* qmi, int& nf, uint32_t& of,
                         char pt_t = 0, int pt_id = -1, uint64_t* ptm = nullptr) {
  nf = 0; of = 0;
  if (ptm) *ptm = 0;
  for (int r = 0; r < 16; r++) {
    if (b.out.gp[r] == q.out.gp[r]) continue;
    for (int y = 0; y < 8; y++) {
      uint8_t ob = uint8_t(b.out.gp[r] >> (8 * y)), oq = uint8_t(q.out.gp[r] >> (8 * y));
      if (ob == oq) continue;
      uint8_t ib = uint8_t(bi.gp[r] >> (8 * y)), iq = uint8_t(qi.gp[r] >> (8 * y));
      if (ob == ib && oq == iq) { if (ptm && pt_t == 'g' && pt_id == r) *ptm |= 1ull << y; continue; }   // pass-through of a perturbed byte
      nf = 1;
    }
  }
  for (int r = 0; r < 8; r++) {
    if (b.out.k[r] == q.out.k[r]) continue;
    for (int y = 0; y < 8; y++) {
      uint8_t ob = uint8_t(b.out.k[r] >> (8 * y)), oq = uint8_t(q.out.k[r] >> (8 * y));
      if (ob == oq) continue;
      uint8_t ib = uint8_t(bi.k[r] >> (8 * y)), iq = uint8_t(qi.k[r] >> (8 * y));
      if (ob == ib && oq == iq) { if (ptm && pt_t == 'k' && pt_id == r) *ptm |= 1ull << y; continue; }
      nf = 1;
    }
  }
  for (int r = 0; r < 32; r++) {
    if (!memcmp(b.out.vec[r], q.out.vec[r], 64)) continue;
    for (int y = 0; y < 64; y++) {
      uint8_t ob = b.out.vec[r][y], oq = q.out.vec[r][y];
      if (ob == oq) continue;
      if (ob == bi.vec[r][y] && oq == qi.vec[r][y]) { if (ptm && pt_t == 'v' && pt_id == r) *ptm |= 1ull << y; continue; }
      nf = 1;
    }
  }
  for (int y = 0; y < kWinLo + kWinHi; y++) {
    if (b.mem[y] == q.mem[y]) continue;
    uint8_t ib = bmi[kMemAt - kWinLo + y], iq = qmi[kMemAt - kWinLo + y];
    if (b.mem[y] == ib && q.mem[y] == iq) continue;
    nf = 1;
  }
  uint64_t fd = (b.out.flags ^ q.out.flags) & (kStatus | 0x400);
  of = rwflags_of(fd);
}

static void exec_one(const Inst& in, const Plan& p, int states, vj::Rng& rng, vj::W& w) {
  std::string err;
  if (!make_stub(in, err)) { w.kv("skip", std::string("assembler:") + err); return; }
  uint64_t gchg[16] = {0}; uint64_t vchg[32] = {0}; uint64_t kchg[8] = {0}; uint32_t fchg = 0; int mlo = 1 << 20, mhi = -(1 << 20);
  std::vector<Dep> deps;
  auto add_dep = [&](char t, int id, uint64_t m, uint32_t of, int nf, int lo, int hi, uint64_t pt) {
    for (Dep& d : deps) if (d.t == t && d.id == id) { if (nf || of) d.m |= m; d.of |= of; d.nf |= nf; d.pt |= pt; d.lo = std::min(d.lo, lo); d.hi = std::max(d.hi, hi); return; }
    deps.push_back(Dep{t, id, (nf || of) ? m : 0, of, nf, lo, hi, pt});
  };
  int good = 0, faults = 0, lastsig = 0, nondet = 0;
  int disp = 0;
  if (p.memIdx >= 0) disp = int(in.ops[p.memIdx].d);
  const int at = kMemAt + disp;      // effective address offset in g_mem
  for (int s = 0; s < states; s++) {
    random_state(rng, s, p);
    St bi = g_in; static uint8_t bmi[kMemSize]; memcpy(bmi, g_mem_in, kMemSize);
    int sg = run_once();
    if (sg) { faults++; lastsig = sg; continue; }
    bi.gp[4] = g_in.gp[4];
    Snap b; snap(b);
    if (run_once()) { faults++; continue; }
    Snap b2; snap(b2);
    if (memcmp(&b.out, &b2.out, sizeof(St)) || memcmp(b.mem, b2.mem, sizeof b.mem)) { nondet = 1; continue; }
    good++;
    // ---- changed ----
    for (int r = 0; r < 16; r++) for (int y = 0; y < 8; y++) if (uint8_t(b.out.gp[r] >> (8 * y)) != uint8_t(bi.gp[r] >> (8 * y))) gchg[r] |= 1ull << y;
    for (int r = 0; r < 8; r++) for (int y = 0; y < 8; y++) if (uint8_t(b.out.k[r] >> (8 * y)) != uint8_t(bi.k[r] >> (8 * y))) kchg[r] |= 1ull << y;
    for (int r = 0; r < 32; r++) for (int y = 0; y < 64; y++) if (b.out.vec[r][y] != bi.vec[r][y]) vchg[r] |= 1ull << y;
    fchg |= rwflags_of((b.out.flags ^ bi.flags) & (kStatus | 0x400));
    for (int y = 0; y < kMemSize; y++) if (g_mem[y] != bmi[y]) { mlo = std::min(mlo, y - at); mhi = std::max(mhi, y - at); }
    // ---- dependencies ----
    auto perturbed = [&](char t, int id, uint64_t m, int lo, int hi) {
      St qi = g_in; static uint8_t qmi[kMemSize]; memcpy(qmi, g_mem_in, kMemSize);
      int sg2 = run_once();
      qi.gp[4] = g_in.gp[4];
      if (!sg2) {
        Snap q; snap(q);
        int nf; uint32_t of; uint64_t pt = 0;
        diff_outputs(b, bi, bmi, q, qi, qmi, nf, of, t, id, &pt);
        if (nf || of || pt) add_dep(t, id, m, of, nf, lo, hi, pt);
      }
      g_in = bi; memcpy(g_mem_in, bmi, kMemSize);
    };
    static const uint64_t groups[4] = {0xFFull, 0xFF00ull, 0xFFFF0000ull, 0xFFFFFFFF00000000ull};
    static const uint64_t gmask[4] = {0x1, 0x2, 0xC, 0xF0};
    auto is_addr = [&](int r) { return r == p.base || r == p.index || r == 4; };
    for (int r : p.gpOps) {
      if (is_addr(r)) continue;
      for (int gq = 0; gq < 4; gq++) {
        uint64_t x = rng.next() & groups[gq];
        if (!x) x = groups[gq] & 0x0101010101010101ull;
        g_in.gp[r] ^= x;
        perturbed('g', r, gmask[gq], 0, 0);
      }
    }
    {   // every GP register that is not an operand, together; individually when that matters
      bool any = false;
      for (int r = 0; r < 16; r++) if (!is_addr(r) && std::find(p.gpOps.begin(), p.gpOps.end(), r) == p.gpOps.end()) { g_in.gp[r] ^= rng.next() | 1; any = true; }
      if (any) {
        St qi = g_in;
        int sg2 = run_once();
        qi.gp[4] = g_in.gp[4];
        bool differs = false;
        if (!sg2) { Snap q; snap(q); int nf; uint32_t of; diff_outputs(b, bi, bmi, q, qi, bmi, nf, of); differs = nf || of; }
        g_in = bi;
        if (differs) for (int r = 0; r < 16; r++) if (!is_addr(r) && std::find(p.gpOps.begin(), p.gpOps.end(), r) == p.gpOps.end()) { g_in.gp[r] ^= rng.next() | 1; perturbed('g', r, 0xFF, 0, 0); }
      }
    }
    for (int r : p.vecOps) {
      for (int j = 0; j < 64; j += 8) { uint64_t x = rng.next() | 1; uint64_t y; memcpy(&y, &g_in.vec[r][j], 8); y ^= x; memcpy(&g_in.vec[r][j], &y, 8); }
      perturbed('v', r, 0, 0, 0);
    }
    {
      bool any = false;
      for (int r = 0; r < 32; r++) if (std::find(p.vecOps.begin(), p.vecOps.end(), r) == p.vecOps.end()) { for (int j = 0; j < 64; j++) g_in.vec[r][j] ^= uint8_t(rng.next() | 1); any = true; }
      if (any) {
        St qi = g_in;
        int sg2 = run_once();
        qi.gp[4] = g_in.gp[4];
        bool differs = false;
        if (!sg2) { Snap q; snap(q); int nf; uint32_t of; diff_outputs(b, bi, bmi, q, qi, bmi, nf, of); differs = nf || of; }
        g_in = bi;
        if (differs) for (int r = 0; r < 32; r++) if (std::find(p.vecOps.begin(), p.vecOps.end(), r) == p.vecOps.end()) { for (int j = 0; j < 64; j++) g_in.vec[r][j] ^= uint8_t(rng.next() | 1); perturbed('v', r, 0, 0, 0); }
      }
    }
    for (int r : p.kOps) { g_in.k[r] ^= rng.next() | 1; perturbed('k', r, 0, 0, 0); }
    {
      bool any = false;
      for (int r = 0; r < 8; r++) if (std::find(p.kOps.begin(), p.kOps.end(), r) == p.kOps.end()) { g_in.k[r] ^= rng.next() | 1; any = true; }
      if (any) {
        St qi = g_in;
        int sg2 = run_once();
        qi.gp[4] = g_in.gp[4];
        bool differs = false;
        if (!sg2) { Snap q; snap(q); int nf; uint32_t of; diff_outputs(b, bi, bmi, q, qi, bmi, nf, of); differs = nf || of; }
        g_in = bi;
        if (differs) for (int r = 0; r < 8; r++) if (std::find(p.kOps.begin(), p.kOps.end(), r) == p.kOps.end()) { g_in.k[r] ^= rng.next() | 1; perturbed('k', r, 0, 0, 0); }
      }
    }
    if (p.memIdx >= 0) {
      int n = p.msz > 0 ? p.msz : 64;
      for (int y = 0; y < n; y++) g_mem_in[at + y] ^= uint8_t(rng.next() | 1);
      perturbed('m', 0, 0, 0, n - 1);
      for (int y = -kWinLo; y < 0; y++) g_mem_in[at + y] ^= uint8_t(rng.next() | 1);
      for (int y = n; y < n + 64; y++) g_mem_in[at + y] ^= uint8_t(rng.next() | 1);
      if (p.msz > 0) perturbed('o', 0, 0, -kWinLo, n + 63);
      else { g_in = bi; memcpy(g_mem_in, bmi, kMemSize); }
    }
  }
  w.kv("st", good).kv("faults", faults).kv("sig", lastsig).kv("nd", nondet);
  w.key("gl").beginArr(); for (int r = 0; r < 16; r++) if (gchg[r]) { w.beginArr().val(r).val((long long)gchg[r]).endArr(); } w.endArr();
  w.key("vl").beginArr(); for (int r = 0; r < 32; r++) if (vchg[r]) { w.beginArr().val(r); for (int j = 0; j < 8; j++) w.val(int((vchg[r] >> (8 * j)) & 0xFF)); w.endArr(); } w.endArr();
  w.key("kl").beginArr(); for (int r = 0; r < 8; r++) if (kchg[r]) { w.beginArr().val(r).val((long long)kchg[r]).endArr(); } w.endArr();
  w.kv("fc", (long long)fchg);
  w.kv("ml", mlo <= mhi ? 1 : 0).kv("mlo", mlo <= mhi ? mlo : 0).kv("mhi", mlo <= mhi ? mhi : 0);
  w.key("dep").beginArr();
  for (const Dep& d : deps) {
    char ts[2] = {d.t, 0};
    w.beginObj().kv("t", (const char*)ts).kv("id", d.id).kv("m", (long long)d.m).kv("of", (long long)d.of).kv("nf", d.nf).kv("lo", d.lo).kv("hi", d.hi);
    w.key("pt").beginArr(); for (int j = 0; j < 8; j++) w.val(int((d.pt >> (8 * j)) & 0xFF)); w.endArr();
    w.endObj();
  }
  w.endArr();
}

static void child_main(const std::vector<vj::Value>& obs, size_t from, size_t to, int states, FILE* out) {
  g_code = (uint8_t*)mmap(nullptr, 65536, PROT_READ | PROT_WRITE | PROT_EXEC, MAP_PRIVATE | MAP_ANONYMOUS, -1, 0);
  if (g_code == MAP_FAILED) { fprintf(stderr, "mmap RWX failed\n"); _exit(3); }
  static uint8_t altstack[1 << 16];
  stack_t ss{}; ss.ss_sp = altstack; ss.ss_size = sizeof altstack; sigaltstack(&ss, nullptr);
  struct sigaction sa{}; sa.sa_handler = on_signal; sa.sa_flags = SA_ONSTACK | SA_NODEFER; sigemptyset(&sa.sa_mask);
  for (int s : {SIGILL, SIGSEGV, SIGFPE, SIGBUS, SIGTRAP}) sigaction(s, &sa, nullptr);
  const CpuFeatures& host = CpuInfo::host().features();
  for (size_t i = from; i < to; i++) {
    alarm(20);
    const vj::Value& v = obs[i];
    vj::W w;
    w.beginObj();
    w.kv("i", (long long)i);
    if (v["val"].i() != 0) { w.kv("skip", "not-validated"); }
    else {
      Inst in = read_request(v);
      Plan p = plan_of(in);
      if (!p.ok) w.kv("skip", p.skip);
      else {
        // host gate: every feature asmjit reports must be present
        InstId id = InstAPI::string_to_inst_id(Arch::kX64, in.n.c_str(), in.n.size());
        Operand_ ops[6]; size_t n = in.ops.size();
        for (size_t j = 0; j < n; j++) build_operand(in.ops[j], ops[j]);
        BaseInst inst(id, inst_options(in)); if (in.k) inst.set_extra_reg(x86::k(in.k));
        CpuFeatures f;
        if (InstAPI::query_features(Arch::kX64, inst, ops, n, &f) != Error::kOk) w.kv("skip", "no-feature-info");
        else if (!host.has_all(f)) w.kv("skip", "host-lacks-reported-feature");
        else {
          vj::Rng rng(vj::env_seed() * 1000003ull + i);
          exec_one(in, p, states, rng, w);
        }
      }
    }
    w.endObj();
    w.emit(out);
    fflush(out);
  }
  alarm(0);
}

int main(int argc, char** argv) {
  if (argc >= 2 && std::string(argv[1]) == "host") {
    const CpuFeatures& host = CpuInfo::host().features();
    vj::W w; w.beginArr();
    CpuFeatures::Iterator it = host.iterator();
    while (it.has_next()) w.val(feature_name(uint32_t(it.next())));
    w.endArr(); w.emit(stdout);
    return 0;
  }
  if (argc < 5 || std::string(argv[1]) != "run") { fprintf(stderr, "usage: rwexec run <obs> <out> <states> [from to] | host\n"); return 2; }
  std::vector<vj::Value> obs = vj::read_ndjson(argv[2]);
  int states = atoi(argv[4]);
  size_t from = argc > 6 ? size_t(atoll(argv[5])) : 0, to = argc > 6 ? std::min(size_t(atoll(argv[6])), obs.size()) : obs.size();
  FILE* out = fopen(argv[3], "w");
  if (!out) { fprintf(stderr, "cannot write %s\n", argv[3]); return 3; }
  fclose(out);
  size_t next = from; int crashes = 0;
  while (next < to) {
    pid_t pid = fork();
    if (pid == 0) {
      FILE* o = fopen(argv[3], "a");
      child_main(obs, next, to, states, o);
      fclose(o);
      _exit(0);
    }
    int status = 0;
    waitpid(pid, &status, 0);
    if (WIFEXITED(status) && WEXITSTATUS(status) == 0) break;
    // the child died (stack smashed by the tested instruction, timeout ...): find the last completed index, mark the next one
    long last = long(next) - 1;
    {
      std::ifstream f(argv[3]); std::string line, lastline;
      while (std::getline(f, line)) if (!line.empty() && line.back() == '}') lastline = line;
      if (!lastline.empty()) { vj::Value v = vj::parse(lastline); last = std::max(last, long(v["i"].i())); }
    }
    size_t culprit = size_t(last + 1);
    FILE* o = fopen(argv[3], "a");
    fprintf(o, "\n{\"i\":%zu,\"skip\":\"child-died-status-%d\"}\n", culprit, status);
    fclose(o);
    next = culprit + 1;
    if (++crashes > 500) { fprintf(stderr, "too many child crashes\n"); return 4; }
  }
  fprintf(stderr, "child restarts=%d\n", crashes);
  return 0;
}
