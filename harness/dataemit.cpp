// X03 harness: data / alignment / constant-pool emission through the real x86::Assembler and a64::Assembler.
//   dataemit script <scripts.ndjson> <trace.ndjson>     scripts: {"arch":"x64","opt":false,"ops":[["Attach"],["Align",0,16],...]}
//                                                       (op format = the `hist` entries of spec/code/DataEmitImpl.tla)
//   dataemit random <trace.ndjson> <executions> <steps> seeded random programs (VERIF_SEED)
//   dataemit sweep  <trace.ndjson> <level>              align(mode, alignment) at every gap, every arch / option
//
// Every public call is logged as one event: arguments, result, the bytes found between the old and the new
// offset() ("app"), and the projection after the call (offset, buffer size, capacity, relocation / fixup counts,
// checksum of the whole section, the whole section when it is small).  The projection is read through the public
// API only (offset(), buffer_data(), buffer_capacity(), Section::buffer(), CodeHolder label / relocation queries).
// At the end of an execution every section image and the label table are logged ("Images", via "asm"), and, when
// the program is expressible through a Builder, the same successful calls are recorded by a Builder of the same
// architecture and serialized by finalize() into a second CodeHolder whose images are logged too (via "builder").
// DataEmitTrace.tla decides; nothing is judged here.
#include <asmjit/core.h>
#include <asmjit/x86.h>
#include <asmjit/a64.h>
#include <asmjit/core/builder.h>
#include <memory>
#include "vjson.h"

using namespace asmjit;

static const char* err_name(Error e) { return e == Error::kOk ? "Ok" : DebugUtils::error_as_string(e); }

static const size_t kImgMax = 160;        // sections up to this size are logged completely with every event
static const size_t kMaxTotal = 1u << 20; // embed_data_array calls are executed only if they overflow size_t or stay below this

static void w_limbs(vj::W& w, const char* k, uint64_t v) {
  w.key(k).beginArr();
  for (int i = 0; i < 8; i++) w.val((long long)((v >> (8 * i)) & 0xFF));
  w.endArr();
}
static uint64_t limbs_of(const vj::Value& a) {
  uint64_t v = 0;
  for (size_t i = 0; i < a.arr.size() && i < 8; i++) v |= uint64_t(a.arr[i].i() & 0xFF) << (8 * i);
  return v;
}
static bool mul3_overflows(uint64_t a, uint64_t b, uint64_t c, uint64_t* out) {
  unsigned __int128 p = (unsigned __int128)a * b;
  if (p >> 64) return true;
  p = p * c;
  if (p >> 64) return true;
  *out = (uint64_t)p;
  return false;
}

// item size by type id, only to size the source array handed to embed_data_array (never logged as a result)
static uint32_t harness_type_size(uint32_t tid, uint32_t reg_size) {
  if (tid == 32 || tid == 33) return reg_size;
  static const struct { uint32_t lo, hi, sz; } tab[] = {
    {34, 35, 1}, {36, 37, 2}, {38, 39, 4}, {40, 41, 8}, {42, 42, 4}, {43, 43, 8}, {44, 44, 10}, {45, 45, 1}, {46, 46, 2},
    {47, 47, 4}, {48, 48, 8}, {49, 49, 4}, {50, 50, 8}, {51, 60, 4}, {61, 70, 8}, {71, 80, 16}, {81, 90, 32}, {91, 100, 64}};
  for (auto& t : tab) if (tid >= t.lo && tid <= t.hi) return t.sz;
  return 0;
}

enum OpKind { OAlign, OEmbed, OArray, OPool, OEmbedLabel, ODelta, ONewLabel, OBind, OSection, OInst, OComment };
struct Replay {                       // a successful call, for the Builder run
  OpKind k;
  uint32_t mode = 0, alignment = 0, tid = 0, sec = 0, inst = 0;
  size_t l = 0, b = 0, sz = 0, ic = 0, rc = 0;
  std::vector<uint8_t> data;
  std::vector<std::vector<uint8_t>> items;
  std::string via;
};

struct Exec {
  FILE* out;
  vj::W w;
  vj::Rng* rng;
  Arch arch;
  bool is_x86;
  uint32_t reg_size;
  bool opt;
  CodeHolder code;
  CodeHolder foreign;
  x86::Assembler xa;
  a64::Assembler aa;
  BaseAssembler* a;
  bool attached = false;
  std::vector<Label> labels;
  std::vector<Section*> secs;
  std::vector<void*> ext;                 // external (fixed) buffers
  std::vector<Replay> calls;
  std::vector<std::string> sec_kinds;
  bool builder_ok = true;
  unsigned nsec_names = 0;

  Exec(FILE* f, vj::Rng* r, const std::string& arch_name, bool opt_) : out(f), rng(r), opt(opt_) {
    arch = arch_name == "x86" ? Arch::kX86 : arch_name == "x64" ? Arch::kX64 : Arch::kAArch64;
    is_x86 = arch != Arch::kAArch64;
    reg_size = arch == Arch::kX86 ? 4 : 8;
    code.init(Environment(arch));
    foreign.init(Environment(arch));
    a = is_x86 ? static_cast<BaseAssembler*>(&xa) : static_cast<BaseAssembler*>(&aa);
    if (opt) a->add_encoding_options(EncodingOptions::kOptimizedAlign);
    secs.push_back(code.text_section());
    sec_kinds.push_back("dyn");
    w.beginObj().kv("e", "Reset").kv("arch", arch_name).kv("opt", opt).kv("cap", code.text_section()->buffer().capacity()).endObj().emit(out);
  }
  ~Exec() {
    code.reset();
    for (void* p : ext) free(p);
  }

  // ---- projection -----------------------------------------------------------------------------------------
  size_t cur_index() const {
    for (size_t i = 0; i < secs.size(); i++) if (secs[i] == a->current_section()) return i + 1;
    return 0;
  }
  // placeholders of embed_label / embed_label_delta that were not overwritten since: their bytes count as 0 in the
  // checksum (their value is C03/C04's; it may legitimately change when a label gets bound)
  struct Slot { size_t sec, lo, hi; };
  std::vector<Slot> slots;
  void clobber(size_t sec, size_t lo, size_t hi) {
    if (lo >= hi) return;
    for (size_t i = 0; i < slots.size();)
      if (slots[i].sec == sec && slots[i].lo < hi && lo < slots[i].hi) slots.erase(slots.begin() + i); else i++;
  }
  uint32_t digest(size_t sec, const uint8_t* p, size_t n) const {
    uint64_t s = 0;
    for (size_t i = 0; i < n; i++) s += uint64_t(p[i]) * ((i % 251) + 1);
    for (const Slot& sl : slots)
      if (sl.sec == sec) for (size_t i = sl.lo; i < sl.hi && i < n; i++) s -= uint64_t(p[i]) * ((i % 251) + 1);
    return uint32_t(s % 65521);
  }
  void post() {
    Section* s = a->current_section();
    const CodeBuffer& cb = s->buffer();
    size_t size = cb.size();
    bool coh = a->buffer_data() == cb.data() && a->buffer_capacity() == cb.capacity() &&
               a->remaining_space() == cb.capacity() - a->offset() && a->buffer_ptr() == a->buffer_data() + a->offset() &&
               a->buffer_end() == a->buffer_data() + a->buffer_capacity();
    if (size > 64 * kMaxTotal) { w.kv("off", -1).kv("size", -1).kv("cap", -1).kv("coh", false).kv("nrel", 0).kv("nfix", 0); return; }
    w.kv("off", a->offset()).kv("size", size).kv("cap", cb.capacity()).kv("coh", coh)
     .kv("nrel", code.reloc_entries().size()).kv("nfix", code.unresolved_fixup_count())
     .kv("dig", digest(cur_index(), cb.data(), size));
    if (size <= kImgMax) w.bytes("img", cb.data(), size);
  }
  void app_bytes(size_t off0) {
    size_t off1 = a->offset();
    clobber(cur_index(), off0, off1);
    // (a window larger than anything this harness asks for is not dumped: the reported offset alone gets it rejected)
    if (off1 >= off0 && off1 <= a->buffer_capacity() && off1 - off0 <= 4 * kMaxTotal) w.bytes("app", a->buffer_data() + off0, off1 - off0);
    else w.bytes("app", nullptr, 0);
  }
  void label_state(const char* k, const Label& L) {
    w.key(k).beginArr();
    if (code.is_label_valid(L) && code.is_label_bound(L)) {
      uint32_t sid = code.label_entry_of(L).section_id();
      size_t idx = 0;
      for (size_t i = 0; i < secs.size(); i++) if (secs[i]->section_id() == sid) idx = i + 1;
      w.val(true).val((long long)idx).val((long long)code.label_offset(L));
    } else {
      w.val(false).val(0).val(0);
    }
    w.endArr();
  }
  Label label_of(size_t l) const {           // 1-based index; anything else = a label id the CodeHolder never issued
    if (l >= 1 && l <= labels.size()) return labels[l - 1];
    Label L;
    L.set_id(uint32_t(labels.size() + 1000));
    return L;
  }

  // ---- calls ----------------------------------------------------------------------------------------------
  void detached(const char* op) {
    Error e = Error::kOk;
    std::string o = op;
    uint8_t b[4] = {1, 2, 3, 4};
    Arena ar{1024};
    ConstPool pool{ar};
    if (o == "align") e = a->align(AlignMode::kCode, 16);
    else if (o == "embed") e = a->embed(b, 4);
    else if (o == "embed_data_array") e = a->embed_data_array(TypeId::kUInt8, b, 4, 1);
    else if (o == "embed_const_pool") e = a->embed_const_pool(Label(), pool);
    else if (o == "embed_label") e = a->embed_label(Label(), 4);
    else if (o == "embed_label_delta") e = a->embed_label_delta(Label(), Label(), 4);
    else if (o == "bind") e = a->bind(Label());
    else if (o == "set_offset") e = a->set_offset(0);
    else if (o == "comment") e = a->comment("x");
    else return;
    w.beginObj().kv("e", "Detached").kv("op", op).kv("r", err_name(e)).endObj().emit(out);
  }
  void attach() {
    Error e = code.attach(a);
    attached = e == Error::kOk;
    w.beginObj().kv("e", "Attach").kv("r", err_name(e));
    if (attached) post();
    w.endObj().emit(out);
  }
  void set_opt(bool on) {
    if (on) a->add_encoding_options(EncodingOptions::kOptimizedAlign);
    else a->clear_encoding_options(EncodingOptions::kOptimizedAlign);
    builder_ok = false;                   // a Builder applies its encoding options to the whole serialization
    w.beginObj().kv("e", "SetOpt").kv("on", a->has_encoding_option(EncodingOptions::kOptimizedAlign)).endObj().emit(out);
  }
  void align(uint32_t mode, uint32_t alignment) {
    size_t off0 = a->offset();
    Error e = a->align(AlignMode(mode), alignment);
    w.beginObj().kv("e", "Align").kv("mode", mode).kv("ahi", alignment >> 16).kv("alo", alignment & 0xFFFFu).kv("r", err_name(e));
    app_bytes(off0); post();
    w.endObj().emit(out);
    if (e == Error::kOk) { Replay r; r.k = OAlign; r.mode = mode; r.alignment = alignment; calls.push_back(r); }
  }
  void embed(const std::vector<uint8_t>& d) {
    size_t off0 = a->offset();
    std::vector<uint8_t> copy(d);                     // exact-size heap copy: an over-read is an ASan report
    Error e = a->embed(copy.data(), copy.size());
    w.beginObj().kv("e", "Embed").bytes("data", d.data(), d.size()).kv("r", err_name(e));
    app_bytes(off0); post();
    w.endObj().emit(out);
    if (e == Error::kOk) { Replay r; r.k = OEmbed; r.data = d; calls.push_back(r); }
  }
  // via: "array" or one of the typed helpers (one item of that type); item = bytes of one item (helpers: the value)
  void embed_array(const std::string& via, uint32_t tid, const std::vector<uint8_t>& item, uint64_t ic, uint64_t rc) {
    uint32_t ts = harness_type_size(tid, reg_size);
    uint64_t total = 0;
    bool ovf = mul3_overflows(ic, ts ? ts : 1, rc, &total);
    if (!ovf && total > kMaxTotal && rc != 0 && ic != 0) return;      // would really allocate: not executed
    size_t n_items = (ic <= 64) ? size_t(ic) : 1;
    std::vector<uint8_t> arr;
    for (size_t i = 0; i < n_items; i++) arr.insert(arr.end(), item.begin(), item.end());
    if (arr.empty()) arr.push_back(0);
    size_t off0 = a->offset();
    Error e;
    uint64_t v = 0;
    memcpy(&v, item.data(), item.size() < 8 ? item.size() : 8);
    if (via == "array") e = a->embed_data_array(TypeId(tid), arr.data(), size_t(ic), size_t(rc));
    else if (via == "int8") e = a->embed_int8(int8_t(v), size_t(rc));
    else if (via == "uint8") e = a->embed_uint8(uint8_t(v), size_t(rc));
    else if (via == "int16") e = a->embed_int16(int16_t(v), size_t(rc));
    else if (via == "uint16") e = a->embed_uint16(uint16_t(v), size_t(rc));
    else if (via == "int32") e = a->embed_int32(int32_t(v), size_t(rc));
    else if (via == "uint32") e = a->embed_uint32(uint32_t(v), size_t(rc));
    else if (via == "int64") e = a->embed_int64(int64_t(v), size_t(rc));
    else if (via == "uint64") e = a->embed_uint64(uint64_t(v), size_t(rc));
    else if (via == "float") { float f; memcpy(&f, &v, 4); e = a->embed_float(f, size_t(rc)); }
    else if (via == "double") { double d; memcpy(&d, &v, 8); e = a->embed_double(d, size_t(rc)); }
    else if (via == "db" && is_x86) e = xa.db(uint8_t(v), size_t(rc));
    else if (via == "dw" && is_x86) e = xa.dw(uint16_t(v), size_t(rc));
    else if (via == "dd" && is_x86) e = xa.dd(uint32_t(v), size_t(rc));
    else if (via == "dq" && is_x86) e = xa.dq(uint64_t(v), size_t(rc));
    else return;
    w.beginObj().kv("e", "EmbedArray").kv("via", via).kv("tid", tid).bytes("item", item.data(), item.size());
    if (ic <= 64) w.bytes("data", arr.data(), ic ? arr.size() : 0); else w.bytes("data", nullptr, 0);
    w_limbs(w, "ic", ic); w_limbs(w, "rc", rc);
    w.kv("r", err_name(e));
    app_bytes(off0); post();
    w.endObj().emit(out);
    if (e == Error::kOk && ic <= 64 && rc <= kMaxTotal) {
      Replay r; r.k = OArray; r.via = via; r.tid = tid; r.data = item; r.ic = size_t(ic); r.rc = size_t(rc); calls.push_back(r);
    }
  }
  void embed_const_pool(size_t l, const std::vector<std::vector<uint8_t>>& items) {
    Arena ar{4096};
    ConstPool pool{ar};
    for (auto& it : items) { size_t o; (void)pool.add(it.data(), it.size(), Out(o)); }
    std::vector<uint8_t> image(pool.size() + 1, 0xEE);
    pool.fill(image.data());
    Label L = label_of(l);
    size_t off0 = a->offset();
    bool was_bound = code.is_label_valid(L) && code.is_label_bound(L);
    Error e = a->embed_const_pool(L, pool);
    w.beginObj().kv("e", "EmbedConstPool").kv("lab", (long long)(l >= 1 && l <= labels.size() ? l : 0))
     .kv("palign", pool.alignment()).bytes("image", image.data(), pool.size()).kv("r", err_name(e));
    w.key("items").beginArr();
    for (auto& it : items) { w.beginArr(); for (uint8_t x : it) w.val((long long)x); w.endArr(); }
    w.endArr();
    label_state("lb", L);
    app_bytes(off0); post();
    w.endObj().emit(out);
    if (e == Error::kOk) { Replay r; r.k = OPool; r.l = l; r.items = items; calls.push_back(r); }
    else if (a->offset() != off0 || (!was_bound && code.is_label_valid(L) && code.is_label_bound(L)))
      builder_ok = false;               // a refusal that left a prefix of its steps done is not replayed
  }
  void embed_label(size_t l, size_t sz) {
    Label L = label_of(l);
    size_t off0 = a->offset();
    Error e = a->embed_label(L, sz);
    w.beginObj().kv("e", "EmbedLabel").kv("lab", (long long)(l >= 1 && l <= labels.size() ? l : 0)).kv("sz", sz).kv("r", err_name(e));
    app_bytes(off0);
    if (e == Error::kOk) slots.push_back(Slot{cur_index(), off0, a->offset()});
    post();
    w.endObj().emit(out);
    if (e == Error::kOk) { Replay r; r.k = OEmbedLabel; r.l = l; r.sz = sz; calls.push_back(r); }
  }
  void embed_label_delta(size_t l, size_t b, size_t sz) {
    Label L = label_of(l), B = label_of(b);
    size_t off0 = a->offset();
    Error e = a->embed_label_delta(L, B, sz);
    w.beginObj().kv("e", "EmbedLabelDelta").kv("lab", (long long)(l >= 1 && l <= labels.size() ? l : 0))
     .kv("base", (long long)(b >= 1 && b <= labels.size() ? b : 0)).kv("sz", sz).kv("r", err_name(e));
    app_bytes(off0);
    if (e == Error::kOk) slots.push_back(Slot{cur_index(), off0, a->offset()});
    post();
    w.endObj().emit(out);
    if (e == Error::kOk) { Replay r; r.k = ODelta; r.l = l; r.b = b; r.sz = sz; calls.push_back(r); }
  }
  void new_label() {
    Label L = a->new_label();
    if (!code.is_label_valid(L)) return;
    labels.push_back(L);
    w.beginObj().kv("e", "NewLabel").kv("n", labels.size()).endObj().emit(out);
    Replay r; r.k = ONewLabel; calls.push_back(r);
  }
  void bind(size_t l) {
    Label L = label_of(l);
    Error e = a->bind(L);
    w.beginObj().kv("e", "Bind").kv("lab", (long long)(l >= 1 && l <= labels.size() ? l : 0)).kv("r", err_name(e));
    post();
    w.endObj().emit(out);
    if (e == Error::kOk) { Replay r; r.k = OBind; r.l = l; calls.push_back(r); }
  }
  void set_offset(size_t o) {
    Error e = a->set_offset(o);
    w.beginObj().kv("e", "SetOffset").kv("o", o).kv("r", err_name(e));
    post();
    w.endObj().emit(out);
    if (e == Error::kOk) builder_ok = false;          // a Builder has no cursor to rewind
  }
  void new_section(const std::string& kind, size_t capreq) {
    char name[16];
    snprintf(name, sizeof name, ".s%u", ++nsec_names);
    Section* s = nullptr;
    Error e = code.new_section(Out(s), name, SIZE_MAX, SectionFlags::kNone, 1, 0);
    if (e != Error::kOk || !s) return;
    if (kind == "fix") {
      void* p = malloc(capreq ? capreq : 1);
      memset(p, 0xCD, capreq ? capreq : 1);
      ext.push_back(p);
      CodeBuffer& cb = s->buffer();
      cb._data = static_cast<uint8_t*>(p);
      cb._size = 0;
      cb._capacity = capreq;
      cb._flags = CodeBufferFlags::kIsExternal | CodeBufferFlags::kIsFixed;
      builder_ok = false;
    } else if (kind == "res") {
      (void)code.reserve_buffer(&s->buffer(), capreq);
    }
    secs.push_back(s);
    sec_kinds.push_back(kind);
    w.beginObj().kv("e", "NewSection").kv("kind", kind).kv("capreq", capreq).kv("cap", s->buffer().capacity()).kv("n", secs.size()).endObj().emit(out);
  }
  void section(size_t sidx) {
    Section* s = (sidx >= 1 && sidx <= secs.size()) ? secs[sidx - 1] : foreign.text_section();
    size_t cur_before = cur_index();
    Error e = a->section(s);
    w.beginObj().kv("e", "Section").kv("sec", (long long)(sidx >= 1 && sidx <= secs.size() ? sidx : 0)).kv("r", err_name(e));
    post();
    w.endObj().emit(out);
    if (e == Error::kOk) {
      // A Builder groups nodes by section (in order of first use) and serializes section by section: a program that
      // returns to a section it has left is emitted in a different call order, which legitimately changes what
      // embed_label_delta knows about its labels.  Only programs whose call order is the Builder's order are replayed.
      if (visited.size() < secs.size() + 1) visited.resize(secs.size() + 1, false);
      if (sidx != cur_before && visited[sidx]) builder_ok = false;
      visited[sidx] = true;
      Replay r; r.k = OSection; r.sec = uint32_t(sidx); calls.push_back(r);
    }
  }
  std::vector<bool> visited{false, true};
  void reserve(size_t sidx, size_t n) {
    if (sidx < 1 || sidx > secs.size()) return;
    Error e = code.reserve_buffer(&secs[sidx - 1]->buffer(), n);
    w.beginObj().kv("e", "Reserve").kv("sec", sidx).kv("n", n).kv("r", err_name(e)).kv("scap", secs[sidx - 1]->buffer().capacity());
    post();
    w.endObj().emit(out);
  }
  void inst(uint32_t which) {
    size_t off0 = a->offset();
    Error e;
    if (is_x86) e = which % 3 == 0 ? xa.nop() : which % 3 == 1 ? xa.ret() : xa.int3();
    else e = which % 2 == 0 ? aa.nop() : aa.ret(a64::x30);
    w.beginObj().kv("e", "Inst").kv("which", which).kv("r", err_name(e));
    app_bytes(off0); post();
    w.endObj().emit(out);
    if (e == Error::kOk) { Replay r; r.k = OInst; r.inst = which; calls.push_back(r); }
  }
  void comment() {
    Error e = a->comment("X03 comment");
    w.beginObj().kv("e", "Comment").kv("r", err_name(e));
    post();
    w.endObj().emit(out);
    if (e == Error::kOk) { Replay r; r.k = OComment; calls.push_back(r); }
  }

  // ---- whole-state observations ---------------------------------------------------------------------------
  void images(const char* via, CodeHolder& c, const std::vector<Section*>& ss, const std::vector<Label>& ls, Error e) {
    w.beginObj().kv("e", "Images").kv("via", via).kv("r", err_name(e));
    w.key("imgs").beginArr();
    for (Section* s : ss) {
      w.beginArr();
      if (s->buffer().size() <= 8 * kMaxTotal)
        for (size_t i = 0; i < s->buffer().size(); i++) w.val((long long)s->buffer().data()[i]);
      w.endArr();
    }
    w.endArr();
    w.key("labs").beginArr();
    for (const Label& L : ls) {
      w.beginArr();
      if (c.is_label_bound(L)) {
        uint32_t sid = c.label_entry_of(L).section_id();
        size_t idx = 0;
        for (size_t i = 0; i < ss.size(); i++) if (ss[i]->section_id() == sid) idx = i + 1;
        w.val(true).val((long long)idx).val((long long)c.label_offset(L));
      } else w.val(false).val(0).val(0);
      w.endArr();
    }
    w.endArr();
    w.endObj().emit(out);
  }
  void snapshot() { if (attached) images("asm", code, secs, labels, Error::kOk); }

  // the successful calls through a Builder -> finalize() on a fresh CodeHolder
  void builder_run() {
    if (!attached || !builder_ok) return;
    CodeHolder c2;
    c2.init(Environment(arch));
    x86::Builder xb;
    a64::Builder ab;
    BaseBuilder* b = is_x86 ? static_cast<BaseBuilder*>(&xb) : static_cast<BaseBuilder*>(&ab);
    if (opt) b->add_encoding_options(EncodingOptions::kOptimizedAlign);
    Error e = c2.attach(b);
    std::vector<Section*> ss{c2.text_section()};
    for (size_t i = 1; i < secs.size() && e == Error::kOk; i++) {
      Section* s = nullptr;
      char name[16];
      snprintf(name, sizeof name, ".s%u", unsigned(i));
      e = c2.new_section(Out(s), name, SIZE_MAX, SectionFlags::kNone, 1, 0);
      ss.push_back(s);
    }
    std::vector<Label> ls;
    std::vector<std::unique_ptr<Arena>> arenas;
    unsigned n = 0;
    for (const Replay& r : calls) {
      if (e != Error::kOk) break;
      if ((n++ % 5) == 2) {                     // markers "completely ignored by the code builder"
        SentinelNode* sn = nullptr;
        if (b->new_node_t<SentinelNode>(Out(sn)) == Error::kOk) b->add_node(sn);
      }
      auto L = [&](size_t i) { return ls[i - 1]; };
      switch (r.k) {
        case OAlign: e = b->align(AlignMode(r.mode), r.alignment); break;
        case OEmbed: e = b->embed(r.data.data(), r.data.size()); break;
        case OArray: {
          std::vector<uint8_t> arr;
          for (size_t i = 0; i < r.ic; i++) arr.insert(arr.end(), r.data.begin(), r.data.end());
          if (arr.empty()) arr.push_back(0);
          uint64_t v = 0;
          memcpy(&v, r.data.data(), r.data.size() < 8 ? r.data.size() : 8);
          if (r.via == "array") e = b->embed_data_array(TypeId(r.tid), arr.data(), r.ic, r.rc);
          else if (r.via == "int8") e = b->embed_int8(int8_t(v), r.rc);
          else if (r.via == "uint8") e = b->embed_uint8(uint8_t(v), r.rc);
          else if (r.via == "int16") e = b->embed_int16(int16_t(v), r.rc);
          else if (r.via == "uint16") e = b->embed_uint16(uint16_t(v), r.rc);
          else if (r.via == "int32") e = b->embed_int32(int32_t(v), r.rc);
          else if (r.via == "uint32") e = b->embed_uint32(uint32_t(v), r.rc);
          else if (r.via == "int64") e = b->embed_int64(int64_t(v), r.rc);
          else if (r.via == "uint64") e = b->embed_uint64(uint64_t(v), r.rc);
          else if (r.via == "float") { float f; memcpy(&f, &v, 4); e = b->embed_float(f, r.rc); }
          else if (r.via == "double") { double d; memcpy(&d, &v, 8); e = b->embed_double(d, r.rc); }
          else if (r.via == "db") e = xb.db(uint8_t(v), r.rc);
          else if (r.via == "dw") e = xb.dw(uint16_t(v), r.rc);
          else if (r.via == "dd") e = xb.dd(uint32_t(v), r.rc);
          else if (r.via == "dq") e = xb.dq(uint64_t(v), r.rc);
          break;
        }
        case OPool: {
          arenas.emplace_back(new Arena(4096));
          ConstPool pool{*arenas.back()};
          for (auto& it : r.items) { size_t o; (void)pool.add(it.data(), it.size(), Out(o)); }
          e = b->embed_const_pool(L(r.l), pool);
          break;
        }
        case OEmbedLabel: e = b->embed_label(L(r.l), r.sz); break;
        case ODelta: e = b->embed_label_delta(L(r.l), L(r.b), r.sz); break;
        case ONewLabel: ls.push_back(b->new_label()); break;
        case OBind: e = b->bind(L(r.l)); break;
        case OSection: e = b->section(ss[r.sec - 1]); break;
        case OInst:
          if (is_x86) e = r.inst % 3 == 0 ? xb.nop() : r.inst % 3 == 1 ? xb.ret() : xb.int3();
          else e = r.inst % 2 == 0 ? ab.nop() : ab.ret(a64::x30);
          break;
        case OComment: e = b->comment("X03 comment"); break;
      }
    }
    if (e == Error::kOk) e = b->finalize();
    images("builder", c2, ss, ls, e);
  }
  void finish() {
    snapshot();
    builder_run();
  }
};

// ---------------------------------------------------------------------------------------------------------
// script mode: the op format of DataEmitImpl.tla's `hist`
// ---------------------------------------------------------------------------------------------------------
static std::vector<uint8_t> bytes_of(const vj::Value& v) {
  std::vector<uint8_t> d;
  for (auto& b : v.arr) d.push_back(uint8_t(b.i()));
  return d;
}
static void run_op(Exec& ex, const vj::Value& op) {
  const std::string& k = op[0].s();
  if (k == "Attach") ex.attach();
  else if (k == "Detached") { if (!ex.attached) ex.detached(op[1].s().c_str()); }
  else if (!ex.attached) return;
  else if (k == "SetOpt") ex.set_opt(op[1].b);
  else if (k == "Align") ex.align(uint32_t(op[1].i()), uint32_t(op[2].i()));
  else if (k == "Embed") ex.embed(bytes_of(op[1]));
  else if (k == "EmbedArray") ex.embed_array(op.size() > 5 ? op[5].s() : "array", uint32_t(op[1].i()), bytes_of(op[2]), limbs_of(op[3]), limbs_of(op[4]));
  else if (k == "EmbedConstPool") {
    size_t palign = size_t(op[2][0].i());
    std::vector<uint8_t> image = bytes_of(op[2][1]);
    std::vector<std::vector<uint8_t>> items;
    if (palign) for (size_t i = 0; i + palign <= image.size(); i += palign) items.emplace_back(image.begin() + i, image.begin() + i + palign);
    ex.embed_const_pool(size_t(op[1].i()), items);
  }
  else if (k == "Pool") {
    std::vector<std::vector<uint8_t>> items;
    for (auto& it : op[2].arr) items.push_back(bytes_of(it));
    ex.embed_const_pool(size_t(op[1].i()), items);
  }
  else if (k == "Snap") ex.snapshot();
  else if (k == "EmbedLabel") ex.embed_label(size_t(op[1].i()), size_t(op[2].i()));
  else if (k == "EmbedLabelDelta") ex.embed_label_delta(size_t(op[1].i()), size_t(op[2].i()), size_t(op[3].i()));
  else if (k == "Bind") ex.bind(size_t(op[1].i()));
  else if (k == "NewLabel") ex.new_label();
  else if (k == "SetOffset") ex.set_offset(size_t(op[1].i()));
  else if (k == "NewSection") ex.new_section(op[1].s(), size_t(op[2].i()));
  else if (k == "Section") ex.section(size_t(op[1].i()));
  else if (k == "Reserve") ex.reserve(size_t(op[1].i()), size_t(op[2].i()));
  else if (k == "Inst") ex.inst(op.size() > 1 ? uint32_t(op[1].i()) : 1);
  else if (k == "Comment") ex.comment();
}

// ---------------------------------------------------------------------------------------------------------
// random mode
// ---------------------------------------------------------------------------------------------------------
static std::vector<uint8_t> rand_bytes(vj::Rng& r, size_t n) {
  std::vector<uint8_t> d(n);
  unsigned mode = unsigned(r.below(4));
  for (size_t i = 0; i < n; i++) d[i] = mode == 0 ? uint8_t(1 + r.below(3)) : mode == 1 ? uint8_t(0x90) : uint8_t(r.below(256));
  return d;
}
static uint32_t rand_alignment(vj::Rng& r) {
  static const uint32_t common[] = {2, 4, 8, 16, 32, 64};
  static const uint32_t odd[] = {0, 1, 3, 5, 6, 7, 12, 24, 48, 63, 65, 96, 128, 256, 4096, 65536, 0x10000u + 16, 0x80000000u, 0xFFFFFFFFu, 0xFFFFFFF0u};
  unsigned c = unsigned(r.below(100));
  if (c < 70) return common[r.below(6)];
  if (c < 92) return odd[r.below(sizeof odd / sizeof odd[0])];
  return uint32_t(r.below(70));
}
static uint64_t rand_count(vj::Rng& r, bool allow_huge) {
  unsigned c = unsigned(r.below(100));
  if (c < 8) return 0;
  if (c < 70) return 1 + r.below(4);
  if (c < 88 || !allow_huge) return 1 + r.below(24);
  static const uint64_t huge[] = {1ull << 32, 1ull << 61, 1ull << 62, 1ull << 63, ~0ull, ~0ull / 2 + 1, ~0ull / 3 + 1, (1ull << 56) + 1, 0x0101010101010101ull};
  return huge[r.below(sizeof huge / sizeof huge[0])];
}

static void random_exec(FILE* out, vj::Rng& r, unsigned steps) {
  static const char* archs[] = {"x86", "x64", "a64"};
  std::string arch = archs[r.below(3)];
  bool opt = r.chance(1, 2);
  Exec ex(out, &r, arch, opt);
  if (r.chance(1, 6)) {
    static const char* ops[] = {"align", "embed", "embed_data_array", "embed_const_pool", "embed_label", "embed_label_delta", "bind", "set_offset", "comment"};
    for (const char* o : ops) if (r.chance(2, 3)) ex.detached(o);
  }
  ex.attach();
  for (unsigned k = unsigned(r.below(4)); k > 0; k--) ex.new_label();
  // flavour of the execution: plain (Builder-expressible), with rewinds, with fixed / reserved sections
  unsigned flavour = unsigned(r.below(10));       // 0..4 plain, 5..6 rewind, 7..8 fixed, 9 everything
  bool rewind = flavour == 5 || flavour == 6 || flavour == 9;
  bool fixed = flavour >= 7;
  unsigned n = 4 + unsigned(r.below(steps));
  for (unsigned i = 0; i < n; i++) {
    unsigned c = unsigned(r.below(100));
    size_t nl = ex.labels.size();
    auto any_label = [&]() -> size_t { return r.chance(1, 12) ? nl + 1 + r.below(3) : (nl ? 1 + r.below(nl) : 1); };
    if (c < 22) {
      uint32_t mode = r.chance(1, 14) ? uint32_t(3 + r.below(253)) : uint32_t(r.below(3));
      ex.align(mode, rand_alignment(r));
    }
    else if (c < 36) ex.embed(rand_bytes(r, r.chance(1, 10) ? 0 : 1 + r.below(r.chance(1, 8) ? 40 : 11)));
    else if (c < 52) {
      static const char* vias[] = {"array", "array", "array", "int8", "uint8", "int16", "uint16", "int32", "uint32", "int64", "uint64", "float", "double", "db", "dw", "dd", "dq"};
      static const uint32_t via_tid[] = {0, 0, 0, 34, 35, 36, 37, 38, 39, 40, 41, 42, 43, 35, 37, 39, 41};
      size_t vi = r.below(17);
      std::string via = vias[vi];
      if (!ex.is_x86 && via[0] == 'd' && via.size() == 2) via = "array";
      uint32_t tid;
      uint64_t ic = 1;
      if (via == "array") {
        unsigned t = unsigned(r.below(100));
        tid = t < 70 ? uint32_t(32 + r.below(69)) : t < 80 ? uint32_t(r.below(32)) : t < 90 ? uint32_t(101 + r.below(155)) : (r.chance(1, 2) ? 32 : 33);
        ic = rand_count(r, true);
      } else tid = via_tid[vi];
      uint32_t ts = harness_type_size(tid, ex.reg_size);
      ex.embed_array(via, tid, rand_bytes(r, ts ? ts : 1), ic, rand_count(r, true));
    }
    else if (c < 60) {
      std::vector<std::vector<uint8_t>> items;
      unsigned ni = unsigned(r.below(4));
      static const size_t sizes[] = {1, 2, 4, 8, 16, 32, 64};
      for (unsigned k = 0; k < ni; k++) items.push_back(rand_bytes(r, sizes[r.below(r.chance(1, 6) ? 7 : 4)]));
      ex.embed_const_pool(any_label(), items);
    }
    else if (c < 68) { static const size_t szs[] = {0, 0, 1, 2, 4, 8, 3, 5, 16, 256, 65536}; ex.embed_label(any_label(), szs[r.below(11)]); }
    else if (c < 75) { static const size_t szs[] = {0, 0, 1, 2, 4, 8, 3, 6, 16, 1024}; ex.embed_label_delta(any_label(), any_label(), szs[r.below(10)]); }
    else if (c < 81) { if (nl < 6) ex.new_label(); else ex.bind(any_label()); }
    else if (c < 86) ex.bind(any_label());
    else if (c < 90) ex.inst(uint32_t(r.below(6)));
    else if (c < 92) ex.comment();
    else if (c < 96) {
      if (ex.secs.size() < 4 && r.chance(1, 2)) {
        if (fixed) { static const size_t caps[] = {0, 1, 7, 8, 16, 33, 64, 100}; ex.new_section(r.chance(2, 3) ? "fix" : "res", caps[r.below(8)]); }
        else ex.new_section(r.chance(1, 4) ? "res" : "dyn", 1 + r.below(64));
      }
      ex.section(r.chance(1, 10) ? 0 : 1 + r.below(ex.secs.size()));
    }
    else if (c < 98) {
      if (rewind) {
        size_t size = ex.a->current_section()->buffer_size();
        ex.set_offset(r.chance(1, 6) ? size + 1 + r.below(40) : r.below(size + 1));
      } else if (r.chance(1, 3)) ex.set_offset(ex.a->current_section()->buffer_size() + 1 + r.below(9000));
    }
    else {
      if (fixed) ex.reserve(1 + r.below(ex.secs.size()), r.below(200));
      else if (flavour == 9) ex.set_opt(r.chance(1, 2));
    }
    if (r.chance(1, 25)) ex.snapshot();
  }
  ex.finish();
}

// growth across capacity boundaries: small reserved capacity, then appends that cross it, then a big repeat
static void growth_exec(FILE* out, vj::Rng& r, unsigned variant) {
  static const char* archs[] = {"x86", "x64", "a64"};
  Exec ex(out, &r, archs[variant % 3], (variant & 1) != 0);
  ex.attach();
  ex.builder_ok = false;
  ex.reserve(1, 1 + r.below(40));
  ex.new_label();
  for (unsigned i = 0; i < 6; i++) {
    ex.embed(rand_bytes(r, 1 + r.below(30)));
    if (i == 2) ex.embed_label(1, 0);
    if (i == 3) ex.align(uint32_t(r.below(3)), 64);
  }
  uint8_t fill = uint8_t(1 + r.below(200));
  size_t big = (variant % 2) ? 8200 + r.below(300) : 16300 + r.below(400);
  ex.embed_array("array", 35, std::vector<uint8_t>{fill}, 1, big);
  ex.bind(1);
  ex.embed(rand_bytes(r, 5));
  if (variant % 4 == 0) { ex.set_offset(3 + r.below(10)); ex.embed(rand_bytes(r, 4)); ex.align(2, 32); }
  if (variant % 2 == 0) ex.set_offset(r.below(200));            // the reallocation below must keep a rewound cursor
  ex.reserve(1, 40000 + r.below(100));
  ex.embed_array("uint16", 37, std::vector<uint8_t>{uint8_t(r.below(256)), uint8_t(r.below(256))}, 1, 9000);
  ex.align(0, 16);
  ex.finish();
}

int main(int argc, char** argv) {
  if (argc < 3) { fprintf(stderr, "usage: dataemit script|random|sweep ...\n"); return 3; }
  std::string mode = argv[1];
  vj::Rng r(vj::env_seed());
  if (mode == "script" && argc >= 4) {
    auto scripts = vj::read_ndjson(argv[2]);
    FILE* out = fopen(argv[3], "w");
    vj::install_abort_handlers(out);
    for (auto& s : scripts) {
      Exec ex(out, &r, s["arch"].s(), s["opt"].b);
      for (auto& op : s["ops"].arr) run_op(ex, op);
      ex.finish();
    }
    fclose(out);
    return 0;
  }
  if (mode == "random" && argc >= 5) {
    FILE* out = fopen(argv[2], "w");
    vj::install_abort_handlers(out);
    unsigned nexec = unsigned(atoi(argv[3])), steps = unsigned(atoi(argv[4]));
    unsigned ngrow = argc >= 6 ? unsigned(atoi(argv[5])) : 0;
    for (unsigned x = 0; x < nexec; x++) random_exec(out, r, steps);
    for (unsigned x = 0; x < ngrow; x++) growth_exec(out, r, x);
    fclose(out);
    return 0;
  }
  if (mode == "sweep" && argc >= 4) {
    // every gap of every valid alignment, every mode, arch, option; plus each invalid alignment / mode once per offset class
    FILE* out = fopen(argv[2], "w");
    vj::install_abort_handlers(out);
    int level = atoi(argv[3]);
    static const char* archs[] = {"x86", "x64", "a64"};
    static const uint32_t valid[] = {2, 4, 8, 16, 32, 64};
    for (const char* arch : archs)
      for (int opt = 0; opt < 2; opt++) {
        if (std::string(arch) == "a64" && opt && level < 2) continue;
        for (uint32_t mode = 0; mode < 3; mode++)
          for (uint32_t al : valid) {
            Exec ex(out, &r, arch, opt != 0);
            ex.attach();
            ex.builder_ok = level >= 2;
            bool a64 = std::string(arch) == "a64";
            for (uint32_t k = 1; k <= al; k++) {
              // AArch64 code alignment needs a 4-aligned cursor: step in words there (and probe the refusal separately)
              size_t n = (a64 && mode == 0) ? size_t(((k + 3) / 4) * 4) : k;
              ex.embed(rand_bytes(r, n));
              ex.align(mode, al);
            }
            if (a64 && mode == 0) { ex.embed(rand_bytes(r, 1 + r.below(3))); ex.align(0, al); ex.align(1, 4); ex.align(0, al); }
            ex.finish();
          }
        // invalid arguments at offsets 0..5
        Exec ex(out, &r, arch, opt != 0);
        ex.attach();
        static const uint32_t bad[] = {3, 5, 6, 12, 63, 65, 96, 128, 1024, 65536, 0x10010u, 0x80000000u, 0xFFFFFFFFu, 0, 1};
        for (unsigned o = 0; o < 6; o++) {
          for (uint32_t al : bad) for (uint32_t mode = 0; mode < 3; mode++) ex.align(mode, al);
          ex.align(3, 16); ex.align(255, 4); ex.align(4, 0);
          ex.embed(std::vector<uint8_t>{uint8_t(o)});
        }
        ex.finish();
      }
    fclose(out);
    return 0;
  }
  fprintf(stderr, "bad arguments\n");
  return 3;
}
