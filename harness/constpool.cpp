// C19 harness: drives a real asmjit::ConstPool, records an ndjson trace for ConstPoolTrace.tla.
//   constpool script <scripts.ndjson> <trace.ndjson>     scripts: {"ops":[[b0,b1,..],...]} one execution per line
//   constpool random <trace.ndjson> <executions> <steps>
#include <asmjit/core.h>
#include <asmjit/x86.h>
#include <asmjit/a64.h>
#include "vjson.h"

using namespace asmjit;

static const char* err_name(Error e) {
  switch (e) {
    case Error::kOk: return "Ok";
    case Error::kOutOfMemory: return "OutOfMemory";
    case Error::kInvalidArgument: return "InvalidArgument";
    default: return "Other";
  }
}

struct Exec {
  FILE* out;
  Arena arena{4096};
  ConstPool pool{arena};
  vj::W w;

  explicit Exec(FILE* f) : out(f) {
    w.beginObj().kv("e", "Reset").endObj().emit(out);
  }

  void add(const std::vector<uint8_t>& data) {
    size_t off = 0xDEAD;
    // The buffer handed to add() is a private copy that is scribbled afterwards: the pool must own its bytes.
    std::vector<uint8_t> copy(data);
    copy.resize(copy.size() + 8, 0xEE);
    Error err = pool.add(copy.data(), data.size(), Out(off));
    memset(copy.data(), 0xEE, copy.size());
    w.beginObj().kv("e", "Add").kv("size", data.size());
    w.bytes("data", data.data(), data.size());
    w.kv("r", err_name(err)).kv("off", err == Error::kOk ? off : 0).kv("psize", pool.size()).kv("palign", pool.alignment());
    w.endObj().emit(out);
  }

  void fill() {
    std::vector<uint8_t> img(pool.size() + 16, 0xCD);   // guard bytes around the destination
    pool.fill(img.data() + 8);
    bool guards = true;
    for (int i = 0; i < 8; i++) guards &= img[i] == 0xCD && img[8 + pool.size() + i] == 0xCD;
    w.beginObj().kv("e", "Fill").kv("guards", guards);
    w.bytes("image", img.data() + 8, pool.size());
    w.endObj().emit(out);
  }

  // embed through a real assembler / builder: the bytes at the bound label must be the pool image
  void embed(bool via_builder, unsigned pre, bool a64 = false) {
    CodeHolder code;
    code.init(Environment(a64 ? Arch::kAArch64 : Arch::kX64));
    x86::Assembler xa; x86::Builder xb;
    a64::Assembler aa; a64::Builder ab;
    BaseEmitter* e = a64 ? (via_builder ? static_cast<BaseEmitter*>(&ab) : &aa) : (via_builder ? static_cast<BaseEmitter*>(&xb) : &xa);
    BaseBuilder* b = a64 ? static_cast<BaseBuilder*>(&ab) : &xb;
    code.attach(e);
    uint8_t fillb[16];
    memset(fillb, 0x90, sizeof fillb);
    Error err = e->embed(fillb, pre);
    Label L = e->new_label();
    if (err == Error::kOk) err = e->embed_const_pool(L, pool);
    if (err == Error::kOk && via_builder) err = b->finalize();
    Section* text = code.text_section();
    size_t lab = 0;
    bool bound = code.is_label_bound(L);
    if (bound) lab = size_t(code.label_offset(L));
    size_t total = text->buffer_size();
    w.beginObj().kv("e", "Embed").kv("via", via_builder ? "builder" : "asm").kv("arch", a64 ? "a64" : "x64").kv("r", err_name(err)).kv("pre", pre)
     .kv("bound", bound).kv("lab", lab).kv("total", total);
    if (bound && lab <= total) w.bytes("image", text->data() + lab, total - lab);
    else w.bytes("image", nullptr, 0);
    w.endObj().emit(out);
  }
};

static std::vector<uint8_t> rand_const(vj::Rng& r, std::vector<std::vector<uint8_t>>& history) {
  static const size_t sizes[] = {1, 2, 4, 8, 16, 32, 64};
  unsigned c = (unsigned)r.below(100);
  if (c < 25 && !history.empty()) return r.pick(history);                      // repeat
  if (c < 45 && !history.empty()) {                                            // half / quarter / slice of an earlier one
    const auto& h = r.pick(history);
    if (h.size() >= 2) {
      size_t sz = h.size();
      unsigned sh = 1 + (unsigned)r.below(3);
      while (sh-- && sz > 1) sz >>= 1;
      size_t cnt = h.size() / sz;
      size_t i = r.below(cnt);
      return std::vector<uint8_t>(h.begin() + i * sz, h.begin() + (i + 1) * sz);
    }
  }
  if (c < 52) {                                                                // invalid sizes
    static const size_t bad[] = {0, 3, 5, 6, 7, 12, 24, 65, 96, 128};
    std::vector<uint8_t> d(bad[r.below(10)]);
    for (auto& x : d) x = (uint8_t)(1 + r.below(3));
    return d;
  }
  std::vector<uint8_t> d(sizes[r.below(7)]);
  // 4-byte atoms from a tiny alphabet so that sub-constants collide
  unsigned mode = (unsigned)r.below(3);
  for (size_t i = 0; i < d.size(); i++) {
    if (mode == 0) d[i] = (uint8_t)(1 + r.below(2));
    else if (mode == 1) d[i] = (uint8_t)(1 + ((i / 4) % 2 == 0 ? r.below(2) : 1));
    else d[i] = (uint8_t)r.below(256);
  }
  if (mode == 1 && d.size() >= 4) for (size_t i = 0; i < d.size(); i++) d[i] = d[(i / 4) * 4];
  return d;
}

int main(int argc, char** argv) {
  if (argc < 3) { fprintf(stderr, "usage\n"); return 3; }
  std::string mode = argv[1];
  if (mode == "script") {
    auto scripts = vj::read_ndjson(argv[2]);
    FILE* out = fopen(argv[3], "w");
    vj::install_abort_handlers(out);
    unsigned n = 0;
    for (auto& s : scripts) {
      Exec ex(out);
      for (auto& op : s["ops"].arr) {
        std::vector<uint8_t> d;
        for (auto& b : op.arr) d.push_back((uint8_t)b.i());
        ex.add(d);
      }
      ex.fill();
      ex.embed(n & 1, n % 7, (n >> 1) & 1);
      n++;
    }
    fclose(out);
    return 0;
  }
  if (mode == "random") {
    FILE* out = fopen(argv[2], "w");
    vj::install_abort_handlers(out);
    unsigned nexec = (unsigned)atoi(argv[3]), steps = (unsigned)atoi(argv[4]);
    vj::Rng r(vj::env_seed());
    for (unsigned x = 0; x < nexec; x++) {
      Exec ex(out);
      std::vector<std::vector<uint8_t>> hist;
      unsigned n = 1 + (unsigned)r.below(steps);
      for (unsigned i = 0; i < n; i++) {
        auto d = rand_const(r, hist);
        ex.add(d);
        hist.push_back(d);
        if (r.chance(1, 12)) ex.fill();
      }
      ex.fill();
      ex.embed(false, (unsigned)r.below(9), r.chance(1, 2));
      ex.embed(true, (unsigned)r.below(9), r.chance(1, 2));
    }
    fclose(out);
    return 0;
  }
  return 3;
}
