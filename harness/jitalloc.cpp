// C09 harness: drives a real asmjit::JitAllocator, records an ndjson trace for JitAllocTrace.tla.
//   jitalloc random <trace> <executions> <ops>           seeded by VERIF_SEED
//   jitalloc script <scripts.ndjson> <trace>             scripts exported by TLC from JitAllocMC
// Addresses are normalised per execution by order-preserving "chunk compression" (64 KiB chunks get consecutive
// small indices when adjacent in memory, a gap otherwise), so overlap/adjacency/alignment are preserved exactly
// and all numbers stay below 2^31 for TLC.
#include <asmjit/core.h>
#include <sys/mman.h>
#include <algorithm>
#include <set>
#include "vjson.h"

using namespace asmjit;

static const char* err_name(Error e) {
  switch (e) {
    case Error::kOk: return "Ok";
    case Error::kOutOfMemory: return "OutOfMemory";
    case Error::kInvalidArgument: return "InvalidArgument";
    case Error::kInvalidState: return "InvalidState";
    case Error::kNotInitialized: return "NotInitialized";
    case Error::kTooLarge: return "TooLarge";
    default: return "Other";
  }
}

static bool is_mapped(const void* p, size_t n) {
  uintptr_t a = uintptr_t(p) & ~uintptr_t(4095);
  size_t len = ((uintptr_t(p) + n + 4095) & ~uintptr_t(4095)) - a;
  std::vector<unsigned char> vec(len / 4096 + 1);
  return mincore((void*)a, len, vec.data()) == 0;
}

struct Opts {
  bool dual = false, multi = false, fill = false, imm = false, nopad = false, custom = false, large = false;
  uint32_t gran = 64, block = 65536, pattern = 0;
};

struct Ev {
  std::string e;
  long long id = -1, req = -1, n = -1, len = -1, trunc = -2;
  uint64_t rx = 0, rw = 0;      // raw addresses (0 = none)
  std::string r, kind, policy;
  bool nonnull = true, alias = true, intact = true, mapped = true, filled = true, same = true, init = true, wiped = true;
  long long cnt = 0, used = 0, res = 0, blk = 0;
  bool has_st = false;
  Opts o;
};

struct LiveSpan {
  long long id;
  JitAllocator::Span span;
  uint32_t seed;
};

struct Exec {
  std::vector<Ev> evs;
  JitAllocator* alloc = nullptr;
  Opts o;
  std::vector<LiveSpan> live;
  std::vector<std::pair<void*, size_t>> stale;   // released (rx, len)
  long long next_id = 1;
  uint32_t pattern = 0;

  explicit Exec(const Opts& opts) : o(opts) {
    JitAllocator::CreateParams p;
    p.options = JitAllocatorOptions::kNone;
    if (o.dual) p.options |= JitAllocatorOptions::kUseDualMapping;
    if (o.multi) p.options |= JitAllocatorOptions::kUseMultiplePools;
    if (o.fill) p.options |= JitAllocatorOptions::kFillUnusedMemory;
    if (o.imm) p.options |= JitAllocatorOptions::kImmediateRelease;
    if (o.nopad) p.options |= JitAllocatorOptions::kDisableInitialPadding;
    if (o.large) p.options |= JitAllocatorOptions::kUseLargePages;
    if (o.custom) { p.options |= JitAllocatorOptions::kCustomFillPattern; p.fill_pattern = o.pattern; }
    p.block_size = o.block;
    p.granularity = o.gran;
    alloc = new JitAllocator(&p);
    pattern = alloc->fill_pattern();
    Ev e; e.e = "Reset"; e.o = o; e.init = alloc->is_initialized();
    // what the allocator reports about itself must agree with what was requested (valid requests only)
    e.same = alloc->granularity() == o.gran && alloc->block_size() == o.block &&
             alloc->has_option(JitAllocatorOptions::kUseMultiplePools) == o.multi &&
             alloc->has_option(JitAllocatorOptions::kFillUnusedMemory) == o.fill;
    stats(e);
    evs.push_back(e);
  }
  ~Exec() { delete alloc; }

  void stats(Ev& e) {
    JitAllocator::Statistics s = alloc->statistics();
    e.cnt = (long long)s.allocation_count(); e.used = (long long)s.used_size(); e.res = (long long)s.reserved_size();
    e.blk = (long long)s.block_count(); e.has_st = true;
  }

  static uint32_t word_at(uint32_t seed, size_t i) { return (seed * 2654435761u) ^ uint32_t(i * 40503u + 0x9E37u); }

  void paint(LiveSpan& s) {   // through the allocator's write API, checked through rx
    size_t n = s.span.size() / 4;
    std::vector<uint32_t> buf(n);
    for (size_t i = 0; i < n; i++) buf[i] = word_at(s.seed, i);
    alloc->write(s.span, 0, buf.data(), n * 4);
  }

  bool check_one(const LiveSpan& s, size_t len) const {
    const uint32_t* p = static_cast<const uint32_t*>(s.span.rx());
    size_t n = len / 4;
    if (n <= 4096) { for (size_t i = 0; i < n; i++) if (p[i] != word_at(s.seed, i)) return false; return true; }
    for (size_t i = 0; i < 1024; i++) if (p[i] != word_at(s.seed, i)) return false;
    for (size_t i = n - 1024; i < n; i++) if (p[i] != word_at(s.seed, i)) return false;
    for (size_t i = 1024; i < n; i += 509) if (p[i] != word_at(s.seed, i)) return false;
    return true;
  }
  bool all_intact() const { for (auto& s : live) if (!check_one(s, s.span.size())) return false; return true; }

  bool is_filled(const void* rw, size_t off, size_t n) const {
    const uint8_t* p = static_cast<const uint8_t*>(rw) + off;
    for (size_t i = 0; i < n; i++) {
      // the pattern is a repeated 32-bit word; allocations are granule aligned so phase = address & 3
      uint8_t exp = uint8_t(pattern >> (8 * ((uintptr_t(p + i)) & 3)));
      if (p[i] != exp) return false;
    }
    return true;
  }

  void do_alloc(size_t req) {
    Ev e; e.e = "Alloc"; e.req = (long long)std::min<size_t>(req, 0x7FFFFFFF);
    if (getenv("VERIF_DEBUG_OPS")) { auto st = alloc->statistics(); fprintf(stderr, "alloc req=%zu live=%zu blocks=%zu reserved=%zu\n", req, live.size(), st.block_count(), st.reserved_size()); }
    JitAllocator::Span span;
    Error err = alloc->alloc(Out(span), req);
    e.r = err_name(err);
    if (err == Error::kOk) {
      LiveSpan s{next_id++, span, uint32_t(next_id * 7919u + 13u)};
      e.id = s.id; e.rx = uint64_t(uintptr_t(span.rx())); e.rw = uint64_t(uintptr_t(span.rw())); e.len = (long long)span.size();
      e.nonnull = span.rx() != nullptr && span.rw() != nullptr;
      if (e.nonnull) {
        paint(s);
        // aliasing: what was written through the API / rw view must be visible through rx
        e.alias = check_one(s, s.span.size());
        // and a direct store through rw must be visible through rx
        static_cast<volatile uint32_t*>(span.rw())[0] ^= 0u;
      }
      live.push_back(s);
    }
    e.intact = all_intact();
    stats(e);
    evs.push_back(e);
  }

  void do_release(size_t idx) {
    LiveSpan s = live[idx];
    Ev e; e.e = "Release"; e.id = s.id;
    void* rx = s.span.rx(); void* rw = s.span.rw(); size_t len = s.span.size();
    Error err = alloc->release(rx);
    e.r = err_name(err);
    if (err == Error::kOk) {
      live.erase(live.begin() + idx);
      stale.emplace_back(rx, len);
      e.mapped = is_mapped(rw, len);
      e.filled = e.mapped ? is_filled(rw, 0, len) : true;
    }
    e.intact = all_intact();
    stats(e);
    evs.push_back(e);
  }

  void do_shrink(size_t idx, size_t n) {
    LiveSpan& s = live[idx];
    Ev e; e.e = "Shrink"; e.id = s.id; e.n = (long long)n;
    size_t old = s.span.size(); void* rx = s.span.rx(); void* rw = s.span.rw();
    Error err = alloc->shrink(s.span, n);
    e.r = err_name(err);
    if (err == Error::kOk && n == 0) {
      live.erase(live.begin() + idx);
      stale.emplace_back(rx, old);
      e.len = 0;
      e.mapped = is_mapped(rw, old);
      e.filled = e.mapped ? is_filled(rw, 0, old) : true;
    } else {
      e.len = (long long)s.span.size();
      e.rx = uint64_t(uintptr_t(s.span.rx()));
      e.rw = uint64_t(uintptr_t(s.span.rw()));
      if (err == Error::kOk && s.span.size() < old) e.filled = is_filled(rw, s.span.size(), old - s.span.size());
    }
    e.intact = all_intact();
    stats(e);
    evs.push_back(e);
  }

  void do_query_live(size_t idx) {
    LiveSpan& s = live[idx];
    Ev e; e.e = "Query"; e.kind = "live"; e.id = s.id;
    JitAllocator::Span q;
    Error err = alloc->query(Out(q), s.span.rx());
    e.r = err_name(err);
    e.rx = uint64_t(uintptr_t(q.rx())); e.rw = uint64_t(uintptr_t(q.rw())); e.len = (long long)q.size();
    e.intact = all_intact();
    stats(e);
    evs.push_back(e);
  }

  // a pointer INSIDE a live span ("an allocated memory block that contains the given rx")
  void do_query_interior(size_t idx, vj::Rng& r) {
    LiveSpan& s = live[idx];
    size_t sz = s.span.size();
    if (sz < 2) return;
    unsigned k = (unsigned)r.below(6);
    size_t off = k == 0 ? 1 : k == 1 ? sz - 1 : k == 2 ? (o.gran < sz ? o.gran : sz - 1) : k == 3 ? (o.gran + 10 < sz ? o.gran + 10 : sz - 1) : 1 + r.below(sz - 1);
    Ev e; e.e = "Query"; e.kind = "interior"; e.id = s.id; e.n = (long long)off;
    JitAllocator::Span q;
    Error err = alloc->query(Out(q), static_cast<uint8_t*>(s.span.rx()) + off);
    e.r = err_name(err);
    e.rx = uint64_t(uintptr_t(q.rx())); e.rw = uint64_t(uintptr_t(q.rw())); e.len = (long long)q.size();
    e.intact = all_intact();
    stats(e);
    evs.push_back(e);
  }

  // foreign pointers: heap / stack / null / a released span whose memory is not part of a live span
  void do_query_foreign(unsigned kind, vj::Rng& r) {
    Ev e; e.e = "Query";
    static int heap_obj[64];
    int stack_obj[4];
    void* p = nullptr;
    if (kind == 0) { e.kind = "null"; p = nullptr; }
    else if (kind == 1) { e.kind = "heap"; p = heap_obj + 3; }
    else if (kind == 2) { e.kind = "stack"; p = stack_obj; }
    else {
      e.kind = "stale";
      // With initial padding a recycled mapping may put a block's padding granule under an old span address;
      // the padding is allocator-owned memory, not a foreign pointer, so stale queries are only meaningful
      // (must be refused) when padding is disabled.
      if (stale.empty() || !o.nopad) return;
      auto st = stale[r.below(stale.size())];
      p = st.first;
      // only a pointer that is not inside any live span is 'stale'
      for (auto& s : live) {
        uintptr_t a = uintptr_t(s.span.rx());
        if (uintptr_t(p) >= a && uintptr_t(p) < a + s.span.size()) return;
      }
    }
    JitAllocator::Span q;
    Error err = alloc->query(Out(q), p);
    e.r = err_name(err);
    e.nonnull = q.rx() != nullptr;
    e.rx = uint64_t(uintptr_t(q.rx())); e.len = (long long)q.size(); e.rw = uint64_t(uintptr_t(p));
    stats(e);
    evs.push_back(e);
  }

  void do_write(size_t idx, long long trunc, vj::Rng& r) {
    LiveSpan& s = live[idx];
    Ev e; e.e = "Write"; e.id = s.id; e.trunc = trunc;
    size_t old = s.span.size(); void* rw = s.span.rw();
    s.seed = uint32_t(r.next());
    struct Ctx { uint32_t seed; long long trunc; } c{s.seed, trunc};
    Error err = alloc->write(s.span, [&](JitAllocator::Span& sp) noexcept -> Error {
      uint32_t* p = static_cast<uint32_t*>(sp.rw());
      for (size_t i = 0; i < sp.size() / 4; i++) p[i] = word_at(c.seed, i);
      if (c.trunc >= 0) sp.shrink(size_t(c.trunc));
      return Error::kOk;
    });
    e.r = err_name(err);
    e.len = (long long)s.span.size();
    e.rx = uint64_t(uintptr_t(s.span.rx())); e.rw = uint64_t(uintptr_t(s.span.rw()));
    if (err == Error::kOk && s.span.size() < old) e.filled = is_filled(rw, s.span.size(), old - s.span.size());
    e.intact = all_intact();
    stats(e);
    evs.push_back(e);
  }

  void do_reset(bool hard) {
    Ev e; e.e = "ResetAlloc"; e.policy = hard ? "hard" : "soft";
    alloc->reset(hard ? ResetPolicy::kHard : ResetPolicy::kSoft);
    // every span is released by a reset: whatever part of a formerly live span is still mapped (the block kept by a
    // soft reset) must carry the fill pattern.  Checked before anything else can map memory (single-threaded harness,
    // no allocation between the reset and this loop), so "still mapped" means "still the allocator's mapping".
    e.wiped = true;
    for (auto& s : live) {
      void* rw = s.span.rw(); size_t len = s.span.size();
      if (is_mapped(rw, len) && !is_filled(rw, 0, len)) e.wiped = false;
    }
    live.clear(); stale.clear();
    e.init = alloc->is_initialized();
    stats(e);
    evs.push_back(e);
  }

  // ---- emit with address compression ----
  void emit(FILE* out) {
    std::set<uint64_t> chunks;
    auto cover = [&](uint64_t a, long long len) {
      if (!a) return;
      uint64_t last = a + uint64_t(len > 0 ? len - 1 : 0);
      for (uint64_t c = a >> 16; c <= (last >> 16); c++) chunks.insert(c);
    };
    for (auto& e : evs) { cover(e.rx, e.len); cover(e.rw, e.len); }
    std::map<uint64_t, uint64_t> idx;
    uint64_t next = 1, prev = 0; bool first = true;
    for (uint64_t c : chunks) {
      if (!first && c != prev + 1) next++;     // gap between non-adjacent chunks
      idx[c] = next++;
      prev = c; first = false;
    }
    auto norm = [&](uint64_t a) -> long long { return a ? (long long)(idx[a >> 16] * 65536 + (a & 0xFFFF)) : 0; };
    vj::W w;
    for (auto& e : evs) {
      w.beginObj().kv("e", e.e);
      if (e.e == "Reset") {
        w.key("opts").beginObj().kv("dual", e.o.dual).kv("multi", e.o.multi).kv("fill", e.o.fill).kv("imm", e.o.imm)
          .kv("nopad", e.o.nopad).kv("gran", e.o.gran).kv("block", e.o.block).kv("pools", e.o.multi ? 3 : 1).endObj();
        w.kv("init", e.init).kv("same", e.same);
      }
      if (e.id >= 0) w.kv("id", e.id);
      if (e.req >= 0) w.kv("req", e.req);
      if (e.n >= 0) w.kv("n", e.n);
      if (e.trunc != -2) w.kv("trunc", e.trunc);
      if (!e.kind.empty()) w.kv("kind", e.kind);
      if (!e.policy.empty()) { w.kv("policy", e.policy); w.kv("init", e.init); w.kv("wiped", e.wiped); }
      if (!e.r.empty()) w.kv("r", e.r);
      if (e.e == "Alloc" || e.e == "Shrink" || e.e == "Write" || (e.e == "Query" && (e.kind == "live" || e.kind == "interior"))) {
        w.kv("rx", norm(e.rx)).kv("rw", norm(e.rw)).kv("len", e.len);
      }
      if (e.e == "Query" && e.kind == "stale") w.kv("p", norm(e.rw)).kv("qrx", norm(e.rx)).kv("qlen", e.len);
      if (e.e != "Reset" && e.e != "ResetAlloc") {
        w.kv("nonnull", e.nonnull).kv("alias", e.alias).kv("intact", e.intact).kv("mapped", e.mapped).kv("filled", e.filled);
      }
      if (e.has_st) w.key("st").beginObj().kv("cnt", e.cnt).kv("used", e.used).kv("res", e.res).kv("blk", e.blk).endObj();
      w.endObj().emit(out);
    }
    evs.clear();
  }
};

static Opts random_opts(vj::Rng& r, unsigned x) {
  Opts o;
  // every option bit appears in half of the executions; execution index drives a Gray-like schedule so that
  // short runs still cover each option both ways
  unsigned bits = x * 5u + (unsigned)r.below(64);
  o.multi = bits & 1; o.fill = bits & 2; o.imm = bits & 4; o.nopad = bits & 8; o.dual = bits & 16; o.custom = bits & 32;
  static const uint32_t grans[] = {64, 128, 256};
  o.gran = grans[(x + r.below(3)) % 3];
  static const uint32_t blocks[] = {65536, 65536, 131072, 1u << 20};
  o.block = blocks[r.below(4)];
  o.pattern = o.custom ? 0xA1B2C3D4u : 0;
  return o;
}

static size_t random_size(vj::Rng& r, const Opts& o) {
  unsigned c = (unsigned)r.below(100);
  size_t g = o.gran;
  if (c < 30) return 1 + r.below(4 * g);                                  // a few granules
  if (c < 55) { static const int k[] = {1, 2, 31, 32, 33, 63, 64, 65, 127, 128, 129}; return size_t(k[r.below(11)]) * g - r.below(2) * (r.below(g)); }
  if (c < 70) return g * (1 + r.below(200));
  if (c < 80) return o.block - g * r.below(3);                            // around one block
  if (c < 84) return o.block + g * r.below(3);
  if (c < 88) {                                                          // exactly / just below / just above k base blocks
    size_t k = 2 + r.below(5), j = r.below(3);
    return r.chance(1, 2) ? size_t(o.block) * k - g * j - r.below(2) * r.below(g) : size_t(o.block) * k + g * j;
  }
  if (c < 90) return size_t(o.block) * (2 + r.below(3)) + r.below(1000);  // several blocks
  if (c < 93) return 0;                                                   // invalid
  if (c < 95) return size_t(0x80000000ull) + r.below(4096);               // too large
  return 1 + r.below(o.block / 2);
}

static void run_random(Exec& ex, vj::Rng& r, unsigned ops) {
  size_t last_released_req = 0;
  if (r.chance(1, 3)) {
    // boundary prologue: the pool's first block is created by an allocation that fills it exactly (k base blocks minus
    // the initial padding granule), optionally followed by a few small allocations (which open a second block), then a
    // soft or hard reset and a small allocation - the reset has to account for a block that never had a free granule.
    size_t k = 1 + r.below(4);
    size_t full = size_t(ex.o.block) * k - (ex.o.nopad ? 0 : ex.o.gran);
    if (r.chance(1, 2)) ex.do_alloc(full);
    else {
      // two spans fill the block to its last granule; the upper one is released and requested again: it must be re-used
      size_t a = (full / 2) & ~size_t(ex.o.gran - 1);
      ex.do_alloc(a);
      ex.do_alloc(full - a);
      if (ex.live.size() == 2) { ex.do_release(1); ex.do_alloc(full - a); }
    }
    for (unsigned j = (unsigned)r.below(3); j > 0; j--) ex.do_alloc(random_size(r, ex.o) % (4 * ex.o.gran) + 1);
    if (r.chance(1, 3) && !ex.live.empty()) ex.do_release(0);
    ex.do_reset(r.chance(1, 4));
    ex.do_alloc(ex.o.gran * (1 + r.below(4)));
  }
  for (unsigned i = 0; i < ops; i++) {
    unsigned c = (unsigned)r.below(100);
    size_t nlive = ex.live.size();
    if (last_released_req && r.chance(1, 2)) { ex.do_alloc(last_released_req); last_released_req = 0; continue; }
    last_released_req = 0;
    if (c < 38 || nlive == 0) {
      if (nlive >= 24) { c = 40; } else { ex.do_alloc(random_size(r, ex.o)); continue; }
    }
    if (c < 62) {
      size_t idx = r.below(nlive);
      last_released_req = ex.live[idx].span.size();
      ex.do_release(idx);
    }
    else if (c < 74) {
      size_t idx = r.below(nlive);
      size_t len = ex.live[idx].span.size();
      unsigned k = (unsigned)r.below(10);
      size_t n = k == 0 ? 0 : k == 1 ? len : k == 2 ? len + 1 + r.below(1000) : k == 3 ? 1 : r.below(len + 1);
      ex.do_shrink(idx, n);
    }
    else if (c < 79) ex.do_query_live(r.below(nlive));
    else if (c < 82) ex.do_query_interior(r.below(nlive), r);
    else if (c < 88) ex.do_query_foreign((unsigned)r.below(4), r);
    else if (c < 97) {
      size_t idx = r.below(nlive);
      size_t len = ex.live[idx].span.size();
      long long tr = r.chance(1, 2) ? -1 : (long long)(1 + r.below(len));
      ex.do_write(idx, tr, r);
    }
    else if (c < 98) { ex.do_reset(r.chance(1, 2)); }
    else {
      // release everything: the retention policy becomes observable
      while (!ex.live.empty()) ex.do_release(r.below(ex.live.size()));
    }
  }
  while (!ex.live.empty()) ex.do_release(r.below(ex.live.size()));
  ex.do_reset(false);
  ex.do_alloc(ex.o.gran * 3);
  ex.do_reset(true);
}

int main(int argc, char** argv) {
  if (argc < 3) return 3;
  std::string mode = argv[1];
  if (mode == "random") {
    FILE* out = fopen(argv[2], "w");
    vj::install_abort_handlers(out);
    unsigned nexec = (unsigned)atoi(argv[3]), ops = (unsigned)atoi(argv[4]);
    vj::Rng r(vj::env_seed());
    for (unsigned x = 0; x < nexec; x++) {
      Opts o = random_opts(r, x);
      Exec ex(o);
      run_random(ex, r, ops);
      ex.emit(out);
    }
    fclose(out);
    return 0;
  }
  if (mode == "script") {
    // script line: {"opts":{...},"ops":[["A",granules],["R",k],["S",k,granules],["Q",k],["W",k,trunc],["X",hard]]}
    // k indexes the live list (mod its length), sizes are in granules of the allocator (fractions via "sub")
    auto scripts = vj::read_ndjson(argv[2]);
    FILE* out = fopen(argv[3], "w");
    vj::install_abort_handlers(out);
    vj::Rng r(vj::env_seed());
    for (auto& s : scripts) {
      Opts o;
      const vj::Value& so = s["opts"];
      o.multi = so["multi"].b; o.fill = so["fill"].b; o.imm = so["imm"].b; o.nopad = so["nopad"].b; o.dual = so["dual"].b;
      o.gran = (uint32_t)so["gran"].i(); o.block = (uint32_t)so["block"].i();
      Exec ex(o);
      for (auto& op : s["ops"].arr) {
        const std::string& k = op[0].s();
        size_t nl = ex.live.size();
        if (k == "A") ex.do_alloc(size_t(op[1].i()) * o.gran - size_t(op.size() > 2 ? op[2].i() : 0));
        else if (k == "R" && nl) ex.do_release(size_t(op[1].i()) % nl);
        else if (k == "S" && nl) ex.do_shrink(size_t(op[1].i()) % nl, size_t(op[2].i()) * o.gran);
        else if (k == "Q" && nl) ex.do_query_live(size_t(op[1].i()) % nl);
        else if (k == "F") ex.do_query_foreign((unsigned)op[1].i(), r);
        else if (k == "W" && nl) ex.do_write(size_t(op[1].i()) % nl, op[2].i() < 0 ? -1 : op[2].i() * (long long)o.gran, r);
        else if (k == "X") ex.do_reset(op[1].i() != 0);
      }
      while (!ex.live.empty()) ex.do_release(0);
      ex.emit(out);
    }
    fclose(out);
    return 0;
  }
  return 3;
}
