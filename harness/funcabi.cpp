// C06 harness: calling-convention classification and entry argument assignment.  It computes nothing: it feeds inputs to
// the real asmjit code and logs what the code answered.
//   funcabi observe <sigs.ndjson> <obs.ndjson>
//       in : {"env":"x64-sysv","conv":"cdecl","va":255,"ret":"void","args":["i32","f64",...]}
//       out: the input + FuncDetail::init() result: per argument pack the assigned locations, return values, arg stack
//            size, and the CallConv record (callee-pops, red zone, spill zone, alignment, preserved sets)
//   funcabi shuffle <cases.ndjson> <out.ndjson>
//       in : {"env","conv","args":[types],"dst":[{"k":"reg","rt":"gp32","id":3,"t":""}|{"k":"stack","off":16,"t":""}|{"k":"none"}],
//             "fp":0|1,"avx":0|1,"sa":255|regid,"lalign":0|32|64,"lsize":n}
//       out: FuncDetail source locations, frame record, error codes, and the instruction list emit_args_assignment() put
//            into a Builder (mnemonic + operand shapes), plus whether an Assembler accepts every emitted instruction.
#include <asmjit/core.h>
#include <asmjit/x86.h>
#include <asmjit/a64.h>
#include "vjson.h"
#include <string>

using namespace asmjit;

struct TypeName { const char* name; TypeId id; };
static const TypeName kTypes[] = {
  {"void", TypeId::kVoid},
  {"i8", TypeId::kInt8}, {"u8", TypeId::kUInt8}, {"i16", TypeId::kInt16}, {"u16", TypeId::kUInt16},
  {"i32", TypeId::kInt32}, {"u32", TypeId::kUInt32}, {"i64", TypeId::kInt64}, {"u64", TypeId::kUInt64},
  {"iptr", TypeId::kIntPtr}, {"uptr", TypeId::kUIntPtr},
  {"f32", TypeId::kFloat32}, {"f64", TypeId::kFloat64}, {"f80", TypeId::kFloat80},
  {"k8", TypeId::kMask8}, {"k16", TypeId::kMask16}, {"k32", TypeId::kMask32}, {"k64", TypeId::kMask64},
  {"mmx32", TypeId::kMmx32}, {"mmx64", TypeId::kMmx64},
  {"i8x4", TypeId::kInt8x4}, {"i32x1", TypeId::kInt32x1}, {"f32x1", TypeId::kFloat32x1},
  {"i8x8", TypeId::kInt8x8}, {"i32x2", TypeId::kInt32x2}, {"f32x2", TypeId::kFloat32x2}, {"f64x1", TypeId::kFloat64x1}, {"i64x1", TypeId::kInt64x1},
  {"i8x16", TypeId::kInt8x16}, {"i32x4", TypeId::kInt32x4}, {"i64x2", TypeId::kInt64x2}, {"f32x4", TypeId::kFloat32x4}, {"f64x2", TypeId::kFloat64x2},
  {"i8x32", TypeId::kInt8x32}, {"i32x8", TypeId::kInt32x8}, {"f32x8", TypeId::kFloat32x8}, {"f64x4", TypeId::kFloat64x4},
  {"i8x64", TypeId::kInt8x64}, {"i32x16", TypeId::kInt32x16}, {"f32x16", TypeId::kFloat32x16}, {"f64x8", TypeId::kFloat64x8},
};

static bool type_from_name(const std::string& s, TypeId& out) {
  for (auto& t : kTypes) if (s == t.name) { out = t.id; return true; }
  return false;
}
static std::string type_name(TypeId id) {
  for (auto& t : kTypes) if (t.id == id) return t.name;
  return "t" + std::to_string(unsigned(id));
}

static bool env_from_name(const std::string& s, Environment& env) {
  if (s == "x64-sysv") env = Environment(Arch::kX64, SubArch::kUnknown, Vendor::kUnknown, Platform::kLinux, PlatformABI::kGNU, ObjectFormat::kELF);
  else if (s == "x64-win") env = Environment(Arch::kX64, SubArch::kUnknown, Vendor::kUnknown, Platform::kWindows, PlatformABI::kMSVC, ObjectFormat::kCOFF);
  else if (s == "x86-sysv") env = Environment(Arch::kX86, SubArch::kUnknown, Vendor::kUnknown, Platform::kLinux, PlatformABI::kGNU, ObjectFormat::kELF);
  else if (s == "x86-win") env = Environment(Arch::kX86, SubArch::kUnknown, Vendor::kUnknown, Platform::kWindows, PlatformABI::kMSVC, ObjectFormat::kCOFF);
  else if (s == "a64-aapcs") env = Environment(Arch::kAArch64, SubArch::kUnknown, Vendor::kUnknown, Platform::kLinux, PlatformABI::kGNU, ObjectFormat::kELF);
  else if (s == "a64-apple") env = Environment(Arch::kAArch64, SubArch::kUnknown, Vendor::kUnknown, Platform::kOSX, PlatformABI::kDarwin, ObjectFormat::kMachO);
  else return false;
  return true;
}

struct ConvName { const char* name; CallConvId id; };
static const ConvName kConvs[] = {
  {"cdecl", CallConvId::kCDecl}, {"stdcall", CallConvId::kStdCall}, {"fastcall", CallConvId::kFastCall},
  {"vectorcall", CallConvId::kVectorCall}, {"thiscall", CallConvId::kThisCall},
  {"regparm1", CallConvId::kRegParm1}, {"regparm2", CallConvId::kRegParm2}, {"regparm3", CallConvId::kRegParm3},
  {"lightcall2", CallConvId::kLightCall2}, {"lightcall3", CallConvId::kLightCall3}, {"lightcall4", CallConvId::kLightCall4},
  {"x64sysv", CallConvId::kX64SystemV}, {"x64win", CallConvId::kX64Windows},
};
static bool conv_from_name(const std::string& s, CallConvId& out) {
  for (auto& c : kConvs) if (s == c.name) { out = c.id; return true; }
  return false;
}
static std::string conv_name(CallConvId id) {
  for (auto& c : kConvs) if (c.id == id) return c.name;
  return "cc" + std::to_string(unsigned(id));
}

static const char* group_name(RegGroup g) {
  switch (g) {
    case RegGroup::kGp: return "gp";
    case RegGroup::kVec: return "vec";
    case RegGroup::kMask: return "k";
    case RegGroup::kX86_MM: return "mm";
    case RegGroup::kX86_St: return "st";
    default: return "other";
  }
}

static const char* reg_type_name(RegType t) {
  switch (t) {
    case RegType::kGp8Lo: return "gp8";
    case RegType::kGp8Hi: return "gp8hi";
    case RegType::kGp16: return "gp16";
    case RegType::kGp32: return "gp32";
    case RegType::kGp64: return "gp64";
    case RegType::kVec8: return "vec8";
    case RegType::kVec16: return "vec16";
    case RegType::kVec32: return "vec32";
    case RegType::kVec64: return "vec64";
    case RegType::kVec128: return "vec128";
    case RegType::kVec256: return "vec256";
    case RegType::kVec512: return "vec512";
    case RegType::kMask: return "mask";
    case RegType::kX86_Mm: return "mm";
    case RegType::kX86_St: return "st";
    case RegType::kNone: return "none";
    default: return "other";
  }
}
static bool reg_type_from_name(const std::string& s, RegType& out) {
  static const RegType all[] = {RegType::kGp8Lo, RegType::kGp16, RegType::kGp32, RegType::kGp64, RegType::kVec32, RegType::kVec64,
                                RegType::kVec128, RegType::kVec256, RegType::kVec512, RegType::kMask, RegType::kX86_Mm};
  for (RegType t : all) if (s == reg_type_name(t)) { out = t; return true; }
  return false;
}
static uint32_t reg_type_size(RegType t) {
  switch (t) {
    case RegType::kGp8Lo: case RegType::kGp8Hi: case RegType::kVec8: return 1;
    case RegType::kGp16: case RegType::kVec16: return 2;
    case RegType::kGp32: case RegType::kVec32: return 4;
    case RegType::kGp64: case RegType::kVec64: case RegType::kMask: case RegType::kX86_Mm: return 8;
    case RegType::kVec128: return 16;
    case RegType::kVec256: return 32;
    case RegType::kVec512: return 64;
    case RegType::kX86_St: return 10;
    default: return 0;
  }
}

static std::string err_name(Error e) {
  if (e == Error::kOk) return "Ok";
  return std::string("E") + std::to_string(unsigned(e)) + ":" + DebugUtils::error_as_string(e);
}

// one FuncValue -> {"k","g","rt","id","off","ind","t","sz"}
static void put_value(vj::W& w, const FuncValue& v, bool full = false) {
  w.beginObj();
  if (v.is_reg()) {
    RegType rt = v.reg_type();
    w.kv("k", "reg").kv("g", group_name(RegUtils::group_of(rt))).kv("rt", reg_type_name(rt)).kv("id", v.reg_id()).kv("off", 0);
  }
  else if (v.is_stack()) {
    w.kv("k", "stack").kv("g", "").kv("rt", "none").kv("id", 0).kv("off", v.stack_offset());
  }
  else {
    w.kv("k", "none").kv("g", "").kv("rt", "none").kv("id", 0).kv("off", 0);
  }
  w.kv("ind", v.is_indirect());
  if (full) w.kv("t", type_name(v.type_id())).kv("sz", (unsigned)TypeUtils::size_of(v.type_id()));
  w.endObj();
}

static void put_pack(vj::W& w, const FuncValuePack& p, bool at_least_one) {
  w.beginArr();
  unsigned n = p.count();
  if (n == 0 && at_least_one) n = 1;
  for (unsigned i = 0; i < n; i++) put_value(w, p[i]);
  w.endArr();
}

static void put_mask(vj::W& w, const char* k, uint32_t m) {
  w.key(k).beginArr();
  for (unsigned i = 0; i < 32; i++) if (m & (1u << i)) w.val(i);
  w.endArr();
}

static void put_masks(vj::W& w, const char* k, uint32_t gp, uint32_t vec, uint32_t mask, uint32_t mm) {
  w.key(k).beginObj();
  put_mask(w, "gp", gp); put_mask(w, "vec", vec); put_mask(w, "k", mask); put_mask(w, "mm", mm);
  w.endObj();
}

static void put_strs(vj::W& w, const char* k, const vj::Value& arr) {
  w.key(k).beginArr();
  for (auto& a : arr.arr) w.val(a.s());
  w.endArr();
}

static bool build_signature(const vj::Value& in, FuncSignature& sig, std::string& why) {
  CallConvId cc;
  if (!conv_from_name(in["conv"].s(), cc)) { why = "conv"; return false; }
  sig.set_call_conv_id(cc);
  long long va = in.has("va") ? in["va"].i() : 255;
  if (va >= 0 && va < 255) sig.set_va_index((uint32_t)va);
  TypeId t;
  std::string rn = in.has("ret") ? in["ret"].s() : "void";
  if (!type_from_name(rn, t)) { why = "ret"; return false; }
  sig.set_ret(t);
  for (auto& a : in["args"].arr) {
    if (!type_from_name(a.s(), t)) { why = "arg " + a.s(); return false; }
    if (!sig.can_add_arg()) { why = "too many args"; return false; }
    sig.add_arg(t);
  }
  return true;
}

static int cmd_observe(const char* inp, const char* outp) {
  auto recs = vj::read_ndjson(inp);
  FILE* out = fopen(outp, "w");
  if (!out) return 3;
  vj::install_abort_handlers(out);
  vj::W w;
  for (auto& in : recs) {
    Environment env;
    FuncSignature sig;
    std::string why;
    if (!env_from_name(in["env"].s(), env) || !build_signature(in, sig, why)) { fprintf(stderr, "bad input record (%s)\n", why.c_str()); return 3; }
    FuncDetail fd;
    Error err = fd.init(sig, env);
    const CallConv& cc = fd.call_conv();
    w.beginObj().kv("env", in["env"].s()).kv("conv", in["conv"].s()).kv("va", in.has("va") ? in["va"].i() : 255LL)
     .kv("ret", in.has("ret") ? in["ret"].s() : std::string("void"));
    put_strs(w, "args", in["args"]);
    w.kv("n", (unsigned)in["args"].arr.size());
    w.kv("err", err_name(err));
    w.key("a").beginArr();
    if (err == Error::kOk) for (unsigned i = 0; i < fd.arg_count(); i++) put_pack(w, fd.arg_pack(i), true);
    w.endArr();
    w.key("r");
    if (err == Error::kOk) put_pack(w, fd.ret_pack(), false); else w.beginArr().endArr();
    w.kv("ass", err == Error::kOk ? fd.arg_stack_size() : 0u);
    w.kv("ccid", conv_name(cc.id())).kv("cp", cc.has_flag(CallConvFlags::kCalleePopsStack))
     .kv("rz", cc.red_zone_size()).kv("sz", cc.spill_zone_size()).kv("nsa", cc.natural_stack_alignment());
    put_masks(w, "pres", cc.preserved_regs(RegGroup::kGp), cc.preserved_regs(RegGroup::kVec), cc.preserved_regs(RegGroup::kMask), cc.preserved_regs(RegGroup::kX86_MM));
    w.kv("abort", "");      // filled in by the runner when the sanitizer build aborted on this input
    w.endObj().emit(out);
    fflush(out);
  }
  fclose(out);
  return 0;
}

// ---------------------------------------------------------------------------------------------------------------------
// shuffle
// ---------------------------------------------------------------------------------------------------------------------
static void put_operand(vj::W& w, const Operand_& op) {
  w.beginObj();
  if (op.is_reg()) {
    const Reg& r = op.as<Reg>();
    w.kv("k", "reg").kv("g", group_name(r.reg_group())).kv("id", r.id()).kv("sz", reg_type_size(r.reg_type()))
     .kv("bg", "").kv("b", 0).kv("d", 0).kv("x", false);
  }
  else if (op.is_mem()) {
    const BaseMem& m = op.as<BaseMem>();
    bool simple = m.has_base_reg() && !m.has_index();
    long long d = m.offset();
    if (d > 1000000 || d < -1000000) { simple = false; d = 0; }
    w.kv("k", "mem").kv("g", "").kv("id", 0).kv("sz", (unsigned)op.signature().size())
     .kv("bg", m.has_base_reg() ? "gp" : "none").kv("b", m.has_base_reg() ? m.base_id() : 0u).kv("d", d).kv("x", !simple);
  }
  else if (op.is_imm()) {
    long long v = op.as<Imm>().value();
    if (v > 1000000 || v < -1000000) v = 1000001;
    w.kv("k", "imm").kv("g", "").kv("id", 0).kv("sz", 0).kv("bg", "").kv("b", 0).kv("d", v).kv("x", false);
  }
  else {
    w.kv("k", "other").kv("g", "").kv("id", 0).kv("sz", 0).kv("bg", "").kv("b", 0).kv("d", 0).kv("x", false);
  }
  w.endObj();
}

static void put_dst_echo(vj::W& w, const vj::Value& dst) {
  w.key("dst").beginArr();
  for (auto& d : dst.arr) {
    w.beginObj().kv("k", d["k"].s()).kv("rt", d.has("rt") ? d["rt"].s() : std::string("none"))
     .kv("id", d.has("id") ? d["id"].i() : 0LL).kv("off", d.has("off") ? d["off"].i() : 0LL)
     .kv("t", d.has("t") ? d["t"].s() : std::string("")).endObj();
  }
  w.endArr();
}

template<typename BuilderT, typename AssemblerT>
static void run_shuffle(const vj::Value& in, const Environment& env, FILE* out) {
  vj::W w;
  FuncSignature sig;
  std::string why;
  if (!build_signature(in, sig, why)) { fprintf(stderr, "bad case (%s)\n", why.c_str()); exit(3); }
  w.beginObj().kv("e", "Case").kv("env", in["env"].s()).kv("conv", in["conv"].s());
  put_strs(w, "args", in["args"]);
  put_dst_echo(w, in["dst"]);
  long long fp = in.has("fp") ? in["fp"].i() : 0, avx = in.has("avx") ? in["avx"].i() : 0;
  long long sa = in.has("sa") ? in["sa"].i() : 255, lalign = in.has("lalign") ? in["lalign"].i() : 0, lsize = in.has("lsize") ? in["lsize"].i() : 0;
  w.kv("fp", fp).kv("avx", avx).kv("sa", sa).kv("lalign", lalign).kv("lsize", lsize);
  w.kv("bits", env.is_32bit() ? 32 : 64).kv("family", env.is_family_x86() ? "x86" : "a64");

  CodeHolder code;
  code.init(env);
  BuilderT b(&code);

  FuncDetail fd;
  Error e0 = fd.init(sig, env);
  FuncFrame frame;
  Error e1 = Error::kOk, e2 = Error::kOk, e3 = Error::kOk, e4 = Error::kOk;
  FuncArgsAssignment args(&fd);
  bool assigned_ok = true;
  if (e0 == Error::kOk) {
    e1 = frame.init(fd);
    if (fp) frame.set_preserved_fp();
    if (avx == 1) frame.set_avx_enabled();
    if (avx == 2) { frame.set_avx_enabled(); frame.set_avx512_enabled(); }
    if (lalign) frame.set_local_stack_alignment((uint32_t)lalign);
    if (lsize) frame.set_local_stack_size((uint32_t)lsize);
    unsigned i = 0;
    for (auto& d : in["dst"].arr) {
      TypeId t = TypeId::kVoid;
      if (d.has("t") && !d["t"].s().empty()) type_from_name(d["t"].s(), t);
      if (d["k"].s() == "reg") {
        RegType rt;
        if (!reg_type_from_name(d["rt"].s(), rt)) { assigned_ok = false; break; }
        args.assign_reg(i, rt, (uint32_t)d["id"].i(), t);
      }
      else if (d["k"].s() == "stack") {
        args.assign_stack(i, (int32_t)d["off"].i(), t);
      }
      i++;
    }
    if (sa != 255) args.set_sa_reg_id((uint32_t)sa);
  }
  w.kv("e0", err_name(e0)).kv("e1", err_name(e1));
  // source locations as FuncDetail reports them
  w.key("src").beginArr();
  if (e0 == Error::kOk) for (unsigned i = 0; i < fd.arg_count(); i++) put_value(w, fd.arg(i, 0), true);
  w.endArr();

  if (e0 == Error::kOk && e1 == Error::kOk && assigned_ok) {
    e2 = args.update_func_frame(frame);
    if (e2 == Error::kOk) e3 = frame.finalize();
    if (e2 == Error::kOk && e3 == Error::kOk) e4 = b.emit_args_assignment(frame, args);
  }
  w.kv("e2", err_name(e2)).kv("e3", err_name(e3)).kv("e4", err_name(e4));

  // frame record
  const ArchTraits& at = ArchTraits::by_arch(env.arch());
  w.key("frame").beginObj()
   .kv("sp", at.sp_reg_id()).kv("fpreg", at.fp_reg_id())
   .kv("sa_reg", frame.sa_reg_id()).kv("sa_sp", frame.has_dynamic_alignment() ? 0u : frame.sa_offset_from_sp()).kv("sa_sa", frame.sa_offset_from_sa())
   .kv("da", frame.has_dynamic_alignment()).kv("has_fp", frame.has_preserved_fp())
   .kv("final_size", frame.final_stack_size()).kv("local_off", frame.local_stack_offset()).kv("local_size", frame.local_stack_size())
   .kv("regsize", env.is_32bit() ? 4 : 8);
  put_masks(w, "dirty", frame.dirty_regs(RegGroup::kGp), frame.dirty_regs(RegGroup::kVec), frame.dirty_regs(RegGroup::kMask), frame.dirty_regs(RegGroup::kX86_MM));
  put_masks(w, "pres", frame.preserved_regs(RegGroup::kGp), frame.preserved_regs(RegGroup::kVec), frame.preserved_regs(RegGroup::kMask), frame.preserved_regs(RegGroup::kX86_MM));
  w.endObj();

  // the instruction list
  w.key("insts").beginArr();
  unsigned ninst = 0;
  bool foreign = false;
  for (BaseNode* n = b.first_node(); n; n = n->next()) {
    if (n->is_inst()) {
      InstNode* in_ = n->as<InstNode>();
      String name;
      InstAPI::inst_id_to_string(env.arch(), in_->inst_id(), InstStringifyOptions::kNone, name);
      w.beginObj().kv("op", name.data());
      w.key("o").beginArr();
      for (const Operand& op : in_->operands()) put_operand(w, op);
      w.endArr().endObj();
      ninst++;
    }
    else if (n->type() != NodeType::kComment && n->type() != NodeType::kSection && n->type() != NodeType::kLabel && n->type() != NodeType::kAlign) {
      foreign = true;
    }
  }
  w.endArr();
  w.kv("ninst", ninst).kv("foreign", foreign);

  // do all emitted instructions exist (can an Assembler encode them)?
  Error e5 = Error::kOk;
  {
    AssemblerT a(&code);
    e5 = b.serialize_to(&a);
  }
  w.kv("enc", err_name(e5));
  w.kv("abort", "");        // filled in by the runner when the sanitizer build aborted on this input
  w.endObj().emit(out);
  fflush(out);
}

static int cmd_shuffle(const char* inp, const char* outp) {
  auto recs = vj::read_ndjson(inp);
  FILE* out = fopen(outp, "w");
  if (!out) return 3;
  vj::install_abort_handlers(out);
  for (auto& in : recs) {
    Environment env;
    if (!env_from_name(in["env"].s(), env)) { fprintf(stderr, "bad env\n"); return 3; }
    if (env.is_family_x86()) run_shuffle<x86::Builder, x86::Assembler>(in, env, out);
    else run_shuffle<a64::Builder, a64::Assembler>(in, env, out);
  }
  fclose(out);
  return 0;
}

int main(int argc, char** argv) {
  if (argc < 4) { fprintf(stderr, "usage: funcabi observe|shuffle <in.ndjson> <out.ndjson>\n"); return 3; }
  std::string mode = argv[1];
  if (mode == "observe") return cmd_observe(argv[2], argv[3]);
  if (mode == "shuffle") return cmd_shuffle(argv[2], argv[3]);
  return 3;
}
