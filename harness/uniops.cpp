// X07 harness: every universal operation of asmjit::ujit::UniCompiler on every x86 code path.
//
//   uniops observe <part> <out.ndjson> <quick|thorough>     part = gp | cond | vec | mem | misc | consts | a64 | all-x86
//   uniops replay  <in.ndjson> <out.ndjson>                 re-execute the recorded cases (same op/form/level/inputs)
//   uniops life    <script.ndjson> <trace.ndjson>           life-cycle scripts (see spec/ujit/UniLife.tla)
//   uniops dump    <kind> <op> <form> <width> <level> [imm]   print the code of one case (debugging aid)
//
// For every (operation, operand form, vector width, feature level, immediate) a tiny function  void f(uint8_t* io)  is
// JIT-compiled through the real UniCompiler (the features handed to it are RESTRICTED to the level), the register
// allocated code is formatted (its hash names the instruction-sequence variant), every instruction is passed to
// InstAPI::query_features (an instruction that needs a CPU feature the level does not grant is recorded in `need`),
// and the function is executed on boundary + random inputs.  The harness computes NO expected value: it records
// (op, form, width, level, inputs, outputs); TLC judges every record with spec/ujit/UniOps.tla.
// The scaffolding (loading inputs / storing outputs) is emitted through the raw x86::Compiler, not through UniCompiler.
#include <asmjit/core.h>
#include <asmjit/x86.h>
#include <asmjit/ujit.h>
#include "vjson.h"
#include "lib_uniops_names.h"
#include <setjmp.h>
#include <signal.h>
#include <string>
#include <vector>
#include <map>
#include <set>
#include <functional>
#include <algorithm>

using namespace asmjit;
using namespace asmjit::ujit;
using Ext = CpuFeatures::X86;

// ---------------------------------------------------------------------------------------------------------------------
// names
// ---------------------------------------------------------------------------------------------------------------------
template<typename E> struct OpName { E op; const char* name; };
#define X(n) { UniOpCond::n, #n },
static const std::vector<OpName<UniOpCond>> kCond = { X07_UNIOPCOND(X) };
#undef X
#define X(n) { UniOpM::n, #n },
static const std::vector<OpName<UniOpM>> kM = { X07_UNIOPM(X) };
#undef X
#define X(n) { UniOpRM::n, #n },
static const std::vector<OpName<UniOpRM>> kRM = { X07_UNIOPRM(X) };
#undef X
#define X(n) { UniOpMR::n, #n },
static const std::vector<OpName<UniOpMR>> kMR = { X07_UNIOPMR(X) };
#undef X
#define X(n) { UniOpRR::n, #n },
static const std::vector<OpName<UniOpRR>> kRR = { X07_UNIOPRR(X) };
#undef X
#define X(n) { UniOpRRR::n, #n },
static const std::vector<OpName<UniOpRRR>> kRRR = { X07_UNIOPRRR(X) };
#undef X
#define X(n) { UniOpVR::n, #n },
static const std::vector<OpName<UniOpVR>> kVR = { X07_UNIOPVR(X) };
#undef X
#define X(n) { UniOpVM::n, #n },
static const std::vector<OpName<UniOpVM>> kVM = { X07_UNIOPVM(X) };
#undef X
#define X(n) { UniOpMV::n, #n },
static const std::vector<OpName<UniOpMV>> kMV = { X07_UNIOPMV(X) };
#undef X
#define X(n) { UniOpVV::n, #n },
static const std::vector<OpName<UniOpVV>> kVV = { X07_UNIOPVV(X) };
#undef X
#define X(n) { UniOpVVI::n, #n },
static const std::vector<OpName<UniOpVVI>> kVVI = { X07_UNIOPVVI(X) };
#undef X
#define X(n) { UniOpVVV::n, #n },
static const std::vector<OpName<UniOpVVV>> kVVV = { X07_UNIOPVVV(X) };
#undef X
#define X(n) { UniOpVVVI::n, #n },
static const std::vector<OpName<UniOpVVVI>> kVVVI = { X07_UNIOPVVVI(X) };
#undef X
#define X(n) { UniOpVVVV::n, #n },
static const std::vector<OpName<UniOpVVVV>> kVVVV = { X07_UNIOPVVVV(X) };
#undef X

static bool has(const std::string& s, const char* sub) { return s.find(sub) != std::string::npos; }
static bool ends(const std::string& s, const char* suf) { size_t n = strlen(suf); return s.size() >= n && s.compare(s.size() - n, n, suf) == 0; }
static bool starts(const std::string& s, const char* p) { return s.compare(0, strlen(p), p) == 0; }

// ---------------------------------------------------------------------------------------------------------------------
// feature levels: every gate predicate of unicompiler_x86.cpp (has_sse3/ssse3/sse4_1/sse4_2/avx/avx2/fma/avx512/
// avx512_vbmi/avx512_fp16 for vectors, has_bmi/bmi2/lzcnt/movbe for scalars) is false in one level and true in another.
// ---------------------------------------------------------------------------------------------------------------------
struct Level { std::string name; CpuFeatures f; int maxw; };   // maxw: 0 = 128, 1 = 256, 2 = 512
static std::vector<Level> g_vlevels, g_glevels;
static CpuFeatures g_host;

static CpuFeatures base_features() {
  CpuFeatures f;
  f.add(Ext::kI486, Ext::kCMOV, Ext::kCMPXCHG8B, Ext::kFPU, Ext::kSSE, Ext::kSSE2);
  return f;
}

static void init_levels() {
  g_host = CpuInfo::host().features();
  auto H = [&](CpuFeatures f) { for (uint32_t i = 0; i < CpuFeatures::kNumBitWords; i++) f.data()._bits[i] &= g_host.data()._bits[i]; return f; };
  CpuFeatures f = base_features();
  g_vlevels.push_back({"sse2", f, 0});
  f.add(Ext::kSSE3);   g_vlevels.push_back({"sse3", f, 0});
  f.add(Ext::kSSSE3);  g_vlevels.push_back({"ssse3", f, 0});
  f.add(Ext::kSSE4_1); g_vlevels.push_back({"sse41", f, 0});
  f.add(Ext::kSSE4_2, Ext::kPOPCNT); g_vlevels.push_back({"sse42", f, 0});
  f.add(Ext::kAVX);    g_vlevels.push_back({"avx", f, 0});
  { CpuFeatures g = f; g.add(Ext::kFMA, Ext::kF16C); g_vlevels.push_back({"avx_fma", g, 0}); }
  f.add(Ext::kAVX2);   g_vlevels.push_back({"avx2", f, 1});
  f.add(Ext::kFMA, Ext::kF16C); g_vlevels.push_back({"avx2_fma", f, 1});
  f.add(Ext::kAVX512_F, Ext::kAVX512_BW, Ext::kAVX512_DQ, Ext::kAVX512_CD, Ext::kAVX512_VL);
  g_vlevels.push_back({"avx512", f, 2});
  f.add(Ext::kAVX512_VBMI, Ext::kAVX512_VBMI2, Ext::kAVX512_IFMA, Ext::kAVX512_VNNI, Ext::kAVX512_BITALG, Ext::kAVX512_VPOPCNTDQ, Ext::kGFNI, Ext::kVAES, Ext::kVPCLMULQDQ);
  g_vlevels.push_back({"avx512_vbmi", f, 2});
  f.add(Ext::kAVX512_FP16, Ext::kAVX512_BF16);
  g_vlevels.push_back({"avx512_fp16", f, 2});
  for (auto& l : g_vlevels) l.f = H(l.f);
  // drop levels the host cannot execute (a level that lost a feature by the host mask equals its predecessor)
  std::vector<Level> keep;
  for (auto& l : g_vlevels) { bool dup = false; for (auto& k : keep) if (k.f == l.f) dup = true; if (!dup) keep.push_back(l); }
  g_vlevels = keep;
  // scalar levels: all 16 combinations of BMI, BMI2, LZCNT, MOVBE on top of SSE2
  for (int m = 0; m < 16; m++) {
    CpuFeatures g = base_features();
    // fixed-position names "gp-bBlm": b = BMI, B = BMI2, l = LZCNT, m = MOVBE, '_' = absent (so that fnmatch patterns can select a gate)
    std::string n = "gp-____";
    if (m & 1) { g.add(Ext::kBMI); n[3] = 'b'; }
    if (m & 2) { g.add(Ext::kBMI2); n[4] = 'B'; }
    if (m & 4) { g.add(Ext::kLZCNT); n[5] = 'l'; }
    if (m & 8) { g.add(Ext::kMOVBE); n[6] = 'm'; }
    CpuFeatures hg = H(g);
    if (!(hg == g)) continue;
    g_glevels.push_back({n, g, 0});
  }
}

static const Level* find_level(const std::string& n) {
  for (auto& l : g_vlevels) if (l.name == n) return &l;
  for (auto& l : g_glevels) if (l.name == n) return &l;
  return nullptr;
}

// ---------------------------------------------------------------------------------------------------------------------
// io block layout (64-byte aligned):  every generated function is  void f(uint8_t* io)
// ---------------------------------------------------------------------------------------------------------------------
enum : int { kOffDst = 0, kOffA = 64, kOffB = 128, kOffC = 192, kOffD0 = 256, kOffGp = 320, kOffMem = 384, kMemGuard = 32, kIoSize = 640 };
// gp area: 8 x u64: [0] = out0, [1] = a, [2] = b, [3] = d0 (initial dst), [4] = out1 (flag / second result), [5] = c
struct alignas(64) Io { uint8_t b[kIoSize]; };

// ---------------------------------------------------------------------------------------------------------------------
// JIT context
// ---------------------------------------------------------------------------------------------------------------------
class ErrH : public ErrorHandler {
public:
  Error first = Error::kOk;
  std::string msg;
  void handle_error(Error err, const char* message, BaseEmitter*) override {
    if (first == Error::kOk) { first = err; msg = message ? message : ""; }
  }
};

typedef void (*Fn)(uint8_t*);

struct Built {
  Fn fn = nullptr;
  std::string err;              // non-empty: the case could not be compiled (error text)
  std::string code;             // formatted instructions after register allocation (normalised)
  uint32_t hash = 0;
  std::vector<std::string> need; // CPU features some emitted instruction needs although the level does not grant them
  uint32_t ninst = 0;
};

static uint32_t fnv(const std::string& s) { uint32_t h = 2166136261u; for (unsigned char c : s) { h ^= c; h *= 16777619u; } return h & 0x7FFFFFFFu; }

struct Jit {
  JitRuntime rt;
  CodeHolder code;
  ErrH eh;

  // body(uc, io) emits the function body; scaffolding helpers are in Scaf.
  Built build(const Level& lvl, int vw, const std::function<void(UniCompiler&, x86::Compiler&, const x86::Gp&)>& body, bool validate = true) {
    Built r;
    eh.first = Error::kOk; eh.msg.clear();
    code.reset();
    code.init(rt.environment(), lvl.f);
    code.set_error_handler(&eh);
    x86::Compiler cc(&code);
    if (validate) {
      cc.add_diagnostic_options(DiagnosticOptions::kValidateAssembler);
      cc.add_diagnostic_options(DiagnosticOptions::kValidateIntermediate);
    }
    {
      UniCompiler uc(&cc, lvl.f, CpuHints::kNone);
      uc.init_vec_width(VecWidth(vw));
      FuncNode* node = uc.add_func(FuncSignature::build<void, void*>());
      if (!node) { r.err = "add_func failed"; return r; }
      x86::Gp io = uc.new_gpz("io");
      node->set_arg(0, io);
      body(uc, cc, io);
      uc.end_func();
    }
    if (eh.first != Error::kOk) { r.err = std::string("emit:") + DebugUtils::error_as_string(eh.first) + ":" + eh.msg; return r; }
    Error e = cc.run_passes();
    if (e != Error::kOk || eh.first != Error::kOk) { r.err = std::string("passes:") + DebugUtils::error_as_string(e != Error::kOk ? e : eh.first) + ":" + eh.msg; return r; }
    // walk the allocated code: text + feature requirements
    String sb;
    CpuFeatures needed;
    for (BaseNode* n = cc.first_node(); n; n = n->next()) {
      if (!n->is_inst()) continue;
      InstNode* in = n->as<InstNode>();
      r.ninst++;
      sb.clear();
      Formatter::format_instruction(sb, FormatFlags::kNone, &cc, cc.arch(), in->baseInst(), Span<const Operand_>(in->operands().data(), in->op_count()));
      r.code += sb.data();
      r.code += '\n';
      CpuFeatures q;
      if (InstAPI::query_features(cc.arch(), in->baseInst(), in->operands().data(), in->op_count(), &q) == Error::kOk) {
        for (uint32_t i = 0; i < CpuFeatures::kNumBitWords; i++) needed.data()._bits[i] |= q.data()._bits[i];
      }
    }
    {
      CpuFeatures::Iterator it = needed.iterator();
      while (it.has_next()) {
        uint32_t id = uint32_t(it.next());
        if (lvl.f.has(id)) continue;
        // features implied by the baseline every x86-64 CPU has
        if (id == uint32_t(Ext::kMMX) || id == uint32_t(Ext::kMMX2) || id == uint32_t(Ext::kFXSR) || id == uint32_t(Ext::kI486) ||
            id == uint32_t(Ext::kCMOV) || id == uint32_t(Ext::kSSE) || id == uint32_t(Ext::kSSE2) || id == uint32_t(Ext::kFPU) ||
            id == uint32_t(Ext::kLAHFSAHF) || id == uint32_t(Ext::kPREFETCHW)) continue;
        sb.clear();
        Formatter::format_feature(sb, Arch::kX64, id);
        r.need.push_back(sb.data());
      }
    }
    // normalise absolute addresses (the constant table lives at an ASLR dependent address)
    {
      std::string& c = r.code;
      std::string out; out.reserve(c.size());
      for (size_t i = 0; i < c.size();) {
        if (c[i] == '0' && i + 1 < c.size() && c[i + 1] == 'x') {
          size_t j = i + 2; while (j < c.size() && isxdigit((unsigned char)c[j])) j++;
          if (j - i - 2 > 8) { out += "ADDR"; i = j; continue; }
        }
        if (isdigit((unsigned char)c[i]) && (i == 0 || !isalnum((unsigned char)c[i - 1]))) {
          size_t j = i; while (j < c.size() && isdigit((unsigned char)c[j])) j++;
          if (j - i > 11) { out += "ADDR"; i = j; continue; }
        }
        out += c[i++];
      }
      c.swap(out);
    }
    r.hash = fnv(r.code);
    // serialise
    x86::Assembler a(&code);
    if (validate) a.add_diagnostic_options(DiagnosticOptions::kValidateAssembler);
    e = cc.serialize_to(&a);
    if (e != Error::kOk || eh.first != Error::kOk) { r.err = std::string("assemble:") + DebugUtils::error_as_string(e != Error::kOk ? e : eh.first) + ":" + eh.msg; return r; }
    Fn fn = nullptr;
    e = rt.add(&fn, &code);
    if (e != Error::kOk) { r.err = std::string("rt.add:") + DebugUtils::error_as_string(e); return r; }
    r.fn = fn;
    return r;
  }
  void release(Fn fn) { if (fn) rt.release(fn); }
};

// ---------------------------------------------------------------------------------------------------------------------
// guarded execution
// ---------------------------------------------------------------------------------------------------------------------
static sigjmp_buf g_jmp;
static volatile int g_sig = 0;
static void on_signal(int sig) { g_sig = sig; siglongjmp(g_jmp, 1); }
static void install_signals() {
  static uint8_t altstack[1 << 16];
  stack_t ss{}; ss.ss_sp = altstack; ss.ss_size = sizeof(altstack); sigaltstack(&ss, nullptr);
  struct sigaction sa{}; sa.sa_handler = on_signal; sa.sa_flags = SA_ONSTACK | SA_NODEFER; sigemptyset(&sa.sa_mask);
  for (int s : {SIGILL, SIGSEGV, SIGFPE, SIGBUS, SIGTRAP}) sigaction(s, &sa, nullptr);
}
// returns 0 or the signal number
static int run_guarded(Fn fn, uint8_t* io) {
  g_sig = 0;
  if (sigsetjmp(g_jmp, 1) == 0) { fn(io); return 0; }
  return g_sig;
}

// ---------------------------------------------------------------------------------------------------------------------
// scaffolding emitted through the raw compiler (independent of the code under test)
// ---------------------------------------------------------------------------------------------------------------------
struct Scaf {
  x86::Compiler& cc; const Level& lvl; x86::Gp io;
  bool avx() const { return lvl.f.x86().has_avx(); }
  void vload(const x86::Vec& v, int off) {
    x86::Mem m = x86::ptr(io, off);
    if (v.is_vec512()) cc.vmovdqu32(v, m); else if (avx()) cc.vmovdqu(v, m); else cc.movdqu(v, m);
  }
  void vstore(int off, const x86::Vec& v) {
    x86::Mem m = x86::ptr(io, off);
    if (v.is_vec512()) cc.vmovdqu32(m, v); else if (avx()) cc.vmovdqu(m, v); else cc.movdqu(m, v);
  }
  void gload(const x86::Gp& r, int slot) { cc.mov(r, x86::ptr(io, kOffGp + slot * 8, r.size())); }
  void gstore(int slot, const x86::Gp& r) { cc.mov(x86::ptr(io, kOffGp + slot * 8, r.size()), r); }
};

// ---------------------------------------------------------------------------------------------------------------------
// inputs
// ---------------------------------------------------------------------------------------------------------------------
static vj::Rng g_rng(1);
static bool g_quick = true;

static uint64_t bnd_int(int bytes, vj::Rng& r) {
  // boundary values of a `bytes` wide lane
  int bits = bytes * 8;
  uint64_t M = bits == 64 ? ~0ull : ((1ull << bits) - 1);
  uint64_t S = 1ull << (bits - 1);
  static const int kN = 18;
  switch (r.below(kN + 10)) {
    case 0: return 0; case 1: return 1; case 2: return M; case 3: return S; case 4: return S - 1; case 5: return S + 1;
    case 6: return M - 1; case 7: return 2; case 8: return 0x5555555555555555ull & M; case 9: return 0xAAAAAAAAAAAAAAAAull & M;
    case 10: return 0x00FF00FF00FF00FFull & M; case 11: return 0xFF00FF00FF00FF00ull & M; case 12: return 0x7F; case 13: return 0x80;
    case 14: return 0xFF; case 15: return 0x100 & M; case 16: return (S >> 1); case 17: return (M >> 1) - 1;
    default: {
      uint64_t v = r.next() & M;
      switch (r.below(4)) { case 0: v &= 0xFF; break; case 1: v |= S; break; default: break; }
      return v;
    }
  }
}

static uint32_t f32_bits(float f) { uint32_t u; memcpy(&u, &f, 4); return u; }
static uint64_t f64_bits(double f) { uint64_t u; memcpy(&u, &f, 8); return u; }

// float classes (see spec/ujit/UniFloat.tla):  C = compare/minmax (any class of value), A = exact arithmetic (small
// integers), R = rounding, V = conversion sources
static uint64_t fp_value(char cls, int bytes, vj::Rng& r) {
  bool f32 = bytes == 4;
  auto mk = [&](double d) -> uint64_t { return f32 ? uint64_t(f32_bits(float(d))) : f64_bits(d); };
  uint64_t qnan = f32 ? 0x7FC00000u : 0x7FF8000000000000ull;
  uint64_t nqnan = f32 ? 0xFFC00001u : 0xFFF8000000000001ull;
  uint64_t inf = f32 ? 0x7F800000u : 0x7FF0000000000000ull;
  uint64_t sign = f32 ? 0x80000000u : 0x8000000000000000ull;
  uint64_t den = f32 ? 0x00000001u : 0x0000000000000001ull;
  uint64_t maxf = f32 ? 0x7F7FFFFFu : 0x7FEFFFFFFFFFFFFFull;
  switch (cls) {
    case 'C': {
      switch (r.below(20)) {
        case 0: return 0; case 1: return sign; case 2: return qnan; case 3: return nqnan; case 4: return inf; case 5: return inf | sign;
        case 6: return den; case 7: return den | sign; case 8: return maxf; case 9: return maxf | sign; case 10: return mk(1.0); case 11: return mk(-1.0);
        case 12: return mk(1.5); case 13: return mk(-2.25);
        default: return mk(double(int64_t(r.below(2001)) - 1000) / 4.0);
      }
    }
    case 'A': {   // small integers |v| <= 1000 (sums, differences, products stay exact in f32)
      int64_t v = int64_t(r.below(2001)) - 1000;
      if (r.below(8) == 0) v = int64_t(r.below(7)) - 3;
      return mk(double(v));
    }
    case 'N': {   // non-zero small integers
      int64_t v = 1 + int64_t(r.below(r.below(3) ? 12 : 40));
      return mk(double(r.below(2) ? v : -v));
    }
    case 'B': {   // integers whose products are NOT exactly representable (the fused / unfused results differ)
      int64_t lim = f32 ? (1 << 24) : (1 << 30);
      int64_t v;
      switch (r.below(6)) {
        case 0: v = int64_t(r.below(2001)) - 1000; break;
        case 1: v = (lim >> 12) + 1; break;                           // 4097 / 2^18 + 1
        case 2: v = lim - 1 - int64_t(r.below(16)); break;
        default: v = int64_t(r.below(uint64_t(lim))); break;
      }
      if (r.below(2)) v = -v;
      return mk(double(v));
    }
    case 'P': {   // small positive integers 1..1000
      return mk(double(1 + r.below(r.below(3) ? 40 : 1000)));
    }
    case 'Q': {   // perfect squares
      uint64_t k = r.below(1000);
      return mk(double(k * k));
    }
    case 'W': {   // powers of two 2^-12 .. 2^12, either sign
      int k = int(r.below(25)) - 12;
      double d = k >= 0 ? double(1u << k) : 1.0 / double(1u << -k);
      return mk(r.below(2) ? d : -d);
    }
    case 'R': {   // rounding inputs
      switch (r.below(28)) {
        case 0: return 0; case 1: return sign; case 2: return qnan; case 3: return inf; case 4: return inf | sign;
        case 5: return mk(0.5); case 6: return mk(-0.5); case 7: return mk(1.5); case 8: return mk(-1.5); case 9: return mk(2.5); case 10: return mk(-2.5);
        case 11: return f32 ? 0x3EFFFFFFu : 0x3FDFFFFFFFFFFFFFull;            // 0.5 - 1ulp
        case 12: return (f32 ? 0x3EFFFFFFu : 0x3FDFFFFFFFFFFFFFull) | sign;
        case 13: return f32 ? 0x4AFFFFFFu : 0x432FFFFFFFFFFFFFull;            // 2^23 - 0.5  /  2^52 - 0.5
        case 14: return (f32 ? 0x4AFFFFFFu : 0x432FFFFFFFFFFFFFull) | sign;
        case 15: return f32 ? 0x4B000000u : 0x4330000000000000ull;            // 2^23 / 2^52
        case 16: return (f32 ? 0x4B000001u : 0x4330000000000001ull) | sign;
        case 17: return den; case 18: return den | sign; case 19: return maxf; case 20: return mk(0.75); case 21: return mk(-0.25);
        case 22: return f32 ? 0x4B800000u : 0x4340000000000000ull;            // 2^24 / 2^53
        case 23: return mk(double(int64_t(r.below(200001)) - 100000) / 2.0);
        case 24: return mk(double(int64_t(r.below(2000001)) - 1000000) / 8.0);
        default: {
          // random exponent around the interesting range, random mantissa
          uint64_t m = r.next();
          if (f32) { uint32_t e = 110 + uint32_t(r.below(50)); return (uint32_t(m) & 0x807FFFFFu) | (e << 23); }
          uint64_t e = 1000 + r.below(90); return (m & 0x800FFFFFFFFFFFFFull) | (e << 52);
        }
      }
    }
    case 'V': {   // conversion sources (float -> int, float <-> double)
      switch (r.below(24)) {
        case 0: return 0; case 1: return sign; case 2: return qnan; case 3: return inf; case 4: return inf | sign;
        case 5: return mk(2147483648.0); case 6: return mk(-2147483648.0); case 7: return mk(2147483520.0); case 8: return mk(-2147483904.0);
        case 9: return mk(4294967296.0); case 10: return mk(0.5); case 11: return mk(-0.5); case 12: return mk(1.5); case 13: return mk(2.5); case 14: return mk(-1.5);
        case 15: return mk(1e30); case 16: return mk(-1e30); case 17: return den;
        case 18: return mk(double(int64_t(r.below(2000001)) - 1000000));
        case 19: return mk(double(int64_t(r.below(200001)) - 100000) / 4.0);
        default: return mk(double(int64_t(r.next() >> 34) - (1 << 29)) / double(1u << r.below(8)));
      }
    }
  }
  return 0;
}

// fills a 64-byte vector with lanes of `bytes` bytes drawn from class `cls` ('i' = integer boundaries / random)
static void fill_vec(uint8_t* dst, int bytes, char cls, vj::Rng& r) {
  for (int i = 0; i < 64; i += bytes) {
    uint64_t v = (cls == 'i') ? bnd_int(bytes, r) : (cls == 'x') ? r.next() : fp_value(cls, bytes, r);
    memcpy(dst + i, &v, bytes);
  }
}

// ---------------------------------------------------------------------------------------------------------------------
// output
// ---------------------------------------------------------------------------------------------------------------------
static FILE* g_out = nullptr;
static uint64_t g_nobs = 0, g_nvariants = 0, g_ncompiled = 0;

struct CaseKey {
  std::string k, op, form, lvl; int w = 0; long long imm = -1; int idx = -1; int sz = 0; std::string cc; std::string var;
};

static void w_key(vj::W& w, const CaseKey& c) {
  w.kv("k", c.k).kv("op", c.op).kv("form", c.form).kv("w", 16 << c.w).kv("lvl", c.lvl);
  w.kv("imm", c.imm).kv("idx", c.idx).kv("sz", c.sz);
  if (!c.cc.empty()) w.kv("cc", c.cc);
  if (!c.var.empty()) w.kv("var", c.var);
}

static void emit_fail(const CaseKey& c, const Built& b) {
  vj::W w; w.beginObj(); w.kv("t", "fail"); w_key(w, c); w.kv("err", b.err); w.endObj(); w.emit(g_out); g_nobs++;
}
static void emit_variant(const CaseKey& c, const Built& b, bool fresh) {
  vj::W w; w.beginObj(); w.kv("t", "var"); w_key(w, c); w.kv("hash", (long long)b.hash).kv("ninst", (long long)b.ninst).kv("fresh", fresh);
  w.key("need").beginArr(); for (auto& s : b.need) w.val(s); w.endArr();
  if (fresh && getenv("X07_CODE")) w.kv("code", b.code);
  w.endObj(); w.emit(g_out); g_nobs++;
}

// dedupe of instruction-sequence variants: (kind, op, form, width, imm, idx, sz, cc, var) -> hashes already executed
static std::map<std::string, std::set<uint32_t>> g_seen;
static std::string case_id(const CaseKey& c) {
  return c.k + "|" + c.op + "|" + c.form + "|" + std::to_string(c.w) + "|" + std::to_string(c.imm) + "|" + std::to_string(c.idx) + "|" + std::to_string(c.sz) + "|" + c.cc + "|" + c.var;
}

// ---------------------------------------------------------------------------------------------------------------------
// vector operations: metadata derived from the enumerator names
// ---------------------------------------------------------------------------------------------------------------------
struct VMeta {
  int lane = 4;          // bytes of an input lane
  char cls = 'i';        // input class of source a
  char clsb = 0;         // class of source b (0 = same as a)
  char clsc = 0;
  int minw = 0, maxw = 2;
  const char* minlvl = "sse2";
  bool scalar = false;
};

static int lane_of(const std::string& n) {
  // the element width named last in the enumerator
  size_t best = std::string::npos; int lane = 4;
  static const struct { const char* s; int b; } T[] = { {"I8", 1}, {"U8", 1}, {"I16", 2}, {"U16", 2}, {"I32", 4}, {"U32", 4}, {"F32", 4}, {"I64", 8}, {"U64", 8}, {"F64", 8}, {"U128", 16} };
  for (auto& t : T) {
    size_t p = n.find(t.s);
    // skip "U8" inside "U8ToU16" handled by taking the first occurrence = source type
    if (p != std::string::npos && (best == std::string::npos || p < best)) { best = p; lane = t.b; }
  }
  return lane;
}

static bool is_float_arith(const std::string& n) {
  return (has(n, "F32") || has(n, "F64")) && (starts(n, "kAdd") || starts(n, "kSub") || starts(n, "kMul") || starts(n, "kDiv") || starts(n, "kMod") ||
         starts(n, "kMAdd") || starts(n, "kMSub") || starts(n, "kNMAdd") || starts(n, "kNMSub") || starts(n, "kHAdd"));
}

static VMeta vmeta(const std::string& kind, const std::string& n) {
  VMeta m;
  m.lane = lane_of(n);
  if (m.lane == 16) m.lane = 1;
  bool fl = has(n, "F32") || has(n, "F64");
  m.scalar = fl && (ends(n, "F32S") || ends(n, "F64S"));
  if (fl) {
    if (starts(n, "kMin") || starts(n, "kMax") || starts(n, "kCmp")) m.cls = 'C';
    else if (starts(n, "kDiv")) { m.cls = 'A'; m.clsb = 'N'; }
    else if (starts(n, "kMod")) { m.cls = 'P'; m.clsb = 'P'; }
    else if (is_float_arith(n)) m.cls = 'A';
    else if (starts(n, "kSqrt")) m.cls = 'Q';
    else if (starts(n, "kRcp")) m.cls = 'W';
    else if (starts(n, "kTrunc") || starts(n, "kFloor") || starts(n, "kCeil") || starts(n, "kRound")) m.cls = 'R';
    else if (starts(n, "kCvtTrunc") || starts(n, "kCvtRound") || starts(n, "kCvtF32") || starts(n, "kCvtF64")) m.cls = 'V';
    else m.cls = 'i';
  }
  if (starts(n, "kCvtI32ToF32") || starts(n, "kCvtI32LoToF64") || starts(n, "kCvtI32HiToF64")) { m.cls = 'i'; m.lane = 4; }
  if (starts(n, "kCvtF64ToF32")) m.lane = 8;
  if (starts(n, "kCvtTruncF64") || starts(n, "kCvtRoundF64")) m.lane = 8;
  if (starts(n, "kCvtTruncF32") || starts(n, "kCvtRoundF32") || starts(n, "kCvtF32")) m.lane = 4;
  if (starts(n, "kBroadcastV256") || starts(n, "kExtractV256") || starts(n, "kInsertV256")) { m.minw = 2; m.minlvl = "avx512"; }
  if (starts(n, "kExtractV128") || starts(n, "kInsertV128")) { m.minw = 1; m.minlvl = "avx2"; }
  if (starts(n, "kSwizzleU64x4") || starts(n, "kSwizzleF64x4")) { m.minw = 1; m.minlvl = "avx2"; }
  if (starts(n, "kPermute")) { m.minlvl = ends(n, "U8") ? "avx512_vbmi" : "avx512"; }
  if (starts(n, "kPermuteU64") || starts(n, "kPermuteU32")) m.minw = 1;   // vpermd / vpermq need at least 256 bits
  (void)kind;
  return m;
}

static int level_index(const char* name) { for (size_t i = 0; i < g_vlevels.size(); i++) if (g_vlevels[i].name == name) return int(i); return 1 << 20; }

// immediates per VVI / VVVI operation
static std::vector<uint32_t> imms_of(const std::string& n) {
  std::vector<uint32_t> v;
  auto sw4 = [](int d, int c, int b, int a) { return uint32_t(d << 24 | c << 16 | b << 8 | a); };
  auto sw2 = [](int b, int a) { return uint32_t(b << 8 | a); };
  if (starts(n, "kSll") || starts(n, "kSrl") || starts(n, "kSra")) {
    if (ends(n, "U128")) { v = {1, 4, 8, 15}; if (!g_quick) for (uint32_t i : {0u, 2u, 3u, 7u, 9u, 12u, 13u}) v.push_back(i); return v; }
    int bits = lane_of(n) * 8;
    v = {1, uint32_t(bits - 1), uint32_t(bits / 2)};
    if (bits == 64) { v.push_back(33); v.push_back(31); v.push_back(63); v.push_back(0); }
    if (!g_quick) { for (uint32_t i = 0; i < uint32_t(bits); i += (bits == 64 ? 5 : 3)) v.push_back(i); v.push_back(0); v.push_back(uint32_t(bits / 2 + 1)); }
  }
  else if (starts(n, "kSwizzleU16x4") || starts(n, "kSwizzleLoU16x4") || starts(n, "kSwizzleHiU16x4") || starts(n, "kSwizzleU32x4") || starts(n, "kSwizzleF32x4") ||
           starts(n, "kSwizzleU64x4") || starts(n, "kSwizzleF64x4") || starts(n, "kInterleaveShuffleU32x4") || starts(n, "kInterleaveShuffleF32x4")) {
    v = {sw4(3, 2, 1, 0), sw4(0, 1, 2, 3), sw4(2, 3, 0, 1), sw4(1, 1, 3, 3), sw4(0, 0, 0, 0), sw4(3, 3, 1, 1), sw4(1, 0, 3, 2)};
    if (!g_quick) for (int i = 0; i < 256; i += 7) v.push_back(sw4((i >> 6) & 3, (i >> 4) & 3, (i >> 2) & 3, i & 3));
  }
  else if (starts(n, "kSwizzleU64x2") || starts(n, "kSwizzleF64x2") || starts(n, "kInterleaveShuffleU64x2") || starts(n, "kInterleaveShuffleF64x2")) {
    v = {sw2(0, 0), sw2(0, 1), sw2(1, 0), sw2(1, 1)};
  }
  else if (starts(n, "kExtractV128") || starts(n, "kInsertV128")) v = {0, 1, 2, 3};   // filtered by width later
  else if (starts(n, "kExtractV256") || starts(n, "kInsertV256")) v = {0, 1};
  else if (starts(n, "kAlignr")) { v = {1, 4, 8, 12, 15, 0}; if (!g_quick) for (uint32_t i : {2u, 3u, 5u, 7u, 9u, 11u, 13u, 14u}) v.push_back(i); }
  else v = {0};
  std::sort(v.begin(), v.end()); v.erase(std::unique(v.begin(), v.end()), v.end());
  return v;
}

struct VecCase { std::string kind; uint32_t op; std::string name; std::string form; int w; uint32_t imm; };

// emits the body of a vector case.  Register roles: D (destination), A, B, C sources; the form says which coincide
// and which source is a memory operand.
static void vec_body(const VecCase& vc, const Level& lvl, UniCompiler& uc, x86::Compiler& cc, const x86::Gp& io) {
  Scaf s{cc, lvl, io};
  VecWidth vw = VecWidth(vc.w);
  const std::string& f = vc.form;
  x86::Vec D = uc.new_vec_with_width(vw, "D");
  x86::Vec A = uc.new_vec_with_width(vw, "A");
  x86::Vec B = uc.new_vec_with_width(vw, "B");
  x86::Vec C = uc.new_vec_with_width(vw, "C");
  // aliasing
  bool d_a = f == "d=a" || f == "d=a,bm" || f == "d=a,cm" || f == "all";
  bool d_b = f == "d=b" || f == "all";
  bool d_c = f == "d=c";
  bool a_b = f == "a=b" || f == "all";
  bool b_c = f == "b=c";
  bool a_c = f == "a=c";
  bool bm = f == "bm" || f == "d=a,bm" || f == "am";      // last-but-one / only source from memory
  bool cm = f == "cm" || f == "d=a,cm";
  bool gp = f == "gp";
  x86::Vec d = D, a = A, b = B, c = C;
  if (a_b) b = a;
  if (b_c) c = b;
  if (a_c) c = a;
  if (d_a) d = a;
  if (d_b) { d = b; }
  if (d_c) d = c;
  if (f == "all") { a = A; b = A; c = A; d = A; }
  Operand oa = a, ob = b, oc = c;
  int nsrc = vc.kind == "vv" || vc.kind == "vvi" ? 1 : vc.kind == "vvvv" ? 3 : 2;
  if (nsrc == 1) {
    if (f == "am") oa = x86::ptr(io, kOffA);
    else if (gp) {
      x86::Gp g = uc.new_gpz("G");
      cc.mov(g, x86::ptr(io, kOffA, g.size()));
      oa = g;
    }
    else s.vload(a, kOffA);
    if (!(f == "d=a")) s.vload(d, kOffD0);
  }
  else {
    s.vload(a, kOffA);
    if (bm && nsrc >= 2) ob = x86::ptr(io, kOffB); else if (b.id() != a.id()) s.vload(b, kOffB);
    if (nsrc == 3) { if (cm) oc = x86::ptr(io, kOffC); else if (c.id() != a.id() && c.id() != b.id()) s.vload(c, kOffC); }
    if (d.id() != a.id() && d.id() != b.id() && !(nsrc == 3 && d.id() == c.id())) s.vload(d, kOffD0);
  }
  if (vc.kind == "vv") uc.emit_2v(UniOpVV(vc.op), d, oa);
  else if (vc.kind == "vvi") uc.emit_2vi(UniOpVVI(vc.op), d, oa, vc.imm);
  else if (vc.kind == "vvv") uc.emit_3v(UniOpVVV(vc.op), d, oa, ob);
  else if (vc.kind == "vvvi") uc.emit_3vi(UniOpVVVI(vc.op), d, oa, ob, vc.imm);
  else uc.emit_4v(UniOpVVVV(vc.op), d, oa, ob, oc);
  s.vstore(kOffDst, d.clone_as(D));
}

static std::vector<std::string> forms_of(const std::string& kind, const std::string& n) {
  if (kind == "vv" || kind == "vvi") {
    std::vector<std::string> f = {"d,a", "d=a", "am"};
    if (kind == "vv" && starts(n, "kBroadcast") && !has(n, "V128") && !has(n, "V256")) f.push_back("gp");
    return f;
  }
  if (kind == "vvv" || kind == "vvvi") return {"d,a,b", "d=a", "d=b", "a=b", "all", "bm", "d=a,bm"};
  return {"d,a,b,c", "d=a", "d=b", "d=c", "a=b", "b=c", "a=c", "all", "cm", "d=a,cm"};   // "the fourth operand can be register, memory"
}

static int g_inputs_quick = 3, g_inputs_thorough = 24;

struct Filter { std::string op, form, lvl; int w = -1; };
static Filter g_filter;

static void gen_inputs(Io& io, const VMeta& m, vj::Rng& r, int round, const std::string& name) {
  // round 0: structured boundaries, later rounds: more random
  (void)round;
  fill_vec(io.b + kOffA, m.lane, m.cls, r);
  fill_vec(io.b + kOffB, m.lane, m.clsb ? m.clsb : m.cls, r);
  fill_vec(io.b + kOffC, m.lane, m.clsc ? m.clsc : m.cls, r);
  fill_vec(io.b + kOffD0, m.lane, 'x', r);
  if ((starts(name, "kMAddF") || starts(name, "kMSubF") || starts(name, "kNMAddF") || starts(name, "kNMSubF")) && (round % 2) == 1) {
    fill_vec(io.b + kOffA, m.lane, 'B', r);
    fill_vec(io.b + kOffB, m.lane, 'B', r);
    for (int i = 0; i < 64; i += m.lane) {
      // c = +-round(a * b) (+ small integer): cancellation exposes the rounding of the product
      if (m.lane == 4) { float a, b; memcpy(&a, io.b + kOffA + i, 4); memcpy(&b, io.b + kOffB + i, 4); volatile float p = a * b; float c = (r.below(2) ? p : -p) + float(int(r.below(5)) - 2); if (r.below(4) == 0) c = float(int64_t(r.below(1u << 30))); memcpy(io.b + kOffC + i, &c, 4); }
      else { double a, b; memcpy(&a, io.b + kOffA + i, 8); memcpy(&b, io.b + kOffB + i, 8); volatile double p = a * b; double c = (r.below(2) ? p : -p) + double(int(r.below(5)) - 2); if (r.below(4) == 0) c = double(int64_t(r.below(1ull << 50))); memcpy(io.b + kOffC + i, &c, 8); }
    }
  }
  if (starts(name, "kDiv")) {
    // a = q * b with q a small integer so that the quotient is exact
    for (int i = 0; i < 64; i += m.lane) {
      if (m.lane == 4) { float b; memcpy(&b, io.b + kOffB + i, 4); float q = float(int(r.below(201)) - 100); float a = q * b; memcpy(io.b + kOffA + i, &a, 4); }
      else { double b; memcpy(&b, io.b + kOffB + i, 8); double q = double(int(r.below(201)) - 100); double a = q * b; memcpy(io.b + kOffA + i, &a, 8); }
    }
  }
  if (starts(name, "kBlendV")) {
    // the mask (third source) is a byte mask of 0x00 / 0xFF (the two readings of "blend" agree there)
    for (int i = 0; i < 64; i++) io.b[kOffC + i] = r.below(2) ? 0xFF : 0x00;
  }
  if (starts(name, "kSwizzlev") || starts(name, "kPermute")) {
    // index vectors: mostly in range, some with high bits set
    for (int i = 0; i < 64; i += m.lane) {
      uint64_t v = r.below(64);
      if (r.below(4) == 0) v = r.next();
      if (starts(name, "kSwizzlev") && r.below(5) == 0) v |= 0x80;
      memcpy(io.b + kOffB + i, &v, m.lane);
    }
  }
  if (name == "kBroadcastU8Z" || name == "kBroadcastU16Z") {
    // documented assumption: the rest of the source vector is zero
    int keep = name == "kBroadcastU8Z" ? 1 : 2;
    memset(io.b + kOffA + keep, 0, 64 - keep);
  }
}

static void run_vec_case(Jit& jit, const VecCase& vc, const Level& lvl, const VMeta& m) {
  CaseKey ck; ck.k = vc.kind; ck.op = vc.name; ck.form = vc.form; ck.lvl = lvl.name; ck.w = vc.w;
  ck.imm = (vc.kind == "vvi" || vc.kind == "vvvi") ? (long long)vc.imm : -1;
  g_ncompiled++;
  bool fused = false;
  auto body = [&](UniCompiler& uc, x86::Compiler& cc, const x86::Gp& io) { fused = uc.is_fmadd_fused(); vec_body(vc, lvl, uc, cc, io); };
  Built b = jit.build(lvl, vc.w, body);
  if (!b.fn) {
    // rejected by asmjit's own validation: recorded as a failure; the semantics is still observed without validation
    emit_fail(ck, b);
    b = jit.build(lvl, vc.w, body, false);
    if (!b.fn) return;
    ck.var = "noval";
  }
  std::string id = case_id(ck);
  bool fresh = g_seen[id].insert(b.hash).second;
  emit_variant(ck, b, fresh);
  if (fresh) {
    g_nvariants++;
    int n = g_quick ? g_inputs_quick : g_inputs_thorough;
    vj::Rng r(vj::env_seed() * 1000003u + fnv(id) + b.hash);
    for (int k = 0; k < n; k++) {
      Io io; memset(io.b, 0xCD, sizeof(io.b));
      gen_inputs(io, m, r, k, vc.name);
      {
        // make the io block say what the registers hold: aliased sources hold the same data, and d0 is the previous
        // content of the destination register
        const std::string& f = vc.form;
        if (f == "a=b" || f == "all") memcpy(io.b + kOffB, io.b + kOffA, 64);
        if (f == "b=c") memcpy(io.b + kOffC, io.b + kOffB, 64);
        if (f == "a=c" || f == "all") memcpy(io.b + kOffC, io.b + kOffA, 64);
        if (f == "d=a" || f == "d=a,bm" || f == "d=a,cm" || f == "all") memcpy(io.b + kOffD0, io.b + kOffA, 64);
        if (f == "d=b") memcpy(io.b + kOffD0, io.b + kOffB, 64);
        if (f == "d=c") memcpy(io.b + kOffD0, io.b + kOffC, 64);
      }
      Io in = io;
      int sig = run_guarded(b.fn, io.b);
      int W = 16 << vc.w;
      vj::W w; w.beginObj(); w.kv("t", "obs"); w_key(w, ck);
      w.kv("hash", (long long)b.hash).kv("sig", sig);
      if (starts(vc.name, "kRoundHalfUp")) {
        // -0.5 is the one input on which the documented rounding rule and the implemented formula differ (see KNOWN findings)
        bool nh = false;
        for (int i = 0; i < (m.scalar ? m.lane : W); i += m.lane) {
          if (m.lane == 4) { float f; memcpy(&f, in.b + kOffA + i, 4); nh |= f == -0.5f; } else { double f; memcpy(&f, in.b + kOffA + i, 8); nh |= f == -0.5; }
        }
        if (nh) w.kv("tag", "neghalf");
      }
      w.bytes("a", in.b + kOffA, W);
      if (vc.kind != "vv" && vc.kind != "vvi") w.bytes("b", in.b + kOffB, W);
      if (vc.kind == "vvvv") { w.bytes("c", in.b + kOffC, W); w.kv("fused", fused); }   // fused = UniCompiler::is_fmadd_fused() (documented getter)
      w.bytes("d0", in.b + kOffD0, W);
      w.bytes("out", io.b + kOffDst, W);
      w.endObj(); w.emit(g_out); g_nobs++;
    }
  }
  jit.release(b.fn);
}

template<typename E>
static void sweep_vec(Jit& jit, const char* kind, const std::vector<OpName<E>>& ops) {
  for (auto& on : ops) {
    std::string n = on.name;
    if (!g_filter.op.empty() && g_filter.op != n) continue;
    VMeta m = vmeta(kind, n);
    auto forms = forms_of(kind, n);
    auto imms = (std::string(kind) == "vvi" || std::string(kind) == "vvvi") ? imms_of(n) : std::vector<uint32_t>{0};
    for (size_t li = 0; li < g_vlevels.size(); li++) {
      const Level& lvl = g_vlevels[li];
      if (!g_filter.lvl.empty() && g_filter.lvl != lvl.name) continue;
      if (int(li) < level_index(m.minlvl)) continue;
      for (int w = m.minw; w <= std::min(m.maxw, lvl.maxw); w++) {
        if (g_filter.w >= 0 && g_filter.w != w) continue;
        for (auto& f : forms) {
          if (!g_filter.form.empty() && g_filter.form != f) continue;
          for (uint32_t imm : imms) {
            if ((starts(n, "kExtractV128") || starts(n, "kInsertV128")) && imm >= (w == 1 ? 2u : 4u)) continue;
            VecCase vc{kind, uint32_t(on.op), n, f, w, imm};
            run_vec_case(jit, vc, lvl, m);
          }
        }
      }
    }
  }
}

// OpArray overloads of emit_2v / emit_2vi / emit_3v / emit_3vi / emit_4v: "UniCompiler fully understands `VecArray` so it
// can be passed instead of a regular operand"; a shorter source array is cycled.  dst = [d0, d1], a = [a0, a1], b = [b0], c = [c0];
// every destination element is an ordinary observation of the operation.
static void sweep_arr(Jit& jit) {
  struct A { const char* kind; const char* name; uint32_t op; uint32_t imm; };
  const A ops[] = {
    {"vv", "kNotU32", uint32_t(UniOpVV::kNotU32), 0}, {"vv", "kAbsI16", uint32_t(UniOpVV::kAbsI16), 0},
    {"vvi", "kSrlU16", uint32_t(UniOpVVI::kSrlU16), 3}, {"vvi", "kSraI64", uint32_t(UniOpVVI::kSraI64), 17},
    {"vvv", "kSubU8", uint32_t(UniOpVVV::kSubU8), 0}, {"vvv", "kCmpGtU32", uint32_t(UniOpVVV::kCmpGtU32), 0}, {"vvv", "kPacksI32_U16", uint32_t(UniOpVVV::kPacksI32_U16), 0},
    {"vvvi", "kAlignr_U128", uint32_t(UniOpVVVI::kAlignr_U128), 5},
    {"vvvv", "kMAddU32", uint32_t(UniOpVVVV::kMAddU32), 0},
  };
  for (auto& o : ops) for (auto& lvl : g_vlevels) {
    if (!g_filter.op.empty() && g_filter.op != o.name) continue;
    if (lvl.name != "sse2" && lvl.name != "sse41" && lvl.name != "avx2" && lvl.name != "avx512") continue;
    int w = lvl.maxw;
    std::string kind = o.kind;
    CaseKey ck; ck.k = kind; ck.op = o.name; ck.form = "arr"; ck.lvl = lvl.name; ck.w = w; ck.imm = (kind == "vvi" || kind == "vvvi") ? (long long)o.imm : -1;
    bool fused = false;
    auto body = [&](UniCompiler& uc, x86::Compiler& cc, const x86::Gp& io) {
      fused = uc.is_fmadd_fused();
      Scaf s{cc, lvl, io};
      VecWidth vw = VecWidth(w);
      x86::Vec d0 = uc.new_vec_with_width(vw, "d0"), d1 = uc.new_vec_with_width(vw, "d1");
      x86::Vec a0 = uc.new_vec_with_width(vw, "a0"), a1 = uc.new_vec_with_width(vw, "a1");
      x86::Vec b0 = uc.new_vec_with_width(vw, "b0"), c0 = uc.new_vec_with_width(vw, "c0");
      s.vload(a0, kOffA); s.vload(a1, kOffD0); s.vload(b0, kOffB); s.vload(c0, kOffC);
      VecArray D(d0, d1), AA(a0, a1), B(b0), C(c0);
      if (kind == "vv") uc.emit_2v(UniOpVV(o.op), D, AA);
      else if (kind == "vvi") uc.emit_2vi(UniOpVVI(o.op), D, AA, o.imm);
      else if (kind == "vvv") uc.emit_3v(UniOpVVV(o.op), D, AA, B);
      else if (kind == "vvvi") uc.emit_3vi(UniOpVVVI(o.op), D, AA, B, o.imm);
      else uc.emit_4v(UniOpVVVV(o.op), D, AA, B, C);
      s.vstore(kOffDst, d0); s.vstore(kOffMem, d1);
    };
    g_ncompiled++;
    Built b = jit.build(lvl, w, body);
    if (!b.fn) { emit_fail(ck, b); continue; }
    emit_variant(ck, b, true);
    VMeta m = vmeta(kind, o.name);
    vj::Rng r(vj::env_seed() * 7919u + fnv(o.name) + b.hash);
    for (int k = 0; k < 3; k++) {
      Io io; memset(io.b, 0xCD, sizeof(io.b));
      gen_inputs(io, m, r, k, o.name);
      fill_vec(io.b + kOffD0, m.lane, m.cls, r);
      Io in = io;
      int sig = run_guarded(b.fn, io.b);
      int W = 16 << w;
      for (int e = 0; e < 2; e++) {
        vj::W wr; wr.beginObj(); wr.kv("t", "obs"); w_key(wr, ck); wr.kv("hash", (long long)b.hash).kv("sig", sig).kv("tag", e ? "e1" : "e0");
        wr.bytes("a", in.b + (e ? kOffD0 : kOffA), W);
        if (kind != "vv" && kind != "vvi") wr.bytes("b", in.b + kOffB, W);
        if (kind == "vvvv") { wr.bytes("c", in.b + kOffC, W); wr.kv("fused", fused); }
        uint8_t z[64] = {0}; wr.bytes("d0", z, W);
        wr.bytes("out", io.b + (e ? kOffMem : kOffDst), W);
        wr.endObj(); wr.emit(g_out); g_nobs++;
      }
    }
    jit.release(b.fn);
  }
}

#include "lib_uniops_gp.h"
#include "lib_uniops_life.h"

// ---------------------------------------------------------------------------------------------------------------------
int main(int argc, char** argv) {
  if (argc < 2) { fprintf(stderr, "usage: uniops observe|replay|life|dump ...\n"); return 2; }
  if (kVV.size() != size_t(UniOpVV::kMaxValue) + 1 || kVVI.size() != size_t(UniOpVVI::kMaxValue) + 1 || kVVV.size() != size_t(UniOpVVV::kMaxValue) + 1 ||
      kVVVI.size() != size_t(UniOpVVVI::kMaxValue) + 1 || kVVVV.size() != size_t(UniOpVVVV::kMaxValue) + 1 || kVM.size() != size_t(UniOpVM::kMaxValue) + 1 ||
      kMV.size() != size_t(UniOpMV::kMaxValue) + 1 || kVR.size() != size_t(UniOpVR::kMaxValue) + 1 || kRRR.size() != size_t(UniOpRRR::kMaxValue) + 1 ||
      kRR.size() != size_t(UniOpRR::kMaxValue) + 1) {
    fprintf(stderr, "enumerators of uniop.h changed: regenerate harness/lib_uniops_names.h (python3 checks/x07gen.py names)\n");
    return 3;
  }
  for (size_t i = 0; i < kVVV.size(); i++) if (size_t(kVVV[i].op) != i) { fprintf(stderr, "name table out of order\n"); return 3; }
  init_levels();
  install_signals();
  std::string mode = argv[1];
  g_rng = vj::Rng(vj::env_seed());
  if (const char* e = getenv("X07_OP")) g_filter.op = e;
  if (const char* e = getenv("X07_FORM")) g_filter.form = e;
  if (const char* e = getenv("X07_LVL")) g_filter.lvl = e;
  if (const char* e = getenv("X07_W")) g_filter.w = atoi(e);
  if (const char* e = getenv("X07_NIN")) g_inputs_quick = g_inputs_thorough = atoi(e);
  if (mode == "observe" && argc >= 5) {
    std::string part = argv[2];
    g_out = fopen(argv[3], "w");
    if (!g_out) { perror("open"); return 3; }
    g_quick = std::string(argv[4]) == "quick";
    Jit jit;
    {
      vj::W w; w.beginObj(); w.kv("t", "levels");
      w.key("v").beginArr(); for (auto& l : g_vlevels) w.val(l.name); w.endArr();
      w.key("g").beginArr(); for (auto& l : g_glevels) w.val(l.name); w.endArr();
      w.endObj(); w.emit(g_out);
    }
    if (part == "vv" || part == "vec") sweep_vec(jit, "vv", kVV);
    if (part == "vvi" || part == "vec") sweep_vec(jit, "vvi", kVVI);
    if (part == "vvv" || part == "vec") sweep_vec(jit, "vvv", kVVV);
    if (part == "vvvi" || part == "vec") sweep_vec(jit, "vvvi", kVVVI);
    if (part == "vvvv" || part == "vec") sweep_vec(jit, "vvvv", kVVVV);
    if (part == "arr" || part == "misc") sweep_arr(jit);
    if (part == "gp") sweep_gp(jit);
    if (part == "cond") sweep_cond(jit);
    if (part == "mem") sweep_mem(jit);
    if (part == "misc") sweep_misc(jit);
    if (part == "consts") { sweep_consts(); sweep_oparray(); }
    fclose(g_out);
    fprintf(stderr, "uniops %s: compiled=%llu variants=%llu records=%llu\n", part.c_str(), (unsigned long long)g_ncompiled, (unsigned long long)g_nvariants, (unsigned long long)g_nobs);
    return 0;
  }
  if (mode == "life" && argc >= 5) return run_life(argv[2], argv[3], argv[4]);
  fprintf(stderr, "bad arguments\n");
  return 2;
}
