// LDFLAGS: -Wl,--wrap=malloc
// C18 harness: drives the REAL arena allocator, the arena-backed containers and asmjit::String and records,
// per component, an ndjson trace (operation, arguments, result, full projected structure) for spec/adt/*Trace.tla.
//
//   adt random <prefix> <executions> <steps>     seeded by VERIF_SEED; one "world" per execution: one arena (dynamic
//                                                or static-buffer) shared by 4 vectors, 2 hash tables, 2 trees, 2 lists,
//                                                2 bit sets, an object pool and raw allocations; arena reset soft/hard
//                                                in the middle; plus raw bit-vector primitives and 3 strings.
//   adt script <scripts.ndjson> <prefix>         {"c":<component>,"arena":[blk,staticN],"ops":[[name,args..],..]} per line
//
// Output files: <prefix>.<component>.ndjson for component in arena vector hash tree list bitset bitvec pool string.
// Every execution runs in a forked child; if the child dies (sanitizer abort, signal) the parent appends {"e":"ABORT"}
// to the trace of the component that was executing, so a crash only rejects its own execution.
// The projection code below is the trusted base of the binding: it only reads public members.
#include <asmjit/core.h>
#include <asmjit/support/arena.h>
#include <asmjit/support/arenabitset_p.h>
#include <asmjit/support/arenahash.h>
#include <asmjit/support/arenalist.h>
#include <asmjit/support/arenapool.h>
#include <asmjit/support/arenastring.h>
#include <asmjit/support/arenatree.h>
#include <asmjit/support/arenavector.h>
// The prime / reciprocal / shift table of the hash table is a file-static of arenahash.cpp.  The harness compiles that
// source file (taken from the tree under test through the include path) into this translation unit, so that every row
// of the table can be observed without allocating a bucket array of that size.  The three out-of-line members it
// defines (_rehash/_insert/_remove) are therefore the ones linked into this binary.
#include <asmjit/support/arenahash.cpp>
#include "vjson.h"
#include <sys/mman.h>
#include <sys/resource.h>
#include <sys/wait.h>
#include <algorithm>
#include <functional>
#include <set>

#if defined(__has_feature)
#if __has_feature(address_sanitizer)
#include <sanitizer/asan_interface.h>
#define HAVE_ASAN 1
#endif
#endif
#ifndef HAVE_ASAN
#define HAVE_ASAN 0
#endif

using namespace asmjit;

// ---------------------------------------------------------------------------------------------------------
// Failing heap requests: every malloc() of the statically linked asmjit objects (arena blocks, dynamic blocks,
// String buffers) goes through __wrap_malloc (link option --wrap=malloc).  While armed, the next request fails once.
// ---------------------------------------------------------------------------------------------------------
extern "C" void* __real_malloc(size_t);
static volatile bool g_fail_armed = false, g_fail_hit = false;
extern "C" void* __wrap_malloc(size_t n) {
  if (g_fail_armed) { g_fail_armed = false; g_fail_hit = true; return nullptr; }
  return __real_malloc(n);
}
struct FailNext {          // arms for the duration of one call into asmjit
  explicit FailNext(bool on) { g_fail_hit = false; g_fail_armed = on; }
  ~FailNext() { g_fail_armed = false; }
};

enum Comp { C_ARENA, C_VECTOR, C_HASH, C_TREE, C_LIST, C_BITSET, C_BITVEC, C_POOL, C_STRING, NCOMP };
static const char* comp_name[NCOMP] = {"arena", "vector", "hash", "tree", "list", "bitset", "bitvec", "pool", "string"};

static FILE* g_out[NCOMP];
static volatile int* g_cur;    // shared with the parent: component being executed
static vj::W W;

static bool readable(const void* p, size_t n) {
#if HAVE_ASAN
  return p && __asan_region_is_poisoned(const_cast<void*>(p), n) == nullptr;
#else
  (void)n; return p != nullptr;
#endif
}

static const char* err_name(Error e) {
  switch (e) {
    case Error::kOk: return "Ok";
    case Error::kOutOfMemory: return "OutOfMemory";
    case Error::kInvalidArgument: return "InvalidArgument";
    case Error::kInvalidState: return "InvalidState";
    default: return "Other";
  }
}

// addresses as [hi, lo] with lo = 24 bits (TLC integers are 32 bit)
static void addr(const void* p) {
  uint64_t a = (uint64_t)(uintptr_t)p;
  W.beginArr().val((long long)(a >> 24)).val((long long)(a & 0xFFFFFF)).endArr();
}
static void range(const void* p, size_t n) {
  W.beginArr(); addr(p); addr((const uint8_t*)p + n); W.endArr();
}
static void emit(Comp c) { W.emit(g_out[c]); fflush(g_out[c]); }
static void ints(const std::vector<uint32_t>& v) { W.beginArr(); for (auto x : v) W.val((long long)x); W.endArr(); }

// ---------------------------------------------------------------------------------------------------------
// element / node types
// ---------------------------------------------------------------------------------------------------------
struct E12 {
  uint32_t v, w, x;
  bool operator==(const E12& o) const { return v == o.v; }
  bool operator<(const E12& o) const { return v < o.v; }
  bool operator>(const E12& o) const { return v > o.v; }
};
template<class T> static T mk(uint32_t v);
template<> uint32_t mk<uint32_t>(uint32_t v) { return v; }
template<> E12 mk<E12>(uint32_t v) { return E12{v, v ^ 0x5555u, v + 7u}; }
static uint32_t val_of(uint32_t x, bool&) { return x; }
static uint32_t val_of(const E12& e, bool& ok) {
  bool zero = e.v == 0 && e.w == 0 && e.x == 0;      // items created by resize() are zero-filled
  if (!zero && (e.w != (e.v ^ 0x5555u) || e.x != e.v + 7u)) ok = false;
  return e.v;
}

struct IVec {
  virtual ~IVec() {}
  virtual Error append(Arena& a, uint32_t x) = 0;
  virtual Error prepend(Arena& a, uint32_t x) = 0;
  virtual Error insert(Arena& a, size_t i, uint32_t x) = 0;
  virtual void remove_at(size_t i) = 0;
  virtual uint32_t pop() = 0;
  virtual void clear() = 0;
  virtual void truncate(size_t n) = 0;
  virtual Error resize(Arena& a, size_t n, bool grow) = 0;
  virtual Error reserve(Arena& a, size_t n, int kind) = 0;
  virtual Error concat(Arena& a, IVec& o) = 0;
  virtual void swap(IVec& o) = 0;
  virtual void release(Arena& a) = 0;
  virtual void reset() = 0;
  virtual void sort() = 0;
  virtual void sort_desc() = 0;
  virtual void unchecked(int kind, size_t i, uint32_t x, IVec& o) = 0;
  virtual void move_roundtrip(size_t& sz, size_t& cp, bool& nul) = 0;
  virtual size_t index_of(uint32_t x, int kind) = 0;
  virtual std::vector<uint32_t> iter(bool rev) = 0;
  virtual std::vector<uint32_t> items(bool& ok) = 0;
  virtual size_t size() = 0;
  virtual size_t cap() = 0;
  virtual const void* data() = 0;
  virtual size_t isz() = 0;
};
template<class T> struct VecT : IVec {
  ArenaVector<T> v;
  Error append(Arena& a, uint32_t x) override { return v.append(a, mk<T>(x)); }
  Error prepend(Arena& a, uint32_t x) override { return v.prepend(a, mk<T>(x)); }
  Error insert(Arena& a, size_t i, uint32_t x) override { return v.insert(a, i, mk<T>(x)); }
  void remove_at(size_t i) override { v.remove_at(i); }
  uint32_t pop() override { bool ok = true; return val_of(v.pop(), ok); }
  void clear() override { v.clear(); }
  void truncate(size_t n) override { v.truncate(n); }
  Error resize(Arena& a, size_t n, bool grow) override { return grow ? v.resize_grow(a, n) : v.resize_fit(a, n); }
  Error reserve(Arena& a, size_t n, int kind) override {
    return kind == 0 ? v.reserve_fit(a, n) : kind == 1 ? v.reserve_grow(a, n) : v.reserve_additional(a, n);
  }
  Error concat(Arena& a, IVec& o) override { return v.concat(a, static_cast<VecT<T>&>(o).v); }
  void swap(IVec& o) override { v.swap(static_cast<VecT<T>&>(o).v); }
  void release(Arena& a) override { v.release(a); }
  void reset() override { v.reset(); }
  void sort() override { v.sort(); }
  void sort_desc() override { v.sort(Support::Compare<Support::SortOrder::kDescending>()); }
  void unchecked(int kind, size_t i, uint32_t x, IVec& o) override {
    if (kind == 0) v.append_unchecked(mk<T>(x));
    else if (kind == 1) v.prepend_unchecked(mk<T>(x));
    else if (kind == 2) v.insert_unchecked(i, mk<T>(x));
    else if (kind == 3) v.concat_unchecked(static_cast<VecT<T>&>(o).v);
    else v.assign_unchecked(static_cast<VecT<T>&>(o).v);
  }
  void move_roundtrip(size_t& sz, size_t& cp, bool& nul) override {
    ArenaVector<T> tmp(std::move(v));
    sz = v.size(); cp = v.capacity(); nul = v.data() == nullptr;
    v.swap(tmp);
  }
  size_t index_of(uint32_t x, int kind) override {
    T t = mk<T>(x);
    if (kind == 0) return v.index_of(t);
    if (kind == 1) return v.last_index_of(t);
    return v.contains(t) ? 1 : 0;
  }
  std::vector<uint32_t> iter(bool rev) override {
    std::vector<uint32_t> r; bool ok = true;
    if (!rev) { for (auto& e : v.iterate()) r.push_back(val_of(e, ok)); }
    else { for (auto& e : v.iterate_reverse()) r.push_back(val_of(e, ok)); }
    return r;
  }
  std::vector<uint32_t> items(bool& ok) override {
    std::vector<uint32_t> r;
    for (size_t i = 0; i < v.size(); i++) r.push_back(val_of(v.data()[i], ok));
    return r;
  }
  size_t size() override { return v.size(); }
  size_t cap() override { return v.capacity(); }
  const void* data() override { return v.data(); }
  size_t isz() override { return sizeof(T); }
};

struct HNode : public ArenaHashNode {
  HNode(uint32_t h, uint32_t key, uint32_t id) : ArenaHashNode(h), key(key), id(id) {}
  uint32_t key, id;
};
struct HKey {
  uint32_t key, h;
  uint32_t hash_code() const { return h; }
  bool matches(const HNode* n) const { return n->key == key; }
};
struct TNode : public ArenaTreeNodeT<TNode> {
  explicit TNode(uint32_t k) : key(k) {}
  bool operator<(const TNode& o) const { return key < o.key; }
  bool operator>(const TNode& o) const { return key > o.key; }
  bool operator<(uint32_t k) const { return key < k; }
  bool operator>(uint32_t k) const { return key > k; }
  uint32_t key;
};
struct LNode : public ArenaListNode<LNode> {
  explicit LNode(uint32_t id) : id(id) {}
  uint32_t id;
};
struct PObj { uint64_t a, b, c; };

// ---------------------------------------------------------------------------------------------------------
// The world
// ---------------------------------------------------------------------------------------------------------
struct Region { uint32_t id; uint8_t* p; size_t req, size; char kind; uint8_t tag; bool zeroed; };

struct World {
  vj::Rng& r;
  Arena* arena = nullptr;
  uint8_t* static_buf = nullptr; size_t static_n = 0; size_t blk = 1024;
  bool after_soft = false;        // a soft reset happened and no hard reset since (random driver then also asks for more than retained blocks hold)
  bool arm = false;               // the next container / string operation runs with a failing heap request
  bool dead = false;              // chain corrupted: stop the execution (the trace is rejected by the spec)
  std::vector<Region> regs; uint32_t next_reg = 1;
  // containers
  IVec* vec[4];
  ArenaHash<HNode> hash[2]; std::vector<HNode*> hnodes; int hmode = 0;
  ArenaTree<TNode> tree[2]; std::vector<std::set<uint32_t>> tkeys{2};
  ArenaList<LNode> list[2]; std::vector<LNode*> lnodes; std::vector<int> lwhere;   // -1 free, 0/1 list, -2 dead
  ArenaBitSet bs[2];
  ArenaPool<PObj> pool; std::vector<PObj*> pobjs; std::vector<int> plive;
  // non-arena components
  uint64_t bv[2][6];
  String* str[3];

  explicit World(vj::Rng& rng) : r(rng) {
    vec[0] = new VecT<uint32_t>(); vec[1] = new VecT<uint32_t>(); vec[2] = new VecT<E12>(); vec[3] = new VecT<E12>();
    for (int b = 0; b < 2; b++) { for (int i = 0; i < 6; i++) bv[b][i] = 0; bv[b][0] = bv[b][5] = 0xA5A5A5A5A5A5A5A5ull; }
    str[0] = new String(); str[1] = new String(); str[2] = new StringTmp<40>();
  }

  void new_arena(size_t block, size_t stat) {
    blk = block; static_n = stat;
    if (stat) {
      static_buf = (uint8_t*)malloc(stat);
      arena = new Arena(block, Span<uint8_t>(static_buf, stat));
    } else {
      arena = new Arena(block);
    }
  }

  // ---------------- headers ----------------
  void headers() {
    for (int c = 0; c < NCOMP; c++) {
      W.beginObj().kv("e", "Reset");
      if (c == C_ARENA) { W.kv("blk", blk).kv("staticN", static_n); W.key("static"); if (static_n) range(static_buf, static_n); else W.beginArr().endArr(); arena_state(); }
      if (c == C_HASH) W.kv("hmode", hmode);
      W.endObj(); emit((Comp)c);
    }
  }

  // ---------------- arena projection ----------------
  bool chain_bad = false;
  void arena_state() {
    W.key("st").beginObj();
    // chain
    std::vector<Arena::ManagedBlock*> chain;
    Arena::ManagedBlock* b = arena->_first_block;
    bool bad = false; int cur = 0; size_t guard = 0;
    while (b) {
      if (!readable(b, sizeof(Arena::ManagedBlock))) { bad = true; break; }
      chain.push_back(b);
      if (b == arena->_current_block) cur = (int)chain.size();
      if (++guard > 100000) { bad = true; break; }
      b = b->next;
    }
    // the zero block (no memory) is not a block
    if (chain.size() == 1 && chain[0]->size == 0 && !static_n) { chain.clear(); cur = 0; }
    W.key("chain").beginArr();
    for (auto* c : chain) range(c->data(), c->size);
    W.endArr();
    W.kv("cur", cur).kv("bad", bad);
    if (!bad) {
      ArenaStatistics stt = arena->statistics();
      auto cl = [](size_t v) { return (long long)std::min<size_t>(v, 2000000000u); };
      W.key("stats").beginArr().val(cl(stt.block_count())).val(cl(stt.used_size())).val(cl(stt.reserved_size())).endArr();
    } else W.key("stats").beginArr().endArr();
    W.key("ptr"); addr(arena->_ptr); W.key("end"); addr(arena->_end);
    W.key("dyn").beginArr();
    Arena::DynamicBlock* d = arena->_dynamic_blocks; guard = 0;
    while (d) {
      if (!readable(d, sizeof(Arena::DynamicBlock))) { bad = true; break; }
      // payload extent is not stored; log the header address, the regions carry their own extent
      addr(d);
      if (++guard > 100000) break;
      d = d->next;
    }
    W.endArr();
    // raw regions and their integrity
    bool intact = true;
    W.key("live").beginArr();
    for (auto& g : regs) {
      W.beginArr().val((long long)g.id); range(g.p, g.size); W.val((long long)g.req).val(g.kind == 'o' ? "o" : g.kind == 'r' ? "r" : "d").endArr();
      for (size_t i = 0; i < g.req; i++) if (g.p[i] != g.tag) { intact = false; break; }
    }
    W.endArr();
    W.kv("intact", intact);
    // container buffers living in the arena
    W.key("cbuf").beginArr();
    auto cb = [&](const char* n, const void* p, size_t sz) { if (p && sz) { W.beginArr().val(n); range(p, sz); W.endArr(); } };
    static const char* vn[4] = {"v1", "v2", "v3", "v4"};
    for (int i = 0; i < 4; i++) cb(vn[i], vec[i]->data(), vec[i]->cap() * vec[i]->isz());
    cb("b1", bs[0]._data, bs[0]._capacity / 8); cb("b2", bs[1]._data, bs[1]._capacity / 8);
    for (int t = 0; t < 2; t++) if (hash[t]._data != hash[t]._embedded) cb(t ? "h2" : "h1", hash[t]._data, size_t(hash[t]._buckets_count) * sizeof(void*));
    for (auto* p : pobjs) cb("po", p, sizeof(PObj));
    W.endArr();
    W.endObj();
    chain_bad = bad;
    if (bad) dead = true;
  }

  void ev_arena_begin() { *g_cur = C_ARENA; W.beginObj().kv("e", "Op"); }
  void ev_arena_end() { arena_state(); W.endObj(); emit(C_ARENA); }

  // a container operation may have (re)allocated: record the new layout in the arena trace
  void arena_ext(const char* who) {
    ev_arena_begin(); W.key("op").beginArr().val("ext").val(who).endArr(); W.key("r").beginArr().endArr(); ev_arena_end();
  }

  size_t live_raw() { return regs.size(); }


  void arena_alloc(const char* kind, size_t n, bool fail = false) {
    ev_arena_begin();
    W.key("op").beginArr().val(kind).val((long long)n).val(fail ? 1 : 0).endArr();
    Region g{next_reg++, nullptr, n, n, 'o', uint8_t(1 + r.below(250)), false};
    std::string k = kind;
    bool zero_ok = true;
    size_t asz = n;
    {
      FailNext fn(fail);          // the next heap request made by the arena fails
      if (k == "oneshot") g.p = arena->alloc_oneshot<uint8_t>(n);
      else if (k == "zeroed") { g.p = arena->alloc_oneshot_zeroed<uint8_t>(n); g.zeroed = true; }
      else if (k == "reusable") { g.p = arena->alloc_reusable<uint8_t>(n, Out(asz)); g.kind = 'r'; }
      else if (k == "rzeroed") { g.p = arena->alloc_reusable_zeroed<uint8_t>(n, Out(asz)); g.kind = 'r'; g.zeroed = true; }
    }
    W.kv("hit", (bool)g_fail_hit);
    if (!g.p) asz = n;
    g.size = asz;
    if (g.p && g.zeroed) for (size_t i = 0; i < g.size; i++) if (g.p[i]) { zero_ok = false; break; }
    W.key("r").beginArr().val(g.p ? "Ok" : "Null").val((long long)g.id).val((long long)asz).val(zero_ok).endArr();
    if (g.p) { memset(g.p, g.tag, g.req); regs.push_back(g); }
    ev_arena_end();
  }
  void arena_dup(size_t n, bool nt, bool fail = false) {
    ev_arena_begin();
    W.key("op").beginArr().val("dup").val((long long)n).val(nt).val(fail ? 1 : 0).endArr();
    uint8_t tag = uint8_t(1 + r.below(250));
    std::vector<uint8_t> src(n + 1, tag);
    Region g{next_reg++, nullptr, n, Support::align_up(n + size_t(nt), 8), 'd', tag, false};
    { FailNext fn(fail); g.p = (uint8_t*)arena->dup(src.data(), n, nt); }
    W.kv("hit", (bool)g_fail_hit);
    memset(src.data(), 0xEE, src.size());
    bool same = true, term = true;
    if (g.p) { for (size_t i = 0; i < n; i++) same &= g.p[i] == tag; if (nt) term = g.p[n] == 0; }
    W.key("r").beginArr().val(g.p ? "Ok" : "Null").val((long long)g.id).val((long long)g.size).val(same && term).endArr();
    if (g.p) regs.push_back(g);
    ev_arena_end();
  }
  void arena_free(size_t idx) {
    ev_arena_begin();
    Region g = regs[idx];
    W.key("op").beginArr().val("free").val((long long)g.id).endArr();
    bool intact = true;
    for (size_t i = 0; i < g.req; i++) if (g.p[i] != g.tag) intact = false;
    arena->free_reusable(g.p, g.size);
    regs.erase(regs.begin() + idx);
    W.key("r").beginArr().val(intact).endArr();
    ev_arena_end();
  }
  void arena_reset(bool hard) {
    // containers drop their storage first (it is about to be recycled), their models are emptied
    for (int i = 0; i < 4; i++) vec[i]->reset();
    for (int t = 0; t < 2; t++) { hash[t].reset(); tree[t].reset(); tkeys[t].clear(); list[t].reset(); bs[t].reset(); }
    hnodes.clear(); lnodes.clear(); lwhere.clear(); pool.reset(); pobjs.clear(); plive.clear();
    regs.clear();
    for (Comp c : {C_VECTOR, C_HASH, C_TREE, C_LIST, C_BITSET, C_POOL}) { W.beginObj().kv("e", "ArenaReset").endObj(); emit(c); }
    ev_arena_begin();
    W.key("op").beginArr().val("reset").val(hard ? "hard" : "soft").endArr();
    arena->reset(hard ? ResetPolicy::kHard : ResetPolicy::kSoft);
    after_soft = !hard;
    W.key("r").beginArr().endArr();
    ev_arena_end();
  }

  // ---------------- vector ----------------
  void vec_state(std::initializer_list<int> which) {
    W.key("st").beginArr();
    for (int i : which) {
      bool ok = true;
      auto it = vec[i]->items(ok);
      W.beginObj().kv("i", i + 1); W.key("items"); ints(it);
      W.kv("size", vec[i]->size()).kv("cap", vec[i]->cap()).kv("ok", ok).kv("null", vec[i]->data() == nullptr).endObj();
    }
    W.endArr();
  }
  void vec_op(const std::string& name, int v, long long a = 0, long long b = 0) {
    *g_cur = C_VECTOR;
    IVec& V = *vec[v];
    int o = v ^ 1;
    const void* d0 = V.data(); const void* d1 = vec[o]->data();
    W.beginObj().kv("e", "Op");
    W.key("op").beginArr().val(name).val(v + 1).val(a).val(b).endArr();
    W.key("r").beginArr();
    g_fail_hit = false; g_fail_armed = arm;      // optionally: the next heap request fails
    bool two = false;
    if (name == "append") W.val(err_name(V.append(*arena, (uint32_t)a)));
    else if (name == "prepend") W.val(err_name(V.prepend(*arena, (uint32_t)a)));
    else if (name == "insert") W.val(err_name(V.insert(*arena, (size_t)a, (uint32_t)b)));
    else if (name == "remove_at") V.remove_at((size_t)a);
    else if (name == "pop") W.val((long long)V.pop());
    else if (name == "clear") V.clear();
    else if (name == "truncate") V.truncate((size_t)a);
    else if (name == "resize_fit") W.val(err_name(V.resize(*arena, (size_t)a, false)));
    else if (name == "resize_grow") W.val(err_name(V.resize(*arena, (size_t)a, true)));
    else if (name == "reserve_fit") W.val(err_name(V.reserve(*arena, (size_t)a, 0)));
    else if (name == "reserve_grow") W.val(err_name(V.reserve(*arena, (size_t)a, 1)));
    else if (name == "reserve_add") W.val(err_name(V.reserve(*arena, (size_t)a, 2)));
    else if (name == "reserve_huge") {     // a: 0 fit, 1 grow, 2 additional ; item count that cannot be represented
      size_t n = a == 2 ? SIZE_MAX - 3 : size_t(0xFFFFFFFFull) + size_t(b);
      W.val(err_name(V.reserve(*arena, n, (int)a)));
    }
    else if (name == "concat") { W.val(err_name(V.concat(*arena, *vec[o]))); two = true; }
    else if (name == "swap") { V.swap(*vec[o]); two = true; }
    else if (name == "release") V.release(*arena);
    else if (name == "sort") V.sort();
    else if (name == "sort_desc") V.sort_desc();
    else if (name == "appendn") { Error e = Error::kOk; for (long long i = 0; i < a && e == Error::kOk; i++) e = V.append(*arena, (uint32_t)(b + i)); W.val(err_name(e)); }
    else if (name == "append_u") V.unchecked(0, 0, (uint32_t)a, *vec[o]);
    else if (name == "prepend_u") V.unchecked(1, 0, (uint32_t)a, *vec[o]);
    else if (name == "insert_u") V.unchecked(2, (size_t)a, (uint32_t)b, *vec[o]);
    else if (name == "concat_u") { V.unchecked(3, 0, 0, *vec[o]); two = true; }
    else if (name == "assign_u") { V.unchecked(4, 0, 0, *vec[o]); two = true; }
    else if (name == "move") { size_t sz, cp; bool nul; V.move_roundtrip(sz, cp, nul); W.val((long long)sz).val((long long)cp).val(nul); }
    else if (name == "index_of") { size_t i = V.index_of((uint32_t)a, 0); W.val(i == SIZE_MAX ? -1ll : (long long)i); }
    else if (name == "last_index_of") { size_t i = V.index_of((uint32_t)a, 1); W.val(i == SIZE_MAX ? -1ll : (long long)i); }
    else if (name == "contains") W.val((long long)V.index_of((uint32_t)a, 2));
    else if (name == "iter") ints(V.iter(false));
    else if (name == "riter") ints(V.iter(true));
    else if (name == "all") {}
    W.endArr();
    g_fail_armed = false; W.kv("fail", arm).kv("hit", (bool)g_fail_hit); arm = false;
    if (name == "all") vec_state({0, 1, 2, 3});
    else if (two) vec_state({v, o});
    else vec_state({v});
    W.endObj(); emit(C_VECTOR);
    if (V.data() != d0 || vec[o]->data() != d1) arena_ext("vector");
  }

  // ---------------- hash ----------------
  uint32_t hcode(uint32_t key) {
    switch (hmode) {
      case 0: return key;
      case 1: return key * 2654435761u;
      case 2: return key & 3u;
      case 3: return 0xFFFFFFF0u + (key & 7u);
      case 5: return 0xFFFFFFFFu - key;          // driver-chosen hash codes just below 2^32
      default: return key * 65599u + 0x80000000u;
    }
  }
  void hash_state(std::initializer_list<int> which) {
    W.key("st").beginArr();
    for (int t : which) {
      auto& H = hash[t];
      W.beginObj().kv("t", t + 1).kv("size", H._size).kv("nb", H._buckets_count);
      W.key("buckets").beginArr();          // non-empty buckets only: [index, [[id, key, home], ...]]
      size_t guard = 0, limit = H._size + 8;      // a corrupted (cyclic) chain is cut: the projection stays finite and is rejected
      for (uint32_t i = 0; i < H._buckets_count && guard < limit; i++) {
        if (!H._data[i]) continue;
        W.beginArr().val((long long)i).beginArr();
        for (ArenaHashNode* n = H._data[i]; n && guard < limit; n = n->_hash_next, guard++) {
          HNode* hn = static_cast<HNode*>(n);
          W.beginArr().val((long long)hn->id).val((long long)hn->key).val((long long)H._calc_mod(hn->_hash_code)).endArr();
        }
        W.endArr().endArr();
      }
      W.endArr().endObj();
    }
    W.endArr();
  }
  std::vector<uint32_t> klist;
  // adversarial keys for the current bucket count: hash codes that are multiples of it (and their neighbours)
  void hash_probe_level(int t) {
    auto& H = hash[t];
    uint64_t nb = H._buckets_count;
    std::vector<uint32_t> ks;
    auto add = [&](uint64_t k) { if (k < 0x7FFFFFFFull) ks.push_back((uint32_t)k); };
    if (hmode == 5) {                       // hash = 2^32-1-key : key0 makes the hash the largest multiple of nb
      uint64_t key0 = 0xFFFFFFFFull % nb;
      add(key0); add(key0 + nb); add(key0 + 2 * nb); add(key0 + 1); if (key0) add(key0 - 1); add(0); add(1); add(2);
    } else {                                // hash = key
      uint64_t top = 0x7FFFFFFEull / nb;
      add(nb); add(2 * nb); add(3 * nb); add(top * nb); add(nb + 1); add(nb - 1); add(top * nb - 1);
      add(5 * nb); add(7 * nb);
    }
    klist.clear();
    for (auto k : ks) { bool dup = false; for (auto* n : hnodes) if (n->key == k) dup = true; for (auto x : klist) if (x == k) dup = true; if (!dup) klist.push_back(k); }
    size_t first = hnodes.size() + 1;
    if (klist.empty()) return;
    std::vector<uint32_t> mine = klist;
    hash_op("insk", t);
    for (auto k : mine) hash_op("get", t, k);
    hash_op("rem", t, (long long)first);
    if (mine.size() > 2) hash_op("rem", t, (long long)first + 2);
    hash_op("get", t, mine[0]);
  }
  // natural growth (through _insert) until the table has `target` buckets, probing every level on the way
  void hash_grow(int t, uint32_t target) {
    auto& H = hash[t];
    uint32_t next_key = 1000000;
    hash_probe_level(t);
    while (H._buckets_count < target && !dead) {
      uint32_t before = H._buckets_count;
      long long need = (long long)H._buckets_grow + 1 - (long long)H._size;
      if (need < 1) need = 1;
      hash_op("insn", t, next_key, need);
      next_key += (uint32_t)need;
      if (H._buckets_count == before) break;      // did not grow (end of table): stop
      hash_probe_level(t);
    }
  }
  // every row lo..hi of the prime table whose bucket array has at most max_buckets entries, entered by _rehash
  void hash_rows(int t, uint32_t lo, uint32_t hi, uint64_t max_buckets) {
    auto& H = hash[t];
    size_t nrows = sizeof(ArenaHash_prime_array) / sizeof(ArenaHash_prime_array[0]);
    for (uint32_t i = lo; i <= hi && i < nrows && !dead; i++) {
      if (ArenaHash_prime_array[i].prime > max_buckets) continue;
      hash_op("rehash", t, i);
      hash_probe_level(t);
    }
  }
  void hash_op(const std::string& name, int t, long long a = 0, long long b = 0) {
    *g_cur = C_HASH;
    auto& H = hash[t];
    void* d0 = H._data; void* d1 = hash[t ^ 1]._data;
    W.beginObj().kv("e", "Op");
    W.key("op").beginArr().val(name).val(t + 1).val(a);
    bool two = false;
    if (name == "ins") {
      uint32_t id = (uint32_t)hnodes.size() + 1;
      HNode* n = arena->new_oneshot<HNode>(hcode((uint32_t)a), (uint32_t)a, id);
      hnodes.push_back(n);
      W.val((long long)id).endArr();
      g_fail_hit = false; g_fail_armed = arm;
      HNode* rr = H.insert(*arena, n);
      g_fail_armed = false; W.kv("fail", arm).kv("hit", (bool)g_fail_hit); arm = false;
      W.key("r").beginArr().val(rr == n).endArr();
    } else if (name == "rem") {      // a = node id
      W.endArr();
      HNode* n = hnodes[(size_t)a - 1];
      HNode* rr = H.remove(*arena, n);
      W.key("r").beginArr().val(rr == n ? 1 : rr == nullptr ? 0 : -1).endArr();
    } else if (name == "get") {      // a = key
      W.endArr();
      HNode* rr = H.get(HKey{(uint32_t)a, hcode((uint32_t)a)});
      W.key("r").beginArr().val(rr ? (long long)rr->id : 0ll).val(rr ? (long long)rr->key : -1ll).endArr();
    } else if (name == "insn") {     // a = first key, b = count ; node ids are consecutive from the logged first id
      uint32_t id0 = (uint32_t)hnodes.size() + 1;
      W.val(b).val((long long)id0).endArr();
      bool ok = true;
      for (long long i = 0; i < b; i++) {
        uint32_t key = (uint32_t)(a + i);
        HNode* n = arena->new_oneshot<HNode>(hcode(key), key, (uint32_t)hnodes.size() + 1);
        hnodes.push_back(n);
        ok &= H.insert(*arena, n) == n;
      }
      W.key("r").beginArr().val(ok).endArr();
    } else if (name == "insk") {     // explicit key list (driver-chosen hash codes); ids consecutive from the logged first id
      uint32_t id0 = (uint32_t)hnodes.size() + 1;
      W.beginArr(); for (auto k : klist) W.val((long long)k); W.endArr();
      W.val((long long)id0).endArr();
      bool ok = true;
      for (auto key : klist) {
        HNode* n = arena->new_oneshot<HNode>(hcode(key), key, (uint32_t)hnodes.size() + 1);
        hnodes.push_back(n);
        ok &= H.insert(*arena, n) == n;
      }
      W.key("r").beginArr().val(ok).endArr();
    } else if (name == "rehash") {   // a = row of the prime table: ArenaHashBase::_rehash called directly
      W.endArr();
      H._rehash(*arena, (uint32_t)a);
      W.key("r").beginArr().val((long long)H._prime_index).endArr();
    } else if (name == "remn") {     // a = first node id, b = count : removes those of the nodes that are in this table
      W.val(b).endArr();
      long long cnt = 0;
      for (long long i = 0; i < b && (size_t)(a + i) <= hnodes.size(); i++) { HNode* n = hnodes[(size_t)(a + i) - 1]; HNode* rr = H.remove(*arena, n); if (rr == n) cnt++; else if (rr) cnt = -1000000; }
      W.key("r").beginArr().val(cnt).endArr();
    } else if (name == "swap") { W.endArr(); H.swap(hash[t ^ 1]); two = true; W.key("r").beginArr().endArr(); }
    else if (name == "release") { W.endArr(); H.release(*arena); W.key("r").beginArr().endArr(); }
    else { W.endArr(); two = true; W.key("r").beginArr().endArr(); }
    if (two) hash_state({0, 1}); else hash_state({t});
    W.endObj(); emit(C_HASH);
    if (H._data != d0 || hash[t ^ 1]._data != d1) arena_ext("hash");
  }

  // ---------------- tree ----------------
  void tree_node(TNode* n, int depth) {
    if (!n || depth > 200) { W.beginArr().endArr(); return; }
    W.beginArr();
    tree_node(n->left(), depth + 1);
    W.val((long long)n->key).val(n->is_red() ? "R" : "B");
    tree_node(n->right(), depth + 1);
    W.endArr();
  }
  void tree_op(const std::string& name, int t, long long k = 0, long long b = 0, long long c = 0) {
    *g_cur = C_TREE;
    auto& T = tree[t];
    W.beginObj().kv("e", "Op");
    W.key("op").beginArr().val(name).val(t + 1).val(k).val(b).val(c).endArr();
    W.key("r").beginArr();
    bool two = false;
    if (name == "insn" || name == "remn") {      // keys k .. k+b-1, ascending (c = 0) or descending (c = 1)
      long long cnt = 0;
      for (long long i = 0; i < b; i++) {
        uint32_t key = (uint32_t)(c ? k + b - 1 - i : k + i);
        if (name == "insn") { if (!tkeys[t].count(key)) { T.insert(arena->new_oneshot<TNode>(key)); tkeys[t].insert(key); cnt++; } }
        else { TNode* n = T.get(key); if (n) { T.remove(n); tkeys[t].erase(key); cnt++; } }
      }
      W.val(cnt);
    }
    else if (name == "ins") { TNode* n = arena->new_oneshot<TNode>((uint32_t)k); T.insert(n); tkeys[t].insert((uint32_t)k); }
    else if (name == "rem") { TNode* n = T.get((uint32_t)k); W.val(n != nullptr); if (n) { T.remove(n); tkeys[t].erase((uint32_t)k); } }
    else if (name == "get") { TNode* n = T.get((uint32_t)k); W.val(n ? (long long)n->key : -1ll); }
    else if (name == "swap") { T.swap(tree[t ^ 1]); std::swap(tkeys[0], tkeys[1]); two = true; }
    else if (name == "reset") { T.reset(); tkeys[t].clear(); }
    W.endArr();
    W.key("st").beginArr();
    for (int i = 0; i < 2; i++) if (two || i == t) { W.beginObj().kv("t", i + 1); W.key("tree"); tree_node(tree[i].root(), 0); W.endObj(); }
    W.endArr();
    W.endObj(); emit(C_TREE);
  }

  // ---------------- list ----------------
  void list_state(std::initializer_list<int> which) {
    W.key("st").beginArr();
    for (int l : which) {
      auto& L = list[l];
      W.beginObj().kv("l", l + 1);
      size_t lim = lnodes.size() + 3;
      W.key("fwd").beginArr(); { size_t g = 0; for (LNode* n = L.first(); n && g < lim; n = n->next(), g++) W.val((long long)n->id); } W.endArr();
      W.key("bwd").beginArr(); { size_t g = 0; for (LNode* n = L.last(); n && g < lim; n = n->prev(), g++) W.val((long long)n->id); } W.endArr();
      W.kv("empty", L.is_empty());
      W.endObj();
    }
    W.endArr();
  }
  void list_op(const std::string& name, int l, long long a = 0, long long b = 0) {
    *g_cur = C_LIST;
    auto& L = list[l];
    W.beginObj().kv("e", "Op");
    W.key("op").beginArr().val(name).val(l + 1).val(a).val(b).endArr();
    W.key("r").beginArr();
    bool two = false;
    auto node = [&](long long id) { return lnodes[(size_t)id - 1]; };
    if (name == "new") { LNode* n = arena->new_oneshot<LNode>((uint32_t)lnodes.size() + 1); lnodes.push_back(n); lwhere.push_back(-1); W.val((long long)lnodes.size()); }
    else if (name == "append") { L.append(node(a)); lwhere[a - 1] = l; }
    else if (name == "prepend") { L.prepend(node(a)); lwhere[a - 1] = l; }
    else if (name == "ins_after") { L.insert_after(node(a), node(b)); lwhere[b - 1] = l; }
    else if (name == "ins_before") { L.insert_before(node(a), node(b)); lwhere[b - 1] = l; }
    else if (name == "unlink") { LNode* n = L.unlink(node(a)); lwhere[a - 1] = -1; W.val((long long)n->id); }
    else if (name == "pop") { LNode* n = L.pop(); lwhere[n->id - 1] = -1; W.val((long long)n->id); }
    else if (name == "pop_first") { LNode* n = L.pop_first(); lwhere[n->id - 1] = -1; W.val((long long)n->id); }
    else if (name == "swap") { L.swap(list[l ^ 1]); for (auto& w : lwhere) if (w >= 0) w ^= 1; two = true; }
    else if (name == "reset") { for (auto& w : lwhere) if (w == l) w = -2; L.reset(); }
    W.endArr();
    if (two) list_state({0, 1}); else list_state({l});
    W.endObj(); emit(C_LIST);
  }

  // ---------------- bit set ----------------
  void bs_state(std::initializer_list<int> which) {
    W.key("st").beginArr();
    for (int b : which) {
      auto& B = bs[b];
      W.beginObj().kv("b", b + 1).kv("size", B.size()).kv("cap", B.capacity());
      W.key("bits").beginArr();
      size_t words = B.size_in_bit_words();
      for (size_t i = 0; i < words * 64; i++) if ((B._data[i / 64] >> (i % 64)) & 1) W.val((long long)i);
      W.endArr().endObj();
    }
    W.endArr();
  }
  void bs_op(const std::string& name, int b, long long a = 0, long long c = 0) {
    *g_cur = C_BITSET;
    auto& B = bs[b]; auto& O = bs[b ^ 1];
    const void* d0 = B._data; const void* d1 = O._data;
    W.beginObj().kv("e", "Op");
    W.key("op").beginArr().val(name).val(b + 1).val(a).val(c).endArr();
    W.key("r").beginArr();
    g_fail_hit = false; g_fail_armed = arm;      // optionally: the next heap request fails
    bool two = false;
    if (name == "resize") W.val(err_name(B.resize(*arena, (size_t)a, c != 0)));
    else if (name == "append") W.val(err_name(B.append(*arena, a != 0)));
    else if (name == "set") B.set_bit((size_t)a, c != 0);
    else if (name == "clear_bit") B.clear_bit((size_t)a);
    else if (name == "add") B.add_bit((size_t)a, c != 0);
    else if (name == "xor") B.xor_bit((size_t)a, c != 0);
    else if (name == "get") W.val(B.bit_at((size_t)a) ? 1 : 0);
    else if (name == "fill") B.fill_bits((size_t)a, (size_t)c);
    else if (name == "clearr") B.clear_bits((size_t)a, (size_t)c);
    else if (name == "clear_all") B.clear_all();
    else if (name == "fill_all") B.fill_all();
    else if (name == "truncate") B.truncate((uint32_t)a);
    else if (name == "clear") B.clear();
    else if (name == "and") B.and_(O);
    else if (name == "or") B.or_(O);
    else if (name == "andnot") B.and_not(O);
    else if (name == "copy") W.val(err_name(B.copy_from(*arena, O)));
    else if (name == "eq") W.val(B.equals(O) ? 1 : 0);
    else if (name == "swap") { B.swap(O); two = true; }
    else if (name == "release") B.release(*arena);
    else if (name == "iter") { ArenaBitSet::ForEachBitSet it(B); while (it.has_next()) W.val((long long)it.next()); }
    W.endArr();
    g_fail_armed = false; W.kv("fail", arm).kv("hit", (bool)g_fail_hit); arm = false;
    if (two) bs_state({0, 1}); else bs_state({b});
    W.endObj(); emit(C_BITSET);
    if (B._data != d0 || O._data != d1) arena_ext("bitset");
  }

  // ---------------- raw bit-vector primitives (support.h) ----------------
  void bv_op(const std::string& name, int b, long long a = 0, long long c = 0) {
    *g_cur = C_BITVEC;
    uint64_t* buf = bv[b] + 1; uint64_t* oth = bv[b ^ 1] + 1;
    W.beginObj().kv("e", "Op");
    W.key("op").beginArr().val(name).val(b + 1).val(a).val(c).endArr();
    W.key("r").beginArr();
    if (name == "fill") Support::bit_vector_fill(buf, (size_t)a, (size_t)c);
    else if (name == "clear") Support::bit_vector_clear(buf, (size_t)a, (size_t)c);
    else if (name == "set") Support::bit_vector_set_bit(buf, (size_t)a, c != 0);
    else if (name == "or") Support::bit_vector_or_bit(buf, (size_t)a, c != 0);
    else if (name == "xor") Support::bit_vector_xor_bit(buf, (size_t)a, c != 0);
    else if (name == "get") W.val(Support::bit_vector_get_bit(buf, (size_t)a) ? 1 : 0);
    else if (name == "index_of") W.val((long long)Support::bit_vector_index_of(buf, (size_t)a, c != 0));
    else if (name == "iter") { Support::BitVectorIterator<uint64_t> it(Span<const uint64_t>(buf, 4), (size_t)a); while (it.has_next()) { size_t p = it.peek_next(); size_t n = it.next(); W.val((long long)(p == n ? n : 9999)); } }
    else if (name == "opiter") {
      auto run = [&](auto it) { while (it.has_next()) W.val((long long)it.next()); };
      if (c == 0) run(Support::BitVectorOpIterator<uint64_t, Support::And>(buf, oth, 4, (size_t)a));
      else if (c == 1) run(Support::BitVectorOpIterator<uint64_t, Support::AndNot>(buf, oth, 4, (size_t)a));
      else if (c == 2) run(Support::BitVectorOpIterator<uint64_t, Support::Xor>(buf, oth, 4, (size_t)a));
      else run(Support::BitVectorOpIterator<uint64_t, Support::Or>(buf, oth, 4, (size_t)a));
    }
    else if (name == "worditer") { Support::BitWordIterator<uint32_t> it((uint32_t)a); while (it.has_next()) W.val((long long)it.next()); }
    W.endArr();
    W.key("st").beginObj().kv("b", b + 1);
    W.key("bits").beginArr();
    for (size_t i = 0; i < 256; i++) if ((buf[i / 64] >> (i % 64)) & 1) W.val((long long)i);
    W.endArr();
    bool guards = true;
    for (int x = 0; x < 2; x++) guards &= bv[x][0] == 0xA5A5A5A5A5A5A5A5ull && bv[x][5] == 0xA5A5A5A5A5A5A5A5ull;
    W.kv("guards", guards).endObj();
    W.endObj(); emit(C_BITVEC);
  }

  // ---------------- pool ----------------
  long long pslot(void* p) { for (size_t i = 0; i < pobjs.size(); i++) if (pobjs[i] == p) return (long long)i + 1; return -1; }
  void pool_op(const std::string& name, long long a = 0) {
    *g_cur = C_POOL;
    W.beginObj().kv("e", "Op");
    W.key("op").beginArr().val(name).val(a).endArr();
    W.key("r").beginArr();
    g_fail_hit = false; g_fail_armed = arm;      // optionally: the next heap request fails
    bool fresh = false;
    if (name == "alloc") {
      PObj* p = pool.alloc(*arena);
      long long s = pslot(p);
      if (p && s < 0) { pobjs.push_back(p); plive.push_back(1); s = (long long)pobjs.size(); fresh = true; }
      else if (p) plive[s - 1] = 1;
      if (p) { p->a = p->b = p->c = 0x1111111111111111ull * (uint64_t)s; }
      W.val(p ? s : 0ll).val(fresh).val(p && (uintptr_t(p) % Arena::kAlignment) == 0);
    } else if (name == "release") {
      PObj* p = pobjs[(size_t)a - 1];
      W.val(p->a == 0x1111111111111111ull * (uint64_t)a && p->c == p->a);
      pool.release(p); plive[a - 1] = 0;
    }
    W.endArr();
    g_fail_armed = false; W.kv("fail", arm).kv("hit", (bool)g_fail_hit); arm = false;
    W.key("st").beginObj().kv("count", pool.pooled_item_count());
    W.key("free").beginArr();
    { size_t g = 0; for (auto* l = pool._data; l && g < pobjs.size() + 3; l = l->next, g++) W.val(pslot(l)); }
    W.endArr().endObj();
    W.endObj(); emit(C_POOL);
    if (fresh) arena_ext("pool");
  }

  // ---------------- strings ----------------
  void str_state(std::initializer_list<int> which) {
    W.key("st").beginArr();
    for (int s : which) {
      String& S = *str[s];
      W.beginObj().kv("s", s + 1);
      W.bytes("bytes", (const uint8_t*)S.data(), S.size());
      W.kv("nul", S.data()[S.size()] == 0).kv("size", S.size()).kv("cap", S.capacity());
      W.kv("mode", S.is_external() ? "external" : S.is_large_or_external() ? "large" : "small");
      W.kv("emb", s == 2 ? (S.data() == static_cast<StringTmp<40>*>(str[2])->_embedded_data) : false);
      W.kv("empty", S.is_empty());
      W.endObj();
    }
    W.endArr();
  }
};

// ---------------------------------------------------------------------------------------------------------
// String operations need byte arguments; they are emitted by a small dedicated routine.
// op = [name, s, assign(0/1), bytes..]   (see spec/adt/Str.tla for the catalogue)
// ---------------------------------------------------------------------------------------------------------
struct StrOp {
  std::string name; int s = 0; bool assign = false;
  std::vector<uint8_t> bytes;            // text / data argument
  long long a = 0, b = 0, c = 0;         // numeric arguments
  uint64_t num = 0;                      // 64-bit number for num
  std::string flags;                     // printf flags for fmtd
  char conv = 'd';
};

static void str_exec(World& w, const StrOp& o0) {
  *g_cur = C_STRING;
  StrOp o = o0;
  String& S = *w.str[o.s];
  if (o.name == "fmts" && o.b == 1) {     // scripted: output length = remaining capacity exactly
    size_t start = o.assign ? 0 : S.size(); size_t rem = S.capacity() - start;
    o.bytes.assign(rem >= (size_t)o.a ? rem - (size_t)o.a : 0, uint8_t('k'));
  }
  if (o.name == "append_self") {     // announced first: if the call dies the trace shows which operation it was
    W.beginObj().kv("e", "Note"); W.key("op").beginArr().val("append_self").val(o.s + 1).endArr(); W.endObj(); emit(C_STRING);
  }
  W.beginObj().kv("e", "Op");
  W.key("op").beginArr().val(o.name).val(o.s + 1).val(o.assign ? 1 : 0);
  W.beginArr(); for (auto x : o.bytes) W.val((long long)x); W.endArr();
  W.val(o.a).val(o.b).val(o.c);
  W.beginArr(); for (int i = 0; i < 4; i++) W.val((long long)((o.num >> (16 * i)) & 0xFFFF)); W.endArr();
  W.val(o.flags).val(std::string(1, o.conv));
  W.endArr();
  W.key("r").beginArr();
  std::string text(o.bytes.begin(), o.bytes.end());
  (void)text.c_str();
  g_fail_hit = false; g_fail_armed = w.arm;
  bool two = false;
  const String::ModifyOp mop = o.assign ? String::ModifyOp::kAssign : String::ModifyOp::kAppend;
  if (o.name == "assign") W.val(err_name(S.assign(text.data(), text.size())));              // assign(const char*, size)
  else if (o.name == "assign_cstr") W.val(err_name(S.assign(text.c_str())));                // size = SIZE_MAX
  else if (o.name == "str") W.val(err_name(S._op_string(mop, text.data(), text.size())));   // assign(Span) / append(str, size)
  else if (o.name == "char") W.val(err_name(S._op_char(mop, (char)o.a)));
  else if (o.name == "chars") W.val(err_name(S._op_chars(mop, (char)o.a, (size_t)o.b)));
  else if (o.name == "num") {
    StringFormatFlags f = StringFormatFlags(uint32_t(o.c));
    Error e = o.conv == 'd' ? (o.assign ? S.assign_int(int64_t(o.num), (uint32_t)o.a, (size_t)o.b, f) : S.append_int(int64_t(o.num), (uint32_t)o.a, (size_t)o.b, f))
                            : (o.assign ? S.assign_uint(o.num, (uint32_t)o.a, (size_t)o.b, f) : S.append_uint(o.num, (uint32_t)o.a, (size_t)o.b, f));
    W.val(err_name(e));
  }
  else if (o.name == "hex") W.val(err_name(S._op_hex(mop, text.data(), text.size(), (char)o.a)));
  else if (o.name == "fmts") {        // "<prefix a chars>%s" with the text as argument
    std::string f((size_t)o.a, '#'); f += "%s";
    W.val(err_name(o.assign ? S.assign_format(f.c_str(), text.c_str()) : S.append_format(f.c_str(), text.c_str())));
  }
  else if (o.name == "fmtd") {        // "%<flags><width><conv>" with int argument a, width b
    std::string f = "%" + o.flags + (o.b ? std::to_string(o.b) : std::string()) + std::string(1, o.conv);
    Error e;
    if (o.conv == 'd') e = o.assign ? S.assign_format(f.c_str(), int(o.a)) : S.append_format(f.c_str(), int(o.a));
    else e = o.assign ? S.assign_format(f.c_str(), unsigned(o.a)) : S.append_format(f.c_str(), unsigned(o.a));
    W.val(err_name(e));
  }
  else if (o.name == "pad_end") W.val(err_name(S.pad_end((size_t)o.a, (char)o.b)));
  else if (o.name == "truncate") W.val(err_name(S.truncate((size_t)o.a)));
  else if (o.name == "clear") W.val(err_name(S.clear()));
  else if (o.name == "reset") { W.val(err_name(S.reset())); if (o.s == 2) static_cast<StringTmp<40>*>(w.str[2])->_reset_to_temporary(); }
  else if (o.name == "swap") { w.str[0]->swap(*w.str[1]); two = true; }
  else if (o.name == "move") { *w.str[o.s] = std::move(*w.str[o.s ^ 1]); two = true; }
  else if (o.name == "assign_str") { W.val(err_name(S.assign(*w.str[o.a]))); }
  else if (o.name == "append_str") { W.val(err_name(S.append(*w.str[o.a]))); }
  else if (o.name == "append_self") W.val(err_name(S.append(S)));       // String::append(const String&) with itself
  else if (o.name == "assign_sub") W.val(err_name(S.assign(S.data() + o.a, (size_t)o.b)));
  else if (o.name == "eq") W.val(S.equals(text.data(), text.size()) ? 1 : 0);
  else if (o.name == "eq_cstr") W.val(S.equals(text.c_str()) ? 1 : 0);
  else if (o.name == "eq_str") W.val(S.equals(*w.str[o.a]) ? 1 : 0);
  else if (o.name == "astr") {        // ArenaString<N>::set_data : a = 0 -> N 16, 1 -> N 32
    Arena ar(1024);
    const char* d = nullptr; uint32_t sz = 0; bool emb = false; Error e;
    ArenaString<16> s16; ArenaString<32> s32;
    if (o.a == 0) { e = s16.set_data(ar, text.data(), text.size()); d = s16.data(); sz = s16.size(); emb = s16.is_embedded(); }
    else { e = s32.set_data(ar, text.data(), text.size()); d = s32.data(); sz = s32.size(); emb = s32.is_embedded(); }
    W.val(err_name(e));
    W.beginArr(); for (uint32_t i = 0; i < sz; i++) W.val((long long)(uint8_t)d[i]); W.endArr();
    W.val(d[sz] == 0).val(emb);
  }
  W.endArr();
  g_fail_armed = false; W.kv("fail", w.arm).kv("hit", (bool)g_fail_hit); w.arm = false;
  if (two) w.str_state({0, 1}); else w.str_state({o.s});
  W.endObj(); emit(C_STRING);
}

// ---------------------------------------------------------------------------------------------------------
// random driver
// ---------------------------------------------------------------------------------------------------------
static size_t pick_size(vj::Rng& r, const std::vector<size_t>& edges, size_t maxv) {
  if (r.chance(1, 2)) { size_t e = edges[r.below(edges.size())]; long long d = (long long)r.below(5) - 2; long long v = (long long)e + d; if (v < 0) v = 0; return std::min<size_t>((size_t)v, maxv); }
  return r.below(maxv + 1);
}

static void random_str(World& w, vj::Rng& r) {
  StrOp o;
  o.s = (int)r.below(3);
  o.assign = r.chance(1, 4);
  String& S = *w.str[o.s];
  static const std::vector<size_t> edges = {0, 1, 30, 31, 32, 40, 47, 48, 127, 128, 129, 255, 256, 511, 512, 1023, 1024, 1025};
  auto text = [&](size_t n) { o.bytes.resize(n); uint8_t base = uint8_t('a' + r.below(20)); for (size_t i = 0; i < n; i++) o.bytes[i] = uint8_t(base + (i % 5)); };
  // lengths that land exactly on / next to the remaining capacity
  auto len_near_cap = [&]() -> size_t {
    size_t start = o.assign ? 0 : S.size();
    size_t rem = S.capacity() - start;
    long long v = (long long)rem + (long long)r.below(3) - 1;
    return (size_t)std::max<long long>(v, 0);
  };
  unsigned c = (unsigned)r.below(100);
  if (c < 10) { o.name = r.chance(1, 2) ? "assign" : "assign_cstr"; text(r.chance(1, 3) ? len_near_cap() : pick_size(r, edges, 600)); }
  else if (c < 24) { o.name = "str"; text(r.chance(1, 3) ? len_near_cap() : pick_size(r, edges, 300)); }
  else if (c < 30) { o.name = "char"; o.a = 'A' + (long long)r.below(26); }
  else if (c < 38) { o.name = "chars"; o.a = 'A' + (long long)r.below(26); o.b = (long long)(r.chance(1, 3) ? len_near_cap() : pick_size(r, edges, 300)); }
  else if (c < 52) {
    o.name = "num"; o.conv = r.chance(1, 2) ? 'd' : 'u';
    static const uint32_t bases[] = {0, 2, 8, 10, 16, 16, 10};
    o.a = r.chance(1, 2) ? bases[r.below(7)] : (uint32_t)r.below(39);     // every base 0..38 (2..36 exist, the others must be refused)
    static const size_t widths[] = {0, 0, 1, 5, 20, 64, 70, 255, 256, 257, 1000};
    o.b = (long long)widths[r.below(11)];
    o.c = (long long)r.below(8);
    switch (r.below(8)) {
      case 0: o.num = 0; break;
      case 1: o.num = r.below(100); break;
      case 2: o.num = ~uint64_t(0); break;
      case 3: o.num = uint64_t(1) << 63; break;
      case 4: o.num = uint64_t(0) - r.below(1000); break;
      case 5: o.num = r.next() >> r.below(64); break;
      case 6: o.num = 0x7FFFFFFFFFFFFFFFull; break;
      default: o.num = r.next(); break;
    }
  }
  else if (c < 58) { o.name = "hex"; text(pick_size(r, {0, 1, 2, 10, 15, 16}, 40)); for (auto& b : o.bytes) b = (uint8_t)r.below(256); o.a = r.chance(1, 2) ? 0 : (r.chance(1, 2) ? ' ' : ':'); }
  else if (c < 70) {
    o.name = "fmts"; o.a = (long long)r.below(3);
    size_t n = r.chance(1, 2) ? len_near_cap() : pick_size(r, edges, 1100);
    n = n >= (size_t)o.a ? n - (size_t)o.a : 0;
    if (r.chance(1, 6)) n = 0;
    text(n);
  }
  else if (c < 76) {
    o.name = "fmtd"; static const char convs[] = {'d', 'u', 'x', 'X', 'd'}; o.conv = convs[r.below(5)];
    static const char* fl[] = {"", "0", "-", "+", ""}; o.flags = fl[r.below(5)];
    if (o.conv != 'd' && o.flags == "+") o.flags = "";
    o.b = (long long)r.below(12);
    o.a = (long long)r.below(3) == 0 ? (long long)r.below(10) : (long long)r.below(2000000000);
    if (o.conv == 'd' && r.chance(1, 2)) o.a = -o.a;
  }
  else if (c < 80) { o.name = "pad_end"; o.a = (long long)pick_size(r, edges, 300); o.b = '.'; }
  else if (c < 86) { o.name = "truncate"; o.a = (long long)(r.chance(1, 2) ? r.below(S.size() + 2) : pick_size(r, edges, 300)); }
  else if (c < 88) { o.name = "clear"; }
  else if (c < 89) { o.name = "reset"; }
  else if (c < 91) { o.name = "swap"; o.s = 0; }
  else if (c < 92) { o.name = "move"; o.s = (int)r.below(2); }
  else if (c < 94) { o.name = r.chance(1, 2) ? "assign_str" : "append_str"; o.a = (long long)r.below(3); if (o.a == o.s) o.a = (o.s + 1) % 3; }
  else if (c < 96) {
    o.name = r.chance(1, 2) ? "eq" : "eq_cstr";
    o.bytes.assign((const uint8_t*)S.data(), (const uint8_t*)S.data() + S.size());
    unsigned m = (unsigned)r.below(4);
    if (m == 1 && !o.bytes.empty()) o.bytes.back() ^= 1; else if (m == 2) o.bytes.push_back('z'); else if (m == 3 && !o.bytes.empty()) o.bytes.pop_back();
    for (auto& b : o.bytes) if (b == 0) b = 1;
  }
  else if (c < 98) {
    if (r.chance(1, 4)) { o.name = "eq_str"; o.a = (long long)r.below(3); }
    else { o.name = "assign_sub"; size_t sz = S.size(); o.a = (long long)r.below(sz + 1); o.b = (long long)r.below(sz - (size_t)o.a + 1); }   // substring of itself
  }
  else { o.name = "astr"; o.a = 0;   // ArenaString<32> indexes its 12-byte `_embedded` member up to 27 (inside the object, but flagged by UBSan bounds)
    text(pick_size(r, {0, 1, 11, 12, 13, 27, 28, 29}, 60)); if (o.bytes.empty()) o.bytes.push_back('q'); }
  str_exec(w, o);
}

static void random_step(World& w, vj::Rng& r, const unsigned* weight) {
  unsigned total = 0;
  for (int i = 0; i < NCOMP; i++) total += weight[i];
  unsigned x = (unsigned)r.below(total);
  int c = 0;
  while (x >= weight[c]) { x -= weight[c]; c++; }
  w.arm = (c == C_VECTOR || c == C_HASH || c == C_BITSET || c == C_POOL || c == C_STRING) && r.chance(1, c == C_VECTOR || c == C_HASH ? 4 : 10);
  switch (c) {
    case C_ARENA: {
      unsigned k = (unsigned)r.below(100);
      size_t small_max = 3000;
      if (k < 30) {
        size_t n = 8 * (1 + r.below(r.chance(1, 5) ? small_max / 8 : 24));
        if (r.chance(1, w.after_soft ? 3 : 25)) n = 8 * (100 + r.below(3500));     // bigger than a (retained) block
        if (w.live_raw() < 18) w.arena_alloc(r.chance(1, 4) ? "zeroed" : "oneshot", n, r.chance(1, 8));
      } else if (k < 60) {
        static const std::vector<size_t> e = {1, 15, 16, 17, 32, 33, 64, 65, 128, 129, 256, 257, 512, 513, 1024, 1025, 2047, 2048, 2049, 4000};
        size_t n = std::max<size_t>(1, pick_size(r, e, 5000));
        if (w.live_raw() < 18) w.arena_alloc(r.chance(1, 4) ? "rzeroed" : "reusable", n, r.chance(1, 6));
      } else if (k < 85) {
        std::vector<size_t> cand;
        for (size_t i = 0; i < w.regs.size(); i++) if (w.regs[i].kind == 'r') cand.push_back(i);
        if (!cand.empty()) w.arena_free(cand[r.below(cand.size())]);
      } else if (k < 93) {
        if (w.live_raw() < 18) w.arena_dup(1 + r.below(700), r.chance(1, 2), r.chance(1, 8));
      } else if (k < 97) w.arena_reset(false);
      else w.arena_reset(true);
      break;
    }
    case C_VECTOR: {
      int v = (int)r.below(4); IVec& V = *w.vec[v];
      unsigned k = (unsigned)r.below(100);
      uint32_t x = (uint32_t)r.below(r.chance(1, 2) ? 6 : 100000);
      size_t sz = V.size();
      static const std::vector<size_t> e = {0, 1, 4, 5, 8, 16, 17, 21, 22, 32, 64, 65, 85, 86, 128, 256, 257};
      size_t room = V.cap() - sz, osz = w.vec[v ^ 1]->size();
      if (k < 4) { if (sz < 500) w.vec_op("appendn", v, (long long)(1 + r.below(r.chance(1, 4) ? 200 : 20)), (long long)r.below(1000)); }
      else if (k < 8 && room) { unsigned u = (unsigned)r.below(3); if (u == 0) w.vec_op("append_u", v, x); else if (u == 1) w.vec_op("prepend_u", v, x); else w.vec_op("insert_u", v, (long long)r.below(sz + 1), x); }
      else if (k < 10) { if (r.chance(1, 2)) { if (room >= osz) w.vec_op("concat_u", v); } else if (V.cap() >= osz && V.data()) w.vec_op("assign_u", v); }
      else if (k < 11) w.vec_op("move", v);
      else if (k < 30) w.vec_op("append", v, x);
      else if (k < 36) w.vec_op("prepend", v, x);
      else if (k < 44) w.vec_op("insert", v, (long long)r.below(sz + 1), x);
      else if (k < 52) { if (sz) w.vec_op("remove_at", v, (long long)r.below(sz)); }
      else if (k < 56) { if (sz) w.vec_op("pop", v); }
      else if (k < 57) w.vec_op("clear", v);
      else if (k < 60) w.vec_op("truncate", v, (long long)r.below(sz + 3));
      else if (k < 65) w.vec_op(r.chance(1, 2) ? "resize_fit" : "resize_grow", v, (long long)pick_size(r, e, 300));
      else if (k < 70) { static const char* n[] = {"reserve_fit", "reserve_grow", "reserve_add"}; w.vec_op(n[r.below(3)], v, (long long)pick_size(r, e, 300)); }
      else if (k < 72) w.vec_op("reserve_huge", v, (long long)r.below(3), (long long)r.below(1000));
      else if (k < 76) { if (sz + w.vec[v ^ 1]->size() < 700) w.vec_op("concat", v); }
      else if (k < 79) w.vec_op("swap", v);
      else if (k < 80) w.vec_op("release", v);
      else if (k < 82) w.vec_op("sort", v);
      else if (k < 84) w.vec_op("sort_desc", v);
      else if (k < 88) w.vec_op("index_of", v, x);
      else if (k < 92) w.vec_op("last_index_of", v, x);
      else if (k < 94) w.vec_op("contains", v, x);
      else if (k < 96) w.vec_op("iter", v);
      else if (k < 98) w.vec_op("riter", v);
      else w.vec_op("all", v);
      break;
    }
    case C_HASH: {
      int t = (int)r.below(2);
      unsigned k = (unsigned)r.below(100);
      uint32_t key = (uint32_t)r.below(r.chance(1, 2) ? 12 : 400);
      if (k < 4) { if (w.hnodes.size() < 600) w.hash_op("insn", t, (long long)r.below(400), (long long)(1 + r.below(r.chance(1, 3) ? 260 : 40))); }
      else if (k < 8) { if (!w.hnodes.empty()) w.hash_op("remn", t, (long long)(1 + r.below(w.hnodes.size())), (long long)(1 + r.below(r.chance(1, 3) ? 300 : 30))); }
      else if (k < 50) { if (w.hnodes.size() < 700) w.hash_op("ins", t, key); }
      else if (k < 72) { if (!w.hnodes.empty()) w.hash_op("rem", t, (long long)(1 + r.below(w.hnodes.size()))); }
      else if (k < 94) w.hash_op("get", t, key);
      else if (k < 97) w.hash_op("swap", t);
      else if (k < 98) w.hash_op("release", t);
      else if (k < 99) { w.hash_op("rehash", t, (long long)r.below(26)); if (r.chance(1, 2)) w.hash_probe_level(t); }   // any row up to 85159 buckets, also downwards
      else w.hash_op("all", t);
      break;
    }
    case C_TREE: {
      int t = (int)r.below(4) == 0 ? 1 : 0;
      unsigned k = (unsigned)r.below(100);
      uint32_t key = (uint32_t)r.below(r.chance(1, 3) ? 16 : 400);
      auto& ks = w.tkeys[t];
      if (k < 3) { if (ks.size() < 300) w.tree_op("insn", t, (long long)r.below(400), (long long)(1 + r.below(r.chance(1, 3) ? 200 : 25)), (long long)r.below(2)); }
      else if (k < 6) w.tree_op("remn", t, (long long)r.below(400), (long long)(1 + r.below(r.chance(1, 3) ? 200 : 25)), (long long)r.below(2));
      else if (k < 45) { if (!ks.count(key) && ks.size() < 300) w.tree_op("ins", t, key); }
      else if (k < 80) { if (!ks.empty()) { auto it = ks.lower_bound(key); if (it == ks.end()) it = ks.begin(); w.tree_op("rem", t, *it); } }
      else if (k < 95) w.tree_op("get", t, key);
      else if (k < 98) w.tree_op("swap", t);
      else if (k < 99) w.tree_op("rem", t, 100000 + key);    // absent
      else w.tree_op("reset", t);
      break;
    }
    case C_LIST: {
      int l = (int)r.below(2);
      unsigned k = (unsigned)r.below(100);
      std::vector<long long> fre, in;
      for (size_t i = 0; i < w.lwhere.size(); i++) { if (w.lwhere[i] == -1) fre.push_back((long long)i + 1); if (w.lwhere[i] == l) in.push_back((long long)i + 1); }
      if (fre.empty() && w.lnodes.size() < 40) { w.list_op("new", l); break; }
      if (k < 20) { if (!fre.empty()) w.list_op("append", l, fre[r.below(fre.size())]); }
      else if (k < 35) { if (!fre.empty()) w.list_op("prepend", l, fre[r.below(fre.size())]); }
      else if (k < 48) { if (!fre.empty() && !in.empty()) w.list_op("ins_after", l, in[r.below(in.size())], fre[r.below(fre.size())]); }
      else if (k < 60) { if (!fre.empty() && !in.empty()) w.list_op("ins_before", l, in[r.below(in.size())], fre[r.below(fre.size())]); }
      else if (k < 75) { if (!in.empty()) w.list_op("unlink", l, in[r.below(in.size())]); }
      else if (k < 83) { if (!in.empty()) w.list_op("pop", l); }
      else if (k < 91) { if (!in.empty()) w.list_op("pop_first", l); }
      else if (k < 95) w.list_op("swap", l);
      else if (k < 96) w.list_op("reset", l);
      else if (w.lnodes.size() < 40) w.list_op("new", l);
      break;
    }
    case C_BITSET: {
      int b = (int)r.below(2); auto& B = w.bs[b];
      unsigned k = (unsigned)r.below(100);
      size_t sz = B.size();
      static const std::vector<size_t> e = {0, 1, 63, 64, 65, 127, 128, 129, 191, 192, 256, 257};
      if (k < 14) w.bs_op("resize", b, (long long)pick_size(r, e, 400), (long long)r.below(2));
      else if (k < 30) w.bs_op("append", b, (long long)r.below(2));
      else if (k < 40) { if (sz) w.bs_op("set", b, (long long)r.below(sz), (long long)r.below(2)); }
      else if (k < 44) { if (sz) w.bs_op("clear_bit", b, (long long)r.below(sz)); }
      else if (k < 48) { if (sz) w.bs_op("add", b, (long long)r.below(sz), (long long)r.below(2)); }
      else if (k < 52) { if (sz) w.bs_op("xor", b, (long long)r.below(sz), (long long)r.below(2)); }
      else if (k < 55) { if (sz) w.bs_op("get", b, (long long)r.below(sz)); }
      else if (k < 64) { size_t s = r.below(sz + 1); size_t c = r.chance(1, 4) ? sz - s : r.below(sz - s + 1); if (B._data) w.bs_op("fill", b, (long long)s, (long long)c); }
      else if (k < 72) { size_t s = r.below(sz + 1); size_t c = r.chance(1, 4) ? sz - s : r.below(sz - s + 1); if (B._data) w.bs_op("clearr", b, (long long)s, (long long)c); }
      else if (k < 74) { if (B._data) w.bs_op("clear_all", b); }
      else if (k < 77) { if (B._data) w.bs_op("fill_all", b); }
      else if (k < 81) { if (B._data) w.bs_op("truncate", b, (long long)r.below(sz + 3)); }
      else if (k < 82) w.bs_op("clear", b);
      else if (k < 85) { if (B._data && w.bs[b ^ 1]._data) w.bs_op("and", b); }
      else if (k < 88) { if (B._data && w.bs[b ^ 1]._data) w.bs_op("or", b); }
      else if (k < 91) { if (B._data && w.bs[b ^ 1]._data) w.bs_op("andnot", b); }
      else if (k < 94) w.bs_op("copy", b);
      else if (k < 96) { if (B._data && w.bs[b ^ 1]._data) w.bs_op("eq", b); }
      else if (k < 97) w.bs_op("swap", b);
      else if (k < 98) w.bs_op("release", b);
      else { if (B._data) w.bs_op("iter", b); }
      break;
    }
    case C_BITVEC: {
      int b = (int)r.below(2);
      unsigned k = (unsigned)r.below(100);
      static const std::vector<size_t> e = {0, 1, 63, 64, 65, 127, 128, 191, 192, 255};
      size_t s = std::min<size_t>(pick_size(r, e, 255), 255);
      size_t cnt = r.chance(1, 3) ? 256 - s : r.below(256 - s + 1);
      if (r.chance(1, 4)) cnt = std::min<size_t>(256 - s, 64 * (1 + r.below(3)) - (s % 64));   // ends on a word boundary
      if (k < 22) w.bv_op("fill", b, (long long)s, (long long)cnt);
      else if (k < 44) w.bv_op("clear", b, (long long)s, (long long)cnt);
      else if (k < 52) w.bv_op("set", b, (long long)s, (long long)r.below(2));
      else if (k < 57) w.bv_op("or", b, (long long)s, (long long)r.below(2));
      else if (k < 62) w.bv_op("xor", b, (long long)s, (long long)r.below(2));
      else if (k < 66) w.bv_op("get", b, (long long)s);
      else if (k < 76) {
        bool val = r.chance(1, 2);
        // precondition of bit_vector_index_of: a matching bit exists at or after `start` inside the buffer
        bool found = false;
        for (size_t i = s; i < 256; i++) if ((((w.bv[b] + 1)[i / 64] >> (i % 64)) & 1) == (val ? 1u : 0u)) { found = true; break; }
        if (found) w.bv_op("index_of", b, (long long)s, val ? 1 : 0);
      }
      else if (k < 86) w.bv_op("iter", b, (long long)s);
      else if (k < 96) w.bv_op("opiter", b, (long long)s, (long long)r.below(4));
      else w.bv_op("worditer", b, (long long)(r.next() & 0x7FFFFFFF));
      break;
    }
    case C_POOL: {
      unsigned k = (unsigned)r.below(100);
      std::vector<long long> live;
      for (size_t i = 0; i < w.plive.size(); i++) if (w.plive[i]) live.push_back((long long)i + 1);
      size_t pooled = w.pobjs.size() - live.size();
      if (k < 55) { if (w.pobjs.size() < 10 || pooled) w.pool_op("alloc"); }
      else if (!live.empty()) w.pool_op("release", live[r.below(live.size())]);
      break;
    }
    case C_STRING: random_str(w, r); break;
  }
}

static void run_random_exec(vj::Rng& r, unsigned steps) {
  World w(r);
  static const size_t blks[] = {1024, 1024, 4096, 2048};
  static const size_t stats[] = {0, 0, 0, 256, 1000, 4096, 100};
  w.hmode = (int)r.below(6);
  w.new_arena(blks[r.below(4)], stats[r.below(7)]);
  w.headers();
  unsigned weight[NCOMP];
  for (int i = 0; i < NCOMP; i++) weight[i] = 10;
  // a focus component so that some executions reach the growth thresholds of one container
  if (r.chance(2, 3)) weight[r.below(NCOMP)] = 150;
  unsigned n = steps / 2 + (unsigned)r.below(steps / 2 + 1);
  for (unsigned i = 0; i < n && !w.dead; i++) random_step(w, r, weight);
  if (!w.dead) {
    w.vec_op("all", 0); w.hash_op("all", 0);
    w.arena_ext("final");
    if (r.chance(1, 2)) w.arena_reset(r.chance(1, 2));
    if (!w.dead) { delete w.arena; }
  }
}

// ---------------------------------------------------------------------------------------------------------
// script driver (TLC-exported behaviours and hand-written scenarios)
// ---------------------------------------------------------------------------------------------------------
static void run_script(const vj::Value& s, vj::Rng& r) {
  World w(r);
  size_t blk = 1024, stat = 0;
  if (s.has("arena")) { blk = (size_t)s["arena"][0].i(); stat = (size_t)s["arena"][1].i(); }
  w.hmode = s.has("hmode") ? (int)s["hmode"].i() : 0;
  w.new_arena(blk, stat);
  w.headers();
  std::string c = s["c"].s();
  if (s.has("nodes")) for (long long i = 0; i < s["nodes"].i(); i++) {      // list nodes 1..n exist before the script starts
    w.lnodes.push_back(w.arena->new_oneshot<LNode>((uint32_t)w.lnodes.size() + 1)); w.lwhere.push_back(-1);
  }
  for (auto& op : s["ops"].arr) {
    if (w.dead) break;
    std::string name = op[0].s();
    auto A = [&](size_t i) -> long long { return i < op.arr.size() ? op[i].i() : 0; };
    if (c == "arena") {
      long long rep = 1;
      if (name == "rep") {   // ["rep", count, name, arg]
        rep = A(1); name = op[2].s();
        for (long long i = 0; i < rep && !w.dead; i++) w.arena_alloc(name.c_str(), (size_t)A(3));
        continue;
      }
      if (name == "leftover") {   // ["leftover", L] : fill the current block so that exactly L bytes remain (L multiple of 8)
        size_t rem = w.arena->remaining_size(), L = (size_t)A(1);
        if (rem < L + 8) { w.arena_alloc("oneshot", 64); rem = w.arena->remaining_size(); }      // opens a block if there is none
        rem &= ~size_t(7);
        while (rem > L && !w.dead) { size_t take = std::min<size_t>(rem - L, 1024); w.arena_alloc("oneshot", take); rem -= take; if (w.regs.size() > 30) break; }
        continue;
      }
      if (name == "reset") w.arena_reset(op[1].s() == "hard");
      else if (name == "free") { for (size_t i = 0; i < w.regs.size(); i++) if ((long long)w.regs[i].id == A(1)) { w.arena_free(i); break; } }
      else if (name == "dup") w.arena_dup((size_t)A(1), A(2) != 0, A(3) != 0);
      else w.arena_alloc(name.c_str(), (size_t)A(1), A(2) != 0);
    }
    else if (c == "vector") w.vec_op(name, (int)A(1) - 1, A(2), A(3));
    else if (c == "hash" && name == "grow") w.hash_grow((int)A(1) - 1, (uint32_t)A(2));
    else if (c == "hash" && name == "rows") w.hash_rows((int)A(1) - 1, (uint32_t)A(2), (uint32_t)A(3), (uint64_t)A(4));
    else if (c == "hash" && name == "insk") { w.klist.clear(); for (auto& k : op[3].arr) w.klist.push_back((uint32_t)k.i()); w.hash_op(name, (int)A(1) - 1); }
    else if (c == "hash") w.hash_op(name, (int)A(1) - 1, A(2), A(3));
    else if (c == "tree") w.tree_op(name, (int)A(1) - 1, A(2), A(3), A(4));
    else if (c == "list") w.list_op(name, (int)A(1) - 1, A(2), A(3));
    else if (c == "bitset") w.bs_op(name, (int)A(1) - 1, A(2), A(3));
    else if (c == "bitvec") w.bv_op(name, (int)A(1) - 1, A(2), A(3));
    else if (c == "pool") w.pool_op(name, A(1));
    else if (c == "string") {
      StrOp o; o.name = name; o.s = (int)A(1) - 1; o.assign = A(2) != 0;
      if (op.arr.size() > 3) for (auto& b : op[3].arr) o.bytes.push_back((uint8_t)b.i());
      o.a = A(4); o.b = A(5); o.c = A(6);
      if (op.arr.size() > 7) for (int i = 0; i < 4; i++) o.num |= uint64_t(op[7][i].i()) << (16 * i);
      if (op.arr.size() > 8) o.flags = op[8].s();
      if (op.arr.size() > 9 && !op[9].s().empty()) o.conv = op[9].s()[0];
      if (op.arr.size() > 10) w.arm = A(10) != 0;          // this operation runs with a failing heap request
      str_exec(w, o);
    }
  }
  if (!w.dead) {
    if (c == "arena") { *g_cur = C_ARENA; }
    delete w.arena;       // hard reset through the destructor
    if (c == "arena") { W.beginObj().kv("e", "Destroyed").endObj(); emit(C_ARENA); }
  }
}

// Runs `body` in a forked child.  Returns true when the child ended normally.  With `mark` the parent appends the
// ABORT line for a dead child; without it the caller rolls the trace files back and retries in smaller pieces.
static unsigned g_aborted = 0;      // executions that died; after a handful the run stops (the check fails anyway)
static bool in_child(const std::function<void()>& body, bool mark = true, unsigned watchdog_s = 30) {
  for (int c = 0; c < NCOMP; c++) fflush(g_out[c]);
  *g_cur = C_ARENA;
  pid_t pid = fork();
  if (pid == 0) {
    // a corrupted structure can make a container (or the projection) loop forever: SIGXCPU ends the execution,
    // which is then marked ABORT like any other crash (the limit is CPU time, so a busy machine cannot trigger it)
    { struct rlimit rl; rl.rlim_cur = watchdog_s; rl.rlim_max = watchdog_s + 5; setrlimit(RLIMIT_CPU, &rl); }   // CPU seconds, not wall time
    std::set_terminate([] { _exit(70); });
    body();
    for (int c = 0; c < NCOMP; c++) fflush(g_out[c]);
    _exit(0);
  }
  int status = 0;
  waitpid(pid, &status, 0);
  bool ok = WIFEXITED(status) && WEXITSTATUS(status) == 0;
  if (!ok && !mark) return false;
  if (!ok) {
    g_aborted++;
    int c = *g_cur;
    if (c < 0 || c >= NCOMP) c = 0;
    // the child's partial line (if any) is terminated first
    fputs("\n{\"e\":\"ABORT\"}\n", g_out[c]); fflush(g_out[c]);
    fprintf(stderr, "execution aborted in component %s (status %d)\n", comp_name[c], status);
  }
  return ok;
}

// ---------------------------------------------------------------------------------------------------------
// pointwise observations of ArenaHashBase::_calc_mod for EVERY row of the prime table
// ---------------------------------------------------------------------------------------------------------
struct HashProbe : public ArenaHashBase {};
static void w32(const char* k, uint64_t v) { W.key(k).beginArr().val((long long)(v & 0xFFFF)).val((long long)((v >> 16) & 0xFFFF)).endArr(); }
static int run_hashmod(const char* path, uint64_t max_real_buckets) {
  FILE* f = fopen(path, "w");
  if (!f) return 3;
  vj::Rng r(vj::env_seed());
  size_t nrows = sizeof(ArenaHash_prime_array) / sizeof(ArenaHash_prime_array[0]);
  for (size_t i = 0; i < nrows; i++) {
    uint64_t p = ArenaHash_prime_array[i].prime, rcp = ArenaHash_prime_array[i].rcp; unsigned sh = ArenaHash_prime_shift[i];
    HashProbe h;
    bool real = false, same = true;
    Arena arena(4096);
    if (p <= max_real_buckets) {          // the fields as the real _rehash() sets them
      h._rehash(arena, (uint32_t)i);
      real = true;
      same = h._buckets_count == p && h._rcp_value == rcp && h._rcp_shift == sh && h._prime_index == i;
    } else {
      h._buckets_count = (uint32_t)p; h._rcp_value = (uint32_t)rcp; h._rcp_shift = (uint8_t)sh; h._prime_index = (uint8_t)i;
    }
    W.beginObj().kv("k", "row").kv("row", (long long)i); w32("p", p); w32("rcp", rcp); W.kv("sh", sh).kv("real", real).kv("same", same).endObj(); W.emit(f);
    std::vector<uint64_t> hs = {0, 1, 2, p - 1, p, p + 1, 2 * p, 2 * p - 1, 2 * p + 1, 0xFFFFFFFFull, 0xFFFFFFFEull, 0x80000000ull, 0x7FFFFFFFull,
                                0xFFFFFFFFull - p, 0x100000000ull - p, 0xFFFFFFFFull - p + 1};
    uint64_t qt = 0xFFFFFFFFull / p;
    for (uint64_t q : {qt, qt - 1, qt / 2, qt / 3 + 1, (uint64_t)1 << (31 - (63 - __builtin_clzll(p | 1)) > 0 ? 31 - (63 - __builtin_clzll(p | 1)) : 0)}) {
      for (long long d = -2; d <= 2; d++) hs.push_back(q * p + (uint64_t)d);
      hs.push_back(q * p + p - 1);
    }
    for (int k = 0; k < 24; k++) { uint64_t q = r.below(qt + 1); hs.push_back(q * p); hs.push_back(q * p + p - 1); hs.push_back(r.next() & 0xFFFFFFFFull); }
    for (uint64_t hv : hs) {
      if (hv > 0xFFFFFFFFull) continue;
      uint32_t got = h._calc_mod((uint32_t)hv);
      W.beginObj().kv("k", "mod").kv("row", (long long)i); w32("p", p); w32("h", hv); w32("got", got); W.endObj(); W.emit(f);
    }
    if (real) h.release(arena);
  }
  fclose(f);
  return 0;
}

int main(int argc, char** argv) {
  if (argc >= 3 && std::string(argv[1]) == "hashmod") return run_hashmod(argv[2], argc > 3 ? strtoull(argv[3], nullptr, 10) : 4000000ull);
  if (argc < 4) { fprintf(stderr, "usage: adt random <prefix> <execs> <steps> | adt script <scripts> <prefix>\n"); return 3; }
  std::string mode = argv[1];
  std::string prefix = mode == "random" ? argv[2] : argv[3];
  g_cur = (volatile int*)mmap(nullptr, 4096, PROT_READ | PROT_WRITE, MAP_SHARED | MAP_ANONYMOUS, -1, 0);
  for (int c = 0; c < NCOMP; c++) {
    std::string p = prefix + "." + comp_name[c] + ".ndjson";
    g_out[c] = fopen(p.c_str(), "a");
    if (!g_out[c]) { fprintf(stderr, "cannot open %s\n", p.c_str()); return 3; }
    if (ftruncate(fileno(g_out[c]), 0) != 0) return 3;
  }
  uint64_t seed = vj::env_seed();
  if (mode == "random") {
    unsigned nexec = (unsigned)atoi(argv[3]), steps = (unsigned)atoi(argv[4]);
    for (unsigned x = 0; x < nexec && g_aborted < 8; x++) {
      in_child([&] { vj::Rng r(seed * 1000003ull + x); run_random_exec(r, steps); });
    }
    return 0;
  }
  if (mode == "script") {
    auto scripts = vj::read_ndjson(argv[2]);
    unsigned x = 0;
    // scripts are executed in batches of 64 per child; a batch whose child died is rolled back and repeated with
    // one child per script, so a crash still only marks its own execution
    (void)x;
    for (size_t b0 = 0; b0 < scripts.size() && g_aborted < 8; b0 += 64) {
      size_t b1 = std::min(scripts.size(), b0 + 64);
      off_t pos[NCOMP];
      for (int c = 0; c < NCOMP; c++) { fflush(g_out[c]); pos[c] = lseek(fileno(g_out[c]), 0, SEEK_END); }
      bool ok = in_child([&] { for (size_t i = b0; i < b1; i++) { vj::Rng r(seed * 7919ull + i); run_script(scripts[i], r); } }, false, 300);
      if (ok) continue;
      for (int c = 0; c < NCOMP; c++) if (ftruncate(fileno(g_out[c]), pos[c]) != 0) return 3;
      for (size_t i = b0; i < b1 && g_aborted < 8; i++) in_child([&] { vj::Rng r(seed * 7919ull + i); run_script(scripts[i], r); }, true, 120);
    }
    return 0;
  }
  return 3;
}
