// C01 harness: sweep of the real x86::Assembler over the forms of the ISA database (pointwise observations, judged by TLC).
//
//   x86sweep sweep  <forms.ndjson> <out.ndjson> <quick|thorough> [<shard> <nshards>]
//   x86sweep replay <in.ndjson> <out.ndjson>        re-executes recorded observations on the current tree
//
// Every observation = request (form id the instantiation came from, instruction name, mode, operand descriptors, decorations,
// option bits - see lib_x86forms.h) + error code + bytes appended.  The harness only drives the generic emit(inst_id, operands...)
// API (instruction ids by name lookup) with strict validation on and records what happened; all judgement is in spec/isa/X86Enc.tla.
#include "lib_x86forms.h"
#include <map>

using namespace asmjit;
using namespace x86forms;

struct Obs : Inst {
  uint32_t err = 0; std::string ename; std::vector<uint8_t> bytes;
};

struct Mode {
  int bits;
  Environment env;
  CodeHolder code;
  x86::Assembler* a = nullptr;
  uint64_t base = Globals::kNoBaseAddress;
  void init(int b, uint64_t base_address = Globals::kNoBaseAddress) {
    bits = b; base = base_address;
    env = Environment(b == 64 ? Arch::kX64 : Arch::kX86);
    reset();
  }
  void reset() {
    delete a;
    code.reset();
    code.init(env, base);
    a = new x86::Assembler(&code);
    a->add_diagnostic_options(DiagnosticOptions::kValidateAssembler);
  }
};

static const uint8_t g_zeros[1 << 17] = {0};

// executes the observation on the real assembler and records error + bytes
static void execute(Mode& md, Obs& ob) {
  x86::Assembler& a = *md.a;
  ob.bytes.clear();
  InstId id = InstAPI::string_to_inst_id(md.env.arch(), ob.n.c_str(), ob.n.size());
  if (id == BaseInst::kIdNone) { ob.err = 0xFFFF; ob.ename = "UnknownInstructionName"; return; }
  if (md.code.text_section()->buffer().size() > (48u << 20)) md.reset();
  Operand_ ops[6];
  size_t n = ob.ops.size();
  if (n > 6) { ob.err = 0xFFFE; ob.ename = "TooManyOperands"; return; }
  Label fwdLabel; int fwdIdx = -1;
  for (size_t j = 0; j < n; j++) {
    Opd& o = ob.ops[j];
    if (o.t == 'l' && o.abs) {
      // absolute target address: base + offset of the instruction start + delta (the CodeHolder of this mode has a known base address)
      o.id = o.fwd ? o.pad : -o.pad;
      ops[j] = Imm(int64_t(md.base + a.offset() + uint64_t(int64_t(o.id))));
    }
    else if (!build_operand(o, ops[j])) {
      Label L = a.new_label();
      if (o.fwd) { fwdLabel = L; fwdIdx = int(j); }
      else {
        a.bind(L);
        if (o.pad > 0) a.embed(g_zeros, size_t(o.pad));
        (o.t == 'm' ? o.ld : o.id) = -o.pad;
      }
      if (o.t == 'm') ops[j] = make_mem(o, &L); else ops[j] = L;
    }
  }
  if (ob.eo & 1) a.add_encoding_options(EncodingOptions::kOptimizeForSize); else a.clear_encoding_options(EncodingOptions::kOptimizeForSize);
  if (ob.eo & 2) a.add_encoding_options(EncodingOptions::kPredictedJumps); else a.clear_encoding_options(EncodingOptions::kPredictedJumps);
  a.set_inst_options(inst_options(ob));
  if (ob.k) a.set_extra_reg(x86::k(ob.k)); else a.reset_extra_reg();
  size_t before = a.offset();
  Error e = a.emit_op_array(id, ops, n);
  size_t after = a.offset();
  a.reset_inst_options(); a.reset_extra_reg();
  ob.err = uint32_t(e);
  ob.ename = DebugUtils::error_as_string(e);
  if (fwdIdx >= 0) {
    Opd& o = ob.ops[fwdIdx];
    if (e == Error::kOk) {
      if (o.pad > 0) a.embed(g_zeros, size_t(o.pad));
      Error be = a.bind(fwdLabel);
      (o.t == 'm' ? o.ld : o.id) = int(after - before) + o.pad;
      if (be != Error::kOk) { ob.err = 0xFFFD; ob.ename = std::string("BindFailed:") + DebugUtils::error_as_string(be); }
    } else a.bind(fwdLabel);
  }
  const uint8_t* p = md.code.text_section()->buffer().data();
  for (size_t x = before; x < after; x++) ob.bytes.push_back(p[x]);
}

static void write_obs(FILE* out, const Obs& ob) {
  vj::W w;
  w.beginObj();
  write_request(w, ob);
  w.kv("e", (long long)ob.err).kv("en", ob.ename);
  w.key("b").beginArr(); for (uint8_t x : ob.bytes) w.val(int(x)); w.endArr();
  w.endObj();
  w.emit(out);
}

static long g_emits = 0, g_accepted = 0;

static void run_one(Mode& md, Obs& ob, FILE* out) {
  execute(md, ob);
  g_emits++;
  if (ob.err == 0) g_accepted++;
  write_obs(out, ob);
}

int main(int argc, char** argv) {
  if (argc < 4) { fprintf(stderr, "usage: x86sweep sweep <forms> <out> <tier> [shard n] | replay <in> <out>\n"); return 2; }
  std::string cmd = argv[1];
  vj::Rng rng(vj::env_seed());
  g_gen.rng = &rng;
  g_gen.cross = true;
  Mode m32, m64, m32b, m64b; m32.init(32); m64.init(64);
  m32b.init(32, 0x10000000ull); m64b.init(64, 0x0000123400000000ull);      // known base address: absolute branch targets
  auto pick = [&](const Inst& in) -> Mode& {
    bool abs = false;
    for (const Opd& o : in.ops) if (o.t == 'l' && o.abs) abs = true;
    return in.m == 64 ? (abs ? m64b : m64) : (abs ? m32b : m32);
  };
  if (cmd == "replay") {
    FILE* out = fopen(argv[3], "w");
    for (const vj::Value& v : vj::read_ndjson(argv[2])) {
      Obs ob; static_cast<Inst&>(ob) = read_request(v);
      run_one(pick(ob), ob, out);
    }
    fclose(out);
    return 0;
  }
  g_gen.thorough = argc > 4 && std::string(argv[4]) == "thorough";
  int shard = argc > 6 ? atoi(argv[5]) : 0, nshards = argc > 6 ? atoi(argv[6]) : 1;
  std::vector<Form> forms = load_forms(argv[2]);
  FILE* out = fopen(argv[3], "w");
  if (!out) { fprintf(stderr, "cannot write %s\n", argv[3]); return 3; }
  for (const Form& f : forms) {
    if (f.id % nshards != shard) continue;
    size_t rot = size_t(vj::env_seed() * 7 + f.id);
    for (int pass = 0; pass < 2; pass++) {
      Mode& md = pass == 0 ? m64 : m32;
      instantiate(f, md.bits, rot + (pass ? 3 : 0), [&](Inst& in) { Obs ob; static_cast<Inst&>(ob) = in; run_one(pick(ob), ob, out); });
    }
  }
  fclose(out);
  fprintf(stderr, "emits=%ld accepted=%ld\n", g_emits, g_accepted);
  return 0;
}
