// C15 harness: allocation-failure enumeration on real asmjit objects; records an ndjson trace for FaultsTrace.tla.
// LDFLAGS: -Wl,--wrap=malloc,--wrap=calloc,--wrap=realloc,--wrap=free,--wrap=mmap,--wrap=munmap,--wrap=mprotect,--wrap=ftruncate,--wrap=syscall,--wrap=close
//
//   faults list                                             names of the workloads
//   faults run <trace> <workload> <quick|thorough> <nshard> <shard> [masks]
//   faults one <trace> <workload> <cls> <k[,k..]> [inplace] the clean execution + that single injected execution
//
// Classes of requests (the property's quantifier):
//   arena  every consultation of hook H1 (asmjit_verif_arena_fail) - i.e. every entry into Arena::alloc_oneshot (inline),
//          _alloc_oneshot (slow path: the current block is exhausted), _alloc_oneshot_zeroed, _alloc_reusable,
//          _alloc_reusable_zeroed.  Nested entries of one logical request are separate positions k (failing the
//          inner one exercises the path a failing malloc really takes).  Every injected failure is tagged
//          phys=true (the arena would have had to call malloc for it) or phys=false (synthetic: a retained block or
//          a pooled slot could have served it).
//   heap   every malloc/calloc/realloc issued by asmjit code (arena blocks, section buffers, String, JitAllocator
//          headers), intercepted by link-time wrapping (--wrap); the wrappers forward to the real allocator, which
//          under the asan flavour is ASan's - so heap injection and ASan coexist and ONE flavour (asan) serves all
//          three classes.
//   vm     mmap, memfd_create (syscall), ftruncate and mprotect issued by asmjit's VirtMem layer (also --wrap).
//
// Accounting: every block/mapping/descriptor obtained through the wrappers between the start of an execution and the
// Leak event is tracked by address; what is still outstanding after all objects were destroyed is the leak.
//
// One execution = Reset line (written and flushed BEFORE the run starts, so a crash is attributable), the workload
// with the failure(s) injected - continuing after every error (cont=restart), or, cont=inplace, repeating exactly the
// API call that failed with memory available again on the same objects (Rec::call) and then continuing -,
// ResetObjects, the same workload again without failures on the SAME objects, Destroy, Leak.
// Every Call event carries r (reported error), f (failure injected), redo (API calls repeated in place) and three
// digests: d exact representation, s meaning, p product (bytes / results / contents without ids) - see Faults.tla.  The runs are executed by a forked worker; when the worker dies
// (sanitizer report, SIGSEGV, hang -> alarm) the supervisor appends an ABORT line and forks a new worker that resumes
// after the job that died.
#include <asmjit/core.h>
#include <asmjit/x86.h>
#include <asmjit/a64.h>
#include <asmjit/support/arena.h>
#include <asmjit/support/arenavector.h>
#include <asmjit/support/arenahash.h>
#include <asmjit/support/arenatree.h>
#include <asmjit/support/arenapool.h>
#include <asmjit/support/arenastring.h>
#include <asmjit/support/arenabitset_p.h>
#include "vjson.h"
#include <sys/mman.h>
#include <sys/wait.h>
#include <sys/syscall.h>
#include <signal.h>
#include <errno.h>
#include <fcntl.h>
#include <algorithm>
#include <functional>

using namespace asmjit;

// Hook H1 (hooks/H1_arena_fault.patch).  Declared weak here so that this file still links against a tree without the
// hook; `faults hook` / every run then says so instead of failing to build.
extern "C" bool (*asmjit_verif_arena_fail)(size_t size, const void* arena, int site) __attribute__((weak));
static bool hook_present() { return &asmjit_verif_arena_fail != nullptr; }

// =========================================================================================================
// Fault engine
// =========================================================================================================
static bool g_verbose_early = false;
// page shared between supervisor and worker: job in progress and a description of the last injected failure, so that a
// crash inside the very call that had the failure injected is still attributable (its Call event is never written)
struct Shared { volatile long cur; volatile long done; volatile long inj; volatile long phys; volatile long site; volatile long size; };
static Shared* g_sh = nullptr;
// debugging aid (FAULTS_VERBOSE=1, asan flavour): stack of every injected failure on stderr
extern "C" void __sanitizer_print_stack_trace() __attribute__((weak));
static void show_stack(const char* what) {
  if (g_verbose_early && __sanitizer_print_stack_trace) { fprintf(stderr, "--- injected failure (%s)\n", what); __sanitizer_print_stack_trace(); }
}
enum Cls { C_NONE = 0, C_ARENA = 1, C_HEAP = 2, C_VM = 3 };
static const char* cls_name(int c) { return c == C_ARENA ? "arena" : c == C_HEAP ? "heap" : c == C_VM ? "vm" : "none"; }

static const size_t kPlanBits = 1u << 22;
struct Engine {
  volatile bool armed = false;     // requests are counted / failures injected
  volatile bool track = false;     // outstanding blocks are tracked
  int cls = C_NONE;                // class whose plan is active
  uint64_t cnt[4] = {0, 0, 0, 0};  // requests seen while armed
  unsigned hits = 0;               // failures injected in this run
  // description of the last injected failure (for the event)
  bool last_phys = false; int last_site = 0; size_t last_size = 0; const char* last_op = "";
  uint8_t plan[kPlanBits / 8];
  bool planned(uint64_t i) const { return i < kPlanBits && ((plan[i >> 3] >> (i & 7)) & 1); }
  void plan_set(uint64_t i) { if (i < kPlanBits) plan[i >> 3] |= uint8_t(1u << (i & 7)); }
  void plan_clear() { memset(plan, 0, sizeof plan); }
};
static Engine E;

// ---- outstanding-block tables (no allocation inside the wrappers) ----
template<size_t N> struct PtrTable {
  struct Ent { uintptr_t p; size_t n; };
  Ent t[N];
  size_t live = 0;
  void clear() { memset(t, 0, sizeof t); live = 0; }
  void add(uintptr_t p, size_t n) {
    size_t h = (p >> 4) * 0x9E3779B97F4A7C15ull % N;
    for (size_t i = 0; i < N; i++) { Ent& e = t[(h + i) % N]; if (e.p == 0 || e.p == 1) { e.p = p; e.n = n; live++; return; } }
    fprintf(stderr, "faults: tracking table full\n"); _exit(3);
  }
  bool del(uintptr_t p, size_t* n = nullptr) {
    if (p <= 1) return false;         // 0 / 1 are the empty / tombstone marks: munmap(nullptr) or free(nullptr) frees nothing
    size_t h = (p >> 4) * 0x9E3779B97F4A7C15ull % N;
    for (size_t i = 0; i < N; i++) { Ent& e = t[(h + i) % N]; if (e.p == p) { if (n) *n = e.n; e.p = 1; live--; return true; } if (e.p == 0) return false; }
    return false;
  }
};
static PtrTable<1 << 15> g_heap;
static PtrTable<1 << 10> g_maps;
static PtrTable<1 << 8> g_fds;

extern "C" {
void* __real_malloc(size_t); void* __real_calloc(size_t, size_t); void* __real_realloc(void*, size_t); void __real_free(void*);
void* __real_mmap(void*, size_t, int, int, int, off_t); int __real_munmap(void*, size_t); int __real_mprotect(void*, size_t, int);
int __real_ftruncate(int, off_t); long __real_syscall(long, long, long, long, long, long, long); int __real_close(int);

static bool heap_fail(size_t n, const char* op) {
  if (!E.armed) return false;
  uint64_t i = ++E.cnt[C_HEAP];
  if (E.cls == C_HEAP && E.planned(i)) { E.hits++; E.last_phys = true; E.last_site = 0; E.last_size = n; E.last_op = op; if (g_sh) { g_sh->inj = g_sh->inj + 1; g_sh->phys = 1; g_sh->site = 0; g_sh->size = long(n); } show_stack(op); return true; }
  return false;
}
static bool vm_fail(size_t n, const char* op) {
  if (!E.armed) return false;
  uint64_t i = ++E.cnt[C_VM];
  if (E.cls == C_VM && E.planned(i)) { E.hits++; E.last_phys = true; E.last_site = 0; E.last_size = n; E.last_op = op; if (g_sh) { g_sh->inj = g_sh->inj + 1; g_sh->phys = 1; g_sh->site = 0; g_sh->size = long(n); } show_stack(op); return true; }
  return false;
}

void* __wrap_malloc(size_t n) {
  if (heap_fail(n, "malloc")) { errno = ENOMEM; return nullptr; }
  void* p = __real_malloc(n);
  if (p && E.track) g_heap.add(uintptr_t(p), n);
  return p;
}
void* __wrap_calloc(size_t a, size_t b) {
  if (heap_fail(a * b, "calloc")) { errno = ENOMEM; return nullptr; }
  void* p = __real_calloc(a, b);
  if (p && E.track) g_heap.add(uintptr_t(p), a * b);
  return p;
}
void* __wrap_realloc(void* o, size_t n) {
  if (heap_fail(n, "realloc")) { errno = ENOMEM; return nullptr; }     // the old block stays valid, as with the real realloc
  bool was = o && g_heap.del(uintptr_t(o));
  void* p = __real_realloc(o, n);
  if (p) { if (E.track || was) g_heap.add(uintptr_t(p), n); }
  else if (was) g_heap.add(uintptr_t(o), 0);
  return p;
}
void __wrap_free(void* p) {
  if (p) g_heap.del(uintptr_t(p));
  __real_free(p);
}
void* __wrap_mmap(void* a, size_t n, int prot, int flags, int fd, off_t off) {
  if (vm_fail(n, "mmap")) { errno = ENOMEM; return MAP_FAILED; }
  void* p = __real_mmap(a, n, prot, flags, fd, off);
  if (p != MAP_FAILED && E.track) g_maps.add(uintptr_t(p), n);
  return p;
}
int __wrap_munmap(void* a, size_t n) {
  int rc = __real_munmap(a, n);
  if (rc != 0) return rc;              // a failed munmap (e.g. of a null view) releases nothing
  size_t len = 0;
  if (g_maps.del(uintptr_t(a), &len) && len > n) g_maps.add(uintptr_t(a) + n, len - n);   // a prefix was unmapped
  return rc;
}
int __wrap_mprotect(void* a, size_t n, int prot) {
  if (vm_fail(n, "mprotect")) { errno = ENOMEM; return -1; }
  return __real_mprotect(a, n, prot);
}
int __wrap_ftruncate(int fd, off_t n) {
  if (vm_fail(size_t(n), "ftruncate")) { errno = ENOMEM; return -1; }
  return __real_ftruncate(fd, n);
}
long __wrap_syscall(long nr, long a, long b, long c, long d, long e, long f) {
#if defined(__NR_memfd_create)
  if (nr == __NR_memfd_create) {
    if (vm_fail(0, "memfd_create")) { errno = ENOMEM; return -1; }
    long fd = __real_syscall(nr, a, b, c, d, e, f);
    if (fd >= 0 && E.track) g_fds.add(uintptr_t(fd) + 16, 0);
    return fd;
  }
#endif
  return __real_syscall(nr, a, b, c, d, e, f);
}
int __wrap_close(int fd) {
  if (fd >= 0) g_fds.del(uintptr_t(fd) + 16);
  return __real_close(fd);
}
} // extern "C"

// ---- arena predicate (hook H1) ----
static bool arena_block_chain_fits(const Arena* a, size_t size) {
  for (const Arena::ManagedBlock* b = a->_current_block ? a->_current_block->next : nullptr; b; b = b->next) {
    uint8_t* p = Support::align_up(b->data(), Arena::kAlignment);
    if (size <= size_t(b->end() - p)) return true;
  }
  return false;
}
// would the arena have to call malloc to serve this request?
static bool arena_needs_malloc(const Arena* a, size_t size, int site) {
  size_t remaining = size_t(a->_end - a->_ptr);
  if (site <= 2) {
    if (site != 1 && size <= remaining) return false;
    return !arena_block_chain_fits(a, size);
  }
  size_t slot, slot_size;
  if (Arena::_get_reusable_slot_index(size, Out(slot), Out(slot_size))) {
    if (a->_reusable_slots[slot]) return false;
    if (slot_size <= remaining) return false;
    return !arena_block_chain_fits(a, slot_size);
  }
  return true;   // dynamic block: always malloc
}
static bool arena_pred(size_t size, const void* arena, int site) {
  if (!E.armed) return false;
  uint64_t i = ++E.cnt[C_ARENA];
  if (E.cls == C_ARENA && E.planned(i)) {
    E.hits++;
    E.last_phys = arena_needs_malloc(static_cast<const Arena*>(arena), size, site);
    E.last_site = site; E.last_size = size; E.last_op = "arena";
    if (g_sh) { g_sh->inj = g_sh->inj + 1; g_sh->phys = E.last_phys; g_sh->site = site; g_sh->size = long(size); }
    show_stack("arena");
    return true;
  }
  return false;
}

// =========================================================================================================
// Recorder
// =========================================================================================================
static bool g_verbose = false;
struct Dig {
  uint64_t h = 0xcbf29ce484222325ull;
  void u8(uint8_t b) { h = (h ^ b) * 0x100000001b3ull; }
  void u64(uint64_t v) { for (int i = 0; i < 8; i++) u8(uint8_t(v >> (8 * i))); }
  void bytes(const void* p, size_t n) { const uint8_t* b = static_cast<const uint8_t*>(p); u64(n); for (size_t i = 0; i < n; i++) u8(b[i]); }
  long long fold() const { return (long long)((h ^ (h >> 31)) & 0x3FFFFFFF); }
  // debugging aid (FAULTS_VERBOSE=1): named checkpoints of the running hash, logged with the event
  std::vector<std::pair<std::string, long long>> marks;
  std::string hex;
  void mark(const char* name) { if (g_verbose) marks.emplace_back(name, fold()); }
};

static std::string err_name(Error e) {
  if (e == Error::kOk) return "Ok";
  if (uint32_t(e) == 0xFFFFu) return "Skipped";      // a call the harness did not make (precondition not met)
  return DebugUtils::error_as_string(e);
}

struct ErrH : public ErrorHandler {
  Error last = Error::kOk;
  void handle_error(Error err, const char*, BaseEmitter*) override { last = err; }
};

struct Rec {
  FILE* out = nullptr;      // nullptr: silent (warm-up / counting)
  char ph = 'C';
  int idx = 0;
  vj::W w;
  ErrH* eh = nullptr;                 // errors reported through the ErrorHandler count as the call's reported error
  std::function<void(Dig&)> digest;   // d: exact observable state of the workload's objects (representation)
  std::function<void(Dig&)> semantic; // s: what the state MEANS (defaults to d); see Faults.tla
  uint64_t extra = 0;                 // per-step output folded into both digests (copied bytes, function results)
  uint64_t extra_d = 0;               // per-step output folded into d only
  std::function<void(Dig&)> product;  // p: the product only - code bytes / results of executed code / container contents -
                                      //    without ids and counters (defaults to s); judged after a repair in place
  bool all_ok = true;                 // every call made so far in this phase returned Ok
  // Continuation mode "retry in place": when an API call that had a failure injected returns an error, memory is made
  // available again and exactly that call is repeated on the same objects (no reset); the workload then continues.
  bool inplace = false;
  int redo = 0;                       // API calls repeated during the current step
  // Calls on a holder whose init() failed / on an emitter that is not attached are a misuse of the API with or
  // without allocation failures (most answer NotInitialized, a few do not check): such calls are not made.
  std::function<bool()> usable;

  // one public API call inside a step (a step may batch several); value-returning APIs report through the handler
  template<class F> Error call(F&& fn) {
    unsigned h0 = E.hits;
    if (eh) eh->last = Error::kOk;
    Error e = fn();
    if (e == Error::kOk && eh && eh->last != Error::kOk) e = eh->last;
    if (e != Error::kOk && inplace && ph == 'F' && E.hits != h0) {
      bool was = E.armed; E.armed = false;             // memory is available again
      redo++;
      if (eh) eh->last = Error::kOk;
      e = fn();
      if (e == Error::kOk && eh && eh->last != Error::kOk) e = eh->last;
      E.armed = was;
    }
    return e;
  }

  template<class F> Error step(const char* name, F&& fn, bool guarded = true) {
    idx++;
    unsigned h0 = E.hits;
    extra = 0; extra_d = 0; redo = 0;
    if (eh) eh->last = Error::kOk;
    Error e = (guarded && usable && !usable()) ? Error(0xFFFFu) : fn();
    if (e == Error::kOk && eh && eh->last != Error::kOk) e = eh->last;   // value-returning APIs report through the handler
    if (e != Error::kOk) all_ok = false;
    bool f = E.hits != h0;
    bool was_armed = E.armed; E.armed = false;         // the digest only reads, but keep it out of the counts
    Dig d; d.u64(extra); d.u64(extra_d); if (digest) digest(d);
    Dig sd; sd.u64(extra); if (semantic) semantic(sd); else { sd.u64(extra_d); if (digest) digest(sd); }
    Dig pd; pd.u64(extra); if (product) product(pd); else pd.h = sd.h;
    if (out) {
      w.beginObj().kv("e", "Call").kv("ph", std::string(1, ph)).kv("i", idx).kv("c", name).kv("r", err_name(e)).kv("f", f).kv("d", d.fold()).kv("s", sd.fold())
       .kv("p", pd.fold()).kv("redo", redo);
      if (g_verbose) { w.key("marks").beginObj(); for (auto& m : d.marks) w.kv(m.first.c_str(), m.second); w.endObj(); w.kv("hex", d.hex); }
      if (f) w.kv("phys", E.last_phys).kv("site", E.last_site).kv("size", (long long)std::min<size_t>(E.last_size, 1u << 30)).kv("op", E.last_op).kv("hits", (long long)(E.hits - h0));
      w.endObj().emit(out);
      fflush(out);                                     // a crash in the next call must not lose this line
    }
    E.armed = was_armed;
    return e;
  }
  // a call whose precondition (a non-null object returned by an earlier, failed call) is not met is not made
  void skip(const char* name) { step(name, [] { return Error(0xFFFFu); }); }
};

// C: one repeatable API call.  CV: a value-returning API call (statement; then the validity test of what it returned).
#define C(expr) R.call([&]() -> Error { return (expr); })
#define CV(stmt, valid) R.call([&]() -> Error { stmt; return (valid) ? Error::kOk : Error::kOutOfMemory; })
#define S(name, expr) R.step(name, [&]() -> Error { return C(expr); })
#define S0(name, expr) R.step(name, [&]() -> Error { return C(expr); }, false)      /* not guarded: init / attach / construction */
// a call that is NOT repeatable after a failure: multi-stage transformations (finalize / run_passes / serialize_to) have
// consumed or rewritten part of their input when they fail; the documentation promises a consistent state for cancelling
// the code generation, not resumption - only reset / destruction are demanded afterwards
#define SN(name, expr) R.step(name, [&]() -> Error { return (expr); })
// direct CodeHolder calls are only made on an initialised holder: using a holder whose init() failed is a misuse of
// the API with or without allocation failures (emitters check this themselves and answer NotInitialized)
#define SH(name, expr) (code.is_initialized() ? S(name, expr) : (R.skip(name), Error(0xFFFFu)))

struct Workload {
  virtual ~Workload() {}
  virtual void body(Rec& R) = 0;          // the program: every public API call is one step
  virtual Error reset_objects(int mode) = 0;   // bring the objects back to their initial state (soft / hard)
};

// ---------------------------------------------------------------------------------------------------------
// digests of holder / builder state (public accessors only; no pointers, no capacities)
// ---------------------------------------------------------------------------------------------------------
// with_bytes = false: after JitRuntime::add() the section buffers were relocated to the address the allocator returned,
// which is not part of any contract (the meaning of installed code is what it computes when executed)
static void digest_code(Dig& d, const CodeHolder& code, bool with_bytes = true) {
  d.u64(code.is_initialized());
  d.u64(code.section_count());
  for (Section* s : code.sections()) {
    if (!s) { d.u64(0xDEAD); continue; }
    d.u64(s->section_id()); d.u64(s->alignment()); d.u64(s->offset()); d.u64(s->virtual_size());
    if (with_bytes) d.bytes(s->data(), s->buffer_size()); else d.u64(s->buffer_size());
    if (g_verbose && s->section_id() == 0) { char b[4]; for (size_t i = 0; i < s->buffer_size() && i < 4096; i++) { snprintf(b, sizeof b, "%02x", s->data()[i]); d.hex += b; } }
  }
  d.mark("sections");
  d.u64(code.label_count());
  for (const LabelEntry& le : code.label_entries()) {
    bool b = le.is_bound();
    d.u64(b);
    if (b) { d.u64(le.section_id()); d.u64(le.offset()); }
  }
  d.mark("labels");
  d.u64(code.reloc_entries().size());
  for (const RelocEntry* re : code.reloc_entries()) {
    if (!re) { d.u64(0xDEAD); continue; }
    d.u64(uint64_t(re->reloc_type())); d.u64(re->format().value_size()); d.u64(re->source_section_id());
    d.u64(re->target_section_id()); d.u64(re->source_offset());
    if (re->reloc_type() != RelocType::kExpression) d.u64(re->payload());
  }
  d.mark("relocs");
  d.u64(code.unresolved_fixup_count());
  d.u64(code.has_address_table_section());
  d.mark("code");
}

static void digest_nodes(Dig& d, const BaseBuilder& b, bool with_comments = true) {
  size_t n = 0;
  for (BaseNode* node = b.first_node(); node && n < 100000; node = node->next(), n++) {
    if (!with_comments && node->type() == NodeType::kComment) continue;      // comments do not change the code
    d.u64(uint64_t(node->type()));
    if (node->is_inst()) {
      InstNode* in = node->as<InstNode>();
      d.u64(uint64_t(in->inst_id())); d.u64(uint64_t(in->options())); d.u64(in->op_count());
      for (size_t i = 0; i < in->op_count(); i++) {
        const Operand_& o = in->operands()[i];
        d.u64(o._signature.bits()); d.u64(o._base_id); d.u64(o._data[0]); d.u64(o._data[1]);
      }
    }
    else if (node->type() == NodeType::kLabel) d.u64(node->as<LabelNode>()->label_id());
    else if (node->type() == NodeType::kEmbedData) { EmbedDataNode* e = node->as<EmbedDataNode>(); d.u64(e->data_size()); d.u64(e->repeat_count()); }
    else if (node->type() == NodeType::kAlign) d.u64(node->as<AlignNode>()->alignment());
    else if (node->type() == NodeType::kSection) d.u64(node->as<SectionNode>()->section_id());
  }
  d.u64(n);
  d.mark("nodes");
}

// the product of a holder: what ends up in memory - per section alignment, offset and bytes (no ids, no counters)
static void product_code(Dig& d, const CodeHolder& code, bool with_bytes = true) {
  d.u64(code.is_initialized());
  d.u64(code.section_count());
  for (Section* s : code.sections()) {
    if (!s) { d.u64(0xDEAD); continue; }
    d.u64(s->alignment()); d.u64(s->offset());
    d.u64(s->virtual_size());             // part of the layout: decides code_size() and what a copy zero-fills
    if (with_bytes) d.bytes(s->data(), s->buffer_size()); else d.u64(s->buffer_size());
  }
}

// ---------------------------------------------------------------------------------------------------------
// W1 - assemble: labels, forward/backward references, 3 sections, embed_label / delta, relocations, flatten,
//      resolve, relocate, copy (x86-64 and AArch64), including a reinit in the middle of the program
// ---------------------------------------------------------------------------------------------------------
struct W1 : Workload {
  Arch arch;
  CodeHolder code;
  x86::Assembler xa;
  a64::Assembler aa;
  ErrH eh;
  std::vector<uint8_t> image;
  int left = -1;      // arena phase: before each absolute call/jmp the holder's arena is drained to `left` bytes
  explicit W1(Arch a, int l = -1) : arch(a), left(l) {}
  // Arena requests only reach the heap when a block is exhausted, so WHICH request of a call meets the injected failure
  // depends on the arena's fill level ("phase").  Draining is not an API step of the workload: it is repeated identically
  // in the clean run and made with failure injection suspended.
  void drain(Rec& R) {
    if (left < 0 || !code.is_initialized()) return;
    bool was = E.armed; E.armed = false;
    size_t rem = code.arena().remaining_size();
    if (rem < size_t(left)) { (void)code.arena().alloc_oneshot<uint8_t>(rem & ~size_t(7)); (void)code.arena().alloc_oneshot<uint8_t>(64); rem = code.arena().remaining_size(); }
    size_t take = (rem - size_t(left)) & ~size_t(7);
    if (take) (void)code.arena().alloc_oneshot<uint8_t>(take);
    E.armed = was;
  }
  bool x86() const { return arch == Arch::kX64; }
  BaseAssembler& as() { return x86() ? static_cast<BaseAssembler&>(xa) : static_cast<BaseAssembler&>(aa); }

  Label new_label(Rec& R, const char* nm) {
    Label L;
    R.step(nm, [&]() -> Error { return CV(L = as().new_label(), L.is_valid()); });
    return L;
  }

  void body(Rec& R) override {
    R.digest = [this](Dig& d) { digest_code(d, code); };
    R.product = [this](Dig& d) { product_code(d, code); };
    R.eh = &eh;
    BaseAssembler& a = as();
    R.usable = [this]() { return code.is_initialized() && as().code() == &code; };
    S0("init", code.init(Environment(arch)));
    code.set_error_handler(&eh);
    S0("attach", code.attach(&a));
    // ---- a short first program, then reinit (reuse of holder + attached emitter) ----
    {
      Label P = new_label(R, "new_label.p");
      if (x86()) { S("emit.p1", xa.mov(x86::eax, 1)); S("emit.p2", xa.jmp(P)); }
      else { S("emit.p1", aa.mov(a64::w0, 1)); S("emit.p2", aa.b(P)); }
      S("bind.p", a.bind(P));
      Section* tmp = nullptr;
      SH("new_section.p", code.new_section(Out(tmp), ".tmp", SIZE_MAX, SectionFlags::kNone, 4));
      // reinit() == reset(kSoft) + init(): when it fails the holder is left uninitialised and its emitters detached,
      // so it cannot be repeated in place (init + attach would have to be repeated: that is the restart continuation)
      SN("reinit", code.reinit());
    }
    // ---- the main program ----
    Section* data = nullptr; Section* ro = nullptr;
    SH("new_section.data", code.new_section(Out(data), ".data", SIZE_MAX, SectionFlags::kNone, 8));
    SH("new_section.rodata", code.new_section(Out(ro), ".rodata", SIZE_MAX, SectionFlags::kReadOnly, 16, -1));
    Label L1 = new_label(R, "new_label.1"), L2 = new_label(R, "new_label.2"), L3 = new_label(R, "new_label.3");
    Label LD = new_label(R, "new_label.d"), LR = new_label(R, "new_label.r"), LB = new_label(R, "new_label.b");
    Label entry, local;
    R.step("new_named_label", [&]() -> Error { return CV(entry = a.new_named_label("entry", SIZE_MAX, LabelType::kGlobal), entry.is_valid()); });
    R.step("new_named_label.local", [&]() -> Error { return CV(local = a.new_named_label("loop", SIZE_MAX, LabelType::kLocal, entry.id()), local.is_valid()); });
    R.step("new_named_label.dup", [&]() -> Error { Label x; return CV(x = a.new_named_label("entry", SIZE_MAX, LabelType::kGlobal), x.is_valid()); });
    S("bind.entry", a.bind(entry));
    S("bind.b", a.bind(LB));
    if (x86()) {
      S("emit.mov", xa.mov(x86::eax, 0x11223344));
      S("emit.jmp.fwd", xa.jmp(L1));
      S("emit.jz.fwd", xa.jz(L2));
      S("emit.call.fwd", xa.call(L3));
      S("emit.lea.data", xa.lea(x86::rax, x86::ptr(LD)));
      S("emit.mov.ro", xa.mov(x86::rcx, x86::ptr(LR, 8)));
      S("bind.local", a.bind(local));
      S("emit.dec", xa.dec(x86::ecx));
      S("emit.jnz.back", xa.jnz(local));
      S("emit.jmp.back", xa.jmp(LB));
      drain(R);
      S("emit.call.abs", xa.call(Imm(0x7FFF12345678ull)));
      drain(R);
      S("emit.jmp.abs", xa.jmp(Imm(0x7FFF23456789ull)));
      drain(R);
      S("emit.call.abs2", xa.call(Imm(0x7FFF12345678ull)));
      S("emit.mov.abs", xa.mov(x86::rax, x86::ptr(uint64_t(0x123456))));
    }
    else {
      S("emit.mov", aa.mov(a64::w0, 0x1122));
      S("emit.jmp.fwd", aa.b(L1));
      S("emit.jz.fwd", aa.cbz(a64::x3, L2));
      S("emit.call.fwd", aa.bl(L3));
      S("emit.lea.data", aa.adr(a64::x9, LD));
      S("emit.mov.ro", aa.ldr(a64::x5, a64::ptr(LR)));
      S("bind.local", a.bind(local));
      S("emit.dec", aa.sub(a64::w1, a64::w1, 1));
      S("emit.jnz.back", aa.cbnz(a64::w1, local));
      S("emit.jmp.back", aa.b(LB));
      S("emit.call.abs", aa.ldr(a64::w6, a64::ptr(L3)));
      S("emit.jmp.abs", aa.tbnz(a64::x7, 33, L2));
      S("emit.call.abs2", aa.tbz(a64::x7, 3, L1));
      S("emit.mov.abs", aa.b_eq(L2));
    }
    S("align", a.align(AlignMode::kCode, 16));
    S("bind.1", a.bind(L1));
    S("bind.2", a.bind(L2));
    if (x86()) S("emit.ret", xa.ret()); else S("emit.ret", aa.ret(a64::x30));
    S("bind.3", a.bind(L3));
    if (x86()) S("emit.ret2", xa.ret()); else S("emit.ret2", aa.ret(a64::x30));
    // data section: absolute label addresses, deltas (bound and unbound), a block large enough to regrow the buffer
    if (data) S("section.data", a.section(data)); else R.skip("section.data");
    S("bind.d", a.bind(LD));
    S("embed_label.1", a.embed_label(L1));
    S("embed_label.r", a.embed_label(LR));
    S("embed_label_delta.bound", a.embed_label_delta(L2, L1, 4));
    S("embed_label_delta.unbound", a.embed_label_delta(LR, LD, 8));
    static const uint8_t blob[64] = {1, 2, 3, 4, 5, 6, 7, 8, 9, 10};
    S("embed.small", a.embed(blob, sizeof blob));
    S("embed_data_array", a.embed_data_array(TypeId::kUInt32, blob, 8, 600));      // 19200 bytes: grows the buffer twice
    if (ro) S("section.rodata", a.section(ro)); else R.skip("section.rodata");
    S("align.ro", a.align(AlignMode::kZero, 16));
    S("bind.r", a.bind(LR));
    S("embed.ro", a.embed(blob, 24));
    S("embed_label.d", a.embed_label(LD, 8));
    // back to text: one more reference after everything is bound
    if (code.section_count()) S("section.text", a.section(code.text_section())); else R.skip("section.text");
    if (x86()) S("emit.jmp.bound", xa.jmp(L3)); else S("emit.jmp.bound", aa.b(L3));
    SH("flatten", code.flatten());
    SH("resolve", code.resolve_cross_section_fixups());
    SH("relocate", code.relocate_to_base(0x400000ull));
    if (!code.is_initialized()) R.skip("copy_flattened_data"); else R.step("copy_flattened_data", [&]() -> Error {
      size_t n = code.code_size();
      if (n == SIZE_MAX || n > (1u << 22)) return Error::kTooLarge;
      image.assign(n + 16, 0xCC);
      Error e = code.copy_flattened_data(image.data(), n, CopySectionFlags::kPadSectionBuffer);
      Dig d; d.bytes(image.data(), image.size()); R.extra = d.h;
      return e;
    });
  }
  Error reset_objects(int mode) override { code.reset(mode ? ResetPolicy::kHard : ResetPolicy::kSoft); return Error::kOk; }
};

// ---------------------------------------------------------------------------------------------------------
// W2 - Builder: build nodes (labels, sections, data, const pool, comments), serialize to an Assembler
// ---------------------------------------------------------------------------------------------------------
struct W2 : Workload {
  CodeHolder code;
  x86::Builder b;
  x86::Assembler a;
  ErrH eh;
  Arena pool_arena{4096};
  ConstPool pool{pool_arena};
  std::vector<uint8_t> image;

  Label new_label(Rec& R, const char* nm) {
    Label L;
    R.step(nm, [&]() -> Error { return CV(L = b.new_label(), L.is_valid()); });
    return L;
  }
  void body(Rec& R) override {
    R.digest = [this](Dig& d) { digest_code(d, code); digest_nodes(d, b); d.u64(pool.size()); };
    R.semantic = [this](Dig& d) { digest_code(d, code); digest_nodes(d, b, false); };
    R.product = [this](Dig& d) { product_code(d, code); d.u64(pool.size()); d.u64(pool.alignment()); };
    R.eh = &eh;
    R.usable = [this]() { return code.is_initialized() && b.code() == &code; };
    S0("init", code.init(Environment(Arch::kX64)));
    code.set_error_handler(&eh);
    S0("attach.builder", code.attach(&b));
    Section* data = nullptr;
    SH("new_section.data", code.new_section(Out(data), ".data", SIZE_MAX, SectionFlags::kNone, 8));
    Label L1 = new_label(R, "new_label.1"), L2 = new_label(R, "new_label.2"), LD = new_label(R, "new_label.d"), LC = new_label(R, "new_label.c");
    Label named;
    R.step("new_named_label", [&]() -> Error { return CV(named = b.new_named_label("func", SIZE_MAX, LabelType::kGlobal), named.is_valid()); });
    S("bind.named", b.bind(named));
    S("comment", b.comment("prologue of the function"));
    S("emit.push", b.push(x86::rbx));
    S("emit.mov", b.mov(x86::eax, 7));
    S("emit.jz.fwd", b.jz(L1));
    S("emit.lea", b.lea(x86::rbx, x86::ptr(LD)));
    S("emit.vec", b.vpaddd(x86::ymm0, x86::ymm1, x86::ptr(LC)));
    S("emit.4op", b.vpblendvb(x86::xmm0, x86::xmm1, x86::xmm2, x86::xmm3));
    S("emit.call", b.call(L2));
    S("bind.1", b.bind(L1));
    S("emit.call.abs", b.call(Imm(0x7FFF12345678ull)));
    S("emit.pop", b.pop(x86::rbx));
    S("emit.ret", b.ret());
    S("align", b.align(AlignMode::kCode, 16));
    S("bind.2", b.bind(L2));
    S("emit.add", b.add(x86::eax, x86::dword_ptr(x86::rdi, x86::rsi, 2, 16)));
    S("emit.ret2", b.ret());
    uint64_t c64[4] = {0x0101010101010101ull, 0x0202020202020202ull, 0x0101010101010101ull, 0x0303030303030303ull};
    size_t off = 0;
    S("pool.add32", pool.add(c64, 32, Out(off)));
    // unrelated constants in descending size (no gaps, no reuse of shared sub-constants): how much a pool shares after a
    // tolerated internal failure is not part of the contract - W5 judges sharing and gaps by meaning
    static const uint64_t other8 = 0x0909090909090909ull; static const uint32_t other4 = 0x0A0A0A0Au;
    S("pool.add8", pool.add(&other8, 8, Out(off)));
    S("pool.add4", pool.add(&other4, 4, Out(off)));
    S("embed_const_pool", b.embed_const_pool(LC, pool));
    if (data) S("section.data", b.section(data)); else R.skip("section.data");
    S("bind.d", b.bind(LD));
    S("embed_label", b.embed_label(L1));
    S("embed_label_delta", b.embed_label_delta(L2, L1, 4));
    static const uint8_t blob[32] = {9, 8, 7, 6, 5};
    S("embed", b.embed(blob, sizeof blob));
    S("embed_data_array", b.embed_data_array(TypeId::kUInt16, blob, 8, 40));
    S("commentf", b.commentf("end of data %d", 42));
    // cursor manipulation: insert an instruction in the middle of the list
    R.step("set_cursor+emit", [&]() -> Error {
      BaseNode* first = b.first_node();
      if (!first) return Error::kInvalidState;
      BaseNode* old = b.set_cursor(first);
      Error e = C(b.nop());
      b.set_cursor(old);
      return e;
    });
    S("attach.assembler", code.attach(&a));
    // serialize_to() walks the node list without testing for an empty list or an unattached destination
    if (a.code() == &code && b.first_node()) SN("serialize_to", b.serialize_to(&a)); else R.skip("serialize_to");
    SH("flatten", code.flatten());
    SH("resolve", code.resolve_cross_section_fixups());
    SH("relocate", code.relocate_to_base(0x200000000ull));
    if (!code.is_initialized()) R.skip("copy_flattened_data"); else R.step("copy_flattened_data", [&]() -> Error {
      size_t n = code.code_size();
      if (n == SIZE_MAX || n > (1u << 22)) return Error::kTooLarge;
      image.assign(n + 16, 0xCC);
      Error e = code.copy_flattened_data(image.data(), n, CopySectionFlags::kPadSectionBuffer);
      Dig d; d.bytes(image.data(), image.size()); R.extra = d.h;
      return e;
    });
  }
  Error reset_objects(int mode) override {
    code.reset(mode ? ResetPolicy::kHard : ResetPolicy::kSoft);
    pool.reset();
    pool_arena.reset(mode ? ResetPolicy::kHard : ResetPolicy::kSoft);
    return Error::kOk;
  }
};

// ---------------------------------------------------------------------------------------------------------
// W3 - x86::Compiler: two functions, ~40 live virtual registers (spills), invoke, jump table, constants, stack,
//      finalize, then the code is installed in a JitRuntime and EXECUTED.
// d (exact) = holder + node list + final bytes;  s (semantic) = node list (without comments) while building and,
// from finalize on, only the returned errors and the results of the executed functions: the register allocator may
// legitimately produce different but equivalent code when an internal request failed and was repeated later.
// ---------------------------------------------------------------------------------------------------------
extern "C" uint32_t faults_helper8(uint32_t a, uint32_t b, uint32_t c, uint32_t d, uint32_t e, uint32_t f, uint32_t g, uint32_t h) {
  return a * 3u + b * 5u + c * 7u + d * 11u + e * 13u + f * 17u + g * 19u + (h ^ 0x55u);
}

struct W3 : Workload {
  CodeHolder code;
  x86::Compiler cc;
  ErrH eh;
  JitRuntime* rt = nullptr;
  bool finalized = false;
  bool installed = false;
  std::vector<uint8_t> image;
  static const unsigned NV = 40;
  typedef uint32_t (*F1)(uint32_t, uint32_t, void*);
  typedef uint32_t (*F2)(uint32_t, uint32_t);
  ~W3() override { delete rt; }

  void body(Rec& R) override {
    finalized = false;
    installed = false;
    R.digest = [this](Dig& d) { digest_code(d, code, !installed); digest_nodes(d, cc); d.u64(cc.virt_regs().size()); };
    R.semantic = [this](Dig& d) { if (!finalized) { d.u64(code.label_count()); digest_nodes(d, cc, false); d.u64(cc.virt_regs().size()); } };
    R.product = [](Dig&) {};       // the product of a compilation is what the installed code computes (R.extra of the run steps)
    R.eh = &eh;
    R.usable = [this]() { return code.is_initialized() && cc.code() == &code; };
    R.step("JitRuntime", [&]() -> Error {
      return R.call([&]() -> Error {
        if (rt && !rt->allocator().is_initialized()) { delete rt; rt = nullptr; }      // a runtime without allocator: construct again
        if (!rt) rt = new JitRuntime();
        return rt->allocator().is_initialized() ? Error::kOk : Error::kOutOfMemory;
      });
    }, false);
    S0("init", code.init(rt->environment(), rt->cpu_features()));
    code.set_error_handler(&eh);
    S0("attach", code.attach(&cc));
    FuncNode* fn = nullptr;
    R.step("add_func", [&]() -> Error { return CV(fn = cc.add_func(FuncSignature::build<uint32_t, uint32_t, uint32_t, void*>()), fn != nullptr); });
    x86::Gp v[NV + 1];
    x86::Gp outp;
    R.step("new_regs", [&]() -> Error {
      for (unsigned i = 1; i <= NV; i++) { Error e = CV(v[i] = cc.new_gp32("v%u", i), v[i].is_valid()); if (e != Error::kOk) return e; }
      return CV(outp = cc.new_gp_ptr("outp"), outp.is_valid());
    });
    if (fn) { fn->set_arg(0, v[1]); fn->set_arg(1, v[2]); fn->set_arg(2, outp); }
    Label Lloop, Ldone, Ltab, Lc[3];
    R.step("new_labels", [&]() -> Error {
      Label* all[6] = {&Lloop, &Ldone, &Ltab, &Lc[0], &Lc[1], &Lc[2]};
      for (Label* l : all) { Error e = CV(*l = cc.new_label(), l->is_valid()); if (e != Error::kOk) return e; }
      return Error::kOk;
    });
    R.step("emit.initall", [&]() -> Error { for (unsigned i = 3; i <= NV; i++) { Error e = C(cc.mov(v[i], i * 0x01010101u)); if (e != Error::kOk) return e; } return Error::kOk; });
    S("bind.loop", cc.bind(Lloop));
    R.step("emit.mix", [&]() -> Error {
      for (unsigned i = 3; i + 1 <= NV; i++) { Error e = C(cc.add(v[i], v[i + 1])); if (e != Error::kOk) return e; }
      Error e = C(cc.imul(v[3], v[NV])); if (e != Error::kOk) return e;
      e = C(cc.dec(v[1])); if (e != Error::kOk) return e;
      return C(cc.jnz(Lloop));
    });
    // call through invoke with 8 register arguments and a return value
    InvokeNode* inv = nullptr;
    S("invoke", cc.invoke(Out(inv), imm(uint64_t(uintptr_t(&faults_helper8))), FuncSignature::build<uint32_t, uint32_t, uint32_t, uint32_t, uint32_t, uint32_t, uint32_t, uint32_t, uint32_t>()));
    if (inv) { for (unsigned k = 0; k < 8; k++) inv->set_arg(k, v[5 + k]); inv->set_ret(0, v[4]); }
    // memory operand constants (local and global const pools); a failed request is reported by an empty operand
    R.step("new_const", [&]() -> Error {
      // a failed request is reported through the error handler (the returned operand is an empty memory operand)
      x86::Mem c1, c2; Error e0;
      if ((e0 = CV(c1 = cc.new_int32_const(ConstPoolScope::kLocal, 0x12345678), c1.is_mem())) != Error::kOk) return e0;
      if ((e0 = CV(c2 = cc.new_uint64_const(ConstPoolScope::kGlobal, 0x1122334455667788ull), c2.is_mem())) != Error::kOk) return e0;
      Error e = C(cc.add(v[4], c1)); if (e != Error::kOk) return e;
      x86::Gp t;
      if ((e = CV(t = cc.new_gp64("t64"), t.is_valid())) != Error::kOk) return e;
      e = C(cc.mov(t, c2)); if (e != Error::kOk) return e;
      return C(cc.add(v[6], t.r32()));
    });
    // stack slot
    R.step("new_stack", [&]() -> Error {
      x86::Mem stk; Error e0;
      if ((e0 = CV(stk = cc.new_stack(64, 16, "stk"), stk.is_mem())) != Error::kOk) return e0;
      x86::Mem m = stk.clone(); m.set_size(4);
      Error e = C(cc.mov(m, v[7])); if (e != Error::kOk) return e;
      return C(cc.add(v[8], m));
    });
    // jump table with annotation
    R.step("jump_table", [&]() -> Error {
      x86::Gp t, off, tgt;
      Error e;
      if ((e = CV(t = cc.new_gp_ptr("jt_idx"), t.is_valid())) != Error::kOk) return e;
      if ((e = CV(off = cc.new_gp_ptr("jt_off"), off.is_valid())) != Error::kOk) return e;
      if ((e = CV(tgt = cc.new_gp_ptr("jt_tgt"), tgt.is_valid())) != Error::kOk) return e;
      if ((e = C(cc.mov(t.r32(), v[2]))) != Error::kOk) return e;
      if ((e = C(cc.and_(t.r32(), 1))) != Error::kOk) return e;
      if ((e = C(cc.lea(off, x86::ptr(Ltab)))) != Error::kOk) return e;
      if ((e = C(cc.movsxd(tgt, x86::dword_ptr(off, t, 2)))) != Error::kOk) return e;
      if ((e = C(cc.add(tgt, off))) != Error::kOk) return e;
      JumpAnnotation* ann = nullptr;
      if ((e = CV(ann = cc.new_jump_annotation(), ann != nullptr)) != Error::kOk) return e;
      for (auto& l : Lc) if ((e = C(ann->add_label(l))) != Error::kOk) return e;
      return C(cc.jmp(tgt, ann));
    });
    for (unsigned c = 0; c < 3; c++) {
      char nm[32]; snprintf(nm, sizeof nm, "case.%u", c);
      R.step(nm, [&]() -> Error {
        Error e = C(cc.bind(Lc[c])); if (e != Error::kOk) return e;
        if ((e = C(cc.add(v[3], v[10 + c]))) != Error::kOk) return e;
        return C(cc.jmp(Ldone));
      });
    }
    S("bind.done", cc.bind(Ldone));
    R.step("emit.fold", [&]() -> Error {
      for (unsigned i = 4; i <= NV; i++) { Error e = C(cc.xor_(v[3], v[i])); if (e != Error::kOk) return e; }
      Error e = C(cc.mov(x86::dword_ptr(outp), v[3])); if (e != Error::kOk) return e;
      return C(cc.ret(v[3]));
    });
    S("end_func", cc.end_func());
    R.step("table", [&]() -> Error {
      Error e = C(cc.bind(Ltab)); if (e != Error::kOk) return e;
      for (auto& l : Lc) if ((e = C(cc.embed_label_delta(l, Ltab, 4))) != Error::kOk) return e;
      return Error::kOk;
    });
    // a second, small function that uses vector registers and a division (fixed registers)
    FuncNode* fn2 = nullptr;
    R.step("add_func.2", [&]() -> Error { return CV(fn2 = cc.add_func(FuncSignature::build<uint32_t, uint32_t, uint32_t>()), fn2 != nullptr); });
    R.step("body.2", [&]() -> Error {
      x86::Gp a, b2, hi; x86::Vec x, y;
      Error e;
      if ((e = CV(a = cc.new_gp32("a"), a.is_valid())) != Error::kOk) return e;
      if ((e = CV(b2 = cc.new_gp32("b"), b2.is_valid())) != Error::kOk) return e;
      if ((e = CV(hi = cc.new_gp32("hi"), hi.is_valid())) != Error::kOk) return e;
      if ((e = CV(x = cc.new_xmm("x"), x.is_valid())) != Error::kOk) return e;
      if ((e = CV(y = cc.new_xmm("y"), y.is_valid())) != Error::kOk) return e;
      if (fn2) { fn2->set_arg(0, a); fn2->set_arg(1, b2); }
      if ((e = C(cc.xor_(hi, hi))) != Error::kOk) return e;
      if ((e = C(cc.or_(b2, 1))) != Error::kOk) return e;
      if ((e = C(cc.div(hi, a, b2))) != Error::kOk) return e;
      if ((e = C(cc.movd(x, a))) != Error::kOk) return e;
      if ((e = C(cc.movd(y, hi))) != Error::kOk) return e;
      if ((e = C(cc.paddd(x, y))) != Error::kOk) return e;
      if ((e = C(cc.movd(a, x))) != Error::kOk) return e;
      return C(cc.ret(a));
    });
    S("end_func.2", cc.end_func());
    // finalize is not repeatable (see SN)
    R.step("finalize", [&]() -> Error { finalized = true; return cc.finalize(); });
    // install and execute - only when every call so far reported success (otherwise the code is knowingly incomplete)
    uint8_t* base = nullptr;
    uint64_t off1 = 0, off2 = 0;
    bool runnable = R.all_ok && fn && fn2;
    if (runnable && code.is_initialized()) {
      R.step("add", [&]() -> Error {
        installed = true;
        Error e = C(rt->add(&base, &code));
        if (e == Error::kOk) {
          if (!code.is_label_bound(fn->label()) || !code.is_label_bound(fn2->label())) return Error::kInvalidState;
          off1 = code.label_offset(fn->label()); off2 = code.label_offset(fn2->label());
        }
        return e;
      });
    } else R.skip("add");
    runnable = runnable && R.all_ok && base;
    static const uint32_t in[4][2] = {{3, 0}, {5, 1}, {1, 6}, {2, 0xFFFFFFF1u}};
    for (unsigned i = 0; i < 4; i++) {
      char nm[32]; snprintf(nm, sizeof nm, "run.%u", i);
      if (!runnable) { R.skip(nm); continue; }
      R.step(nm, [&]() -> Error {
        uint32_t cell = 0xAAAAAAAAu;
        uint32_t r1 = reinterpret_cast<F1>(base + off1)(in[i][0], in[i][1], &cell);
        uint32_t r2 = reinterpret_cast<F2>(base + off2)(in[i][0] * 1000003u + 17u, in[i][1]);
        Dig d; d.u64(r1); d.u64(cell); d.u64(r2); R.extra = d.h;
        return Error::kOk;
      });
    }
    if (base) S0("release", rt->release(base)); else R.skip("release");
  }
  Error reset_objects(int mode) override {
    code.reset(mode ? ResetPolicy::kHard : ResetPolicy::kSoft);
    if (rt) {
      if (!rt->allocator().is_initialized()) { delete rt; rt = nullptr; }
      else rt->reset(mode ? ResetPolicy::kHard : ResetPolicy::kSoft);
    }
    return Error::kOk;
  }
};

// ---------------------------------------------------------------------------------------------------------
// W4 - JitRuntime: add + run + release (default allocator, and dual mapping + fill + immediate release)
// ---------------------------------------------------------------------------------------------------------
struct W4 : Workload {
  bool dual;
  bool installed = false;
  JitRuntime* rt = nullptr;
  CodeHolder code;
  x86::Assembler a;
  ErrH eh;
  typedef uint32_t (*Fn)(uint32_t, uint32_t);
  static uint32_t helper(uint32_t x, uint32_t y) { return x * 31u + y; }

  explicit W4(bool d) : dual(d) {}
  ~W4() override { delete rt; }

  void make_rt(Rec& R) {
    R.step("JitRuntime", [&]() -> Error {
      JitAllocator::CreateParams p{};
      if (dual) p.options = JitAllocatorOptions::kUseDualMapping | JitAllocatorOptions::kFillUnusedMemory | JitAllocatorOptions::kImmediateRelease;
      return R.call([&]() -> Error {
        if (rt && !rt->allocator().is_initialized()) { delete rt; rt = nullptr; }      // a runtime without allocator: construct again
        if (!rt) rt = new JitRuntime(&p);
        return rt->allocator().is_initialized() ? Error::kOk : Error::kOutOfMemory;
      });
    }, false);
  }
  // assemble a function: f(x, y) = helper(x, y) + bias   (call through an absolute address -> relocation / address table)
  Error assemble(Rec& R, uint32_t bias, size_t pad) {
    Error e;
    if ((e = C(a.sub(x86::rsp, 8))) != Error::kOk) return e;
    if ((e = C(a.call(Imm(uint64_t(uintptr_t(&helper)))))) != Error::kOk) return e;
    if ((e = C(a.add(x86::eax, bias))) != Error::kOk) return e;
    if ((e = C(a.add(x86::rsp, 8))) != Error::kOk) return e;
    if ((e = C(a.ret())) != Error::kOk) return e;
    if (pad) { uint8_t z = 0xCC; if ((e = C(a.embed_data_array(TypeId::kUInt8, &z, 1, pad))) != Error::kOk) return e; }
    return Error::kOk;
  }
  void body(Rec& R) override {
    // allocator statistics: only the number of live allocations is API-level state (blocks kept by a soft reset are a cache)
    installed = false;
    R.digest = [this](Dig& d) { digest_code(d, code, !installed); if (rt) { JitAllocator::Statistics st = rt->allocator().statistics(); d.u64(st.allocation_count()); } };
    R.product = [this](Dig& d) { if (rt) { JitAllocator::Statistics st = rt->allocator().statistics(); d.u64(st.allocation_count()); } };   // + results (R.extra)
    R.eh = &eh;
    R.usable = [this]() { return code.is_initialized() && a.code() == &code; };
    make_rt(R);
    Fn f1 = nullptr, f2 = nullptr, f3 = nullptr;
    S0("init", code.init(rt ? rt->environment() : Environment::host(), rt ? rt->cpu_features() : CpuFeatures{}));
    code.set_error_handler(&eh);
    S0("attach", code.attach(&a));
    // generated code is only executed when every call that produced it reported success
    bool ok1 = R.step("assemble.1", [&]() -> Error { return assemble(R, 5, 0); }) == Error::kOk;
    installed = true;
    ok1 &= SH("add.1", rt->add(&f1, &code)) == Error::kOk;
    R.step("run.1", [&]() -> Error { if (!f1 || !ok1) return Error(0xFFFFu); R.extra = f1(3, 4); return Error::kOk; });
    installed = false;
    bool ok2 = SN("reinit", code.reinit()) == Error::kOk;
    ok2 &= R.step("assemble.2", [&]() -> Error { return assemble(R, 1000, 200000); }) == Error::kOk;         // larger than the first block: a second, bigger block
    installed = true;
    ok2 &= SH("add.2", rt->add(&f2, &code)) == Error::kOk;
    R.step("run.2", [&]() -> Error { if (!f2 || !ok2) return Error(0xFFFFu); R.extra = f2(10, 20); return Error::kOk; });
    R.step("release.1", [&]() -> Error { if (!f1) return Error(0xFFFFu); Error e = rt->release(f1); f1 = nullptr; return e; }, false);
    installed = false;
    bool ok3 = SN("reinit.2", code.reinit()) == Error::kOk;
    ok3 &= R.step("assemble.3", [&]() -> Error { return assemble(R, 77, 300); }) == Error::kOk;
    installed = true;
    ok3 &= SH("add.3", rt->add(&f3, &code)) == Error::kOk;
    R.step("run.3", [&]() -> Error { if (!f3 || !ok3) return Error(0xFFFFu); R.extra = f3(1, 2); return Error::kOk; });
    R.step("run.2b", [&]() -> Error { if (!f2 || !ok2) return Error(0xFFFFu); R.extra = f2(7, 8); return Error::kOk; });
    R.step("release.2", [&]() -> Error { if (!f2) return Error(0xFFFFu); Error e = rt->release(f2); f2 = nullptr; return e; }, false);
    R.step("release.3", [&]() -> Error { if (!f3) return Error(0xFFFFu); Error e = rt->release(f3); f3 = nullptr; return e; }, false);
  }
  Error reset_objects(int mode) override {
    code.reset(mode ? ResetPolicy::kHard : ResetPolicy::kSoft);
    if (rt) {
      // a runtime whose allocator could not even be created is not reusable by design: it is destroyed and re-created
      if (!rt->allocator().is_initialized()) { delete rt; rt = nullptr; }
      else rt->reset(mode ? ResetPolicy::kHard : ResetPolicy::kSoft);
    }
    return Error::kOk;
  }
};

// ---------------------------------------------------------------------------------------------------------
// W5 - containers and constant pool
// ---------------------------------------------------------------------------------------------------------
struct HNode : public ArenaHashNode {
  HNode(uint32_t h, uint32_t key) : ArenaHashNode(h), key(key) {}
  uint32_t key;
};
struct HKey { uint32_t key; uint32_t hash_code() const { return key * 2654435761u; } bool matches(const HNode* n) const { return n->key == key; } };
struct TNode : public ArenaTreeNodeT<TNode> {
  explicit TNode(uint32_t k) : key(k) {}
  uint32_t key;
  bool operator<(const TNode& o) const { return key < o.key; }
  bool operator>(const TNode& o) const { return key > o.key; }
  bool operator<(uint32_t k) const { return key < k; }
  bool operator>(uint32_t k) const { return key > k; }
};

struct W5 : Workload {
  Arena arena{1024};
  ArenaVector<uint32_t> v32;
  ArenaVector<uint64_t> v64;
  ArenaHash<HNode> hash;
  ArenaTree<TNode> tree;
  ArenaBitSet bs, bs2;
  ArenaPool<TNode> npool;
  String str;
  StringTmp<32> stmp;
  ArenaString<16> astr;
  ConstPool pool{arena};
  size_t hcount = 0, tcount = 0;
  struct Added { const uint8_t* data; size_t size; size_t off; };
  std::vector<Added> adds;
  Error pool_add(Rec& R, const char* nm, const uint8_t* data, size_t size) {
    return R.step(nm, [&]() -> Error { size_t off = 0; Error e = C(pool.add(data, size, Out(off))); if (e == Error::kOk) adds.push_back(Added{data, size, off}); return e; });
  }

  void body(Rec& R) override {
    auto containers = [this](Dig& d) {
      d.u64(v32.size()); for (uint32_t x : v32) d.u64(x);
      d.u64(v64.size()); for (uint64_t x : v64) d.u64(x);
      d.u64(hash.size()); d.u64(hcount); d.u64(tcount);
      d.u64(bs.size()); for (size_t i = 0; i < bs.size(); i++) d.u8(bs.bit_at(i));
      d.u64(bs2.size());
      d.bytes(str.data(), str.size()); d.bytes(stmp.data(), stmp.size()); d.bytes(astr.data(), astr.size());
    };
    adds.clear();
    // d: exact layout of the pool;  s: what the pool promises - every constant added successfully is found, aligned,
    // at the offset that was returned (ConstPool tolerates a failed gap record by design: the layout gets less
    // compact, the contents stay right)
    R.digest = [this, containers](Dig& d) { containers(d); d.u64(pool.size()); d.u64(pool.alignment()); for (auto& a : adds) d.u64(a.off); };
    R.semantic = [this, containers](Dig& d) {
      containers(d);
      std::vector<uint8_t> img(pool.size() + 1, 0xCD);
      pool.fill(img.data());
      d.u64(adds.size());
      for (auto& a : adds) d.u8(a.off + a.size <= pool.size() && a.off % a.size == 0 && pool.alignment() >= a.size && memcmp(img.data() + a.off, a.data, a.size) == 0);
    };
    // vectors: growth by append / insert / prepend / reserve / resize / concat
    for (uint32_t i = 0; i < 20; i++) { char nm[32]; snprintf(nm, sizeof nm, "v32.append.%u", i); S(nm, v32.append(arena, i * 3u)); }
    S("v32.reserve_fit", v32.reserve_fit(arena, 100));
    S("v32.insert", v32.insert(arena, 0, 777u));
    S("v32.resize_grow", v32.resize_grow(arena, 150));
    for (uint32_t i = 0; i < 6; i++) { char nm[32]; snprintf(nm, sizeof nm, "v64.prepend.%u", i); S(nm, v64.prepend(arena, uint64_t(i) << 33)); }
    S("v64.reserve_additional", v64.reserve_additional(arena, 40));
    S("v64.concat", v64.concat(arena, v64));
    S("v64.reserve_grow", v64.reserve_grow(arena, 3000));          // beyond the largest reusable slot: dynamic block
    // hash: node objects + bucket growth
    for (uint32_t i = 0; i < 14; i++) {
      char nm[32]; snprintf(nm, sizeof nm, "hash.insert.%u", i);
      R.step(nm, [&]() -> Error {
        Error e = Error::kOk;
        for (uint32_t j = 0; j < 12; j++) {      // 168 nodes: several rehashes
          uint32_t key = i * 12 + j;
          HNode* n = nullptr;
          if (CV(n = arena.new_oneshot<HNode>(HKey{key}.hash_code(), key), n != nullptr) != Error::kOk) { e = Error::kOutOfMemory; continue; }
          hash.insert(arena, n);
        }
        size_t found = 0;
        for (uint32_t k = 0; k < 14 * 12; k++) if (hash.get(HKey{k})) found++;
        hcount = found;
        return e;
      });
    }
    // tree + pool
    for (uint32_t i = 0; i < 6; i++) {
      char nm[32]; snprintf(nm, sizeof nm, "tree.insert.%u", i);
      R.step(nm, [&]() -> Error {
        Error e = Error::kOk;
        for (uint32_t j = 0; j < 8; j++) {
          uint32_t key = (i * 8 + j) * 37u % 101u;
          TNode* n = nullptr;
          if (CV(n = npool.alloc(arena), n != nullptr) != Error::kOk) { e = Error::kOutOfMemory; continue; }
          n = new(Support::PlacementNew{n}) TNode(key);
          if (tree.get(key)) { npool.release(n); continue; }
          tree.insert(n);
        }
        size_t found = 0;
        for (uint32_t k = 0; k < 101; k++) if (tree.get(k)) found++;
        tcount = found;
        return e;
      });
    }
    // bit sets
    S("bs.resize", bs.resize(arena, 70, false));
    S("bs.append", bs.append(arena, true));
    S("bs.resize.2", bs.resize(arena, 700, true));
    S("bs.resize.3", bs.resize(arena, 5000, false));
    S("bs2.copy_from", bs2.copy_from(arena, bs));
    // strings (heap) and arena strings
    S("str.assign", str.assign("hello"));
    S("str.append.40", str.append("0123456789012345678901234567890123456789"));
    S("str.append_format", str.append_format("%s-%d-%s", "abcdefghijklmnopqrstuvwxyz", 12345, "ABCDEFGHIJKLMNOPQRSTUVWXYZ"));
    S("str.pad_end", str.pad_end(400, '.'));
    S("str.append_int", str.append_int(-123456789, 10, 30, StringFormatFlags::kShowSign));
    S("stmp.append", stmp.append("short"));
    S("stmp.append.long", stmp.append_chars('x', 100));
    S("astr.small", astr.set_data(arena, "tiny", 4));
    S("astr.big", astr.set_data(arena, "a string that does not fit the embedded storage", 47));
    // constant pool: sizes 1..64, shared sub-constants, gaps
    static const uint8_t cdata[64] = {1, 2, 3, 4, 5, 6, 7, 8, 9, 10, 11, 12, 13, 14, 15, 16, 17, 18, 19, 20, 21, 22, 23, 24, 25, 26, 27, 28, 29, 30, 31, 32,
                                      33, 34, 35, 36, 37, 38, 39, 40, 41, 42, 43, 44, 45, 46, 47, 48, 49, 50, 51, 52, 53, 54, 55, 56, 57, 58, 59, 60, 61, 62, 63, 64};
    size_t off = 0;
    pool_add(R, "pool.add1", cdata, 1);
    pool_add(R, "pool.add4", cdata + 4, 4);
    pool_add(R, "pool.add2", cdata + 2, 2);
    pool_add(R, "pool.add16", cdata + 16, 16);
    pool_add(R, "pool.add64", cdata, 64);
    pool_add(R, "pool.add8.shared", cdata + 8, 8);
    pool_add(R, "pool.add32", cdata + 32, 32);
    pool_add(R, "pool.add3.invalid", cdata, 3);
    R.step("pool.fill", [&]() -> Error {
      std::vector<uint8_t> img(pool.size() + 8, 0xCD);
      pool.fill(img.data());
      Dig d; d.bytes(img.data(), img.size()); R.extra_d = d.h;
      return Error::kOk;
    });
    // release paths (return memory to the arena's slots), then grow again from the slots
    R.step("release", [&]() -> Error { v32.release(arena); v64.release(arena); bs2.release(arena); return Error::kOk; });
    for (uint32_t i = 0; i < 10; i++) { char nm[32]; snprintf(nm, sizeof nm, "v32.append2.%u", i); S(nm, v32.append(arena, i + 1000u)); }
  }
  Error reset_objects(int mode) override {
    v32.reset(); v64.reset(); hash.reset(); tree.reset(); bs.reset(); bs2.reset(); npool.reset();
    Error e1 = str.reset(); Error e2 = stmp.reset(); stmp._reset_to_temporary();
    astr.reset();
    pool.reset();
    arena.reset(mode ? ResetPolicy::kHard : ResetPolicy::kSoft);
    hcount = tcount = 0; adds.clear();
    return e1 != Error::kOk ? e1 : e2;
  }
};

// ---------------------------------------------------------------------------------------------------------
// W6..W8 - "grow to several blocks -> soft reset / reinit / detach+attach -> oversized request".
// After a soft reset an arena keeps its blocks; a one-shot request bigger than every retained successor block makes
// Arena::_alloc_oneshot release those blocks one by one and then ask malloc for a replacement.  Only a failure of THAT
// malloc (heap class - hook H1 returns before the block walk) exercises the path "blocks released, replacement
// refused": afterwards the arena must still be walkable (next request, reset, destructor - under ASan a dangling
// successor link is a use-after-free / double free).
// W6 drives an Arena directly, W7 the builder arena (oversized embed() after reinit and after detach+attach),
// W8 the compiler's builder and pass arenas (finalize, reinit, a function with an oversized data blob, finalize).
// ---------------------------------------------------------------------------------------------------------
static uint8_t g_big_blob[1u << 20];      // 1 MiB of zeros: bigger than every block the programs below make an arena keep

struct W6 : Workload {
  Arena arena{1024};
  std::vector<std::pair<uint8_t*, size_t>> live;     // blocks handed out since the last reset, filled with a pattern
  uint64_t sum = 0;

  Error take(Rec& R, size_t n, bool reusable) {
    uint8_t* p = nullptr;
    Error e = CV(p = reusable ? arena.alloc_reusable<uint8_t>(n) : arena.alloc_oneshot<uint8_t>(Arena::aligned_size(n)), p != nullptr);
    if (e != Error::kOk) return e;
    memset(p, int(0x40 + live.size() % 64), n);
    live.push_back({p, n});
    return Error::kOk;
  }
  // every block handed out must still hold its pattern (no overlap, no reuse of released memory)
  bool intact() const {
    for (size_t i = 0; i < live.size(); i++) for (size_t j = 0; j < live[i].second; j += 97) if (live[i].first[j] != uint8_t(0x40 + i % 64)) return false;
    return true;
  }
  void body(Rec& R) override {
    live.clear();
    // how many blocks the arena keeps is a cache (a soft reset retains them): only what was handed out is compared
    R.digest = [this](Dig& d) { d.u64(live.size()); d.u8(intact()); };
    for (unsigned round = 0; round < 3; round++) {
      char nm[40];
      // program A: grow to several blocks (1 KiB, 2 KiB, 4 KiB, ... block sizes)
      snprintf(nm, sizeof nm, "grow.%u", round);
      R.step(nm, [&]() -> Error { Error r = Error::kOk; for (unsigned i = 0; i < 40; i++) { Error e = take(R, 200 + 24 * (i % 9), (i % 5) == 0); if (e != Error::kOk) r = e; } return r; });
      snprintf(nm, sizeof nm, "reset.soft.%u", round);
      R.step(nm, [&]() -> Error { live.clear(); arena.reset(ResetPolicy::kSoft); return Error::kOk; });
      // program B: the first request does not fit any retained block
      snprintf(nm, sizeof nm, "oversized.%u", round);
      R.step(nm, [&]() -> Error { return take(R, round == 1 ? 300000 : 70000, false); });
      snprintf(nm, sizeof nm, "after.%u", round);
      R.step(nm, [&]() -> Error { Error r = Error::kOk; for (unsigned i = 0; i < 12; i++) { Error e = take(R, 900 + 100 * i, (i & 1) != 0); if (e != Error::kOk) r = e; } return r; });
      snprintf(nm, sizeof nm, "dynamic.%u", round);
      R.step(nm, [&]() -> Error { return take(R, 5000, true); });       // beyond the largest reusable slot: dynamic block
      if (round == 1) { snprintf(nm, sizeof nm, "reset.soft2.%u", round); R.step(nm, [&]() -> Error { live.clear(); arena.reset(ResetPolicy::kSoft); return Error::kOk; }); }
    }
    R.step("reset.hard", [&]() -> Error { live.clear(); arena.reset(ResetPolicy::kHard); return Error::kOk; });
    R.step("after.hard", [&]() -> Error { return take(R, 3000, false); });
  }
  Error reset_objects(int mode) override { live.clear(); arena.reset(mode ? ResetPolicy::kHard : ResetPolicy::kSoft); return Error::kOk; }
};

struct W7 : Workload {
  CodeHolder code;
  x86::Builder b;
  x86::Assembler a;
  ErrH eh;
  std::vector<uint8_t> image;

  Error program_a(Rec& R) {         // several blocks in the builder arena (64 KiB, 128 KiB, ...) and a few in the holder's
    Error r = Error::kOk, e;
    for (unsigned i = 0; i < 6; i++) {
      if ((e = C(b.embed(g_big_blob, 40000))) != Error::kOk) r = e;
      if ((e = C(b.mov(x86::eax, i))) != Error::kOk) r = e;
    }
    return r;
  }
  void body(Rec& R) override {
    R.digest = [this](Dig& d) { digest_code(d, code); digest_nodes(d, b); };
    R.semantic = [this](Dig& d) { digest_code(d, code); digest_nodes(d, b, false); };
    R.product = [this](Dig& d) { product_code(d, code); };
    R.eh = &eh;
    R.usable = [this]() { return code.is_initialized() && b.code() == &code; };
    S0("init", code.init(Environment(Arch::kX64)));
    code.set_error_handler(&eh);
    S0("attach.builder", code.attach(&b));
    R.step("program_a", [&]() -> Error { return program_a(R); });
    SN("reinit", code.reinit());                                        // builder arena: soft reset, blocks retained
    S("oversized.embed", b.embed(g_big_blob, sizeof g_big_blob));       // first request after the reset: fits no retained block
    S("emit.after", b.mov(x86::ecx, 7));
    R.step("program_a.2", [&]() -> Error { return program_a(R); });
    S0("detach", code.detach(&b));                                      // on_detach: arenas soft reset again
    S0("attach.again", code.attach(&b));
    S("oversized.embed_data_array", b.embed_data_array(TypeId::kUInt64, g_big_blob, 8, 9000));   // 576000 bytes
    Label L;
    R.step("new_label", [&]() -> Error { return CV(L = b.new_label(), L.is_valid()); });
    S("bind", b.bind(L));
    S("emit.ret", b.ret());
    S("attach.assembler", code.attach(&a));
    if (a.code() == &code && b.first_node()) SN("serialize_to", b.serialize_to(&a)); else R.skip("serialize_to");
    SH("flatten", code.flatten());
    if (!code.is_initialized()) R.skip("copy_flattened_data"); else R.step("copy_flattened_data", [&]() -> Error {
      size_t n = code.code_size();
      if (n == SIZE_MAX || n > (1u << 22)) return Error::kTooLarge;
      image.assign(n + 16, 0xCC);
      Error e = code.copy_flattened_data(image.data(), n, CopySectionFlags::kPadSectionBuffer);
      Dig d; d.bytes(image.data(), image.size()); R.extra = d.h;
      return e;
    });
  }
  Error reset_objects(int mode) override { code.reset(mode ? ResetPolicy::kHard : ResetPolicy::kSoft); return Error::kOk; }
};

struct W8 : Workload {
  CodeHolder code;
  x86::Compiler cc;
  ErrH eh;
  JitRuntime* rt = nullptr;
  bool finalized = false, installed = false;
  typedef uint32_t (*F)(uint32_t);
  ~W8() override { delete rt; }

  // f(x) = x * 3 + sum of 24 registers initialised with constants (spills), followed by a data blob of `blob` bytes
  Error function(Rec& R, FuncNode*& fn, size_t blob, bool blob_first) {
    Error e;
    if (blob_first && blob) { if ((e = C(cc.embed(g_big_blob, blob))) != Error::kOk) return e; }
    if ((e = CV(fn = cc.add_func(FuncSignature::build<uint32_t, uint32_t>()), fn != nullptr)) != Error::kOk) return e;
    x86::Gp x, v[25];
    if ((e = CV(x = cc.new_gp32("x"), x.is_valid())) != Error::kOk) return e;
    fn->set_arg(0, x);
    for (unsigned i = 1; i <= 24; i++) {
      if ((e = CV(v[i] = cc.new_gp32("v%u", i), v[i].is_valid())) != Error::kOk) return e;
      if ((e = C(cc.mov(v[i], i * 1000u + 7u))) != Error::kOk) return e;
    }
    if ((e = C(cc.imul(x, x, 3))) != Error::kOk) return e;
    for (unsigned i = 1; i <= 24; i++) if ((e = C(cc.add(x, v[i]))) != Error::kOk) return e;
    if ((e = C(cc.ret(x))) != Error::kOk) return e;
    if ((e = C(cc.end_func())) != Error::kOk) return e;
    if (!blob_first && blob) { if ((e = C(cc.embed(g_big_blob, blob))) != Error::kOk) return e; }
    return Error::kOk;
  }
  void install_and_run(Rec& R, FuncNode* fn, const char* tag) {
    char nm[40];
    uint8_t* base = nullptr;
    snprintf(nm, sizeof nm, "add.%s", tag);
    bool runnable = R.all_ok && fn && code.is_initialized();
    if (runnable) R.step(nm, [&]() -> Error { installed = true; return C(rt->add(&base, &code)); }); else R.skip(nm);
    snprintf(nm, sizeof nm, "run.%s", tag);
    if (runnable && R.all_ok && base && code.is_label_bound(fn->label())) {
      uint64_t off = code.label_offset(fn->label());
      R.step(nm, [&]() -> Error { Dig d; d.u64(reinterpret_cast<F>(base + off)(5)); d.u64(reinterpret_cast<F>(base + off)(0x7FFFFFFFu)); R.extra = d.h; return Error::kOk; });
    } else R.skip(nm);
    snprintf(nm, sizeof nm, "release.%s", tag);
    if (base) S0(nm, rt->release(base)); else R.skip(nm);
  }
  void body(Rec& R) override {
    finalized = installed = false;
    R.digest = [this](Dig& d) { digest_code(d, code, !installed); digest_nodes(d, cc); d.u64(cc.virt_regs().size()); };
    R.semantic = [this](Dig& d) { if (!finalized) { d.u64(code.label_count()); digest_nodes(d, cc, false); d.u64(cc.virt_regs().size()); } };
    R.product = [](Dig&) {};
    R.eh = &eh;
    R.usable = [this]() { return code.is_initialized() && cc.code() == &code; };
    R.step("JitRuntime", [&]() -> Error {
      return R.call([&]() -> Error {
        if (rt && !rt->allocator().is_initialized()) { delete rt; rt = nullptr; }
        if (!rt) rt = new JitRuntime();
        return rt->allocator().is_initialized() ? Error::kOk : Error::kOutOfMemory;
      });
    }, false);
    S0("init", code.init(rt->environment(), rt->cpu_features()));
    code.set_error_handler(&eh);
    S0("attach", code.attach(&cc));
    // program A: two functions and ~200 KiB of data nodes: several blocks in the builder arena, the pass arena grows in finalize
    FuncNode* f1 = nullptr; FuncNode* f2 = nullptr; FuncNode* f3 = nullptr;
    R.step("function.1", [&]() -> Error { return function(R, f1, 50000, false); });
    R.step("function.2", [&]() -> Error { FuncNode* t = nullptr; Error e = function(R, t, 50000, false); if (e != Error::kOk) return e; return C(cc.embed(g_big_blob, 60000)); });
    R.step("finalize.1", [&]() -> Error { finalized = true; return cc.finalize(); });
    install_and_run(R, f1, "1");
    finalized = installed = false;
    SN("reinit", code.reinit());                                        // compiler: builder + pass arenas soft reset
    // program B: the first request is a data node that fits no retained block
    R.step("function.3", [&]() -> Error { return function(R, f2, sizeof g_big_blob, true); });
    R.step("finalize.2", [&]() -> Error { finalized = true; return cc.finalize(); });
    install_and_run(R, f2, "2");
    finalized = installed = false;
    SN("reinit.2", code.reinit());
    R.step("function.4", [&]() -> Error { return function(R, f3, 0, false); });
    S("oversized.embed_data_array", cc.embed_data_array(TypeId::kUInt32, g_big_blob, 16, 12000));    // 768000 bytes
    R.step("finalize.3", [&]() -> Error { finalized = true; return cc.finalize(); });
    install_and_run(R, f3, "3");
  }
  Error reset_objects(int mode) override {
    code.reset(mode ? ResetPolicy::kHard : ResetPolicy::kSoft);
    if (rt) {
      if (!rt->allocator().is_initialized()) { delete rt; rt = nullptr; }
      else rt->reset(mode ? ResetPolicy::kHard : ResetPolicy::kSoft);
    }
    return Error::kOk;
  }
};

// =========================================================================================================
// Jobs, runner, supervisor
// =========================================================================================================
static const char* kWorkloads[] = {"W1x64", "W1a64", "W2", "W3", "W4", "W4dual", "W5", "W6", "W7", "W8"};
static Workload* make_workload(const std::string& n) {
  if (n == "W1x64") return new W1(Arch::kX64);
  if (n.compare(0, 6, "W1x64p") == 0) return new W1(Arch::kX64, atoi(n.c_str() + 6));
  if (n == "W1a64") return new W1(Arch::kAArch64);
  if (n == "W2") return new W2();
  if (n == "W3") return new W3();
  if (n == "W4") return new W4(false);
  if (n == "W4dual") return new W4(true);
  if (n == "W5") return new W5();
  if (n == "W6") return new W6();
  if (n == "W7") return new W7();
  if (n == "W8") return new W8();
  fprintf(stderr, "unknown workload %s\n", n.c_str()); exit(3);
}

// mode: reset policy used before the retry (-1: by job parity); inplace: continuation mode "retry in place"
struct Job { int cls; std::vector<uint32_t> ks; int mode = -1; bool inplace = false; };

static void leak_event(FILE* out) {
  vj::W w;
  w.beginObj().kv("e", "Leak").kv("heap", (long long)g_heap.live).kv("vm", (long long)g_maps.live).kv("fd", (long long)g_fds.live);
  if (g_heap.live) { w.key("sizes").beginArr(); size_t n = 0; for (auto& e : g_heap.t) if (e.p > 1 && n++ < 8) w.val((long long)e.n); w.endArr(); }
  if (g_maps.live) { w.key("maps").beginArr(); size_t n = 0; for (auto& e : g_maps.t) if (e.p > 1 && n++ < 8) w.val((long long)e.n); w.endArr(); }
  w.endObj().emit(out);
}

// one clean execution; returns the request counts
static void run_clean(const std::string& wl, FILE* out, int jobno, uint64_t counts[4]) {
  if (out) { vj::W w; w.beginObj().kv("e", "Reset").kv("w", wl).kv("cls", "none").key("k").beginArr().endArr().kv("job", jobno).endObj().emit(out); fflush(out); }
  g_heap.clear(); g_maps.clear(); g_fds.clear();
  E.cls = C_NONE; E.hits = 0; memset(E.cnt, 0, sizeof E.cnt);
  E.track = true;
  {
    Workload* W = make_workload(wl);
    Rec R; R.out = out; R.ph = 'C';
    E.armed = true;
    W->body(R);
    E.armed = false;
    if (out) { vj::W w; w.beginObj().kv("e", "Destroy").endObj().emit(out); }
    delete W;
  }
  E.track = false;
  for (int i = 0; i < 4; i++) counts[i] = E.cnt[i];
  if (out) { leak_event(out); fflush(out); }
}

static void run_job(const std::string& wl, FILE* out, int jobno, const Job& job) {
  {
    vj::W w; w.beginObj().kv("e", "Reset").kv("w", wl).kv("cls", cls_name(job.cls)).key("k").beginArr();
    for (uint32_t k : job.ks) w.val((long long)k);
    w.endArr().kv("job", jobno).kv("cont", job.inplace ? "inplace" : "restart").endObj().emit(out); fflush(out);
  }
  g_heap.clear(); g_maps.clear(); g_fds.clear();
  E.plan_clear();
  for (uint32_t k : job.ks) E.plan_set(k);
  E.cls = job.cls; E.hits = 0; memset(E.cnt, 0, sizeof E.cnt);
  E.track = true;
  {
    Workload* W = make_workload(wl);
    Rec R; R.out = out; R.ph = 'F'; R.inplace = job.inplace;
    E.armed = true;
    W->body(R);
    E.armed = false;
    fflush(out);
    int mode = job.mode >= 0 ? job.mode : (jobno & 1);
    Error e = W->reset_objects(mode);
    { vj::W w; w.beginObj().kv("e", "ResetObjects").kv("r", err_name(e)).kv("mode", mode ? "hard" : "soft").kv("hits", (long long)E.hits).endObj().emit(out); }
    R.ph = 'R'; R.idx = 0; R.all_ok = true;
    W->body(R);
    { vj::W w; w.beginObj().kv("e", "Destroy").endObj().emit(out); }
    fflush(out);
    delete W;
  }
  E.track = false;
  leak_event(out);
  fflush(out);
}

static std::vector<Job> make_jobs(const uint64_t counts[4], bool thorough, unsigned masks, uint64_t seed) {
  std::vector<Job> jobs;
  for (int cls = C_ARENA; cls <= C_VM; cls++) {
    uint64_t n = std::min<uint64_t>(counts[cls], kPlanBits - 1);
    if (thorough) { for (uint64_t k = 1; k <= n; k++) { jobs.push_back(Job{cls, {uint32_t(k)}, 0}); jobs.push_back(Job{cls, {uint32_t(k)}, 1}); } }   // soft and hard reset
    else {
      uint64_t dense = std::min<uint64_t>(n, 400);
      for (uint64_t k = 1; k <= dense; k++) jobs.push_back(Job{cls, {uint32_t(k)}});
      if (n > dense) {
        uint64_t extra = 160, stride = std::max<uint64_t>(1, (n - dense + extra - 1) / extra);
        // a stride that is odd relative to typical per-instruction request patterns
        if (stride % 2 == 0) stride++;
        for (uint64_t k = dense + 1 + (seed % stride); k <= n; k += stride) jobs.push_back(Job{cls, {uint32_t(k)}});
        jobs.push_back(Job{cls, {uint32_t(n)}});
      }
    }
  }
  // every position again with the continuation "retry in place" (one reset policy per position)
  { size_t n0 = jobs.size(); for (size_t i = 0; i < n0; i++) { if (jobs[i].mode == 1) continue; Job j = jobs[i]; j.inplace = true; j.mode = -1; jobs.push_back(j); } }
  // random multi-failure patterns: 2..5 positions of one class, or every request from some point on
  vj::Rng r(seed * 7919 + 13);
  for (unsigned m = 0; m < masks; m++) {
    int cls = C_ARENA + int(r.below(3));
    if (!counts[cls]) cls = C_ARENA;
    uint64_t n = std::min<uint64_t>(counts[cls], kPlanBits - 1);
    if (!n) continue;
    Job j; j.cls = cls; j.inplace = (m & 1) != 0;
    unsigned kind = unsigned(r.below(4));
    if (kind == 0) { uint64_t from = 1 + r.below(n); for (uint64_t k = from; k <= std::min<uint64_t>(n + 64, from + 4000); k++) j.ks.push_back(uint32_t(k)); }   // memory stays exhausted
    else { unsigned cnt = 2 + unsigned(r.below(4)); for (unsigned i = 0; i < cnt; i++) j.ks.push_back(uint32_t(1 + r.below(n))); std::sort(j.ks.begin(), j.ks.end()); j.ks.erase(std::unique(j.ks.begin(), j.ks.end()), j.ks.end()); }
    jobs.push_back(j);
  }
  return jobs;
}


static int worker(const std::string& wl, const char* trace, bool thorough, unsigned nshard, unsigned shard, unsigned masks, long start, Shared* sh,
                  const Job* single) {
  FILE* out = fopen(trace, "a");
  if (!out) return 3;
  vj::install_abort_handlers(out);
  if (!hook_present()) { fprintf(stderr, "faults: hook H1 (asmjit_verif_arena_fail) is not present in this asmjit tree\n"); return 4; }
  asmjit_verif_arena_fail = arena_pred;
  g_sh = sh;
  uint64_t counts[4];
  run_clean(wl, nullptr, -1, counts);            // warm-up: one-time initialisations (CpuInfo, VirtMem info, ...) happen here
  sh->cur = -1;
  run_clean(wl, start == 0 ? out : nullptr, 0, counts);
  std::vector<Job> jobs;
  if (single) jobs.push_back(*single);
  else jobs = make_jobs(counts, thorough, masks, vj::env_seed());
  if (start == 0) {
    vj::W w; w.beginObj().kv("e", "Info").kv("w", wl).kv("arena", (long long)counts[C_ARENA]).kv("heap", (long long)counts[C_HEAP]).kv("vm", (long long)counts[C_VM]).kv("jobs", (long long)jobs.size()).endObj();
    FILE* info = fopen((std::string(trace) + ".info").c_str(), "w");
    if (info) { w.emit(info); fclose(info); }
  }
  for (long j = 0; j < long(jobs.size()); j++) {
    if (unsigned(j) % nshard != shard) continue;
    if (j + 1 <= start) continue;
    sh->cur = j + 1; sh->inj = 0;
    alarm(60);
    run_job(wl, out, int(j + 1), jobs[size_t(j)]);
    alarm(0);
  }
  sh->done = 1;
  fclose(out);
  return 0;
}

static int supervise(const std::string& wl, const char* trace, bool thorough, unsigned nshard, unsigned shard, unsigned masks, const Job* single) {
  { FILE* f = fopen(trace, "w"); if (!f) { fprintf(stderr, "cannot write %s\n", trace); return 3; } fclose(f); }
  Shared* sh = static_cast<Shared*>(__real_mmap(nullptr, 4096, PROT_READ | PROT_WRITE, MAP_SHARED | MAP_ANONYMOUS, -1, 0));
  sh->cur = -1; sh->done = 0;
  std::string errp = std::string(trace) + ".stderr";
  { FILE* f = fopen(errp.c_str(), "w"); if (f) fclose(f); }
  long start = 0;
  int crashes = 0;
  for (;;) {
    fflush(nullptr);
    pid_t pid = fork();
    if (pid < 0) { perror("fork"); return 3; }
    if (pid == 0) {
      int fd = open(errp.c_str(), O_WRONLY | O_APPEND | O_CREAT, 0644);
      if (fd >= 0) { dup2(fd, 2); __real_close(fd); }
      fprintf(stderr, "=== worker start=%ld\n", start);
      int rc = worker(wl, trace, thorough, nshard, shard, masks, start, sh, single);
      fflush(nullptr);
      _exit(rc);
    }
    int st = 0;
    waitpid(pid, &st, 0);
    if (WIFEXITED(st) && WEXITSTATUS(st) == 0 && sh->done) break;
    if (WIFEXITED(st) && (WEXITSTATUS(st) == 4 || WEXITSTATUS(st) == 3)) return WEXITSTATUS(st);     // hook missing / usage: not a statement about the code
    // the worker died: attribute the death to the job in progress
    long cur = sh->cur;
    FILE* f = fopen(trace, "a");
    vj::W w;
    w.beginObj().kv("e", "ABORT").kv("job", cur).kv("inj", sh->inj).kv("phys", sh->phys != 0).kv("site", sh->site).kv("size", sh->size);
    if (WIFSIGNALED(st)) w.kv("sig", WTERMSIG(st)).kv("why", WTERMSIG(st) == SIGALRM ? "hang (alarm)" : "killed by signal");
    else w.kv("rc", WEXITSTATUS(st)).kv("why", "worker exited (sanitizer report / abort)");
    w.endObj();
    fputc('\n', f);           // a partially written line of the dead worker must not swallow the ABORT line
    w.emit(f); fclose(f);
    { FILE* e = fopen(errp.c_str(), "a"); if (e) { fprintf(e, "=== worker died during job %ld\n", cur); fclose(e); } }
    crashes++;
    if (cur < 0 || crashes > 400) { fprintf(stderr, "faults: the clean run itself died or too many crashes (%d)\n", crashes); break; }
    start = cur;              // resume after the job that died
  }
  FILE* f = fopen(trace, "a");
  { vj::W w; w.beginObj().kv("e", "End").kv("crashes", crashes).endObj().emit(f); }
  fclose(f);
  return 0;
}

int main(int argc, char** argv) {
  g_verbose = g_verbose_early = getenv("FAULTS_VERBOSE") != nullptr;
  if (argc >= 2 && std::string(argv[1]) == "list") { for (auto w : kWorkloads) puts(w); return 0; }
  if (argc >= 2 && std::string(argv[1]) == "hook") { puts(hook_present() ? "H1 present" : "H1 missing"); return hook_present() ? 0 : 4; }
  if (argc >= 7 && std::string(argv[1]) == "run") {
    unsigned masks = argc >= 8 ? unsigned(atoi(argv[7])) : 0;
    return supervise(argv[3], argv[2], std::string(argv[4]) == "thorough", unsigned(atoi(argv[5])), unsigned(atoi(argv[6])), masks, nullptr);
  }
  if (argc >= 6 && std::string(argv[1]) == "one") {
    Job j; std::string c = argv[4];
    j.cls = c == "arena" ? C_ARENA : c == "heap" ? C_HEAP : C_VM;
    char* p = argv[5];
    while (*p) { j.ks.push_back(uint32_t(strtoul(p, &p, 10))); if (*p == ',') p++; }
    j.inplace = argc >= 7 && std::string(argv[6]) == "inplace";
    return supervise(argv[3], argv[2], false, 1, 0, 0, &j);
  }
  fprintf(stderr, "usage: faults list | run <trace> <workload> <quick|thorough> <nshard> <shard> [masks] | one <trace> <workload> <cls> <k,..> [inplace]\n");
  return 3;
}
