// C03 / C04 harness: label references and relocation on real assemblers (x86-32, x86-64, AArch64).
//   coderef random <trace> <programs> <max-actions>        seeded by VERIF_SEED
// Every emitter / holder call is one event; at the end the raw bytes of every reference site are dumped from the
// section buffers (after flatten, cross-section resolution and relocate_to_base).  The harness decodes nothing:
// CodeRef.tla reads the fields.  Wide values are [hi, lo] with value = hi * 2^20 + lo.
#include <asmjit/core.h>
#include <asmjit/x86.h>
#include <asmjit/a64.h>
#include "vjson.h"

using namespace asmjit;

static std::string err_name(Error e) {
  if (e == Error::kOk) return "Ok";
  return DebugUtils::error_as_string(e);
}

static void wide(vj::W& w, const char* k, uint64_t v) {
  w.key(k).beginArr().val((long long)(v >> 20)).val((long long)(v & 0xFFFFF)).endArr();
}

struct RefRec { uint32_t sec; size_t at; size_t len; };

struct Prog {
  FILE* out;
  vj::Rng& r;
  Arch arch;
  CodeHolder code;
  x86::Assembler xa;
  a64::Assembler aa;
  BaseAssembler* as = nullptr;
  std::vector<Label> labels;
  std::vector<Section*> secs;
  std::vector<RefRec> refs;
  vj::W w;
  bool is_x86;
  uint64_t init_base;

  Prog(FILE* f, vj::Rng& rng, Arch a, uint64_t base_at_init) : out(f), r(rng), arch(a), init_base(base_at_init) {
    is_x86 = (a == Arch::kX86 || a == Arch::kX64);
    if (base_at_init != Globals::kNoBaseAddress) code.init(Environment(a), base_at_init); else code.init(Environment(a));
    if (is_x86) { code.attach(&xa); as = &xa; } else { code.attach(&aa); as = &aa; }
    secs.push_back(code.text_section());
    w.beginObj().kv("e", "Reset").kv("arch", a == Arch::kX86 ? "x86" : a == Arch::kX64 ? "x64" : "a64");
    wide(w, "base", base_at_init == Globals::kNoBaseAddress ? 0 : base_at_init);
    w.kv("basekn", base_at_init != Globals::kNoBaseAddress);
    w.endObj().emit(out);
  }

  size_t known_sections = 1;
  // sections the holder created implicitly (.addrtab) are announced as soon as they exist, ids stay dense
  void sync_sections() {
    while (known_sections < code.section_count()) {
      Section* s = code.section_by_id(uint32_t(known_sections));
      w.beginObj().kv("e", "Section").kv("s", (long long)known_sections + 1).kv("align", s->alignment()).kv("implicit", true).endObj().emit(out);
      known_sections++;
    }
  }
  uint32_t cur_sec() { return as->current_section()->section_id(); }
  size_t cur_off() { return as->offset(); }
  long long unres() { return (long long)code.unresolved_fixup_count(); }

  void new_label() {
    Label L = as->new_label();
    labels.push_back(L);
    w.beginObj().kv("e", "Label").kv("l", (long long)labels.size()).kv("valid", L.is_valid()).kv("unres", unres()).endObj().emit(out);
  }

  void new_section(uint32_t align, int32_t order = 0) {
    Section* s = nullptr;
    char name[32]; snprintf(name, sizeof name, ".s%zu", secs.size());
    Error e = code.new_section(Out(s), name, SIZE_MAX, SectionFlags::kNone, align, order);
    if (e != Error::kOk) return;
    secs.push_back(s);
    sync_sections();
  }

  void switch_to(size_t idx) {
    Error e = as->section(secs[idx]);
    w.beginObj().kv("e", "Switch").kv("s", (long long)secs[idx]->section_id() + 1).kv("r", err_name(e)).endObj().emit(out);
  }

  void data(size_t n) {
    uint32_t sec = cur_sec(); size_t at = cur_off();
    std::vector<uint8_t> buf(n, 0x90);
    Error e = as->embed(buf.data(), n);
    w.beginObj().kv("e", "Data").kv("n", n).kv("sec", sec + 1).kv("at", at).kv("len", cur_off() - at).kv("r", err_name(e)).kv("unres", unres()).endObj().emit(out);
  }

  void align(uint32_t al) {
    uint32_t sec = cur_sec(); size_t at = cur_off();
    Error e = as->align(r.chance(1, 2) ? AlignMode::kCode : AlignMode::kZero, al);
    w.beginObj().kv("e", "Align").kv("al", al).kv("sec", sec + 1).kv("at", at).kv("len", cur_off() - at).kv("r", err_name(e)).endObj().emit(out);
  }

  void bind(size_t l) {
    uint32_t sec = cur_sec(); size_t at = cur_off();
    Error e = as->bind(labels[l]);
    w.beginObj().kv("e", "Bind").kv("l", (long long)l + 1).kv("sec", sec + 1).kv("off", at).kv("r", err_name(e)).kv("unres", unres()).endObj().emit(out);
  }

  // one reference; kind selects the instruction
  void ref(const std::string& kind, size_t l, int32_t addend, unsigned variant) {
    uint32_t sec = cur_sec(); size_t at = cur_off();
    Error e = Error::kOk;
    unsigned immsz = 0;
    Label L = labels[l];
    std::string k = kind;
    if (is_x86) {
      if (kind == "jmp") { if (variant == 1) xa.short_(); else if (variant == 2) xa.long_(); e = xa.jmp(L); }
      else if (kind == "jcc") {
        if (variant == 1) xa.short_(); else if (variant == 2) xa.long_();
        switch (at % 4) { case 0: e = xa.jz(L); break; case 1: e = xa.jnz(L); break; case 2: e = xa.jl(L); break; default: e = xa.ja(L); }
      }
      else if (kind == "call") e = xa.call(L);
      else if (kind == "jecxz") e = xa.jecxz(x86::ecx, L);
      else if (kind == "loop") e = (variant & 1) ? xa.loope(L) : xa.loop(L);
      else if (kind == "riprel" || kind == "abs32") {
        x86::Mem m = x86::ptr(L, addend);
        switch (variant % 5) {
          case 0: e = xa.lea(arch == Arch::kX64 ? x86::rax : x86::eax, m); break;
          case 1: e = xa.mov(x86::ecx, m); break;
          case 2: m.set_size(4); e = xa.mov(m, 0x11223344); immsz = 4; break;
          case 3: m.set_size(1); e = xa.add(m, 7); immsz = 1; break;
          default: m.set_size(2); e = xa.mov(m, 0x1234); immsz = 2; break;
        }
      }
    } else {
      if (kind == "b26") e = (variant & 1) ? aa.bl(L) : aa.b(L);
      else if (kind == "b19") {
        switch (variant % 3) { case 0: e = aa.b_eq(L); break; case 1: e = aa.cbz(a64::x3, L); break; default: e = aa.ldr(a64::x5, a64::ptr(L, addend)); break; }
        if (variant % 3 != 2) addend = 0;
      }
      else if (kind == "b14") e = (variant & 1) ? aa.tbnz(a64::x7, 33, L) : aa.tbz(a64::w7, 3, L);
      else if (kind == "adr") e = aa.adr(a64::x9, L);
      else if (kind == "adrp") e = aa.adrp(a64::x10, L);
    }
    if (kind != "riprel" && kind != "abs32" && !(kind == "b19" && variant % 3 == 2)) addend = 0;
    size_t len = cur_off() - at;
    w.beginObj().kv("e", "Ref").kv("kind", k).kv("l", (long long)l + 1).kv("addend", (long long)addend).kv("sec", sec + 1).kv("at", at)
      .kv("len", len).kv("immsz", immsz).kv("r", err_name(e)).kv("unres", unres());
    if (e == Error::kOk) { refs.push_back(RefRec{sec, at, len}); w.kv("i", (long long)refs.size()); }
    w.endObj().emit(out);
  }

  // references to absolute targets (C04): jmp/call imm, [abs] memory operands, a64 b/bl imm
  void absref(const std::string& kind, uint64_t target, unsigned variant) {
    uint32_t sec = cur_sec(); size_t at = cur_off();
    Error e = Error::kOk;
    unsigned form = 0;
    if (is_x86) {
      if (kind == "absjmp") e = (variant & 1) ? xa.call(Imm(target)) : xa.jmp(Imm(target));
      else if (kind == "absjcc") e = (variant & 1) ? xa.jz(Imm(target)) : xa.jb(Imm(target));     // 74/72 cb or 0F 84/82 cd
      else if (kind == "absmem") {
        x86::Mem m = x86::ptr(target);
        if (variant % 3 == 1) m.set_addr_abs(); else if (variant % 3 == 2) m.set_addr_rel();
        form = (variant / 3) % 3;      // 0: mov ecx,[m]   1: mov dword [m], imm32   2: add byte [m], imm8
        if (form == 0) e = xa.mov(x86::ecx, m);
        else if (form == 1) { m.set_size(4); e = xa.mov(m, 0x55667788); }
        else { m.set_size(1); e = xa.add(m, 9); }
      }
    } else {
      if (kind == "absjmp") e = (variant & 1) ? aa.bl(Imm(target)) : aa.b(Imm(target));
      else if (kind == "absadr") e = aa.adr(a64::x10, Imm(target));
      else if (kind == "absadrp") e = aa.adrp(a64::x10, Imm(target));
    }
    size_t len = cur_off() - at;
    w.beginObj().kv("e", "AbsRef").kv("kind", kind).kv("sec", sec + 1).kv("at", at).kv("len", len).kv("variant", variant).kv("form", form).kv("r", err_name(e)).kv("unres", unres()).kv("bk", code.has_base_address());
    wide(w, "target", target);
    if (e == Error::kOk) { refs.push_back(RefRec{sec, at, len}); w.kv("i", (long long)refs.size()); }
    w.endObj().emit(out);
    sync_sections();
  }

  void embed_label(size_t l, size_t size) {
    uint32_t sec = cur_sec(); size_t at = cur_off();
    Error e = as->embed_label(labels[l], size);
    size_t len = cur_off() - at;
    w.beginObj().kv("e", "Ref").kv("kind", "embedlabel").kv("l", (long long)l + 1).kv("addend", 0).kv("sec", sec + 1).kv("at", at)
      .kv("len", len).kv("immsz", 0).kv("size", size).kv("r", err_name(e)).kv("unres", unres());
    if (e == Error::kOk) { refs.push_back(RefRec{sec, at, len}); w.kv("i", (long long)refs.size()); }
    w.endObj().emit(out);
  }

  void embed_delta(size_t l, size_t b, size_t size) {
    uint32_t sec = cur_sec(); size_t at = cur_off();
    Error e = as->embed_label_delta(labels[l], labels[b], size);
    size_t len = cur_off() - at;
    w.beginObj().kv("e", "Ref").kv("kind", "embeddelta").kv("l", (long long)l + 1).kv("b", (long long)b + 1).kv("addend", 0).kv("sec", sec + 1).kv("at", at)
      .kv("len", len).kv("immsz", 0).kv("size", size).kv("r", err_name(e)).kv("unres", unres());
    if (e == Error::kOk) { refs.push_back(RefRec{sec, at, len}); w.kv("i", (long long)refs.size()); }
    w.endObj().emit(out);
  }

  void finish(uint64_t reloc_base, const std::vector<uint64_t>& vsizes, bool install = false) {
    // virtual sizes are applied right before flattening: they only space the sections apart
    for (size_t i = 0; i < secs.size(); i++) if (i < vsizes.size() && vsizes[i]) secs[i]->set_virtual_size(vsizes[i]);
    // codeholder.h: flatten() "should never be called more than once" - JitRuntime::add flattens, resolves, relocates and copies
    // itself, so in install mode the harness must not flatten first; the events below then describe the state after _add.
    // two runtimes: the default single RWX mapping and a dual mapping (rx != rw: the code must be relocated for the
    // address it runs at, i.e. the rx view)
    static JitRuntime rt_single;
    static JitAllocator::CreateParams dual_params = [] { JitAllocator::CreateParams p; p.options = JitAllocatorOptions::kUseDualMapping; return p; }();
    static JitRuntime rt_dual(&dual_params);
    static unsigned install_count = 0;
    JitRuntime& rt = (install && (install_count++ & 1)) ? rt_dual : rt_single;
    void* fn = nullptr;
    Error add_err = Error::kOk;
    Error e = Error::kOk;
    if (install) add_err = rt._add(&fn, &code);
    else e = code.flatten();
    w.beginObj().kv("e", "Flatten").kv("r", err_name(e));
    w.key("offs").beginArr();
    for (Section* s : code.sections()) { w.beginArr().val((long long)(s->offset() >> 20)).val((long long)(s->offset() & 0xFFFFF)).endArr(); }
    w.endArr().endObj().emit(out);
    if (!install) e = code.resolve_cross_section_fixups();
    w.beginObj().kv("e", "Resolve").kv("r", err_name(e)).kv("unres", unres()).endObj().emit(out);
    bool installed = false, inst_equal = true;
    if (install) {
      // JitRuntime::add does flatten + resolve + relocate + copy itself; the base is whatever the allocator returns
      e = add_err;
      reloc_base = uint64_t(uintptr_t(fn));
      if (e == Error::kOk) {
        installed = true;
        for (Section* s : code.sections()) {
          if (s->buffer_size() && memcmp(static_cast<uint8_t*>(fn) + s->offset(), s->data(), s->buffer_size()) != 0) inst_equal = false;
        }
      }
      w.beginObj().kv("e", "Reflatten");
      w.key("offs").beginArr();
      for (Section* s : code.sections()) { w.beginArr().val((long long)(s->offset() >> 20)).val((long long)(s->offset() & 0xFFFFF)).endArr(); }
      w.endArr().kv("unres", unres()).endObj().emit(out);
    } else {
      e = code.relocate_to_base(reloc_base);
    }
    w.beginObj().kv("e", "Relocate").kv("r", err_name(e)).kv("install", install).kv("equal", inst_equal); wide(w, "base", reloc_base); w.endObj().emit(out);
    {
      // address table (if any): where it is and which bytes of it are part of the image
      Section* at = code.address_table_section();
      w.beginObj().kv("e", "AddrTab").kv("present", at != nullptr);
      if (at) {
        wide(w, "off", at->offset());
        w.kv("last", code.sections_by_order().last() == at);
        w.bytes("bytes", at->data(), at->buffer_size());
      } else { wide(w, "off", 0); w.kv("last", false); w.bytes("bytes", nullptr, 0); }
      w.endObj().emit(out);
    }
    for (size_t i = 0; i < refs.size(); i++) {
      Section* s = code.section_by_id(refs[i].sec);
      w.beginObj().kv("e", "Site").kv("i", (long long)i + 1);
      if (refs[i].at + refs[i].len <= s->buffer_size()) w.bytes("bytes", s->data() + refs[i].at, refs[i].len);
      else w.bytes("bytes", nullptr, 0);
      w.endObj().emit(out);
    }
    w.beginObj().kv("e", "End").kv("unres", unres()).endObj().emit(out);
  }
};

struct KindInfo { const char* name; long long limit; unsigned nvariants; };   // |distance| limit in bytes (0 = none)
static const KindInfo x64_kinds[] = {{"jmp", 128, 3}, {"jcc", 128, 3}, {"call", 0, 1}, {"jecxz", 128, 1}, {"loop", 128, 2}, {"riprel", 0, 5}};
static const KindInfo x86_kinds[] = {{"jmp", 128, 3}, {"jcc", 128, 3}, {"call", 0, 1}, {"jecxz", 128, 1}, {"loop", 128, 2}, {"abs32", 0, 5}};
static const KindInfo a64_kinds[] = {{"b26", 1 << 27, 2}, {"b19", 1 << 20, 3}, {"b14", 1 << 15, 2}, {"adr", 1 << 20, 1}, {"adrp", 0, 1}};

static bool g_c04 = false;     // C04 emphasis: absolute references in every program, more installs
static void run_program(FILE* out, vj::Rng& r, unsigned idx, unsigned max_actions) {
  Arch arch = (idx % 3 == 0) ? Arch::kX64 : (idx % 3 == 1) ? Arch::kAArch64 : Arch::kX86;
  // C04 axes: base known at init vs assigned at relocation; low / high / straddling bases
  static const uint64_t bases64[] = {0x1000, 0x7FFFF000ull, 0x80000000ull, 0xFFFFF000ull, 0x100001000ull, 0x7FFFFFFFF000ull, 0x400000000000ull, 0x10000};
  static const uint64_t bases32[] = {0x1000, 0x10000, 0x7FFF0000u, 0x80000000u, 0x400000};
  uint64_t base = (arch == Arch::kX86) ? bases32[r.below(5)] : bases64[r.below(8)];
  bool known = r.chance(1, 3);
  Prog p(out, r, arch, known ? base : Globals::kNoBaseAddress);
  const KindInfo* kinds = arch == Arch::kX64 ? x64_kinds : arch == Arch::kX86 ? x86_kinds : a64_kinds;
  unsigned nk = arch == Arch::kAArch64 ? 5 : 6;
  std::vector<uint64_t> vsizes(8, 0);
  unsigned mode = (unsigned)r.below(10);
  unsigned n = 4 + (unsigned)r.below(max_actions);
  bool abs_ok = g_c04 || r.chance(1, 2);
  if (g_c04 && mode < 4) mode = 4 + mode;
  bool install = (arch == Arch::kX64) && !known && mode >= 4 && r.chance(1, g_c04 ? 2 : 4);
  if (install) abs_ok = r.chance(1, 2);

  if (mode < 4) {
    // ---- limit probe: one kind, distances on both sides of its range limit, forward and backward ----
    const KindInfo& k = kinds[r.below(nk)];
    long long lim = k.limit ? k.limit : (1 << 12);
    // second range limit of the kind (rel32: 2^31; adrp: 2^32) and distances that only differ from a small one
    // above bit 32 (4 GiB + 64, 12 GiB + 4096, 16 GiB + 256): reached with virtual section sizes
    {
      std::string kn = k.name;
      bool rel32 = arch == Arch::kX64 && (kn == "jmp" || kn == "jcc" || kn == "call" || kn == "riprel");
      unsigned c2 = (unsigned)r.below(4);
      if (rel32 && c2 == 0) lim = 1ll << 31;
      else if (kn == "adrp" && c2 == 0) lim = 1ll << 32;
      else if (c2 == 1 && (rel32 || arch == Arch::kAArch64)) {
        static const long long far[] = {(1ll << 32) + 64, 3 * (1ll << 32) + 4096, (1ll << 34) + 256, (1ll << 32) - 64, (1ll << 33) + 8};
        lim = far[r.below(5)];
      }
    }
    for (unsigned rep = 0; rep < 3; rep++) {
      long long delta = (long long)r.below(24) - 12;
      if (arch == Arch::kAArch64) delta *= 4;
      long long gap = lim + delta;
      if (gap < 0) gap = 0;
      if (gap > (1 << 21) + 64) {
        // too large for a real buffer: space two sections apart with a virtual size instead
        p.new_label(); size_t l = p.labels.size() - 1;
        p.new_section(arch == Arch::kAArch64 ? 4 : 1);
        size_t s = p.secs.size() - 1;
        if (r.chance(1, 2)) {                         // forward across sections
          p.ref(k.name, l, 0, (unsigned)r.below(k.nvariants));
          p.data(4 + 4 * r.below(4));
          vsizes[0] = uint64_t(gap);
          p.switch_to(s); p.data(4 * r.below(8)); p.bind(l); p.data(8);
        } else {                                      // backward across sections
          p.bind(l); p.data(4 + 4 * r.below(4));
          vsizes[0] = uint64_t(gap);
          p.switch_to(s); p.data(4 * r.below(8)); p.ref(k.name, l, 0, (unsigned)r.below(k.nvariants)); p.data(8);
        }
        break;
      }
      p.new_label(); size_t l = p.labels.size() - 1;
      unsigned variant = (unsigned)r.below(k.nvariants);
      if (r.chance(1, 2)) { p.ref(k.name, l, 0, variant); p.data(size_t(gap)); p.bind(l); }
      else { p.bind(l); p.data(size_t(gap)); p.ref(k.name, l, 0, variant); }
      p.data(4 * (1 + r.below(3)));
    }
  }
  // ---- random soup ----
  for (unsigned i = 0; i < n; i++) {
    unsigned c = (unsigned)r.below(100);
    size_t nl = p.labels.size();
    if (c < 14 || nl == 0) p.new_label();
    else if (c < 30) p.bind(r.below(nl));
    else if (c < 62) {
      const KindInfo& k = kinds[r.below(nk)];
      int32_t addend = r.chance(1, 2) ? 0 : int32_t(r.below(64)) * (arch == Arch::kAArch64 ? 4 : 1) - (arch == Arch::kAArch64 ? 0 : 16);
      p.ref(k.name, r.below(nl), addend, (unsigned)r.below(k.nvariants));
    }
    else if (c < 66 && abs_ok) {
      // absolute targets: near the base, > 2 GiB away in both directions, and low addresses
      uint64_t t;
      switch (arch == Arch::kX64 ? r.below(7) % 5 + (r.chance(1, 3) ? 0 : 0) : r.below(5)) {
        case 0: t = base + 0x1000 + r.below(0x100000); break;
        case 1: t = base + 0x80000000ull + r.below(0x1000) * 16; break;
        case 2: t = base > 0x90000000ull ? base - 0x80000000ull - r.below(0x1000) * 16 : base + 0x7FFFF000ull; break;
        case 3: t = 0x2000 + r.below(0x10000); break;
        default: t = base + 0x7FFFFF00ull + r.below(0x200); break;
      }
      if (arch == Arch::kAArch64) t &= ~uint64_t(3);
      if (arch == Arch::kX86) t &= 0xFFFFFFFFu;
      if (arch == Arch::kAArch64 && r.chance(2, 5)) {
        // adr / adrp with an absolute target: adrp works on pages, asmjit accepts page-aligned targets (base known) or
        // page-multiple distances (base assigned at relocation); anything else must be refused, not mis-encoded
        bool page = r.chance(2, 3);
        if (page) { if (r.chance(3, 4)) t &= ~uint64_t(0xFFF); }
        else if (r.chance(1, 2)) t = base + 0x800 + r.below(0x100000) * 4;       // adr: +-1 MiB
        p.absref(page ? "absadrp" : "absadr", t, (unsigned)r.below(18));
      }
      else
      p.absref((arch == Arch::kX64 && r.chance(1, 3)) ? "absmem" : (arch != Arch::kAArch64 && r.chance(1, 4)) ? "absjcc" : "absjmp", t, (unsigned)r.below(18));
    }
    else if (c < 72) {
      // small sizes cannot hold an address and make relocation fail (reported) - keep them rare
      size_t z = r.chance(1, 12) ? (r.chance(1, 2) ? 1 : 2) : (arch == Arch::kX86 ? (r.chance(1, 2) ? 4 : 0) : (r.chance(1, 6) ? 4 : (r.chance(1, 2) ? 8 : 0)));
      p.embed_label(r.below(nl), z);
    }
    else if (c < 80) { static const size_t sz[] = {1, 2, 4, 8, 4, 8, 2}; p.embed_delta(r.below(nl), r.below(nl), sz[r.below(7)]); }
    else if (c < 90) { size_t q = arch == Arch::kAArch64 ? 4 : 1; unsigned m = (unsigned)r.below(10); p.data(q * (m < 7 ? 1 + r.below(40) : m < 9 ? 100 + r.below(60) : 8000 + r.below(600))); }
    else if (c < 93) { static const uint32_t al[] = {4, 8, 16, 64}; p.align(al[r.below(4)]); }
    else if (c < 96 && p.secs.size() < 5) { static const uint32_t al[] = {1, 4, 8, 16, 64}; p.new_section(arch == Arch::kAArch64 ? al[1 + r.below(4)] : al[r.below(5)]); }
    else if (p.secs.size() > 1) p.switch_to(r.below(p.secs.size()));
  }
  if (abs_ok && arch == Arch::kX64 && r.chance(1, 3)) {
    // a user section created after the address table exists: it is ordered after it
    // (the table's order is INT32_MAX; a later section with the same order sorts after it)
    if (p.code.address_table_section()) { p.new_section(8, std::numeric_limits<int32_t>::max()); p.switch_to(p.secs.size() - 1); p.data(8 + r.below(16)); p.switch_to(0); }
  }
  // bind what is left (a few programs leave labels unbound on purpose)
  bool leave = r.chance(1, 8);
  for (size_t l = 0; l < p.labels.size(); l++) {
    if (p.code.is_label_bound(p.labels[l])) continue;
    if (leave && r.chance(1, 3)) continue;
    if (p.secs.size() > 1 && r.chance(1, 3)) p.switch_to(r.below(p.secs.size()));
    p.bind(l);
  }
  p.finish(base, vsizes, install);
}

int main(int argc, char** argv) {
  if (argc < 5) return 3;
  FILE* out = fopen(argv[2], "w");
  vj::install_abort_handlers(out);
  vj::Rng r(vj::env_seed());
  unsigned nprog = (unsigned)atoi(argv[3]), maxa = (unsigned)atoi(argv[4]);
  g_c04 = argc > 5 && std::string(argv[5]) == "c04";
  for (unsigned i = 0; i < nprog; i++) run_program(out, r, i, maxa);
  fclose(out);
  return 0;
}
