// Minimal JSON reader/writer for the verification harnesses (no third-party code).
#pragma once
#include <cstdint>
#include <cstdio>
#include <cstdlib>
#include <cstring>
#include <map>
#include <memory>
#include <string>
#include <vector>
#include <fstream>
#include <sstream>
#include <unistd.h>
#include <exception>

namespace vj {

struct Value {
  enum Kind { Null, Bool, Num, Str, Arr, Obj } kind = Null;
  bool b = false;
  double num = 0;
  long long inum = 0;
  std::string str;
  std::vector<Value> arr;
  std::vector<std::pair<std::string, Value>> obj;

  const Value* find(const std::string& k) const {
    for (auto& kv : obj) if (kv.first == k) return &kv.second;
    return nullptr;
  }
  bool has(const std::string& k) const { return find(k) != nullptr; }
  const Value& operator[](const std::string& k) const {
    static Value nullv;
    const Value* v = find(k);
    return v ? *v : nullv;
  }
  const Value& operator[](size_t i) const { return arr[i]; }
  long long i() const { return inum; }
  const std::string& s() const { return str; }
  size_t size() const { return kind == Arr ? arr.size() : obj.size(); }
};

struct Parser {
  const char* p;
  const char* end;
  explicit Parser(const std::string& s) : p(s.data()), end(s.data() + s.size()) {}
  void ws() { while (p < end && (*p == ' ' || *p == '\n' || *p == '\t' || *p == '\r')) p++; }
  bool fail(const char* m) { fprintf(stderr, "json parse error: %s\n", m); exit(3); return false; }
  Value parse() {
    ws();
    Value v;
    if (p >= end) { fail("eof"); }
    char c = *p;
    if (c == '{') {
      v.kind = Value::Obj; p++; ws();
      if (*p == '}') { p++; return v; }
      for (;;) {
        ws(); Value k = parse(); ws();
        if (*p != ':') fail("expected :");
        p++;
        Value x = parse();
        v.obj.emplace_back(k.str, std::move(x));
        ws();
        if (*p == ',') { p++; continue; }
        if (*p == '}') { p++; break; }
        fail("expected , or }");
      }
    } else if (c == '[') {
      v.kind = Value::Arr; p++; ws();
      if (*p == ']') { p++; return v; }
      for (;;) {
        v.arr.push_back(parse()); ws();
        if (*p == ',') { p++; continue; }
        if (*p == ']') { p++; break; }
        fail("expected , or ]");
      }
    } else if (c == '"') {
      v.kind = Value::Str; p++;
      while (p < end && *p != '"') {
        if (*p == '\\') {
          p++;
          switch (*p) {
            case 'n': v.str += '\n'; break;
            case 't': v.str += '\t'; break;
            case 'u': { unsigned x = 0; sscanf(p + 1, "%4x", &x); v.str += char(x); p += 4; break; }
            default: v.str += *p;
          }
          p++;
        } else v.str += *p++;
      }
      p++;
    } else if (c == 't') { v.kind = Value::Bool; v.b = true; p += 4; }
    else if (c == 'f') { v.kind = Value::Bool; v.b = false; p += 5; }
    else if (c == 'n') { v.kind = Value::Null; p += 4; }
    else {
      v.kind = Value::Num;
      char* e = nullptr;
      v.num = strtod(p, &e);
      v.inum = strtoll(p, nullptr, 10);
      if (e == p) fail("bad number");
      p = e;
    }
    return v;
  }
};

inline Value parse(const std::string& s) { Parser ps(s); return ps.parse(); }

inline std::vector<Value> read_ndjson(const char* path) {
  std::vector<Value> out;
  std::ifstream f(path);
  if (!f) { fprintf(stderr, "cannot open %s\n", path); exit(3); }
  std::string line;
  while (std::getline(f, line)) {
    if (line.empty()) continue;
    out.push_back(parse(line));
  }
  return out;
}

// ---------------------------------------------------------------------------------------------------------
// Writer: builds one JSON record as a string.
// ---------------------------------------------------------------------------------------------------------
struct W {
  std::string s;
  bool first = true;
  std::vector<bool> stack;
  void sep() { if (!first) s += ','; first = false; }
  W& beginObj() { sep(); s += '{'; stack.push_back(first); first = true; return *this; }
  W& endObj() { s += '}'; first = false; stack.pop_back(); return *this; }
  W& beginArr() { sep(); s += '['; stack.push_back(first); first = true; return *this; }
  W& endArr() { s += ']'; first = false; stack.pop_back(); return *this; }
  W& key(const char* k) { sep(); s += '"'; s += k; s += "\":"; first = true; return *this; }
  W& val(long long v) { sep(); s += std::to_string(v); return *this; }
  W& val(unsigned long long v) { sep(); s += std::to_string(v); return *this; }
  W& val(int v) { return val((long long)v); }
  W& val(unsigned v) { return val((long long)v); }
  W& val(long v) { return val((long long)v); }
  W& val(unsigned long v) { return val((unsigned long long)v); }
  W& val(bool v) { sep(); s += v ? "true" : "false"; return *this; }
  W& val(const char* v) { sep(); str(v); return *this; }
  W& val(const std::string& v) { sep(); str(v.c_str()); return *this; }
  W& null() { sep(); s += "null"; return *this; }
  void str(const char* v) {
    s += '"';
    for (; *v; v++) {
      unsigned char c = (unsigned char)*v;
      if (c == '"' || c == '\\') { s += '\\'; s += char(c); }
      else if (c == '\n') s += "\\n";
      else if (c == '\t') s += "\\t";
      else if (c < 0x20 || c >= 0x7f) { char b[8]; snprintf(b, sizeof b, "\\u%04x", c); s += b; }
      else s += char(c);
    }
    s += '"';
  }
  template<typename T> W& kv(const char* k, T v) { key(k); return val(v); }
  W& bytes(const char* k, const uint8_t* d, size_t n) {
    key(k); beginArr();
    for (size_t i = 0; i < n; i++) val((long long)d[i]);
    return endArr();
  }
  // 64-bit value as four 16-bit limbs (TLC integers are 32-bit)
  W& wide(const char* k, uint64_t v) {
    key(k); beginArr();
    for (int i = 0; i < 4; i++) val((long long)((v >> (16 * i)) & 0xFFFF));
    return endArr();
  }
  void emit(FILE* f) { fputs(s.c_str(), f); fputc('\n', f); s.clear(); first = true; }
};

// Deterministic PRNG (splitmix64) so that VERIF_SEED fully determines a run.
struct Rng {
  uint64_t x;
  explicit Rng(uint64_t seed) : x(seed * 0x9E3779B97F4A7C15ull + 0x1234567ull) {}
  uint64_t next() {
    uint64_t z = (x += 0x9E3779B97F4A7C15ull);
    z = (z ^ (z >> 30)) * 0xBF58476D1CE4E5B9ull;
    z = (z ^ (z >> 27)) * 0x94D049BB133111EBull;
    return z ^ (z >> 31);
  }
  uint64_t below(uint64_t n) { return n ? next() % n : 0; }
  bool chance(unsigned num, unsigned den) { return below(den) < num; }
  template<typename T> const T& pick(const std::vector<T>& v) { return v[below(v.size())]; }
};

// A sanitizer abort / std::terminate must not silently truncate a trace: write an ABORT line.
static FILE* g_trace_file = nullptr;
inline void abort_line() {
  if (g_trace_file) { fputs("{\"e\":\"ABORT\"}\n", g_trace_file); fflush(g_trace_file); }
}
inline void install_abort_handlers(FILE* f) {
  g_trace_file = f;
  std::set_terminate([] { abort_line(); _exit(70); });
}

inline uint64_t env_seed() {
  const char* s = getenv("VERIF_SEED");
  return s && *s ? strtoull(s, nullptr, 10) : 1;
}

} // namespace vj
