// C20 harness: what does asmjit's Formatter / Logger print for an instruction, and which bytes were appended?
//
//   fmtobs x86    <forms.ndjson> <out.ndjson> <quick|thorough> <stride> [<shard> <nshards>]
//                 the C01 sweep instantiations (lib_x86forms.h), 32- and 64-bit; a pseudo-random 1/stride sample of them
//                 leg F  Formatter::format_instruction(flags, assembler, arch, BaseInst(id, options, extra reg), operands)
//                 leg L  the same request emitted on an x86::Assembler with a StringLogger attached: logged line + bytes appended
//   fmtobs x86ops <out.ndjson>                 leg O: Formatter::format_operand on every register of every class, a memory grid,
//                                              immediates, labels of every kind, Compiler virtual registers (named / unnamed / casts)
//   fmtobs a64    <cases.ndjson> <out.ndjson>  cases as produced by checks/c02.py (Gen) / checks/c20.py; every input line is written
//                                              back with leg F (and leg L when the assembler accepted it); "leg":"O" cases = format_operand
//   fmtobs a64x   <out.ndjson>                 AArch64 labels (every kind) and Compiler virtual registers
//   fmtobs prog   <forms.ndjson> <a64cases.ndjson> <out.ndjson> <nprog>
//                                              logger transcripts: random programs of 20..60 emitter calls (instructions, labels, align,
//                                              embed, comments, sections); calls + logged lines (one record per program)
//   fmtobs replay <in.ndjson> <out.ndjson>     re-executes recorded x86 F/L observations on the current tree
//
// The harness formats / emits / records; it judges nothing.  Text is turned into tokens by a GENERIC lexer: words ([A-Za-z0-9_]+,
// lower-cased), numbers (decimal or 0x-hex words; magnitude m and its two's complement negation n as four 16-bit limbs), every other
// non-blank character as a one-character token.  It knows no mnemonic, no register name and no keyword.  A logged line is cut at the
// first ';' (machine-code column / comment separator of EmitterUtils::finish_formatted_line) and the column at '|'; the column is
// read as pairs of characters: two hex digits = a byte, ".." = -1 (masked relocation), anything else = -2.
#include "lib_x86forms.h"
#include "lib_a64forms.h"
#include <asmjit/core/formatter.h>
#include <asmjit/core/logger.h>
#include <fstream>
#include <map>

using namespace asmjit;

// ---------------------------------------------------------------------------------------------------------------
// generic lexer
// ---------------------------------------------------------------------------------------------------------------
struct Tok { bool num = false; std::string s; uint64_t m = 0; };

static void lex(const char* p, size_t n, std::vector<Tok>& out) {
  size_t i = 0;
  while (i < n) {
    unsigned char c = (unsigned char)p[i];
    if (c == ' ' || c == '\t' || c == '\r' || c == '\n') { i++; continue; }
    if (isalnum(c) || c == '_') {
      size_t j = i;
      while (j < n && (isalnum((unsigned char)p[j]) || p[j] == '_')) j++;
      std::string w(p + i, j - i);
      for (char& ch : w) ch = char(tolower((unsigned char)ch));
      Tok t;
      if (isdigit(c)) {
        bool dec = true, hex = w.size() > 2 && w[0] == '0' && w[1] == 'x' && w.size() <= 18;
        for (char ch : w) if (!isdigit((unsigned char)ch)) dec = false;
        if (hex) for (size_t k = 2; k < w.size(); k++) if (!isxdigit((unsigned char)w[k])) hex = false;
        if (hex) { t.num = true; t.m = strtoull(w.c_str() + 2, nullptr, 16); }
        else if (dec) {
          unsigned __int128 v = 0; bool ovf = false;
          for (char ch : w) { v = v * 10 + unsigned(ch - '0'); if (v >> 64) { ovf = true; break; } }
          if (!ovf) { t.num = true; t.m = uint64_t(v); } else t.s = w;
        } else t.s = w;
      } else t.s = w;
      out.push_back(t);
      i = j;
      continue;
    }
    Tok t; t.s = std::string(1, char(c)); out.push_back(t); i++;
  }
}
static std::vector<Tok> lex(const std::string& s) { std::vector<Tok> t; lex(s.data(), s.size(), t); return t; }

static void write_tokens(vj::W& w, const char* key, const std::vector<Tok>& t) {
  w.key(key).beginArr();
  for (const Tok& x : t) {
    w.beginObj();
    if (x.num) { w.kv("s", "<num>"); w.wide("m", x.m); w.wide("n", uint64_t(0) - x.m); }
    else w.kv("s", x.s);
    w.endObj();
  }
  w.endArr();
}

static std::string trim(const std::string& s) {
  size_t a = 0, b = s.size();
  while (a < b && isspace((unsigned char)s[a])) a++;
  while (b > a && isspace((unsigned char)s[b - 1])) b--;
  return s.substr(a, b - a);
}

struct Line { std::string raw, text, hex, comment; };

// cut of one logged line (without the newline): text ; machine code | comment     or     text ; comment   (no machine-code flag)
static Line split_line(const std::string& raw, bool machine_code) {
  Line l; l.raw = raw;
  size_t p = raw.find(';');
  if (p == std::string::npos) { l.text = raw; return l; }
  l.text = raw.substr(0, p);
  std::string rest = raw.substr(p + 1);
  if (!machine_code) { l.comment = trim(rest); return l; }
  size_t q = rest.find('|');
  if (q == std::string::npos) l.hex = trim(rest);
  else { l.hex = trim(rest.substr(0, q)); l.comment = trim(rest.substr(q + 1)); }
  return l;
}

static std::vector<int> hex_column(const std::string& h) {
  std::vector<int> v;
  auto hv = [](char c) { return c >= '0' && c <= '9' ? c - '0' : c >= 'a' && c <= 'f' ? c - 'a' + 10 : c >= 'A' && c <= 'F' ? c - 'A' + 10 : -1; };
  for (size_t i = 0; i < h.size(); i += 2) {
    if (i + 1 >= h.size()) { v.push_back(-2); break; }
    if (h[i] == '.' && h[i + 1] == '.') v.push_back(-1);
    else if (hv(h[i]) >= 0 && hv(h[i + 1]) >= 0) v.push_back(hv(h[i]) * 16 + hv(h[i + 1]));
    else v.push_back(-2);
  }
  return v;
}

static std::vector<std::string> split_lines(const char* d, size_t n) {
  std::vector<std::string> r; std::string cur;
  for (size_t i = 0; i < n; i++) { if (d[i] == '\n') { r.push_back(cur); cur.clear(); } else cur += d[i]; }
  if (!cur.empty()) r.push_back(cur);
  return r;
}

static void write_ints(vj::W& w, const char* k, const std::vector<int>& v) { w.key(k).beginArr(); for (int x : v) w.val(x); w.endArr(); }
static void write_bytes(vj::W& w, const char* k, const uint8_t* p, size_t n) { w.key(k).beginArr(); for (size_t i = 0; i < n; i++) w.val(int(p[i])); w.endArr(); }

// the 8 FormatFlags bits; combo c in 0..255 selects a subset
static const uint32_t kFlagBits[8] = {0x1, 0x8, 0x10, 0x20, 0x40, 0x100, 0x200, 0x400};
static uint32_t flags_of(uint32_t c) { uint32_t f = 0; for (int j = 0; j < 8; j++) if (c >> j & 1) f |= kFlagBits[j]; return f; }
static uint64_t mix(uint64_t x) { x ^= x >> 33; x *= 0xff51afd7ed558ccdull; x ^= x >> 33; x *= 0xc4ceb9fe1a85ec53ull; x ^= x >> 33; return x; }

static void vary_layout(StringLogger& lg, uint64_t h) {      // indentation / padding are syntax: vary them, the lexer ignores blanks
  lg.set_indentation(FormatIndentationGroup::kCode, uint32_t(h % 5));
  lg.set_indentation(FormatIndentationGroup::kLabel, uint32_t((h >> 3) % 3));
  lg.set_padding(FormatPaddingGroup::kRegularLine, (h >> 8) % 3 == 0 ? 0 : uint32_t(20 + (h >> 10) % 60));
  lg.set_padding(FormatPaddingGroup::kMachineCode, (h >> 16) % 3 == 0 ? 0 : uint32_t(10 + (h >> 18) % 40));
}

// ---------------------------------------------------------------------------------------------------------------
// labels of every kind
// ---------------------------------------------------------------------------------------------------------------
struct LabelDesc { uint32_t id = 0; int kind = 0; std::string nm, pnm; uint32_t pid = 0; };
static uint64_t g_name_ctr = 0;

// kind 0 anonymous, 1 named global, 2 local with named parent, 3 local with anonymous parent, 4 anonymous with a name
static Label make_label(BaseEmitter& e, int kind, LabelDesc& d) {
  d.kind = kind;
  uint64_t n = ++g_name_ctr;
  Label L;
  if (kind == 0) L = e.new_label();
  else if (kind == 1) { d.nm = "glb_" + std::to_string(n); L = e.new_named_label(d.nm.c_str()); }
  else if (kind == 2 || kind == 3) {
    Label P;
    if (kind == 2) { d.pnm = "par" + std::to_string(n); P = e.new_named_label(d.pnm.c_str()); } else P = e.new_label();
    d.pid = P.id();
    d.nm = "loc_" + std::to_string(n);
    L = e.new_named_label(d.nm.c_str(), SIZE_MAX, LabelType::kLocal, P.id());
  } else { d.nm = "an" + std::to_string(n) + "x"; L = e.new_anonymous_label(d.nm.c_str()); }
  d.id = L.id();
  return L;
}
static void write_label(vj::W& w, const LabelDesc& d) {
  w.beginObj().kv("id", (long long)d.id).kv("kind", d.kind).kv("nm", d.nm).kv("pid", (long long)d.pid).kv("pnm", d.pnm).endObj();
}

// ---------------------------------------------------------------------------------------------------------------
// fixups / relocations that CodeHolder registered for the bytes [before, after) of a section: the displacement / address FIELDS
// of the references the instruction makes (offset relative to `before`, width in bytes).  Read from CodeHolder, not derived.
// ---------------------------------------------------------------------------------------------------------------
typedef std::vector<std::pair<int, int>> FxList;

static void fx_add(FxList& fx, long off, int size) {
  std::pair<int, int> f(int(off), size);
  if (std::find(fx.begin(), fx.end(), f) == fx.end()) fx.push_back(f);
}

static FxList collect_fx(CodeHolder& code, Section* sec, size_t before, size_t after, size_t reloc_before, const std::vector<uint32_t>& label_ids) {
  FxList fx;
  Span<RelocEntry*> rel = code.reloc_entries();
  for (size_t i = reloc_before; i < rel.size(); i++) {
    RelocEntry* re = rel[i];
    if (re->source_section_id() != sec->section_id() || re->source_offset() < before || re->source_offset() >= after) continue;
    fx_add(fx, long(re->source_offset() + re->format().value_offset() - before), int(re->format().value_size()));
  }
  auto walk = [&](Fixup* f) {
    for (; f; f = f->next)
      if (f->section_id == sec->section_id() && f->offset >= before && f->offset < after)
        fx_add(fx, long(f->offset + f->format.value_offset() - before), int(f->format.value_size()));
  };
  for (uint32_t id : label_ids) if (code.is_label_valid(id)) walk(code.label_entry_of(id).unresolved_fixups());
  walk(code._fixups);
  std::sort(fx.begin(), fx.end());
  return fx;
}

static void write_fx(vj::W& w, const FxList& fx) {
  w.key("fx").beginArr();
  for (auto& f : fx) { w.beginArr().val(f.first).val(f.second).endArr(); }
  w.endArr();
}

// ---------------------------------------------------------------------------------------------------------------
// x86
// ---------------------------------------------------------------------------------------------------------------
using x86forms::Inst; using x86forms::Opd;

// records what the emitter hands to the ErrorHandler ("<error string>: <formatted instruction>[ ; comment]", EmitterUtils::log_instruction_failed)
struct RecErrH : public ErrorHandler {
  std::string msg; Error err = Error::kOk;
  void handle_error(Error e, const char* m, BaseEmitter*) override { err = e; msg = m ? m : ""; }
};

struct XMode {
  int bits = 64; Environment env; CodeHolder code; x86::Assembler* a = nullptr; StringLogger lg; Section* sec2 = nullptr; RecErrH eh;
  void init(int b) { bits = b; env = Environment(b == 64 ? Arch::kX64 : Arch::kX86); reset(); }
  void reset() {
    delete a; code.reset(); code.init(env); code.set_error_handler(&eh);
    sec2 = nullptr; code.new_section(Out<Section*>(sec2), ".data2", SIZE_MAX, SectionFlags::kNone, 8);
    a = new x86::Assembler(&code);
    a->add_diagnostic_options(DiagnosticOptions::kValidateAssembler);
    a->set_logger(&lg);
  }
};

static const uint8_t g_zeros[256] = {0};
static long g_f = 0, g_l = 0, g_lm_f = 0, g_lm_l = 0, g_r = 0;

// the request part of an observation: x86forms::write_request plus memory operands whose base is a label ("bt":"lb","lb":{label})
static void x86_write_request(vj::W& w, const Inst& ob, const std::map<size_t, LabelDesc>& memlb) {
  if (memlb.empty()) { x86forms::write_request(w, ob); return; }
  w.kv("f", ob.f).kv("n", ob.n).kv("m", ob.m);
  w.key("ops").beginArr();
  for (size_t j = 0; j < ob.ops.size(); j++) {
    const Opd& o = ob.ops[j];
    w.beginObj();
    char ts[2] = {o.t, 0};
    w.kv("t", (const char*)ts);
    if (o.t == 'r') { w.kv("c", o.c).kv("id", o.id); }
    else if (o.t == 'm') {
      w.kv("sz", o.sz).kv("sg", o.sg).kv("bt", o.bt).kv("b", o.b).kv("it", o.it).kv("i", o.i).kv("sh", o.sh).kv("bc", o.bc).kv("at", o.at);
      x86forms::bytes8(w, "d", o.d);
      w.kv("dv", std::to_string((long long)o.d));
      auto it = memlb.find(j);
      if (it != memlb.end()) { w.key("lb"); write_label(w, it->second); }
    } else if (o.t == 'i') { x86forms::bytes8(w, "v", o.v); w.kv("iv", std::to_string((long long)o.v)); }
    else { w.kv("id", o.id).kv("fwd", o.fwd).kv("pad", o.pad); }
    w.endObj();
  }
  w.endArr();
  w.kv("k", ob.k).kv("z", ob.z).kv("er", ob.er).kv("sae", ob.sae).kv("opt", (long long)ob.opt);
}

struct XCfg {
  bool doF = true, doL = true;
  uint32_t flF = 0, flL = 0;
  uint64_t layout = 0;
  std::string ic;
  std::vector<int> kinds;      // label kinds of the label operands, in order (missing: rotation by `rot`)
  int mkind = 0;               // label kind of a label-based memory operand
  int rot = 0;
  int lst = -1;                // state of the referenced label at emit time: 0 unbound (bound later), 1 bound before, 2 bound in another section; -1: by the descriptor (fwd)
  bool f_if_ok = false;        // write the formatter-leg observation only when the assembler accepted the request (combination variants)
  int cap_er = 0, cap_sae = 0; // what the DB row the request was instantiated from allows ({er} / {sae}); copied into the observation
};

// one request: leg F, then leg L (when accepted).  Returns true when the assembler accepted it.
static bool x86_exec(XMode& md, Inst in, const XCfg& cfg, FILE* out, bool lmem_stat = false) {
  x86::Assembler& a = *md.a;
  InstId id = InstAPI::string_to_inst_id(md.env.arch(), in.n.c_str(), in.n.size());
  if (id == BaseInst::kIdNone || in.ops.size() > 6) return false;
  if (md.code.text_section()->buffer().size() > (8u << 20) || md.code.label_count() > 200000) md.reset();
  Operand_ ops[6]; size_t n = in.ops.size(), li = 0;
  std::vector<LabelDesc> lbl; std::map<size_t, LabelDesc> memlb; std::vector<Label> later; std::vector<uint32_t> lids;
  auto place = [&](Label L, int st, int pad) {
    if (st == 0) later.push_back(L);
    else if (st == 1) { a.bind(L); if (pad) a.embed(g_zeros, size_t(pad)); }
    else { a.section(md.sec2); a.bind(L); a.embed(g_zeros, 8); a.section(md.code.text_section()); }
  };
  for (size_t j = 0; j < n; j++) {
    Opd& o = in.ops[j];
    if (o.t == 'm' && o.bt == "lb") {
      LabelDesc d; Label L = make_label(a, cfg.mkind, d);
      place(L, cfg.lst < 0 ? 0 : cfg.lst, 4);
      x86::Mem m = x86::ptr(L, int32_t(o.d));
      m.set_size(uint32_t(o.sz));
      if (o.sg) m.set_segment(uint32_t(o.sg));
      if (o.bc) { int lg2 = 0; while ((1 << lg2) < o.bc) lg2++; m.set_broadcast(x86::Mem::Broadcast(lg2)); }
      ops[j] = m; memlb[j] = d; lids.push_back(L.id());
    }
    else if (!x86forms::build_operand(o, ops[j])) {
      int kind = li < cfg.kinds.size() ? cfg.kinds[li] : (cfg.rot + int(j)) % 5; li++;
      LabelDesc d; Label L = make_label(a, kind, d);
      place(L, cfg.lst < 0 ? (o.fwd ? 0 : 1) : cfg.lst, o.pad % 140);
      ops[j] = L; lbl.push_back(d); lids.push_back(L.id());
    }
  }
  InstOptions io = x86forms::inst_options(in);
  if (in.er >= 0 && in.sae) io |= InstOptions::kX86_SAE;        // both decorations requested (lib's inst_options passes one of them)
  RegOnly extra; extra.reset();
  if (in.k) extra.init(x86::k(in.k));
  auto begin = [&](vj::W& w, const char* leg, uint32_t fl) {
    w.beginObj().kv("a", "x86").kv("leg", leg);
    x86_write_request(w, in, memlb);
    w.key("lbl").beginArr(); for (const LabelDesc& d : lbl) write_label(w, d); w.endArr();
    w.key("cap").beginArr().val(cfg.cap_er).val(cfg.cap_sae).endArr();
    w.kv("lst", cfg.lst).kv("fl", (long long)fl);
  };
  std::string held;
  if (cfg.doF) {
    String sb;
    Formatter::format_instruction(sb, FormatFlags(cfg.flF), md.a, md.env.arch(), BaseInst(id, io, extra), Span<const Operand_>(ops, n));
    vj::W w; begin(w, "F", cfg.flF);
    w.kv("tx", sb.data());
    write_tokens(w, "tk", lex(std::string(sb.data(), sb.size())));
    w.endObj();
    if (cfg.f_if_ok && cfg.doL) held = w.s; else { w.emit(out); (lmem_stat ? g_lm_f : g_f)++; }
  }
  bool ok = false;
  if (cfg.doL) {
    md.lg.set_flags(FormatFlags(cfg.flL));
    vary_layout(md.lg, cfg.layout);
    if (!cfg.ic.empty()) a.set_inline_comment(cfg.ic.c_str());
    a.set_inst_options(io);
    if (in.k) a.set_extra_reg(x86::k(in.k)); else a.reset_extra_reg();
    md.lg.clear();
    size_t before = a.offset(), rb = md.code.reloc_entries().size();
    md.eh.msg.clear(); md.eh.err = Error::kOk;
    Error e = a.emit_op_array(id, ops, n);
    size_t after = a.offset();
    a.reset_inst_options(); a.reset_extra_reg(); a.reset_inline_comment();
    if (e != Error::kOk && !md.eh.msg.empty()) {
      // ---- leg R: the REFUSED request as the emitter describes it to the ErrorHandler.  Only messages that carry an instruction text
      // ("<error string>: <text>") are recorded; the text is formatted with FormatFlags::kRegType (log_instruction_failed).
      std::string pre = std::string(DebugUtils::error_as_string(e)) + ": ";
      if (md.eh.msg.compare(0, pre.size(), pre) == 0 && md.eh.msg.size() > pre.size()) {
        std::string text = md.eh.msg.substr(pre.size()), cm;
        if (!cfg.ic.empty()) { size_t q = text.rfind(" ; "); if (q != std::string::npos) { cm = trim(text.substr(q + 3)); text = text.substr(0, q); } }
        vj::W w; begin(w, "R", 0x400);
        w.kv("en", DebugUtils::error_as_string(e)).kv("tx", md.eh.msg);
        write_tokens(w, "tk", lex(text));
        w.kv("ic", cfg.ic).kv("cm", cm);
        w.endObj(); w.emit(out); g_r++;
      }
    }
    if (e == Error::kOk) {
      ok = true;
      if (!held.empty()) { fputs(held.c_str(), out); fputc('\n', out); (lmem_stat ? g_lm_f : g_f)++; }
      std::vector<std::string> lines = split_lines(md.lg.data(), md.lg.data_size());
      vj::W w; begin(w, "L", cfg.flL);
      w.kv("nl", (long long)lines.size());
      Line l = split_line(lines.empty() ? std::string() : lines[0], (cfg.flL & 1) != 0);
      w.kv("tx", l.raw);
      write_tokens(w, "tk", lex(l.text));
      write_ints(w, "hx", hex_column(l.hex));
      w.kv("ic", cfg.ic).kv("cm", l.comment);
      write_bytes(w, "b", md.code.text_section()->buffer().data() + before, after - before);
      write_fx(w, collect_fx(md.code, md.code.text_section(), before, after, rb, lids));
      w.endObj(); w.emit(out); (lmem_stat ? g_lm_l : g_l)++;
    }
    md.lg.clear();
  }
  for (Label& L : later) a.bind(L);
  md.lg.clear();
  return ok;
}

// immediates with pairwise distinct non-zero bytes, by width
static int64_t distinct_imm(int bits) { return bits <= 8 ? 0x7A : bits <= 16 ? 0x3322 : bits <= 32 ? 0x44332211 : 0x7766554433221108ll; }

static int cmd_x86(int argc, char** argv) {
  if (argc < 6) return 2;
  vj::Rng rng(vj::env_seed());
  x86forms::g_gen.rng = &rng;
  x86forms::g_gen.thorough = std::string(argv[4]) == "thorough";
  unsigned stride = unsigned(atoi(argv[5])); if (!stride) stride = 1;
  int shard = argc > 7 ? atoi(argv[6]) : 0, nshards = argc > 7 ? atoi(argv[7]) : 1;
  XMode m32, m64; m32.init(32); m64.init(64);
  std::vector<x86forms::Form> forms = x86forms::load_forms(argv[2]);
  FILE* out = fopen(argv[3], "w");
  if (!out) return 3;
  uint64_t ctr = 0, seed = vj::env_seed();
  int lm_rounds = x86forms::g_gen.thorough ? 3 : 1;
  for (const x86forms::Form& f : forms) {
    if (f.id % nshards != shard) continue;
    size_t rot = size_t(seed * 7 + f.id);
    bool rm_mem = false;
    for (const x86forms::FOp& fo : f.ops) if (fo.fld == "rm" && fo.msz >= 0 && fo.vsib.empty()) rm_mem = true;
    for (int pass = 0; pass < 2; pass++) {
      XMode& md = pass == 0 ? m64 : m32;
      int lm = 0, lj = 0, cb_er = 0, cb_kz = 0, cb_lock = 0, cb_sl = 0, cb_enc = 0, cb_ref = 0;
      x86forms::instantiate(f, md.bits, rot + (pass ? 3 : 0), [&](Inst& in) {
        uint64_t h = mix(++ctr * 0x9E3779B97F4A7C15ull + seed + uint64_t(f.id) * 1315423911ull);
        // ---- label-based memory operand / label operand in every state, combined with the form's immediate (distinct non-zero bytes)
        bool has_m = false, has_l = false;
        for (const Opd& o : in.ops) { if (o.t == 'm') has_m = true; if (o.t == 'l') has_l = true; }
        if ((rm_mem && has_m && lm < 3 * lm_rounds) || (has_l && lj < 3 * lm_rounds)) {
          Inst v = in;
          int st = has_m ? lm++ % 3 : lj++ % 3;
          if (has_m) for (Opd& o : v.ops) if (o.t == 'm') {
            Opd m; m.t = 'm'; m.sz = o.sz; m.bc = o.bc; m.sg = (st == 1 && o.sg >= 5) ? o.sg : 0; m.bt = "lb";
            static const int64_t ds[] = {0, 16, -8, 0x1230};
            m.d = ds[(lm + f.id) % 4];
            o = m; break;
          }
          size_t fi = 0;
          for (Opd& o : v.ops) if (o.t == 'i') {
            while (fi < f.ops.size() && !(f.ops[fi].ibits || f.ops[fi].iconst >= 0)) fi++;
            if (fi < f.ops.size() && f.ops[fi].iconst < 0) o.v = distinct_imm(f.ops[fi].ibits);
            fi++;
          }
          v.opt &= ~uint32_t(x86forms::O_LOCK | x86forms::O_XACQ | x86forms::O_XREL | x86forms::O_MODMR | x86forms::O_MODRM);
          uint64_t g = mix(h ^ 0x5bd1e995);
          XCfg c; c.flF = flags_of(uint32_t(g >> 8) & 255); c.flL = flags_of(uint32_t(g >> 16) & 255) | 1; c.layout = g >> 28;
          c.mkind = int(g % 5); c.rot = int((g >> 3) % 5); c.lst = st; c.doF = st == 0; c.cap_er = f.er; c.cap_sae = f.sae;
          bool ok = x86_exec(md, v, c, out, true);
          if (!ok && has_m) lm--;          // not accepted in this shape (e.g. an implicit memory operand): try the next instantiation
          if (!ok && !has_m) lj--;
        }
        // ---- COMBINATIONS of decorations / options (the lib's grid sets them one family at a time); whatever the assembler accepts is judged
        {
          using namespace x86forms;
          uint64_t g = mix(h ^ 0x2545F4914F6CDD1Dull);
          int vn = 0;
          auto variant = [&](Inst v, bool doF) {
            uint64_t q = mix(g + uint64_t(++vn) * 0x9E3779B97F4A7C15ull);
            XCfg c; c.flF = flags_of(uint32_t(q >> 8) & 255); c.flL = flags_of(uint32_t(q >> 16) & 255) | 1; c.layout = q >> 28; c.rot = int(q % 5);
            c.doF = doF; c.f_if_ok = true; c.cap_er = f.er; c.cap_sae = f.sae;
            x86_exec(md, v, c, out, true);
          };
          bool evex_form = f.pk == "E" || f.pk == "V";
          if (f.er && !has_m && cb_er < lm_rounds) {                                   // {sae} x {er: each rounding mode}
            cb_er++;
            for (int m = 0; m < 4; m++) { Inst v = in; v.er = m; v.sae = 1; variant(v, false); }
          }
          if (evex_form && f.k && cb_kz < 2 * lm_rounds && (cb_kz % 2 == 0) == has_m) {   // {k} x {z} x broadcast, on a register and on a memory instantiation
            cb_kz++;
            int bj = -1, bcst = 0, msz = 0;
            for (const FOp& fo : f.ops) if (fo.bcst && fo.msz > 0) { bcst = fo.bcst; msz = fo.msz; }
            for (size_t j = 0; j < in.ops.size(); j++) if (in.ops[j].t == 'm' && bcst) bj = int(j);
            for (int kk : {0, 5}) for (int zz : {0, 1}) for (int bb = 0; bb < (bj >= 0 ? 2 : 1); bb++) {
              Inst v = in; v.k = kk; v.z = zz; v.er = -1; v.sae = 0;
              if (bj >= 0) { Opd& o = v.ops[bj]; if (bb && msz * 8 / bcst >= 2) { o.bc = msz * 8 / bcst; o.sz = bcst / 8; } else { o.bc = 0; o.sz = msz; } }
              variant(v, true);
            }
          }
          if (evex_form && cb_ref < 2 * lm_rounds && (cb_ref % 2 == 0) == has_m) {       // requests the assembler must REFUSE while {k}{z} / options are pending
            cb_ref++;
            for (int t = 0; t < 3; t++) {
              Inst v = in; v.k = t == 1 ? 7 : 2; v.z = t == 1 ? 1 : 0;
              if (has_m && t < 2) { for (Opd& o : v.ops) if (o.t == 'm' && o.bt != "rip" && !o.bt.empty()) { o.it = o.bt; o.i = 4; o.sh = 0; break; } }   // rsp / esp as index
              else if (t == 2) { v.opt |= O_LOCK; v.ops.push_back(R("gpd", 3)); }                                                             // lock + one operand too many
              else { if (!f.er) v.er = 1; else { v.opt |= O_LOCK; } }                                                                          // {er} where the row has none / lock
              variant(v, false);
            }
          }
          const uint32_t LOCKFAM[5] = {O_LOCK, O_XACQ, O_XREL, O_REP, O_REPNE};
          if ((f.lock && has_m && cb_lock < lm_rounds) || ((f.rep || f.repne) && cb_lock < lm_rounds)) {   // lock x xacquire/xrelease x rep/repne
            cb_lock++;
            for (uint32_t sub = 1; sub < 32; sub++) {
              uint32_t o = 0; for (int b = 0; b < 5; b++) if (sub >> b & 1) o |= LOCKFAM[b];
              Inst v = in; v.opt = (in.opt & ~uint32_t(O_LOCK | O_XACQ | O_XREL | O_REP | O_REPNE)) | o; variant(v, true);
            }
          }
          if (has_l && cb_sl < lm_rounds) {                                             // short / long / both
            cb_sl++;
            for (uint32_t o : {uint32_t(O_SHORT), uint32_t(O_LONG), uint32_t(O_SHORT | O_LONG)}) { Inst v = in; v.opt = (in.opt & ~uint32_t(O_SHORT | O_LONG)) | o; variant(v, true); }
          }
          if (!has_l && cb_enc < 2 * lm_rounds && (cb_enc % 2 == 0) == has_m) {        // rex / vex3 / vex / evex / mod_mr / mod_rm together (subsets of >= 2)
            cb_enc++;
            const uint32_t ENC[6] = {O_REX, O_VEX3, O_VEX, O_EVEX, O_MODMR, O_MODRM};
            int want = x86forms::g_gen.thorough ? 12 : 3, made = 0;
            for (uint32_t t = 0; t < 64 && made < want; t++) {
              uint32_t sub = uint32_t((t * 37 + g) % 64);
              if (__builtin_popcount(sub) < 2) continue;
              uint32_t o = 0; for (int b = 0; b < 6; b++) if (sub >> b & 1) o |= ENC[b];
              if (!evex_form && (o & (O_VEX3 | O_VEX | O_EVEX)) && made % 2) continue;
              Inst v = in; v.opt = (in.opt & ~uint32_t(O_REX | O_VEX3 | O_VEX | O_EVEX | O_MODMR | O_MODRM)) | o; variant(v, true); made++;
            }
          }
        }
        if (h % stride != 0) return;
        h = mix(h);
        XCfg c; c.flF = flags_of(uint32_t(h >> 8) & 255); c.flL = flags_of(uint32_t(h >> 16) & 255);
        c.cap_er = f.er; c.cap_sae = f.sae;
        if ((h >> 24) % 4 != 0) c.flL |= 1;
        c.layout = h >> 28; c.rot = int(h % 5);
        if ((h >> 40) % 5 == 0) c.ic = "note " + std::to_string(h % 1000) + " r" + std::to_string((h >> 5) % 97);
        x86_exec(md, in, c, out);
      });
    }
  }
  fclose(out);
  fprintf(stderr, "fmtobs x86: %llu instantiations, F=%ld L=%ld, label-reference / combination variants F=%ld L=%ld, refused-with-message R=%ld\n", (unsigned long long)ctr, g_f, g_l, g_lm_f, g_lm_l, g_r);
  return 0;
}

// replay of recorded x86 F / L observations (physical registers; labels are re-created with the recorded kinds and states)
static int cmd_replay(int argc, char** argv) {
  if (argc < 4) return 2;
  vj::Rng rng(vj::env_seed()); x86forms::g_gen.rng = &rng;
  FILE* out = fopen(argv[3], "w");
  if (!out) return 3;
  XMode m32, m64; m32.init(32); m64.init(64);
  for (const vj::Value& v : vj::read_ndjson(argv[2])) {
    if (!v.has("a") || v["a"].s() != "x86" || !v.has("f")) continue;
    std::string leg = v["leg"].s();
    if (leg != "F" && leg != "L") continue;
    Inst in = x86forms::read_request(v);
    XCfg c; c.doF = leg == "F"; c.doL = leg == "L"; c.flF = c.flL = uint32_t(v["fl"].i());
    if (v.has("ic")) c.ic = v["ic"].s();
    if (v.has("lst")) c.lst = int(v["lst"].i());
    if (v.has("cap") && v["cap"].size() == 2) { c.cap_er = int(v["cap"][0].i()); c.cap_sae = int(v["cap"][1].i()); }
    if (v.has("lbl")) for (size_t j = 0; j < v["lbl"].size(); j++) c.kinds.push_back(int(v["lbl"][j]["kind"].i()));
    for (size_t j = 0; j < v["ops"].size(); j++) if (v["ops"][j].has("lb")) c.mkind = int(v["ops"][j]["lb"]["kind"].i());
    x86_exec(in.m == 64 ? m64 : m32, in, c, out);
  }
  fclose(out);
  return 0;
}

// ---------------------------------------------------------------------------------------------------------------
// x86 leg O: format_operand
// ---------------------------------------------------------------------------------------------------------------
static void x86_op_obs(FILE* out, int mode, const Opd& o, uint32_t fl, const BaseEmitter* em, const Operand_& op, const char* extra_json = nullptr) {
  Inst in; in.f = 0; in.n = ""; in.m = mode; in.ops.push_back(o);
  String sb;
  Formatter::format_operand(sb, FormatFlags(fl), em, mode == 64 ? Arch::kX64 : Arch::kX86, op);
  vj::W w; w.beginObj().kv("a", "x86").kv("leg", "O");
  x86forms::write_request(w, in);
  w.key("lbl").beginArr().endArr();
  w.kv("fl", (long long)fl).kv("tx", sb.data());
  write_tokens(w, "tk", lex(std::string(sb.data(), sb.size())));
  w.endObj();
  if (extra_json) { w.s.pop_back(); w.s += extra_json; w.s += "}"; }
  w.emit(out);
}

struct VrInfo { std::string c; TypeId tid; };

static int cmd_x86ops(int argc, char** argv) {
  if (argc < 3) return 2;
  FILE* out = fopen(argv[2], "w");
  if (!out) return 3;
  vj::Rng rng(vj::env_seed()); x86forms::g_gen.rng = &rng;
  uint64_t ctr = 0;
  auto nextfl = [&]() { return flags_of(uint32_t(mix(++ctr + vj::env_seed()) & 255)); };
  // ---- every register of every class
  struct C { const char* c; int n; } classes[] = {{"gpb", 16}, {"gph", 4}, {"gpw", 16}, {"gpd", 16}, {"gpq", 16}, {"xmm", 32}, {"ymm", 32}, {"zmm", 32},
                                                  {"mm", 8}, {"k", 8}, {"sreg", 6}, {"creg", 16}, {"dreg", 16}, {"st", 8}, {"bnd", 4}, {"tmm", 8}};
  for (int mode : {64, 32})
    for (const C& c : classes)
      for (int id = 0; id < c.n; id++)
        for (int rep = 0; rep < 3; rep++) {
          Opd o = x86forms::R(c.c, id); Operand_ op;
          x86forms::build_operand(o, op);
          x86_op_obs(out, mode, o, nextfl(), nullptr, op);
        }
  // ---- memory: systematic rows, then random rows
  const char* gpt[] = {"gpq", "gpd", "gpw"};
  const int sizes[] = {0, 1, 2, 4, 6, 8, 10, 16, 32, 64, 3, 28, 512};
  auto memobs = [&](int mode, Opd o) { Operand_ op; x86forms::build_operand(o, op); x86_op_obs(out, mode, o, nextfl(), nullptr, op); };
  for (int mode : {64, 32}) {
    for (const char* t : gpt) for (int id = 0; id < 16; id++) {            // every base register, every index register
      Opd o; o.t = 'm'; o.sz = sizes[(id + 1) % 10]; o.bt = t; o.b = id; memobs(mode, o);
      Opd p; p.t = 'm'; p.sz = 4; p.bt = t; p.b = (id * 7 + 3) % 16; p.it = t; p.i = id; p.sh = id % 4; p.d = (id % 3 - 1) * (id + 1) * 16; memobs(mode, p);
    }
    for (const char* t : {"xmm", "ymm", "zmm"}) for (int id = 0; id < 32; id++) {
      Opd p; p.t = 'm'; p.sz = 4; p.bt = mode == 64 ? "gpq" : "gpd"; p.b = id % 8; p.it = t; p.i = id; p.sh = (id / 2) % 4; p.d = id % 2 ? -8 * id : 4 * id; memobs(mode, p);
    }
    for (int sz : sizes) for (int sg = 0; sg <= 6; sg++) { Opd o; o.t = 'm'; o.sz = sz; o.sg = sg; o.bt = "gpq"; o.b = 3; o.d = sg * 8 - 16; memobs(mode, o); }
    for (int sh = 0; sh < 4; sh++) for (int64_t d : x86forms::disp_pool(4)) {
      Opd o; o.t = 'm'; o.sz = 8; o.bt = "gpq"; o.b = 0; o.it = "gpq"; o.i = 1; o.sh = sh; o.d = d; memobs(mode, o);
      Opd q; q.t = 'm'; q.sz = 4; q.it = "gpq"; q.i = 2; q.sh = sh; q.d = int64_t(int32_t(d)) & 0x7FFFFFFF; memobs(mode, q);
    }
    for (int bc : {2, 4, 8, 16, 32}) for (int sz : {2, 4, 8}) { Opd o; o.t = 'm'; o.sz = sz; o.bc = bc; o.bt = "gpq"; o.b = 1; o.d = 64; memobs(mode, o); }
    for (int at = 0; at < 3; at++) for (int64_t d : {int64_t(0), int64_t(0x1234), int64_t(0x7FFFFFFF), int64_t(-0x1000), int64_t(0x123456789All), int64_t(9), int64_t(10)}) {
      Opd o; o.t = 'm'; o.sz = 4; o.at = at; o.d = d; memobs(mode, o);
      Opd r; r.t = 'm'; r.sz = 8; r.sg = 5; r.at = at; r.d = d; memobs(mode, r);
    }
    for (int64_t d : {int64_t(0), int64_t(127), int64_t(-129), int64_t(2147483647ll), int64_t(-2147483648ll)}) { Opd o; o.t = 'm'; o.sz = 8; o.bt = "rip"; o.d = d; memobs(mode, o); }
    for (int r = 0; r < 1500; r++) {
      uint64_t x = rng.next();
      Opd o; o.t = 'm'; o.sz = sizes[x % 10]; o.sg = (x >> 4) % 3 == 0 ? int((x >> 6) % 7) : 0;
      const char* t = gpt[(x >> 10) % 3];
      if ((x >> 12) % 5) { o.bt = t; o.b = int((x >> 16) % 16); }
      if ((x >> 20) % 3) { o.it = (x >> 22) % 4 == 0 ? (const char*[]){"xmm", "ymm", "zmm"}[(x >> 24) % 3] : t; o.i = int((x >> 26) % (o.it[0] == 'g' ? 16 : 32)); o.sh = int((x >> 31) % 4); }
      std::vector<int64_t> dp = x86forms::disp_pool(int(1 << ((x >> 33) % 7)));
      o.d = dp[(x >> 36) % dp.size()];
      if (o.bt.empty()) o.d = int64_t(int32_t(o.d)) & 0x7FFFFFFF;
      if ((x >> 44) % 6 == 0 && o.sz >= 2 && o.sz <= 8) o.bc = 1 << (1 + (x >> 47) % 5);
      memobs(mode, o);
    }
  }
  // ---- immediates
  for (int bits : {8, 16, 32, 64}) for (int64_t v : x86forms::imm_pool(bits, "")) for (int rep = 0; rep < 4; rep++) {
    Opd o = x86forms::I(v); Operand_ op; x86forms::build_operand(o, op); x86_op_obs(out, 64, o, nextfl(), nullptr, op);
  }
  for (int64_t v = -3; v <= 17; v++) for (uint32_t fl : {0u, 0x20u}) { Opd o = x86forms::I(v); Operand_ op; x86forms::build_operand(o, op); x86_op_obs(out, 64, o, fl, nullptr, op); }
  // ---- labels (operand and memory base) through an assembler
  {
    XMode md; md.init(64);
    for (int kind = 0; kind < 5; kind++) for (int rep = 0; rep < 6; rep++) {
      LabelDesc d; Label L = make_label(*md.a, kind, d);
      uint32_t fl = nextfl();
      String sb; Formatter::format_operand(sb, FormatFlags(fl), md.a, Arch::kX64, L);
      vj::W w; w.beginObj().kv("a", "x86").kv("leg", "O").kv("f", 0).kv("n", "").kv("m", 64);
      w.key("ops").beginArr().beginObj().kv("t", "lb"); w.key("lb"); write_label(w, d); w.endObj().endArr();
      w.kv("k", 0).kv("z", 0).kv("er", -1).kv("sae", 0).kv("opt", 0).key("lbl").beginArr().endArr();
      w.kv("fl", (long long)fl).kv("tx", sb.data()); write_tokens(w, "tk", lex(std::string(sb.data(), sb.size()))); w.endObj(); w.emit(out);
      // [label + disp]
      int32_t disp = int32_t((rep - 2) * 24);
      x86::Mem m = x86::ptr(L, disp); m.set_size(rep % 2 ? 4 : 0);
      String sc; Formatter::format_operand(sc, FormatFlags(fl), md.a, Arch::kX64, m);
      vj::W v; v.beginObj().kv("a", "x86").kv("leg", "O").kv("f", 0).kv("n", "").kv("m", 64);
      v.key("ops").beginArr().beginObj().kv("t", "m").kv("sz", rep % 2 ? 4 : 0).kv("sg", 0).kv("bt", "lb").kv("b", 0).kv("it", "").kv("i", 0).kv("sh", 0).kv("bc", 0).kv("at", 0);
      x86forms::bytes8(v, "d", disp); v.kv("dv", std::to_string(disp)); v.key("lb"); write_label(v, d); v.endObj().endArr();
      v.kv("k", 0).kv("z", 0).kv("er", -1).kv("sae", 0).kv("opt", 0).key("lbl").beginArr().endArr();
      v.kv("fl", (long long)fl).kv("tx", sc.data()); write_tokens(v, "tk", lex(std::string(sc.data(), sc.size()))); v.endObj(); v.emit(out);
    }
  }
  // ---- Compiler virtual registers: named / unnamed, every type, used with their own type and through casts
  {
    CodeHolder code; code.init(Environment(Arch::kX64));
    x86::Compiler cc(&code);
    struct T { const char* c; TypeId tid; } types[] = {{"gpb", TypeId::kUInt8}, {"gpw", TypeId::kUInt16}, {"gpd", TypeId::kUInt32}, {"gpq", TypeId::kUInt64},
                                                       {"xmm", TypeId::kInt32x4}, {"ymm", TypeId::kInt32x8}, {"zmm", TypeId::kInt32x16}, {"k", TypeId::kMask64}, {"mm", TypeId::kMmx64}};
    int nv = 0;
    for (int round = 0; round < 6; round++)
      for (const T& t : types) {
        bool named = round % 2 == 1;
        std::string nm = named ? std::string("v") + t.c + std::to_string(round) + "_" + std::to_string(nv) : std::string();
        Reg r;
        if (t.c[0] == 'g') r = named ? cc.new_gp(t.tid, "%s", nm.c_str()) : cc.new_gp(t.tid);
        else if (t.c[0] == 'k') r = named ? cc.new_k(t.tid, "%s", nm.c_str()) : cc.new_k(t.tid);
        else if (t.c[0] == 'm') r = named ? (Reg)cc.new_mm("%s", nm.c_str()) : (Reg)cc.new_mm();
        else r = named ? cc.new_vec(t.tid, "%s", nm.c_str()) : cc.new_vec(t.tid);
        nv++;
        uint32_t ix = Operand::virt_id_to_index(r.id());
        // views of the virtual register: its own type and casts
        std::vector<std::pair<std::string, Reg>> views;
        views.push_back({t.c, r});
        if (t.c[0] == 'g') {
          x86::Gp g = r.as<x86::Gp>();
          views.push_back({"gpb", g.r8()}); views.push_back({"gph", g.r8_hi()}); views.push_back({"gpw", g.r16()}); views.push_back({"gpd", g.r32()}); views.push_back({"gpq", g.r64()});
        } else if (t.c[1] == 'm' && t.c[0] != 'm') {
          x86::Vec v = r.as<x86::Vec>();
          views.push_back({"xmm", v.xmm()}); views.push_back({"ymm", v.ymm()}); views.push_back({"zmm", v.zmm()});
        }
        for (auto& vw : views) for (uint32_t fl : {0u, 0x100u, 0x400u, 0x500u, nextfl()}) {
          String sb; Formatter::format_operand(sb, FormatFlags(fl), &cc, Arch::kX64, vw.second);
          vj::W w; w.beginObj().kv("a", "x86").kv("leg", "O").kv("f", 0).kv("n", "").kv("m", 64);
          w.key("ops").beginArr().beginObj().kv("t", "vr").kv("c", vw.first).kv("vc", t.c).kv("ix", (long long)ix).kv("nm", nm).endObj().endArr();
          w.kv("k", 0).kv("z", 0).kv("er", -1).kv("sae", 0).kv("opt", 0).key("lbl").beginArr().endArr();
          w.kv("fl", (long long)fl).kv("tx", sb.data()); write_tokens(w, "tk", lex(std::string(sb.data(), sb.size()))); w.endObj(); w.emit(out);
        }
        // the virtual register as base of a memory operand
        if (t.c[0] == 'g' && t.tid == TypeId::kUInt64) {
          x86::Mem m = x86::ptr(r.as<x86::Gp>(), 16 * round - 40); m.set_size(8);
          for (uint32_t fl : {0u, 0x40u, 0x400u}) {
            String sb; Formatter::format_operand(sb, FormatFlags(fl), &cc, Arch::kX64, m);
            vj::W w; w.beginObj().kv("a", "x86").kv("leg", "O").kv("f", 0).kv("n", "").kv("m", 64);
            w.key("ops").beginArr().beginObj().kv("t", "m").kv("sz", 8).kv("sg", 0).kv("bt", "vr").kv("b", 0).kv("it", "").kv("i", 0).kv("sh", 0).kv("bc", 0).kv("at", 0);
            x86forms::bytes8(w, "d", 16 * round - 40); w.kv("dv", std::to_string(16 * round - 40));
            w.key("vr").beginObj().kv("c", "gpq").kv("vc", "gpq").kv("ix", (long long)ix).kv("nm", nm).endObj();
            w.endObj().endArr();
            w.kv("k", 0).kv("z", 0).kv("er", -1).kv("sae", 0).kv("opt", 0).key("lbl").beginArr().endArr();
            w.kv("fl", (long long)fl).kv("tx", sb.data()); write_tokens(w, "tk", lex(std::string(sb.data(), sb.size()))); w.endObj(); w.emit(out);
          }
        }
      }
    // a whole instruction on virtual registers, formatted through the Compiler
    for (int round = 0; round < 40; round++) {
      x86::Gp a = round % 2 ? cc.new_gp32("acc%d", round) : cc.new_gp32();
      x86::Gp b = round % 3 ? cc.new_gp64("ptr%d", round) : cc.new_gp64();
      Operand_ ops[2] = {a, x86::dword_ptr(b, round * 4 - 60)};
      uint32_t fl = nextfl();
      String sb; Formatter::format_instruction(sb, FormatFlags(fl), &cc, Arch::kX64, BaseInst(x86::Inst::kIdAdd), Span<const Operand_>(ops, 2));
      auto vrj = [&](vj::W& w, const char* c, const x86::Gp& g, bool named, const char* fmt) {
        char nm[32] = ""; if (named) snprintf(nm, sizeof nm, fmt, round);
        w.kv("c", c).kv("vc", c).kv("ix", (long long)Operand::virt_id_to_index(g.id())).kv("nm", (const char*)nm);
      };
      vj::W w; w.beginObj().kv("a", "x86").kv("leg", "F").kv("f", 0).kv("n", "add").kv("m", 64);
      w.key("ops").beginArr();
      w.beginObj().kv("t", "vr"); vrj(w, "gpd", a, round % 2, "acc%d"); w.endObj();
      w.beginObj().kv("t", "m").kv("sz", 4).kv("sg", 0).kv("bt", "vr").kv("b", 0).kv("it", "").kv("i", 0).kv("sh", 0).kv("bc", 0).kv("at", 0);
      x86forms::bytes8(w, "d", round * 4 - 60); w.kv("dv", std::to_string(round * 4 - 60));
      w.key("vr").beginObj(); vrj(w, "gpq", b, round % 3, "ptr%d"); w.endObj(); w.endObj();
      w.endArr();
      w.kv("k", 0).kv("z", 0).kv("er", -1).kv("sae", 0).kv("opt", 0).key("lbl").beginArr().endArr();
      w.kv("fl", (long long)fl).kv("tx", sb.data()); write_tokens(w, "tk", lex(std::string(sb.data(), sb.size()))); w.endObj(); w.emit(out);
    }
  }
  fclose(out);
  return 0;
}

// ---------------------------------------------------------------------------------------------------------------
// AArch64
// ---------------------------------------------------------------------------------------------------------------
struct ErrH : public ErrorHandler { void handle_error(Error, const char*, BaseEmitter*) override {} };

struct AMode {
  Environment env{Arch::kAArch64}; CodeHolder code; ErrH eh; a64::Assembler* a = nullptr; StringLogger lg;
  void reset() { delete a; code.reset(); code.init(env, a64forms::kBase); code.set_error_handler(&eh); a = new a64::Assembler(&code); a->set_logger(&lg); }
};

static int cmd_a64(int argc, char** argv) {
  if (argc < 4) return 2;
  AMode md; md.reset();
  std::ifstream in(argv[2]);
  FILE* out = fopen(argv[3], "w");
  if (!in || !out) return 3;
  std::string line, rec;
  uint64_t ctr = 0, seed = vj::env_seed();
  long nf = 0, nl = 0, no = 0;
  while (std::getline(in, line)) {
    if (line.empty()) continue;
    vj::Value c = vj::parse(line);
    a64forms::Built bo;
    bool built = a64forms::build(c, bo);
    if (!built) continue;
    uint64_t h = mix(++ctr * 0x9E3779B97F4A7C15ull + seed);
    std::string head(line, 0, line.size() - 1);
    if (c.has("leg") && c["leg"].s() == "O") {
      uint32_t fl = flags_of(uint32_t(h >> 8) & 255);
      String sb; Formatter::format_operand(sb, FormatFlags(fl), md.a, Arch::kAArch64, bo.ops[0]);
      vj::W w; w.beginObj().kv("a", "a64").kv("fl", (long long)fl).kv("tx", sb.data()); write_tokens(w, "tk", lex(std::string(sb.data(), sb.size()))); w.endObj();
      fputs((head + "," + w.s.substr(1) + "\n").c_str(), out); no++;
      continue;
    }
    {
      uint32_t fl = flags_of(uint32_t(h >> 8) & 255);
      String sb; Formatter::format_instruction(sb, FormatFlags(fl), md.a, Arch::kAArch64, BaseInst(bo.inst_id), Span<const Operand_>(bo.ops, bo.n));
      vj::W w; w.beginObj().kv("a", "a64").kv("leg", "F").kv("fl", (long long)fl).kv("tx", sb.data()); write_tokens(w, "tk", lex(std::string(sb.data(), sb.size()))); w.endObj();
      fputs((head + "," + w.s.substr(1) + "\n").c_str(), out); nf++;
    }
    {
      uint32_t fl = flags_of(uint32_t(h >> 16) & 255);
      if ((h >> 24) % 4 != 0) fl |= 1;
      md.lg.set_flags(FormatFlags(fl)); vary_layout(md.lg, h >> 28);
      std::string ic; if ((h >> 40) % 5 == 0) { ic = "note " + std::to_string(h % 1000); md.a->set_inline_comment(ic.c_str()); }
      md.a->set_offset(0);
      md.lg.clear();
      size_t before = md.a->offset();
      Error e = md.a->emit_op_array(bo.inst_id, bo.ops, bo.n);
      size_t after = md.a->offset();
      md.a->reset_inline_comment();
      if (e == Error::kOk) {
        std::vector<std::string> lines = split_lines(md.lg.data(), md.lg.data_size());
        Line l = split_line(lines.empty() ? std::string() : lines[0], (fl & 1) != 0);
        vj::W w; w.beginObj().kv("a", "a64").kv("leg", "L").kv("fl", (long long)fl).kv("nl", (long long)lines.size()).kv("tx", l.raw);
        write_tokens(w, "tk", lex(l.text)); write_ints(w, "hx", hex_column(l.hex)); w.kv("ic", ic).kv("cm", l.comment);
        write_bytes(w, "b", md.a->buffer_data() + before, after - before); w.endObj();
        fputs((head + "," + w.s.substr(1) + "\n").c_str(), out); nl++;
      }
      md.lg.clear();
      if (md.code.reloc_entries().size() > 4096 || md.a->offset() > (1u << 20)) md.reset();
    }
  }
  fclose(out);
  fprintf(stderr, "fmtobs a64: %llu cases, F=%ld L=%ld O=%ld\n", (unsigned long long)ctr, nf, nl, no);
  return 0;
}

// AArch64 labels of every kind (branches, adr, literal loads) and Compiler virtual registers
static int cmd_a64x(int argc, char** argv) {
  if (argc < 3) return 2;
  FILE* out = fopen(argv[2], "w");
  if (!out) return 3;
  uint64_t ctr = 0;
  auto nextfl = [&]() { return flags_of(uint32_t(mix(++ctr + 77 + vj::env_seed()) & 255)); };
  AMode md; md.reset();
  // shape: 0 label | 1 Xt,label | 2 Xt,#bit,label | 3 Wt,label | 4 St/Dt/Qt,label (t = reg letter) | 5 b.<cond> label
  struct LI { const char* n; InstId id; int shape; const char* t; } li[] = {
    {"b", a64::Inst::kIdB, 0, ""}, {"bl", a64::Inst::kIdBl, 0, ""}, {"cbz", a64::Inst::kIdCbz, 1, ""}, {"cbnz", a64::Inst::kIdCbnz, 3, ""},
    {"adr", a64::Inst::kIdAdr, 1, ""}, {"adrp", a64::Inst::kIdAdrp, 1, ""}, {"tbz", a64::Inst::kIdTbz, 2, ""}, {"tbnz", a64::Inst::kIdTbnz, 2, ""},
    {"ldr", a64::Inst::kIdLdr, 1, ""}, {"ldr", a64::Inst::kIdLdr, 3, ""}, {"ldrsw", a64::Inst::kIdLdrsw, 1, ""},
    {"ldr", a64::Inst::kIdLdr_v, 4, "s"}, {"ldr", a64::Inst::kIdLdr_v, 4, "d"}, {"ldr", a64::Inst::kIdLdr_v, 4, "q"}, {"b", a64::Inst::kIdB, 5, ""}};
  Section* sec2 = nullptr; md.code.new_section(Out<Section*>(sec2), ".data2", SIZE_MAX, SectionFlags::kNone, 8);
  for (int kind = 0; kind < 5; kind++) for (const LI& x : li) for (int st = 0; st < 3; st++) {      // st: 0 unbound at emit time, 1 bound before, 2 bound in another section
    LabelDesc d; Label L = make_label(*md.a, kind, d);
    md.lg.clear();
    if (st == 1) { md.a->bind(L); md.a->nop(); }
    if (st == 2) { md.a->section(sec2); md.a->bind(L); md.a->embed(g_zeros, 8); md.a->section(md.code.text_section()); }
    int rid = int((ctr * 5 + 3) % 31), cc = int((ctr * 3 + kind) % 14);
    Operand_ ops[3]; size_t n = 0;
    InstId iid = x.id;
    if (x.shape == 1 || x.shape == 2) ops[n++] = a64::x(rid);
    if (x.shape == 3) ops[n++] = a64::w(rid);
    if (x.shape == 4) ops[n++] = x.t[0] == 's' ? a64::Vec::make_v32(rid) : x.t[0] == 'd' ? a64::Vec::make_v64(rid) : a64::Vec::make_v128(rid);
    if (x.shape == 2) ops[n++] = Imm(5 + kind * 7);
    if (x.shape == 5) { arm::CondCode c; a64forms::cond_by_name(a64forms::kCondNames[cc], c); iid = BaseInst::compose_arm_inst_id(iid, c); }
    bool lit = std::string(x.n).compare(0, 3, "ldr") == 0;           // literal loads take the label as a memory operand: ldr Xt, [label]
    if (lit) ops[n++] = a64::ptr(L); else ops[n++] = L;
    for (int leg = 0; leg < 2; leg++) {
      uint32_t fl = nextfl() | (leg ? 1u : 0u);
      vj::W w; w.beginObj().kv("n", x.n).kv("mn", x.n).key("o").beginArr();
      if (x.shape == 1 || x.shape == 2) w.beginObj().kv("k", "r").kv("t", "x").kv("id", rid).kv("sp", 0).endObj();
      if (x.shape == 3) w.beginObj().kv("k", "r").kv("t", "w").kv("id", rid).kv("sp", 0).endObj();
      if (x.shape == 4) w.beginObj().kv("k", "v").kv("t", x.t).kv("id", rid).kv("arr", "").kv("ei", -1).endObj();
      if (x.shape == 2) { w.beginObj().kv("k", "i").kv("v", 5 + kind * 7).kv("big", 0); w.wide("l", uint64_t(5 + kind * 7)); w.endObj(); }
      if (x.shape == 5) w.beginObj().kv("k", "cc").kv("c", cc).endObj();
      w.beginObj().kv("k", lit ? "ml" : "lb").key("lb"); write_label(w, d); w.endObj();
      w.endArr().kv("a", "a64").kv("leg", leg ? "L" : "F").kv("lst", st).kv("fl", (long long)fl);
      if (!leg) {
        String sb; Formatter::format_instruction(sb, FormatFlags(fl), md.a, Arch::kAArch64, BaseInst(iid), Span<const Operand_>(ops, n));
        w.kv("tx", sb.data()); write_tokens(w, "tk", lex(std::string(sb.data(), sb.size())));
      } else {
        md.lg.set_flags(FormatFlags(fl)); md.lg.clear();
        size_t before = md.a->offset(), rb = md.code.reloc_entries().size();
        Error e = md.a->emit_op_array(iid, ops, n);
        size_t after = md.a->offset();
        if (e != Error::kOk) continue;
        std::vector<std::string> lines = split_lines(md.lg.data(), md.lg.data_size());
        Line l = split_line(lines.empty() ? std::string() : lines[0], true);
        w.kv("nl", (long long)lines.size()).kv("tx", l.raw); write_tokens(w, "tk", lex(l.text)); write_ints(w, "hx", hex_column(l.hex)); w.kv("ic", "").kv("cm", l.comment);
        write_bytes(w, "b", md.a->buffer_data() + before, after - before);
        write_fx(w, collect_fx(md.code, md.code.text_section(), before, after, rb, std::vector<uint32_t>{L.id()}));
      }
      w.endObj(); w.emit(out);
    }
    if (st == 0) md.a->bind(L);
    ctr++;
  }
  // virtual registers
  {
    CodeHolder code; code.init(Environment(Arch::kAArch64));
    a64::Compiler cc(&code);
    for (int round = 0; round < 24; round++) {
      bool named = round % 2 == 1;
      a64::Gp gw = named ? cc.new_gp32("cnt%d", round) : cc.new_gp32();
      a64::Gp gx = named ? cc.new_gp64("adr%d", round) : cc.new_gp64();
      a64::Vec vq = named ? cc.new_vec128("vec%d", round) : cc.new_vec128();
      struct V { const char* t; const char* arr; int ei; Reg r; const char* fmt; } views[] = {
        {"w", "", -1, gw, "cnt%d"}, {"x", "", -1, gx, "adr%d"}, {"x", "", -1, gw.x(), "cnt%d"}, {"w", "", -1, gx.w(), "adr%d"},
        {"q", "", -1, vq, "vec%d"}, {"v", "4S", -1, vq.s4(), "vec%d"}, {"v", "16B", -1, vq.b16(), "vec%d"}, {"v", "S", round % 4, vq.s(uint32_t(round % 4)), "vec%d"},
        {"d", "", -1, vq.d(), "vec%d"}, {"s", "", -1, vq.s(), "vec%d"}};
      for (const V& v : views) {
        uint32_t fl = nextfl();
        String sb; Formatter::format_operand(sb, FormatFlags(fl), &cc, Arch::kAArch64, v.r);
        char nm[32] = ""; if (named) snprintf(nm, sizeof nm, v.fmt, round);
        vj::W w; w.beginObj().kv("n", "").kv("mn", "").kv("leg", "O").key("o").beginArr();
        w.beginObj().kv("k", "vr").kv("t", v.t).kv("arr", v.arr).kv("ei", v.ei).kv("ix", (long long)Operand::virt_id_to_index(v.r.id())).kv("nm", (const char*)nm).endObj();
        w.endArr().kv("a", "a64").kv("fl", (long long)fl).kv("tx", sb.data()); write_tokens(w, "tk", lex(std::string(sb.data(), sb.size()))); w.endObj(); w.emit(out);
      }
    }
  }
  fclose(out);
  return 0;
}

// ---------------------------------------------------------------------------------------------------------------
// logger transcripts
// ---------------------------------------------------------------------------------------------------------------
struct ProgLabel { Label L; LabelDesc d; bool bound = false; };

static void write_line(vj::W& w, const std::string& raw, bool mc) {
  Line l = split_line(raw, mc);
  w.beginObj().kv("tx", raw); write_tokens(w, "tk", lex(l.text)); write_ints(w, "hx", hex_column(l.hex)); w.kv("cm", l.comment).endObj();
}

static int cmd_prog(int argc, char** argv) {
  if (argc < 6) return 2;
  vj::Rng rng(vj::env_seed() * 31 + 5);
  vj::Rng rng2(vj::env_seed()); x86forms::g_gen.rng = &rng2; x86forms::g_gen.thorough = false;
  int nprog = atoi(argv[5]);
  FILE* out = fopen(argv[4], "w");
  if (!out) return 3;
  // pool of x86 requests (64-bit mode, reservoir sample of the sweep's instantiations) and of a64 cases
  std::vector<Inst> pool;
  {
    std::vector<x86forms::Form> forms = x86forms::load_forms(argv[2]);
    uint64_t seen = 0;
    for (const x86forms::Form& f : forms)
      x86forms::instantiate(f, 64, size_t(f.id), [&](Inst& in) {
        seen++;
        if (pool.size() < 6000) pool.push_back(in);
        else { uint64_t j = rng.below(seen); if (j < pool.size()) pool[j] = in; }
      });
  }
  std::vector<std::string> acases;
  { std::ifstream in(argv[3]); std::string l; while (std::getline(in, l)) if (!l.empty() && l.find("\"leg\":\"O\"") == std::string::npos) acases.push_back(l); }
  for (int pi = 0; pi < nprog; pi++) {
    bool isa64 = pi % 3 == 2 && !acases.empty();
    Environment env(isa64 ? Arch::kAArch64 : Arch::kX64);
    CodeHolder code; ErrH eh; code.init(env, isa64 ? a64forms::kBase : 0); code.set_error_handler(&eh);
    StringLogger lg;
    uint32_t fl = flags_of(uint32_t(rng.next() & 255)); if (rng.below(5)) fl |= 1;
    lg.set_flags(FormatFlags(fl)); vary_layout(lg, rng.next());
    x86::Assembler xa; a64::Assembler aa;
    BaseAssembler* a = isa64 ? static_cast<BaseAssembler*>(&aa) : static_cast<BaseAssembler*>(&xa);
    code.attach(a);
    if (!isa64) a->add_diagnostic_options(DiagnosticOptions::kValidateAssembler);
    a->set_logger(&lg);
    Section* sec2 = nullptr; code.new_section(Out<Section*>(sec2), ".data2", SIZE_MAX, SectionFlags::kNone, 8);
    std::vector<ProgLabel> labels;
    for (int k = 0; k < 6; k++) { ProgLabel pl; pl.L = make_label(*a, k % 5, pl.d); labels.push_back(pl); }
    vj::W w; w.beginObj().kv("a", isa64 ? "a64" : "x86").kv("m", 64).kv("pi", pi).kv("fl", (long long)fl).key("calls").beginArr();
    std::vector<std::string> lines;
    int ncalls = 20 + int(rng.below(41));
    auto take_lines = [&]() { for (const std::string& s : split_lines(lg.data(), lg.data_size())) lines.push_back(s); lg.clear(); };
    for (int ci = 0; ci < ncalls; ci++) {
      uint64_t r = rng.below(100);
      size_t l0 = lines.size();
      Section* cs = a->current_section();
      size_t before = a->offset();
      lg.clear();
      if (r < 62) {                                    // instruction
        Operand_ ops[8]; size_t n = 0; InstId id = 0; InstOptions io = InstOptions::kNone; int kreg = 0;
        std::vector<LabelDesc> lbl;
        std::string reqjson;
        bool ok = false;
        std::vector<uint32_t> lids;
        int imm_try = -1;                           // >= 0: the request is re-tried with narrower distinct-byte immediates until the assembler takes it
        Inst xin;
        std::map<size_t, LabelDesc> memlb;
        if (!isa64) {
          xin = pool[rng.below(pool.size())];
          if (rng.below(10) == 0) {                 // a jump / call to a program label (rel8 / rel32, bound or not, same or other section)
            static const char* J[] = {"jmp", "call", "jnz", "jb", "jecxz", "loop", "jmp", "jle"};
            Inst jn; jn.f = 0; jn.n = J[rng.below(8)]; jn.m = 64;
            Opd o; o.t = 'l'; jn.ops.push_back(o);
            if (rng.below(4) == 0 && jn.n[0] == 'j' && jn.n != "jecxz") jn.opt |= rng.below(2) ? x86forms::O_SHORT : x86forms::O_LONG;
            xin = jn;
          }
          id = InstAPI::string_to_inst_id(Arch::kX64, xin.n.c_str(), xin.n.size());
          if (id != BaseInst::kIdNone && xin.ops.size() <= 6) {
            n = xin.ops.size(); ok = true;
            bool has_m = false, has_i = false;
            for (const Opd& o : xin.ops) { if (o.t == 'm' && o.it.find("mm") == std::string::npos) has_m = true; if (o.t == 'i') has_i = true; }
            if (has_m && rng.below(3) == 0) {         // memory operand on a program label (bound, unbound or bound in the other section - whatever the program did so far)
              for (size_t j = 0; j < n; j++) if (xin.ops[j].t == 'm') {
                Opd m; m.t = 'm'; m.sz = xin.ops[j].sz; m.bc = xin.ops[j].bc; m.bt = "lb"; m.d = int64_t(rng.below(5)) * 8 - 8;
                xin.ops[j] = m;
                ProgLabel& pl = labels[rng.below(labels.size())];
                x86::Mem mm = x86::ptr(pl.L, int32_t(m.d)); mm.set_size(uint32_t(m.sz));
                if (m.bc) { int lg2 = 0; while ((1 << lg2) < m.bc) lg2++; mm.set_broadcast(x86::Mem::Broadcast(lg2)); }
                ops[j] = mm; memlb[j] = pl.d; lids.push_back(pl.L.id());
                break;
              }
              xin.opt &= ~uint32_t(x86forms::O_LOCK | x86forms::O_XACQ | x86forms::O_XREL | x86forms::O_MODMR | x86forms::O_MODRM);
              if (has_i) imm_try = 0;
            }
            for (size_t j = 0; j < n; j++) {
              if (memlb.count(j)) continue;
              if (!x86forms::build_operand(xin.ops[j], ops[j])) { ProgLabel& pl = labels[rng.below(labels.size())]; ops[j] = pl.L; lbl.push_back(pl.d); lids.push_back(pl.L.id()); }
            }
            io = x86forms::inst_options(xin); kreg = xin.k;
          }
        } else if (rng.below(5) == 0) {             // a reference to a program label
          ProgLabel& pl = labels[rng.below(labels.size())];
          static const struct { const char* n; InstId id; int shape; } LI[] = {{"b", a64::Inst::kIdB, 0}, {"cbz", a64::Inst::kIdCbz, 1}, {"adr", a64::Inst::kIdAdr, 1},
                                                                              {"ldr", a64::Inst::kIdLdr, 1}, {"tbz", a64::Inst::kIdTbz, 2}, {"bl", a64::Inst::kIdBl, 0}};
          const auto& x = LI[rng.below(6)];
          int rid = int(rng.below(31)), bit = int(rng.below(64));
          id = x.id;
          if (x.shape >= 1) ops[n++] = a64::x(rid);
          if (x.shape == 2) ops[n++] = Imm(bit);
          bool lit = x.id == a64::Inst::kIdLdr;
          if (lit) ops[n++] = a64::ptr(pl.L); else ops[n++] = pl.L;
          lbl.push_back(pl.d); lids.push_back(pl.L.id()); ok = true;
          vj::W q; q.beginObj().kv("n", x.n).kv("mn", x.n).key("o").beginArr();
          if (x.shape >= 1) q.beginObj().kv("k", "r").kv("t", "x").kv("id", rid).kv("sp", 0).endObj();
          if (x.shape == 2) { q.beginObj().kv("k", "i").kv("v", bit).kv("big", 0); q.wide("l", uint64_t(bit)); q.endObj(); }
          q.beginObj().kv("k", lit ? "ml" : "lb").key("lb"); write_label(q, pl.d); q.endObj().endArr().endObj();
          reqjson = q.s.substr(1, q.s.size() - 2);
        } else {
          const std::string& cl = acases[rng.below(acases.size())];
          vj::Value c = vj::parse(cl); a64forms::Built bo;
          if (a64forms::build(c, bo)) { ok = true; id = bo.inst_id; n = bo.n; for (size_t j = 0; j < n; j++) ops[j] = bo.ops[j]; reqjson = cl.substr(1, cl.size() - 2); }
        }
        if (!ok) { ci--; continue; }
        std::string ic; if (rng.below(6) == 0) { ic = "why " + std::to_string(rng.below(1000)); a->set_inline_comment(ic.c_str()); }
        size_t rb = code.reloc_entries().size();
        Error e = Error::kOk;
        for (;;) {
          if (imm_try >= 0) {
            static const int64_t cand[] = {0x7766554433221108ll, 0x44332211, 0x3322, 0x7A};
            for (size_t j = 0; j < n; j++) if (xin.ops[j].t == 'i') { xin.ops[j].v = cand[imm_try]; ops[j] = Imm(cand[imm_try]); }
          }
          if (!isa64) { a->set_inst_options(io); if (kreg) a->set_extra_reg(x86::k(kreg)); else a->reset_extra_reg(); }
          if (!ic.empty()) a->set_inline_comment(ic.c_str());
          lg.clear();
          e = a->emit_op_array(id, ops, n);
          a->reset_inst_options(); a->reset_extra_reg(); a->reset_inline_comment();
          if (e == Error::kOk || imm_try < 0 || imm_try >= 3) break;
          imm_try++;
        }
        size_t after = a->offset();
        if (e != Error::kOk) { lg.clear(); ci--; continue; }
        if (!isa64) { vj::W q; q.beginObj(); x86_write_request(q, xin, memlb); q.endObj(); reqjson = q.s.substr(1, q.s.size() - 2); }
        take_lines();
        w.beginObj().kv("c", "inst"); w.s += "," + reqjson; w.first = false;
        w.key("lbl").beginArr(); for (const LabelDesc& d : lbl) write_label(w, d); w.endArr();
        w.kv("ic", ic).kv("sec", (long long)cs->section_id()).kv("off", (long long)before);
        write_bytes(w, "b", cs->buffer().data() + before, after - before);
        write_fx(w, collect_fx(code, cs, before, after, rb, lids));
      } else if (r < 72) {                            // bind
        ProgLabel* pl = nullptr;
        for (ProgLabel& x : labels) if (!x.bound && rng.below(2)) { pl = &x; break; }
        if (!pl) { labels.emplace_back(); pl = &labels.back(); pl->L = make_label(*a, int(rng.below(5)), pl->d); }
        std::string ic; if (rng.below(4) == 0) { ic = "lbl " + std::to_string(rng.below(100)); a->set_inline_comment(ic.c_str()); }
        Error e = a->bind(pl->L); a->reset_inline_comment();
        if (e != Error::kOk) { lg.clear(); ci--; continue; }
        pl->bound = true; take_lines();
        w.beginObj().kv("c", "bind").key("lb"); write_label(w, pl->d);
        w.kv("ic", ic).kv("sec", (long long)cs->section_id()).kv("off", (long long)before);
      } else if (r < 79) {                            // align
        AlignMode am = AlignMode(rng.below(3)); uint32_t al = 1u << rng.below(6);
        Error e = a->align(am, al);
        if (e != Error::kOk) { lg.clear(); ci--; continue; }
        size_t after = a->offset(); take_lines();
        w.beginObj().kv("c", "align").kv("mode", int(am)).kv("n", (long long)al).kv("sec", (long long)cs->section_id()).kv("off", (long long)before);
        write_bytes(w, "b", cs->buffer().data() + before, after - before);
      } else if (r < 88) {                            // embed
        uint8_t data[16]; size_t ts = size_t(1) << rng.below(4); size_t cnt = 1 + rng.below(16 / ts);
        for (uint8_t& x : data) x = uint8_t(rng.next());
        Error e;
        static const TypeId tids[4] = {TypeId::kUInt8, TypeId::kUInt16, TypeId::kUInt32, TypeId::kUInt64};
        int api = int(rng.below(2));
        if (ts == 1 && api == 0) e = a->embed(data, cnt); else e = a->embed_data_array(tids[ts == 1 ? 0 : ts == 2 ? 1 : ts == 4 ? 2 : 3], data, cnt, 1);
        if (e != Error::kOk) { lg.clear(); ci--; continue; }
        size_t after = a->offset(); take_lines();
        w.beginObj().kv("c", "embed").kv("ts", (long long)ts).kv("sec", (long long)cs->section_id()).kv("off", (long long)before);
        write_bytes(w, "b", cs->buffer().data() + before, after - before);
      } else if (r < 91) {                            // embedded label address / label delta
        ProgLabel& pl = labels[rng.below(labels.size())];
        bool delta = rng.below(2) == 0;
        size_t ts = delta ? (size_t(1) << (1 + rng.below(3))) : (isa64 || rng.below(2) ? 8 : 4);
        ProgLabel& bs = labels[rng.below(labels.size())];
        Error e = delta ? a->embed_label_delta(pl.L, bs.L, ts) : a->embed_label(pl.L, ts);
        if (e != Error::kOk) { lg.clear(); ci--; continue; }
        size_t after = a->offset(); take_lines();
        w.beginObj().kv("c", delta ? "edelta" : "elabel").kv("ts", (long long)ts).key("lb"); write_label(w, pl.d);
        if (delta) { w.key("lb2"); write_label(w, bs.d); }
        w.kv("sec", (long long)cs->section_id()).kv("off", (long long)before);
        write_bytes(w, "b", cs->buffer().data() + before, after - before);
      } else if (r < 95) {                            // comment
        std::string txt = "step " + std::to_string(ci) + " of prog_" + std::to_string(pi) + " x" + std::to_string(rng.below(4096));
        a->comment(txt.c_str()); take_lines();
        w.beginObj().kv("c", "comment").kv("s", txt); write_tokens(w, "ctk", lex(txt));
      } else {                                        // section switch
        Section* t = cs == code.text_section() ? sec2 : code.text_section();
        a->section(t); take_lines();
        w.beginObj().kv("c", "section").kv("name", t->name()).kv("sid", (long long)t->section_id()); write_tokens(w, "ntk", lex(std::string(t->name())));
      }
      w.kv("l0", (long long)l0).kv("l1", (long long)lines.size()).endObj();
    }
    w.endArr();
    w.key("lines").beginArr(); for (const std::string& s : lines) write_line(w, s, (fl & 1) != 0); w.endArr();
    // final buffers (after fixups were resolved as far as labels were bound): per section
    w.key("secs").beginArr();
    for (Section* s : code.sections()) { w.beginObj().kv("sid", (long long)s->section_id()).kv("size", (long long)s->buffer().size()).endObj(); }
    w.endArr();
    w.endObj(); w.emit(out);
    code.detach(a);
  }
  fclose(out);
  return 0;
}

int main(int argc, char** argv) {
  if (argc < 2) { fprintf(stderr, "usage: fmtobs x86|x86ops|a64|a64x|prog|replay ...\n"); return 2; }
  std::string cmd = argv[1];
  if (cmd == "x86") return cmd_x86(argc, argv);
  if (cmd == "x86ops") return cmd_x86ops(argc, argv);
  if (cmd == "a64") return cmd_a64(argc, argv);
  if (cmd == "a64x") return cmd_a64x(argc, argv);
  if (cmd == "prog") return cmd_prog(argc, argv);
  if (cmd == "replay") return cmd_replay(argc, argv);
  fprintf(stderr, "unknown command %s\n", cmd.c_str());
  return 2;
}
