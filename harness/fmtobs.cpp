// C20 harness: what does asmjit's Formatter / Logger print for an instruction, and which bytes were appended?
//
//   fmtobs x86    <forms.ndjson> <out.ndjson> <quick|thorough> <stride> [<shard> <nshards>]
//                 the C01 sweep instantiations (lib_x86forms.h), 32- and 64-bit; a pseudo-random 1/stride sample of them
//                 leg F  Formatter::format_instruction(flags, assembler, arch, BaseInst(id, options, extra reg), operands)
//                 leg L  the same request emitted on an x86::Assembler with a StringLogger attached: logged line + bytes appended
//   fmtobs x86ops <out.ndjson>                 leg O: Formatter::format_operand on every register of every class, a memory grid,
//                                              immediates, labels of every kind, Compiler virtual registers (named / unnamed / casts)
//   fmtobs a64    <cases.ndjson> <out.ndjson>  cases as produced by checks/c02.py (Gen) / checks/c20.py; every input line is written
//                                              back with leg F (and leg L when the assembler accepted it); "leg":"O" cases = format_operand
//   fmtobs a64x   <out.ndjson>                 AArch64 labels (every kind) and Compiler virtual registers
//   fmtobs prog   <forms.ndjson> <a64cases.ndjson> <out.ndjson> <nprog>
//                                              logger transcripts: random programs of 20..60 emitter calls (instructions, labels, align,
//                                              embed, comments, sections); calls + logged lines (one record per program)
//   fmtobs replay <in.ndjson> <out.ndjson>     re-executes recorded x86 F/L observations on the current tree
//
// The harness formats / emits / records; it judges nothing.  Text is turned into tokens by a GENERIC lexer: words ([A-Za-z0-9_]+,
// lower-cased), numbers (decimal or 0x-hex words; magnitude m and its two's complement negation n as four 16-bit limbs), every other
// non-blank character as a one-character token.  It knows no mnemonic, no register name and no keyword.  A logged line is cut at the
// first ';' (machine-code column / comment separator of EmitterUtils::finish_formatted_line) and the column at '|'; the column is
// read as pairs of characters: two hex digits = a byte, ".." = -1 (masked relocation), anything else = -2.
#include "lib_x86forms.h"
#include "lib_a64forms.h"
#include <asmjit/core/formatter.h>
#include <asmjit/core/logger.h>
#include <fstream>
#include <map>

using namespace asmjit;

// ---------------------------------------------------------------------------------------------------------------
// generic lexer
// ---------------------------------------------------------------------------------------------------------------
struct Tok { bool num = false; std::string s; uint64_t m = 0; };

static void lex(const char* p, size_t n, std::vector<Tok>& out) {
  size_t i = 0;
  while (i < n) {
    unsigned char c = (unsigned char)p[i];
    if (c == ' ' || c == '\t' || c == '\r' || c == '\n') { i++; continue; }
    if (isalnum(c) || c == '_') {
      size_t j = i;
      while (j < n && (isalnum((unsigned char)p[j]) || p[j] == '_')) j++;
      std::string w(p + i, j - i);
      for (char& ch : w) ch = char(tolower((unsigned char)ch));
      Tok t;
      if (isdigit(c)) {
        bool dec = true, hex = w.size() > 2 && w[0] == '0' && w[1] == 'x' && w.size() <= 18;
        for (char ch : w) if (!isdigit((unsigned char)ch)) dec = false;
        if (hex) for (size_t k = 2; k < w.size(); k++) if (!isxdigit((unsigned char)w[k])) hex = false;
        if (hex) { t.num = true; t.m = strtoull(w.c_str() + 2, nullptr, 16); }
        else if (dec) {
          unsigned __int128 v = 0; bool ovf = false;
          for (char ch : w) { v = v * 10 + unsigned(ch - '0'); if (v >> 64) { ovf = true; break; } }
          if (!ovf) { t.num = true; t.m = uint64_t(v); } else t.s = w;
        } else t.s = w;
      } else t.s = w;
      out.push_back(t);
      i = j;
      continue;
    }
    Tok t; t.s = std::string(1, char(c)); out.push_back(t); i++;
  }
}
static std::vector<Tok> lex(const std::string& s) { std::vector<Tok> t; lex(s.data(), s.size(), t); return t; }

static void write_tokens(vj::W& w, const char* key, const std::vector<Tok>& t) {
  w.key(key).beginArr();
  for (const Tok& x : t) {
    w.beginObj();
    if (x.num) { w.kv("s", "<num>"); w.wide("m", x.m); w.wide("n", uint64_t(0) - x.m); }
    else w.kv("s", x.s);
    w.endObj();
  }
  w.endArr();
}

static std::string trim(const std::string& s) {
  size_t a = 0, b = s.size();
  while (a < b && isspace((unsigned char)s[a])) a++;
  while (b > a && isspace((unsigned char)s[b - 1])) b--;
  return s.substr(a, b - a);
}

struct Line { std::string raw, text, hex, comment; };

// cut of one logged line (without the newline): text ; machine code | comment     or     text ; comment   (no machine-code flag)
static Line split_line(const std::string& raw, bool machine_code) {
  Line l; l.raw = raw;
  size_t p = raw.find(';');
  if (p == std::string::npos) { l.text = raw; return l; }
  l.text = raw.substr(0, p);
  std::string rest = raw.substr(p + 1);
  if (!machine_code) { l.comment = trim(rest); return l; }
  size_t q = rest.find('|');
  if (q == std::string::npos) l.hex = trim(rest);
  else { l.hex = trim(rest.substr(0, q)); l.comment = trim(rest.substr(q + 1)); }
  return l;
}

static std::vector<int> hex_column(const std::string& h) {
  std::vector<int> v;
  auto hv = [](char c) { return c >= '0' && c <= '9' ? c - '0' : c >= 'a' && c <= 'f' ? c - 'a' + 10 : c >= 'A' && c <= 'F' ? c - 'A' + 10 : -1; };
  for (size_t i = 0; i < h.size(); i += 2) {
    if (i + 1 >= h.size()) { v.push_back(-2); break; }
    if (h[i] == '.' && h[i + 1] == '.') v.push_back(-1);
    else if (hv(h[i]) >= 0 && hv(h[i + 1]) >= 0) v.push_back(hv(h[i]) * 16 + hv(h[i + 1]));
    else v.push_back(-2);
  }
  return v;
}

static std::vector<std::string> split_lines(const char* d, size_t n) {
  std::vector<std::string> r; std::string cur;
  for (size_t i = 0; i < n; i++) { if (d[i] == '\n') { r.push_back(cur); cur.clear(); } else cur += d[i]; }
  if (!cur.empty()) r.push_back(cur);
  return r;
}

static void write_ints(vj::W& w, const char* k, const std::vector<int>& v) { w.key(k).beginArr(); for (int x : v) w.val(x); w.endArr(); }
static void write_bytes(vj::W& w, const char* k, const uint8_t* p, size_t n) { w.key(k).beginArr(); for (size_t i = 0; i < n; i++) w.val(int(p[i])); w.endArr(); }

// the 8 FormatFlags bits; combo c in 0..255 selects a subset
static const uint32_t kFlagBits[8] = {0x1, 0x8, 0x10, 0x20, 0x40, 0x100, 0x200, 0x400};
static uint32_t flags_of(uint32_t c) { uint32_t f = 0; for (int j = 0; j < 8; j++) if (c >> j & 1) f |= kFlagBits[j]; return f; }
static uint64_t mix(uint64_t x) { x ^= x >> 33; x *= 0xff51afd7ed558ccdull; x ^= x >> 33; x *= 0xc4ceb9fe1a85ec53ull; x ^= x >> 33; return x; }

static void vary_layout(StringLogger& lg, uint64_t h) {      // indentation / padding are syntax: vary them, the lexer ignores blanks
  lg.set_indentation(FormatIndentationGroup::kCode, uint32_t(h % 5));
  lg.set_indentation(FormatIndentationGroup::kLabel, uint32_t((h >> 3) % 3));
  lg.set_padding(FormatPaddingGroup::kRegularLine, (h >> 8) % 3 == 0 ? 0 : uint32_t(20 + (h >> 10) % 60));
  lg.set_padding(FormatPaddingGroup::kMachineCode, (h >> 16) % 3 == 0 ? 0 : uint32_t(10 + (h >> 18) % 40));
}

// ---------------------------------------------------------------------------------------------------------------
// labels of every kind
// ---------------------------------------------------------------------------------------------------------------
struct LabelDesc { uint32_t id = 0; int kind = 0; std::string nm, pnm; uint32_t pid = 0; };
static uint64_t g_name_ctr = 0;

// kind 0 anonymous, 1 named global, 2 local with named parent, 3 local with anonymous parent, 4 anonymous with a name
static Label make_label(BaseEmitter& e, int kind, LabelDesc& d) {
  d.kind = kind;
  uint64_t n = ++g_name_ctr;
  Label L;
  if (kind == 0) L = e.new_label();
  else if (kind == 1) { d.nm = "glb_" + std::to_string(n); L = e.new_named_label(d.nm.c_str()); }
  else if (kind == 2 || kind == 3) {
    Label P;
    if (kind == 2) { d.pnm = "par" + std::to_string(n); P = e.new_named_label(d.pnm.c_str()); } else P = e.new_label();
    d.pid = P.id();
    d.nm = "loc_" + std::to_string(n);
    L = e.new_named_label(d.nm.c_str(), SIZE_MAX, LabelType::kLocal, P.id());
  } else { d.nm = "an" + std::to_string(n) + "x"; L = e.new_anonymous_label(d.nm.c_str()); }
  d.id = L.id();
  return L;
}
static void write_label(vj::W& w, const LabelDesc& d) {
  w.beginObj().kv("id", (long long)d.id).kv("kind", d.kind).kv("nm", d.nm).kv("pid", (long long)d.pid).kv("pnm", d.pnm).endObj();
}

// ---------------------------------------------------------------------------------------------------------------
// x86
// ---------------------------------------------------------------------------------------------------------------
using x86forms::Inst; using x86forms::Opd;

struct XMode {
  int bits = 64; Environment env; CodeHolder code; x86::Assembler* a = nullptr; StringLogger lg;
  void init(int b) { bits = b; env = Environment(b == 64 ? Arch::kX64 : Arch::kX86); reset(); }
  void reset() {
    delete a; code.reset(); code.init(env);
    a = new x86::Assembler(&code);
    a->add_diagnostic_options(DiagnosticOptions::kValidateAssembler);
    a->set_logger(&lg);
  }
};

static const uint8_t g_zeros[256] = {0};
static long g_f = 0, g_l = 0;

static void x86_begin(vj::W& w, const Inst& in, const char* leg, uint32_t fl, const std::vector<LabelDesc>& lbl) {
  w.beginObj().kv("a", "x86").kv("leg", leg);
  x86forms::write_request(w, in);
  w.key("lbl").beginArr(); for (const LabelDesc& d : lbl) write_label(w, d); w.endArr();
  w.kv("fl", (long long)fl);
}

// one request: leg F, then leg L (when accepted)
static void x86_case(XMode& md, Inst in, FILE* out, uint64_t h, bool with_comment) {
  x86::Assembler& a = *md.a;
  InstId id = InstAPI::string_to_inst_id(md.env.arch(), in.n.c_str(), in.n.size());
  if (id == BaseInst::kIdNone || in.ops.size() > 6) return;
  if (md.code.text_section()->buffer().size() > (8u << 20) || md.code.label_count() > 200000) md.reset();
  Operand_ ops[6]; size_t n = in.ops.size();
  std::vector<LabelDesc> lbl; Label fwd; bool has_fwd = false;
  int kind = int(h % 5);
  for (size_t j = 0; j < n; j++) {
    Opd& o = in.ops[j];
    if (!x86forms::build_operand(o, ops[j])) {
      LabelDesc d; Label L = make_label(*md.a, (kind + int(j)) % 5, d);
      if (o.fwd) { fwd = L; has_fwd = true; }
      else { a.bind(L); int pad = o.pad % 140; if (pad) a.embed(g_zeros, size_t(pad)); }
      ops[j] = L; lbl.push_back(d);
    }
  }
  InstOptions io = x86forms::inst_options(in);
  RegOnly extra; extra.reset();
  if (in.k) extra.init(x86::k(in.k));
  // ---- leg F
  {
    uint32_t fl = flags_of(uint32_t(h >> 8) & 255);
    String sb;
    Formatter::format_instruction(sb, FormatFlags(fl), md.a, md.env.arch(), BaseInst(id, io, extra), Span<const Operand_>(ops, n));
    vj::W w; x86_begin(w, in, "F", fl, lbl);
    w.kv("tx", sb.data());
    write_tokens(w, "tk", lex(std::string(sb.data(), sb.size())));
    w.endObj(); w.emit(out); g_f++;
  }
  // ---- leg L
  {
    uint32_t fl = flags_of(uint32_t(h >> 16) & 255);
    if ((h >> 24) % 4 != 0) fl |= 1;
    md.lg.set_flags(FormatFlags(fl));
    vary_layout(md.lg, h >> 28);
    std::string ic;
    if (with_comment) { ic = "note " + std::to_string(h % 1000) + " r" + std::to_string((h >> 5) % 97); a.set_inline_comment(ic.c_str()); }
    a.set_inst_options(io);
    if (in.k) a.set_extra_reg(x86::k(in.k)); else a.reset_extra_reg();
    md.lg.clear();
    size_t before = a.offset();
    Error e = a.emit_op_array(id, ops, n);
    size_t after = a.offset();
    a.reset_inst_options(); a.reset_extra_reg(); a.reset_inline_comment();
    if (e == Error::kOk) {
      std::vector<std::string> lines = split_lines(md.lg.data(), md.lg.data_size());
      vj::W w; x86_begin(w, in, "L", fl, lbl);
      w.kv("nl", (long long)lines.size());
      Line l = split_line(lines.empty() ? std::string() : lines[0], (fl & 1) != 0);
      w.kv("tx", l.raw);
      write_tokens(w, "tk", lex(l.text));
      write_ints(w, "hx", hex_column(l.hex));
      w.kv("ic", ic).kv("cm", l.comment);
      write_bytes(w, "b", md.code.text_section()->buffer().data() + before, after - before);
      w.endObj(); w.emit(out); g_l++;
    }
    md.lg.clear();
  }
  if (has_fwd) a.bind(fwd);
  md.lg.clear();
}

static int cmd_x86(int argc, char** argv) {
  if (argc < 6) return 2;
  vj::Rng rng(vj::env_seed());
  x86forms::g_gen.rng = &rng;
  x86forms::g_gen.thorough = std::string(argv[4]) == "thorough";
  unsigned stride = unsigned(atoi(argv[5])); if (!stride) stride = 1;
  int shard = argc > 7 ? atoi(argv[6]) : 0, nshards = argc > 7 ? atoi(argv[7]) : 1;
  XMode m32, m64; m32.init(32); m64.init(64);
  std::vector<x86forms::Form> forms = x86forms::load_forms(argv[2]);
  FILE* out = fopen(argv[3], "w");
  if (!out) return 3;
  uint64_t ctr = 0, seed = vj::env_seed();
  for (const x86forms::Form& f : forms) {
    if (f.id % nshards != shard) continue;
    size_t rot = size_t(seed * 7 + f.id);
    for (int pass = 0; pass < 2; pass++) {
      XMode& md = pass == 0 ? m64 : m32;
      x86forms::instantiate(f, md.bits, rot + (pass ? 3 : 0), [&](Inst& in) {
        uint64_t h = mix(++ctr * 0x9E3779B97F4A7C15ull + seed + uint64_t(f.id) * 1315423911ull);
        if (h % stride != 0) return;
        h = mix(h);
        x86_case(md, in, out, h, (h >> 40) % 5 == 0);
      });
    }
  }
  fclose(out);
  fprintf(stderr, "fmtobs x86: %llu instantiations, F=%ld L=%ld\n", (unsigned long long)ctr, g_f, g_l);
  return 0;
}

// replay of recorded x86 F / L observations (physical registers; labels are re-created with the recorded kinds)
static int cmd_replay(int argc, char** argv) {
  if (argc < 4) return 2;
  vj::Rng rng(vj::env_seed()); x86forms::g_gen.rng = &rng;
  FILE* out = fopen(argv[3], "w");
  if (!out) return 3;
  XMode m32, m64; m32.init(32); m64.init(64);
  for (const vj::Value& v : vj::read_ndjson(argv[2])) {
    if (!v.has("a") || v["a"].s() != "x86" || !v.has("f")) continue;
    std::string leg = v["leg"].s();
    if (leg != "F" && leg != "L") continue;
    Inst in = x86forms::read_request(v);
    XMode& md = in.m == 64 ? m64 : m32;
    x86::Assembler& a = *md.a;
    InstId id = InstAPI::string_to_inst_id(md.env.arch(), in.n.c_str(), in.n.size());
    if (id == BaseInst::kIdNone) continue;
    Operand_ ops[6]; size_t n = in.ops.size(), li = 0;
    std::vector<LabelDesc> lbl; Label fwd; bool has_fwd = false;
    for (size_t j = 0; j < n && j < 6; j++) {
      Opd& o = in.ops[j];
      if (!x86forms::build_operand(o, ops[j])) {
        int kind = v.has("lbl") && li < v["lbl"].size() ? int(v["lbl"][li]["kind"].i()) : 0; li++;
        LabelDesc d; Label L = make_label(a, kind, d);
        if (o.fwd) { fwd = L; has_fwd = true; } else { a.bind(L); int pad = o.pad % 140; if (pad) a.embed(g_zeros, size_t(pad)); }
        ops[j] = L; lbl.push_back(d);
      }
    }
    InstOptions io = x86forms::inst_options(in);
    RegOnly extra; extra.reset(); if (in.k) extra.init(x86::k(in.k));
    uint32_t fl = uint32_t(v["fl"].i());
    if (leg == "F") {
      String sb;
      Formatter::format_instruction(sb, FormatFlags(fl), md.a, md.env.arch(), BaseInst(id, io, extra), Span<const Operand_>(ops, n));
      vj::W w; x86_begin(w, in, "F", fl, lbl);
      w.kv("tx", sb.data()); write_tokens(w, "tk", lex(std::string(sb.data(), sb.size())));
      w.endObj(); w.emit(out);
    } else {
      md.lg.set_flags(FormatFlags(fl));
      std::string ic = v.has("ic") ? v["ic"].s() : std::string();
      if (!ic.empty()) a.set_inline_comment(ic.c_str());
      a.set_inst_options(io);
      if (in.k) a.set_extra_reg(x86::k(in.k)); else a.reset_extra_reg();
      md.lg.clear();
      size_t before = a.offset();
      Error e = a.emit_op_array(id, ops, n);
      size_t after = a.offset();
      a.reset_inst_options(); a.reset_extra_reg(); a.reset_inline_comment();
      if (e == Error::kOk) {
        std::vector<std::string> lines = split_lines(md.lg.data(), md.lg.data_size());
        vj::W w; x86_begin(w, in, "L", fl, lbl);
        w.kv("nl", (long long)lines.size());
        Line l = split_line(lines.empty() ? std::string() : lines[0], (fl & 1) != 0);
        w.kv("tx", l.raw); write_tokens(w, "tk", lex(l.text)); write_ints(w, "hx", hex_column(l.hex));
        w.kv("ic", ic).kv("cm", l.comment);
        write_bytes(w, "b", md.code.text_section()->buffer().data() + before, after - before);
        w.endObj(); w.emit(out);
      }
    }
    if (has_fwd) a.bind(fwd);
    md.lg.clear();
  }
  fclose(out);
  return 0;
}

// ---------------------------------------------------------------------------------------------------------------
// x86 leg O: format_operand
// ---------------------------------------------------------------------------------------------------------------
static void x86_op_obs(FILE* out, int mode, const Opd& o, uint32_t fl, const BaseEmitter* em, const Operand_& op, const char* extra_json = nullptr) {
  Inst in; in.f = 0; in.n = ""; in.m = mode; in.ops.push_back(o);
  String sb;
  Formatter::format_operand(sb, FormatFlags(fl), em, mode == 64 ? Arch::kX64 : Arch::kX86, op);
  vj::W w; w.beginObj().kv("a", "x86").kv("leg", "O");
  x86forms::write_request(w, in);
  w.key("lbl").beginArr().endArr();
  w.kv("fl", (long long)fl).kv("tx", sb.data());
  write_tokens(w, "tk", lex(std::string(sb.data(), sb.size())));
  w.endObj();
  if (extra_json) { w.s.pop_back(); w.s += extra_json; w.s += "}"; }
  w.emit(out);
}

struct VrInfo { std::string c; TypeId tid; };

static int cmd_x86ops(int argc, char** argv) {
  if (argc < 3) return 2;
  FILE* out = fopen(argv[2], "w");
  if (!out) return 3;
  vj::Rng rng(vj::env_seed()); x86forms::g_gen.rng = &rng;
  uint64_t ctr = 0;
  auto nextfl = [&]() { return flags_of(uint32_t(mix(++ctr + vj::env_seed()) & 255)); };
  // ---- every register of every class
  struct C { const char* c; int n; } classes[] = {{"gpb", 16}, {"gph", 4}, {"gpw", 16}, {"gpd", 16}, {"gpq", 16}, {"xmm", 32}, {"ymm", 32}, {"zmm", 32},
                                                  {"mm", 8}, {"k", 8}, {"sreg", 6}, {"creg", 16}, {"dreg", 16}, {"st", 8}, {"bnd", 4}, {"tmm", 8}};
  for (int mode : {64, 32})
    for (const C& c : classes)
      for (int id = 0; id < c.n; id++)
        for (int rep = 0; rep < 3; rep++) {
          Opd o = x86forms::R(c.c, id); Operand_ op;
          x86forms::build_operand(o, op);
          x86_op_obs(out, mode, o, nextfl(), nullptr, op);
        }
  // ---- memory: systematic rows, then random rows
  const char* gpt[] = {"gpq", "gpd", "gpw"};
  const int sizes[] = {0, 1, 2, 4, 6, 8, 10, 16, 32, 64, 3, 28, 512};
  auto memobs = [&](int mode, Opd o) { Operand_ op; x86forms::build_operand(o, op); x86_op_obs(out, mode, o, nextfl(), nullptr, op); };
  for (int mode : {64, 32}) {
    for (const char* t : gpt) for (int id = 0; id < 16; id++) {            // every base register, every index register
      Opd o; o.t = 'm'; o.sz = sizes[(id + 1) % 10]; o.bt = t; o.b = id; memobs(mode, o);
      Opd p; p.t = 'm'; p.sz = 4; p.bt = t; p.b = (id * 7 + 3) % 16; p.it = t; p.i = id; p.sh = id % 4; p.d = (id % 3 - 1) * (id + 1) * 16; memobs(mode, p);
    }
    for (const char* t : {"xmm", "ymm", "zmm"}) for (int id = 0; id < 32; id++) {
      Opd p; p.t = 'm'; p.sz = 4; p.bt = mode == 64 ? "gpq" : "gpd"; p.b = id % 8; p.it = t; p.i = id; p.sh = (id / 2) % 4; p.d = id % 2 ? -8 * id : 4 * id; memobs(mode, p);
    }
    for (int sz : sizes) for (int sg = 0; sg <= 6; sg++) { Opd o; o.t = 'm'; o.sz = sz; o.sg = sg; o.bt = "gpq"; o.b = 3; o.d = sg * 8 - 16; memobs(mode, o); }
    for (int sh = 0; sh < 4; sh++) for (int64_t d : x86forms::disp_pool(4)) {
      Opd o; o.t = 'm'; o.sz = 8; o.bt = "gpq"; o.b = 0; o.it = "gpq"; o.i = 1; o.sh = sh; o.d = d; memobs(mode, o);
      Opd q; q.t = 'm'; q.sz = 4; q.it = "gpq"; q.i = 2; q.sh = sh; q.d = int64_t(int32_t(d)) & 0x7FFFFFFF; memobs(mode, q);
    }
    for (int bc : {2, 4, 8, 16, 32}) for (int sz : {2, 4, 8}) { Opd o; o.t = 'm'; o.sz = sz; o.bc = bc; o.bt = "gpq"; o.b = 1; o.d = 64; memobs(mode, o); }
    for (int at = 0; at < 3; at++) for (int64_t d : {int64_t(0), int64_t(0x1234), int64_t(0x7FFFFFFF), int64_t(-0x1000), int64_t(0x123456789All), int64_t(9), int64_t(10)}) {
      Opd o; o.t = 'm'; o.sz = 4; o.at = at; o.d = d; memobs(mode, o);
      Opd r; r.t = 'm'; r.sz = 8; r.sg = 5; r.at = at; r.d = d; memobs(mode, r);
    }
    for (int64_t d : {int64_t(0), int64_t(127), int64_t(-129), int64_t(2147483647ll), int64_t(-2147483648ll)}) { Opd o; o.t = 'm'; o.sz = 8; o.bt = "rip"; o.d = d; memobs(mode, o); }
    for (int r = 0; r < 1500; r++) {
      uint64_t x = rng.next();
      Opd o; o.t = 'm'; o.sz = sizes[x % 10]; o.sg = (x >> 4) % 3 == 0 ? int((x >> 6) % 7) : 0;
      const char* t = gpt[(x >> 10) % 3];
      if ((x >> 12) % 5) { o.bt = t; o.b = int((x >> 16) % 16); }
      if ((x >> 20) % 3) { o.it = (x >> 22) % 4 == 0 ? (const char*[]){"xmm", "ymm", "zmm"}[(x >> 24) % 3] : t; o.i = int((x >> 26) % (o.it[0] == 'g' ? 16 : 32)); o.sh = int((x >> 31) % 4); }
      std::vector<int64_t> dp = x86forms::disp_pool(int(1 << ((x >> 33) % 7)));
      o.d = dp[(x >> 36) % dp.size()];
      if (o.bt.empty()) o.d = int64_t(int32_t(o.d)) & 0x7FFFFFFF;
      if ((x >> 44) % 6 == 0 && o.sz >= 2 && o.sz <= 8) o.bc = 1 << (1 + (x >> 47) % 5);
      memobs(mode, o);
    }
  }
  // ---- immediates
  for (int bits : {8, 16, 32, 64}) for (int64_t v : x86forms::imm_pool(bits, "")) for (int rep = 0; rep < 4; rep++) {
    Opd o = x86forms::I(v); Operand_ op; x86forms::build_operand(o, op); x86_op_obs(out, 64, o, nextfl(), nullptr, op);
  }
  for (int64_t v = -3; v <= 17; v++) for (uint32_t fl : {0u, 0x20u}) { Opd o = x86forms::I(v); Operand_ op; x86forms::build_operand(o, op); x86_op_obs(out, 64, o, fl, nullptr, op); }
  // ---- labels (operand and memory base) through an assembler
  {
    XMode md; md.init(64);
    for (int kind = 0; kind < 5; kind++) for (int rep = 0; rep < 6; rep++) {
      LabelDesc d; Label L = make_label(*md.a, kind, d);
      uint32_t fl = nextfl();
      String sb; Formatter::format_operand(sb, FormatFlags(fl), md.a, Arch::kX64, L);
      vj::W w; w.beginObj().kv("a", "x86").kv("leg", "O").kv("f", 0).kv("n", "").kv("m", 64);
      w.key("ops").beginArr().beginObj().kv("t", "lb"); w.key("lb"); write_label(w, d); w.endObj().endArr();
      w.kv("k", 0).kv("z", 0).kv("er", -1).kv("sae", 0).kv("opt", 0).key("lbl").beginArr().endArr();
      w.kv("fl", (long long)fl).kv("tx", sb.data()); write_tokens(w, "tk", lex(std::string(sb.data(), sb.size()))); w.endObj(); w.emit(out);
      // [label + disp]
      int32_t disp = int32_t((rep - 2) * 24);
      x86::Mem m = x86::ptr(L, disp); m.set_size(rep % 2 ? 4 : 0);
      String sc; Formatter::format_operand(sc, FormatFlags(fl), md.a, Arch::kX64, m);
      vj::W v; v.beginObj().kv("a", "x86").kv("leg", "O").kv("f", 0).kv("n", "").kv("m", 64);
      v.key("ops").beginArr().beginObj().kv("t", "m").kv("sz", rep % 2 ? 4 : 0).kv("sg", 0).kv("bt", "lb").kv("b", 0).kv("it", "").kv("i", 0).kv("sh", 0).kv("bc", 0).kv("at", 0);
      x86forms::bytes8(v, "d", disp); v.kv("dv", std::to_string(disp)); v.key("lb"); write_label(v, d); v.endObj().endArr();
      v.kv("k", 0).kv("z", 0).kv("er", -1).kv("sae", 0).kv("opt", 0).key("lbl").beginArr().endArr();
      v.kv("fl", (long long)fl).kv("tx", sc.data()); write_tokens(v, "tk", lex(std::string(sc.data(), sc.size()))); v.endObj(); v.emit(out);
    }
  }
  // ---- Compiler virtual registers: named / unnamed, every type, used with their own type and through casts
  {
    CodeHolder code; code.init(Environment(Arch::kX64));
    x86::Compiler cc(&code);
    struct T { const char* c; TypeId tid; } types[] = {{"gpb", TypeId::kUInt8}, {"gpw", TypeId::kUInt16}, {"gpd", TypeId::kUInt32}, {"gpq", TypeId::kUInt64},
                                                       {"xmm", TypeId::kInt32x4}, {"ymm", TypeId::kInt32x8}, {"zmm", TypeId::kInt32x16}, {"k", TypeId::kMask64}, {"mm", TypeId::kMmx64}};
    int nv = 0;
    for (int round = 0; round < 6; round++)
      for (const T& t : types) {
        bool named = round % 2 == 1;
        std::string nm = named ? std::string("v") + t.c + std::to_string(round) + "_" + std::to_string(nv) : std::string();
        Reg r;
        if (t.c[0] == 'g') r = named ? cc.new_gp(t.tid, "%s", nm.c_str()) : cc.new_gp(t.tid);
        else if (t.c[0] == 'k') r = named ? cc.new_k(t.tid, "%s", nm.c_str()) : cc.new_k(t.tid);
        else if (t.c[0] == 'm') r = named ? (Reg)cc.new_mm("%s", nm.c_str()) : (Reg)cc.new_mm();
        else r = named ? cc.new_vec(t.tid, "%s", nm.c_str()) : cc.new_vec(t.tid);
        nv++;
        uint32_t ix = Operand::virt_id_to_index(r.id());
        // views of the virtual register: its own type and casts
        std::vector<std::pair<std::string, Reg>> views;
        views.push_back({t.c, r});
        if (t.c[0] == 'g') {
          x86::Gp g = r.as<x86::Gp>();
          views.push_back({"gpb", g.r8()}); views.push_back({"gph", g.r8_hi()}); views.push_back({"gpw", g.r16()}); views.push_back({"gpd", g.r32()}); views.push_back({"gpq", g.r64()});
        } else if (t.c[1] == 'm' && t.c[0] != 'm') {
          x86::Vec v = r.as<x86::Vec>();
          views.push_back({"xmm", v.xmm()}); views.push_back({"ymm", v.ymm()}); views.push_back({"zmm", v.zmm()});
        }
        for (auto& vw : views) for (uint32_t fl : {0u, 0x100u, 0x400u, 0x500u, nextfl()}) {
          String sb; Formatter::format_operand(sb, FormatFlags(fl), &cc, Arch::kX64, vw.second);
          vj::W w; w.beginObj().kv("a", "x86").kv("leg", "O").kv("f", 0).kv("n", "").kv("m", 64);
          w.key("ops").beginArr().beginObj().kv("t", "vr").kv("c", vw.first).kv("vc", t.c).kv("ix", (long long)ix).kv("nm", nm).endObj().endArr();
          w.kv("k", 0).kv("z", 0).kv("er", -1).kv("sae", 0).kv("opt", 0).key("lbl").beginArr().endArr();
          w.kv("fl", (long long)fl).kv("tx", sb.data()); write_tokens(w, "tk", lex(std::string(sb.data(), sb.size()))); w.endObj(); w.emit(out);
        }
        // the virtual register as base of a memory operand
        if (t.c[0] == 'g' && t.tid == TypeId::kUInt64) {
          x86::Mem m = x86::ptr(r.as<x86::Gp>(), 16 * round - 40); m.set_size(8);
          for (uint32_t fl : {0u, 0x40u, 0x400u}) {
            String sb; Formatter::format_operand(sb, FormatFlags(fl), &cc, Arch::kX64, m);
            vj::W w; w.beginObj().kv("a", "x86").kv("leg", "O").kv("f", 0).kv("n", "").kv("m", 64);
            w.key("ops").beginArr().beginObj().kv("t", "m").kv("sz", 8).kv("sg", 0).kv("bt", "vr").kv("b", 0).kv("it", "").kv("i", 0).kv("sh", 0).kv("bc", 0).kv("at", 0);
            x86forms::bytes8(w, "d", 16 * round - 40); w.kv("dv", std::to_string(16 * round - 40));
            w.key("vr").beginObj().kv("c", "gpq").kv("vc", "gpq").kv("ix", (long long)ix).kv("nm", nm).endObj();
            w.endObj().endArr();
            w.kv("k", 0).kv("z", 0).kv("er", -1).kv("sae", 0).kv("opt", 0).key("lbl").beginArr().endArr();
            w.kv("fl", (long long)fl).kv("tx", sb.data()); write_tokens(w, "tk", lex(std::string(sb.data(), sb.size()))); w.endObj(); w.emit(out);
          }
        }
      }
    // a whole instruction on virtual registers, formatted through the Compiler
    for (int round = 0; round < 40; round++) {
      x86::Gp a = round % 2 ? cc.new_gp32("acc%d", round) : cc.new_gp32();
      x86::Gp b = round % 3 ? cc.new_gp64("ptr%d", round) : cc.new_gp64();
      Operand_ ops[2] = {a, x86::dword_ptr(b, round * 4 - 60)};
      uint32_t fl = nextfl();
      String sb; Formatter::format_instruction(sb, FormatFlags(fl), &cc, Arch::kX64, BaseInst(x86::Inst::kIdAdd), Span<const Operand_>(ops, 2));
      auto vrj = [&](vj::W& w, const char* c, const x86::Gp& g, bool named, const char* fmt) {
        char nm[32] = ""; if (named) snprintf(nm, sizeof nm, fmt, round);
        w.kv("c", c).kv("vc", c).kv("ix", (long long)Operand::virt_id_to_index(g.id())).kv("nm", (const char*)nm);
      };
      vj::W w; w.beginObj().kv("a", "x86").kv("leg", "F").kv("f", 0).kv("n", "add").kv("m", 64);
      w.key("ops").beginArr();
      w.beginObj().kv("t", "vr"); vrj(w, "gpd", a, round % 2, "acc%d"); w.endObj();
      w.beginObj().kv("t", "m").kv("sz", 4).kv("sg", 0).kv("bt", "vr").kv("b", 0).kv("it", "").kv("i", 0).kv("sh", 0).kv("bc", 0).kv("at", 0);
      x86forms::bytes8(w, "d", round * 4 - 60); w.kv("dv", std::to_string(round * 4 - 60));
      w.key("vr").beginObj(); vrj(w, "gpq", b, round % 3, "ptr%d"); w.endObj(); w.endObj();
      w.endArr();
      w.kv("k", 0).kv("z", 0).kv("er", -1).kv("sae", 0).kv("opt", 0).key("lbl").beginArr().endArr();
      w.kv("fl", (long long)fl).kv("tx", sb.data()); write_tokens(w, "tk", lex(std::string(sb.data(), sb.size()))); w.endObj(); w.emit(out);
    }
  }
  fclose(out);
  return 0;
}

// ---------------------------------------------------------------------------------------------------------------
// AArch64
// ---------------------------------------------------------------------------------------------------------------
struct ErrH : public ErrorHandler { void handle_error(Error, const char*, BaseEmitter*) override {} };

struct AMode {
  Environment env{Arch::kAArch64}; CodeHolder code; ErrH eh; a64::Assembler* a = nullptr; StringLogger lg;
  void reset() { delete a; code.reset(); code.init(env, a64forms::kBase); code.set_error_handler(&eh); a = new a64::Assembler(&code); a->set_logger(&lg); }
};

static int cmd_a64(int argc, char** argv) {
  if (argc < 4) return 2;
  AMode md; md.reset();
  std::ifstream in(argv[2]);
  FILE* out = fopen(argv[3], "w");
  if (!in || !out) return 3;
  std::string line, rec;
  uint64_t ctr = 0, seed = vj::env_seed();
  long nf = 0, nl = 0, no = 0;
  while (std::getline(in, line)) {
    if (line.empty()) continue;
    vj::Value c = vj::parse(line);
    a64forms::Built bo;
    bool built = a64forms::build(c, bo);
    if (!built) continue;
    uint64_t h = mix(++ctr * 0x9E3779B97F4A7C15ull + seed);
    std::string head(line, 0, line.size() - 1);
    if (c.has("leg") && c["leg"].s() == "O") {
      uint32_t fl = flags_of(uint32_t(h >> 8) & 255);
      String sb; Formatter::format_operand(sb, FormatFlags(fl), md.a, Arch::kAArch64, bo.ops[0]);
      vj::W w; w.beginObj().kv("a", "a64").kv("fl", (long long)fl).kv("tx", sb.data()); write_tokens(w, "tk", lex(std::string(sb.data(), sb.size()))); w.endObj();
      fputs((head + "," + w.s.substr(1) + "\n").c_str(), out); no++;
      continue;
    }
    {
      uint32_t fl = flags_of(uint32_t(h >> 8) & 255);
      String sb; Formatter::format_instruction(sb, FormatFlags(fl), md.a, Arch::kAArch64, BaseInst(bo.inst_id), Span<const Operand_>(bo.ops, bo.n));
      vj::W w; w.beginObj().kv("a", "a64").kv("leg", "F").kv("fl", (long long)fl).kv("tx", sb.data()); write_tokens(w, "tk", lex(std::string(sb.data(), sb.size()))); w.endObj();
      fputs((head + "," + w.s.substr(1) + "\n").c_str(), out); nf++;
    }
    {
      uint32_t fl = flags_of(uint32_t(h >> 16) & 255);
      if ((h >> 24) % 4 != 0) fl |= 1;
      md.lg.set_flags(FormatFlags(fl)); vary_layout(md.lg, h >> 28);
      std::string ic; if ((h >> 40) % 5 == 0) { ic = "note " + std::to_string(h % 1000); md.a->set_inline_comment(ic.c_str()); }
      md.a->set_offset(0);
      md.lg.clear();
      size_t before = md.a->offset();
      Error e = md.a->emit_op_array(bo.inst_id, bo.ops, bo.n);
      size_t after = md.a->offset();
      md.a->reset_inline_comment();
      if (e == Error::kOk) {
        std::vector<std::string> lines = split_lines(md.lg.data(), md.lg.data_size());
        Line l = split_line(lines.empty() ? std::string() : lines[0], (fl & 1) != 0);
        vj::W w; w.beginObj().kv("a", "a64").kv("leg", "L").kv("fl", (long long)fl).kv("nl", (long long)lines.size()).kv("tx", l.raw);
        write_tokens(w, "tk", lex(l.text)); write_ints(w, "hx", hex_column(l.hex)); w.kv("ic", ic).kv("cm", l.comment);
        write_bytes(w, "b", md.a->buffer_data() + before, after - before); w.endObj();
        fputs((head + "," + w.s.substr(1) + "\n").c_str(), out); nl++;
      }
      md.lg.clear();
      if (md.code.reloc_entries().size() > 4096 || md.a->offset() > (1u << 20)) md.reset();
    }
  }
  fclose(out);
  fprintf(stderr, "fmtobs a64: %llu cases, F=%ld L=%ld O=%ld\n", (unsigned long long)ctr, nf, nl, no);
  return 0;
}

// AArch64 labels of every kind (branches, adr, literal loads) and Compiler virtual registers
static int cmd_a64x(int argc, char** argv) {
  if (argc < 3) return 2;
  FILE* out = fopen(argv[2], "w");
  if (!out) return 3;
  uint64_t ctr = 0;
  auto nextfl = [&]() { return flags_of(uint32_t(mix(++ctr + 77 + vj::env_seed()) & 255)); };
  AMode md; md.reset();
  struct LI { const char* n; InstId id; int shape; } li[] = {{"b", a64::Inst::kIdB, 0}, {"bl", a64::Inst::kIdBl, 0}, {"cbz", a64::Inst::kIdCbz, 1}, {"cbnz", a64::Inst::kIdCbnz, 1},
                                                             {"adr", a64::Inst::kIdAdr, 1}, {"tbz", a64::Inst::kIdTbz, 2}, {"ldr", a64::Inst::kIdLdr, 1}};
  for (int kind = 0; kind < 5; kind++) for (const LI& x : li) for (int fwd = 0; fwd < 2; fwd++) {
    LabelDesc d; Label L = make_label(*md.a, kind, d);
    md.lg.clear();
    if (!fwd) { md.a->bind(L); md.a->nop(); }
    int rid = int((ctr * 5 + 3) % 31);
    Operand_ ops[3]; size_t n = 0;
    if (x.shape >= 1) ops[n++] = a64::x(rid);
    if (x.shape == 2) ops[n++] = Imm(5 + kind);
    ops[n++] = L;
    for (int leg = 0; leg < 2; leg++) {
      uint32_t fl = nextfl() | (leg ? 1u : 0u);
      vj::W w; w.beginObj().kv("n", x.n).kv("mn", x.n).key("o").beginArr();
      if (x.shape >= 1) w.beginObj().kv("k", "r").kv("t", "x").kv("id", rid).kv("sp", 0).endObj();
      if (x.shape == 2) { w.beginObj().kv("k", "i").kv("v", 5 + kind).kv("big", 0); w.wide("l", uint64_t(5 + kind)); w.endObj(); }
      w.beginObj().kv("k", "lb").key("lb"); write_label(w, d); w.endObj();
      w.endArr().kv("a", "a64").kv("leg", leg ? "L" : "F").kv("fl", (long long)fl);
      if (!leg) {
        String sb; Formatter::format_instruction(sb, FormatFlags(fl), md.a, Arch::kAArch64, BaseInst(x.id), Span<const Operand_>(ops, n));
        w.kv("tx", sb.data()); write_tokens(w, "tk", lex(std::string(sb.data(), sb.size())));
      } else {
        md.lg.set_flags(FormatFlags(fl)); md.lg.clear();
        size_t before = md.a->offset();
        Error e = md.a->emit_op_array(x.id, ops, n);
        size_t after = md.a->offset();
        if (e != Error::kOk) continue;
        std::vector<std::string> lines = split_lines(md.lg.data(), md.lg.data_size());
        Line l = split_line(lines.empty() ? std::string() : lines[0], true);
        w.kv("nl", (long long)lines.size()).kv("tx", l.raw); write_tokens(w, "tk", lex(l.text)); write_ints(w, "hx", hex_column(l.hex)); w.kv("ic", "").kv("cm", l.comment);
        write_bytes(w, "b", md.a->buffer_data() + before, after - before);
      }
      w.endObj(); w.emit(out);
    }
    if (fwd) md.a->bind(L);
  }
  // virtual registers
  {
    CodeHolder code; code.init(Environment(Arch::kAArch64));
    a64::Compiler cc(&code);
    for (int round = 0; round < 24; round++) {
      bool named = round % 2 == 1;
      a64::Gp gw = named ? cc.new_gp32("cnt%d", round) : cc.new_gp32();
      a64::Gp gx = named ? cc.new_gp64("adr%d", round) : cc.new_gp64();
      a64::Vec vq = named ? cc.new_vec128("vec%d", round) : cc.new_vec128();
      struct V { const char* t; const char* arr; int ei; Reg r; const char* fmt; } views[] = {
        {"w", "", -1, gw, "cnt%d"}, {"x", "", -1, gx, "adr%d"}, {"x", "", -1, gw.x(), "cnt%d"}, {"w", "", -1, gx.w(), "adr%d"},
        {"q", "", -1, vq, "vec%d"}, {"v", "4S", -1, vq.s4(), "vec%d"}, {"v", "16B", -1, vq.b16(), "vec%d"}, {"v", "S", round % 4, vq.s(uint32_t(round % 4)), "vec%d"},
        {"d", "", -1, vq.d(), "vec%d"}, {"s", "", -1, vq.s(), "vec%d"}};
      for (const V& v : views) {
        uint32_t fl = nextfl();
        String sb; Formatter::format_operand(sb, FormatFlags(fl), &cc, Arch::kAArch64, v.r);
        char nm[32] = ""; if (named) snprintf(nm, sizeof nm, v.fmt, round);
        vj::W w; w.beginObj().kv("n", "").kv("mn", "").kv("leg", "O").key("o").beginArr();
        w.beginObj().kv("k", "vr").kv("t", v.t).kv("arr", v.arr).kv("ei", v.ei).kv("ix", (long long)Operand::virt_id_to_index(v.r.id())).kv("nm", (const char*)nm).endObj();
        w.endArr().kv("a", "a64").kv("fl", (long long)fl).kv("tx", sb.data()); write_tokens(w, "tk", lex(std::string(sb.data(), sb.size()))); w.endObj(); w.emit(out);
      }
    }
  }
  fclose(out);
  return 0;
}

// ---------------------------------------------------------------------------------------------------------------
// logger transcripts
// ---------------------------------------------------------------------------------------------------------------
struct ProgLabel { Label L; LabelDesc d; bool bound = false; };

static void write_line(vj::W& w, const std::string& raw, bool mc) {
  Line l = split_line(raw, mc);
  w.beginObj().kv("tx", raw); write_tokens(w, "tk", lex(l.text)); write_ints(w, "hx", hex_column(l.hex)); w.kv("cm", l.comment).endObj();
}

static int cmd_prog(int argc, char** argv) {
  if (argc < 6) return 2;
  vj::Rng rng(vj::env_seed() * 31 + 5);
  vj::Rng rng2(vj::env_seed()); x86forms::g_gen.rng = &rng2; x86forms::g_gen.thorough = false;
  int nprog = atoi(argv[5]);
  FILE* out = fopen(argv[4], "w");
  if (!out) return 3;
  // pool of x86 requests (64-bit mode, reservoir sample of the sweep's instantiations) and of a64 cases
  std::vector<Inst> pool;
  {
    std::vector<x86forms::Form> forms = x86forms::load_forms(argv[2]);
    uint64_t seen = 0;
    for (const x86forms::Form& f : forms)
      x86forms::instantiate(f, 64, size_t(f.id), [&](Inst& in) {
        seen++;
        if (pool.size() < 6000) pool.push_back(in);
        else { uint64_t j = rng.below(seen); if (j < pool.size()) pool[j] = in; }
      });
  }
  std::vector<std::string> acases;
  { std::ifstream in(argv[3]); std::string l; while (std::getline(in, l)) if (!l.empty() && l.find("\"leg\":\"O\"") == std::string::npos) acases.push_back(l); }
  for (int pi = 0; pi < nprog; pi++) {
    bool isa64 = pi % 3 == 2 && !acases.empty();
    Environment env(isa64 ? Arch::kAArch64 : Arch::kX64);
    CodeHolder code; ErrH eh; code.init(env, isa64 ? a64forms::kBase : 0); code.set_error_handler(&eh);
    StringLogger lg;
    uint32_t fl = flags_of(uint32_t(rng.next() & 255)); if (rng.below(5)) fl |= 1;
    lg.set_flags(FormatFlags(fl)); vary_layout(lg, rng.next());
    x86::Assembler xa; a64::Assembler aa;
    BaseAssembler* a = isa64 ? static_cast<BaseAssembler*>(&aa) : static_cast<BaseAssembler*>(&xa);
    code.attach(a);
    if (!isa64) a->add_diagnostic_options(DiagnosticOptions::kValidateAssembler);
    a->set_logger(&lg);
    Section* sec2 = nullptr; code.new_section(Out<Section*>(sec2), ".data2", SIZE_MAX, SectionFlags::kNone, 8);
    std::vector<ProgLabel> labels;
    for (int k = 0; k < 6; k++) { ProgLabel pl; pl.L = make_label(*a, k % 5, pl.d); labels.push_back(pl); }
    vj::W w; w.beginObj().kv("a", isa64 ? "a64" : "x86").kv("m", 64).kv("pi", pi).kv("fl", (long long)fl).key("calls").beginArr();
    std::vector<std::string> lines;
    int ncalls = 20 + int(rng.below(41));
    auto take_lines = [&]() { for (const std::string& s : split_lines(lg.data(), lg.data_size())) lines.push_back(s); lg.clear(); };
    for (int ci = 0; ci < ncalls; ci++) {
      uint64_t r = rng.below(100);
      size_t l0 = lines.size();
      Section* cs = a->current_section();
      size_t before = a->offset();
      lg.clear();
      if (r < 62) {                                    // instruction
        Operand_ ops[8]; size_t n = 0; InstId id = 0; InstOptions io = InstOptions::kNone; int kreg = 0;
        std::vector<LabelDesc> lbl;
        std::string reqjson;
        bool ok = false;
        if (!isa64) {
          Inst in = pool[rng.below(pool.size())];
          id = InstAPI::string_to_inst_id(Arch::kX64, in.n.c_str(), in.n.size());
          if (id != BaseInst::kIdNone && in.ops.size() <= 6) {
            n = in.ops.size(); ok = true;
            for (size_t j = 0; j < n; j++) if (!x86forms::build_operand(in.ops[j], ops[j])) { ProgLabel& pl = labels[rng.below(labels.size())]; ops[j] = pl.L; lbl.push_back(pl.d); }
            io = x86forms::inst_options(in); kreg = in.k;
            vj::W q; q.beginObj(); x86forms::write_request(q, in); q.endObj(); reqjson = q.s.substr(1, q.s.size() - 2);
          }
        } else if (rng.below(6) == 0) {             // a branch to a program label
          ProgLabel& pl = labels[rng.below(labels.size())];
          bool cb = rng.below(2) == 0; int rid = int(rng.below(31));
          id = cb ? InstId(a64::Inst::kIdCbz) : InstId(a64::Inst::kIdB);
          if (cb) ops[n++] = a64::x(rid);
          ops[n++] = pl.L; lbl.push_back(pl.d); ok = true;
          vj::W q; q.beginObj().kv("n", cb ? "cbz" : "b").kv("mn", cb ? "cbz" : "b").key("o").beginArr();
          if (cb) q.beginObj().kv("k", "r").kv("t", "x").kv("id", rid).kv("sp", 0).endObj();
          q.beginObj().kv("k", "lb").key("lb"); write_label(q, pl.d); q.endObj().endArr().endObj();
          reqjson = q.s.substr(1, q.s.size() - 2);
        } else {
          const std::string& cl = acases[rng.below(acases.size())];
          vj::Value c = vj::parse(cl); a64forms::Built bo;
          if (a64forms::build(c, bo)) { ok = true; id = bo.inst_id; n = bo.n; for (size_t j = 0; j < n; j++) ops[j] = bo.ops[j]; reqjson = cl.substr(1, cl.size() - 2); }
        }
        if (!ok) { ci--; continue; }
        std::string ic; if (rng.below(6) == 0) { ic = "why " + std::to_string(rng.below(1000)); a->set_inline_comment(ic.c_str()); }
        if (!isa64) { a->set_inst_options(io); if (kreg) a->set_extra_reg(x86::k(kreg)); else a->reset_extra_reg(); }
        Error e = a->emit_op_array(id, ops, n);
        a->reset_inst_options(); a->reset_extra_reg(); a->reset_inline_comment();
        size_t after = a->offset();
        if (e != Error::kOk) { lg.clear(); ci--; continue; }
        take_lines();
        w.beginObj().kv("c", "inst"); w.s += "," + reqjson; w.first = false;
        w.key("lbl").beginArr(); for (const LabelDesc& d : lbl) write_label(w, d); w.endArr();
        w.kv("ic", ic).kv("sec", (long long)cs->section_id()).kv("off", (long long)before);
        write_bytes(w, "b", cs->buffer().data() + before, after - before);
      } else if (r < 72) {                            // bind
        ProgLabel* pl = nullptr;
        for (ProgLabel& x : labels) if (!x.bound && rng.below(2)) { pl = &x; break; }
        if (!pl) { labels.emplace_back(); pl = &labels.back(); pl->L = make_label(*a, int(rng.below(5)), pl->d); }
        std::string ic; if (rng.below(4) == 0) { ic = "lbl " + std::to_string(rng.below(100)); a->set_inline_comment(ic.c_str()); }
        Error e = a->bind(pl->L); a->reset_inline_comment();
        if (e != Error::kOk) { lg.clear(); ci--; continue; }
        pl->bound = true; take_lines();
        w.beginObj().kv("c", "bind").key("lb"); write_label(w, pl->d);
        w.kv("ic", ic).kv("sec", (long long)cs->section_id()).kv("off", (long long)before);
      } else if (r < 79) {                            // align
        AlignMode am = AlignMode(rng.below(3)); uint32_t al = 1u << rng.below(6);
        Error e = a->align(am, al);
        if (e != Error::kOk) { lg.clear(); ci--; continue; }
        size_t after = a->offset(); take_lines();
        w.beginObj().kv("c", "align").kv("mode", int(am)).kv("n", (long long)al).kv("sec", (long long)cs->section_id()).kv("off", (long long)before);
        write_bytes(w, "b", cs->buffer().data() + before, after - before);
      } else if (r < 88) {                            // embed
        uint8_t data[16]; size_t ts = size_t(1) << rng.below(4); size_t cnt = 1 + rng.below(16 / ts);
        for (uint8_t& x : data) x = uint8_t(rng.next());
        Error e;
        static const TypeId tids[4] = {TypeId::kUInt8, TypeId::kUInt16, TypeId::kUInt32, TypeId::kUInt64};
        int api = int(rng.below(2));
        if (ts == 1 && api == 0) e = a->embed(data, cnt); else e = a->embed_data_array(tids[ts == 1 ? 0 : ts == 2 ? 1 : ts == 4 ? 2 : 3], data, cnt, 1);
        if (e != Error::kOk) { lg.clear(); ci--; continue; }
        size_t after = a->offset(); take_lines();
        w.beginObj().kv("c", "embed").kv("ts", (long long)ts).kv("sec", (long long)cs->section_id()).kv("off", (long long)before);
        write_bytes(w, "b", cs->buffer().data() + before, after - before);
      } else if (r < 95) {                            // comment
        std::string txt = "step " + std::to_string(ci) + " of prog_" + std::to_string(pi) + " x" + std::to_string(rng.below(4096));
        a->comment(txt.c_str()); take_lines();
        w.beginObj().kv("c", "comment").kv("s", txt); write_tokens(w, "ctk", lex(txt));
      } else {                                        // section switch
        Section* t = cs == code.text_section() ? sec2 : code.text_section();
        a->section(t); take_lines();
        w.beginObj().kv("c", "section").kv("name", t->name()).kv("sid", (long long)t->section_id()); write_tokens(w, "ntk", lex(std::string(t->name())));
      }
      w.kv("l0", (long long)l0).kv("l1", (long long)lines.size()).endObj();
    }
    w.endArr();
    w.key("lines").beginArr(); for (const std::string& s : lines) write_line(w, s, (fl & 1) != 0); w.endArr();
    // final buffers (after fixups were resolved as far as labels were bound): per section
    w.key("secs").beginArr();
    for (Section* s : code.sections()) { w.beginObj().kv("sid", (long long)s->section_id()).kv("size", (long long)s->buffer().size()).endObj(); }
    w.endArr();
    w.endObj(); w.emit(out);
    code.detach(a);
  }
  fclose(out);
  return 0;
}

int main(int argc, char** argv) {
  if (argc < 2) { fprintf(stderr, "usage: fmtobs x86|x86ops|a64|a64x|prog|replay ...\n"); return 2; }
  std::string cmd = argv[1];
  if (cmd == "x86") return cmd_x86(argc, argv);
  if (cmd == "x86ops") return cmd_x86ops(argc, argv);
  if (cmd == "a64") return cmd_a64(argc, argv);
  if (cmd == "a64x") return cmd_a64x(argc, argv);
  if (cmd == "prog") return cmd_prog(argc, argv);
  if (cmd == "replay") return cmd_replay(argc, argv);
  fprintf(stderr, "unknown command %s\n", cmd.c_str());
  return 2;
}
